// C12 harness: fair shares of the proportion plugin (and the capacity plugin's
// realCapability/deserved clamp) computed by the REAL plugins inside a real
// Session opened through pkg/scheduler/uthelper, observed through the
// build-tagged accessors proportion.VerifNew / capacity.VerifNew.
//
// Dimensions of a resource vector: 0 cpu (milli), 1 memory (bytes), 2 pods,
// 3.. scalar resources (milli).  A cell is "0" (key missing) or "1 v".
package main

import (
	"bytes"
	"flag"
	"fmt"
	"math"
	"math/bits"
	"os"
	"runtime"
	"runtime/pprof"
	"sync"
	"sync/atomic"
	"time"

	v1 "k8s.io/api/core/v1"
	"k8s.io/apimachinery/pkg/api/resource"
	"k8s.io/klog/v2"
	metav1 "k8s.io/apimachinery/pkg/apis/meta/v1"

	"verif/harness/internal/vh"
	schedulingv1beta1 "volcano.sh/apis/pkg/apis/scheduling/v1beta1"
	"volcano.sh/volcano/pkg/scheduler/api"
	"volcano.sh/volcano/pkg/scheduler/cache"
	"volcano.sh/volcano/pkg/scheduler/conf"
	"volcano.sh/volcano/pkg/scheduler/framework"
	"volcano.sh/volcano/pkg/scheduler/plugins/capacity"
	"volcano.sh/volcano/pkg/scheduler/plugins/proportion"
	"volcano.sh/volcano/pkg/scheduler/uthelper"
	"volcano.sh/volcano/pkg/scheduler/util"
)

var dimName = []v1.ResourceName{"cpu", "memory", "pods", "nvidia.com/gpu", "example.com/foo", "example.com/bar"}

const maxD = 6
const scale = 1e6

var badInput = []int64{-999999}

// ---------- decoded input ----------
type cell struct {
	ok bool
	v  int64
}
type taskIn struct {
	kind  int64
	cells []cell // D cells, pods forced to 1
}
type queueIn struct {
	w       int64
	state   int64 // 0 Open, 1 Closed, 2 Closing, 3 Unknown
	ph1     int64 // PodGroup phase of the first job: 0 Inqueue, 1 Pending, 2 Running, 3 Unknown, 4 Completed
	ph2     int64 // phase of a second job holding every other task; -1: no second job
	hasCap  bool
	cap     []cell
	gua     []cell
	dsv     []cell
	hasJobs bool
	tasks   []taskIn
}
type input struct {
	D     int
	total []cell
	qs    []queueIn
}

type reader struct {
	t   []int64
	i   int
	bad bool
}

func (r *reader) next() int64 {
	if r.i >= len(r.t) {
		r.bad = true
		return 0
	}
	v := r.t[r.i]
	r.i++
	return v
}
func (r *reader) cell() cell {
	if r.next() == 0 {
		return cell{}
	}
	return cell{true, r.next()}
}
func (r *reader) cells(n int) []cell {
	out := make([]cell, 0, n)
	for i := 0; i < n && !r.bad; i++ {
		out = append(out, r.cell())
	}
	return out
}
func (r *reader) count() int {
	n := r.next()
	if n < 0 || n > 1000 {
		r.bad = true
		return 0
	}
	return int(n)
}

func decode(in []int64) (*input, bool) {
	r := &reader{t: in}
	d := r.next()
	if r.bad || d < 3 || d > maxD {
		return nil, false
	}
	x := &input{D: int(d)}
	x.total = r.cells(x.D)
	nq := r.count()
	for k := 0; k < nq && !r.bad; k++ {
		q := queueIn{w: r.next()}
		q.state = r.next()
		q.hasCap = r.next() != 0
		q.cap = r.cells(x.D)
		q.gua = r.cells(x.D)
		q.dsv = r.cells(x.D)
		q.hasJobs = r.next() != 0
		q.ph1, q.ph2 = r.next(), r.next()
		nt := r.count()
		for j := 0; j < nt && !r.bad; j++ {
			t := taskIn{kind: r.next()}
			c, m := r.next(), r.next()
			t.cells = append([]cell{{true, c}, {true, m}, {true, 1}}, r.cells(x.D-3)...)
			q.tasks = append(q.tasks, t)
		}
		x.qs = append(x.qs, q)
	}
	if r.bad || r.i != len(in) {
		return nil, false
	}
	return x, true
}

// ---------- building the real objects ----------
func quantity(j int, v int64) resource.Quantity {
	switch j {
	case 1:
		return *resource.NewQuantity(v, resource.BinarySI)
	case 2:
		return *resource.NewQuantity(v, resource.DecimalSI)
	default:
		return *resource.NewMilliQuantity(v, resource.DecimalSI)
	}
}

func rlist(cs []cell, skipPods bool) v1.ResourceList {
	l := v1.ResourceList{}
	for j, c := range cs {
		if c.ok && !(skipPods && j == 2) {
			l[dimName[j]] = quantity(j, c.v)
		}
	}
	return l
}

func qname(k int) string { return fmt.Sprintf("q%d", k+1) }

var queueStates = []schedulingv1beta1.QueueState{schedulingv1beta1.QueueStateOpen, schedulingv1beta1.QueueStateClosed,
	schedulingv1beta1.QueueStateClosing, schedulingv1beta1.QueueStateUnknown}
var pgPhases = []schedulingv1beta1.PodGroupPhase{schedulingv1beta1.PodGroupInqueue, schedulingv1beta1.PodGroupPending,
	schedulingv1beta1.PodGroupRunning, schedulingv1beta1.PodGroupUnknown, schedulingv1beta1.PodGroupCompleted}

func pick[T any](xs []T, i int64) T {
	if i < 0 || int(i) >= len(xs) {
		return xs[0]
	}
	return xs[i]
}

// guarantee of a queue exactly as its Queue object states it (cpu/memory fields always exist)
func specGuarantee(q queueIn) []cell {
	out := append([]cell{}, q.gua...)
	for j := 0; j < 2; j++ {
		if !out[j].ok {
			out[j] = cell{true, 0}
		}
	}
	return out
}

// totalGuarantee recomputed from the Queue objects: every queue of the session, whatever its
// state and whether or not it has jobs (proportion.go 95-101, capacity.go 1057-1063)
func specTotalGuarantee(x *input) []cell {
	tg := make([]cell, x.D)
	tg[0], tg[1] = cell{true, 0}, cell{true, 0}
	for _, q := range x.qs {
		for j, c := range q.gua {
			if c.ok {
				tg[j] = cell{true, tg[j].v + c.v}
			}
		}
	}
	return tg
}

type qrec struct {
	present                              bool
	w                                    int64
	des, alloc, req, rcap, gua           *api.Resource
	over                                 bool
}
type result struct {
	rounds int64 // rounds of the proportion loop (0 for capacity)
	tg *api.Resource
	qs []qrec
}

var yes = true

// open a real session with one plugin and copy its per-queue records
func parentOf(k int) string {
	switch {
	case k < 2:
		return "root"
	case (k+1)%2 == 1:
		return qname(0)
	default:
		return qname(1)
	}
}

// ---------- rounds of the real loop, and a watchdog ----------
// proportion.go logs, at V(4), "Considering Queue <NAME>: weight ..." once per queue record and
// round (line 223, before the meet test).  Every session gets queue names of its own
// ("s<session>-q<k>"), so counting those lines per session measures the rounds of THAT session's
// real loop without touching it - also while a runaway loop of an earlier session is still
// logging in the background.
var roundMarker = []byte("Considering Queue <s")

type sessCounter struct{ lines atomic.Int64 }

var sessCounters sync.Map // session slot -> *sessCounter

// Session names come from a small pool of slots (unbounded names would grow the plugin's
// per-queue Prometheus series without limit).  A slot is returned when its session has finished;
// the slot of a session that was abandoned because its loop runs away is never reused, so its
// background logging cannot be counted for a later session.
var slotMu sync.Mutex
var slotBusy [16]bool

func takeSlot() int64 {
	slotMu.Lock()
	defer slotMu.Unlock()
	for i := range slotBusy {
		if !slotBusy[i] {
			slotBusy[i] = true
			return int64(i)
		}
	}
	panic("no free session slot")
}

func freeSlot(i int64) {
	slotMu.Lock()
	slotBusy[i] = false
	slotMu.Unlock()
}

type roundCounter struct{}

func (roundCounter) Write(p []byte) (int, error) {
	i := bytes.Index(p, roundMarker)
	if i < 0 {
		return len(p), nil
	}
	var id int64
	for j := i + len(roundMarker); j < len(p) && p[j] >= '0' && p[j] <= '9'; j++ {
		id = id*10 + int64(p[j]-'0')
	}
	if c, ok := sessCounters.Load(id); ok {
		c.(*sessCounter).lines.Add(1)
	}
	return len(p), nil
}

var klogFlags = func() *flag.FlagSet {
	fs := flag.NewFlagSet("klog-c12", flag.ContinueOnError)
	klog.InitFlags(fs)
	return fs
}()

// the analytic bound of law 107 (Laws.v rounds_bound), recomputed here only to decide when a
// loop is certainly running away: the watchdog fires at 100 times that bound
func roundsBound(x *input) int64 {
	var n, W int64
	for _, q := range x.qs {
		if q.hasJobs {
			n++
			if q.w > 0 {
				W += q.w
			}
		}
	}
	var big int64 = 2
	for _, c := range x.total {
		if c.ok && c.v > big {
			big = c.v
		}
	}
	if W < 2 {
		W = 2
	}
	l2 := func(z int64) int64 { return int64(bits.Len64(uint64(z - 1))) }
	b := 63 + l2(big) + l2(W)
	return n*(int64(x.D)+2) + n*(n+1)/2*(b*7/10+1) + 2
}

// A session that is merely slow (loaded machine, informer sync) is waited for; it is an
// infrastructure failure (exit 3, nothing claimed) only after hardCap.  A VIOLATION is reported
// only on evidence about the loop itself: it has executed more than 100 x rounds_bound rounds.
const hardCap = 10 * time.Minute

var hung atomic.Int64
var slowest time.Duration

func runOnce(x *input, plugin string) result {
	sid := takeSlot()
	finished := false
	defer func() {
		if finished {
			freeSlot(sid)
		}
	}()
	count := plugin == "proportion"
	ctr := &sessCounter{}
	sessCounters.Store(sid, ctr)
	nrec := int64(0)
	for _, q := range x.qs {
		if q.hasJobs {
			nrec++
		}
	}
	rounds := func() int64 {
		if nrec == 0 {
			return 0
		}
		return ctr.lines.Load() / nrec
	}
	if count {
		klog.SetOutput(roundCounter{})
		klogFlags.Set("v", "4")
	}
	type outcome struct {
		r   result
		err any
	}
	ch := make(chan outcome, 1)
	go func() {
		defer func() {
			if e := recover(); e != nil {
				ch <- outcome{err: e}
			}
		}()
		ch <- outcome{r: runOnceRaw(x, plugin, sid)}
	}()
	limit := 100 * roundsBound(x)
	start := time.Now()
	tick := time.NewTicker(100 * time.Millisecond)
	defer tick.Stop()
	var o outcome
wait:
	for {
		select {
		case o = <-ch:
			break wait
		case <-tick.C:
			if r := rounds(); count && r > limit {
				hung.Add(1)
				klogFlags.Set("v", "0")
				panic(fmt.Sprintf("the fair-share loop of %s has executed %d rounds after %v and is still running; more than 100 x rounds_bound = %d: the loop does not terminate",
					plugin, r, time.Since(start).Round(time.Millisecond), limit))
			}
			if time.Since(start) > hardCap {
				fmt.Fprintf(os.Stderr, "INFRA: opening the session did not finish within %v (%d rounds of the loop so far, no evidence of a runaway loop); giving up, nothing is claimed\n", hardCap, rounds())
				os.Exit(3)
			}
		}
	}
	finished = true
	if d := time.Since(start); d > slowest {
		slowest = d
	}
	if count {
		klogFlags.Set("v", "0")
	}
	if o.err != nil {
		panic(o.err)
	}
	o.r.rounds = rounds()
	return o.r
}

// openSession does what uthelper.TestCommonStruct.RegisterSession does (mock scheduler cache
// with fake binder/evictor, objects added through the cache's own handlers, plugin builders
// registered, framework.OpenSession) except that the cache's Run() is not called: Run starts
// about 25 worker goroutines per cache that block in workqueue.Get() for ever after the stop
// channel is closed (the queues are never shut down), which leaked ~700 KB per session and
// brought a thorough-tier run to 60 GB.  Nothing the fair-share computation reads depends on
// those workers: the session is built from the cache's snapshot.
func openSession(t *uthelper.TestCommonStruct, tiers []conf.Tier) (*framework.Session, func()) {
	sc := cache.NewCustomMockSchedulerCache("utmock-scheduler", util.NewFakeBinder(0), util.NewFakeEvictor(0),
		&util.FakeStatusUpdater{}, nil, nil)
	for _, n := range t.Nodes {
		sc.AddOrUpdateNode(n)
	}
	for _, p := range t.Pods {
		sc.AddPod(p)
	}
	for _, pg := range t.PodGroups {
		sc.AddPodGroupV1beta1(pg)
	}
	for _, q := range t.Queues {
		sc.AddQueueV1beta1(q)
	}
	ready := new(atomic.Bool)
	ready.Store(true)
	sc.HyperNodesInfo = api.NewHyperNodesInfoWithCache(nil, nil, nil, ready)
	uthelper.RegisterPlugins(t.Plugins)
	ssn := framework.OpenSession(sc, tiers, nil)
	return ssn, func() {
		framework.CloseSession(ssn)
		framework.CleanupPluginBuilders()
		sc.VerifShutdownQueues()
	}
}

func runOnceRaw(x *input, plugin string, sid int64) result {
	sname := func(l string) string {
		if l == "root" {
			return l
		}
		return fmt.Sprintf("s%d-%s", sid, l)
	}
	hier := plugin == "capacity-hier"
	if hier {
		plugin = "capacity"
	}
	var snapP func() proportion.VerifSnapshot
	var snapC func() capacity.VerifSnapshot
	builders := map[string]framework.PluginBuilder{}
	if plugin == "proportion" {
		builders[plugin] = func(a framework.Arguments) framework.Plugin {
			p, s := proportion.VerifNew(a)
			snapP = s
			return p
		}
	} else {
		builders[plugin] = func(a framework.Arguments) framework.Plugin {
			p, s := capacity.VerifNew(a)
			snapC = s
			return p
		}
	}
	t := uthelper.TestCommonStruct{
		Plugins: builders,
		Nodes:   []*v1.Node{util.BuildNode("n0", rlist(x.total, false), nil)},
	}
	for k, q := range x.qs {
		var cp v1.ResourceList
		if q.hasCap {
			cp = rlist(q.cap, false)
		}
		qu := util.BuildQueue(sname(qname(k)), int32(q.w), cp)
		qu.Status.State = pick(queueStates, q.state)
		if g := rlist(q.gua, false); len(g) > 0 {
			qu.Spec.Guarantee.Resource = g
		}
		if plugin == "capacity" {
			if d := rlist(q.dsv, false); len(d) > 0 {
				qu.Spec.Deserved = d
			}
		}
		if hier {
			qu.Spec.Parent = sname(parentOf(k))
		}
		t.Queues = append(t.Queues, qu)
		if !q.hasJobs || (hier && k < 2) {
			continue
		}
		pg := fmt.Sprintf("pg%d", k+1)
		pg2 := pg + "b"
		t.PodGroups = append(t.PodGroups, util.BuildPodGroup(pg, "ns", sname(qname(k)), 1, nil, pick(pgPhases, q.ph1)))
		if q.ph2 >= 0 {
			t.PodGroups = append(t.PodGroups, util.BuildPodGroup(pg2, "ns", sname(qname(k)), 1, nil, pick(pgPhases, q.ph2)))
		}
		for j, tk := range q.tasks {
			phase, node := v1.PodPending, ""
			gated, deleting := false, false
			switch tk.kind {
			case 0:
			case 1:
				phase, node = v1.PodRunning, "ghost"
			case 3:
				gated = true
			case 4: // assigned but not started: api.Bound
				node = "ghost"
			case 5: // being deleted: api.Releasing
				phase, node, deleting = v1.PodRunning, "ghost", true
			case 6:
				phase, node = v1.PodFailed, "ghost"
			default:
				phase, node = v1.PodSucceeded, "ghost"
			}
			group := pg
			if q.ph2 >= 0 && j%2 == 1 {
				group = pg2
			}
			pod := util.BuildPod("ns", fmt.Sprintf("p%d-%d", k+1, j), node, phase, rlist(tk.cells, true), group, nil, nil)
			if gated {
				pod.Spec.SchedulingGates = []v1.PodSchedulingGate{{Name: "example.com/hold"}}
			}
			if deleting {
				now := metav1.Now()
				pod.DeletionTimestamp = &now
			}
			t.Pods = append(t.Pods, pod)
		}
	}
	opt := conf.PluginOption{Name: plugin, EnabledOverused: &yes, EnabledAllocatable: &yes, EnabledQueueOrder: &yes}
	if hier {
		opt.EnabledHierarchy = &yes
		t.Queues = append(t.Queues, util.BuildQueue("root", 1, nil))
	}
	tiers := []conf.Tier{{Plugins: []conf.PluginOption{opt}}}
	ssn, closeSession := openSession(&t, tiers)
	defer closeSession()
	res := result{qs: make([]qrec, len(x.qs))}
	fill := func(k int, id api.QueueID, w int64, des, alloc, req, rcap, gua *api.Resource) {
		r := &res.qs[k]
		r.present, r.w, r.des, r.alloc, r.req, r.rcap, r.gua = true, w, des, alloc, req, rcap, gua
		if plugin == "proportion" {
			qi := ssn.Queues[id]
			if qi == nil {
				panic("queue with attributes is not in the session")
			}
			r.over = ssn.Overused(qi)
		}
	}
	idx := map[string]int{}
	for k := range x.qs {
		idx[sname(qname(k))] = k
	}
	if plugin == "proportion" {
		s := snapP()
		res.tg = s.TotalGuarantee
		for id, a := range s.Queues {
			fill(idx[a.Name], id, int64(a.Weight), a.Deserved, a.Allocated, a.Request, a.RealCapability, a.Guarantee)
		}
	} else {
		s := snapC()
		res.tg = s.TotalGuarantee
		for id, a := range s.Queues {
			if a.Name == "root" {
				continue
			}
			fill(idx[a.Name], id, x.qs[idx[a.Name]].w, a.Deserved, a.Allocated, a.Request, a.RealCapability, a.Guarantee)
		}
	}
	return res
}

// ---------- encoding ----------
func cellOf(r *api.Resource, j int) (float64, bool) {
	switch j {
	case 0:
		return r.MilliCPU, true
	case 1:
		return r.Memory, true
	}
	v, ok := r.ScalarResources[dimName[j]]
	return v, ok
}

func checkDims(r *api.Resource, D int) {
	for n := range r.ScalarResources {
		found := false
		for j := 2; j < D; j++ {
			if dimName[j] == n {
				found = true
			}
		}
		if !found {
			panic(fmt.Sprintf("unexpected scalar resource %q in a plugin record", n))
		}
	}
}

// exact encoding: the value must be an integer (all inputs are, no division involved)
func encExact(r *api.Resource, D int) []int64 {
	checkDims(r, D)
	out := []int64{}
	for j := 0; j < D; j++ {
		v, ok := cellOf(r, j)
		if !ok {
			out = append(out, 0)
			continue
		}
		if v != math.Trunc(v) || math.Abs(v) > 1e15 {
			panic(fmt.Sprintf("value %v of dimension %s is not an integer", v, dimName[j]))
		}
		out = append(out, 1, int64(v), 1)
	}
	return out
}

func encScaled(r *api.Resource, D int) []int64 {
	checkDims(r, D)
	out := []int64{}
	for j := 0; j < D; j++ {
		v, ok := cellOf(r, j)
		if !ok {
			out = append(out, 0)
			continue
		}
		if math.IsNaN(v) || math.Abs(v) > 1e12 {
			panic(fmt.Sprintf("value %v of dimension %s out of range", v, dimName[j]))
		}
		out = append(out, 1, int64(math.Round(v*scale)))
	}
	return out
}

func encCellsScaled(cs []cell) []int64 {
	out := []int64{}
	for _, c := range cs {
		if !c.ok {
			out = append(out, 0)
		} else {
			out = append(out, 1, c.v*int64(scale))
		}
	}
	return out
}

func tag(i int) []int64 { return []int64{int64(-100 - i)} }

// what the last Run saw (Laws is called right after Run for the same case)
var last struct {
	x    *input
	sel  int
	runs []result
}

const runsPerCase = 3

func sameExact(a, b result, D int) bool {
	if fmt.Sprint(encExact(a.tg, D)) != fmt.Sprint(encExact(b.tg, D)) {
		return false
	}
	for k := range a.qs {
		p, q := a.qs[k], b.qs[k]
		if p.present != q.present {
			return false
		}
		if !p.present {
			continue
		}
		if fmt.Sprint(encExact(p.rcap, D), encExact(p.req, D), encExact(p.alloc, D)) != fmt.Sprint(encExact(q.rcap, D), encExact(q.req, D), encExact(q.alloc, D)) {
			return false
		}
	}
	return true
}

func run(sel int, in []int64) []int64 {
	last.x = nil
	if hung.Load() >= 2 {
		// two sessions of this process already spin in the background: the remaining cases are not
		// run (reported as unanswered, the two timeouts are the violations)
		return []int64{}
	}
	x, ok := decode(in)
	if !ok {
		return badInput
	}
	plugin := "proportion"
	if sel == 3 {
		return runHier(x)
	}
	if sel == 2 {
		plugin = "capacity"
	} else if sel != 1 {
		panic("unknown selector")
	}
	runs := []result{}
	for i := 0; i < runsPerCase; i++ {
		runs = append(runs, runOnce(x, plugin))
	}
	for i := 1; i < len(runs); i++ {
		if !sameExact(runs[0], runs[i], x.D) {
			panic("two sessions over the same objects produced different realCapability/request/allocated (map order dependence)")
		}
		if sel == 2 {
			for k := range runs[0].qs {
				if runs[0].qs[k].present && fmt.Sprint(encExact(runs[0].qs[k].des, x.D)) != fmt.Sprint(encExact(runs[i].qs[k].des, x.D)) {
					panic("two sessions over the same objects produced different deserved (map order dependence)")
				}
			}
		}
	}
	last.x, last.sel, last.runs = x, sel, runs
	r := runs[0]
	out := append(tag(0), encExact(r.tg, x.D)...)
	for k, q := range r.qs {
		if q.present != x.qs[k].hasJobs {
			panic(fmt.Sprintf("queue %s: attributes present=%v but hasJobs=%v", qname(k), q.present, x.qs[k].hasJobs))
		}
		if !q.present {
			continue
		}
		out = append(out, tag(k+1)...)
		out = append(out, encExact(q.rcap, x.D)...)
		if sel == 2 {
			out = append(out, encExact(q.des, x.D)...)
		}
		out = append(out, encExact(q.req, x.D)...)
		out = append(out, encExact(q.alloc, x.D)...)
	}
	return out
}

// hierarchical capacity: request/allocated of the leaves are the exact observables
func runHier(x *input) []int64 {
	if len(x.qs) < 3 {
		panic("hierarchical case needs two intermediate queues and a leaf")
	}
	runs := []result{}
	for i := 0; i < runsPerCase; i++ {
		runs = append(runs, runOnce(x, "capacity-hier"))
	}
	enc := func(r result) []int64 {
		out := []int64{}
		for k, q := range r.qs {
			if !q.present {
				panic("hierarchical capacity: queue " + qname(k) + " has no attributes")
			}
			if k >= 2 && x.qs[k].hasJobs {
				out = append(out, tag(k+1)...)
				out = append(out, encExact(q.req, x.D)...)
				out = append(out, encExact(q.alloc, x.D)...)
			}
		}
		return out
	}
	for i := 1; i < len(runs); i++ {
		if fmt.Sprint(enc(runs[0])) != fmt.Sprint(enc(runs[i])) {
			panic("two sessions over the same objects produced different request/allocated")
		}
	}
	last.x, last.sel, last.runs = x, 3, runs
	return enc(runs[0])
}

// a huge value (inherited MaxFloat64 / MaxInt64 capability) is "no bound": encoded as a missing cell
func encScaledUnbounded(r *api.Resource, D int) []int64 {
	out := []int64{}
	for j := 0; j < D; j++ {
		v, ok := cellOf(r, j)
		if !ok || v > 1e12 {
			out = append(out, 0)
			continue
		}
		out = append(out, 1, int64(math.Round(v*scale)))
	}
	return out
}

// law 106 input for the children of intermediate queue p (0 or 1): "total" is the parent's own
// realCapability as the plugin computed it, tg the children's guarantees from the Queue objects
func hierLawInput(x *input, r result, p int) ([]int64, bool) {
	out := []int64{int64(x.D)}
	out = append(out, encScaledUnbounded(r.qs[p].rcap, x.D)...)
	tg := make([]cell, x.D)
	tg[0], tg[1] = cell{true, 0}, cell{true, 0}
	n := 0
	for k := 2; k < len(x.qs); k++ {
		if parentOf(k) != qname(p) {
			continue
		}
		n++
		for j, c := range x.qs[k].gua {
			if c.ok {
				tg[j] = cell{true, tg[j].v + c.v}
			}
		}
	}
	out = append(out, encCellsScaled(tg)...)
	out = append(out, int64(n))
	for k := 2; k < len(x.qs); k++ {
		if parentOf(k) != qname(p) {
			continue
		}
		q := r.qs[k]
		out = append(out, 1)
		out = append(out, encCellsScaled(specGuarantee(x.qs[k]))...)
		out = append(out, encScaledUnbounded(q.rcap, x.D)...)
		out = append(out, encScaled(q.req, x.D)...)
		out = append(out, encScaled(q.alloc, x.D)...)
		out = append(out, encScaled(q.des, x.D)...)
		out = append(out, 0)
	}
	return out, n > 0
}

// law 107 input: dimensions, weights of the queues with jobs, largest amount in play, rounds
func roundsInput(x *input, r result) []int64 {
	ws := []int64{}
	for k, q := range r.qs {
		if q.present {
			ws = append(ws, x.qs[k].w)
		}
	}
	var big int64 = 1
	for _, c := range x.total {
		if c.ok && c.v > big {
			big = c.v
		}
	}
	out := []int64{int64(x.D), big, r.rounds, int64(len(ws))}
	return append(out, ws...)
}

// statistics for the notes: largest deviation / number of queue records that differ between
// two map orders of the same case (printed to stderr at the end with C12_STATS=1)
var orderDev float64
var orderDiffs int

func maxDev(a, b *api.Resource, D int) float64 {
	m := 0.0
	for j := 0; j < D; j++ {
		va, _ := cellOf(a, j)
		vb, _ := cellOf(b, j)
		if d := math.Abs(va - vb); d > m {
			m = d
		}
	}
	return m
}

// law 111 input: cluster total, then per queue with a record its capability as the Queue object
// states it (normalised as the plugins do: no capability, a missing entry, cpu/memory <= 0 =
// unbounded), its guarantee and the deserved the plugin computed
func capabilityInput(x *input, r result) []int64 {
	out := []int64{int64(x.D)}
	out = append(out, encCellsScaled(x.total)...)
	n := 0
	for _, q := range r.qs {
		if q.present {
			n++
		}
	}
	out = append(out, int64(n))
	for k, q := range r.qs {
		if !q.present {
			continue
		}
		capn := make([]cell, x.D)
		if x.qs[k].hasCap {
			for j, c := range x.qs[k].cap {
				if c.ok && !(j < 2 && c.v <= 0) {
					capn[j] = c
				}
			}
		}
		out = append(out, encCellsScaled(capn)...)
		out = append(out, encCellsScaled(specGuarantee(x.qs[k]))...)
		out = append(out, encScaled(q.des, x.D)...)
	}
	return out
}

func lawInput(x *input, r result, capacityMode bool) []int64 {
	out := []int64{int64(x.D)}
	out = append(out, encCellsScaled(x.total)...)
	out = append(out, encCellsScaled(specTotalGuarantee(x))...)
	n := 0
	for _, q := range r.qs {
		if q.present {
			n++
		}
	}
	out = append(out, int64(n))
	for k, q := range r.qs {
		if !q.present {
			continue
		}
		out = append(out, q.w)
		// the guarantee the Queue object states, not the plugin's copy of it
		out = append(out, encCellsScaled(specGuarantee(x.qs[k]))...)
		out = append(out, encScaled(q.rcap, x.D)...)
		if capacityMode {
			out = append(out, encScaled(q.des, x.D)...) // capacity's deserved is not bounded by the request
		} else {
			out = append(out, encScaled(q.req, x.D)...)
		}
		out = append(out, encScaled(q.alloc, x.D)...)
		out = append(out, encScaled(q.des, x.D)...)
		out = append(out, vh.B(q.over))
	}
	return out
}

func laws(sel int, in, got []int64, law func(lsel int, lin []int64, sig string)) {
	x := last.x
	if x == nil || last.sel != sel {
		return
	}
	if sel == 3 {
		for _, r := range last.runs { // every map order
			for p := 0; p < 2; p++ {
				if li, ok := hierLawInput(x, r, p); ok {
					law(106, li, "")
				}
			}
		}
		return
	}
	if sel == 2 {
		li := lawInput(x, last.runs[0], true)
		law(115, li, "") // 101 without judging a missing realCapability entry (deserved is configuration)
		law(105, li, "")
		law(111, capabilityInput(x, last.runs[0]), "")
		return
	}
	for i, r := range last.runs {
		// float part of the correspondence, once per run (map order)
		lin := append([]int64{}, in...)
		for _, q := range r.qs {
			if q.present {
				lin = append(lin, encScaled(q.des, x.D)...)
				lin = append(lin, vh.B(q.over))
			}
		}
		law(110, lin, "")
		li := lawInput(x, r, false)
		law(101, li, "")
		law(102, li, "")
		law(103, li, "")
		law(105, li, "")
		law(111, capabilityInput(x, r), "")
		law(107, roundsInput(x, r), "")
		law(104, li, "")
		if i > 0 {
			// runs 0 and i differ only in Go's map iteration order
			ab := []int64{int64(x.D)}
			n := 0
			for _, q := range r.qs {
				if q.present {
					n++
				}
			}
			ab = append(ab, int64(n))
			for k, q := range r.qs {
				if !q.present {
					continue
				}
				q0 := last.runs[0].qs[k]
				ab = append(ab, encScaled(q0.des, x.D)...)
				ab = append(ab, encScaled(q0.alloc, x.D)...)
				ab = append(ab, vh.B(q0.over))
				ab = append(ab, encScaled(q.des, x.D)...)
				ab = append(ab, vh.B(q.over))
				if d := maxDev(q0.des, q.des, x.D); d > orderDev {
					orderDev = d
				}
				if d := maxDev(q0.des, q.des, x.D); d != 0 {
					orderDiffs++
				}
			}
			law(108, ab, "")
			// the literal clause, no tolerance and no excuse: since /repo fix 7b69dc3 the loop visits the
			// queues in a fixed order, every map order must give identical shares
			law(109, ab, "")
		}
	}
}

// ---------- generator ----------
type gen struct{ r *vh.Rng }

func encCell(c cell) []int64 {
	if !c.ok {
		return []int64{0}
	}
	return []int64{1, c.v}
}

func (x *input) tokens() []int64 {
	out := []int64{int64(x.D)}
	for _, c := range x.total {
		out = append(out, encCell(c)...)
	}
	out = append(out, int64(len(x.qs)))
	for _, q := range x.qs {
		out = append(out, q.w, q.state, vh.B(q.hasCap))
		for _, cs := range [][]cell{q.cap, q.gua, q.dsv} {
			for _, c := range cs {
				out = append(out, encCell(c)...)
			}
		}
		out = append(out, vh.B(q.hasJobs), q.ph1, q.ph2, int64(len(q.tasks)))
		for _, t := range q.tasks {
			out = append(out, t.kind, t.cells[0].v, t.cells[1].v)
			for _, c := range t.cells[3:] {
				out = append(out, encCell(c)...)
			}
		}
	}
	return out
}

func none(D int) []cell { return make([]cell, D) }

// amount in dimension j, roughly a fraction num/den of the cluster total
func (g gen) part(total []cell, j int, num, den int64) int64 {
	t := total[j].v
	if !total[j].ok || t == 0 {
		t = []int64{8000, 16384, 20, 4000, 4000, 4000}[j]
	}
	v := t * num / den
	if g.r.Chance(1, 3) {
		v += int64(g.r.Range(-3, 3))
	}
	if v < 0 {
		v = 0
	}
	return v
}

func (g gen) total(D int, tiny bool) []cell {
	t := none(D)
	if tiny {
		t[0] = cell{true, int64(g.r.Range(0, 12))}
		t[1] = cell{true, int64(g.r.Range(0, 12))}
	} else {
		t[0] = cell{true, int64(g.r.Range(1, 64)) * 1000}
		t[1] = cell{true, int64(g.r.Range(1, 256)) * 256}
	}
	if g.r.Chance(5, 6) {
		t[2] = cell{true, int64(g.r.Range(1, 110))}
	}
	for j := 3; j < D; j++ {
		if g.r.Chance(3, 4) {
			t[j] = cell{true, int64(g.r.Range(0, 16)) * 1000}
		}
	}
	return t
}

func (g gen) weight() int64 {
	switch g.r.Intn(4) {
	case 0:
		return 1
	case 1:
		return vh.Pick(g.r, []int64{1, 1, 2, 4, 3, 5})
	default:
		return int64(g.r.Range(1, 8))
	}
}

func (g gen) queue(D int, total []cell) queueIn {
	q := queueIn{w: g.weight(), cap: none(D), gua: none(D), dsv: none(D), hasJobs: g.r.Chance(7, 8), ph2: -1}
	if g.r.Chance(2, 5) {
		q.state = int64(g.r.Range(1, 3))
	}
	q.ph1 = vh.Pick(g.r, []int64{0, 0, 0, 1, 1, 2, 2, 3, 4})
	if g.r.Chance(1, 3) {
		q.ph2 = vh.Pick(g.r, []int64{0, 1, 1, 2, 3})
	}
	if g.r.Chance(1, 2) {
		for j := 0; j < D; j++ {
			if g.r.Chance(1, 2) {
				q.cap[j] = cell{true, g.part(total, j, int64(g.r.Range(0, 10)), 8)}
				q.hasCap = true
			}
		}
	}
	if g.r.Chance(2, 5) {
		for j := 0; j < D; j++ {
			if j != 2 && g.r.Chance(1, 2) {
				q.gua[j] = cell{true, g.part(total, j, int64(g.r.Range(0, 6)), 12)}
			}
		}
	}
	for j := 0; j < D; j++ {
		if j != 2 && g.r.Chance(1, 2) {
			q.dsv[j] = cell{true, g.part(total, j, int64(g.r.Range(0, 12)), 8)}
		}
	}
	if q.hasJobs {
		nt := g.r.Range(0, 5)
		for i := 0; i < nt; i++ {
			q.tasks = append(q.tasks, g.task(D, total))
		}
	}
	return q
}

func (g gen) task(D int, total []cell) taskIn {
	t := taskIn{kind: vh.Pick(g.r, []int64{0, 0, 0, 0, 0, 0, 1, 1, 1, 2, 3, 3, 4, 4, 5, 6}), cells: none(D)}
	t.cells[0] = cell{true, g.part(total, 0, int64(g.r.Range(0, 8)), 12)}
	t.cells[1] = cell{true, g.part(total, 1, int64(g.r.Range(0, 8)), 12)}
	if g.r.Chance(1, 8) { // best-effort task: only the implicit pods=1
		t.cells[0].v, t.cells[1].v = 0, 0
	}
	t.cells[2] = cell{true, 1}
	for j := 3; j < D; j++ {
		if g.r.Chance(1, 3) {
			t.cells[j] = cell{true, int64(g.r.Range(0, 4)) * 1000}
		}
	}
	return t
}

func nontrivial(x *input) bool {
	n, pending := 0, false
	for _, q := range x.qs {
		if q.hasJobs {
			n++
			for _, t := range q.tasks {
				if t.kind == 0 || t.kind == 3 {
					pending = true
				}
			}
		}
	}
	return n >= 2 && pending
}

func desc(x *input) any {
	type qd struct {
		State int64
		W     int64
		Cap   string
		Gua   string
		Tasks int
	}
	f := func(cs []cell) string {
		s := ""
		for j, c := range cs {
			if c.ok {
				s += fmt.Sprintf("%s=%d ", dimName[j], c.v)
			}
		}
		return s
	}
	qs := []qd{}
	for _, q := range x.qs {
		c := "-"
		if q.hasCap {
			c = f(q.cap)
		}
		qs = append(qs, qd{q.state, q.w, c, f(q.gua), len(q.tasks)})
	}
	return map[string]any{"total": f(x.total), "queues": qs}
}

func generate(rng *vh.Rng, n int, emit func(id string, sel int, in []int64, kind string, nontrivial bool, desc any)) {
	g := gen{rng}
	for i := 0; i < n; i++ {
		if hung.Load() >= 2 {
			return
		}
		D := g.r.Range(3, maxD)
		kind := "proportion/random"
		var x *input
		switch g.r.Intn(10) {
		case 0: // tiny totals: the 0.1 thresholds matter
			kind = "proportion/tiny"
			x = &input{D: D, total: g.total(D, true)}
			nq := g.r.Range(1, 4)
			for k := 0; k < nq; k++ {
				x.qs = append(x.qs, g.queue(D, x.total))
			}
		case 1: // twins: equal in everything but the weight
			kind = "proportion/twins"
			x = &input{D: D, total: g.total(D, false)}
			q := g.queue(D, x.total)
			q.hasJobs = true
			if len(q.tasks) == 0 {
				q.tasks = append(q.tasks, g.task(D, x.total))
			}
			q2 := q
			q2.w = g.weight()
			x.qs = append(x.qs, q, q2)
			for k := g.r.Range(0, 2); k > 0; k-- {
				x.qs = append(x.qs, g.queue(D, x.total))
			}
		case 2: // cross-capped pair: geometric decay of the remaining resource
			kind = "proportion/cross-capped"
			x = &input{D: D, total: g.total(D, false)}
			a, b := g.queue(D, x.total), g.queue(D, x.total)
			for _, q := range []*queueIn{&a, &b} {
				q.hasJobs, q.hasCap = true, true
				big := g.task(D, x.total)
				big.kind = 0
				big.cells[0].v, big.cells[1].v = x.total[0].v*2, x.total[1].v*2
				q.tasks = append(q.tasks, big)
			}
			a.cap[0], a.cap[1] = cell{true, g.part(x.total, 0, 1, 8)}, cell{}
			b.cap[1], b.cap[0] = cell{true, g.part(x.total, 1, 1, 8)}, cell{}
			x.qs = append(x.qs, a, b)
			if g.r.Chance(1, 2) {
				x.qs = append(x.qs, g.queue(D, x.total))
			}
		case 5: // ring: queue k may grow only in "its" dimension and wastes its share everywhere else,
			// so every dimension decays geometrically and the loop runs for many rounds
			kind = "proportion/ring"
			x = &input{D: D, total: g.total(D, false)}
			dimsOf := []int{0, 1}
			for j := 3; j < D; j++ {
				if x.total[j].ok && x.total[j].v > 0 {
					dimsOf = append(dimsOf, j)
				}
			}
			nq := g.r.Range(2, len(dimsOf))
			for k := 0; k < nq; k++ {
				q := g.queue(D, x.total)
				q.hasJobs, q.hasCap, q.state = true, true, 0
				q.gua = none(D)
				if g.r.Chance(1, 2) {
					q.w = 1
				}
				big := g.task(D, x.total)
				big.kind = 0
				for _, j := range dimsOf {
					big.cells[j] = cell{true, x.total[j].v*2 + 1000}
					if j == dimsOf[k] {
						q.cap[j] = cell{}
					} else {
						q.cap[j] = cell{true, g.part(x.total, j, 1, int64(8*nq)) + 1}
					}
				}
				q.tasks = []taskIn{big}
				x.qs = append(x.qs, q)
			}
		case 3: // a queue that is not Open but still carries a guarantee (with or without jobs,
			// possibly only Pending PodGroups) next to open queues: its guarantee stays reserved
			kind = "proportion/non-open-guarantee"
			x = &input{D: D, total: g.total(D, false)}
			c := g.queue(D, x.total)
			c.state = int64(g.r.Range(1, 3))
			c.hasJobs = g.r.Chance(1, 2)
			if !c.hasJobs {
				c.tasks = nil
			}
			for j := 0; j < D; j++ {
				if j != 2 && (j < 2 || g.r.Chance(1, 2)) {
					c.gua[j] = cell{true, g.part(x.total, j, int64(g.r.Range(2, 9)), 12)}
				}
			}
			x.qs = append(x.qs, c)
			for k := g.r.Range(1, 3); k > 0; k-- {
				q := g.queue(D, x.total)
				q.hasJobs = true
				if g.r.Chance(1, 2) {
					q.ph1 = 1
				}
				if len(q.tasks) == 0 {
					q.tasks = append(q.tasks, g.task(D, x.total))
				}
				x.qs = append(x.qs, q)
			}
			// shuffle so that the closed queue is not always first
			i0 := g.r.Intn(len(x.qs))
			x.qs[0], x.qs[i0] = x.qs[i0], x.qs[0]
		case 4:
			if g.r.Chance(1, 2) { // weights 0 / negative: the webhook forbids them, the scheduler does not
				kind = "proportion/odd-weights"
				x = &input{D: D, total: g.total(D, false)}
				nq := g.r.Range(1, 4)
				for k := 0; k < nq; k++ {
					q := g.queue(D, x.total)
					q.w = vh.Pick(g.r, []int64{0, 0, 0, 1, 2, -1})
					x.qs = append(x.qs, q)
				}
			} else { // every job of every queue is a Pending PodGroup
				kind = "proportion/pending-podgroups"
				x = &input{D: D, total: g.total(D, false)}
				nq := g.r.Range(1, 4)
				for k := 0; k < nq; k++ {
					q := g.queue(D, x.total)
					q.ph1 = 1
					if q.ph2 >= 0 {
						q.ph2 = 1
					}
					for i := range q.tasks {
						q.tasks[i].kind = vh.Pick(g.r, []int64{0, 0, 3})
					}
					x.qs = append(x.qs, q)
				}
			}
		default:
			x = &input{D: D, total: g.total(D, false)}
			nq := vh.Pick(g.r, []int{1, 2, 2, 3, 3, 3, 4, 4, 5, 6})
			for k := 0; k < nq; k++ {
				x.qs = append(x.qs, g.queue(D, x.total))
			}
		}
		emit(fmt.Sprintf("prop-%d", i), 1, x.tokens(), kind, nontrivial(x), desc(x))
		if i%4 == 0 {
			emit(fmt.Sprintf("cap-%d", i), 2, x.tokens(), "capacity/flat", nontrivial(x), desc(x))
		}
		if i%6 == 0 {
			// hierarchical capacity: q1, q2 intermediate (capability + guarantee, no jobs), the rest leaves
			h := &input{D: D, total: g.total(D, false)}
			for k := 0; k < 2; k++ {
				q := g.queue(D, h.total)
				q.hasJobs, q.tasks, q.hasCap = false, nil, true
				q.cap[0] = cell{true, g.part(h.total, 0, int64(g.r.Range(2, 8)), 8) + 1}
				q.cap[1] = cell{true, g.part(h.total, 1, int64(g.r.Range(2, 8)), 8) + 1}
				h.qs = append(h.qs, q)
			}
			for k := g.r.Range(1, 4); k > 0; k-- {
				q := g.queue(D, h.total)
				if g.r.Chance(1, 2) {
					for j := 0; j < 2; j++ {
						q.gua[j] = cell{true, g.part(h.total, j, int64(g.r.Range(0, 4)), 12)}
					}
				}
				h.qs = append(h.qs, q)
			}
			emit(fmt.Sprintf("hier-%d", i), 3, h.tokens(), "capacity/hierarchical", len(h.qs) >= 4, desc(h))
		}
		if i%25 == 0 {
			// malformed: truncated or out-of-range dimension count
			t := x.tokens()
			if g.r.Chance(1, 2) {
				t = t[:g.r.Intn(len(t))]
			} else {
				t[0] = int64(vh.Pick(g.r, []int{0, 1, 2, -1}))
			}
			emit(fmt.Sprintf("bad-%d", i), 1, t, "malformed", false, nil)
		}
	}
}

func main() {
	vh.Harness{Run: run, Laws: laws, Gen: generate}.Main()
	if f := os.Getenv("C12_GOROUTINES"); f != "" {
		if w, err := os.Create(f); err == nil {
			pprof.Lookup("goroutine").WriteTo(w, 1)
			w.Close()
		}
	}
	if os.Getenv("C12_STATS") != "" {
		fmt.Fprintf(os.Stderr, "slowest session: %v; goroutines at exit: %d\n", slowest, runtime.NumGoroutine())
		fmt.Fprintf(os.Stderr, "order statistics: %d queue records differ between two map orders, largest deviation %g\n", orderDiffs, orderDev)
	}
}
