// C08 harness: histories of informer events (pods, nodes, PodGroups, queues),
// scheduling-cycle operations (bind / evict with scripted API failures),
// repair-queue drains and snapshots on a REAL SchedulerCache (mock
// constructor, no goroutines), the whole cache dumped after every step.
package main

import (
	"fmt"

	"verif/harness/internal/cachectl"
	"verif/harness/internal/sched"
	"verif/harness/internal/vh"
)

var badInput = []int64{-999999}

type opT struct {
	Code  int64
	Pod   cachectl.PodSpec
	Node  cachectl.NodeX
	PG    cachectl.PGSpec
	Prio  cachectl.PrioSpec
	Batch []cachectl.BindCtx
	A     []int64 // ids
	OK    bool
	F     int64 // bind: 1 bound, 0 Binder.Bind fails, 2 / 3 pre-bind fails with status update ok / failing
}

func (o opT) enc() []int64 {
	switch o.Code {
	case 1:
		p := o.Pod
		return []int64{1, p.ID, p.Job, p.Node, p.Phase, vh.B(p.Deleting), p.Role, p.Prio, vh.B(p.Preempt), p.CPU, p.Mem, p.GPU, p.Cond}
	case 3:
		n := o.Node
		out := []int64{3, n.ID, n.CPU, n.Mem, n.Pods, n.GPU}
		if n.OverCPUSet {
			out = append(out, 1, n.OverCPU)
		} else {
			out = append(out, 0)
		}
		if n.OverMemSet {
			out = append(out, 1, n.OverMem)
		} else {
			out = append(out, 0)
		}
		return append(out, vh.B(n.OverNode), vh.B(n.Offline), n.Zone, vh.B(n.Unsched), vh.B(n.Tainted), vh.B(n.NotRdy))
	case 5:
		g := o.PG
		return []int64{5, g.ID, g.UID, g.Queue, g.Min, g.Conds, vh.B(g.Ann), g.Class}
	case 15:
		return []int64{15, o.Prio.ID, o.Prio.Value, vh.B(o.Prio.Global)}
	case 9, 10, 13:
		return []int64{o.Code}
	case 7:
		return []int64{7, o.A[0], o.A[1], o.A[2]}
	case 19:
		out := []int64{19, int64(len(o.Batch))}
		for _, x := range o.Batch {
			out = append(out, x.J, x.T, x.N, x.F)
		}
		return out
	case 11:
		return []int64{11, o.A[0], o.A[1], o.A[2], o.F}
	case 12:
		return []int64{12, o.A[0], o.A[1], vh.B(o.OK)}
	}
	return []int64{o.Code, o.A[0]}
}

func encCase(ops []opT) []int64 {
	out := []int64{cachectl.EpsUnits, int64(len(ops))}
	for _, o := range ops {
		out = append(out, o.enc()...)
	}
	return out
}

// decCase mirrors C08/Entry.v dCase; ok=false exactly when the model answers bad_input.
func decCase(in []int64) (ops []opT, ok bool) {
	i := 0
	fail := false
	next := func() int64 {
		if i >= len(in) {
			fail = true
			return 0
		}
		v := in[i]
		i++
		return v
	}
	pos := func() int64 {
		v := next()
		if v <= 0 {
			fail = true
		}
		return v
	}
	ref := func() int64 {
		v := next()
		if v <= 0 {
			return 0
		}
		return v
	}
	_ = next() // eps
	n := next()
	if n < 0 {
		return nil, false
	}
	for k := int64(0); k < n && !fail; k++ {
		o := opT{Code: next()}
		switch o.Code {
		case 1:
			p := cachectl.PodSpec{ID: pos(), Job: ref(), Node: ref(), Phase: next()}
			if p.Phase < 1 || p.Phase > 5 {
				fail = true
			}
			p.Deleting = next() != 0
			p.Role = pos()
			p.Prio = next()
			p.Preempt = next() != 0
			p.CPU, p.Mem, p.GPU, p.Cond = next(), next(), next(), next()
			if p.CPU < 0 || p.Mem < 0 || p.GPU < 0 {
				fail = true
			}
			o.Pod = p
		case 3:
			n := cachectl.NodeX{NodeSpec: sched.NodeSpec{ID: pos(), Has: true, CPU: next(), Mem: next(), Pods: next(), GPU: next()}}
			if next() != 0 {
				n.OverCPUSet, n.OverCPU = true, next()
			}
			if next() != 0 {
				n.OverMemSet, n.OverMem = true, next()
			}
			n.OverNode, n.Offline, n.Zone = next() != 0, next() != 0, next()
			n.Unsched, n.Tainted, n.NotRdy = next() != 0, next() != 0, next() != 0
			o.Node = n
		case 5:
			o.PG = cachectl.PGSpec{ID: pos(), UID: next(), Queue: next(), Min: next(), Conds: next(), Ann: next() != 0, Class: next()}
			if o.PG.Queue < 0 || o.PG.Class < 0 {
				fail = true
			}
		case 15:
			o.Prio = cachectl.PrioSpec{ID: pos(), Value: next(), Global: next() != 0}
		case 7:
			o.A = []int64{pos(), next(), next()}
		case 19:
			m := next()
			if m < 0 {
				fail = true
			}
			for k := int64(0); k < m && !fail; k++ {
				x := cachectl.BindCtx{J: pos(), T: pos(), N: pos(), F: next()}
				if x.F < 0 || x.F > 4 {
					fail = true
				}
				o.Batch = append(o.Batch, x)
			}
		case 18:
			o.A = []int64{next()}
			if o.A[0] < 0 {
				fail = true
			}
		case 2, 4, 6, 8, 14, 16, 17:
			o.A = []int64{pos()}
		case 9, 10, 13:
		case 11:
			o.A = []int64{pos(), pos(), pos()}
			o.F = next()
			if o.F < 0 || o.F > 4 {
				fail = true
			}
			o.OK = o.F == 1
		case 12:
			o.A = []int64{pos(), pos()}
			o.OK = next() != 0
		default:
			fail = true
		}
		ops = append(ops, o)
	}
	if fail || i != len(in) {
		return nil, false
	}
	return ops, true
}

func apply(c *cachectl.Ctl, o opT) int64 {
	switch o.Code {
	case 1:
		c.PodEvent(o.Pod)
	case 2:
		c.PodDelete(o.A[0])
	case 3:
		c.NodeEvent(o.Node)
	case 4:
		c.NodeDelete(o.A[0])
	case 5:
		c.PGEvent(o.PG)
	case 6:
		c.PGDelete(o.A[0])
	case 7:
		c.QueueEvent(o.A[0], o.A[1], o.A[2])
	case 8:
		c.QueueDelete(o.A[0])
	case 9:
		c.DrainCleanup()
	case 10:
		c.DrainResync()
	case 11:
		return c.Bind(o.A[0], o.A[1], o.A[2], o.F)
	case 12:
		return c.Evict(o.A[0], o.A[1], o.OK)
	case 14:
		c.ApiGone(o.A[0])
	case 15:
		c.PrioEvent(o.Prio)
	case 16:
		c.PrioDelete(o.A[0])
	case 17:
		c.JobStatusUpdate(o.A[0])
	case 18:
		c.DrainResyncFailing(o.A[0])
	}
	return 0
}

// the final objects of a history, fed to a fresh cache in the canonical order
// of C08/Model.v build_events: pods, PodGroups, nodes, queues, ascending ids
func freshFromFinal(ops []opT) *cachectl.Ctl {
	pods := map[int64]cachectl.PodSpec{}
	nodes := map[int64]cachectl.NodeX{}
	pgs := map[int64]cachectl.PGSpec{}
	queues := map[int64][2]int64{}
	prios := map[int64]cachectl.PrioSpec{}
	for _, o := range ops {
		switch o.Code {
		case 1:
			pods[o.Pod.ID] = o.Pod
		case 2:
			delete(pods, o.A[0])
		case 3:
			nodes[o.Node.ID] = o.Node
		case 4:
			delete(nodes, o.A[0])
		case 5:
			pgs[o.PG.ID] = o.PG
		case 6:
			delete(pgs, o.A[0])
		case 7:
			queues[o.A[0]] = [2]int64{o.A[1], o.A[2]}
		case 8:
			delete(queues, o.A[0])
		case 15:
			prios[o.Prio.ID] = o.Prio
		case 16:
			delete(prios, o.A[0])
		}
	}
	c := cachectl.New()
	for _, id := range sched.SortedIDs(prios, func(k int64) int64 { return k }) {
		c.PrioEvent(prios[id])
	}
	for _, id := range sched.SortedIDs(pods, func(k int64) int64 { return k }) {
		c.PodEvent(pods[id])
	}
	for _, id := range sched.SortedIDs(pgs, func(k int64) int64 { return k }) {
		c.PGEvent(pgs[id])
	}
	for _, id := range sched.SortedIDs(nodes, func(k int64) int64 { return k }) {
		c.NodeEvent(nodes[id])
	}
	for _, id := range sched.SortedIDs(queues, func(k int64) int64 { return k }) {
		c.QueueEvent(id, queues[id][0], queues[id][1])
	}
	return c
}

func run(sel int, in []int64) []int64 {
	ops, ok := decCase(in)
	if !ok {
		return badInput
	}
	switch sel {
	case 1:
		c := cachectl.New()
		out := []int64{-100}
		for _, o := range ops {
			if o.Code == 13 {
				before := c.Dump()
				ci, enc := c.Snapshot()
				fp := cachectl.Fingerprint(c.SC) // after Snapshot(): it refreshes job priorities in the cache itself
				cachectl.MutateSnapshot(ci)
				same := vh.B(cachectl.Fingerprint(c.SC) == fp)
				out = append(out, -104)
				out = append(out, before...)
				out = append(out, -102)
				out = append(out, enc...)
				out = append(out, -103)
				out = append(out, c.Dump()...)
				out = append(out, -105, same)
				continue
			}
			if o.Code == 19 {
				codes := c.BindBatch(o.Batch)
				out = append(out, -106, int64(len(codes)))
				out = append(out, codes...)
			}
			res := apply(c, o)
			out = append(out, -101, res)
			out = append(out, c.Dump()...)
		}
		return out
	case 2:
		return append([]int64{-100}, freshFromFinal(ops).Dump()...)
	}
	panic(fmt.Sprintf("unknown selector %d", sel))
}

// quiescent: the history ends with both drains and every successful bind /
// eviction has been followed by an event of its pod (see closeHistory)
func quiescent(ops []opT) bool {
	n := len(ops)
	if n < 2 || ops[n-2].Code != 10 || ops[n-1].Code != 9 {
		return false
	}
	// the syntactic condition of C08/Lemmas3.v acked_quiescent: a successful bind / eviction is
	// acknowledged by a later pod notification that carries a node name (an update without one is
	// the update UpdatePod ignores) or by the pod's delete; a pod gone from the API server by its
	// delete (or a re-creation)
	await, gone := map[int64]bool{}, map[int64]bool{}
	for _, o := range ops {
		switch o.Code {
		case 11, 12:
			if o.OK {
				await[o.A[1]] = true
			}
		case 19:
			for _, x := range o.Batch {
				if x.F == 1 {
					await[x.T] = true
				}
			}
		case 14:
			gone[o.A[0]] = true
		case 1:
			if o.Pod.Node != 0 {
				delete(await, o.Pod.ID)
			}
			delete(gone, o.Pod.ID)
		case 2:
			delete(await, o.A[0])
			delete(gone, o.A[0])
		}
	}
	return len(await) == 0 && len(gone) == 0
}

// split the output of selector 1 at the step markers
func segments(got []int64) (marks []int64, segs [][]int64) {
	isMark := func(v int64) bool { return v <= -101 && v >= -106 }
	i := 1
	for i < len(got) {
		if !isMark(got[i]) {
			panic("dump: step marker expected")
		}
		j := i + 1
		for j < len(got) && !isMark(got[j]) {
			j++
		}
		marks = append(marks, got[i])
		segs = append(segs, got[i+1:j])
		i = j
	}
	return
}

func cat(a, b []int64) []int64 { return append(append([]int64{}, a...), b...) }

func laws(sel int, in, got []int64, law func(lsel int, lin []int64, sig string)) {
	if sel != 1 || len(got) == 0 || got[0] != -100 {
		return
	}
	ops, _ := decCase(in)
	marks, segs := segments(got)
	var last []int64
	batches := []opT{}
	for _, o := range ops {
		if o.Code == 19 {
			batches = append(batches, o)
		}
	}
	for k, m := range marks {
		switch m {
		case -106:
			// right after a batch: every accepted context whose API side failed is queued for resync
			b := batches[0]
			batches = batches[1:]
			keys := []int64{}
			for i, x := range b.Batch {
				if segs[k][1+i] == 0 && x.F != 1 {
					keys = append(keys, x.J, x.T)
				}
			}
			lin := cat(segs[k+1][1:], []int64{int64(len(keys) / 2)})
			law(105, cat(lin, keys), "")
		case -101:
			last = segs[k][1:]
			law(101, last, "")
		case -104:
			// -104 before, -102 snapshot, -103 after the snapshot was mutated
			// -105: 1 when a deep fingerprint of everything reachable from the cache is unchanged too
			before, snap, after, same := segs[k], segs[k+1], segs[k+2], segs[k+3]
			law(104, cat(before, snap), "")
			law(103, cat(cat(before, after), same), "")
		}
	}
	if last != nil && quiescent(ops) {
		fresh := freshFromFinal(ops).Dump()
		law(102, cat(last, fresh), "")
	}
}

func main() {
	vh.Harness{Run: run, Laws: laws, Gen: gen}.Main()
}
