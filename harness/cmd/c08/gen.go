package main

import (
	"fmt"

	"verif/harness/internal/cachectl"
	"verif/harness/internal/sched"
	"verif/harness/internal/vh"
)

// The generator keeps the state of a small API server and emits the
// notifications an informer could deliver for it: per object add, updates,
// delete in order (the harness-side store supplies the "old" versions); the
// order ACROSS objects is arbitrary, so pods arrive before their node or
// PodGroup, nodes disappear and come back under running pods, and so on.
//
// API rules respected: spec.nodeName is set at most once and never changes, a
// Running pod has a node, a re-created PodGroup has a new uid.  Job id 1 is
// never used (the model stores it for "no job"); queue 1 is "default".
type world struct {
	r                    *vh.Rng
	pods                 map[int64]*cachectl.PodSpec
	nodes                map[int64]*cachectl.NodeX
	pgs                  map[int64]*cachectl.PGSpec
	queues               map[int64]bool
	uid                  int64
	ack                  map[int64]bool // pods whose successful bind / eviction still has to show up as a pod event
	gone                 map[int64]bool // pods deleted on the API server whose delete notification is still owed
	resync               []int64        // pods with a failed bind / eviction since the last resync drain
	ops                  []opT
	nPods, nNodes, nJobs int64
	pgChurn              bool
	prios                map[int64]*cachectl.PrioSpec
	prioShare            int // percent of steps that are PriorityClass notifications
}

func newWorld(r *vh.Rng) *world {
	return &world{r: r, pods: map[int64]*cachectl.PodSpec{}, nodes: map[int64]*cachectl.NodeX{}, pgs: map[int64]*cachectl.PGSpec{},
		queues: map[int64]bool{}, ack: map[int64]bool{}, gone: map[int64]bool{}, prios: map[int64]*cachectl.PrioSpec{}, prioShare: 5, nPods: int64(r.Range(2, 6)), nNodes: int64(r.Range(1, 3)), nJobs: int64(r.Range(1, 3))}
}

func (w *world) emit(o opT) { w.ops = append(w.ops, o) }

func (w *world) podEvent(p *cachectl.PodSpec) {
	w.emit(opT{Code: 1, Pod: *p})
	delete(w.ack, p.ID)
}

var cpus = []int64{0, 250, 500, 1000, 2000, 4000}
var mems = []int64{0, 1 << 20, 1 << 28, 1 << 30}

func (w *world) newPod(id int64) *cachectl.PodSpec {
	r := w.r
	p := &cachectl.PodSpec{ID: id, Phase: 1, Role: int64(r.Range(1, 2)), Prio: int64(r.Range(0, 3)), Preempt: r.Chance(1, 4),
		CPU: vh.Pick(r, cpus), Mem: vh.Pick(r, mems)}
	if r.Chance(1, 5) {
		p.GPU = int64(r.Range(1, 2))
	}
	if !r.Chance(1, 6) { // most pods belong to a PodGroup
		p.Job = 1 + int64(r.Range(1, int(w.nJobs)))
	}
	if r.Chance(1, 4) { // already placed when first seen (scheduler restart, other schedulers' pods)
		p.Node = int64(r.Range(1, int(w.nNodes)))
		if r.Chance(2, 3) {
			p.Phase = 2
		}
	}
	return p
}

// one step of a pod's life
func (w *world) advancePod(p *cachectl.PodSpec) {
	r := w.r
	switch {
	case p.Phase == 1 && p.Node == 0 && r.Chance(1, 2):
		p.Node = int64(r.Range(1, int(w.nNodes))) // bound by somebody
	case p.Phase == 1 && p.Node != 0 && r.Chance(2, 3):
		p.Phase = 2
	case p.Phase <= 2 && r.Chance(1, 4):
		p.Deleting = true
	case p.Phase == 2 && r.Chance(1, 2):
		p.Phase = int64(r.Range(3, 4))
	case p.Phase == 1 && r.Chance(1, 6):
		p.Phase = 4 // failed before it was scheduled
	case r.Chance(1, 8):
		p.Phase = 5
	case r.Chance(1, 10) && p.Job != 0:
		p.Job = 1 + int64(r.Range(1, int(w.nJobs))) // group annotation edited
	default:
		p.Prio = int64(r.Range(0, 3))
	}
}

func (w *world) step(cycle bool, nodeChurn int) {
	r := w.r
	if r.Chance(w.prioShare, 100) {
		w.prioStep()
		return
	}
	if cycle && r.Chance(1, 5) { // the cycle works between the notifications
		w.cycleOp()
		return
	}
	k := r.Intn(100)
	if w.pgChurn && r.Chance(1, 2) {
		k = vh.Pick(r, []int{70, 70, 80, 80, 80, 44, 91})
	}
	switch {
	case k < 40: // pod add / update
		id := int64(r.Range(1, int(w.nPods)))
		if w.gone[id] { // the only notification a deleted object still gets is its delete
			w.emit(opT{Code: 2, A: []int64{id}})
			delete(w.pods, id)
			delete(w.ack, id)
			delete(w.gone, id)
			return
		}
		p, ok := w.pods[id]
		if !ok {
			p = w.newPod(id)
			w.pods[id] = p
		} else {
			w.advancePod(p)
		}
		w.podEvent(p)
	case k < 48: // pod delete
		id := int64(r.Range(1, int(w.nPods)))
		w.emit(opT{Code: 2, A: []int64{id}})
		delete(w.pods, id)
		delete(w.ack, id)
		delete(w.gone, id)
	case k < 60: // node add / update
		id := int64(r.Range(1, int(w.nNodes)))
		n, known := w.nodes[id]
		if known && r.Chance(1, 2) {
			// only labels / annotations / spec / conditions change: status.allocatable stays as it is
			switch r.Intn(8) {
			case 0, 1:
				n.OverNode, n.OverCPUSet, n.OverCPU = true, true, vh.Pick(r, []int64{0, 500, 1000, 2000})
			case 2:
				n.OverNode, n.OverMemSet, n.OverMem = true, true, vh.Pick(r, []int64{0, 1 << 20, 1 << 28})
			case 3:
				// the annotations disappear (oversubscription switched off on the node)
				n.OverCPUSet, n.OverMemSet = false, false
				n.OverNode = !n.OverNode
			case 4:
				n.Offline = !n.Offline
			case 5:
				n.Zone = int64(r.Range(0, 2))
			case 6:
				n.Unsched, n.Tainted = r.Chance(1, 2), r.Chance(1, 2)
			default:
				n.NotRdy = !n.NotRdy
			}
		} else {
			old := n
			n = &cachectl.NodeX{NodeSpec: sched.NodeSpec{ID: id, Has: true, CPU: vh.Pick(r, []int64{1000, 4000, 8000}),
				Mem: vh.Pick(r, []int64{1 << 28, 1 << 30, 1 << 32}), Pods: int64(r.Range(1, 8))}}
			if r.Chance(1, 3) {
				n.GPU = int64(r.Range(1, 4))
			}
			if known { // a resource update keeps the rest of the object
				n.OverCPUSet, n.OverCPU, n.OverMemSet, n.OverMem = old.OverCPUSet, old.OverCPU, old.OverMemSet, old.OverMem
				n.OverNode, n.Offline, n.Zone, n.Unsched, n.Tainted, n.NotRdy = old.OverNode, old.Offline, old.Zone, old.Unsched, old.Tainted, old.NotRdy
			} else if r.Chance(1, 2) {
				n.OverNode, n.OverCPUSet, n.OverCPU = true, true, vh.Pick(r, []int64{500, 1000})
			}
		}
		w.nodes[id] = n
		w.emit(opT{Code: 3, Node: *n})
	case k < 60+nodeChurn: // node delete
		id := int64(r.Range(1, int(w.nNodes)))
		delete(w.nodes, id)
		w.emit(opT{Code: 4, A: []int64{id}})
	case k < 78: // PodGroup add / update
		id := 1 + int64(r.Range(1, int(w.nJobs)))
		g, ok := w.pgs[id]
		if !ok {
			w.uid++
			g = &cachectl.PGSpec{ID: id, UID: w.uid}
			w.pgs[id] = g
		}
		g.Queue = int64(r.Range(0, 3))
		g.Min = int64(r.Range(0, 3))
		g.Conds = int64(r.Range(0, 2)) // conditions written back by earlier cycles
		g.Ann = r.Chance(1, 2)
		g.Class = 0
		if r.Chance(1, 2) {
			g.Class = int64(r.Range(1, 4)) // class 4 never exists
		}
		w.emit(opT{Code: 5, PG: *g})
	case k < 83: // PodGroup delete
		id := 1 + int64(r.Range(1, int(w.nJobs)))
		delete(w.pgs, id)
		w.emit(opT{Code: 6, A: []int64{id}})
	case k < 88:
		q := int64(r.Range(1, 3))
		w.queues[q] = true
		// a version may change only spec.weight or only status.state (Open / Closed / Closing)
		w.emit(opT{Code: 7, A: []int64{q, int64(r.Range(1, 3)), vh.Pick(r, []int64{1, 1, 1, 2, 3, 0})}})
	case k < 90:
		q := int64(r.Range(1, 3))
		delete(w.queues, q)
		w.emit(opT{Code: 8, A: []int64{q}})
	case k < 93:
		w.emit(opT{Code: 9})
	case k < 95:
		w.emit(opT{Code: 10})
		w.resync = nil
	default:
		if !cycle {
			w.emit(opT{Code: int64(9 + r.Intn(2))})
			return
		}
		w.cycleOp()
	}
}

// PriorityClass notifications: value changes, globalDefault toggles (also two defaults at
// once, which the admission plugin normally prevents but a race can produce), deletes
func (w *world) prioStep() {
	r := w.r
	id := int64(r.Range(1, 3))
	p, ok := w.prios[id]
	if ok && r.Chance(1, 4) {
		delete(w.prios, id)
		w.emit(opT{Code: 16, A: []int64{id}})
		return
	}
	if !ok {
		p = &cachectl.PrioSpec{ID: id, Value: vh.Pick(r, []int64{5, 10, 10, 100}), Global: r.Chance(1, 2)}
		w.prios[id] = p
	} else if r.Chance(1, 2) {
		p.Global = !p.Global
	} else {
		p.Value = vh.Pick(r, []int64{1, 5, 10, 100, 1000})
	}
	w.emit(opT{Code: 15, Prio: *p})
}

// what a scheduling cycle does between two notifications
func (w *world) cycleOp() {
	r := w.r
	if r.Chance(1, 5) {
		w.batchOp()
		return
	}
	switch r.Intn(10) {
	case 0:
		w.emit(opT{Code: 13})
	case 1:
		if r.Chance(1, 2) {
			w.emit(opT{Code: 13})
		} else { // the cycle closes: status of one of its jobs written back
			w.emit(opT{Code: 17, A: []int64{1 + int64(r.Range(1, int(w.nJobs)))}})
		}
	case 2, 3, 4, 5, 6: // bind a pending pod (sometimes a wrong one)
		id := int64(r.Range(1, int(w.nPods)))
		for try := 0; try < 4; try++ {
			if p, ok := w.pods[id]; ok && p.Node == 0 && p.Phase == 1 && !p.Deleting && p.Job != 0 {
				break
			}
			id = int64(r.Range(1, int(w.nPods)))
		}
		job := 1 + int64(r.Range(1, int(w.nJobs)))
		if p, ok := w.pods[id]; ok && p.Job != 0 && !r.Chance(1, 10) {
			job = p.Job
		}
		node := int64(r.Range(1, int(w.nNodes)))
		if r.Chance(1, 8) {
			node = int64(r.Range(1, 3)) // possibly a node the cache has never seen
		}
		fault := int64(1)
		if r.Chance(1, 2) {
			fault = vh.Pick(r, []int64{0, 0, 2, 2, 3, 4, 4})
		}
		ok := fault == 1
		w.emit(opT{Code: 11, A: []int64{job, id, node}, OK: ok, F: fault})
		if !ok {
			w.failed(id)
			// a status write that went through changes the pod on the API server: later
			// notifications carry the condition, and an identical failure finds nothing to write
			if p, has := w.pods[id]; has && p.Job == job && !w.gone[id] && (fault == 0 || fault == 2) {
				if fault == 0 {
					p.Cond = node
				} else {
					p.Cond = 9
				}
				if r.Chance(1, 2) {
					w.podEvent(p)
				}
			}
		}
		// a successful API bind sets spec.nodeName; the notification comes later
		if p, has := w.pods[id]; has && ok && p.Job == job && p.Node == 0 && !w.gone[id] {
			p.Node = node
			w.ack[id] = true
		}
	default: // evict a placed pod
		id := int64(r.Range(1, int(w.nPods)))
		for try := 0; try < 4 && !r.Chance(1, 4); try++ { // sometimes any pod: no node entry, terminated, no job
			if p, ok := w.pods[id]; ok && p.Node != 0 && p.Phase <= 2 && p.Job != 0 {
				break
			}
			id = int64(r.Range(1, int(w.nPods)))
		}
		job := 1 + int64(r.Range(1, int(w.nJobs)))
		if p, ok := w.pods[id]; ok && p.Job != 0 && !r.Chance(1, 10) {
			job = p.Job
		}
		ok := !r.Chance(1, 3)
		w.emit(opT{Code: 12, A: []int64{job, id}, OK: ok})
		if !ok {
			w.failed(id)
		}
		if p, has := w.pods[id]; has && ok && p.Job == job && !w.gone[id] {
			p.Deleting = true
			w.ack[id] = true
		}
	}
}

// a batch of 2-4 bind contexts (BATCH_BIND_NUM > 1) with independent API outcomes in any positions
// awaitsResync: the pod's key already waits in the resync queue (a batch context for it would
// make law 105 hold for the old entry, not for the batch)
func (w *world) awaitsResync(id int64) bool {
	for _, x := range w.resync {
		if x == id {
			return true
		}
	}
	return false
}

// batchFailures counts the contexts of the batches of a case whose API side is scripted to fail:
// with none, law 105 is evaluated on an empty key list
func batchFailures(ops []opT) int {
	n := 0
	for _, o := range ops {
		if o.Code == 19 {
			for _, x := range o.Batch {
				if x.F != 1 {
					n++
				}
			}
		}
	}
	return n
}

func (w *world) batchOp() {
	r := w.r
	m := r.Range(2, 4)
	used := map[int64]bool{}
	b := []cachectl.BindCtx{}
	for k := 0; k < m; k++ {
		id := int64(r.Range(1, int(w.nPods)))
		for try := 0; try < 6; try++ {
			if p, ok := w.pods[id]; ok && !used[id] && !w.awaitsResync(id) && p.Node == 0 && p.Phase == 1 && !p.Deleting && p.Job != 0 {
				break
			}
			id = int64(r.Range(1, int(w.nPods)))
		}
		used[id] = true
		job := 1 + int64(r.Range(1, int(w.nJobs)))
		if p, ok := w.pods[id]; ok && p.Job != 0 && !r.Chance(1, 10) {
			job = p.Job
		}
		b = append(b, cachectl.BindCtx{J: job, T: id, N: int64(r.Range(1, int(w.nNodes))), F: vh.Pick(r, []int64{1, 1, 0, 2, 2, 3, 4})})
	}
	w.emit(opT{Code: 19, Batch: b})
	done := map[int64]bool{}
	for _, x := range b {
		p, has := w.pods[x.T]
		if done[x.T] || !has || p.Job != x.J || p.Node != 0 || w.gone[x.T] {
			continue // only the first context of a task can be accepted
		}
		done[x.T] = true
		if x.F == 1 {
			p.Node = x.N
			w.ack[x.T] = true
		} else {
			w.resync = append(w.resync, x.T)
		}
	}
}

// after a failed bind / eviction the task waits for a resync; sometimes the pod
// disappears from the API server first (the informer is behind), sometimes the
// resync runs at once
func (w *world) failed(id int64) {
	r := w.r
	w.resync = append(w.resync, id)
	switch r.Intn(6) {
	case 0, 1:
		if _, ok := w.pods[id]; ok && !w.gone[id] {
			w.emit(opT{Code: 14, A: []int64{id}})
			w.gone[id] = true
			delete(w.ack, id)
			if r.Chance(2, 3) {
				w.emit(opT{Code: 10})
				w.resync = nil
			}
		}
	case 2:
		w.emit(opT{Code: 10})
		w.resync = nil
	case 3:
		// the API server is unreachable for a while: every GET of the resync fails, the key is re-queued
		w.emit(opT{Code: 18, A: []int64{vh.Pick(r, []int64{0, 1, 2, 9, 10, 11, 12, 30})}})
	}
}

// closeHistory delivers the notifications still owed and drains the repair queues
func (w *world) closeHistory() {
	if w.r.Chance(1, 2) { // resync while the deleted objects are still in the informer store
		w.emit(opT{Code: 10})
	}
	for _, id := range sched.SortedIDs(w.gone, func(k int64) int64 { return k }) {
		w.emit(opT{Code: 2, A: []int64{id}})
		delete(w.pods, id)
		delete(w.ack, id)
	}
	w.gone = map[int64]bool{}
	for _, id := range sched.SortedIDs(w.ack, func(k int64) int64 { return k }) {
		if p, ok := w.pods[id]; ok {
			w.podEvent(p)
		}
	}
	w.emit(opT{Code: 10})
	w.emit(opT{Code: 9})
}

func describe(ops []opT) any {
	out := []string{}
	for _, o := range ops {
		switch o.Code {
		case 1:
			p := o.Pod
			out = append(out, fmt.Sprintf("pod t%d job=%d node=%d phase=%d del=%v cpu=%d", p.ID, p.Job, p.Node, p.Phase, p.Deleting, p.CPU))
		case 2:
			out = append(out, fmt.Sprintf("delpod t%d", o.A[0]))
		case 3:
			n := o.Node
			d := fmt.Sprintf("node n%d cpu=%d pods=%d gpu=%d", n.ID, n.CPU, n.Pods, n.GPU)
			if n.OverCPUSet {
				d += fmt.Sprintf(" over-cpu=%d", n.OverCPU)
			}
			if n.OverMemSet {
				d += fmt.Sprintf(" over-mem=%d", n.OverMem)
			}
			d += fmt.Sprintf(" flags=%d%d z%d %d%d%d", vh.B(n.OverNode), vh.B(n.Offline), n.Zone, vh.B(n.Unsched), vh.B(n.Tainted), vh.B(n.NotRdy))
			out = append(out, d)
		case 4:
			out = append(out, fmt.Sprintf("delnode n%d", o.A[0]))
		case 5:
			out = append(out, fmt.Sprintf("pg j%d uid=%d q=%d min=%d conds=%d ann=%v class=%d", o.PG.ID, o.PG.UID, o.PG.Queue, o.PG.Min, o.PG.Conds, o.PG.Ann, o.PG.Class))
		case 6:
			out = append(out, fmt.Sprintf("delpg j%d", o.A[0]))
		case 7:
			out = append(out, fmt.Sprintf("queue %d weight=%d state=%d", o.A[0], o.A[1], o.A[2]))
		case 8:
			out = append(out, fmt.Sprintf("delqueue %d", o.A[0]))
		case 9:
			out = append(out, "drain-cleanup")
		case 10:
			out = append(out, "drain-resync")
		case 11:
			out = append(out, fmt.Sprintf("bind j%d t%d n%d outcome=%s", o.A[0], o.A[1], o.A[2],
				[]string{"bind-fails", "bound", "prebind-fails", "prebind-and-status-write-fail", "bind-and-status-write-fail"}[o.F]))
		case 12:
			out = append(out, fmt.Sprintf("evict j%d t%d ok=%v", o.A[0], o.A[1], o.OK))
		case 13:
			out = append(out, "snapshot+mutate")
		case 14:
			out = append(out, fmt.Sprintf("api-delete t%d (notification later)", o.A[0]))
		case 17:
			out = append(out, fmt.Sprintf("job-status-update j%d", o.A[0]))
		case 18:
			out = append(out, fmt.Sprintf("%d resync drains with failing GET", o.A[0]))
		case 19:
			d := "bind-batch"
			for _, x := range o.Batch {
				d += fmt.Sprintf(" [j%d t%d n%d %s]", x.J, x.T, x.N,
					[]string{"bind-fails", "bound", "prebind-fails", "prebind-and-status-write-fail", "bind-and-status-write-fail"}[x.F])
			}
			out = append(out, d)
		case 15:
			out = append(out, fmt.Sprintf("prio pc%d value=%d globalDefault=%v", o.Prio.ID, o.Prio.Value, o.Prio.Global))
		case 16:
			out = append(out, fmt.Sprintf("delprio pc%d", o.A[0]))
		}
	}
	return out
}

func nontrivial(ops []opT) bool {
	podEv, nodeEv, change := 0, 0, 0
	seen := map[int64]bool{}
	for _, o := range ops {
		switch o.Code {
		case 1:
			podEv++
			if seen[o.Pod.ID] {
				change++
			}
			seen[o.Pod.ID] = true
		case 2, 4, 6, 11, 12:
			change++
		case 3:
			nodeEv++
		}
	}
	return podEv >= 3 && nodeEv >= 1 && change >= 1
}

func gen(rng *vh.Rng, n int, emit func(id string, sel int, in []int64, kind string, nontrivial bool, desc any)) {
	// the witness history of finding F4 (node removed and re-added under a running pod), always first
	f4 := []opT{
		{Code: 3, Node: cachectl.NodeX{NodeSpec: sched.NodeSpec{ID: 1, Has: true, CPU: 8000, Mem: 1 << 30, Pods: 10}}},
		{Code: 1, Pod: cachectl.PodSpec{ID: 1, Job: 2, Node: 1, Phase: 2, Role: 1, CPU: 2000, Mem: 1 << 20}},
		{Code: 4, A: []int64{1}},
		{Code: 3, Node: cachectl.NodeX{NodeSpec: sched.NodeSpec{ID: 1, Has: true, CPU: 8000, Mem: 1 << 30, Pods: 10}}},
		{Code: 10}, {Code: 9},
	}
	emit("f4-node-readd", 1, encCase(f4), "fixed", true, describe(f4))
	emit("f4-node-readd/build", 2, encCase(f4), "fixed", true, describe(f4))

	// a pre-bind failure (status update succeeding) must be repaired by the resync it queues
	pb := []opT{
		{Code: 3, Node: cachectl.NodeX{NodeSpec: sched.NodeSpec{ID: 1, Has: true, CPU: 4000, Mem: 1 << 30, Pods: 10}}},
		{Code: 5, PG: cachectl.PGSpec{ID: 2, UID: 1, Queue: 1, Min: 1}},
		{Code: 1, Pod: cachectl.PodSpec{ID: 1, Job: 2, Phase: 1, Role: 1, CPU: 1000, Mem: 1 << 20}},
		{Code: 11, A: []int64{2, 1, 1}, F: 2},
		{Code: 1, Pod: cachectl.PodSpec{ID: 1, Job: 2, Phase: 1, Role: 1, CPU: 1000, Mem: 1 << 20}},
		{Code: 10}, {Code: 9},
	}
	emit("prebind-fails", 1, encCase(pb), "fixed", true, describe(pb))
	// both faults at once: the bind request fails AND the status write after it fails
	bs := append([]opT{}, pb...)
	bs[3] = opT{Code: 11, A: []int64{2, 1, 1}, F: 4}
	emit("bind-and-status-write-fail", 1, encCase(bs), "fixed", true, describe(bs))
	// a batch of three contexts: the pre-binder fails for the FIRST, the second is bound, the binder fails for the third
	mkp := func(id int64, node int64) opT {
		return opT{Code: 1, Pod: cachectl.PodSpec{ID: id, Job: 2, Node: node, Phase: 1, Role: 1, CPU: 500, Mem: 1 << 20}}
	}
	for bi, fs := range [][3]int64{{2, 1, 0}, {0, 3, 1}, {1, 1, 1}} {
		name := []string{"bind-batch-prebind-fails-first", "bind-batch-mixed", "bind-batch-all-bound"}[bi]
		bb := []opT{pb[0], pb[1], mkp(1, 0), mkp(2, 0), mkp(3, 0),
			{Code: 19, Batch: []cachectl.BindCtx{{J: 2, T: 1, N: 1, F: fs[0]}, {J: 2, T: 2, N: 1, F: fs[1]}, {J: 2, T: 3, N: 1, F: fs[2]}}}}
		for i, f := range fs {
			if f == 1 {
				bb = append(bb, mkp(int64(i+1), 1)) // the bound pod's notification
			}
		}
		bb = append(bb, opT{Code: 10}, opT{Code: 9})
		emit(name, 1, encCase(bb), "fixed", nontrivial(bb) && batchFailures(bb) > 0, describe(bb))
	}
	// a failed bind, then the API server unreachable for k resync attempts, then recovery
	for _, k := range []int64{1, 10, 11, 30} {
		gf := []opT{pb[0], pb[1], pb[2], {Code: 11, A: []int64{2, 1, 1}, F: 0}, {Code: 18, A: []int64{k}}, {Code: 10}, {Code: 9}}
		emit(fmt.Sprintf("resync-get-fails-%d-times", k), 1, encCase(gf), "fixed", true, describe(gf))
	}
	// the identical failure twice: the second status write is a no-op (the pod already carries the condition)
	nn := []opT{pb[0], pb[1], pb[2], {Code: 11, A: []int64{2, 1, 1}, F: 0},
		{Code: 1, Pod: cachectl.PodSpec{ID: 1, Job: 2, Phase: 1, Role: 1, CPU: 1000, Mem: 1 << 20, Cond: 1}},
		{Code: 10}, {Code: 11, A: []int64{2, 1, 1}, F: 0}, {Code: 10}, {Code: 9}}
	emit("bind-fails-twice-status-write-noop", 1, encCase(nn), "fixed", true, describe(nn))
	// a failed bind whose pod is gone from the API server when the resync runs
	gonePod := []opT{
		{Code: 3, Node: cachectl.NodeX{NodeSpec: sched.NodeSpec{ID: 1, Has: true, CPU: 4000, Mem: 1 << 30, Pods: 10}}},
		{Code: 5, PG: cachectl.PGSpec{ID: 2, UID: 1, Queue: 1, Min: 1}},
		{Code: 1, Pod: cachectl.PodSpec{ID: 1, Job: 2, Phase: 1, Role: 1, CPU: 1000, Mem: 1 << 20}},
		{Code: 11, A: []int64{2, 1, 1}, F: 0},
		{Code: 14, A: []int64{1}},
		{Code: 10},
		{Code: 2, A: []int64{1}},
		{Code: 10}, {Code: 9},
	}
	emit("resync-finds-no-pod", 1, encCase(gonePod), "fixed", true, describe(gonePod))

	// the oversold amount of a node changes while status.allocatable stays the same: the ledger must follow
	nx := func(over int64) cachectl.NodeX {
		return cachectl.NodeX{NodeSpec: sched.NodeSpec{ID: 1, Has: true, CPU: 4000, Mem: 1 << 30, Pods: 10},
			OverNode: true, OverCPUSet: true, OverCPU: over}
	}
	ov := []opT{
		{Code: 3, Node: nx(1000)},
		{Code: 1, Pod: cachectl.PodSpec{ID: 1, Job: 2, Node: 1, Phase: 2, Role: 1, CPU: 1000, Mem: 1 << 20}},
		{Code: 3, Node: nx(3000)},
		{Code: 10}, {Code: 9},
	}
	emit("oversubscription-amount-changes", 1, encCase(ov), "fixed", true, describe(ov))
	// the oversubscription annotation is removed: the oversold amount must go with it (fixed by d373588)
	plain := cachectl.NodeX{NodeSpec: sched.NodeSpec{ID: 1, Has: true, CPU: 4000, Mem: 1 << 30, Pods: 10}}
	orm := []opT{
		{Code: 3, Node: nx(2000)},
		{Code: 1, Pod: cachectl.PodSpec{ID: 1, Job: 2, Node: 1, Phase: 2, Role: 1, CPU: 1000, Mem: 1 << 20}},
		{Code: 3, Node: plain},
		{Code: 13},
		{Code: 10}, {Code: 9},
	}
	emit("oversubscription-annotation-removed", 1, encCase(orm), "fixed", true, describe(orm))
	// a PodGroup that already carries conditions; the cycle refreshes them in its snapshot
	pc := []opT{
		{Code: 7, A: []int64{1, 1, 1}},
		{Code: 5, PG: cachectl.PGSpec{ID: 2, UID: 1, Queue: 1, Min: 1, Conds: 2, Ann: true}},
		{Code: 1, Pod: cachectl.PodSpec{ID: 1, Job: 2, Phase: 1, Role: 1, CPU: 1000, Mem: 1 << 20}},
		{Code: 13},
		{Code: 10}, {Code: 9},
	}
	emit("snapshot-podgroup-conditions", 1, encCase(pc), "fixed", true, describe(pc))
	// audit W1: a snapshot node holds the copy of a task whose job (no PodGroup) is not in the snapshot
	sn := []opT{
		{Code: 3, Node: cachectl.NodeX{NodeSpec: sched.NodeSpec{ID: 1, Has: true, CPU: 8000, Mem: 1 << 30, Pods: 10}}},
		{Code: 1, Pod: cachectl.PodSpec{ID: 1, Job: 2, Node: 1, Phase: 2, Role: 1, CPU: 2000, Mem: 1 << 20}},
		{Code: 13},
		{Code: 10}, {Code: 9},
	}
	emit("snapshot-node-task-of-job-outside-snapshot", 1, encCase(sn), "fixed", true, describe(sn))
	// AddBindTask onto a placeholder NodeInfo (pod seen before its node; node removed under a running
	// pod) is refused like an unknown node (fix 8dab8c3); onto the re-added node it is accepted
	ph := []opT{
		{Code: 5, PG: cachectl.PGSpec{ID: 2, UID: 1, Queue: 1, Min: 1}},
		{Code: 1, Pod: cachectl.PodSpec{ID: 1, Job: 2, Node: 1, Phase: 2, Role: 1, CPU: 2000, Mem: 1 << 20}},
		{Code: 1, Pod: cachectl.PodSpec{ID: 2, Job: 2, Phase: 1, Role: 1, CPU: 1000, Mem: 1 << 20}},
		{Code: 11, A: []int64{2, 2, 1}, F: 1},
		{Code: 3, Node: cachectl.NodeX{NodeSpec: sched.NodeSpec{ID: 1, Has: true, CPU: 8000, Mem: 1 << 30, Pods: 10}}},
		{Code: 4, A: []int64{1}},
		{Code: 11, A: []int64{2, 2, 1}, F: 0},
		{Code: 3, Node: cachectl.NodeX{NodeSpec: sched.NodeSpec{ID: 1, Has: true, CPU: 8000, Mem: 1 << 30, Pods: 10}}},
		{Code: 11, A: []int64{2, 2, 1}, F: 0},
		{Code: 10}, {Code: 9},
	}
	emit("bind-onto-placeholder-refused", 1, encCase(ph), "fixed", true, describe(ph))

	// PriorityClass witnesses: a job without priorityClassName gets the default priority in Snapshot()
	base := []opT{{Code: 7, A: []int64{1, 1, 1}}, {Code: 5, PG: cachectl.PGSpec{ID: 2, UID: 1, Queue: 1, Min: 1}},
		{Code: 5, PG: cachectl.PGSpec{ID: 3, UID: 2, Queue: 1, Min: 1, Class: 2}}}
	fin := []opT{{Code: 10}, {Code: 9}}
	pw := func(name string, mid ...opT) {
		ops := append(append(append([]opT{}, base...), mid...), fin...)
		emit(name, 1, encCase(ops), "fixed", true, describe(ops))
		emit(name+"/build", 2, encCase(ops), "fixed", true, describe(ops))
	}
	pcl := func(id, v int64, g bool) opT {
		return opT{Code: 15, Prio: cachectl.PrioSpec{ID: id, Value: v, Global: g}}
	}
	pw("prio-default-switched-off", pcl(1, 50, true), pcl(1, 50, false))
	pw("prio-default-value-updated", pcl(1, 50, true), pcl(1, 70, true))
	pw("prio-two-defaults-later-deleted", pcl(1, 10, true), pcl(2, 20, true), opT{Code: 16, A: []int64{2}})
	pw("prio-two-defaults-reverse-order", pcl(2, 20, true), pcl(1, 10, true))
	pw("prio-default-deleted", pcl(1, 10, true), pcl(2, 20, false), opT{Code: 16, A: []int64{1}})
	pw("prio-non-default-global-deleted", pcl(2, 20, true), pcl(1, 10, true), opT{Code: 16, A: []int64{2}})

	// a queue closed by a status-only update (same generation, same spec), then re-weighted by a spec-only update
	qs := []opT{{Code: 7, A: []int64{2, 1, 1}}, {Code: 7, A: []int64{2, 1, 2}}, {Code: 7, A: []int64{2, 3, 2}}, {Code: 10}, {Code: 9}}
	emit("queue-status-only-then-spec-only-update", 1, encCase(qs), "fixed", true, describe(qs))
	// UpdateJobStatus between notifications: ledgers and membership untouched
	js := []opT{{Code: 7, A: []int64{1, 1, 1}}, {Code: 5, PG: cachectl.PGSpec{ID: 2, UID: 1, Queue: 1, Min: 1, Ann: true}},
		{Code: 1, Pod: cachectl.PodSpec{ID: 1, Job: 2, Phase: 1, Role: 1, CPU: 1000, Mem: 1 << 20}},
		{Code: 17, A: []int64{2}}, {Code: 13}, {Code: 5, PG: cachectl.PGSpec{ID: 2, UID: 1, Queue: 1, Min: 2}}, {Code: 17, A: []int64{2}},
		{Code: 10}, {Code: 9}}
	emit("job-status-update", 1, encCase(js), "fixed", true, describe(js))

	for i := 0; i < n; i++ {
		r := rng.Fork()
		w := newWorld(r)
		kind := "events"
		cycle, churn := false, 4
		switch {
		case i%10 < 3:
		case i%10 < 5:
			kind, churn = "node-churn", 14
		case i%10 == 6:
			// PriorityClass churn around PodGroups with and without a class name, queues present early
			kind = "prio-churn"
			w.prioShare = 45
			w.queues[1], w.queues[2] = true, true
			w.emit(opT{Code: 7, A: []int64{1, 1, 1}})
			w.emit(opT{Code: 7, A: []int64{2, 1, 1}})
		case i%10 < 6:
			// one job, PodGroup deleted and re-created (new uid) around pod adds / deletes, few drains:
			// every branch of processCleanupJob (job gone, PgUID mismatch, not terminated => retry)
			kind = "pg-churn"
			w.nJobs, w.nNodes, w.pgChurn = 1, 1, true
		default:
			kind, cycle = "cycle", true
		}
		steps := r.Range(5, 45)
		if r.Chance(1, 10) {
			steps = r.Range(1, 4)
		}
		for s := 0; s < steps; s++ {
			w.step(cycle, churn)
		}
		if !r.Chance(1, 12) { // a few histories are left unfinished: no convergence claim for them
			w.closeHistory()
		}
		in := encCase(w.ops)
		nt := nontrivial(w.ops)
		emit(fmt.Sprintf("h%d", i), 1, in, kind, nt, describe(w.ops))
		if i%3 == 0 {
			emit(fmt.Sprintf("h%d/build", i), 2, in, "build/"+kind, nt, describe(w.ops))
		}
		if i%25 == 0 {
			// malformed: the model answers bad_input, so must the harness-side decoder
			bad := append([]int64{}, in...)
			switch (i / 25) % 4 {
			case 0:
				bad = bad[:len(bad)-1]
			case 1:
				bad = append(bad, 7)
			case 2:
				bad[1]++
			default:
				if len(bad) > 2 {
					bad[2] = 77
				}
			}
			emit(fmt.Sprintf("h%d/malformed", i), 1, bad, "malformed", false, nil)
		}
	}
}
