// C05 harness: histories of requests / pod events / informer syncs / API
// faults run on the REAL volcano job controller (fake clientsets), observed
// through the job status and pods in the fake API server after every step.
package main

import (
	"flag"
	"fmt"
	"os"
	"testing"
	"testing/synctest"

	"verif/harness/internal/jobctl"
	"verif/harness/internal/vh"
)

// the last history run (the laws are derived from the same observations)
var (
	lastIn   []int64
	lastHist jobctl.History
	lastObs  []jobctl.Obs
)

func run(sel int, in []int64) []int64 {
	switch sel {
	case 1:
		h := (&jobctl.R{T: in}).History()
		e := jobctl.Get()
		ns, obs := e.Run(h)
		defer e.Cleanup(ns)
		lastIn, lastHist, lastObs = in, h, obs
		if os.Getenv("C05_DEBUG") != "" {
			for k, o := range obs {
				fmt.Fprintf(os.Stderr, "%d err=%v wrote=%v fresh=%v pgv=%v calls=%v\n", k, o.Err, o.Wrote, o.FreshBefore, o.PgViewBefore, o.Calls)
			}
		}
		w := &jobctl.W{}
		for k, o := range obs {
			w.Obs(k, o)
		}
		return w.T
	case 2:
		return runPolicies(in)
	}
	panic("unknown selector")
}

// The whole harness runs inside a testing/synctest bubble: time is a fake clock that
// only moves when the harness sleeps, so the REAL timers of the controller's delayed
// actions (policies with a timeout, AddDelayActionForJob) fire exactly where a history
// says so.  testing.Main is only the way to obtain the *testing.T synctest asks for.
func main() {
	if os.Getenv("C05_PROBE") != "" {
		probe()
		return
	}
	args := os.Args
	testing.Init()
	os.Args = args[:1]
	flag.Parse() // the testing flags are now "parsed"; the harness flags are parsed by vh later
	os.Args = args
	testing.Main(func(pat, str string) (bool, error) { return true, nil },
		[]testing.InternalTest{{Name: "harness", F: func(t *testing.T) {
			synctest.Test(t, func(t *testing.T) {
				jobctl.FakeClock = true
				jobctl.WaitIdle = synctest.Wait
				vh.Harness{Run: run, Laws: laws, Gen: gen}.Main()
				os.Exit(0) // the controller's background goroutines never end
			})
		}}}, nil, nil)
}

func i64(v int64) *int64 { return &v }

func probe() {
	two := int64(2)
	h := jobctl.History{
		Spec:   jobctl.Spec{Tasks: []jobctl.Task{{Name: 1, Replicas: 2, Min: &two, Cpu: 100}}, Min: 2, MaxRetry: 3},
		Status: jobctl.Status{TscNil: true},
		Ops: []jobctl.Op{
			{Code: 1, Req: jobctl.Req{Event: 8, UidMatch: 1}},
			{Code: 8},
			{Code: 5, Ph: 2},
			{Code: 8},
			{Code: 1, Req: jobctl.Req{Event: 8, UidMatch: 1}},
			{Code: 7},
			{Code: 2, T: 1, I: 0, Ph: 2},
			{Code: 2, T: 1, I: 1, Ph: 2},
			{Code: 7},
			{Code: 1, Req: jobctl.Req{Event: 8, UidMatch: 1}},
			{Code: 1, Req: jobctl.Req{Event: 8, UidMatch: 1}},
			{Code: 1, Req: jobctl.Req{Event: 8, UidMatch: 1}},
		},
	}
	w := &jobctl.W{}
	w.History(h)
	fmt.Println("in:", w.T)
	e := jobctl.Get()
	_, obs := e.Run(h)
	for k, o := range obs {
		fmt.Printf("%d err=%v wrote=%v st=%+v cache=%+v pods=%+v pg=%v calls=%v\n", k, o.Err, o.Wrote, o.Status, o.Cache, o.Pods, o.Pg, o.Calls)
	}
}
