package main

import (
	"fmt"

	"verif/harness/internal/jobctl"
	"verif/harness/internal/vh"
	"volcano.sh/volcano/pkg/controllers/job"
)

// ---------- selector 2: applyPolicies ----------

func runPolicies(in []int64) []int64 {
	r := &jobctl.R{T: in}
	sp := r.Spec()
	ver := r.Z()
	op := r.Req()
	j := jobctl.NewJob("nsp")
	j.Spec = jobctl.GoSpec(sp)
	j.Status.Version = int32(ver)
	req := jobctl.GoReq("nsp", op)
	act, delay := job.VerifApplyPolicies(j, &req)
	if delay != 0 && delay != int64(jobctl.DelayD) {
		panic("unexpected delay")
	}
	for i, a := range jobctl.ActionNames {
		if a == act {
			return []int64{int64(i), vh.B(delay != 0)}
		}
	}
	return []int64{9, vh.B(delay != 0)} // any other action string behaves as "default"
}

// ---------- laws ----------

func laws(sel int, in, got []int64, law func(lsel int, lin []int64, sig string)) {
	switch sel {
	case 1:
		// lifecycle laws over the whole observed trace
		law(101, append(append([]int64{}, in...), got...), "")
		// counters law, one case per processed request, per code path
		if !sameTokens(lastIn, in) {
			panic("laws called without the matching run")
		}
		h, obs := lastHist, lastObs
		for k, o := range h.Ops {
			prev, cur := obs[k], obs[k+1]
			rq := o.Req
			if o.Code == 14 && cur.Fired != nil && cur.Wrote {
				rq = *cur.Fired // an expired delayed action that wrote a status: judged like a request with that action
			} else if o.Code != 1 {
				continue
			}
			if !cur.FreshBefore || cur.Err {
				continue
			}
			w := &jobctl.W{}
			w.Spec(h.Spec)
			w.Req(rq)
			w.B(cur.FreshBefore)
			w.B(cur.PgViewBefore)
			w.Obs(0, prev)
			w.Obs(1, cur)
			law(111, w.T, "")
			law(112, w.T, "")
			law(113, w.T, "")
			law(114, w.T, "")
			law(115, w.T, "")
		}
	case 2:
		r := &jobctl.R{T: in}
		_ = r.Spec()
		lin := append([]int64{}, in[r.I:]...) // version, request
		lin = append(lin, got[0])
		law(120, lin, "")
	}
}

func sameTokens(a, b []int64) bool {
	if len(a) != len(b) {
		return false
	}
	for i := range a {
		if a[i] != b[i] {
			return false
		}
	}
	return true
}

// ---------- generators ----------

func i64p(v int64) *int64 { return &v }

var policyEvents = []int64{1, 2, 2, 3, 3, 4, 6, 7, 10, 11} // *, PodFailed, PodEvicted, PodPending, Unknown, TaskCompleted, JobUpdated, TaskFailed
var policyActions = []int64{1, 2, 2, 3, 4, 5, 6, 7, 8, 0, 9}

func genPolicy(r *vh.Rng) jobctl.Policy {
	p := jobctl.Policy{Action: vh.Pick(r, policyActions)}
	switch r.Intn(4) {
	case 0:
		p.Exit = i64p(int64(vh.Pick(r, []int{1, 2, 137})))
	case 1:
		p.Events = []int64{vh.Pick(r, policyEvents), vh.Pick(r, policyEvents)}
	default:
		p.Events = []int64{vh.Pick(r, policyEvents)}
	}
	if r.Chance(1, 4) {
		p.Timeout = 1
	}
	return p
}

// a policy with a real timeout: the action is delayed
func genDelayedPolicy(r *vh.Rng) jobctl.Policy {
	p := jobctl.Policy{Action: int64(vh.Pick(r, []int{2, 2, 1, 6, 7, 3, 4, 8, 0})), Timeout: 2}
	switch r.Intn(5) {
	case 0:
		p.Events = []int64{2} // PodFailed
	case 1:
		p.Events = []int64{3} // PodEvicted
	case 2:
		p.Exit = i64p(int64(vh.Pick(r, []int{1, 2, 137})))
	default:
		p.Events = []int64{4} // PodPending
	}
	return p
}

func genPolicies(r *vh.Rng, max int) []jobctl.Policy {
	var out []jobctl.Policy
	for i := r.Intn(max + 1); i > 0; i-- {
		out = append(out, genPolicy(r))
	}
	return out
}

func genSpec(r *vh.Rng) jobctl.Spec {
	var s jobctl.Spec
	nt := r.Range(1, 3)
	if r.Chance(1, 12) {
		nt = 0
	}
	total := int64(0)
	for i := 0; i < nt; i++ {
		t := jobctl.Task{Name: int64(i + 1), Replicas: int64(vh.Pick(r, []int{0, 1, 1, 2, 2, 3})), Cpu: 100}
		if r.Chance(1, 2) {
			t.Min = i64p(int64(r.Range(0, int(t.Replicas))))
		}
		t.Policies = genPolicies(r, 2)
		total += t.Replicas
		s.Tasks = append(s.Tasks, t)
	}
	switch r.Intn(4) {
	case 0:
		s.Min = total
	case 1:
		s.Min = int64(r.Range(0, int(total)))
	case 2:
		s.Min = 1
	default:
		s.Min = total
	}
	if r.Chance(1, 4) {
		s.MinSucc = i64p(int64(r.Range(1, int(total)+1)))
	}
	s.MaxRetry = int64(vh.Pick(r, []int{0, 1, 2, 3, 3}))
	s.Policies = genPolicies(r, 2)
	return s
}

func genPodRef(r *vh.Rng, s jobctl.Spec) (int64, int64) {
	if len(s.Tasks) == 0 || r.Chance(1, 20) {
		return 7, 0
	}
	t := vh.Pick(r, s.Tasks)
	return t.Name, int64(r.Range(-1, int(t.Replicas)))
}

func genReq(r *vh.Rng, s jobctl.Spec, verHint int64, faults bool) jobctl.Req {
	q := jobctl.Req{UidMatch: int64(vh.Pick(r, []int{2, 2, 2, 1, 1, 0}))}
	q.Event = int64(vh.Pick(r, []int{8, 8, 8, 2, 2, 3, 4, 5, 6, 7, 9, 10, 11, 0, 1}))
	if r.Chance(1, 4) {
		q.Action = i64p(int64(r.Intn(10)))
	}
	if r.Chance(3, 4) {
		t, i := genPodRef(r, s)
		q.Task = i64p(t)
		if r.Chance(4, 5) {
			q.Pod = &[2]int64{t, i}
		}
		if r.Chance(1, 15) {
			q.Pod = &[2]int64{t + 1, i} // a pod name of another task
		}
	}
	q.Exit = int64(vh.Pick(r, []int{0, 0, 1, 2, 137}))
	q.Version = verHint + int64(vh.Pick(r, []int{0, 0, 0, 0, -1, 1}))
	if faults {
		for k := r.Range(1, 2); k > 0; k-- {
			t, i := genPodRef(r, s)
			switch r.Intn(5) {
			case 0:
				q.Faults = append(q.Faults, jobctl.Fault{Kind: 1, A: t, B: i})
			case 1:
				// the pod DELETE refused, with an error class (2 = the generic one)
				q.Faults = append(q.Faults, jobctl.Fault{Kind: int64(vh.Pick(r, []int{2, 2, 21, 22, 23, 24, 25})), A: t, B: i})
			case 2:
				q.Faults = append(q.Faults, jobctl.Fault{Kind: 3, A: t, B: i})
			default:
				q.Faults = append(q.Faults, jobctl.Fault{Kind: 4, A: int64(r.Intn(2))})
			}
		}
	}
	return q
}

func genInitial(r *vh.Rng, s jobctl.Spec, h *jobctl.History) {
	st := jobctl.Status{Phase: int64(r.Intn(11)), Retry: int64(r.Intn(4)), Version: int64(r.Intn(3)), Min: s.Min, TscNil: r.Chance(1, 3), RunDur: r.Chance(1, 3)}
	for _, t := range s.Tasks {
		var tc jobctl.TaskCount
		tc.Task = t.Name
		any := false
		for i := int64(0); i < t.Replicas+int64(r.Intn(2)); i++ {
			if r.Chance(1, 5) {
				continue
			}
			p := jobctl.Pod{Task: t.Name, Idx: i, Phase: int64(vh.Pick(r, []int{0, 1, 1, 2, 2, 3, 4})), Del: r.Chance(1, 8), Oos: r.Chance(1, 12)}
			h.Pods = append(h.Pods, p)
			if p.Del {
				st.Term++
			} else {
				st.C[p.Phase]++
				tc.C[p.Phase]++
				any = true
			}
		}
		if any && !st.TscNil {
			st.Tsc = append(st.Tsc, tc)
		}
	}
	if r.Chance(1, 6) { // a status that does not describe the pods
		st.C = jobctl.Counts{int64(r.Intn(3)), int64(r.Intn(3)), int64(r.Intn(3)), 0, 0}
		st.Term = int64(r.Intn(3))
	}
	h.Status = st
	if r.Chance(3, 4) {
		h.Pg = i64p(int64(vh.Pick(r, []int{0, 1, 2, 3, 3, 3, 4})))
	}
}

func genHistory(r *vh.Rng, stream string) (jobctl.History, bool) {
	s := genSpec(r)
	if stream == "delayed" {
		// at least one policy with a real timeout, on the job or on a task
		s.Policies = append([]jobctl.Policy{genDelayedPolicy(r)}, s.Policies...)
		for k := range s.Tasks {
			if r.Chance(1, 2) {
				s.Tasks[k].Policies = append([]jobctl.Policy{genDelayedPolicy(r)}, s.Tasks[k].Policies...)
			}
		}
	}
	h := jobctl.History{Spec: s, Status: jobctl.Status{TscNil: true}}
	fresh := stream != "stale"
	if stream == "restart" && r.Chance(1, 8) {
		h.NoQueue = true
	}
	if stream == "midlife" || (stream != "fresh" && r.Chance(1, 2)) {
		genInitial(r, s, &h)
	}
	n := r.Range(1, 30)
	ver := h.Status.Version
	reqs := 0
	for len(h.Ops) < n {
		var o jobctl.Op
		x := r.Intn(100)
		if stream == "delayed" && r.Chance(1, 4) {
			// pod events that arm / cancel delayed actions, timers expiring, the job replaced under them
			switch r.Intn(10) {
			case 0, 1, 2:
				q := genReq(r, s, ver, false)
				q.Event = int64(vh.Pick(r, []int{4, 4, 2, 3, 5}))
				q.Action = nil
				q.UidMatch = int64(vh.Pick(r, []int{1, 2}))
				q.Version = ver + 1 // not outdated whatever the kills did
				h.Ops = append(h.Ops, jobctl.Op{Code: 1, Req: q})
				reqs++
			case 3, 4, 5, 6:
				h.Ops = append(h.Ops, jobctl.Op{Code: 14})
			case 7:
				h.Ops = append(h.Ops, jobctl.Op{Code: 11, Spec: s}, jobctl.Op{Code: 6})
			case 8:
				h.Ops = append(h.Ops, jobctl.Op{Code: 10}, jobctl.Op{Code: 7}, jobctl.Op{Code: 6}, jobctl.Op{Code: 8})
			default:
				h.Ops = append(h.Ops, jobctl.Op{Code: 14}, jobctl.Op{Code: 14})
			}
			continue
		}
		switch {
		case x < 40:
			o = jobctl.Op{Code: 1, Req: genReq(r, s, ver, stream == "faults" && r.Chance(1, 3))}
			if stream == "commands" && r.Chance(1, 2) {
				o.Req.Action = i64p(int64(vh.Pick(r, []int{1, 2, 3, 4, 6, 7, 8, 8})))
			}
			if o.Req.Action != nil && (*o.Req.Action == 1 || *o.Req.Action == 2 || *o.Req.Action == 6 || *o.Req.Action == 7) {
				ver++ // job-level kills bump the version (a hint only)
			}
			reqs++
		case x < 58:
			t, i := genPodRef(r, s)
			o = jobctl.Op{Code: 2, T: t, I: i, Ph: int64(vh.Pick(r, []int{0, 1, 1, 2, 2, 2, 3, 4}))}
		case x < 62:
			t, i := genPodRef(r, s)
			o = jobctl.Op{Code: 3, T: t, I: i}
		case x < 70:
			t, i := genPodRef(r, s)
			o = jobctl.Op{Code: 4, T: t, I: i}
		case x < 82:
			o = jobctl.Op{Code: 5, Ph: int64(vh.Pick(r, []int{1, 2, 2, 3, 3, 3, 4, 0}))}
		case x < 90:
			o = jobctl.Op{Code: 7}
		case x < 96:
			o = jobctl.Op{Code: 8}
		case x < 98 || stream != "restart":
			o = jobctl.Op{Code: 6}
		default:
			// controller restart, deliveries in any order; or the job starts terminating
			if r.Chance(1, 4) {
				o = jobctl.Op{Code: 12}
			} else {
				h.Ops = append(h.Ops, jobctl.Op{Code: 10})
				for _, c := range vh.Pick(r, [][]int64{{7, 6, 8}, {6, 7, 8}, {7, 8, 6}, {8, 6, 7}}) {
					h.Ops = append(h.Ops, jobctl.Op{Code: c})
				}
				o = jobctl.Op{Code: 1, Req: genReq(r, s, ver, false)}
			}
		}
		h.Ops = append(h.Ops, o)
		if fresh && o.Code >= 2 && o.Code <= 5 || (fresh && o.Code == 1 && r.Chance(9, 10)) {
			h.Ops = append(h.Ops, jobctl.Op{Code: 7}, jobctl.Op{Code: 8})
		}
	}
	total := int64(0)
	for _, t := range s.Tasks {
		total += t.Replicas
	}
	return h, reqs >= 3 && total >= 1
}

func genRunningBoundary(r *vh.Rng) jobctl.History {
	var s jobctl.Spec
	nt := r.Range(2, 3)
	var summin, total int64
	for i := 0; i < nt; i++ {
		t := jobctl.Task{Name: int64(i + 1), Replicas: int64(r.Range(1, 3)), Cpu: 100}
		switch r.Intn(6) {
		case 0:
			// no minimum: counts with its replicas
			summin += t.Replicas
		case 1:
			t.Min = i64p(t.Replicas)
			summin += t.Replicas
		default:
			t.Min = i64p(int64(r.Range(0, int(t.Replicas)-1)) + int64(r.Intn(2)))
			if *t.Min > t.Replicas {
				t.Min = i64p(t.Replicas)
			}
			summin += *t.Min
		}
		total += t.Replicas
		s.Tasks = append(s.Tasks, t)
	}
	s.Min = summin + int64(vh.Pick(r, []int{-1, 0, 0, 0, 1}))
	if s.Min < 0 {
		s.Min = 0
	}
	if s.Min > total {
		s.Min = total
	}
	s.MaxRetry = 3
	h := jobctl.History{Spec: s}
	st := jobctl.Status{Phase: 4, Min: s.Min, TscNil: r.Chance(1, 4)}
	var succ int64
	for _, t := range s.Tasks {
		// succeeded pods of the task: its minimum - 1, its minimum, or all
		m := t.Replicas
		if t.Min != nil {
			m = *t.Min
		}
		k := int64(vh.Pick(r, []int{int(m) - 1, int(m), int(m), int(t.Replicas)}))
		if k < 0 {
			k = 0
		}
		if k > t.Replicas {
			k = t.Replicas
		}
		var tc jobctl.TaskCount
		tc.Task = t.Name
		for i := int64(0); i < t.Replicas; i++ {
			ph := int64(3) // Failed
			if i < k {
				ph = 2 // Succeeded
				succ++
			}
			if r.Chance(1, 25) {
				ph = 1 // one pod still running: the job must stay Running (or go Pending)
			}
			h.Pods = append(h.Pods, jobctl.Pod{Task: t.Name, Idx: i, Phase: ph})
		}
	}
	switch r.Intn(4) {
	case 0:
		s.MinSucc = i64p(succ) // just reached
	case 1:
		s.MinSucc = i64p(succ + 1) // just missed
	}
	h.Spec = s
	// the status still shows the pods running: the next sync recounts them and decides
	for _, p := range h.Pods {
		_ = p
		st.C[1]++
	}
	h.Status = st
	h.Pg = i64p(3)
	h.Ops = []jobctl.Op{{Code: 1, Req: jobctl.Req{Event: 8, UidMatch: 1}}, {Code: 7}, {Code: 8},
		{Code: 1, Req: jobctl.Req{Event: 8, UidMatch: 1}}}
	return h
}

// ---------- the requeue budget (--max-requeue-num, handleJobError) ----------
// One request VALUE is delivered again and again while an API fault persists, for at least
// budget+1 consecutive reconciliations, so that the controller gives up on it and sends
// TerminateJob through the job's current state; the job starts in any phase (the final ones,
// Aborted and the transient ones included) and still owns a Running pod, so that every kill has
// a pod to delete.  The give-up execution has its own fault plan (kinds 11-14).
func genRequeue(r *vh.Rng) (jobctl.History, bool) {
	var s jobctl.Spec
	for {
		s = genSpec(r)
		total := int64(0)
		for _, t := range s.Tasks {
			total += t.Replicas
		}
		if total >= 1 {
			break
		}
	}
	h := jobctl.History{Spec: s, Status: jobctl.Status{TscNil: true}}
	h.MaxRequeueP1 = int64(vh.Pick(r, []int{1, 1, 2, 2, 3, 4, 0}))
	budget := h.MaxRequeueP1 - 1
	genInitial(r, s, &h)
	h.Status.Phase = int64(vh.Pick(r, []int{7, 7, 10, 9, 3, 3, 2, 6, 5, 8, 4, 4, 1, 0}))
	if h.Status.Phase == 0 {
		h.Status = jobctl.Status{TscNil: true} // a job the controller has not initialised yet
	}
	// a live Running pod of the job
	var live *jobctl.Pod
	for k := range h.Pods {
		if !h.Pods[k].Del {
			live = &h.Pods[k]
			break
		}
	}
	if live == nil && len(h.Pods) > 0 {
		live = &h.Pods[0]
	}
	if live == nil {
		for _, t := range s.Tasks {
			if t.Replicas > 0 {
				h.Pods = []jobctl.Pod{{Task: t.Name, Idx: 0}}
				live = &h.Pods[0]
				break
			}
		}
	}
	live.Phase, live.Del = 1, false
	if r.Chance(5, 6) {
		h.Pg = i64p(int64(vh.Pick(r, []int{3, 3, 3, 2, 1})))
	} else {
		h.Pg = nil
	}
	// the request: mostly a plain sync, sometimes a command or a pod event
	q := jobctl.Req{Event: 8, UidMatch: int64(vh.Pick(r, []int{1, 2}))}
	switch r.Intn(6) {
	case 0:
		q.Event, q.Action = 9, i64p(int64(vh.Pick(r, []int{1, 2, 6, 7, 8}))) // abort, restart, terminate, complete, resume
	case 1:
		q.Event = 2 // PodFailed
		q.Task = i64p(live.Task)
		q.Pod = &[2]int64{live.Task, live.Idx}
	}
	q.Version = h.Status.Version + int64(vh.Pick(r, []int{0, 0, 1, 3}))
	// the persisting fault
	var faults []jobctl.Fault
	switch r.Intn(8) {
	case 0, 1, 2:
		faults = []jobctl.Fault{{Kind: 2, A: live.Task, B: live.Idx}} // the pod's deletion is refused
	case 3:
		faults = []jobctl.Fault{{Kind: 3, A: live.Task, B: live.Idx}} // the out-of-sync patch is refused
	case 4, 5:
		faults = []jobctl.Fault{{Kind: 4, A: 0}, {Kind: 4, A: 1}} // every status update is refused
	case 6:
		faults = []jobctl.Fault{{Kind: 4, A: int64(r.Intn(2))}}
	default:
		// creation of a missing replica is refused
		for _, t := range s.Tasks {
			for i := int64(0); i < t.Replicas; i++ {
				faults = append(faults, jobctl.Fault{Kind: 1, A: t.Name, B: i})
			}
		}
	}
	// what the give-up execution meets: nothing (mostly), the same fault, or a refused status update
	var give []jobctl.Fault
	switch r.Intn(6) {
	case 0:
		for _, f := range faults {
			give = append(give, jobctl.Fault{Kind: f.Kind + 10, A: f.A, B: f.B})
		}
	case 1:
		give = []jobctl.Fault{{Kind: 14, A: 0}}
	}
	q.Faults = append(append([]jobctl.Fault{}, faults...), give...)
	deliveries := int(budget) + 1 + vh.Pick(r, []int{0, 0, 0, 1, -1})
	if budget < 0 {
		deliveries = r.Range(2, 4)
	}
	if deliveries < 1 {
		deliveries = 1
	}
	for k := 0; k < deliveries; k++ {
		h.Ops = append(h.Ops, jobctl.Op{Code: 1, Req: q})
		switch r.Intn(8) {
		case 0:
			h.Ops = append(h.Ops, jobctl.Op{Code: 7})
		case 1:
			h.Ops = append(h.Ops, jobctl.Op{Code: 6})
		case 2:
			h.Ops = append(h.Ops, jobctl.Op{Code: 2, T: live.Task, I: live.Idx, Ph: int64(vh.Pick(r, []int{1, 2, 3}))}, jobctl.Op{Code: 7})
		}
	}
	// afterwards: the views catch up; the same request without faults (forgotten only by a success),
	// once more with them (its count is still at the budget: the controller gives up at once), a
	// restart (new queue), other requests
	for k := r.Range(0, 6); k > 0; k-- {
		switch r.Intn(9) {
		case 0, 1:
			h.Ops = append(h.Ops, jobctl.Op{Code: 7}, jobctl.Op{Code: 6}, jobctl.Op{Code: 8})
		case 2:
			q2 := q
			q2.Faults = nil
			h.Ops = append(h.Ops, jobctl.Op{Code: 1, Req: q2})
		case 3, 4:
			h.Ops = append(h.Ops, jobctl.Op{Code: 1, Req: q})
		case 5:
			h.Ops = append(h.Ops, jobctl.Op{Code: 10}, jobctl.Op{Code: 7}, jobctl.Op{Code: 6}, jobctl.Op{Code: 8})
		case 6:
			h.Ops = append(h.Ops, jobctl.Op{Code: 11, Spec: s}, jobctl.Op{Code: 6})
		default:
			h.Ops = append(h.Ops, jobctl.Op{Code: 1, Req: genReq(r, s, h.Status.Version, r.Chance(1, 3))})
		}
	}
	return h, budget >= 0 && deliveries > int(budget)
}

// ---------- resume while the job is STILL Aborting ----------
// A ResumeJob command (or a policy answering ResumeJob) processed while the phase is Aborting, at a moment
// when no pod of the job is terminating: the job owns no pod, only retained Succeeded / Failed pods, or pods
// whose deletion events were already handled (gone); sometimes a live or a terminating pod remains.  The
// retry count is around maxRetry - 1, so that the Restarting state's maxRetry check decides the next step.
func genAbortingResume(r *vh.Rng) jobctl.History {
	var s jobctl.Spec
	nt := r.Range(1, 2)
	for i := 0; i < nt; i++ {
		t := jobctl.Task{Name: int64(i + 1), Replicas: int64(r.Range(1, 2)), Cpu: 100}
		if r.Chance(1, 2) {
			t.Min = i64p(int64(r.Range(0, int(t.Replicas))))
		}
		s.Tasks = append(s.Tasks, t)
		s.Min += t.Replicas
	}
	s.MaxRetry = int64(vh.Pick(r, []int{1, 2, 3}))
	viaPolicy := r.Chance(1, 4)
	if viaPolicy {
		s.Policies = []jobctl.Policy{{Events: []int64{6}, Action: 8}} // Unknown event -> ResumeJob
	}
	retry := s.MaxRetry - 1 + int64(vh.Pick(r, []int{0, 0, 0, -1, 1}))
	if retry < 0 {
		retry = 0
	}
	h := jobctl.History{Spec: s, Status: jobctl.Status{Phase: 2, Retry: retry, Version: int64(r.Intn(2)), Min: s.Min, TscNil: r.Chance(1, 2)}}
	kind := r.Intn(5) // 0 no pods, 1/2 only finished pods, 3 a terminating pod, 4 a live pod
	for _, t := range s.Tasks {
		for i := int64(0); i < t.Replicas; i++ {
			switch kind {
			case 1, 2:
				h.Pods = append(h.Pods, jobctl.Pod{Task: t.Name, Idx: i, Phase: int64(vh.Pick(r, []int{2, 3}))})
			case 3:
				h.Pods = append(h.Pods, jobctl.Pod{Task: t.Name, Idx: i, Phase: 1, Del: i == 0})
			case 4:
				h.Pods = append(h.Pods, jobctl.Pod{Task: t.Name, Idx: i, Phase: int64(vh.Pick(r, []int{0, 1}))})
			}
		}
	}
	if r.Chance(3, 4) {
		h.Pg = i64p(int64(vh.Pick(r, []int{1, 2, 3, 3})))
	}
	resume := jobctl.Req{Event: 9, Action: i64p(8), UidMatch: int64(vh.Pick(r, []int{1, 2})), Version: h.Status.Version}
	if viaPolicy {
		resume = jobctl.Req{Event: 6, UidMatch: 1, Version: h.Status.Version + 1}
	}
	if kind == 3 && r.Chance(1, 2) {
		// the delete event of the terminating pod is handled before the resume
		h.Ops = append(h.Ops, jobctl.Op{Code: 4, T: h.Pods[0].Task, I: h.Pods[0].Idx}, jobctl.Op{Code: 7})
	}
	h.Ops = append(h.Ops, jobctl.Op{Code: 1, Req: resume}, jobctl.Op{Code: 7}, jobctl.Op{Code: 8}, jobctl.Op{Code: 6})
	// what follows: the Restarting / Pending job is reconciled again
	for k := r.Range(2, 3); k > 0; k-- {
		h.Ops = append(h.Ops, jobctl.Op{Code: 1, Req: jobctl.Req{Event: 8, UidMatch: 1, Version: h.Status.Version + 1}}, jobctl.Op{Code: 7}, jobctl.Op{Code: 8})
	}
	return h
}

// ---------- error classes of a refused pod DELETE ----------
// A job with live pods in a phase whose reconciliation kills pods (a kill command, a Restarting / Aborting /
// Completing / Terminating / finished job being reconciled, a scale-down sync); the DELETE of one pod is
// answered with Timeout / ServerTimeout / TooManyRequests / Conflict / InternalError and is NOT applied
// (sometimes the server applies it after all: a pod-deleting event follows); then the views catch up and
// the job is reconciled again.
func genDeleteClasses(r *vh.Rng) jobctl.History {
	var s jobctl.Spec
	nt := r.Range(1, 2)
	for i := 0; i < nt; i++ {
		t := jobctl.Task{Name: int64(i + 1), Replicas: int64(r.Range(1, 3)), Cpu: 100}
		s.Tasks = append(s.Tasks, t)
		s.Min += t.Replicas
	}
	s.MaxRetry = 3
	h := jobctl.History{Spec: s, Status: jobctl.Status{Phase: int64(vh.Pick(r, []int{4, 4, 4, 1, 5, 2, 6, 8, 7, 10})), Retry: int64(r.Intn(2)), Min: s.Min, TscNil: true}}
	for _, t := range s.Tasks {
		for i := int64(0); i < t.Replicas+int64(r.Intn(2)); i++ { // sometimes a surplus pod
			ph := int64(1)
			if r.Chance(1, 5) {
				ph = int64(vh.Pick(r, []int{0, 2, 3}))
			}
			h.Pods = append(h.Pods, jobctl.Pod{Task: t.Name, Idx: i, Phase: ph})
			h.Status.C[ph]++
		}
	}
	h.Pg = i64p(3)
	victim := h.Pods[len(h.Pods)-1] // the last pod (the surplus one when there is one) ...
	if r.Chance(1, 2) {
		victim = vh.Pick(r, h.Pods) // ... or any pod
	}
	q := jobctl.Req{Event: 8, UidMatch: 1, Version: h.Status.Version}
	if h.Status.Phase == 4 || h.Status.Phase == 1 {
		switch r.Intn(3) {
		case 0:
			q = jobctl.Req{Event: 9, Action: i64p(int64(vh.Pick(r, []int{1, 2, 6, 7}))), UidMatch: 1, Version: h.Status.Version}
		case 1:
			q = jobctl.Req{Event: 9, Action: i64p(4), UidMatch: 1, Version: h.Status.Version, Task: i64p(victim.Task), Pod: &[2]int64{victim.Task, victim.Idx}}
		}
	}
	q.Faults = []jobctl.Fault{{Kind: int64(vh.Pick(r, []int{21, 21, 22, 22, 23, 24, 25})), A: victim.Task, B: victim.Idx}}
	h.Ops = append(h.Ops, jobctl.Op{Code: 1, Req: q})
	if r.Chance(1, 3) {
		h.Ops = append(h.Ops, jobctl.Op{Code: 3, T: victim.Task, I: victim.Idx}) // applied on the server side after all
	}
	h.Ops = append(h.Ops, jobctl.Op{Code: 7}, jobctl.Op{Code: 8}, jobctl.Op{Code: 6})
	q2 := q
	q2.Faults = nil
	h.Ops = append(h.Ops, jobctl.Op{Code: 1, Req: q2}, jobctl.Op{Code: 7}, jobctl.Op{Code: 8},
		jobctl.Op{Code: 1, Req: jobctl.Req{Event: 8, UidMatch: 1, Version: h.Status.Version + 1}})
	return h
}

// the rule's predicate: requests delivered (every history of the directed families has >= 1 replica)
func countReqs(h jobctl.History) int {
	n := 0
	for _, o := range h.Ops {
		if o.Code == 1 {
			n++
		}
	}
	return n
}

// does the refused DELETE of a delete-classes history have a chance to be attempted?  The victim must be a live
// pod that the first request's reconciliation deletes: for a job-level kill a pod that is not a retained
// finished one, for a restart-pod command the named pod, for a sync the surplus index
func delClassBites(h jobctl.History) bool {
	q := h.Ops[0].Req
	if len(q.Faults) == 0 {
		return false
	}
	f := q.Faults[0]
	for _, p := range h.Pods {
		if p.Task != f.A || p.Idx != f.B || p.Del {
			continue
		}
		var repl int64
		for _, t := range h.Spec.Tasks {
			if t.Name == p.Task {
				repl = t.Replicas
			}
		}
		sync := q.Action == nil && (h.Status.Phase == 4 || h.Status.Phase == 1)
		if sync {
			return p.Idx >= repl
		}
		if q.Action != nil && *q.Action == 4 {
			return true
		}
		return p.Phase != 2 && p.Phase != 3
	}
	return false
}

func descHistory(h jobctl.History) any {
	return map[string]any{"tasks": len(h.Spec.Tasks), "minAvailable": h.Spec.Min, "maxRetry": h.Spec.MaxRetry,
		"initial_phase": h.Status.Phase, "initial_pods": len(h.Pods), "ops": len(h.Ops), "maxRequeueNum": h.MaxRequeueP1 - 1}
}

func gen(rng *vh.Rng, n int, emit func(id string, sel int, in []int64, kind string, nontrivial bool, desc any)) {
	streams := []string{"fresh", "midlife", "stale", "faults", "commands", "midlife", "faults", "restart", "delayed", "delayed"}
	for i := 0; i < n; i++ {
		r := rng.Fork()
		stream := streams[i%len(streams)]
		h, nt := genHistory(r, stream)
		w := &jobctl.W{}
		w.History(h)
		emit(fmt.Sprintf("hist-%s-%d", stream, i), 1, w.T, "history/"+stream, nt, descHistory(h))
	}
	// the decision of a Running job whose pods have (almost) all finished, around its boundaries:
	// job.minAvailable <, =, > the sum of the task minimums; a task's succeeded pods = its
	// minimum - 1, = its minimum, all of them; minSuccess unset / just reached / just missed
	for i := 0; i < n/2+1; i++ {
		r := rng.Fork()
		h := genRunningBoundary(r)
		w := &jobctl.W{}
		w.History(h)
		emit(fmt.Sprintf("hist-runbound-%d", i), 1, w.T, "history/running-boundary", true, descHistory(h))
	}
	// applyPolicies directly
	for i := 0; i < 2*n; i++ {
		r := rng.Fork()
		s := genSpec(r)
		ver := int64(r.Intn(4))
		q := genReq(r, s, ver, false)
		w := &jobctl.W{}
		w.Spec(s)
		w.Z(ver)
		w.Req(q)
		emit(fmt.Sprintf("policies-%d", i), 2, w.T, "applyPolicies", len(s.Policies) > 0 || q.Action != nil, nil)
	}
	// the requeue budget: a request that keeps failing until the controller gives up on it
	for i := 0; i < n/2+1; i++ {
		r := rng.Fork()
		h, nt := genRequeue(r)
		w := &jobctl.W{}
		w.History(h)
		emit(fmt.Sprintf("hist-requeue-%d", i), 1, w.T, "history/requeue", nt, descHistory(h))
	}
	// a resume while the job is still Aborting and nothing is terminating
	for i := 0; i < n/4+1; i++ {
		r := rng.Fork()
		h := genAbortingResume(r)
		w := &jobctl.W{}
		w.History(h)
		emit(fmt.Sprintf("hist-abortresume-%d", i), 1, w.T, "history/aborting-resume", countReqs(h) >= 3, descHistory(h))
	}
	// error classes of a refused pod DELETE
	for i := 0; i < n/4+1; i++ {
		r := rng.Fork()
		h := genDeleteClasses(r)
		w := &jobctl.W{}
		w.History(h)
		emit(fmt.Sprintf("hist-delclass-%d", i), 1, w.T, "history/delete-classes", countReqs(h) >= 3 && delClassBites(h), descHistory(h))
	}
}
