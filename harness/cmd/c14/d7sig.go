package main

// Mechanism-narrow signature for finding D7 (tier inversion).  D7 explains a failure only
// when the HyperNode the law complains about sits at a link that was tier-inverted (the
// claimer's tier not above the member's) at some point of the history: such a link is never
// established (getParent only looks at higher tiers; a tier-only update rebuilds nothing), so
// the member, its claimer and the claimer's ancestors show a wrong parent / children / node set,
// and a cycle or double claim through it is not seen.

import (
	"sort"

	topologyv1alpha1 "volcano.sh/apis/pkg/apis/topology/v1alpha1"
	"volcano.sh/volcano/pkg/scheduler/api"
)

type link struct{ claimer, member int64 }

// invertedLinks: stored claimer -> member links whose claimer tier is not above the member's
func invertedLinks(m api.HyperNodeInfoMap, into map[link]bool) {
	for _, info := range m {
		if info.HyperNode == nil {
			continue
		}
		for _, mem := range info.HyperNode.Spec.Members {
			if mem.Type == topologyv1alpha1.MemberTypeHyperNode && mem.Selector.ExactMatch != nil {
				if c, ok := m[mem.Selector.ExactMatch.Name]; ok && c.Tier() >= info.Tier() {
					into[link{hnID(info.Name), hnID(mem.Selector.ExactMatch.Name)}] = true
				}
			}
		}
	}
}

// the tree derived from the final objects (unique claimers assumed), computed in Go
type specTree struct {
	objs   map[int64]hobj
	parent map[int64]int64
	real   map[int64]map[int64]bool
}

func specOf(w *world, objs []hobj, nodes []int64) *specTree {
	t := &specTree{objs: map[int64]hobj{}, parent: map[int64]int64{}, real: map[int64]map[int64]bool{}}
	present := map[int64]bool{}
	for _, n := range nodes {
		present[n] = true
	}
	for _, o := range objs {
		t.objs[o.name] = o
	}
	for _, o := range objs {
		for _, m := range o.members {
			if m.kind == 3 {
				if _, dup := t.parent[m.a]; !dup {
					t.parent[m.a] = o.name
				}
			}
		}
	}
	var realOf func(k int64, depth int) map[int64]bool
	realOf = func(k int64, depth int) map[int64]bool {
		out := map[int64]bool{}
		o, ok := t.objs[k]
		if !ok || depth > len(objs)+1 {
			return out
		}
		for _, m := range o.members {
			switch m.kind {
			case 0:
				out[m.a] = true
			case 1, 2:
				for _, n := range w.sel[m.a] {
					if present[n] {
						out[n] = true
					}
				}
			case 3:
				for n := range realOf(m.a, depth+1) {
					out[n] = true
				}
			}
		}
		return out
	}
	for _, o := range objs {
		t.real[o.name] = realOf(o.name, 0)
	}
	return t
}

// offenders: the final HyperNodes whose entry in the view differs from the tree of the objects
func offenders(h *api.HyperNodesInfo, t *specTree) []int64 {
	hn := h.HyperNodes()
	real := h.RealNodesSet()
	var out []int64
	for k, o := range t.objs {
		info, ok := hn[hnName(k)]
		bad := !ok
		if ok {
			bad = int64(info.Tier()) != o.tier || hnID(info.Parent) != t.parent[k]
			want := map[int64]bool{}
			for _, m := range o.members {
				if m.kind == 3 {
					if _, ex := t.objs[m.a]; ex {
						want[m.a] = true
					}
				}
			}
			got := 0
			for c := range info.Children {
				if _, ex := t.objs[hnID(c)]; ex {
					got++
					if !want[hnID(c)] {
						bad = true
					}
				}
			}
			if got != len(want) {
				bad = true
			}
			set := real[hnName(k)]
			if set.Len() != len(t.real[k]) {
				bad = true
			}
			for n := range t.real[k] {
				if !set.Has(nodeName(n)) {
					bad = true
				}
			}
		}
		if bad {
			out = append(out, k)
		}
	}
	// a HyperNode that is no longer an object but is still indexed (its deletion is stuck)
	for _, set := range h.HyperNodesSetByTier() {
		for n := range set {
			if _, ok := t.objs[hnID(n)]; !ok {
				out = append(out, hnID(n))
			}
		}
	}
	sort.Slice(out, func(i, j int) bool { return out[i] < out[j] })
	return out
}

// differing: final HyperNodes whose entries differ between two views
func differing(a, b *api.HyperNodesInfo, t *specTree) []int64 {
	ha, hb := a.HyperNodes(), b.HyperNodes()
	ra, rb := a.RealNodesSet(), b.RealNodesSet()
	var out []int64
	for k := range t.objs {
		x, okx := ha[hnName(k)]
		y, oky := hb[hnName(k)]
		bad := okx != oky
		if okx && oky {
			bad = x.Tier() != y.Tier() || x.Parent != y.Parent || !ra[hnName(k)].Equal(rb[hnName(k)])
			for c := range x.Children {
				if _, ex := t.objs[hnID(c)]; ex && !y.Children.Has(c) {
					bad = true
				}
			}
			for c := range y.Children {
				if _, ex := t.objs[hnID(c)]; ex && !x.Children.Has(c) {
					bad = true
				}
			}
		}
		if bad {
			out = append(out, k)
		}
	}
	// HyperNodes that are no longer objects but still indexed in exactly one of the two views
	ia, ib := map[int64]bool{}, map[int64]bool{}
	for _, set := range a.HyperNodesSetByTier() {
		for n := range set {
			ia[hnID(n)] = true
		}
	}
	for _, set := range b.HyperNodesSetByTier() {
		for n := range set {
			ib[hnID(n)] = true
		}
	}
	for k := range ia {
		if _, ok := t.objs[k]; !ok && !ib[k] {
			out = append(out, k)
		}
	}
	for k := range ib {
		if _, ok := t.objs[k]; !ok && !ia[k] {
			out = append(out, k)
		}
	}
	return out
}

// d7Cover: the HyperNodes a never-established inverted link can make wrong: the member, the
// claimer, and the ancestors (in the tree of the final objects) of both
func d7Cover(links map[link]bool, t *specTree) map[int64]bool {
	cover := map[int64]bool{}
	up := func(k int64) {
		for i := 0; i <= len(t.objs)+1; i++ {
			cover[k] = true
			p, ok := t.parent[k]
			if !ok {
				return
			}
			k = p
		}
	}
	for l := range links {
		up(l.claimer)
		up(l.member)
	}
	return cover
}

// d7ExplainsView: there are offenders and every one of them is covered by an inverted link
func d7ExplainsView(off []int64, cover map[int64]bool) bool {
	if len(off) == 0 {
		return false
	}
	for _, k := range off {
		if !cover[k] {
			return false
		}
	}
	return true
}

// d7ExplainsBad: the cycle / double claim of the final objects runs through an inverted link:
// a doubly claimed member, or a HyperNode on a cycle, that is an end of such a link
func d7ExplainsBad(objs []hobj, links map[link]bool) bool {
	ends := map[int64]bool{}
	for l := range links {
		ends[l.claimer] = true
		ends[l.member] = true
	}
	claimers := map[int64][]int64{}
	for _, o := range objs {
		seen := map[int64]bool{}
		for _, m := range o.members {
			if m.kind == 3 && !seen[m.a] {
				seen[m.a] = true
				claimers[m.a] = append(claimers[m.a], o.name)
			}
		}
	}
	for c, ps := range claimers {
		if len(ps) > 1 && ends[c] {
			return true
		}
	}
	// cycles: follow first claimers upward
	for _, o := range objs {
		k := o.name
		for i := 0; i <= len(objs)+1; i++ {
			ps := claimers[k]
			if len(ps) == 0 {
				break
			}
			k = ps[0]
			if k == o.name {
				if ends[k] {
					return true
				}
				break
			}
		}
	}
	return false
}
