package main

import (
	"fmt"
	"sort"

	"verif/harness/internal/vh"
)

// ---------- generators ----------
type genWorld struct {
	w     *world
	H, N  int
	exact bool
}

func subset(r *vh.Rng, n int, num, den int) []int64 {
	out := []int64{}
	for i := 1; i <= n; i++ {
		if r.Chance(num, den) {
			out = append(out, int64(i))
		}
	}
	return out
}

func genEnv(r *vh.Rng, exact bool) *genWorld {
	g := &genWorld{N: r.Range(3, 8), H: r.Range(2, 8), exact: exact}
	g.w = &world{sel: map[int64][]int64{}}
	if !exact {
		// selector ids 1..6: the id fixes the shape of a label selector (labelSelector)
		off := r.Range(0, 3)
		for s := 1; s <= r.Range(1, 3); s++ {
			g.w.sel[int64(s+off)] = subset(r, g.N, 1, 2)
			g.w.selID = append(g.w.selID, int64(s+off))
		}
	}
	g.w.nodes = subset(r, g.N, 2, 3)
	return g
}

func (g *genWorld) nodeMembers(r *vh.Rng) []member {
	ms := []member{}
	k := r.Range(0, 3)
	for i := 0; i < k; i++ {
		if g.exact || len(g.w.selID) == 0 || r.Chance(1, 2) {
			ms = append(ms, member{0, int64(r.Range(1, g.N))})
		} else {
			ms = append(ms, member{int64(r.Range(1, 2)), vh.Pick(r, g.w.selID)})
		}
	}
	return ms
}

// a consistent forest: every child has a strictly lower tier and one claimer
func (g *genWorld) forest(r *vh.Rng) map[int64]hobj {
	depth := r.Range(1, 4)
	objs := map[int64]hobj{}
	tiers := make([]int, g.H+1)
	for id := 1; id <= g.H; id++ {
		tiers[id] = r.Range(1, depth)
	}
	tiers[r.Range(1, g.H)] = 1
	claimed := map[int64]bool{}
	order := []int{}
	for id := 1; id <= g.H; id++ {
		order = append(order, id)
	}
	sort.SliceStable(order, func(i, j int) bool { return tiers[order[i]] < tiers[order[j]] })
	for _, id := range order {
		o := hobj{name: int64(id), tier: int64(tiers[id])}
		if tiers[id] == 1 || r.Chance(1, 4) {
			o.members = g.nodeMembers(r)
		}
		if tiers[id] > 1 {
			for c := 1; c <= g.H; c++ {
				if tiers[c] < tiers[id] && !claimed[int64(c)] && r.Chance(1, 2) {
					claimed[int64(c)] = true
					o.members = append(o.members, member{3, int64(c)})
				}
			}
			if d := int64(g.H + 1 + len(objs)%2); r.Chance(1, 8) && !claimed[d] { // a member that never exists
				o.members = append(o.members, member{3, d})
				claimed[d] = true
			}
		}
		// shuffle the member order a little
		if len(o.members) > 1 && r.Chance(1, 2) {
			i, j := r.Intn(len(o.members)), r.Intn(len(o.members))
			o.members[i], o.members[j] = o.members[j], o.members[i]
		}
		objs[o.name] = o
	}
	return objs
}

func shuffled(r *vh.Rng, objs map[int64]hobj) []hobj {
	ids := []int64{}
	for k := range objs {
		ids = append(ids, k)
	}
	sort.Slice(ids, func(i, j int) bool { return ids[i] < ids[j] })
	for i := len(ids) - 1; i > 0; i-- {
		j := r.Intn(i + 1)
		ids[i], ids[j] = ids[j], ids[i]
	}
	out := []hobj{}
	for _, k := range ids {
		out = append(out, objs[k])
	}
	return out
}

func claimerOf(cur map[int64]hobj, c int64) (int64, bool) {
	for k, o := range cur {
		for _, m := range o.members {
			if m.kind == 3 && m.a == c {
				return k, true
			}
		}
	}
	return 0, false
}

func without(ms []member, c int64) []member {
	out := []member{}
	for _, m := range ms {
		if !(m.kind == 3 && m.a == c) {
			out = append(out, m)
		}
	}
	return out
}

func keys(cur map[int64]hobj) []int64 {
	ids := []int64{}
	for k := range cur {
		ids = append(ids, k)
	}
	sort.Slice(ids, func(i, j int) bool { return ids[i] < ids[j] })
	return ids
}

// mutations that keep the stored object set a consistent forest after every event
func (g *genWorld) mutate(r *vh.Rng, cur map[int64]hobj, deleted map[int64]hobj, evs []event) []event {
	ids := keys(cur)
	if len(ids) == 0 {
		return evs
	}
	switch r.Intn(7) {
	case 0: // delete
		k := vh.Pick(r, ids)
		deleted[k] = cur[k]
		delete(cur, k)
		evs = append(evs, event{kind: 1, id: k})
	case 1: // re-add a deleted one (if its claims are still free)
		for _, k := range keys(deleted) {
			o := deleted[k]
			ok := true
			for _, m := range o.members {
				if m.kind == 3 {
					if _, c := claimerOf(cur, m.a); c {
						ok = false
					}
					if oc, ex := cur[m.a]; ex && oc.tier >= o.tier {
						ok = false
					}
				}
			}
			if p, c := claimerOf(cur, k); c && cur[p].tier <= o.tier {
				ok = false
			}
			if ok {
				cur[k] = o
				delete(deleted, k)
				evs = append(evs, event{kind: 0, obj: o})
				break
			}
		}
	case 2: // drop one HyperNode member
		k := vh.Pick(r, ids)
		o := cur[k]
		cs := []int64{}
		for _, m := range o.members {
			if m.kind == 3 {
				cs = append(cs, m.a)
			}
		}
		if len(cs) > 0 {
			o.members = without(o.members, vh.Pick(r, cs))
			cur[k] = o
			evs = append(evs, event{kind: 0, obj: o})
		}
	case 3: // adopt an unclaimed lower-tier HyperNode
		k := vh.Pick(r, ids)
		o := cur[k]
		for _, c := range ids {
			if _, cl := claimerOf(cur, c); !cl && cur[c].tier < o.tier {
				o.members = append(append([]member{}, o.members...), member{3, c})
				cur[k] = o
				evs = append(evs, event{kind: 0, obj: o})
				break
			}
		}
	case 4: // re-parent in two steps: release, then adopt elsewhere
		c := vh.Pick(r, ids)
		if p, cl := claimerOf(cur, c); cl {
			po := cur[p]
			po.members = without(po.members, c)
			cur[p] = po
			evs = append(evs, event{kind: 0, obj: po})
			for _, q := range ids {
				if q != p && cur[q].tier > cur[c].tier {
					qo := cur[q]
					qo.members = append(append([]member{}, qo.members...), member{3, c})
					cur[q] = qo
					evs = append(evs, event{kind: 0, obj: qo})
					break
				}
			}
		}
	case 5: // change the node members
		k := vh.Pick(r, ids)
		o := cur[k]
		ms := g.nodeMembers(r)
		for _, m := range o.members {
			if m.kind == 3 {
				ms = append(ms, m)
			}
		}
		o.members = ms
		cur[k] = o
		evs = append(evs, event{kind: 0, obj: o})
	case 6: // same object again (resync)
		k := vh.Pick(r, ids)
		evs = append(evs, event{kind: 0, obj: cur[k]})
	}
	return evs
}

func (g *genWorld) nodeEvent(r *vh.Rng, present map[int64]bool) event {
	n := int64(r.Range(1, g.N))
	if present[n] {
		delete(present, n)
		return event{kind: 3, id: n}
	}
	present[n] = true
	return event{kind: 2, id: n}
}

func (g *genWorld) forestHistory(r *vh.Rng, extra int) []event {
	objs := g.forest(r)
	present := map[int64]bool{}
	for _, n := range g.w.nodes {
		present[n] = true
	}
	evs := []event{}
	cur := map[int64]hobj{}
	for _, o := range shuffled(r, objs) {
		evs = append(evs, event{kind: 0, obj: o})
		cur[o.name] = o
		if !g.exact && r.Chance(1, 4) {
			evs = append(evs, g.nodeEvent(r, present))
		}
	}
	deleted := map[int64]hobj{}
	for i := 0; i < extra; i++ {
		if !g.exact && r.Chance(1, 4) {
			evs = append(evs, g.nodeEvent(r, present))
		} else {
			evs = g.mutate(r, cur, deleted, evs)
		}
	}
	return evs
}

// anything goes: cycles, double claims, tier inversions, tier changes
func (g *genWorld) wildHistory(r *vh.Rng) []event {
	present := map[int64]bool{}
	for _, n := range g.w.nodes {
		present[n] = true
	}
	H := r.Range(2, 5)
	evs := []event{}
	n := r.Range(3, 12)
	for i := 0; i < n; i++ {
		switch r.Intn(8) {
		case 0:
			evs = append(evs, event{kind: 1, id: int64(r.Range(1, H))})
		case 1:
			if !g.exact {
				evs = append(evs, g.nodeEvent(r, present))
				break
			}
			fallthrough
		default:
			o := hobj{name: int64(r.Range(1, H)), tier: int64(r.Range(0, 3))}
			if r.Chance(1, 2) {
				o.members = g.nodeMembers(r)
			}
			k := r.Range(0, 2)
			for j := 0; j < k; j++ {
				o.members = append(o.members, member{3, int64(r.Range(1, H+1))})
			}
			evs = append(evs, event{kind: 0, obj: o})
		}
	}
	return evs
}

func encEvents(evs []event) []int64 {
	out := []int64{int64(len(evs))}
	for _, ev := range evs {
		if ev.kind == 0 {
			out = append(out, 0)
			out = append(out, encObj(ev.obj)...)
		} else {
			out = append(out, ev.kind, ev.id)
		}
	}
	return out
}

func hasHyperMember(evs []event) bool {
	for _, ev := range evs {
		if ev.kind == 0 {
			for _, m := range ev.obj.members {
				if m.kind == 3 {
					return true
				}
			}
		}
	}
	return false
}

func descEvents(evs []event) any {
	out := []string{}
	for _, ev := range evs {
		switch ev.kind {
		case 0:
			ms := ""
			for _, m := range ev.obj.members {
				ms += fmt.Sprintf(" %s%d", []string{"n", "re", "lb", "h"}[m.kind], m.a)
			}
			out = append(out, fmt.Sprintf("upd h%d t%d [%s ]", ev.obj.name, ev.obj.tier, ms))
		case 1:
			out = append(out, fmt.Sprintf("del h%d", ev.id))
		case 2:
			out = append(out, fmt.Sprintf("node+ n%d", ev.id))
		case 3:
			out = append(out, fmt.Sprintf("node- n%d", ev.id))
		}
	}
	return out
}

func gen(rng *vh.Rng, n int, emit func(id string, sel int, in []int64, kind string, nontrivial bool, desc any)) {
	hist := rng.Fork()
	for i := 0; i < n; i++ {
		r := hist.Fork()
		var g *genWorld
		var evs []event
		kind := ""
		switch i % 5 {
		case 0:
			g = genEnv(r, true)
			evs = g.forestHistory(r, r.Range(0, 8))
			kind = "view/forest-exact"
		case 1, 2:
			g = genEnv(r, false)
			evs = g.forestHistory(r, r.Range(0, 8))
			kind = "view/forest-selectors"
		case 3:
			g = genEnv(r, r.Chance(1, 2))
			evs = g.wildHistory(r)
			kind = "view/inconsistent"
		default:
			g = genEnv(r, true)
			g.H = r.Range(2, 4)
			evs = g.forestHistory(r, r.Range(2, 5))
			kind = "view/forest-small"
		}
		in := append(encEnv(g.w, g.w.nodes), encEvents(evs)...)
		emit(fmt.Sprintf("hist-%d", i), 1, in, kind, len(evs) >= 3 && hasHyperMember(evs), descEvents(evs))
	}
	pl := rng.Fork()
	for i := 0; i < n/5+1; i++ {
		r := pl.Fork()
		g := genEnv(r, r.Chance(1, 2))
		evs := g.forestHistory(r, vh.Pick(r, []int{0, 0, 1, 3}))
		names := []int64{topID}
		for h := 1; h <= g.H; h++ {
			names = append(names, int64(h))
		}
		in := append(encEnv(g.w, g.w.nodes), encEvents(evs)...)
		nq := r.Range(3, 8)
		in = append(in, int64(nq))
		for q := 0; q < nq; q++ {
			alloc := int64(0)
			if r.Chance(2, 3) {
				alloc = int64(r.Range(1, g.H))
			}
			start := int64(topID)
			if r.Chance(1, 2) {
				start = vh.Pick(r, names)
			}
			in = append(in, start, int64(r.Range(0, 5)), alloc)
		}
		nl := r.Range(2, 6)
		in = append(in, int64(nl))
		for q := 0; q < nl; q++ {
			a, b := vh.Pick(r, names), vh.Pick(r, names)
			if r.Chance(1, 8) {
				a = 0
			}
			if r.Chance(1, 8) {
				b = 0
			}
			in = append(in, a, b)
		}
		na := r.Range(1, 3)
		in = append(in, int64(na))
		for q := 0; q < na; q++ {
			in = append(in, vh.Pick(r, names))
		}
		emit(fmt.Sprintf("place-%d", i), 2, in, "placement/gradient+lca", hasHyperMember(evs), descEvents(evs))
	}
	tr := rng.Fork()
	for i := 0; i < n/40+30; i++ {
		in, nt, desc := genTrace(tr.Fork())
		emit(fmt.Sprintf("trace-%d", i), 3, in, "placement/allocate-trace", nt, desc)
	}
}
