// C14 harness: the scheduler's HyperNode view (api.HyperNodesInfo) driven by
// histories of HyperNode / node events, and the network-topology-aware plugin's
// hyperNodeGradientFn reached through a real session.
package main

import (
	"fmt"
	"sort"
	"strconv"
	"strings"

	v1 "k8s.io/api/core/v1"
	metav1 "k8s.io/apimachinery/pkg/apis/meta/v1"
	listerv1 "k8s.io/client-go/listers/core/v1"
	k8scache "k8s.io/client-go/tools/cache"

	"verif/harness/internal/vh"
	"volcano.sh/apis/pkg/apis/scheduling"
	topologyv1alpha1 "volcano.sh/apis/pkg/apis/topology/v1alpha1"
	"volcano.sh/volcano/pkg/scheduler/api"
	"volcano.sh/volcano/pkg/scheduler/cache"
	"volcano.sh/volcano/pkg/scheduler/conf"
	"volcano.sh/volcano/pkg/scheduler/framework"
	nta "volcano.sh/volcano/pkg/scheduler/plugins/network-topology-aware"
	"volcano.sh/volcano/pkg/scheduler/util"
)

const topID = 999983

// ---------- names ----------
func hnName(id int64) string   { return fmt.Sprintf("h%d", id) }
func nodeName(id int64) string { return fmt.Sprintf("n%d", id) }
func hnID(name string) int64 {
	if name == "" {
		return 0
	}
	if name == framework.ClusterTopHyperNode {
		return topID
	}
	v, err := strconv.ParseInt(name[1:], 10, 64)
	if err != nil || name[0] != 'h' {
		panic("unexpected HyperNode name " + name)
	}
	return v
}
func nodeID(name string) int64 {
	v, err := strconv.ParseInt(name[1:], 10, 64)
	if err != nil || name[0] != 'n' {
		panic("unexpected node name " + name)
	}
	return v
}

// ---------- decoded input ----------
type member struct{ kind, a int64 } // 0 node exact, 1 node regex, 2 node label, 3 hypernode exact
type hobj struct {
	name, tier int64
	members    []member
}
type event struct {
	kind int64 // 0 upd, 1 del, 2 node add, 3 node del
	obj  hobj
	id   int64
}
type world struct {
	sel   map[int64][]int64 // selector id -> node ids it matches
	selID []int64
	nodes []int64
}

type rd struct {
	t []int64
	i int
}

func (r *rd) next() int64 { v := r.t[r.i]; r.i++; return v }
func (r *rd) list() []int64 {
	n := int(r.next())
	out := make([]int64, n)
	for i := range out {
		out[i] = r.next()
	}
	return out
}
func (r *rd) obj() hobj {
	o := hobj{name: r.next(), tier: r.next()}
	n := int(r.next())
	for i := 0; i < n; i++ {
		o.members = append(o.members, member{r.next(), r.next()})
	}
	return o
}
func (r *rd) env() *world {
	w := &world{sel: map[int64][]int64{}}
	n := int(r.next())
	for i := 0; i < n; i++ {
		id := r.next()
		w.sel[id] = r.list()
		w.selID = append(w.selID, id)
	}
	w.nodes = r.list()
	return w
}
func (r *rd) events() []event {
	n := int(r.next())
	evs := make([]event, 0, n)
	for i := 0; i < n; i++ {
		k := r.next()
		if k == 0 {
			evs = append(evs, event{kind: 0, obj: r.obj()})
		} else {
			evs = append(evs, event{kind: k, id: r.next()})
		}
	}
	return evs
}

// ---------- building the real objects ----------
func (w *world) pattern(sel int64) string {
	ns := []string{}
	for _, n := range w.sel[sel] {
		ns = append(ns, nodeName(n))
	}
	if len(ns) == 0 {
		return fmt.Sprintf("^$|^sel%d-matches-nothing$", sel)
	}
	return fmt.Sprintf("^(%s)$|^sel%d$", strings.Join(ns, "|"), sel)
}

func selOfPattern(p string) int64 {
	i := strings.LastIndex(p, "^sel")
	s := p[i+4:]
	s = strings.TrimSuffix(strings.TrimSuffix(s, "$"), "-matches-nothing")
	v, err := strconv.ParseInt(s, 10, 64)
	if err != nil {
		panic("pattern without selector id: " + p)
	}
	return v
}

func (w *world) k8sNode(id int64) *v1.Node {
	// a node in the oracle set of selector s carries sel<s>=1, a node outside it nsel<s>=1
	// (the complement label lets NotIn / DoesNotExist selectors denote the same set)
	lbl := map[string]string{}
	for s, ns := range w.sel {
		in := false
		for _, n := range ns {
			if n == id {
				in = true
			}
		}
		if in {
			lbl[fmt.Sprintf("sel%d", s)] = "1"
		} else {
			lbl[fmt.Sprintf("nsel%d", s)] = "1"
		}
	}
	return &v1.Node{ObjectMeta: metav1.ObjectMeta{Name: nodeName(id), Labels: lbl}}
}

// labelSelector builds, for selector id s, a label selector that denotes the oracle set of s.
// The SHAPE depends on s: matchLabels only, matchExpressions only (In / Exists / NotIn /
// DoesNotExist) or both — the scheduler must treat every shape as depending on the nodes.
func labelSelector(s int64) *metav1.LabelSelector {
	key, nkey := fmt.Sprintf("sel%d", s), fmt.Sprintf("nsel%d", s)
	switch s % 6 {
	case 1:
		return &metav1.LabelSelector{MatchExpressions: []metav1.LabelSelectorRequirement{{Key: key, Operator: metav1.LabelSelectorOpIn, Values: []string{"1"}}}}
	case 2:
		return &metav1.LabelSelector{MatchExpressions: []metav1.LabelSelectorRequirement{{Key: key, Operator: metav1.LabelSelectorOpExists}}}
	case 3:
		return &metav1.LabelSelector{MatchExpressions: []metav1.LabelSelectorRequirement{{Key: nkey, Operator: metav1.LabelSelectorOpNotIn, Values: []string{"1"}}}}
	case 4:
		return &metav1.LabelSelector{MatchExpressions: []metav1.LabelSelectorRequirement{{Key: nkey, Operator: metav1.LabelSelectorOpDoesNotExist}}}
	case 5:
		return &metav1.LabelSelector{MatchLabels: map[string]string{key: "1"},
			MatchExpressions: []metav1.LabelSelectorRequirement{{Key: key, Operator: metav1.LabelSelectorOpExists}}}
	}
	return &metav1.LabelSelector{MatchLabels: map[string]string{key: "1"}}
}

// labelSelectorID recovers the selector id from a selector built by labelSelector
func labelSelectorID(ls *metav1.LabelSelector) int64 {
	key := ""
	for k := range ls.MatchLabels {
		key = k
	}
	if key == "" && len(ls.MatchExpressions) > 0 {
		key = ls.MatchExpressions[0].Key
	}
	key = strings.TrimPrefix(strings.TrimPrefix(key, "n"), "sel")
	v, err := strconv.ParseInt(key, 10, 64)
	if err != nil {
		panic("label selector the harness never builds")
	}
	return v
}

func (w *world) hyperNode(o hobj) *topologyv1alpha1.HyperNode {
	hn := &topologyv1alpha1.HyperNode{ObjectMeta: metav1.ObjectMeta{Name: hnName(o.name)}}
	hn.Spec.Tier = int(o.tier)
	for _, m := range o.members {
		ms := topologyv1alpha1.MemberSpec{Type: topologyv1alpha1.MemberTypeNode}
		switch m.kind {
		case 0:
			ms.Selector.ExactMatch = &topologyv1alpha1.ExactMatch{Name: nodeName(m.a)}
		case 1:
			ms.Selector.RegexMatch = &topologyv1alpha1.RegexMatch{Pattern: w.pattern(m.a)}
		case 2:
			ms.Selector.LabelMatch = labelSelector(m.a)
		case 3:
			ms.Type = topologyv1alpha1.MemberTypeHyperNode
			ms.Selector.ExactMatch = &topologyv1alpha1.ExactMatch{Name: hnName(m.a)}
		}
		hn.Spec.Members = append(hn.Spec.Members, ms)
	}
	return hn
}

func encMembers(hn *topologyv1alpha1.HyperNode) []int64 {
	out := []int64{0}
	if hn == nil {
		return out
	}
	for _, m := range hn.Spec.Members {
		switch {
		case m.Type == topologyv1alpha1.MemberTypeHyperNode && m.Selector.ExactMatch != nil:
			out = append(out, 3, hnID(m.Selector.ExactMatch.Name))
		case m.Type == topologyv1alpha1.MemberTypeNode && m.Selector.ExactMatch != nil:
			out = append(out, 0, nodeID(m.Selector.ExactMatch.Name))
		case m.Type == topologyv1alpha1.MemberTypeNode && m.Selector.RegexMatch != nil:
			out = append(out, 1, selOfPattern(m.Selector.RegexMatch.Pattern))
		case m.Type == topologyv1alpha1.MemberTypeNode && m.Selector.LabelMatch != nil:
			out = append(out, 2, labelSelectorID(m.Selector.LabelMatch))
		default:
			panic("member shape the harness never builds")
		}
		out[0]++
	}
	return out
}

// the view under test: a real HyperNodesInfo over a hand-filled node indexer
type sut struct {
	w       *world
	indexer k8scache.Indexer
	hni     *api.HyperNodesInfo
}

func newSut(w *world, nodes []int64) *sut {
	ix := k8scache.NewIndexer(k8scache.MetaNamespaceKeyFunc, k8scache.Indexers{})
	for _, n := range nodes {
		ix.Add(w.k8sNode(n))
	}
	return &sut{w: w, indexer: ix, hni: api.NewHyperNodesInfo(listerv1.NewNodeLister(ix))}
}

// Node events go through the real cache handler: SchedulerCache.SyncHyperNode("node/<name>")
// -> triggerUpdateHyperNode, running on this view.  The handler visits the HyperNodes in Go
// map order and stops at the first error, so a history in which it fails is compared by the
// laws only (flags.amb).
var theCache *cache.SchedulerCache

func (s *sut) trigger(node string) error {
	if theCache == nil {
		theCache = cache.NewCustomMockSchedulerCache("verif-scheduler", util.NewFakeBinder(0), util.NewFakeEvictor(0),
			&util.FakeStatusUpdater{}, nil, nil)
	}
	theCache.HyperNodesInfo = s.hni
	return theCache.SyncHyperNode("node/" + node)
}

func (s *sut) apply(ev event) (err error) {
	switch ev.kind {
	case 0:
		err = s.hni.UpdateHyperNode(s.w.hyperNode(ev.obj))
	case 1:
		err = s.hni.DeleteHyperNode(hnName(ev.id))
	case 2:
		s.indexer.Add(s.w.k8sNode(ev.id))
		err = s.trigger(nodeName(ev.id))
	case 3:
		s.indexer.Delete(s.w.k8sNode(ev.id))
		err = s.trigger(nodeName(ev.id))
	}
	return err
}

// releasesForeign: the event makes name release a member (removed from its member list, or
// name is deleted) whose Parent pointer names a different HyperNode
func releasesForeign(m api.HyperNodeInfoMap, ev event) bool {
	var name string
	keep := map[int64]bool{}
	switch ev.kind {
	case 0:
		name = hnName(ev.obj.name)
		keep = childSet(ev.obj.members)
	case 1:
		name = hnName(ev.id)
	default:
		return false
	}
	old, ok := m[name]
	if !ok || old.HyperNode == nil {
		return false
	}
	for _, mem := range old.HyperNode.Spec.Members {
		if mem.Type == topologyv1alpha1.MemberTypeHyperNode && mem.Selector.ExactMatch != nil {
			c := mem.Selector.ExactMatch.Name
			if keep[hnID(c)] {
				continue
			}
			if ci, ok := m[c]; ok && ci.Parent != "" && ci.Parent != name {
				return true
			}
		}
	}
	return false
}

// tierInverted: a stored HyperNode claims a stored member whose tier is not below its own
func tierInverted(m api.HyperNodeInfoMap) bool {
	for _, info := range m {
		if info.HyperNode == nil {
			continue
		}
		for _, mem := range info.HyperNode.Spec.Members {
			if mem.Type == topologyv1alpha1.MemberTypeHyperNode && mem.Selector.ExactMatch != nil {
				if c, ok := m[mem.Selector.ExactMatch.Name]; ok && c.Tier() >= info.Tier() {
					return true
				}
			}
		}
	}
	return false
}

func claimedTwice(m api.HyperNodeInfoMap) bool {
	seen := map[int64]bool{}
	for _, info := range m {
		own := map[int64]bool{}
		if info.HyperNode == nil {
			continue
		}
		for _, mem := range info.HyperNode.Spec.Members {
			if mem.Type == topologyv1alpha1.MemberTypeHyperNode && mem.Selector.ExactMatch != nil {
				own[hnID(mem.Selector.ExactMatch.Name)] = true
			}
		}
		for c := range own {
			if seen[c] {
				return true
			}
			seen[c] = true
		}
	}
	return false
}

func childSet(ms []member) map[int64]bool {
	out := map[int64]bool{}
	for _, m := range ms {
		if m.kind == 3 {
			out[m.a] = true
		}
	}
	return out
}

// freesMany: the update removes two or more HyperNode members of the stored object
func freesMany(m api.HyperNodeInfoMap, ev event) bool {
	if ev.kind != 0 {
		return false
	}
	old, ok := m[hnName(ev.obj.name)]
	if !ok || old.HyperNode == nil {
		return false
	}
	nw := childSet(ev.obj.members)
	freed := map[int64]bool{}
	for _, mem := range old.HyperNode.Spec.Members {
		if mem.Type == topologyv1alpha1.MemberTypeHyperNode && mem.Selector.ExactMatch != nil {
			if c := hnID(mem.Selector.ExactMatch.Name); !nw[c] {
				freed[c] = true
			}
		}
	}
	return len(freed) > 1
}

func sortedIDs[T any](m map[string]T, id func(string) int64) []int64 {
	out := []int64{}
	for k := range m {
		out = append(out, id(k))
	}
	sort.Slice(out, func(i, j int) bool { return out[i] < out[j] })
	return out
}

func encInfoMap(m api.HyperNodeInfoMap) []int64 {
	ids := sortedIDs(m, hnID)
	out := []int64{int64(len(ids))}
	name := func(id int64) string {
		if id == topID {
			return framework.ClusterTopHyperNode
		}
		return hnName(id)
	}
	for _, id := range ids {
		info := m[name(id)]
		out = append(out, id, int64(info.Tier()), hnID(info.Parent))
		ch := sortedIDs(info.Children, hnID)
		out = append(out, int64(len(ch)))
		out = append(out, ch...)
		out = append(out, encMembers(info.HyperNode)...)
	}
	return out
}

func encView(h *api.HyperNodesInfo) []int64 {
	out := []int64{vh.B(h.Ready()), 0}
	out = append(out, encInfoMap(h.HyperNodes())...)
	byTier := h.HyperNodesSetByTier()
	tiers := []int{}
	for t := range byTier {
		tiers = append(tiers, t)
	}
	sort.Ints(tiers)
	out = append(out, int64(len(tiers)))
	for _, t := range tiers {
		ids := sortedIDs(byTier[t], hnID)
		out = append(out, int64(t), int64(len(ids)))
		out = append(out, ids...)
	}
	real := h.RealNodesSet()
	ids := sortedIDs(real, hnID)
	out = append(out, int64(len(ids)))
	for _, id := range ids {
		ns := sortedIDs(real[hnName(id)], nodeID)
		out = append(out, id, int64(len(ns)))
		out = append(out, ns...)
	}
	return out
}

// what happened during a history (used for the order-dependence flag and for
// the signatures of the documented findings)
type flags struct {
	amb                  bool          // Go map order may matter: compared by the laws only
	sawNotReady          bool          // Ready() was false after some event
	selStale             bool          // D2: a node event the cache does not propagate to a HyperNode whose selector matches the node
	deletedClaimed       bool          // D5: a HyperNode was deleted while another one still listed it as a member
	failedDelete         bool          // D6: a DeleteHyperNode returned an error (the entry stays, marked as being deleted)
	foreignReset         bool          // D9: an update / delete released a member whose Parent pointer named another HyperNode
	arrivesDoublyClaimed bool          // D15: an object arrived for a name that two or more stored HyperNodes list
	invLinks             map[link]bool // D7: claimer -> member links that were tier-inverted at some point
	tierInversion        bool          // D7: at some point a stored HyperNode claimed a member whose tier is not below its own
}

// selStale (finding D2): node event for n, and some stored HyperNode that has BOTH HyperNode
// members and regex/label node members selects n: triggerUpdateHyperNode only refreshes
// HyperNodes without HyperNode members (GetRegexOrLabelMatchLeafHyperNodes)
func (s *sut) selStale(n int64, deletion bool) bool {
	inSel := func(id int64) bool {
		for _, x := range s.w.sel[id] {
			if x == n {
				return true
			}
		}
		return false
	}
	for _, info := range s.hni.HyperNodes() {
		if info.HyperNode == nil {
			continue
		}
		leaf, hit := true, false
		for _, m := range info.HyperNode.Spec.Members {
			switch {
			case m.Type == topologyv1alpha1.MemberTypeHyperNode:
				leaf = false
			case m.Selector.RegexMatch != nil:
				hit = hit || inSel(selOfPattern(m.Selector.RegexMatch.Pattern))
			case m.Selector.LabelMatch != nil:
				hit = hit || inSel(labelSelectorID(m.Selector.LabelMatch))
			}
		}
		if hit && !leaf {
			return true
		}
	}
	return false
}

// claimedBySomeone: a stored HyperNode lists x as a HyperNode member
func (s *sut) claimedBySomeone(x int64) bool {
	for _, info := range s.hni.HyperNodes() {
		if info.HyperNode == nil {
			continue
		}
		for _, m := range info.HyperNode.Spec.Members {
			if m.Type == topologyv1alpha1.MemberTypeHyperNode && m.Selector.ExactMatch != nil && hnID(m.Selector.ExactMatch.Name) == x {
				return true
			}
		}
	}
	return false
}

// runHistory applies the events; obs (if non-nil) receives the view after each event
func runHistory(w *world, evs []event, obs func(i int, s *sut)) (s *sut, fl flags) {
	s = newSut(w, w.nodes)
	for i, ev := range evs {
		before := s.hni.HyperNodes()
		if ev.kind == 0 {
			n := 0
			for name, info := range before {
				if name == hnName(ev.obj.name) || info.HyperNode == nil {
					continue
				}
				for _, m := range info.HyperNode.Spec.Members {
					if m.Type == topologyv1alpha1.MemberTypeHyperNode && m.Selector.ExactMatch != nil && hnID(m.Selector.ExactMatch.Name) == ev.obj.name {
						n++
						break
					}
				}
			}
			if n >= 2 {
				fl.arrivesDoublyClaimed = true
			}
		}
		if freesMany(before, ev) {
			fl.amb = true
		}
		if releasesForeign(before, ev) {
			fl.foreignReset = true
		}
		if (ev.kind == 2 || ev.kind == 3) && s.selStale(ev.id, ev.kind == 3) {
			fl.selStale = true
		}
		if ev.kind == 1 && s.claimedBySomeone(ev.id) {
			fl.deletedClaimed = true
		}
		if err := s.apply(ev); err != nil {
			if ev.kind == 1 {
				fl.failedDelete = true
			}
			if ev.kind == 2 || ev.kind == 3 {
				fl.amb = true
			}
		}
		after := s.hni.HyperNodes()
		if claimedTwice(after) {
			fl.amb = true
		}
		if tierInverted(after) {
			fl.tierInversion = true
		}
		if fl.invLinks == nil {
			fl.invLinks = map[link]bool{}
		}
		invertedLinks(after, fl.invLinks)
		if !s.hni.Ready() {
			fl.sawNotReady = true
		}
		if obs != nil {
			obs(i+1, s)
		}
	}
	return s, fl
}

func tag(i int) []int64 { return []int64{int64(-100 - i)} }

// ---------- session for the placement entry ----------
type placed struct {
	hnMap    []int64 // encoded ssn.HyperNodes
	queries  [][]int64
	results  [][]int64 // per query: flattened (name, tier) pairs; nil = nothing offered / error / crash
	crashed  []bool
	dangling bool // some Children entry names a HyperNode without an entry in the session map
	lcaQ     [][2]int64
	lcaR     []int64
}

var last *placed

func openSession(s *sut) (*framework.Session, func()) {
	binder := util.NewFakeBinder(0)
	evictor := util.NewFakeEvictor(0)
	sc := cache.NewCustomMockSchedulerCache("verif-scheduler", binder, evictor, &util.FakeStatusUpdater{}, nil, nil)
	sc.HyperNodesInfo = s.hni
	framework.RegisterPluginBuilder(nta.PluginName, nta.New)
	yes := true
	tiers := []conf.Tier{{Plugins: []conf.PluginOption{{Name: nta.PluginName, EnabledHyperNodeOrder: &yes,
		EnabledNodeOrder: &yes, EnabledHyperNodeGradient: &yes}}}}
	ssn := framework.OpenSession(sc, tiers, nil)
	return ssn, func() { framework.CloseSession(ssn); framework.CleanupPluginBuilders() }
}

func ssnName(id int64) string {
	if id == topID {
		return framework.ClusterTopHyperNode
	}
	if id == 0 {
		return ""
	}
	return hnName(id)
}

func runPlacement(in []int64) []int64 {
	r := &rd{t: in}
	w := r.env()
	evs := r.events()
	nq := int(r.next())
	queries := [][]int64{}
	for i := 0; i < nq; i++ {
		queries = append(queries, []int64{r.next(), r.next(), r.next()})
	}
	nl := int(r.next())
	lcas := [][2]int64{}
	for i := 0; i < nl; i++ {
		lcas = append(lcas, [2]int64{r.next(), r.next()})
	}
	ancQ := r.list()
	last = nil
	s, fl := runHistory(w, evs, nil)
	if fl.amb {
		return []int64{-7}
	}
	ssn, closeFn := openSession(s)
	defer closeFn()
	p := &placed{hnMap: encInfoMap(ssn.HyperNodes), queries: queries, lcaQ: lcas}
	for _, info := range ssn.HyperNodes {
		for c := range info.Children {
			if _, ok := ssn.HyperNodes[c]; !ok {
				p.dangling = true
			}
		}
	}
	out := append(tag(1), p.hnMap...)
	out = append(out, tag(2)...)
	for _, q := range queries {
		limit := int(q[1])
		job := &api.JobInfo{UID: "verif/job", NetworkTopology: &scheduling.NetworkTopologySpec{
			Mode: scheduling.HardNetworkTopologyMode, HighestTierAllowed: &limit},
			AllocatedHyperNode: ssnName(q[2])}
		if _, ok := ssn.HyperNodes[ssnName(q[0])]; !ok {
			out = append(out, -5)
			p.results = append(p.results, nil)
			p.crashed = append(p.crashed, false)
			continue
		}
		var res [][]*api.HyperNodeInfo
		crashed := false
		func() {
			defer func() {
				if e := recover(); e != nil {
					crashed = true
				}
			}()
			res = ssn.HyperNodeGradientForJobFn(job, ssn.HyperNodes[ssnName(q[0])], api.PurposeAllocate)
		}()
		p.crashed = append(p.crashed, crashed)
		if crashed {
			out = append(out, -666)
			p.results = append(p.results, nil)
			continue
		}
		if len(res) == 0 {
			out = append(out, 0)
			p.results = append(p.results, nil)
			continue
		}
		out = append(out, 1, int64(len(res)))
		flat := []int64{}
		prevTier := -1 << 30
		for _, group := range res {
			if len(group) == 0 {
				panic("empty gradient group")
			}
			t := group[0].Tier()
			if t <= prevTier {
				panic("gradient tiers not strictly ascending")
			}
			prevTier = t
			ids := []int64{}
			for _, h := range group {
				if h.Tier() != t {
					panic("gradient group mixes tiers")
				}
				ids = append(ids, hnID(h.Name))
				flat = append(flat, hnID(h.Name), int64(h.Tier()))
			}
			sort.Slice(ids, func(i, j int) bool { return ids[i] < ids[j] })
			out = append(out, int64(t), int64(len(ids)))
			out = append(out, ids...)
		}
		p.results = append(p.results, flat)
	}
	out = append(out, tag(3)...)
	for _, q := range lcas {
		l := hnID(ssn.HyperNodes.GetLCAHyperNode(ssnName(q[0]), ssnName(q[1])))
		out = append(out, l)
		p.lcaR = append(p.lcaR, l)
	}
	out = append(out, tag(4)...)
	for _, a := range ancQ {
		anc := ssn.HyperNodes.GetAncestors(ssnName(a))
		out = append(out, int64(len(anc)))
		for _, x := range anc {
			out = append(out, hnID(x))
		}
	}
	last = p
	return out
}

func run(sel int, in []int64) []int64 {
	switch sel {
	case 1:
		r := &rd{t: in}
		w := r.env()
		evs := r.events()
		out := []int64{}
		_, fl := runHistory(w, evs, func(i int, s *sut) {
			out = append(out, tag(i)...)
			out = append(out, encView(s.hni)...)
		})
		if fl.amb {
			return []int64{-7}
		}
		return out
	case 2:
		return runPlacement(in)
	case 3:
		return runTrace(in)
	}
	panic("unknown selector")
}

// ---------- laws ----------
func encObj(o hobj) []int64 {
	out := []int64{o.name, o.tier, int64(len(o.members))}
	for _, m := range o.members {
		out = append(out, m.kind, m.a)
	}
	return out
}

func encEnv(w *world, nodes []int64) []int64 {
	out := []int64{int64(len(w.selID))}
	for _, id := range w.selID {
		out = append(out, id, int64(len(w.sel[id])))
		out = append(out, w.sel[id]...)
	}
	out = append(out, int64(len(nodes)))
	return append(out, nodes...)
}

// the objects and nodes the API server holds after the history
func finalWorld(w *world, evs []event) ([]hobj, []int64) {
	objs := map[int64]hobj{}
	nodes := map[int64]bool{}
	for _, n := range w.nodes {
		nodes[n] = true
	}
	for _, ev := range evs {
		switch ev.kind {
		case 0:
			objs[ev.obj.name] = ev.obj
		case 1:
			delete(objs, ev.id)
		case 2:
			nodes[ev.id] = true
		case 3:
			delete(nodes, ev.id)
		}
	}
	ids := []int64{}
	for k := range objs {
		ids = append(ids, k)
	}
	sort.Slice(ids, func(i, j int) bool { return ids[i] < ids[j] })
	ol := []hobj{}
	for _, k := range ids {
		ol = append(ol, objs[k])
	}
	ns := []int64{}
	for n := range nodes {
		ns = append(ns, n)
	}
	sort.Slice(ns, func(i, j int) bool { return ns[i] < ns[j] })
	return ol, ns
}

func laws(sel int, in, got []int64, law func(lsel int, lin []int64, sig string)) {
	cat := func(xs ...[]int64) (o []int64) {
		for _, x := range xs {
			o = append(o, x...)
		}
		return
	}
	switch sel {
	case 1:
		r := &rd{t: in}
		w := r.env()
		evs := r.events()
		objs, nodes := finalWorld(w, evs)
		s, fl := runHistory(w, evs, nil)
		// The cache requeues a HyperNode event whose handler failed (processSyncHyperNode):
		// a DeleteHyperNode that returned an error is retried until it succeeds.  Replay
		// those retries (two passes) before the final view is judged.
		final := map[int64]bool{}
		for _, o := range objs {
			final[o.name] = true
		}
		for pass := 0; pass < 2; pass++ {
			indexed := map[int64]bool{}
			for _, set := range s.hni.HyperNodesSetByTier() {
				for n := range set {
					indexed[hnID(n)] = true
				}
			}
			for _, id := range sortedIDs(s.hni.HyperNodes(), hnID) {
				if indexed[id] && !final[id] {
					_ = s.hni.DeleteHyperNode(hnName(id))
				}
			}
		}
		incr := encView(s.hni)
		fevs := []event{}
		for _, o := range objs {
			fevs = append(fevs, event{kind: 0, obj: o})
		}
		f, ffl := runHistory(&world{sel: w.sel, selID: w.selID, nodes: nodes}, fevs, nil)
		fresh := encView(f.hni)
		eo := []int64{int64(len(objs))}
		for _, o := range objs {
			eo = append(eo, encObj(o)...)
		}
		// Signatures of the documented findings (docs/notes/C14.md).  A signature is attached
		// only to the law the finding explains; 111/112 re-check everything D2 does not touch.
		const d2 = "C14-D2-selector-members-of-non-leaf-hypernode-stale-after-node-event"
		const d7 = "C14-D7-bad-membership-invisible-under-tier-inversion"
		// D2: by history flag (a node event concerned a mixed HyperNode).  D7: only when the
		// HyperNodes the law complains about sit at a link that was tier-inverted at some point
		// (d7sig.go); every other failure of the same laws in the same history stays unsigned.
		tree := specOf(w, objs, nodes)
		allLinks := map[link]bool{}
		for l := range fl.invLinks {
			allLinks[l] = true
		}
		for l := range ffl.invLinks {
			allLinks[l] = true
		}
		offIncr, offFresh := offenders(s.hni, tree), offenders(f.hni, tree)
		viewSig := func(selStale bool, off []int64, links map[link]bool, withD2 bool) string {
			if withD2 && selStale {
				return d2
			}
			if d7ExplainsView(off, d7Cover(links, tree)) {
				return d7
			}
			return ""
		}
		badSig := func(links map[link]bool) string {
			if d7ExplainsBad(objs, links) {
				return d7
			}
			return ""
		}
		sig105 := ""
		if len(fl.invLinks) > 0 && (len(offIncr) == 0 || d7ExplainsView(offIncr, d7Cover(fl.invLinks, tree))) {
			// not ready on a consistent final forest: a rebuild through a once-inverted link is
			// still recorded as failed; no other HyperNode is wrong
			for l := range fl.invLinks {
				if _, ok := tree.objs[l.claimer]; ok {
					sig105 = d7
				}
				if _, ok := tree.objs[l.member]; ok {
					sig105 = d7
				}
			}
		}
		diff := differing(s.hni, f.hni, tree)
		law(101, cat(encEnv(w, nodes), eo, incr), viewSig(fl.selStale, offIncr, fl.invLinks, true))
		law(111, cat(encEnv(w, nodes), eo, incr), viewSig(false, offIncr, fl.invLinks, false))
		law(102, cat(eo, incr, fresh), viewSig(fl.selStale || ffl.selStale, diff, allLinks, true))
		law(112, cat(eo, incr, fresh), viewSig(false, diff, allLinks, false))
		law(105, cat(eo, incr), sig105)
		law(106, cat(eo, incr), badSig(fl.invLinks))
		law(101, cat(encEnv(w, nodes), eo, fresh), viewSig(ffl.selStale, offFresh, ffl.invLinks, true))
		law(106, cat(eo, fresh), badSig(ffl.invLinks))
	case 3:
		traceLaws(law)
	case 2:
		p := last
		if p == nil {
			return
		}
		for i, q := range p.queries {
			law(107, []int64{vh.B(p.crashed[i])}, "")
			if p.results[i] == nil {
				continue
			}
			g := []int64{int64(len(p.results[i]) / 2)}
			law(103, cat(p.hnMap, q, g, p.results[i]), "")
		}
		for i, q := range p.lcaQ {
			if q[0] == 0 || q[1] == 0 {
				continue
			}
			law(104, cat(p.hnMap, []int64{q[0], q[1], p.lcaR[i]}), "")
		}
	}
}

var ntaName = nta.PluginName
var ntaNew = nta.New

func main() {
	vh.Harness{Run: run, Laws: laws, Gen: gen}.Main()
}
