package main

// Real allocate traces: a hand-filled HyperNode forest (2-3 tiers), one hard-mode
// job (tier limit by number) with or without a sub-group policy, pods already
// running for the job, pending pods some of which carry status.nominatedNodeName.
// The allocate action runs in a real session (uthelper: real cache, fake binder);
// law 108 is evaluated on the placements decided in the session.

import (
	"flag"
	"fmt"
	"os"
	"runtime/debug"
	"sort"

	v1 "k8s.io/api/core/v1"
	metav1 "k8s.io/apimachinery/pkg/apis/meta/v1"
	"k8s.io/apimachinery/pkg/util/sets"
	listerv1 "k8s.io/client-go/listers/core/v1"
	k8scache "k8s.io/client-go/tools/cache"
	"k8s.io/klog/v2"

	"verif/harness/internal/vh"
	schedulingv1 "volcano.sh/apis/pkg/apis/scheduling/v1beta1"
	topologyv1alpha1 "volcano.sh/apis/pkg/apis/topology/v1alpha1"
	"volcano.sh/volcano/pkg/scheduler/actions/allocate"
	"volcano.sh/volcano/pkg/scheduler/api"
	"volcano.sh/volcano/pkg/scheduler/cache"
	"volcano.sh/volcano/pkg/scheduler/conf"
	"volcano.sh/volcano/pkg/scheduler/framework"
	vcmetrics "volcano.sh/volcano/pkg/scheduler/metrics"
	"volcano.sh/volcano/pkg/scheduler/plugins/gang"
	"volcano.sh/volcano/pkg/scheduler/plugins/predicates"
	"volcano.sh/volcano/pkg/scheduler/util"
)

func init() {
	// what uthelper's init does: the kube-scheduler plugins used by predicates need their metrics
	vcmetrics.InitKubeSchedulerRelatedMetrics()
}

type traceLeaf struct {
	group int64   // tier-2 HyperNode it hangs under (1..G)
	caps  []int64 // per node: how many 2-cpu pods fit
}
type tracePod struct{ running, node, role int64 } // node: where it runs / nominated node (0 = none)
type traceIn struct {
	depth            int64
	leaves           []traceLeaf
	limit, minAvail  int64
	policy, subLimit int64 // policy 0 none, 1 sub-group policy without topology, 2 with hard topology
	pre              int64 // 1: an earlier session was opened on the same cached job while the tier names were shifted one tier up
	jobName, subName int64 // how the tier limit is given: 0 number, 1 valid tier name ("tier<limit>"), 2 a tier name no HyperNode carries
	notReady, pin    int64 // notReady: two extra HyperNodes claiming each other; pin: NominatedHyperNode of the first sub-job (0 = none)
	annot            int64 // leaf HyperNode the scheduler remembers as the job's AllocatedHyperNode (0 = lost by a restart)
	pods             []tracePod
}

func decTrace(in []int64) traceIn {
	r := &rd{t: in}
	t := traceIn{depth: r.next()}
	nl := int(r.next())
	for i := 0; i < nl; i++ {
		t.leaves = append(t.leaves, traceLeaf{group: r.next(), caps: r.list()})
	}
	job := r.list()
	t.limit, t.minAvail, t.policy, t.subLimit, t.annot = job[0], job[1], job[2], job[3], job[4]
	if len(job) > 6 {
		t.notReady, t.pin = job[5], job[6]
	}
	if len(job) > 8 {
		t.jobName, t.subName = job[7], job[8]
	}
	if len(job) > 9 {
		t.pre = job[9]
	}
	np := int(r.next())
	for i := 0; i < np; i++ {
		p := r.list()
		t.pods = append(t.pods, tracePod{p[0], p[1], p[2]})
	}
	return t
}

type placementGroup struct {
	newBinds       int     // pods of the group bound by this action
	quick          []int64 // nodes of pods of the group that went through the nomination quick path
	rest           []int64 // placements of the group without those pods
	sigD11         bool    // recorded holds every placement within the limit but a lower HyperNode does too
	sigD11rest     bool    // the D11 mechanism for the placements without the quick-path pods
	recCoversQuick bool    // the recorded HyperNode holds the quick-path pods' nodes: the quick path (co-)wrote the record
	sub            bool
	limit          int64
	recorded       int64
	nodes          []int64
}
type traceOut struct {
	unknownName      bool
	unknownNameBinds int64
	notReady         bool
	newBinds         int64 // tasks that were pending in the input and are in an allocated status afterwards
	anyHard          bool
	hnMap            []int64
	real             []int64
	groups           []placementGroup
	desc             string
	sig              string
	sigRec           string
}

var lastTrace *traceOut

func klogDebug() {
	fs := flag.NewFlagSet("klog2", flag.ContinueOnError)
	klog.InitFlags(fs)
	fs.Set("logtostderr", "true")
	fs.Set("v", "3")
	klog.SetOutput(os.Stderr)
}

func runTrace(in []int64) []int64 {
	lastTrace = nil
	if os.Getenv("VERIF_C14_DEBUG") != "" {
		defer func() {
			if e := recover(); e != nil {
				fmt.Fprintln(os.Stderr, "PANIC", e, string(debug.Stack()))
				panic(e)
			}
		}()
	}
	if os.Getenv("VERIF_C14_DEBUG") == "2" {
		klogDebug()
	}
	t := decTrace(in)
	L := int64(len(t.leaves))
	G := int64(0)
	for _, l := range t.leaves {
		if l.group > G {
			G = l.group
		}
	}
	mem := func(ty topologyv1alpha1.MemberType, names ...string) []api.MemberConfig {
		var res []api.MemberConfig
		for _, n := range names {
			res = append(res, api.MemberConfig{Name: n, Type: ty, Selector: "exact"})
		}
		return res
	}
	// the HyperNode objects, leaves first; the view is built from them by the real
	// UpdateHyperNode (below), so the view half and the placement half are composed
	var hnObjs []*topologyv1alpha1.HyperNode
	addHN := func(name string, tier int, ty topologyv1alpha1.MemberType, members []string, nodes sets.Set[string]) {
		hn := api.BuildHyperNode(name, tier, mem(ty, members...))
		hn.Spec.TierName = fmt.Sprintf("tier%d", tier)
		hnObjs = append(hnObjs, hn)
	}
	var nodes []*v1.Node
	nodeIdx := int64(0)
	groupLeaves := map[int64][]string{}
	groupNodes := map[int64]sets.Set[string]{}
	all := sets.New[string]()
	for i, l := range t.leaves {
		names := []string{}
		for _, c := range l.caps {
			nodeIdx++
			n := nodeName(nodeIdx)
			names = append(names, n)
			nodes = append(nodes, util.BuildNode(n, api.BuildResourceList(fmt.Sprint(2*c), fmt.Sprintf("%dGi", 4*c),
				[]api.ScalarResource{{Name: "pods", Value: "10"}}...), nil))
		}
		leaf := hnName(int64(i + 1))
		addHN(leaf, 1, topologyv1alpha1.MemberTypeNode, names, sets.New(names...))
		groupLeaves[l.group] = append(groupLeaves[l.group], leaf)
		if groupNodes[l.group] == nil {
			groupNodes[l.group] = sets.New[string]()
		}
		groupNodes[l.group].Insert(names...)
		all.Insert(names...)
	}
	mids := []string{}
	for g := int64(1); g <= G; g++ {
		if len(groupLeaves[g]) == 0 {
			continue
		}
		name := hnName(L + g)
		addHN(name, 2, topologyv1alpha1.MemberTypeHyperNode, groupLeaves[g], groupNodes[g])
		mids = append(mids, name)
	}
	if t.depth >= 3 {
		addHN(hnName(L+G+1), 3, topologyv1alpha1.MemberTypeHyperNode, mids, all)
	}

	var policies []schedulingv1.SubGroupPolicySpec
	switch t.policy {
	case 1:
		policies = []schedulingv1.SubGroupPolicySpec{util.BuildSubGroupPolicy("role", []string{"volcano.sh/task-spec"}, "", 0)}
	case 2, 3:
		policies = []schedulingv1.SubGroupPolicySpec{util.BuildSubGroupPolicy("role", []string{"volcano.sh/task-spec"}, "hard", int(t.subLimit))}
	}
	var pg *schedulingv1.PodGroup
	if t.policy == 3 { // the hard topology sits only in the sub-group policy
		pg = util.BuildPodGroupWithSubGroupPolicy("pg1", "c1", "", "q1", int32(t.minAvail), nil, schedulingv1.PodGroupInqueue, "", 0, policies)
	} else if policies != nil {
		pg = util.BuildPodGroupWithSubGroupPolicy("pg1", "c1", "", "q1", int32(t.minAvail), nil, schedulingv1.PodGroupInqueue, "hard", int(t.limit), policies)
	} else {
		pg = util.BuildPodGroupWithNetWorkTopologies("pg1", "c1", "", "q1", int32(t.minAvail), nil, schedulingv1.PodGroupInqueue, "hard", int(t.limit))
	}
	// tier limits given by NAME are translated at session open (adjustNetworkTopologySpec)
	byName := func(spec *schedulingv1.NetworkTopologySpec, mode, limit int64) {
		if spec == nil || mode == 0 {
			return
		}
		spec.HighestTierAllowed = nil
		if mode == 1 {
			spec.HighestTierName = fmt.Sprintf("tier%d", limit)
		} else {
			spec.HighestTierName = "no-such-tier"
		}
	}
	byName(pg.Spec.NetworkTopology, t.jobName, t.limit)
	for i := range pg.Spec.SubGroupPolicy {
		byName(pg.Spec.SubGroupPolicy[i].NetworkTopology, t.subName, t.subLimit)
	}
	var pods []*v1.Pod
	want := map[string]api.TaskStatus{} // pod name -> status to force in the cache (Binding / Allocated)
	placed := 0
	inputPlaced := map[string]bool{}
	inputStatus := map[string]int64{}
	inputNom := map[string]int64{}
	inputRole := map[string]int64{}
	for i, p := range t.pods {
		lbl := map[string]string{"volcano.sh/task-spec": fmt.Sprintf("role%d", p.role)}
		name := fmt.Sprintf("p%d", i+1)
		req := api.BuildResourceList("2", "4G")
		inputStatus[name] = p.running
		inputNom[name] = p.node
		inputRole[name] = p.role
		switch p.running {
		case 0:
			pod := util.BuildPod("c1", name, "", v1.PodPending, req, "pg1", lbl, nil)
			if p.node != 0 {
				pod.Status.NominatedNodeName = nodeName(p.node)
			}
			pods = append(pods, pod)
		case 1: // Running
			pods = append(pods, util.BuildPod("c1", name, nodeName(p.node), v1.PodRunning, req, "pg1", lbl, nil))
			placed++
			inputPlaced[name] = true
		case 2, 3, 4: // Bound (phase Pending with a node); Binding / Allocated are forced in the cache below
			pods = append(pods, util.BuildPod("c1", name, nodeName(p.node), v1.PodPending, req, "pg1", lbl, nil))
			placed++
			inputPlaced[name] = true
			if p.running == 3 {
				want[name] = api.Binding
			} else if p.running == 4 {
				want[name] = api.Allocated
			}
		default: // Releasing: running and being deleted — not an allocated status
			pod := util.BuildPod("c1", name, nodeName(p.node), v1.PodRunning, req, "pg1", lbl, nil)
			now := metav1.Now()
			pod.DeletionTimestamp = &now
			pods = append(pods, pod)
		}
	}

	// the scheduler cache, filled the way uthelper does it (real cache, fake binder / evictor)
	stop := make(chan struct{})
	sc := cache.NewCustomMockSchedulerCache("verif-scheduler", util.NewFakeBinder(0), util.NewFakeEvictor(0),
		&util.FakeStatusUpdater{}, nil, nil)
	sc.Run(stop)
	sc.WaitForCacheSync(stop)
	for _, n := range nodes {
		sc.AddOrUpdateNode(n)
	}
	for _, p := range pods {
		sc.AddPod(p)
	}
	sc.AddPodGroupV1beta1(pg)
	sc.AddQueueV1beta1(util.BuildQueue("q1", 1, nil))
	ix := k8scache.NewIndexer(k8scache.MetaNamespaceKeyFunc, k8scache.Indexers{})
	for _, n := range nodes {
		ix.Add(n)
	}
	view := api.NewHyperNodesInfo(listerv1.NewNodeLister(ix))
	order := hnObjs
	if (int(t.depth)+len(t.leaves))%2 == 0 { // parents before their members: placeholders, ancestor rebuilds
		order = nil
		for i := len(hnObjs) - 1; i >= 0; i-- {
			order = append(order, hnObjs[i])
		}
	}
	for _, hn := range order {
		first := hn
		if t.pre != 0 {
			// before the earlier session the HyperNodes of tier t carry the name "tier<t-1>":
			// every tier name denotes the tier above the one it denotes later
			first = hn.DeepCopy()
			first.Spec.TierName = fmt.Sprintf("tier%d", hn.Spec.Tier-1)
		}
		if err := view.UpdateHyperNode(first); err != nil {
			panic("consistent forest rejected: " + err.Error())
		}
	}
	if t.notReady != 0 {
		// two HyperNodes that list each other: the view must report not ready
		_ = view.UpdateHyperNode(api.BuildHyperNode("h90", 2, mem(topologyv1alpha1.MemberTypeHyperNode, "h91")))
		_ = view.UpdateHyperNode(api.BuildHyperNode("h91", 3, mem(topologyv1alpha1.MemberTypeHyperNode, "h90")))
		if view.Ready() {
			panic("cycle h90 <-> h91 not reported")
		}
	} else if !view.Ready() {
		panic("consistent forest not ready")
	}
	sc.HyperNodesInfo = view
	// tasks the scheduler has placed but whose pods are not bound yet sit in the cache as
	// Allocated / Binding (cache.AddBindTask); force those statuses on the cached tasks
	for _, job := range sc.Jobs {
		var todo []*api.TaskInfo
		for _, task := range job.Tasks {
			if _, ok := want[task.Name]; ok {
				todo = append(todo, task)
			}
		}
		for _, task := range todo {
			job.UpdateTaskStatus(task, want[task.Name])
		}
	}

	if t.annot != 0 {
		// a scheduler that has been running keeps the job's AllocatedHyperNode in its cache
		// (cache.go:1741); put it there so that the session-open code reads it
		// (removeInvalidAllocatedHyperNode, the gates of recoverAllocatedHyperNode).
		// annot may also name a HyperNode that does not exist (any more).
		for _, job := range sc.Jobs {
			job.AllocatedHyperNode = hnName(t.annot)
		}
	}

	yes := true
	framework.RegisterPluginBuilder(predicates.PluginName, predicates.New)
	framework.RegisterPluginBuilder(gang.PluginName, gang.New)
	framework.RegisterPluginBuilder(ntaName, ntaNew)
	tiers := []conf.Tier{{Plugins: []conf.PluginOption{
		{Name: gang.PluginName, EnabledJobOrder: &yes, EnabledJobReady: &yes, EnabledJobPipelined: &yes, EnabledJobStarving: &yes},
		{Name: predicates.PluginName, EnabledPredicate: &yes},
		{Name: ntaName, EnabledNodeOrder: &yes, EnabledHyperNodeOrder: &yes, EnabledHyperNodeGradient: &yes},
	}}}
	if t.pre != 0 {
		// an earlier scheduling session on the same cached job (no PodGroup update in between);
		// afterwards the HyperNodes are re-labelled with their final tier names.  A tier limit
		// given by name must be resolved anew in every session.
		early := framework.OpenSession(sc, tiers, nil)
		framework.CloseSession(early)
		for _, hn := range hnObjs {
			if err := view.UpdateHyperNode(hn); err != nil {
				panic("re-labelling rejected: " + err.Error())
			}
		}
	}
	ssn := framework.OpenSession(sc, tiers, nil)
	defer func() {
		framework.CloseSession(ssn)
		framework.CleanupPluginBuilders()
		close(stop)
	}()

	// correspondence: what recoverAllocatedHyperNode rebuilt at session open
	roleOf := func(sj *api.SubJobInfo) (int64, bool) {
		for _, task := range sj.Tasks {
			if t.policy == 0 {
				return 0, true
			}
			var r int64
			fmt.Sscanf(task.Pod.Labels["volcano.sh/task-spec"], "role%d", &r)
			return r, true
		}
		return 0, false
	}
	obs := tag(1)
	type subRec struct{ role, rec int64 }
	var subs []subRec
	for _, job := range ssn.Jobs {
		obs = append(obs, hnID(job.AllocatedHyperNode))
		for _, sj := range job.SubJobs {
			if r, ok := roleOf(sj); ok {
				subs = append(subs, subRec{r, hnID(sj.AllocatedHyperNode)})
			}
		}
	}
	sort.Slice(subs, func(i, j int) bool { return subs[i].role < subs[j].role })
	obs = append(obs, tag(2)...)
	obs = append(obs, int64(len(subs)))
	for _, sr := range subs {
		obs = append(obs, sr.role, sr.rec)
	}

	// correspondence: the tier limits after adjustNetworkTopologySpec
	obs = append(obs, tag(3)...)
	type subLim struct{ role, hard, limit int64 }
	var lims []subLim
	for _, job := range ssn.Jobs {
		hard, lim := job.IsHardTopologyMode()
		obs = append(obs, vh.B(hard), int64(lim)*vh.B(hard))
		for _, sj := range job.SubJobs {
			if r, ok := roleOf(sj); ok {
				h, l := sj.IsHardTopologyMode()
				lims = append(lims, subLim{r, vh.B(h), int64(l) * vh.B(h)})
			}
		}
	}
	sort.Slice(lims, func(i, j int) bool { return lims[i].role < lims[j].role })
	obs = append(obs, int64(len(lims)))
	for _, l := range lims {
		obs = append(obs, l.role, l.hard, l.limit)
	}

	if t.pin != 0 {
		// gangpreempt / gangreclaim pin a sub-job to a HyperNode (NominatedHyperNode) and its pending
		// pods to nodes of it; allocate then takes the quick path allocateFromNomination
		for _, job := range ssn.Jobs {
			for _, sj := range job.SubJobs {
				if r, ok := roleOf(sj); ok && (r == 0 || r == 1) {
					sj.NominatedHyperNode = hnName(t.pin)
				}
			}
		}
	}
	conf.EnabledActionMap = map[string]bool{"allocate": true}
	act := allocate.New()
	act.Initialize()
	act.Execute(ssn)
	act.UnInitialize()

	out := &traceOut{hnMap: encInfoMap(ssn.HyperNodes)}
	ids := sortedIDs(ssn.RealNodesSet, hnID)
	out.real = []int64{int64(len(ids))}
	for _, id := range ids {
		ns := sortedIDs(ssn.RealNodesSet[ssnName(id)], nodeID)
		out.real = append(out.real, id, int64(len(ns)))
		out.real = append(out.real, ns...)
	}
	placedOf := func(tasks map[api.TaskID]*api.TaskInfo) []int64 {
		ns := []int64{}
		for _, task := range tasks {
			// placed = already placed in the input (whatever allocated status it has) or bound by
			// this action; a task left in Allocated by an uncommitted (pipelined) statement is not a bind
			if task.NodeName != "" && api.AllocatedStatus(task.Status) && (task.Status != api.Allocated || inputPlaced[task.Name]) {
				ns = append(ns, nodeID(task.NodeName))
			}
		}
		sort.Slice(ns, func(i, j int) bool { return ns[i] < ns[j] })
		return ns
	}
	bound := func(task *api.TaskInfo) bool {
		return task.NodeName != "" && (task.Status == api.Binding || task.Status == api.Bound || task.Status == api.Running)
	}
	pinnedPod := func(name string) bool {
		return t.pin != 0 && inputStatus[name] == 0 && (t.policy == 0 || inputRole[name] == 1)
	}
	// evidence of the nomination quick path: a pending pod of the pinned sub-job was bound on the
	// node it was nominated to (inside the pinned leaf), and none of them was bound anywhere else
	quickRan := t.pin != 0
	onNominated := func(task *api.TaskInfo) bool {
		return pinnedPod(task.Name) && bound(task) && nodeID(task.NodeName) == inputNom[task.Name]
	}
	nQuick := 0
	for _, job := range ssn.Jobs {
		for _, task := range job.Tasks {
			if pinnedPod(task.Name) && bound(task) {
				if onNominated(task) {
					nQuick++
				} else {
					quickRan = false
				}
			}
		}
	}
	quickRan = quickRan && nQuick > 0
	coversAll := func(hn string, ns []int64) bool {
		set, ok := ssn.RealNodesSet[hn]
		if !ok {
			return false
		}
		for _, n := range ns {
			if !set.Has(nodeName(n)) {
				return false
			}
		}
		return true
	}
	mkGroup := func(sub bool, limit int64, recorded string, tasks map[api.TaskID]*api.TaskInfo) placementGroup {
		g := placementGroup{sub: sub, limit: limit, recorded: hnID(recorded), nodes: placedOf(tasks)}
		for _, task := range tasks {
			if inputStatus[task.Name] == 0 && bound(task) {
				g.newBinds++
			}
			placed := task.NodeName != "" && api.AllocatedStatus(task.Status) && (task.Status != api.Allocated || inputPlaced[task.Name])
			if !placed {
				continue
			}
			if quickRan && onNominated(task) {
				g.quick = append(g.quick, nodeID(task.NodeName))
			} else {
				g.rest = append(g.rest, nodeID(task.NodeName))
			}
		}
		sort.Slice(g.rest, func(i, j int) bool { return g.rest[i] < g.rest[j] })
		g.recCoversQuick = len(g.quick) > 0 && coversAll(recorded, g.quick)
		// D11 mechanism: the record holds every placement within the limit, yet a HyperNode of a
		// lower tier holds them too (a domain wider than the placements was chosen and recorded)
		if rec, ok := ssn.HyperNodes[recorded]; ok && len(g.nodes) > 0 && int64(rec.Tier()) <= limit && coversAll(recorded, g.nodes) {
			for name, hn := range ssn.HyperNodes {
				if hn.Tier() < rec.Tier() && coversAll(name, g.nodes) {
					g.sigD11 = true
				}
			}
		}
		// the same D11 mechanism for the group without the quick-path pods
		if rec, ok := ssn.HyperNodes[recorded]; ok && len(g.rest) > 0 && int64(rec.Tier()) <= limit && coversAll(recorded, g.rest) {
			for name, hn := range ssn.HyperNodes {
				if hn.Tier() < rec.Tier() && coversAll(name, g.rest) {
					g.sigD11rest = true
				}
			}
		}
		return g
	}
	desc := ""
	out.notReady = t.notReady != 0
	for _, job := range ssn.Jobs {
		// The groups judged by laws 108/109 follow the constraints the USER gave (a number, or a
		// tier name that a HyperNode of the forest carries), not what the session made of them:
		// a limit lost in translation must show up as a law failure.
		out.anyHard = out.anyHard || job.ContainsHardTopology() || (t.policy != 3 && t.jobName != 2) || (t.policy >= 2 && t.subName != 2)
		for _, task := range job.Tasks {
			if inputStatus[task.Name] == 0 && task.NodeName != "" &&
				(task.Status == api.Binding || task.Status == api.Bound || task.Status == api.Running) {
				out.newBinds++
			}
		}
		if t.policy != 3 && t.jobName != 2 {
			out.groups = append(out.groups, mkGroup(false, t.limit, job.AllocatedHyperNode, job.Tasks))
		}
		names := []string{}
		for _, task := range job.Tasks {
			names = append(names, fmt.Sprintf("%s(%s)->%s", task.Name, task.Status, task.NodeName))
		}
		sort.Strings(names)
		desc = fmt.Sprint(names, " jobAllocated=", job.AllocatedHyperNode)
		for _, sj := range job.SubJobs {
			desc += fmt.Sprintf(" sub[%s tasks=%d alloc=%s]", sj.UID, len(sj.Tasks), sj.AllocatedHyperNode)
		}
		sids := []string{}
		for id := range job.SubJobs {
			sids = append(sids, string(id))
		}
		sort.Strings(sids)
		for _, id := range sids {
			sj := job.SubJobs[api.SubJobID(id)]
			hard, limit := sj.IsHardTopologyMode()
			if t.policy >= 2 { // the sub-group policy carries its own hard limit
				hard, limit = t.subName != 2, int(t.subLimit)
			}
			if hard {
				out.groups = append(out.groups, mkGroup(true, int64(limit), sj.AllocatedHyperNode, sj.Tasks))
			}
		}
	}
	out.desc = desc
	// findings D8 (recovery skipped sub-jobs without own topology) and D10 (stale recorder
	// decisions) are repaired in /repo: their classes carry no signature any more
	_ = placed
	// a hard limit given by a tier name that no HyperNode carries (finding D13): the pods of that
	// job / sub-group must not be scheduled as if there were no constraint
	for _, job := range ssn.Jobs {
		for _, task := range job.Tasks {
			if inputStatus[task.Name] == 0 && bound(task) {
				if (t.policy != 3 && t.jobName == 2) || (t.policy >= 2 && t.subName == 2) {
					out.unknownNameBinds++
				}
			}
		}
	}
	out.unknownName = (t.policy != 3 && t.jobName == 2) || (t.policy >= 2 && t.subName == 2)
	if !out.notReady {
		for _, g := range out.groups {
			if g.newBinds > 0 && g.recorded == 0 {
				panic("pods of a hard-topology job / sub-job were bound but no AllocatedHyperNode is recorded for it")
			}
		}
	}
	lastTrace = out
	return obs
}

func traceLaws(law func(lsel int, lin []int64, sig string)) {
	o := lastTrace
	if o == nil {
		return
	}
	if o.anyHard {
		law(110, []int64{vh.B(o.notReady), o.newBinds}, "")
	}
	if o.unknownName {
		sig := ""
		if o.unknownNameBinds > 0 {
			sig = "C14-D13-hard-limit-by-unknown-tier-name-is-ignored"
		}
		law(114, []int64{1, o.unknownNameBinds}, sig)
	}
	mk := func(g placementGroup, nodes []int64) []int64 {
		lin := append(append([]int64{}, o.hnMap...), o.real...)
		lin = append(lin, g.limit, g.recorded, int64(len(nodes)))
		return append(lin, nodes...)
	}
	for _, g := range o.groups {
		lin := mk(g, g.nodes)
		// D12 only explains a failure when the nomination quick path placed pods of this group:
		// the same group WITHOUT those pods must satisfy the laws unsigned
		sig := ""
		if len(g.quick) > 0 {
			sig = "C14-D12-nomination-quick-path-ignores-topology"
			law(108, mk(g, g.rest), "")
			if !o.notReady {
				// the record of the remaining pods: D12 explains a wrong record only when the
				// quick path (co-)wrote it, i.e. when it holds the quick-path pods' nodes
				sigRest := ""
				if g.recCoversQuick {
					sigRest = sig
				}
				law(109, mk(g, g.rest), sigRest)
				sig113rest := sigRest
				if sig113rest == "" && g.sigD11rest {
					sig113rest = "C14-D11-recorded-allocated-hypernode-is-lca-of-chosen-domains-not-of-placements"
				}
				law(113, mk(g, g.rest), sig113rest)
			}
		}
		law(108, lin, sig)
		if o.notReady {
			// session open neither validates nor recovers the record on a view that is not ready
			// and nothing is scheduled with it: the record is not judged
			continue
		}
		law(109, lin, sig)
		// the property text's exact reading; D11 only when the record is a wider domain that
		// still holds every placement within the limit
		sig113 := sig
		if sig113 == "" && g.sigD11 {
			sig113 = "C14-D11-recorded-allocated-hypernode-is-lca-of-chosen-domains-not-of-placements"
		}
		law(113, lin, sig113)
	}
}

func genTrace(r *vh.Rng) (in []int64, nontrivial bool, desc any) {
	depth := int64(r.Range(2, 3))
	L := r.Range(2, 4)
	G := r.Range(1, 2)
	np := r.Range(2, 5)
	nPlaced := vh.Pick(r, []int{0, 0, 1, 2, 2})
	if nPlaced > np-1 {
		nPlaced = np - 1
	}
	runLeaf := r.Intn(L)
	// half of the time the leaf of the placed pods is exactly full: the rest of the job only
	// fits under a sibling HyperNode
	full := nPlaced > 0 && r.Chance(1, 2)
	in = []int64{depth, int64(L)}
	nodesOf := [][]int64{}
	idx := int64(0)
	for i := 0; i < L; i++ {
		g := int64(r.Range(1, G))
		k := r.Range(1, 3)
		caps := []int64{}
		for j := 0; j < k; j++ {
			caps = append(caps, int64(r.Range(1, 2)))
		}
		if full && i == runLeaf {
			caps = []int64{int64(nPlaced)}
		}
		in = append(in, g, int64(len(caps)))
		in = append(in, caps...)
		ns := []int64{}
		for range caps {
			idx++
			ns = append(ns, idx)
		}
		nodesOf = append(nodesOf, ns)
	}
	limit := int64(r.Range(1, int(depth)))
	policy := int64(vh.Pick(r, []int{0, 0, 1, 2, 2, 3, 3}))
	sub := int64(r.Range(1, int(limit)))
	minAvail := int64(r.Range(1, np))
	annot := int64(0)
	if nPlaced > 0 && r.Chance(1, 3) {
		annot = int64(runLeaf + 1)
	} else if r.Chance(1, 10) {
		annot = vh.Pick(r, []int64{int64(r.Range(1, L)), 77}) // remembered without placed pods, or a HyperNode that is gone
	}
	notReady := int64(0)
	if r.Chance(1, 6) {
		notReady = 1
	}
	pin := int64(0)
	if r.Chance(1, 5) {
		pin = int64(r.Range(1, L)) // a leaf HyperNode: tier 1 is within every limit
	}
	jobName := int64(vh.Pick(r, []int{0, 0, 0, 1, 1, 2}))
	subName := int64(vh.Pick(r, []int{0, 0, 1, 1, 1, 2}))
	pre := int64(0)
	if r.Chance(1, 4) {
		pre = 1
	}
	in = append(in, 10, limit, minAvail, policy, sub, annot, notReady, pin, jobName, subName, pre)
	in = append(in, int64(np))
	statuses := []int64{}
	oneStatus := int64(r.Range(1, 4)) // same allocated status for all placed pods, or a mixture
	mixed := r.Chance(1, 2)
	for i := 0; i < np; i++ {
		role := int64(r.Range(1, 2))
		if i < nPlaced {
			st := oneStatus
			if mixed {
				st = int64(r.Range(1, 4))
			}
			if r.Chance(1, 10) {
				st = 5
			}
			node := vh.Pick(r, nodesOf[runLeaf])
			if full {
				node = nodesOf[runLeaf][0]
			}
			statuses = append(statuses, st)
			in = append(in, 3, st, node, role)
			continue
		}
		nom := int64(0)
		if r.Chance(1, 2) {
			nom = int64(r.Range(1, int(idx)))
		}
		if pin != 0 && (policy == 0 || role == 1) { // pods of the pinned sub-job are nominated inside the pinned leaf
			nom = vh.Pick(r, nodesOf[pin-1])
		}
		in = append(in, 3, 0, nom, role)
	}
	return in, true, map[string]any{"depth": depth, "leaves": nodesOf, "limit": limit, "policy": policy, "subLimit": sub,
		"minAvailable": minAvail, "placed": statuses, "placedLeafFull": full, "remembered": annot, "notReady": notReady, "pinned": pin, "earlierSession": pre, "jobLimitBy": []string{"number", "name", "unknown-name"}[jobName], "subLimitBy": []string{"number", "name", "unknown-name"}[subName]}
}
