package main

import (
	"context"
	"fmt"

	metav1 "k8s.io/apimachinery/pkg/apis/meta/v1"
	kubefake "k8s.io/client-go/kubernetes/fake"

	bus "volcano.sh/apis/pkg/apis/bus/v1alpha1"
	sch "volcano.sh/apis/pkg/apis/scheduling/v1beta1"
	vcfake "volcano.sh/apis/pkg/client/clientset/versioned/fake"
	"volcano.sh/volcano/pkg/controllers/apis"
	qc "volcano.sh/volcano/pkg/controllers/queue"
)

func mk(name, parent string, st sch.QueueState, ann map[string]string) *sch.Queue {
	return &sch.Queue{ObjectMeta: metav1.ObjectMeta{Name: name, Annotations: ann}, Spec: sch.QueueSpec{Parent: parent}, Status: sch.QueueStatus{State: st}}
}

func dump(vc *vcfake.Clientset) {
	l, _ := vc.SchedulingV1beta1().Queues().List(context.TODO(), metav1.ListOptions{})
	for _, q := range l.Items {
		fmt.Printf("  srv %s parent=%q state=%q ann=%v(nil=%v)\n", q.Name, q.Spec.Parent, q.Status.State, q.Annotations, q.Annotations == nil)
	}
}

func main() {
	vc := vcfake.NewSimpleClientset()
	kube := kubefake.NewSimpleClientset()
	v := qc.NewVerifController(vc, kube, 3)
	ctx := context.TODO()
	qs := []*sch.Queue{mk("root", "", "Open", nil), mk("a", "root", "Open", nil), mk("b", "a", "", map[string]string{"x": "y"}), mk("c", "", "Open", nil)}
	for _, q := range qs {
		vc.SchedulingV1beta1().Queues().Create(ctx, q, metav1.CreateOptions{})
		v.QueueIndexer().Add(q.DeepCopy())
	}
	// lister-only queue (not on server): ApplyStatus / patch on missing
	ghost := mk("ghost", "root", "", nil)
	v.QueueIndexer().Add(ghost)
	// lister says annotations non-nil, server has nil
	d := mk("d", "a", "Open", nil)
	vc.SchedulingV1beta1().Queues().Create(ctx, d, metav1.CreateOptions{})
	dl := d.DeepCopy()
	dl.Annotations = map[string]string{"x": "y"}
	v.QueueIndexer().Add(dl)

	step := func(name string, act bus.Action) {
		v.Q.Add(&apis.Request{QueueName: name, Action: act})
		for v.Q.Len() > 0 {
			it := v.Q.Items()
			fmt.Printf("pending:")
			for _, r := range it {
				fmt.Printf(" (%s %s n=%d)", r.QueueName, r.Action, v.Q.NumRequeues(r))
			}
			fmt.Println()
			v.ProcessNextWorkItem()
			dump(vc)
		}
	}
	fmt.Println("== sync ghost")
	step("ghost", bus.SyncQueueAction)
	fmt.Println("== sync c (no parent)")
	step("c", bus.SyncQueueAction)
	fmt.Println("== close a")
	step("a", bus.CloseQueueAction)
	fmt.Println("== close root")
	step("root", bus.CloseQueueAction)
	acts := vc.Actions()
	for _, a := range acts {
		fmt.Printf("%s %s %s\n", a.GetVerb(), a.GetResource().Resource, a.GetSubresource())
	}
}
