package main

import (
	"fmt"
	"strings"

	"verif/harness/internal/vh"
)

// The generator is adaptive: it runs the real webhook while it draws the next
// request, so that requests refer to the queue set produced by the previously
// admitted ones (targets of re-parenting are real descendants, resources are
// drawn around the real remaining budget of the real parent).  Every choice
// still comes from rng, and Run rebuilds everything from the emitted tokens.

var dimsCommon = []int64{2, 3, 4}
var dimsRare = []int64{1, 5, 6, 7, 8}

type gctx struct {
	r     *vh.Rng
	w     *world
	clean bool // warm-up: only admissible amounts are drawn
	bare  int  // per-history chance (in 8) that a queue carries no resources at all
	// capability-only history: queues carry nothing but (sometimes) a capability, so that sums never
	// decide and chains "no capability ... capability" are moved around
	capOnly bool
	capDims []int64 // dimensions of a directed / capability-only history (ascending)
}

func (g *gctx) state() map[int64]qspec {
	m := map[int64]qspec{}
	for _, q := range g.w.queues() {
		m[q.name] = q
	}
	return m
}

func childrenOf(st map[int64]qspec, p int64) []qspec {
	out := []qspec{}
	for id := int64(1); id <= 40; id++ {
		if q, ok := st[id]; ok && q.parent == p && p != 0 {
			out = append(out, q)
		}
	}
	return out
}

func isTop(p int64) bool { return p == 0 || p == 1 }

// depth of a queue placed under parent p (1 = directly under root); -1 if the chain is broken
func depthUnder(st map[int64]qspec, p int64) int {
	d := 1
	for !isTop(p) {
		q, ok := st[p]
		if !ok || d > 50 {
			return -1
		}
		d++
		p = q.parent
	}
	return d
}

func descendants(st map[int64]qspec, n int64) []int64 {
	out := []int64{}
	todo := []int64{n}
	for len(todo) > 0 && len(out) < 60 {
		x := todo[0]
		todo = todo[1:]
		for _, c := range childrenOf(st, x) {
			if c.name != n {
				out = append(out, c.name)
				todo = append(todo, c.name)
			}
		}
	}
	return out
}

func nearestCap(st map[int64]qspec, p int64, d int64) (int64, bool) {
	for k := 0; !isTop(p) && k < 50; k++ {
		q, ok := st[p]
		if !ok {
			return 0, false
		}
		if v, ok := q.cap.get(d); ok && v > 0 {
			return v, true
		}
		p = q.parent
	}
	return 0, false
}

func grid(d int64) int64 {
	if d == 1 {
		return 1
	}
	return 1000
}

// resources for queue `self` placed under parent p: mostly admissible, with boundary bias
func (g *gctx) genSpecRes(st map[int64]qspec, self, p int64, q *qspec) {
	r := g.r
	dims := []int64{}
	q.cap, q.des, q.guar = rl{}, rl{}, rl{}
	if g.capOnly {
		cd := g.capDims
		if len(cd) == 0 {
			cd = []int64{2, 4, 7}
		}
		for _, d := range cd {
			if !r.Chance(2, 5) {
				continue
			}
			cv := int64(r.Range(1, 16)) * 1000
			if up, ok := nearestCap(st, p, d); ok {
				switch k := r.Intn(6); {
				case k == 0 && !g.clean:
					cv = up + 1000
				case k < 3:
					cv = up
				default:
					cv = int64(r.Range(1, int(up/1000))) * 1000
				}
			}
			q.cap = append(q.cap, [2]int64{d, cv})
		}
		return
	}
	if r.Chance(g.bare, 8) {
		return
	}
	for _, d := range dimsCommon {
		if r.Chance(3, 4) {
			dims = append(dims, d)
		}
	}
	for _, d := range dimsRare {
		if r.Chance(1, 12) {
			dims = append(dims, d)
		}
	}
	par, hasPar := st[p]
	hasPar = hasPar && !isTop(p)
	q.cap, q.des, q.guar = rl{}, rl{}, rl{}
	for d := int64(1); d <= 8; d++ {
		in := false
		for _, x := range dims {
			in = in || x == d
		}
		if !in {
			continue
		}
		u := grid(d)
		remG, remD := int64(r.Range(1, 16))*u, int64(r.Range(4, 16))*u
		if hasPar {
			remG, _ = par.guar.get(d)
			remD, _ = par.des.get(d)
			for _, s := range childrenOf(st, p) {
				if s.name != self {
					v, _ := s.guar.get(d)
					remG -= v
					v, _ = s.des.get(d)
					remD -= v
				}
			}
		}
		pick := func(rem int64) int64 {
			if rem < 0 {
				rem = 0
			}
			k := r.Intn(12)
			if g.clean && (k == 1 || k == 4) {
				k = 0
			}
			switch k {
			case 0:
				return rem // exactly what is left
			case 1:
				return rem + u // one unit too much
			case 2:
				return 0
			case 3:
				return rem / 2 / u * u
			case 4:
				return rem + 1 // not whole for integer resources, else one over
			default:
				if rem/u > 0 {
					return int64(r.Intn(int(rem/u)+1)) * u
				}
				return 0
			}
		}
		gv, dv := pick(remG), pick(remD)
		if dv < gv && r.Chance(9, 10) {
			dv = gv
			if hasPar && dv > remD && r.Chance(3, 4) {
				gv, dv = 0, 0
			}
		}
		hasG, hasD, hasC := r.Chance(2, 3), r.Chance(5, 6), r.Chance(2, 3)
		if !hasD && r.Chance(9, 10) {
			hasG = false
		}
		if hasG {
			q.guar = append(q.guar, [2]int64{d, gv})
		}
		if hasD {
			q.des = append(q.des, [2]int64{d, dv})
		}
		if hasC {
			cv := dv + int64(r.Intn(5))*u
			if up, ok := nearestCap(st, p, d); ok {
				k := r.Intn(8)
				if g.clean && k == 1 {
					k = 0
				}
				switch k {
				case 0:
					cv = up
				case 1:
					cv = up + u
				case 2:
					cv = up - u
				default:
					if cv > up {
						cv = up
					}
				}
			}
			if !g.clean && r.Chance(1, 20) {
				cv = dv - u // below deserved
			}
			if !g.clean && r.Chance(1, 60) {
				cv = -u
			}
			q.cap = append(q.cap, [2]int64{d, cv})
		}
	}
}

func (g *gctx) existing(st map[int64]qspec) []int64 {
	out := []int64{}
	for id := int64(1); id <= 40; id++ {
		if _, ok := st[id]; ok {
			out = append(out, id)
		}
	}
	return out
}

func (g *gctx) nonRoot(st map[int64]qspec) []int64 {
	out := []int64{}
	for _, id := range g.existing(st) {
		if id > 2 {
			out = append(out, id)
		}
	}
	return out
}

const maxID = 14

func (g *gctx) nextRequest(last *int64) request {
	r := g.r
	st := g.state()
	ex, nr := g.existing(st), g.nonRoot(st)
	fresh := []int64{}
	for id := int64(3); id <= maxID; id++ {
		if _, ok := st[id]; !ok {
			fresh = append(fresh, id)
		}
	}
	roll := r.Intn(100)
	if g.clean {
		roll = r.Intn(40) // warm-up: mostly CREATE
	}
	switch {
	case roll < 36 && len(fresh) > 0 || len(nr) == 0 && len(fresh) > 0: // CREATE
		q := qspec{name: vh.Pick(r, fresh)}
		if r.Chance(1, 25) && len(ex) > 0 {
			q.name = vh.Pick(r, ex) // AlreadyExists
		}
		switch x := r.Intn(20); {
		case x < 3:
			q.parent = 0
		case x < 6:
			q.parent = 1
		case x < 7:
			q.parent = vh.Pick(r, fresh) // missing parent (possibly itself)
		case x < 13 && *last != 0:
			q.parent = *last // grow chains
		default:
			q.parent = vh.Pick(r, ex)
		}
		g.genSpecRes(st, q.name, q.parent, &q)
		*last = q.name
		return request{kCreate, q}
	case roll < 58 && len(ex) > 0: // UPDATE resources, same parent
		id := vh.Pick(r, ex)
		if len(nr) > 0 && r.Chance(9, 10) {
			id = vh.Pick(r, nr)
		}
		q := st[id]
		if id == 1 && r.Chance(1, 3) && len(nr) > 0 {
			q.parent = vh.Pick(r, nr) // the root queue given a parent
			return request{kUpdate, q}
		}
		switch r.Intn(6) {
		case 0: // nothing changes
		case 1: // shrink one list below what the children need / drop a dimension
			shrink := func(l rl) rl {
				if len(l) == 0 {
					return l
				}
				i := r.Intn(len(l))
				out := append(rl{}, l...)
				switch r.Intn(3) {
				case 0:
					out[i][1] = out[i][1] / 2 / grid(out[i][0]) * grid(out[i][0])
				case 1:
					out[i][1] = 0
				default:
					out = append(out[:i], out[i+1:]...)
				}
				return out
			}
			switch r.Intn(3) {
			case 0:
				q.cap = shrink(q.cap)
			case 1:
				q.des = shrink(q.des)
			default:
				q.guar = shrink(q.guar)
			}
		default:
			g.genSpecRes(st, id, q.parent, &q)
		}
		return request{kUpdate, q}
	case roll < 80 && len(nr) > 0: // re-parent
		id := vh.Pick(r, nr)
		q := st[id]
		desc := descendants(st, id)
		switch x := r.Intn(20); {
		case x < 5 && len(desc) > 0:
			q.parent = vh.Pick(r, desc) // under its own descendant
		case x < 6:
			q.parent = id
		case x < 8:
			q.parent = 1
		case x < 9:
			q.parent = 0
		case x < 10 && len(fresh) > 0:
			q.parent = vh.Pick(r, fresh)
		default:
			q.parent = vh.Pick(r, ex)
		}
		if r.Chance(1, 2) && !(g.capOnly && r.Chance(2, 3)) {
			g.genSpecRes(st, id, q.parent, &q)
		}
		return request{kUpdate, q}
	case roll < 89 && len(ex) > 0: // DELETE
		id := vh.Pick(r, ex)
		if r.Chance(1, 10) && len(fresh) > 0 {
			id = vh.Pick(r, fresh)
		}
		if len(nr) > 0 && r.Chance(3, 4) {
			id = vh.Pick(r, nr)
			// prefer leaves
			for k := 0; k < 3 && len(childrenOf(st, id)) > 0; k++ {
				id = vh.Pick(r, nr)
			}
		}
		if r.Chance(1, 3) {
			return request{kDeleteFin, qspec{name: id}} // the queue carries a finalizer: it lingers as terminating
		}
		return request{kDelete, qspec{name: id}}
	case roll < 92 && len(ex) > 0 && len(g.w.terminating()) > 0: // the finalizer of a terminating queue is removed
		return request{kGone, qspec{name: vh.Pick(r, g.w.terminating())}}
	case roll < 97 && len(ex) > 0: // status update: allocated pods (scheduler) and / or state (queue controller)
		q := qspec{name: vh.Pick(r, ex), alloc: -1, state: -1}
		if r.Chance(1, 2) {
			q.alloc = int64(r.Intn(2) * r.Range(1, 5))
		}
		if q.alloc < 0 || r.Chance(1, 2) {
			q.state = int64(vh.Pick(r, []int{1, 1, 2, 2, 2, 3, 4, 0}))
		}
		return request{kEnv, q}
	default: // UPDATE of a queue that does not exist
		id := int64(r.Range(3, maxID))
		q := qspec{name: id, parent: 1}
		return request{kUpdate, q}
	}
}

func (g *gctx) genConfig() config {
	r := g.r
	return config{maxDepth: int64(vh.Pick(r, []int{1, 2, 3, 3, 4, 4, 5})), allocCheck: int64(r.Intn(2)), rootProt: int64(r.Intn(2))}
}

func baseQ0(r *vh.Rng) []qspec {
	root := qspec{name: 1}
	if r.Chance(1, 3) {
		root.cap = rl{{2, 64000}, {3, 64000}}
		root.des = rl{{2, 64000}, {3, 64000}}
	}
	def := qspec{name: 2, parent: int64(r.Intn(2))}
	return []qspec{root, def}
}

func dimStr(l rl) string {
	s := []string{}
	for _, kv := range l {
		s = append(s, fmt.Sprintf("%s:%d", dimName[kv[0]], kv[1]))
	}
	return "{" + strings.Join(s, ",") + "}"
}

func describe(r request, v int64) string {
	switch r.kind {
	case kCreate, kUpdate:
		op := "CREATE"
		if r.kind == kUpdate {
			op = "UPDATE"
		}
		return fmt.Sprintf("%s %s parent=%q cap%s des%s guar%s -> %d", op, qname(r.q.name), qname(r.q.parent), dimStr(r.q.cap), dimStr(r.q.des), dimStr(r.q.guar), v)
	case kDelete:
		return fmt.Sprintf("DELETE %s -> %d", qname(r.q.name), v)
	case kDeleteFin:
		return fmt.Sprintf("DELETE %s (has a finalizer: lingers as terminating when admitted) -> %d", qname(r.q.name), v)
	case kGone:
		return fmt.Sprintf("FINALIZER of %s removed", qname(r.q.name))
	}
	return fmt.Sprintf("STATUS %s allocated pods=%d state=%d (0 unset 1 Open 2 Closed 3 Closing 4 Unknown, -1 unchanged)", qname(r.q.name), r.q.alloc, r.q.state)
}

// safeStep is false when the code under test panicked on the request
func safeStep(w *world, r request) (ok bool) {
	defer func() {
		if recover() != nil {
			ok = false
		}
	}()
	w.step(r)
	return true
}

// setDim returns the list with dimension d set to v (dimensions stay ascending and unique)
func setDim(l rl, d, v int64) rl {
	out := rl{}
	done := false
	for _, kv := range l {
		if kv[0] == d {
			continue
		}
		if kv[0] > d && !done {
			out = append(out, [2]int64{d, v})
			done = true
		}
		out = append(out, kv)
	}
	if !done {
		out = append(out, [2]int64{d, v})
	}
	return out
}

type emitFn func(id string, sel int, in []int64, kind string, nontrivial bool, desc any)

// run a prepared history once to describe it and decide non-triviality
func finish(h history, id, kind string, emit emitFn) {
	w := newWorld(h.cfg, h.q0)
	descs := []string{}
	changed, deep := 0, false
	defer func() {
		// a panic of the code under test while describing the history: Run will meet it
		// again inside the per-case recover of vh and report it with this input
		if x := recover(); x != nil {
			emit(id, 1, h.enc(), kind, true, map[string]any{"maxDepth": h.cfg.maxDepth, "requests": descs, "panic": fmt.Sprint(x)})
		}
	}()
	for _, r := range h.reqs {
		before := fmt.Sprint(w.dump())
		v := w.step(r)
		descs = append(descs, describe(r, v))
		if r.kind != kEnv && r.kind != kGone && fmt.Sprint(w.dump()) != before {
			changed++
		}
		st := map[int64]qspec{}
		for _, q := range w.queues() {
			st[q.name] = q
		}
		for _, q := range st {
			if q.name != 1 && depthUnder(st, q.parent) >= 2 {
				deep = true
			}
		}
	}
	// a history whose initial set is deliberately not a tree is never counted as non-trivial: the laws
	// that need the broken clause are gated off on it
	emit(id, 1, h.enc(), kind, changed >= 3 && deep && h.cfg.notTree == 0, map[string]any{"maxDepth": h.cfg.maxDepth, "requests": descs})
}

func gen(rng *vh.Rng, n int, emit func(id string, sel int, in []int64, kind string, nontrivial bool, desc any)) {
	// ---- fixed regression histories (the findings of docs/notes/C10.md) ----
	root, def := qspec{name: 1}, qspec{name: 2}
	mk := func(name, parent int64) request { return request{kCreate, qspec{name: name, parent: parent}} }
	mv := func(name, parent int64) request { return request{kUpdate, qspec{name: name, parent: parent}} }
	// F3: root <- a <- b <- c, then a.parent := c
	finish(history{config{5, 0, 0, 0}, []qspec{root, def}, []request{mk(3, 1), mk(4, 3), mk(5, 4), mv(3, 5), mv(3, 4), mv(3, 3)}},
		"fixed-cycle", "fixed/reparent-under-descendant", emit)
	// depth of a moved subtree: max 3; a<-b<-c and x<-y; a.parent := y puts c at depth 5
	finish(history{config{3, 0, 0, 0}, []qspec{root, def}, []request{mk(3, 0), mk(4, 3), mk(5, 4), mk(6, 1), mk(7, 6), mv(3, 7), mv(3, 6), mv(4, 6), mv(5, 7)}},
		"fixed-subtree-depth", "fixed/reparent-subtree-depth", emit)
	// capability of a moved subtree: a(cap cpu 100) <- q <- d(cap cpu 50); p(cap cpu 10); q.parent := p
	cpu := func(v int64) rl { return rl{{2, v}} }
	finish(history{config{5, 0, 0, 0}, []qspec{root, def}, []request{
		{kCreate, qspec{name: 3, parent: 1, cap: cpu(100000)}}, mk(4, 3),
		{kCreate, qspec{name: 5, parent: 4, cap: cpu(50000)}},
		{kCreate, qspec{name: 6, parent: 1, cap: cpu(10000)}}, mv(4, 6)}},
		"fixed-subtree-capability", "fixed/reparent-subtree-capability", emit)
	// the same two levels down: a(100) <- q <- m <- d(50); p(10); q.parent := p
	finish(history{config{5, 0, 0, 0}, []qspec{root, def}, []request{
		{kCreate, qspec{name: 3, parent: 1, cap: cpu(100000)}}, mk(4, 3), mk(7, 4),
		{kCreate, qspec{name: 5, parent: 7, cap: cpu(50000)}},
		{kCreate, qspec{name: 6, parent: 1, cap: cpu(10000)}}, mv(4, 6), mv(7, 6), mv(5, 6)}},
		"fixed-subtree-capability-deep", "fixed/reparent-subtree-capability", emit)
	// the bound is per dimension: q (nothing) <- c (cpu only) <- g (memory 64000); p (memory 32000); q.parent := p
	finish(history{config{5, 0, 0, 0}, []qspec{root, def}, []request{
		mk(3, 1), {kCreate, qspec{name: 4, parent: 3, cap: cpu(4000)}},
		{kCreate, qspec{name: 5, parent: 4, cap: rl{{3, 64000}}}},
		{kCreate, qspec{name: 6, parent: 1, cap: rl{{3, 32000}}}}, mv(3, 6),
		{kCreate, qspec{name: 7, parent: 1, cap: rl{{2, 2000}, {3, 64000}}}}, mv(3, 7),
		{kCreate, qspec{name: 8, parent: 1, cap: rl{{3, 64000}}}}, mv(3, 8)}},
		"fixed-subtree-capability-per-dimension", "fixed/reparent-subtree-capability", emit)
	// a closed child still holds its share: p (cpu 10000) <- a (6000, then Closed); b with 6000 is refused
	// when created in, moved into or resized inside p; b with 4000 fits; a re-opened
	ten := func(id, parent, v int64) qspec {
		return qspec{name: id, parent: parent, des: rl{{2, v}}, guar: rl{{2, v}}}
	}
	st := func(id, state int64) request { return request{kEnv, qspec{name: id, alloc: -1, state: state}} }
	finish(history{config{5, 0, 0, 0}, []qspec{root, def}, []request{
		{kCreate, ten(3, 1, 10000)}, {kCreate, ten(4, 3, 6000)}, st(4, 2),
		{kCreate, ten(5, 3, 6000)}, {kCreate, ten(5, 1, 6000)}, {kUpdate, ten(5, 3, 6000)},
		{kUpdate, ten(5, 3, 4000)}, {kUpdate, ten(5, 3, 5000)}, st(4, 3), {kUpdate, ten(4, 3, 5000)}, st(4, 1),
		{kUpdate, ten(4, 3, 7000)}}},
		"fixed-closed-sibling", "fixed/closed-sibling-sum", emit)
	// deletion of a queue with allocated pods: admitted with the default flag (known finding), refused with the flag on
	alloc := func(id, n int64) request { return request{kEnv, qspec{name: id, alloc: n, state: -1}} }
	finish(history{config{5, 0, 1, 0}, []qspec{root, def}, []request{mk(3, 1), alloc(3, 3), {kDelete, qspec{name: 3}}}},
		"fixed-delete-allocated-flag-off", "fixed/delete-allocated-pods", emit)
	finish(history{config{5, 1, 1, 0}, []qspec{root, def}, []request{mk(3, 1), alloc(3, 3), {kDelete, qspec{name: 3}}, alloc(3, 0), {kDelete, qspec{name: 3}}}},
		"fixed-delete-allocated-flag-on", "fixed/delete-allocated-pods", emit)
	// root is carved out of the sums and of the capability bound by the code: explicit amounts on root are
	// exceeded by top-level queues, and (root protection off) lowered below them
	k1 := qspec{name: 1, cap: cpu(1000), des: cpu(1000), guar: cpu(1000)}
	finish(history{config{5, 0, 0, 0}, []qspec{k1, def}, []request{
		{kCreate, qspec{name: 3, parent: 1, cap: cpu(5000), des: cpu(5000), guar: cpu(5000)}},
		{kCreate, qspec{name: 4, parent: 0, cap: cpu(5000), des: cpu(5000), guar: cpu(5000)}},
		{kUpdate, qspec{name: 1, cap: cpu(500), des: cpu(500), guar: cpu(500)}}}},
		"fixed-root-carve-out", "fixed/root-carve-out", emit)
	// a dimension whose unit in api.NewResource is not Quantity.Value(): ephemeral-storage is stored in
	// milli-units on both sides of every comparison.  p (7 -> 5) above c (7): lowering refused; q (nothing) <- d (7)
	// moved under s (5): refused; under t (7): admitted.  (amounts are milli-units: 7000 = "7")
	eph := func(v int64) rl { return rl{{7, v}} }
	finish(history{config{5, 0, 0, 0}, []qspec{root, def}, []request{
		{kCreate, qspec{name: 3, parent: 1, cap: eph(9000)}}, {kCreate, qspec{name: 4, parent: 3, cap: eph(7000)}},
		{kUpdate, qspec{name: 3, parent: 1, cap: eph(5000)}}, {kUpdate, qspec{name: 3, parent: 1, cap: eph(7000)}},
		mk(5, 1), {kCreate, qspec{name: 6, parent: 5, cap: eph(7000)}},
		{kCreate, qspec{name: 7, parent: 1, cap: eph(5000)}}, mv(5, 7),
		{kCreate, qspec{name: 8, parent: 1, cap: rl{{1, 7}, {7, 7000}}}}, mv(5, 8)}},
		"fixed-capability-ephemeral-storage-unit", "fixed/reparent-subtree-capability", emit)
	// a terminating child (DELETE admitted, finalizer pending) still counts: p (10000) <- a (6000, terminating);
	// b 6000 refused, DELETE p refused (a is still its child); finalizer removed: b 6000 admitted
	fin := func(id int64) request { return request{kDeleteFin, qspec{name: id}} }
	gone := func(id int64) request { return request{kGone, qspec{name: id}} }
	finish(history{config{5, 0, 0, 0}, []qspec{root, def}, []request{
		{kCreate, ten(3, 1, 10000)}, {kCreate, ten(4, 3, 6000)}, fin(4),
		{kCreate, ten(5, 3, 6000)}, {kDelete, qspec{name: 3}}, fin(3), {kCreate, ten(6, 4, 1000)},
		{kDelete, qspec{name: 6}}, gone(4), {kCreate, ten(5, 3, 6000)}, {kDelete, qspec{name: 3}}}},
		"fixed-terminating-child", "fixed/terminating-child", emit)
	// (fixed by "a terminating queue takes no new children") DELETE q3 (finalizer pending) admitted, CREATE q4 under the
	// terminating q3 and re-parenting q5 under it refused, finalizer removed: nothing dangles
	finish(history{config{5, 0, 0, 0}, []qspec{root, def}, []request{mk(3, 1), mk(5, 1), fin(3), mk(4, 3), mv(5, 3), gone(3), mk(4, 3)}},
		"fixed-child-under-terminating-parent", "fixed/terminating-child", emit)
	// the root queue itself given a parent
	finish(history{config{5, 0, 1, 0}, []qspec{root, def}, []request{mk(3, 1), mk(4, 3), mv(1, 4), mv(1, 1), mk(5, 4), mv(3, 5)}},
		"fixed-root-reparent", "fixed/root-given-a-parent", emit)

	// concurrent admissions: serialised admission is an ASSUMPTION of C10 (docs/notes/C10.md); the three
	// scenarios of C10_concurrent_*_refuted on the real webhook: both requests are admitted against the same
	// set, afterwards the set is not a tree (sel 3), and the resulting sets are compared (sel 2)
	plain := []request{mk(3, 1), mk(4, 1), {kCreate, ten(7, 1, 10000)}}
	pairs := [][2]request{
		{mv(3, 4), mv(4, 3)}, // cycle
		{{kCreate, ten(5, 7, 6000)}, {kCreate, ten(6, 7, 6000)}}, // 12000 under 10000
		{{kDelete, qspec{name: 4}}, mk(5, 4)},                    // dangling parent
	}
	for k, p := range pairs {
		in := history{config{5, 0, 0, 0}, []qspec{root, def}, plain}.enc()
		in = append(in, p[0].enc()...)
		in = append(in, p[1].enc()...)
		d := map[string]any{"after": "CREATE q3, q4 under root; q7 under root with cpu 10000", "first": describe(p[0], -1), "second": describe(p[1], -1)}
		emit(fmt.Sprintf("fixed-concurrent-%d", k), 3, in, "concurrent-pair/fixed", true, d)
		emit(fmt.Sprintf("fixed-concurrent-%d-result", k), 2, in, "concurrent-pair/fixed", true, d)
	}

	for i := 0; i < n; i++ {
		r := rng.Fork()
		g := &gctx{r: r}
		if r.Chance(1, 25) {
			// a random history, then two random requests validated against the same set
			pcfg := config{5, int64(r.Intn(2)), int64(r.Intn(2)), 0}
			pq0 := baseQ0(r)
			g.w = newWorld(pcfg, pq0)
			h := history{cfg: pcfg, q0: pq0}
			var last int64
			for k := r.Range(3, 15); k > 0; k-- {
				g.clean = k > 3
				req := g.nextRequest(&last)
				h.reqs = append(h.reqs, req)
				if !safeStep(g.w, req) || g.w.poisoned {
					break
				}
			}
			if !g.w.poisoned {
				g.clean = false
				p1, p2 := g.nextRequest(&last), g.nextRequest(&last)
				if p1.kind != kEnv && p2.kind != kEnv && p1.kind != kGone && p2.kind != kGone {
					in := append(append(h.enc(), p1.enc()...), p2.enc()...)
					emit(fmt.Sprintf("pair-%d", i), 2, in, "concurrent-pair/random", len(h.reqs) >= 3, map[string]any{"first": describe(p1, -1), "second": describe(p2, -1)})
				}
			}
			continue
		}
		if r.Chance(1, 6) {
			finish(g.directedMove(), fmt.Sprintf("hist-%d", i), "history/directed-subtree-move", emit)
			continue
		}
		if r.Chance(1, 8) {
			finish(g.directedClosedSibling(), fmt.Sprintf("hist-%d", i), "history/directed-closed-sibling", emit)
			continue
		}
		cfg := g.genConfig()
		kind := "history/from-root"
		q0 := baseQ0(r)
		if r.Chance(1, 8) {
			// a larger initial queue set: a random TREE (built by a warm-up of admissible CREATEs through
			// the real webhook, so it satisfies the invariant the laws are gated on), with random
			// status; 1 in 5 is then perturbed (dangling parent / guarantee above deserved / a child's
			// deserved above what the parent has left / a capability above the ancestor's): on those the
			// gates of the laws that need the broken clause are false and only the verdicts are compared
			kind = "history/initial-tree"
			wg := &gctx{r: r, clean: true, bare: vh.Pick(r, []int{0, 1, 3})}
			wg.w = newWorld(cfg, q0)
			var wl int64
			for k := r.Range(4, 12); k > 0; k-- {
				req := wg.nextRequest(&wl)
				if req.kind == kCreate && !safeStep(wg.w, req) {
					break
				}
			}
			q0 = wg.w.queues()
			for i := range q0 {
				q0[i].alloc = int64(r.Intn(3) / 2 * 2)
				q0[i].state = int64(vh.Pick(r, []int{0, 1, 1, 1, 2, 3, 4}))
			}
			if r.Chance(1, 5) && len(q0) > 2 {
				kind = "history/initial-perturbed"
				cfg.notTree = 1
				i := r.Range(2, len(q0)-1)
				switch r.Intn(4) {
				case 0:
					q0[i].parent = int64(r.Range(20, 22)) // dangling
				case 1:
					q0[i].guar = setDim(q0[i].guar, 2, 9000)
					q0[i].des = setDim(q0[i].des, 2, 1000)
				case 2:
					q0[i].des = setDim(q0[i].des, 2, 900000)
				default:
					q0[i].cap = setDim(q0[i].cap, 4, 900000)
				}
			}
		}
		if kind == "history/from-root" && r.Chance(1, 4) {
			g.capOnly = true
			kind = "history/capability-chains"
			if cfg.maxDepth < 4 {
				cfg.maxDepth = 5
			}
		}
		g.w = newWorld(cfg, q0)
		g.bare = vh.Pick(r, []int{0, 1, 3, 6, 8})
		h := history{cfg: cfg, q0: q0}
		steps := r.Range(5, 40)
		warm := r.Intn(10)
		var last int64
		for k := 0; k < steps; k++ {
			g.clean = k < warm
			req := g.nextRequest(&last)
			h.reqs = append(h.reqs, req)
			if !safeStep(g.w, req) {
				break
			}
		}
		finish(h, fmt.Sprintf("hist-%d", i), kind, emit)
	}
}
