// C10 harness: histories of queue CREATE / UPDATE / DELETE admission requests
// run through the REAL /queues/validate webhook (pkg/webhooks/admission/queues/validate)
// against a lister + parent index that the harness owns and updates after every
// admitted request, exactly as the API server + informer would.
package main

import (
	"encoding/json"
	"fmt"
	"sort"
	"strings"

	admissionv1 "k8s.io/api/admission/v1"
	v1 "k8s.io/api/core/v1"
	"k8s.io/apimachinery/pkg/api/resource"
	metav1 "k8s.io/apimachinery/pkg/apis/meta/v1"
	"k8s.io/apimachinery/pkg/runtime"
	"k8s.io/client-go/tools/cache"

	schedulingv1beta1 "volcano.sh/apis/pkg/apis/scheduling/v1beta1"
	schedulinglister "volcano.sh/apis/pkg/client/listers/scheduling/v1beta1"

	"verif/harness/internal/vh"
	"volcano.sh/volcano/cmd/webhook-manager/app/options"
	"volcano.sh/volcano/pkg/scheduler/api"
	schedcache "volcano.sh/volcano/pkg/scheduler/cache"
	"volcano.sh/volcano/pkg/scheduler/conf"
	"volcano.sh/volcano/pkg/scheduler/framework"
	"volcano.sh/volcano/pkg/scheduler/plugins/capacity"
	schedutil "volcano.sh/volcano/pkg/scheduler/util"
	_ "volcano.sh/volcano/pkg/webhooks/admission/queues/validate"
	"volcano.sh/volcano/pkg/webhooks/router"
)

// ---------- names and dimensions ----------

// queue ids: 1 = root, 2 = default, n = "q<n>"; parent 0 = "" (implicit root)
func qname(id int64) string {
	switch id {
	case 0:
		return ""
	case 1:
		return "root"
	case 2:
		return "default"
	}
	return fmt.Sprintf("q%d", id)
}

// dimension ids and their canonical unit (the value the scheduler's Resource sees):
// 1 pods (count), 2 cpu (milli), 3 memory (bytes), 4,5 extended resources (milli, must be whole),
// 6 hugepages (milli), 7 ephemeral-storage (milli), 8 "foo": a name api.NewResource drops
var dimName = map[int64]v1.ResourceName{
	1: "pods", 2: "cpu", 3: "memory", 4: "nvidia.com/gpu", 5: "example.com/foo", 6: "hugepages-2Mi", 7: "ephemeral-storage", 8: "foo",
}

func quantity(dim, v int64) resource.Quantity {
	switch dim {
	case 1:
		return *resource.NewQuantity(v, resource.DecimalSI)
	case 3:
		return *resource.NewQuantity(v, resource.BinarySI)
	}
	return *resource.NewMilliQuantity(v, resource.DecimalSI)
}

func amount(dim int64, q resource.Quantity) int64 {
	switch dim {
	case 1, 3:
		return q.Value()
	}
	return q.MilliValue()
}

var stateName = map[int64]schedulingv1beta1.QueueState{0: "", 1: schedulingv1beta1.QueueStateOpen, 2: schedulingv1beta1.QueueStateClosed,
	3: schedulingv1beta1.QueueStateClosing, 4: schedulingv1beta1.QueueStateUnknown}

type rl [][2]int64 // (dim, amount), ascending dims

func (l rl) toList() v1.ResourceList {
	if len(l) == 0 {
		return nil
	}
	return l.list()
}

// toListFor: an empty list is a nil map for even queue ids and an empty non-nil map for odd ones (the
// code - and the forked DeepEqual it uses - must not tell them apart; the model does not)
func (l rl) toListFor(id int64) v1.ResourceList {
	if len(l) == 0 && id%2 == 1 {
		return v1.ResourceList{}
	}
	return l.toList()
}

func (l rl) list() v1.ResourceList {
	out := v1.ResourceList{}
	for _, kv := range l {
		out[dimName[kv[0]]] = quantity(kv[0], kv[1])
	}
	return out
}

func fromList(m v1.ResourceList) rl {
	out := rl{}
	for d := int64(1); d <= 8; d++ {
		if q, ok := m[dimName[d]]; ok {
			out = append(out, [2]int64{d, amount(d, q)})
		}
	}
	return out
}

func (l rl) get(d int64) (int64, bool) {
	for _, kv := range l {
		if kv[0] == d {
			return kv[1], true
		}
	}
	return 0, false
}

func (l rl) enc() []int64 {
	out := []int64{int64(len(l))}
	for _, kv := range l {
		out = append(out, kv[0], kv[1])
	}
	return out
}

type tokReader struct {
	t []int64
	i int
}

func (r *tokReader) next() int64 { v := r.t[r.i]; r.i++; return v }
func (r *tokReader) rl() rl {
	n := int(r.next())
	out := rl{}
	for i := 0; i < n; i++ {
		d := r.next()
		v := r.next()
		out = append(out, [2]int64{d, v})
	}
	return out
}

// ---------- requests ----------

const (
	kCreate    = 1
	kUpdate    = 2
	kDelete    = 3
	kDeleteFin = 5 // DELETE of a queue with a finalizer: when admitted the object lingers as terminating
	kGone      = 6 // the finalizer is removed: the object disappears (not an admission request)
	kEnv       = 4 // status update by the scheduler / queue controller: allocated pods and state (-1 = unchanged); not an admission request
)

type qspec struct {
	name, parent, alloc int64
	state               int64 // Status.State: 0 "", 1 Open, 2 Closed, 3 Closing, 4 Unknown
	term                bool  // metadata.deletionTimestamp is set (read back from the stored objects only)
	cap, des, guar      rl
}

type request struct {
	kind int64
	q    qspec // create / update: the new object; delete: name only; env: name + alloc
}

func (q qspec) enc() []int64 {
	out := []int64{q.name, q.parent, q.alloc, q.state}
	out = append(out, q.cap.enc()...)
	out = append(out, q.des.enc()...)
	return append(out, q.guar.enc()...)
}

func (r request) enc() []int64 {
	switch r.kind {
	case kCreate, kUpdate:
		out := []int64{r.kind, r.q.name, r.q.parent}
		out = append(out, r.q.cap.enc()...)
		out = append(out, r.q.des.enc()...)
		return append(out, r.q.guar.enc()...)
	case kDelete, kDeleteFin, kGone:
		return []int64{r.kind, r.q.name}
	}
	return []int64{r.kind, r.q.name, r.q.alloc, r.q.state}
}

func decQueue(r *tokReader) qspec {
	q := qspec{name: r.next(), parent: r.next(), alloc: r.next(), state: r.next()}
	q.cap, q.des, q.guar = r.rl(), r.rl(), r.rl()
	return q
}

func decRequest(r *tokReader) request {
	k := r.next()
	switch k {
	case kCreate, kUpdate:
		q := qspec{name: r.next(), parent: r.next()}
		q.cap, q.des, q.guar = r.rl(), r.rl(), r.rl()
		return request{k, q}
	case kDelete, kDeleteFin, kGone:
		return request{k, qspec{name: r.next()}}
	}
	return request{k, qspec{name: r.next(), alloc: r.next(), state: r.next()}}
}

// notTree: the generator built the initial set so that it is NOT a tree satisfying the invariant (law 108,
// "the gate tree_okb Q0 holds", is demanded for every other history)
type config struct{ maxDepth, allocCheck, rootProt, notTree int64 }

type history struct {
	cfg  config
	q0   []qspec
	reqs []request
}

func (h history) enc() []int64 {
	out := []int64{h.cfg.maxDepth, h.cfg.allocCheck, h.cfg.rootProt, h.cfg.notTree, int64(len(h.q0))}
	for _, q := range h.q0 {
		out = append(out, q.enc()...)
	}
	out = append(out, int64(len(h.reqs)))
	for _, r := range h.reqs {
		out = append(out, r.enc()...)
	}
	return out
}

func decHistory(in []int64) history {
	return decHistoryR(&tokReader{t: in})
}

func decHistoryR(r *tokReader) history {
	h := history{cfg: config{r.next(), r.next(), r.next(), r.next()}}
	n := int(r.next())
	for i := 0; i < n; i++ {
		h.q0 = append(h.q0, decQueue(r))
	}
	n = int(r.next())
	for i := 0; i < n; i++ {
		h.reqs = append(h.reqs, decRequest(r))
	}
	return h
}

// ---------- the world: lister + parent index owned by the harness ----------

var gvr = metav1.GroupVersionResource{Group: "scheduling.volcano.sh", Version: "v1beta1", Resource: "queues"}

type world struct {
	// set once an admitted request has closed a cycle of parent links (or given root a parent): the real code's
	// recursions over such a lister need not terminate, so nothing more is run (verdict 98)
	poisoned bool
	dry      bool
	// requests on which GetQueuesByParent's two lookup paths led to different verdicts
	pathsDisagree int
	cfg           config
	indexer       cache.Indexer
	inf           cache.SharedIndexInformer
	lister        schedulinglister.QueueLister
	svc           *router.AdmissionService
}

func newWorld(cfg config, q0 []qspec) *world {
	w := &world{cfg: cfg}
	// a never-started informer: only its indexer (with the router's queueParent index) is used
	w.inf = cache.NewSharedIndexInformer(&cache.ListWatch{}, &schedulingv1beta1.Queue{}, 0,
		cache.Indexers{router.QueueParentIndexName: router.QueueParentIndexFunc})
	w.indexer = w.inf.GetIndexer()
	w.lister = schedulinglister.NewQueueLister(w.indexer)
	err := router.ForEachAdmission(&options.Config{EnabledAdmission: "/queues/validate"}, func(s *router.AdmissionService) error {
		w.svc = s
		return nil
	})
	if err != nil || w.svc == nil {
		panic(fmt.Sprint("queue validate admission not registered: ", err))
	}
	for _, q := range q0 {
		if _, exists, _ := w.indexer.GetByKey(qname(q.name)); exists {
			continue // duplicate names in a malformed initial set: first wins (as in the model)
		}
		w.indexer.Add(buildQueue(q))
	}
	return w
}

func buildQueue(q qspec) *schedulingv1beta1.Queue {
	o := &schedulingv1beta1.Queue{
		TypeMeta:   metav1.TypeMeta{APIVersion: "scheduling.volcano.sh/v1beta1", Kind: "Queue"},
		ObjectMeta: metav1.ObjectMeta{Name: qname(q.name)},
		Spec: schedulingv1beta1.QueueSpec{
			Weight:     1,
			Parent:     qname(q.parent),
			Capability: q.cap.toListFor(q.name),
			Deserved:   q.des.toListFor(q.name),
		},
	}
	o.Spec.Guarantee.Resource = q.guar.toListFor(q.name)
	o.Status.State = stateName[q.state]
	if q.alloc != 0 {
		o.Status.Allocated = v1.ResourceList{v1.ResourcePods: *resource.NewQuantity(q.alloc, resource.DecimalSI)}
	}
	return o
}

func (w *world) get(id int64) *schedulingv1beta1.Queue {
	o, ok, _ := w.indexer.GetByKey(qname(id))
	if !ok {
		return nil
	}
	return o.(*schedulingv1beta1.Queue)
}

const (
	vAllowed      = 0
	vSpec         = 1
	vSelfParent   = 2
	vDepth        = 3
	vAncMissing   = 4
	vParentGet    = 5
	vParentBusy   = 6
	vRootProt     = 7
	vParentGone   = 8
	vCapAncestor  = 9
	vSiblingSum   = 10
	vCapChildren  = 12
	vChildrenSum  = 13
	vDelProtected = 15
	vDelMissing   = 16
	vDelAllocated = 17
	vDelChildren  = 18
	vCycle        = 19
	vSubtreeDepth = 20
	vNotInvoked   = 21
	vRootParent   = 22
	vParentTerm   = 23
	vNotRun       = 98
)

func classify(msg string) int64 {
	has := func(s string) bool { return strings.Contains(msg, s) }
	switch {
	case has("root queue cannot have a parent"):
		return vRootParent
	case has("because it is being deleted"):
		return vParentTerm
	case has("cannot use itself as parent"):
		return vSelfParent
	case has("cannot be moved under its own descendant"):
		return vCycle
	case has("would push its descendants beyond"):
		return vSubtreeDepth
	case has("exceeds the maximum allowed depth"):
		return vDepth
	case has("failed to get parent queue of queue"):
		return vParentGet
	case has("failed to get parent queue "):
		return vAncMissing
	case has("cannot be the parent queue of queue"):
		return vParentBusy
	case has("root queue's resource attributes"):
		return vRootProt
	case strings.HasPrefix(msg, "parent queue ") && has(" not found"):
		return vParentGone
	case has("exceeds its ancestor's capability"):
		return vCapAncestor
	case strings.HasPrefix(msg, "parent queue ") && has("validation failed: sum of children's"):
		return vSiblingSum
	case has("is smaller than its descendants' max capability"):
		return vCapChildren
	case strings.HasPrefix(msg, "queue ") && has("validation failed: sum of children's"):
		return vChildrenSum
	case has("queue can not be deleted"):
		return vDelProtected
	case has("cannot be deleted because it has allocated Pods"):
		return vDelAllocated
	case has("can not be deleted because it has") && has("child queues"):
		return vDelChildren
	case has("requestBody."):
		return vSpec
	case has("not found"):
		return vDelMissing
	}
	panic("unclassified admission message: " + msg)
}

func raw(o *schedulingv1beta1.Queue) runtime.RawExtension {
	b, err := json.Marshal(o)
	if err != nil {
		panic(err)
	}
	return runtime.RawExtension{Raw: b}
}

// call the real webhook once with the given lookup configuration
func (w *world) call(ar admissionv1.AdmissionReview, withIndex bool) int64 {
	c := w.svc.Config
	c.QueueLister = w.lister
	c.QueueInformer = nil
	if withIndex {
		c.QueueInformer = w.inf
	}
	c.MaxQueueDepth = int(w.cfg.maxDepth)
	c.EnableQueueAllocatedPodsCheck = w.cfg.allocCheck != 0
	c.EnableRootQueueProtection = w.cfg.rootProt != 0
	resp := w.svc.Func(ar)
	if resp.Allowed {
		return vAllowed
	}
	return classify(resp.Result.Message)
}

// step runs one request through the real webhook (both through the informer's
// parent index and through the lister fallback of GetQueuesByParent: they must
// agree) and applies it to the lister as the API server would when admitted.
func (w *world) step(r request) int64 {
	if w.poisoned {
		return vNotRun
	}
	v := w.step1(r)
	if v == vAllowed && r.kind != kEnv && r.kind != kGone {
		w.poisoned = w.cyclic()
	}
	return v
}

// cyclic: some queue does not come to an end ("" / "root" / a missing queue) within 64 parent
// links, or the root queue itself has a parent (it is then a child in the parent index and the
// downward recursions can come back to it)
func (w *world) cyclic() bool {
	if r := w.get(1); r != nil && r.Spec.Parent != "" {
		return true
	}
	for _, o := range w.indexer.List() {
		p := o.(*schedulingv1beta1.Queue).Spec.Parent
		k := 0
		for ; p != "" && p != "root" && k < 64; k++ {
			po, ok, _ := w.indexer.GetByKey(p)
			if !ok {
				break
			}
			p = po.(*schedulingv1beta1.Queue).Spec.Parent
		}
		if k >= 64 {
			return true
		}
	}
	return false
}

// applyReq: what the API server's storage does with an admitted request at the moment it is applied
func (w *world) applyReq(r request) {
	cur := w.get(r.q.name)
	switch r.kind {
	case kCreate:
		if cur == nil { // else: AlreadyExists from storage, nothing changes
			w.indexer.Add(buildQueue(r.q))
		}
	case kUpdate:
		if cur != nil {
			obj := buildQueue(r.q)
			obj.Status = *cur.Status.DeepCopy()
			obj.DeletionTimestamp = cur.DeletionTimestamp
			obj.Finalizers = cur.Finalizers
			w.indexer.Update(obj)
		}
	case kDelete:
		if cur != nil {
			w.indexer.Delete(cur)
		}
	case kDeleteFin:
		if cur != nil { // the object stays, terminating, until its finalizer is removed
			n := cur.DeepCopy()
			if n.DeletionTimestamp == nil {
				ts := metav1.Unix(1700000000, 0)
				n.DeletionTimestamp = &ts
				n.Finalizers = []string{"verif.volcano.sh/hold"}
			}
			w.indexer.Update(n)
		}
	}
}

// terminating: ids of the stored queues that carry a deletionTimestamp
func (w *world) terminating() []int64 {
	out := []int64{}
	for _, o := range w.indexer.List() {
		if q := o.(*schedulingv1beta1.Queue); q.DeletionTimestamp != nil {
			out = append(out, specOf(q).name)
		}
	}
	sort.Slice(out, func(i, j int) bool { return out[i] < out[j] })
	return out
}

func (w *world) step1(r request) int64 {
	old := w.get(r.q.name)
	if r.kind == kGone {
		if old == nil {
			return vNotInvoked
		}
		// the API server drops a TERMINATING object once its finalizers are gone, children or not (root and
		// default can never be terminating: their DELETE is always refused)
		if old.DeletionTimestamp != nil && r.q.name != 1 && r.q.name != 2 && !w.dry {
			w.indexer.Delete(old)
		}
		return vAllowed
	}
	if r.kind == kEnv {
		if old == nil {
			return vNotInvoked
		}
		n := old.DeepCopy()
		if r.q.alloc >= 0 {
			n.Status.Allocated = nil
			if r.q.alloc != 0 {
				n.Status.Allocated = v1.ResourceList{v1.ResourcePods: *resource.NewQuantity(r.q.alloc, resource.DecimalSI)}
			}
		}
		if r.q.state >= 0 {
			n.Status.State = stateName[r.q.state]
		}
		w.indexer.Update(n)
		return vAllowed
	}
	req := &admissionv1.AdmissionRequest{Name: qname(r.q.name), Resource: gvr}
	var obj *schedulingv1beta1.Queue
	switch r.kind {
	case kCreate:
		req.Operation = admissionv1.Create
		obj = buildQueue(r.q)
		req.Object = raw(obj)
	case kUpdate:
		if old == nil {
			return vNotInvoked // the API server answers 404 before any admission
		}
		req.Operation = admissionv1.Update
		obj = buildQueue(r.q)
		obj.Status = *old.Status.DeepCopy()
		req.Object = raw(obj)
		req.OldObject = raw(old)
	case kDelete, kDeleteFin:
		req.Operation = admissionv1.Delete
		obj = old
		if obj == nil {
			obj = buildQueue(qspec{name: r.q.name})
		}
		// the handler decodes Object also for DELETE (as the repo's unit tests do)
		req.Object = raw(obj)
		req.OldObject = raw(obj)
	default:
		panic("bad request kind")
	}
	ar := admissionv1.AdmissionReview{Request: req}
	before := w.dump()
	va := w.call(ar, true)
	if r.kind == kDelete || r.kind == kDeleteFin {
		// a real API server sends no Object for DELETE (the repo's unit tests send one): second call without
		req.Object = runtime.RawExtension{}
	}
	vb := w.call(ar, false)
	if va != vb {
		// the verdict of the production path (informer + parent index) is the one reported and applied, so
		// that the laws judge what the webhook-manager would do; the disagreement itself is reported by tag 903
		w.pathsDisagree++
	}
	if fmt.Sprint(before) != fmt.Sprint(w.dump()) {
		panic("the webhook modified an object held by the lister")
	}
	if va == vAllowed && !w.dry {
		w.applyReq(r)
	}
	return va
}

func specOf(o *schedulingv1beta1.Queue) qspec {
	q := qspec{cap: fromList(o.Spec.Capability), des: fromList(o.Spec.Deserved), guar: fromList(o.Spec.Guarantee.Resource)}
	fmt.Sscanf(o.Name, "q%d", &q.name)
	switch o.Name {
	case "root":
		q.name = 1
	case "default":
		q.name = 2
	}
	switch o.Spec.Parent {
	case "":
		q.parent = 0
	case "root":
		q.parent = 1
	case "default":
		q.parent = 2
	default:
		fmt.Sscanf(o.Spec.Parent, "q%d", &q.parent)
	}
	if a, ok := o.Status.Allocated[v1.ResourcePods]; ok {
		q.alloc = a.Value()
	}
	q.term = o.DeletionTimestamp != nil
	for k, n := range stateName {
		if n == o.Status.State {
			q.state = k
		}
	}
	return q
}

func (w *world) queues() []qspec {
	out := []qspec{}
	for _, o := range w.indexer.List() {
		out = append(out, specOf(o.(*schedulingv1beta1.Queue)))
	}
	sort.Slice(out, func(i, j int) bool { return out[i].name < out[j].name })
	return out
}

func (w *world) dump() []int64 {
	qs := w.queues()
	out := []int64{int64(len(qs))}
	for _, q := range qs {
		e := q.enc()
		// the stored set also shows which queues are terminating (after the four head tokens)
		out = append(out, e[:4]...)
		out = append(out, vh.B(q.term))
		out = append(out, e[4:]...)
	}
	return out
}

func tag(i int) []int64 { return []int64{int64(-100 - i)} }

// capacityReady opens a real scheduler session with the capacity plugin in hierarchy mode on
// the queue set and reports whether the plugin accepted the hierarchy (capacity.go
// buildHierarchicalQueueAttrs / updateAncestors did not abort): every registered function of the
// plugin answers "reject" otherwise.  Observed through Allocatable on a leaf queue with an
// empty request.
func capacityReady(qs []qspec) bool {
	objs := []*schedulingv1beta1.Queue{}
	hasChild := map[int64]bool{}
	for _, q := range qs {
		o := buildQueue(q)
		o.Status.State = schedulingv1beta1.QueueStateOpen
		objs = append(objs, o)
		p := q.parent
		if p == 0 {
			p = 1
		}
		if q.name != 1 {
			hasChild[p] = true
		}
	}
	leaf := int64(-1)
	for _, q := range qs {
		if !hasChild[q.name] && (leaf < 0 || q.name != 1) {
			leaf = q.name
		}
	}
	if leaf < 0 {
		panic("no leaf queue in a finite queue set")
	}
	sc := capacityCache()
	for _, o := range objs {
		sc.AddQueueV1beta1(o)
	}
	defer func() {
		for _, o := range objs {
			sc.DeleteQueueV1beta1(o)
		}
	}()
	on := true
	tiers := []conf.Tier{{Plugins: []conf.PluginOption{{Name: "capacity", EnabledHierarchy: &on, EnabledAllocatable: &on}}}}
	ssn := framework.OpenSession(sc, tiers, nil)
	defer framework.CloseSession(ssn)
	if len(ssn.Queues) != len(objs) {
		panic(fmt.Sprintf("session shows %d queues, lister %d", len(ssn.Queues), len(objs)))
	}
	qi := ssn.Queues[api.QueueID(qname(leaf))]
	if qi == nil {
		panic("session lost queue " + qname(leaf))
	}
	task := &api.TaskInfo{Name: "probe", Resreq: api.EmptyResource(), InitResreq: api.EmptyResource()}
	return ssn.Allocatable(qi, task)
}

// one mock scheduler cache for the whole process (a cache per history leaks its informers):
// the queues of a history are added before the session is opened and removed afterwards
var theCache *schedcache.SchedulerCache

func capacityCache() *schedcache.SchedulerCache {
	if theCache == nil {
		framework.RegisterPluginBuilder("capacity", capacity.New)
		theCache = schedcache.NewCustomMockSchedulerCache("c10", schedutil.NewFakeBinder(0), schedutil.NewFakeEvictor(0),
			&schedutil.FakeStatusUpdater{}, nil, nil)
		stop := make(chan struct{})
		theCache.Run(stop)
		theCache.WaitForCacheSync(stop)
	}
	return theCache
}

const tagCapacity = 901
const tagPaths = 903

const tagFinal = 900

// sel 1: a history.  Output: per request  tag(i) verdict ; then tag(900) final queue set
// sel 2 / 3: two requests validated by the real webhook against the SAME queue set (the one the
// history produced), as with concurrent admissions or a lagging lister; then both applied
func runPair(sel int, in []int64) []int64 {
	tr := &tokReader{t: in}
	h := decHistoryR(tr)
	r1, r2 := decRequest(tr), decRequest(tr)
	w := newWorld(h.cfg, h.q0)
	for _, r := range h.reqs {
		w.step(r)
	}
	if w.poisoned {
		panic("pair on a cyclic queue set")
	}
	w.dry = true
	v1, v2 := w.step1(r1), w.step1(r2)
	w.dry = false
	if sel == 3 {
		// the fixed scenarios: before a tree, afterwards not (answered by the extracted checker)
		return []int64{vh.B(v1 == vAllowed && v2 == vAllowed), 1, 0}
	}
	if v1 == vAllowed {
		w.applyReq(r1)
	}
	if v2 == vAllowed {
		w.applyReq(r2)
	}
	out := append(tag(1), v1)
	out = append(out, tag(2)...)
	out = append(out, v2)
	out = append(out, tag(tagFinal)...)
	return append(out, w.dump()...)
}

func run(sel int, in []int64) []int64 {
	if sel == 2 || sel == 3 {
		return runPair(sel, in)
	}
	if sel != 1 {
		panic("unknown selector")
	}
	h := decHistory(in)
	w := newWorld(h.cfg, h.q0)
	out := []int64{}
	for i, r := range h.reqs {
		out = append(out, tag(i+1)...)
		out = append(out, w.step(r))
	}
	out = append(out, tag(tagFinal)...)
	out = append(out, w.dump()...)
	out = append(out, tag(tagCapacity)...)
	if w.poisoned {
		out = append(out, 2) // a cycle of parent links: the plugin's recursions are not run on it
	} else {
		out = append(out, vh.B(capacityReady(w.queues())))
	}
	out = append(out, tag(tagPaths)...)
	return append(out, vh.B(w.pathsDisagree == 0))
}

// ---------- laws: the implementation's verdicts replayed by the extracted checker ----------
// law input = the history + the verdict the implementation gave to every request.
// 101 tree shape, 102 per-queue resources, 103 children sums, 104 capability vs
// nearest ancestor, 105 delete guard as the code implements it, 106 the capacity plugin accepts the
// final hierarchy, 107 no admitted DELETE of a queue with allocated pods (full strength).
func laws(sel int, in, got []int64, law func(lsel int, lin []int64, sig string)) {
	if sel != 1 {
		return // concurrent pairs break the invariant by construction: no law is demanded of them
	}
	h := decHistory(in)
	lin := append([]int64{}, in...)
	lin = append(lin, int64(len(h.reqs)))
	for i := range h.reqs {
		lin = append(lin, got[2*i+1])
	}
	law(101, lin, "")
	law(102, lin, "")
	law(103, lin, "")
	law(104, lin, "")
	law(105, lin, "")
	law(106, append(append([]int64{}, lin...), got[len(got)-3]), "")
	// 107: the deletion clause of the property text at full strength (no admitted DELETE of a queue with
	// allocated pods, whatever the configuration).  Known finding: with EnableQueueAllocatedPodsCheck off
	// (the default) the webhook does not look at the allocated pods; the sig names exactly that class.
	sig := ""
	if h.cfg.allocCheck == 0 {
		type sh struct {
			alloc, parent int64
			term          bool
		}
		shadow := map[int64]*sh{}
		for _, q := range h.q0 {
			if _, dup := shadow[q.name]; !dup {
				shadow[q.name] = &sh{alloc: q.alloc, parent: q.parent}
			}
		}
		for i, r := range h.reqs {
			if got[2*i+1] != vAllowed {
				continue
			}
			e, exists := shadow[r.q.name]
			switch r.kind {
			case kCreate:
				if !exists {
					shadow[r.q.name] = &sh{parent: r.q.parent}
				}
			case kUpdate:
				if exists {
					e.parent = r.q.parent
				}
			case kEnv:
				if exists && r.q.alloc >= 0 {
					e.alloc = r.q.alloc
				}
			case kDelete, kDeleteFin:
				if exists && e.alloc != 0 {
					sig = "C10-delete-allocated-pods-flag-off"
				}
				if r.kind == kDelete {
					delete(shadow, r.q.name)
				} else if exists {
					e.term = true
				}
			case kGone:
				kids := false
				for _, x := range shadow {
					kids = kids || x.parent == r.q.name
				}
				_ = kids
				if exists && e.term && r.q.name > 2 {
					delete(shadow, r.q.name)
				}
			}
		}
	}
	law(107, lin, sig)
	law(108, lin, "")
}

func main() {
	vh.Harness{Run: run, Laws: laws, Gen: gen}.Main()
}
