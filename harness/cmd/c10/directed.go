package main

import (
	"verif/harness/internal/vh"
)

// Directed family of the re-parent stream: a subtree of depth 2-4 whose nodes each set a
// capability for a random SUBSET of {cpu, memory, one scalar} (often disjoint subsets along a
// path, some nodes setting nothing) is moved under a new parent chain whose nodes set other
// subsets, with values just below / at / above the subtree's per-dimension maximum.  The
// capability clause is per dimension ("nearest ancestor that sets THIS dimension"), so a
// descendant below a capability-setting queue still counts for the dimensions that queue leaves
// open.  Built adaptively against the real webhook like every other history.

// the dimension pool of the directed capability histories: cpu, memory, an extended resource, and the names
// whose unit in api.NewResource is NOT what Quantity.Value() gives or that take their own branch there:
// ephemeral-storage (stored in MILLI-units), pods (units, also MaxTaskNum), hugepages-* (milli scalar)
var capDimPool = []int64{1, 2, 3, 4, 6, 7}

// three dimensions of the pool, ascending; ephemeral-storage in every second history
func (g *gctx) pickCapDims() {
	r := g.r
	in := map[int64]bool{}
	if r.Chance(1, 2) {
		in[7] = true
	}
	for len(in) < 3 {
		in[vh.Pick(r, capDimPool)] = true
	}
	g.capDims = nil
	for _, d := range capDimPool {
		if in[d] {
			g.capDims = append(g.capDims, d)
		}
	}
}

// first positive capability (dimension d) at or below queue n: the model of what
// findSubtreeMaxCapability sees, computed on the generator's view of the state
func firstPosMax(st map[int64]qspec, n int64, d int64, fuel int) int64 {
	q, ok := st[n]
	if !ok || fuel == 0 {
		return 0
	}
	if v, ok := q.cap.get(d); ok && v > 0 {
		return v
	}
	m := int64(0)
	for _, c := range childrenOf(st, n) {
		if v := firstPosMax(st, c.name, d, fuel-1); v > m {
			m = v
		}
	}
	return m
}

func (g *gctx) randomSubset() []int64 {
	r := g.r
	if r.Chance(1, 4) {
		return nil
	}
	out := []int64{}
	for _, d := range g.capDims {
		if r.Chance(1, 2) {
			out = append(out, d)
		}
	}
	return out
}

// a capability list for a queue under parent p that the webhook admits: every value is at most
// the nearest setting ancestor's
func (g *gctx) admissibleCaps(st map[int64]qspec, p int64, dims []int64) rl {
	r := g.r
	out := rl{}
	for _, d := range g.capDims {
		in := false
		for _, x := range dims {
			in = in || x == d
		}
		if !in {
			continue
		}
		v := int64(r.Range(8, 64)) * 1000
		if up, ok := nearestCap(st, p, d); ok {
			v = up - int64(r.Intn(3))*1000
			if v < 1000 {
				v = up
			}
		}
		out = append(out, [2]int64{d, v})
	}
	return out
}

func (g *gctx) directedMove() history {
	r := g.r
	cfg := config{maxDepth: int64(r.Range(6, 8)), allocCheck: int64(r.Intn(2)), rootProt: int64(r.Intn(2))}
	q0 := baseQ0(r)
	g.w = newWorld(cfg, q0)
	g.capOnly = true
	g.pickCapDims()
	h := history{cfg: cfg, q0: q0}
	alive := true
	do := func(req request) {
		if !alive {
			return
		}
		h.reqs = append(h.reqs, req)
		alive = safeStep(g.w, req)
	}
	create := func(id, parent int64, dims []int64) {
		do(request{kCreate, qspec{name: id, parent: parent, cap: g.admissibleCaps(g.state(), parent, dims)}})
	}

	// old location: under root, or under a queue that sets every dimension generously
	top := int64(1)
	if r.Chance(2, 3) {
		gen := rl{}
		for _, d := range g.capDims {
			gen = append(gen, [2]int64{d, 100000})
		}
		do(request{kCreate, qspec{name: 3, parent: int64(r.Intn(2)), cap: gen}})
		top = 3
	}
	// the subtree: a chain of depth 2-4 below its root Q = 4, plus sometimes a side branch
	depth := r.Range(2, 4)
	parent := top
	chain := []int64{}
	for k := 0; k <= depth; k++ {
		id := int64(4 + k)
		create(id, parent, g.randomSubset())
		chain = append(chain, id)
		parent = id
	}
	if r.Chance(1, 2) {
		create(10, vh.Pick(r, chain), g.randomSubset())
	}
	moved := chain[0]
	if r.Chance(1, 5) {
		moved = chain[1]
	}

	// the new parent chain: values around the subtree's per-dimension maximum; one critical
	// dimension decides, the others are unset / at / above
	st := g.state()
	critical := vh.Pick(r, g.capDims)
	class := r.Intn(3) // 0 below, 1 at, 2 above
	target := map[int64]int64{}
	for _, d := range g.capDims {
		m := firstPosMax(st, moved, d, 16)
		if m == 0 {
			if r.Chance(1, 2) {
				target[d] = int64(r.Range(1, 64)) * 1000
			}
			continue
		}
		c := 1 + r.Intn(2)
		if d == critical {
			c = class
		} else if r.Chance(1, 4) {
			continue // unset on the whole new chain
		}
		switch c {
		case 0:
			if m >= 2000 {
				target[d] = m - 1000
			} else {
				target[d] = m
			}
		case 1:
			target[d] = m
		default:
			target[d] = m + int64(r.Range(1, 3))*1000
		}
	}
	twoLevels := r.Chance(1, 2)
	p1, p2 := rl{}, rl{}
	for _, d := range g.capDims {
		t, ok := target[d]
		if !ok {
			continue
		}
		switch w := r.Intn(3); {
		case !twoLevels || w == 0: // set by the upper queue only
			p1 = append(p1, [2]int64{d, t})
		case w == 1: // set by the lower queue only
			p2 = append(p2, [2]int64{d, t})
		default: // set by both, the upper one more generous
			p1 = append(p1, [2]int64{d, t + int64(r.Intn(3))*1000})
			p2 = append(p2, [2]int64{d, t})
		}
	}
	do(request{kCreate, qspec{name: 12, parent: int64(r.Intn(2)), cap: p1}})
	dest := int64(12)
	if twoLevels {
		do(request{kCreate, qspec{name: 13, parent: 12, cap: p2}})
		dest = 13
	}

	// the move itself (the queue keeps its spec), then sometimes the way back and a few more requests
	if q, ok := g.state()[moved]; ok {
		old := q.parent
		q.parent = dest
		do(request{kUpdate, q})
		if r.Chance(1, 3) {
			q.parent = old
			do(request{kUpdate, q})
			q.parent = 12
			do(request{kUpdate, q})
		}
	}
	var last int64
	for k := r.Intn(5); k > 0 && alive; k-- {
		do(g.nextRequest(&last))
	}
	return h
}

// Directed family of the sums clause: children of a parent are closed / closing (status
// updates by the queue controller; the webhook reads whatever state the stored object carries)
// before a new sibling is created in, moved into or resized inside the parent so that the sum
// of ALL children's guarantee / deserved is one unit below, at, or one unit above the parent's.
// The sums run over all children whatever their state; siblings are re-opened afterwards.
func (g *gctx) directedClosedSibling() history {
	r := g.r
	cfg := config{maxDepth: int64(r.Range(3, 5)), allocCheck: int64(r.Intn(2)), rootProt: int64(r.Intn(2))}
	q0 := baseQ0(r)
	g.w = newWorld(cfg, q0)
	h := history{cfg: cfg, q0: q0}
	alive := true
	do := func(req request) {
		if !alive {
			return
		}
		h.reqs = append(h.reqs, req)
		alive = safeStep(g.w, req)
	}
	dims := []int64{2}
	if r.Chance(1, 3) {
		dims = append(dims, 3)
	}
	withGuar := r.Chance(2, 3)
	amounts := func(v int64) (des, guar rl) {
		for _, d := range dims {
			des = append(des, [2]int64{d, v})
			if withGuar {
				guar = append(guar, [2]int64{d, v})
			}
		}
		return
	}
	mkq := func(id, parent, v int64) qspec {
		q := qspec{name: id, parent: parent}
		q.des, q.guar = amounts(v)
		return q
	}
	total := int64(r.Range(6, 16)) * 1000
	parent := int64(3)
	if r.Chance(1, 3) { // the parent itself one level down
		do(request{kCreate, mkq(3, int64(r.Intn(2)), total+int64(r.Intn(3))*1000)})
		parent = 4
	}
	top := int64(r.Intn(2))
	if parent == 4 {
		top = 3
	}
	do(request{kCreate, mkq(parent, top, total)})

	// existing children
	k := r.Range(1, 3)
	rem := total
	kids := []int64{}
	for i := 0; i < k; i++ {
		max := (rem - 2000) / 1000 / int64(k-i)
		if max < 1 {
			break
		}
		a := int64(r.Range(1, int(max))) * 1000
		id := int64(5 + i)
		do(request{kCreate, mkq(id, parent, a)})
		kids = append(kids, id)
		rem -= a
	}
	// some of them are closed / closing by the queue controller
	// ... or deleted while carrying a finalizer: the DELETE is admitted, the queue lingers as terminating
	closed, lingering := []int64{}, []int64{}
	for _, id := range kids {
		if r.Chance(2, 3) || len(closed)+len(lingering) == 0 && id == kids[len(kids)-1] {
			if r.Chance(1, 3) {
				do(request{kEnv, qspec{name: id, alloc: 0, state: -1}})
				do(request{kDeleteFin, qspec{name: id}})
				lingering = append(lingering, id)
				continue
			}
			st := int64(vh.Pick(r, []int{2, 2, 2, 2, 2, 2, 3, 3, 4, 1}))
			do(request{kEnv, qspec{name: id, alloc: -1, state: st}})
			closed = append(closed, id)
		}
	}
	// the new sibling's amount: what is left, one unit less, one unit more
	amt := rem + int64(r.Intn(3)-1)*1000
	switch mode := r.Intn(4); {
	case mode == 0:
		do(request{kCreate, mkq(8, parent, amt)})
	case mode == 1: // created elsewhere, then moved in
		do(request{kCreate, mkq(8, int64(r.Intn(2)), amt)})
		q := mkq(8, parent, amt)
		do(request{kUpdate, q})
	case mode == 2: // created small, then resized
		do(request{kCreate, mkq(8, parent, 1000)})
		do(request{kUpdate, mkq(8, parent, amt)})
	default: // an existing sibling is resized to take everything that is left
		st := g.state()
		id := vh.Pick(r, kids)
		cur, _ := st[id].des.get(2)
		do(request{kUpdate, mkq(id, parent, cur+amt)})
	}
	// the parent cannot be deleted while a terminating child is still there
	if len(lingering) > 0 && r.Chance(1, 2) {
		do(request{vh.Pick(r, []int64{kDelete, kDeleteFin}), qspec{name: parent}})
	}
	for _, id := range lingering {
		if r.Chance(2, 3) {
			do(request{kGone, qspec{name: id}})
		}
	}
	// re-opened: no resource field changes, nothing is re-validated
	for _, id := range closed {
		if r.Chance(3, 4) {
			do(request{kEnv, qspec{name: id, alloc: -1, state: 1}})
		}
	}
	var last int64
	for n := r.Intn(4); n > 0 && alive; n-- {
		do(g.nextRequest(&last))
	}
	return h
}
