// C15 harness: volcano's GetPodResourceRequest (and NewTaskInfo's Resreq /
// InitResreq) against k8s.io/component-helpers/resource.PodRequests on the same
// pod object, under the feature gates the code consults.
package main

import (
	"fmt"
	"math"
	"math/big"
	"sort"
	"strings"
	"time"

	v1 "k8s.io/api/core/v1"
	storagev1 "k8s.io/api/storage/v1"
	"k8s.io/apimachinery/pkg/util/sets"
	apiequality "k8s.io/apimachinery/pkg/api/equality"
	metav1 "k8s.io/apimachinery/pkg/apis/meta/v1"
	"k8s.io/apimachinery/pkg/api/resource"
	utilfeature "k8s.io/apiserver/pkg/util/feature"
	helpers "k8s.io/component-helpers/resource"
	"k8s.io/kubernetes/pkg/features"
	k8sframework "k8s.io/kubernetes/pkg/scheduler/framework"

	"verif/harness/internal/vh"
	"volcano.sh/volcano/pkg/scheduler/api"
	schedcache "volcano.sh/volcano/pkg/scheduler/cache"
)

// ---------- names ----------

// model name id -> Kubernetes resource name.  1..4 are fixed in the model
// (Base.Res.pods_name, C15.Model.cpu_name/mem_name/eph_name); the others are
// classified by the two flags the model receives with every case.
type nameInfo struct {
	id      int64
	name    v1.ResourceName
	tracked bool // NewResource keeps it as a scalar
	plsup   bool // helpers.IsSupportedPodLevelResource
}

var fixedNames = map[int64]v1.ResourceName{1: v1.ResourcePods, 2: v1.ResourceCPU, 3: v1.ResourceMemory, 4: v1.ResourceEphemeralStorage}

var nameTable = []nameInfo{
	{5, "nvidia.com/gpu", true, false},
	{6, "example.com/foo", true, false},
	{7, "hugepages-2Mi", true, true},
	{8, "hugepages-1Gi", true, true},
	{9, "count/widgets.example.com", false, false}, // IsCountQuota: skipped by NewResource
	{10, "storage", false, false},                  // not a scalar resource name
	{11, "volcano.sh/vgpu-number", false, false},   // in IgnoredDevicesList
	{12, "hugepages-64Ki", false, true},            // in IgnoredDevicesList AND pod-level capable (the corner of Lemmas.pl_tracked)
	{13, "kubernetes.io/batteries", true, false},
	{14, "attachable-volumes-csi-example", true, false},
	// the attach-limit names SchedulerCache.NewTaskInfo charges the pod's CSI volumes to (Entry.vol_key: 14 + driver)
	{15, "attachable-volumes-csi-drv1", true, false},
	{16, "attachable-volumes-csi-drv2", true, false},
}

var nameOf = map[int64]v1.ResourceName{}
var idOf = map[v1.ResourceName]int64{}

func init() {
	initVolumeWorld()
	api.IgnoredDevicesList.Set([]string{"volcano.sh/vgpu-number", "hugepages-64Ki"})
	for k, n := range fixedNames {
		nameOf[k] = n
		idOf[n] = k
	}
	for _, ni := range nameTable {
		nameOf[ni.id] = ni.name
		idOf[ni.name] = ni.id
		// the flags sent to the model must be what the real code thinks of the name
		r := api.NewResource(v1.ResourceList{ni.name: resource.MustParse("1")})
		_, kept := r.ScalarResources[ni.name]
		if kept != ni.tracked || helpers.IsSupportedPodLevelResource(ni.name) != ni.plsup {
			panic(fmt.Sprintf("name table is wrong about %s", ni.name))
		}
	}
}

// ---------- the case, mirroring C15.Model.pod ----------

type qty struct{ v, e int64 } // v * 10^-e
type kv struct {
	k int64
	q qty
}
type rlT []kv
type contT struct {
	name    int64
	sidecar bool
	req     rlT
}
type statT struct {
	name   int64
	hasRes bool
	res    rlT
	alloc  rlT
}
type podT struct {
	cs, is   []contT
	cst, ist []statT
	oh       rlT
	hasPl    bool
	pl       rlT
	conds    [][2]bool
	hasPst   bool
	pst      rlT
	pal      rlT
	claims   []rlT
}
// the pod's lifecycle position, mirroring C15.Model.pod_meta
type metaT struct {
	phase    int64 // 0 "", 1 Pending, 2 Running, 3 Succeeded, 4 Failed, 5 Unknown
	node     bool  // spec.nodeName set
	deleting bool  // metadata.deletionTimestamp set
}

var phases = []v1.PodPhase{"", v1.PodPending, v1.PodRunning, v1.PodSucceeded, v1.PodFailed, v1.PodUnknown}

type caseT struct {
	ippvs, plr, ippl, dra bool
	meta                  metaT
	vols                  []int64 // volume kinds, see Entry.vol_key
	pod                   podT
}

func encRlT(l rlT) []int64 {
	out := []int64{int64(len(l))}
	for _, x := range l {
		out = append(out, x.k, x.q.v, x.q.e)
	}
	return out
}

func (c caseT) tokens() []int64 {
	out := []int64{vh.B(c.ippvs), vh.B(c.plr), vh.B(c.ippl), vh.B(c.dra),
		c.meta.phase, vh.B(c.meta.node), vh.B(c.meta.deleting), int64(len(c.vols))}
	out = append(out, c.vols...)
	out = append(out, int64(len(nameTable)))
	for _, ni := range nameTable {
		out = append(out, ni.id, vh.B(ni.tracked), vh.B(ni.plsup))
	}
	out = append(out, encPod(c.pod)...)
	return out
}

func encPod(p podT) []int64 {
	out := []int64{}
	conts := func(l []contT) {
		out = append(out, int64(len(l)))
		for _, x := range l {
			out = append(out, x.name, vh.B(x.sidecar))
			out = append(out, encRlT(x.req)...)
		}
	}
	stats := func(l []statT) {
		out = append(out, int64(len(l)))
		for _, x := range l {
			out = append(out, x.name, vh.B(x.hasRes))
			if x.hasRes {
				out = append(out, encRlT(x.res)...)
			}
			out = append(out, encRlT(x.alloc)...)
		}
	}
	conts(p.cs)
	conts(p.is)
	stats(p.cst)
	stats(p.ist)
	out = append(out, encRlT(p.oh)...)
	out = append(out, vh.B(p.hasPl))
	if p.hasPl {
		out = append(out, encRlT(p.pl)...)
	}
	out = append(out, int64(len(p.conds)))
	for _, c := range p.conds {
		out = append(out, vh.B(c[0]), vh.B(c[1]))
	}
	out = append(out, vh.B(p.hasPst))
	if p.hasPst {
		out = append(out, encRlT(p.pst)...)
	}
	out = append(out, encRlT(p.pal)...)
	out = append(out, int64(len(p.claims)))
	for _, cl := range p.claims {
		out = append(out, encRlT(cl)...)
	}
	return out
}

// one pod delivered through the cache's event handlers: AddPod(v[0]), UpdatePod(v[0],v[1]), ...
type versionT struct {
	meta metaT
	vols []int64
	pod  podT
}
type historyT struct {
	ippvs, plr, ippl, dra bool
	vs                    []versionT
}

func (h historyT) tokens() []int64 {
	out := []int64{vh.B(h.ippvs), vh.B(h.plr), vh.B(h.ippl), vh.B(h.dra), int64(len(nameTable))}
	for _, ni := range nameTable {
		out = append(out, ni.id, vh.B(ni.tracked), vh.B(ni.plsup))
	}
	out = append(out, int64(len(h.vs)))
	for _, v := range h.vs {
		out = append(out, v.meta.phase, vh.B(v.meta.node), vh.B(v.meta.deleting), int64(len(v.vols)))
		out = append(out, v.vols...)
		out = append(out, encPod(v.pod)...)
	}
	return out
}

func decodeHistory(in []int64) historyT {
	r := &tokReader{t: in}
	h := historyT{ippvs: r.flag(), plr: r.flag(), ippl: r.flag(), dra: r.flag()}
	if int(r.next()) != len(nameTable) {
		panic("name table length")
	}
	for _, ni := range nameTable {
		if r.next() != ni.id || r.flag() != ni.tracked || r.flag() != ni.plsup {
			panic("name table mismatch")
		}
	}
	n := int(r.next())
	for i := 0; i < n; i++ {
		v := versionT{meta: metaT{phase: r.next(), node: r.flag(), deleting: r.flag()}}
		nv := int(r.next())
		for j := 0; j < nv; j++ {
			v.vols = append(v.vols, r.next())
		}
		decodePod(r, &v.pod)
		h.vs = append(h.vs, v)
	}
	if r.i != len(in) {
		panic("trailing tokens")
	}
	return h
}

type tokReader struct {
	t []int64
	i int
}

func (r *tokReader) next() int64 { v := r.t[r.i]; r.i++; return v }
func (r *tokReader) flag() bool  { return r.next() != 0 }
func (r *tokReader) rl() rlT {
	n := int(r.next())
	out := rlT{}
	for i := 0; i < n; i++ {
		k := r.next()
		v := r.next()
		e := r.next()
		out = append(out, kv{k, qty{v, e}})
	}
	return out
}

func decodePod(r *tokReader, p *podT) {
	conts := func() []contT {
		n := int(r.next())
		out := []contT{}
		for i := 0; i < n; i++ {
			x := contT{name: r.next(), sidecar: r.flag()}
			x.req = r.rl()
			out = append(out, x)
		}
		return out
	}
	stats := func() []statT {
		n := int(r.next())
		out := []statT{}
		for i := 0; i < n; i++ {
			x := statT{name: r.next(), hasRes: r.flag()}
			if x.hasRes {
				x.res = r.rl()
			}
			x.alloc = r.rl()
			out = append(out, x)
		}
		return out
	}
	p.cs = conts()
	p.is = conts()
	p.cst = stats()
	p.ist = stats()
	p.oh = r.rl()
	p.hasPl = r.flag()
	if p.hasPl {
		p.pl = r.rl()
	}
	nc := int(r.next())
	for i := 0; i < nc; i++ {
		a := r.flag()
		b := r.flag()
		p.conds = append(p.conds, [2]bool{a, b})
	}
	p.hasPst = r.flag()
	if p.hasPst {
		p.pst = r.rl()
	}
	p.pal = r.rl()
	ncl := int(r.next())
	for i := 0; i < ncl; i++ {
		p.claims = append(p.claims, r.rl())
	}
}

func decode(in []int64) caseT {
	r := &tokReader{t: in}
	c := caseT{ippvs: r.flag(), plr: r.flag(), ippl: r.flag(), dra: r.flag()}
	c.meta = metaT{phase: r.next(), node: r.flag(), deleting: r.flag()}
	if c.meta.phase < 0 || int(c.meta.phase) >= len(phases) {
		panic("phase out of range")
	}
	nv := int(r.next())
	for i := 0; i < nv; i++ {
		c.vols = append(c.vols, r.next())
	}
	n := int(r.next())
	if n != len(nameTable) {
		panic("name table length")
	}
	for _, ni := range nameTable {
		if r.next() != ni.id || r.flag() != ni.tracked || r.flag() != ni.plsup {
			panic("name table mismatch")
		}
	}
	decodePod(r, &c.pod)
	if r.i != len(in) {
		panic("trailing tokens")
	}
	return c
}

// ---------- building the real objects ----------

func toQuantity(q qty) resource.Quantity {
	return *resource.NewScaledQuantity(q.v, resource.Scale(-q.e))
}

func toList(l rlT) v1.ResourceList {
	if len(l) == 0 {
		return nil
	}
	out := v1.ResourceList{}
	for _, x := range l {
		n, ok := nameOf[x.k]
		if !ok {
			panic("unknown name id")
		}
		out[n] = toQuantity(x.q)
	}
	return out
}

func double(l v1.ResourceList) v1.ResourceList {
	out := v1.ResourceList{}
	for k, q := range l {
		d := q.DeepCopy()
		d.Add(q)
		out[k] = d
	}
	return out
}

func buildContainer(x contT) v1.Container {
	c := v1.Container{Name: fmt.Sprintf("c%d", x.name)}
	c.Resources.Requests = toList(x.req)
	// limits are not part of either computation: twice the requests on even
	// names, limits WITHOUT a matching request on names 1, 7, 13..., none otherwise
	if x.name%2 == 0 {
		c.Resources.Limits = double(c.Resources.Requests)
	} else if x.name%6 == 1 {
		c.Resources.Limits = v1.ResourceList{v1.ResourceCPU: resource.MustParse("7"), v1.ResourceMemory: resource.MustParse("9Gi"),
			"example.com/foo": resource.MustParse("3"), "hugepages-2Mi": resource.MustParse("64Mi")}
	}
	if x.sidecar {
		p := v1.ContainerRestartPolicyAlways
		c.RestartPolicy = &p
	} else if x.name%3 == 0 {
		p := v1.ContainerRestartPolicyOnFailure
		c.RestartPolicy = &p
	}
	return c
}

func buildStatus(x statT) v1.ContainerStatus {
	s := v1.ContainerStatus{Name: fmt.Sprintf("c%d", x.name)}
	if x.hasRes {
		s.Resources = &v1.ResourceRequirements{Requests: toList(x.res)}
	}
	s.AllocatedResources = toList(x.alloc)
	return s
}

var deletionTime = metav1.NewTime(time.Date(2025, 1, 2, 3, 4, 5, 0, time.UTC))

// ---------- the volume world of SchedulerCache.NewTaskInfo ----------

var theCache *schedcache.SchedulerCache

func driverName(d int64) string { return fmt.Sprintf("drv%d", d) }

// PVC / PV / StorageClass objects behind the volume kinds of Entry.vol_key
func initVolumeWorld() {
	theCache = schedcache.NewDefaultMockSchedulerCache("volcano")
	theCache.IgnoredCSIProvisioners = sets.New("ignored.csi.example.com")
	pvcs, pvs, scs := theCache.VerifVolumeStores()
	must := func(err error) {
		if err != nil {
			panic(err)
		}
	}
	ctrl := true
	owner := []metav1.OwnerReference{{APIVersion: "v1", Kind: "Pod", Name: "p", UID: "uid-p", Controller: &ctrl}}
	addPVC := func(name, pv, class string, owned bool) {
		pvc := &v1.PersistentVolumeClaim{ObjectMeta: metav1.ObjectMeta{Namespace: "ns", Name: name}}
		pvc.Spec.VolumeName = pv
		if class != "" {
			c := class
			pvc.Spec.StorageClassName = &c
		}
		if owned {
			pvc.OwnerReferences = owner
		}
		must(pvcs.Add(pvc))
	}
	nfs := &v1.PersistentVolume{ObjectMeta: metav1.ObjectMeta{Name: "pv-nfs"}}
	nfs.Spec.NFS = &v1.NFSVolumeSource{Server: "s", Path: "/"}
	must(pvs.Add(nfs))
	addPVC("pvc-k-1", "pv-nfs", "", false)
	must(scs.Add(&storagev1.StorageClass{ObjectMeta: metav1.ObjectMeta{Name: "sc-ignored"}, Provisioner: "ignored.csi.example.com"}))
	addPVC("pvc-k30", "", "sc-ignored", false)
	for d := int64(1); d <= 2; d++ {
		pv := &v1.PersistentVolume{ObjectMeta: metav1.ObjectMeta{Name: "pv-" + driverName(d)}}
		pv.Spec.CSI = &v1.CSIPersistentVolumeSource{Driver: driverName(d), VolumeHandle: "h"}
		must(pvs.Add(pv))
		must(scs.Add(&storagev1.StorageClass{ObjectMeta: metav1.ObjectMeta{Name: "sc-" + driverName(d)}, Provisioner: driverName(d)}))
		must(scs.Add(&storagev1.StorageClass{ObjectMeta: metav1.ObjectMeta{Name: "scp-" + driverName(d)}, Provisioner: "other.example.com",
			Parameters: map[string]string{"csi.storage.k8s.io/csi-driver-name": driverName(d)}}))
		addPVC(fmt.Sprintf("pvc-k%d", d), "pv-"+driverName(d), "", false)
		addPVC(fmt.Sprintf("pvc-k%d", 10+d), "", "sc-"+driverName(d), false)
		addPVC(fmt.Sprintf("pvc-k%d", 20+d), "", "scp-"+driverName(d), false)
		// bound to a PV that is not (no longer) in the informer: the driver comes from the class
		addPVC(fmt.Sprintf("pvc-k%d", 60+d), "pv-missing", "sc-"+driverName(d), false)
		for i := 0; i < maxVolumes; i++ {
			// the claim of a generic ephemeral volume is named <pod>-<volume> and owned by the pod
			addPVC(fmt.Sprintf("p-e%dx%d", d, i), "pv-"+driverName(d), "", true)
		}
	}
	addPVC("pvc-k70", "", "sc-missing", false)
	addPVC("pvc-k71", "", "", false)
	for i := 0; i < maxVolumes; i++ {
		// a claim with the name of an ephemeral volume's claim that the pod does NOT own: lookup error
		addPVC(fmt.Sprintf("p-u%d", i), "pv-drv1", "", false)
	}
	// kind 50 refers to "pvc-absent", which is in no store: pendingPVCError
}

const maxVolumes = 6

func buildVolumes(kinds []int64) []v1.Volume {
	var out []v1.Volume
	for i, k := range kinds {
		vol := v1.Volume{Name: fmt.Sprintf("v%d", i)}
		switch {
		case k == 0:
			vol.EmptyDir = &v1.EmptyDirVolumeSource{}
		case k == 41 || k == 42:
			vol.Name = fmt.Sprintf("e%dx%d", k-40, i)
			vol.Ephemeral = &v1.EphemeralVolumeSource{VolumeClaimTemplate: &v1.PersistentVolumeClaimTemplate{}}
		case k == 51:
			vol.Name = fmt.Sprintf("u%d", i)
			vol.Ephemeral = &v1.EphemeralVolumeSource{VolumeClaimTemplate: &v1.PersistentVolumeClaimTemplate{}}
		case k == 50:
			vol.PersistentVolumeClaim = &v1.PersistentVolumeClaimVolumeSource{ClaimName: "pvc-absent"}
		case k == -1 || k == 30 || k == 1 || k == 2 || k == 11 || k == 12 || k == 21 || k == 22 || k == 61 || k == 62 || k == 70 || k == 71:
			vol.PersistentVolumeClaim = &v1.PersistentVolumeClaimVolumeSource{ClaimName: fmt.Sprintf("pvc-k%d", k)}
		default:
			panic("unknown volume kind")
		}
		out = append(out, vol)
	}
	return out
}

func buildPod(p podT, m metaT) *v1.Pod {
	pod := &v1.Pod{}
	pod.Name = "p"
	pod.Namespace = "ns"
	pod.UID = "uid-p"
	pod.Status.Phase = phases[m.phase]
	if m.node {
		pod.Spec.NodeName = "n1"
	}
	if m.deleting {
		t := deletionTime
		pod.DeletionTimestamp = &t
	}
	for _, c := range p.cs {
		pod.Spec.Containers = append(pod.Spec.Containers, buildContainer(c))
	}
	for _, c := range p.is {
		pod.Spec.InitContainers = append(pod.Spec.InitContainers, buildContainer(c))
	}
	for _, s := range p.cst {
		pod.Status.ContainerStatuses = append(pod.Status.ContainerStatuses, buildStatus(s))
	}
	for _, s := range p.ist {
		pod.Status.InitContainerStatuses = append(pod.Status.InitContainerStatuses, buildStatus(s))
	}
	pod.Spec.Overhead = toList(p.oh)
	if p.hasPl {
		pod.Spec.Resources = &v1.ResourceRequirements{Requests: toList(p.pl)}
	}
	for i, c := range p.conds {
		cond := v1.PodCondition{Type: v1.PodReady, Status: v1.ConditionTrue, Reason: fmt.Sprintf("r%d", i)}
		if c[0] {
			cond.Type = v1.PodResizePending
			cond.Reason = v1.PodReasonDeferred
		}
		if c[1] {
			cond.Reason = v1.PodReasonInfeasible
		}
		pod.Status.Conditions = append(pod.Status.Conditions, cond)
	}
	if p.hasPst {
		pod.Status.Resources = &v1.ResourceRequirements{Requests: toList(p.pst)}
	}
	pod.Status.AllocatedResources = toList(p.pal)
	for i, cl := range p.claims {
		rs := toList(cl)
		if rs == nil {
			rs = v1.ResourceList{}
		}
		pod.Status.NodeAllocatableResourceClaimStatuses = append(pod.Status.NodeAllocatableResourceClaimStatuses,
			v1.NodeAllocatableResourceClaimStatus{ResourceClaimName: fmt.Sprintf("claim-%d", i), Resources: rs})
	}
	return pod
}

// ---------- gates ----------

var curGates = ""

func setGates(c caseT) {
	if !c.ippvs {
		panic("InPlacePodVerticalScaling is locked to true in this build; the generator must not turn it off")
	}
	want := fmt.Sprintf("InPlacePodLevelResourcesVerticalScaling=%t,PodLevelResources=%t,DRANodeAllocatableResources=%t", c.ippl, c.plr, c.dra)
	if want != curGates {
		if err := utilfeature.DefaultMutableFeatureGate.Set(want); err != nil {
			panic("cannot set gates " + want + ": " + err.Error())
		}
		curGates = want
	}
	g := utilfeature.DefaultFeatureGate
	if g.Enabled(features.InPlacePodVerticalScaling) != c.ippvs || g.Enabled(features.PodLevelResources) != c.plr ||
		g.Enabled(features.InPlacePodLevelResourcesVerticalScaling) != c.ippl || g.Enabled(features.DRANodeAllocatableResources) != c.dra {
		panic("gates not in the requested state")
	}
}

// the options kube-scheduler's PodInfo.CalculateResource derives from the gates
func upstreamOpts() helpers.PodResourcesOptions {
	g := utilfeature.DefaultFeatureGate
	return helpers.PodResourcesOptions{
		UseStatusResources: g.Enabled(features.InPlacePodVerticalScaling),
		InPlacePodLevelResourcesVerticalScalingEnabled: g.Enabled(features.InPlacePodLevelResourcesVerticalScaling),
		SkipPodLevelResources:                          !g.Enabled(features.PodLevelResources),
		UseDRANodeAllocatableResourceClaimStatus:       g.Enabled(features.DRANodeAllocatableResources),
	}
}

// the options of noderesources.computePodResourceRequest (k8s.io/kubernetes v1.36.1
// pkg/scheduler/framework/plugins/noderesources/fit.go 321-327; not exported): what the fit plugin
// and, through AdmissionCheck, the kubelet use for the pod being placed - status options off
func incomingOpts() helpers.PodResourcesOptions {
	g := utilfeature.DefaultFeatureGate
	return helpers.PodResourcesOptions{
		SkipPodLevelResources:                    !g.Enabled(features.PodLevelResources),
		UseDRANodeAllocatableResourceClaimStatus: g.Enabled(features.DRANodeAllocatableResources),
	}
}

// ---------- encoders ----------

func tag(i int64) []int64 { return []int64{-100 - i} }

func toInt(x float64) int64 {
	if x != math.Trunc(x) || math.Abs(x) > 1<<53 {
		panic(fmt.Sprintf("amount %v is not an exact integer", x))
	}
	return int64(x)
}

func encRes(r *api.Resource) []int64 {
	out := []int64{toInt(r.MilliCPU), toInt(r.Memory)}
	if r.ScalarResources == nil {
		return append(out, 0, 0)
	}
	keys := []int64{}
	for n := range r.ScalarResources {
		keys = append(keys, idOf[n])
	}
	sort.Slice(keys, func(i, j int) bool { return keys[i] < keys[j] })
	out = append(out, 1, int64(len(keys)))
	for _, k := range keys {
		out = append(out, k, toInt(r.ScalarResources[nameOf[k]]))
	}
	return out
}

var e9 = big.NewInt(1000000000)

// exact amount of a quantity in nano units, as (whole units, nano remainder)
func nanoOf(q resource.Quantity) (int64, int64) {
	c := q.DeepCopy()
	d := c.AsDec()
	n := new(big.Int).Set(d.UnscaledBig())
	s := int64(d.Scale()) // value = unscaled * 10^-s
	if s > 9 {
		panic("quantity finer than nano")
	}
	n.Mul(n, new(big.Int).Exp(big.NewInt(10), big.NewInt(9-s), nil))
	hi, lo := new(big.Int), new(big.Int)
	hi.DivMod(n, e9, lo)
	if !hi.IsInt64() {
		panic("quantity out of range")
	}
	return hi.Int64(), lo.Int64()
}

func encList(l v1.ResourceList) []int64 {
	keys := []int64{}
	for n := range l {
		keys = append(keys, idOf[n])
	}
	sort.Slice(keys, func(i, j int) bool { return keys[i] < keys[j] })
	out := []int64{int64(len(keys))}
	for _, k := range keys {
		hi, lo := nanoOf(l[nameOf[k]])
		out = append(out, k, hi, lo)
	}
	return out
}

// ---------- running the real code ----------

type results struct {
	vc, noinit, rq, irq *api.Resource
	bestEffort          bool
	crq, cirq           *api.Resource // SchedulerCache.NewTaskInfo
	cBestEffort         bool
	kubeScalars         []int64 // (name, Value) pairs of kube-scheduler's EphemeralStorage / ScalarResources
	up                  v1.ResourceList
	upIncoming          v1.ResourceList // the request upstream computes for the pod being placed
	upRes               *api.Resource
	kubeMilliCPU        int64 // kube-scheduler's own PodInfo.CalculateResource
	kubeMemory          int64
}

func compute(c caseT) results {
	setGates(c)
	pod := buildPod(c.pod, c.meta)
	if len(c.vols) > maxVolumes {
		panic("too many volumes")
	}
	pod.Spec.Volumes = buildVolumes(c.vols)
	before := pod.DeepCopy()
	var r results
	r.vc = api.GetPodResourceRequest(pod)
	r.noinit = api.GetPodResourceWithoutInitContainers(pod)
	ti := api.NewTaskInfo(pod)
	r.rq, r.irq, r.bestEffort = ti.Resreq, ti.InitResreq, ti.BestEffort
	// the TaskInfo the scheduler cache builds (addPod): CSI volumes counted on top
	// On a lookup error (kinds 50 / 51) it returns the api-level TaskInfo untouched, and addPod still
	// adds that task to the ledgers when the error is a pending PVC.
	cti, cerr := theCache.NewTaskInfo(pod)
	wantErr := false
	for _, k := range c.vols {
		wantErr = wantErr || k == 50 || k == 51
	}
	if (cerr != nil) != wantErr || cti == nil {
		panic(fmt.Sprintf("SchedulerCache.NewTaskInfo: error %v, expected an error: %t", cerr, wantErr))
	}
	r.crq, r.cirq, r.cBestEffort = cti.Resreq, cti.InitResreq, cti.BestEffort
	opts := upstreamOpts()
	r.up = helpers.PodRequests(pod, opts)
	r.upRes = api.NewResource(r.up)
	r.upIncoming = helpers.PodRequests(pod, incomingOpts())
	if !apiequality.Semantic.DeepEqual(before, pod) {
		panic("the pod was modified by a request computation")
	}
	if r.vc.MaxTaskNum != 0 || r.rq.MaxTaskNum != 0 || r.irq.MaxTaskNum != 0 {
		panic("MaxTaskNum leaked into a pod request")
	}
	// the oracle's options must be the ones kube-scheduler itself uses: its
	// PodInfo.CalculateResource must see the same total
	pi, err := k8sframework.NewPodInfo(pod)
	if err != nil {
		panic("NewPodInfo: " + err.Error())
	}
	kr := pi.CalculateResource().Resource
	var mine k8sframework.Resource
	mine.Add(r.up)
	if kr.GetMilliCPU() != mine.MilliCPU || kr.GetMemory() != mine.Memory || kr.GetEphemeralStorage() != mine.EphemeralStorage ||
		fmt.Sprint(kr.GetScalarResources()) != fmt.Sprint(mine.ScalarResources) {
		panic("harness oracle: PodRequests options differ from kube-scheduler's CalculateResource")
	}
	r.kubeMilliCPU, r.kubeMemory = kr.GetMilliCPU(), kr.GetMemory()
	// kube keeps ephemeral-storage and scalar resources as Value(); volcano as MilliValue(): comparable
	// (x 1000) for the names volcano tracks whose amounts in this pod are all whole units
	whole := c.pod.wholeNames()
	kube := map[int64]int64{4: kr.GetEphemeralStorage()}
	for n, v := range kr.GetScalarResources() {
		kube[idOf[n]] = v
	}
	ids := []int64{}
	for id := range kube {
		ids = append(ids, id)
	}
	sort.Slice(ids, func(i, j int) bool { return ids[i] < ids[j] })
	for _, id := range ids {
		if whole[id] && (id == 4 || trackedID(id)) {
			r.kubeScalars = append(r.kubeScalars, id, kube[id])
		}
	}
	return r
}

// ---------- events through the real cache handlers ----------

type eventObs struct {
	up              *api.Resource // NewResource(PodRequests(pod object of this event))
	rq, irq, used   *api.Resource
}

func bigNode() *v1.Node {
	al := v1.ResourceList{v1.ResourceCPU: resource.MustParse("100000"), v1.ResourceMemory: resource.MustParse("1000Ti"),
		v1.ResourcePods: resource.MustParse("1000"), v1.ResourceEphemeralStorage: resource.MustParse("1000Ti")}
	for _, ni := range nameTable {
		al[ni.name] = resource.MustParse("1000000000")
	}
	n := &v1.Node{}
	n.Name = "n1"
	n.Status.Allocatable = al
	n.Status.Capacity = al.DeepCopy()
	return n
}

// delivers the versions of one pod to a fresh mock cache: AddPod, then UpdatePod(previous, current)
func runHistory(h historyT) []eventObs {
	setGates(caseT{ippvs: h.ippvs, plr: h.plr, ippl: h.ippl, dra: h.dra})
	sc := schedcache.NewDefaultMockSchedulerCache("volcano")
	if err := sc.AddOrUpdateNode(bigNode()); err != nil {
		panic(err)
	}
	var prev *v1.Pod
	var out []eventObs
	for i, v := range h.vs {
		if v.meta.phase != 1 && v.meta.phase != 2 || !v.meta.node || v.meta.deleting || len(v.vols) != 0 {
			panic("event family: the pod must be Pending or Running, bound, not deleting, without claim volumes")
		}
		pod := buildPod(v.pod, v.meta)
		pod.Annotations = map[string]string{"scheduling.k8s.io/group-name": "pg1"}
		pod.ResourceVersion = fmt.Sprint(10 + i)
		want := api.NewResource(helpers.PodRequests(pod, upstreamOpts()))
		if prev == nil {
			sc.AddPod(pod.DeepCopy())
		} else {
			sc.UpdatePod(prev.DeepCopy(), pod.DeepCopy())
		}
		prev = pod
		sc.Mutex.Lock()
		var task *api.TaskInfo
		for _, job := range sc.Jobs {
			for _, ti := range job.Tasks {
				if ti.Name == pod.Name {
					task = ti
				}
			}
		}
		node := sc.Nodes["n1"]
		if task == nil || node == nil || len(node.Tasks) != 1 {
			sc.Mutex.Unlock()
			panic("event family: the pod's task is not in the cache / not on its node after the event")
		}
		out = append(out, eventObs{up: want, rq: task.Resreq.Clone(), irq: task.InitResreq.Clone(), used: node.Used.Clone()})
		sc.Mutex.Unlock()
	}
	return out
}

func run(sel int, in []int64) []int64 {
	if sel == 3 {
		var out []int64
		for _, e := range runHistory(decodeHistory(in)) {
			for _, x := range [][]int64{tag(20), encRes(e.rq), encRes(e.irq), encRes(e.used)} {
				out = append(out, x...)
			}
		}
		return out
	}
	if sel != 1 && sel != 2 {
		panic("unknown selector")
	}
	r := compute(decode(in))
	var out []int64
	for _, x := range [][]int64{tag(1), encRes(r.vc), tag(2), encRes(r.noinit), tag(3), encList(r.up), tag(4), encRes(r.upRes),
		tag(5), encRes(r.rq), tag(6), encRes(r.irq), tag(7), {vh.B(r.bestEffort)},
		tag(8), encRes(r.crq), tag(9), encRes(r.cirq), tag(10), {vh.B(r.cBestEffort)}, tag(11), encList(r.upIncoming)} {
		out = append(out, x...)
	}
	if sel == 2 && sameRequest(r.upRes, r.vc) && sameRequest(api.NewResource(r.upIncoming), r.irq) {
		panic("refutation witness no longer separates volcano from upstream on the real code")
	}
	return out
}

// ---------- classification of a case (which statement applies) ----------

func unitOf(k int64) int64 { // exponent of the coarsest grid the conversion is exact on
	if k == 1 || k == 3 {
		return 0 // Value(): whole units
	}
	return 3 // MilliValue()
}

func (p podT) lists() []rlT {
	out := []rlT{p.oh, p.pl, p.pst, p.pal}
	for _, c := range p.cs {
		out = append(out, c.req)
	}
	for _, c := range p.is {
		out = append(out, c.req)
	}
	for _, s := range append(append([]statT{}, p.cst...), p.ist...) {
		out = append(out, s.res, s.alloc)
	}
	out = append(out, p.claims...)
	return out
}

func trackedID(id int64) bool {
	for _, ni := range nameTable {
		if ni.id == id {
			return ni.tracked
		}
	}
	return false
}

// names all of whose amounts anywhere in the pod are whole units (so that
// kube's Value() and volcano's MilliValue() differ by exactly the factor 1000)
func (p podT) wholeNames() map[int64]bool {
	out := map[int64]bool{}
	for id := range nameOf {
		out[id] = true
	}
	for _, l := range p.lists() {
		for _, x := range l {
			if x.q.v < 0 || (x.q.e > 0 && x.q.v%pow10(x.q.e) != 0) {
				out[x.k] = false
			}
		}
	}
	return out
}

func (p podT) offGrid() bool {
	for _, l := range p.lists() {
		for _, x := range l {
			if x.q.e > unitOf(x.k) && x.q.v%pow10(x.q.e-unitOf(x.k)) != 0 {
				return true
			}
		}
	}
	return false
}

func pow10(e int64) int64 {
	r := int64(1)
	for i := int64(0); i < e; i++ {
		r *= 10
	}
	return r
}

func (p podT) negative() bool {
	for _, l := range p.lists() {
		for _, x := range l {
			if x.q.v < 0 {
				return true
			}
		}
	}
	return false
}

// hypothesis names_separated of the theorem: no regular container is named like
// an init container status and no init container like a container status
func (p podT) namesCollide() bool {
	ist, cst := map[int64]bool{}, map[int64]bool{}
	for _, s := range p.ist {
		ist[s.name] = true
	}
	for _, s := range p.cst {
		cst[s.name] = true
	}
	for _, c := range p.cs {
		if ist[c.name] {
			return true
		}
	}
	for _, c := range p.is {
		if cst[c.name] {
			return true
		}
	}
	return false
}

// hypothesis pl_tracked: a pod-level name other than cpu/memory is one NewResource keeps
func (p podT) untrackedPodLevel() bool {
	for _, x := range p.pl {
		for _, ni := range nameTable {
			if ni.id == x.k && ni.plsup && !ni.tracked {
				return true
			}
		}
	}
	return false
}

func sameRequest(up, vc *api.Resource) bool {
	u := up.Clone()
	u.AddScalar(v1.ResourcePods, 1)
	return vc.ScalarResources != nil && fmt.Sprint(encRes(u)) == fmt.Sprint(encRes(vc))
}

func laws(sel int, in, got []int64, law func(lsel int, lin []int64, sig string)) {
	if sel == 2 {
		return // refutation witnesses: outside the theorem by construction
	}
	if sel == 3 {
		h := decodeHistory(in)
		inside := true
		for _, v := range h.vs {
			if v.pod.negative() || v.pod.namesCollide() || v.pod.untrackedPodLevel() || v.pod.offGrid() {
				inside = false
			}
		}
		// the decision to apply law 107 must be the extracted "every version satisfies pod_ok" (law 108), so
		// that a wrong or over-broad guard here is a visible failure and not a silent skip
		law(108, append([]int64{vh.B(inside)}, in...), "")
		if !inside {
			return
		}
		// after EVERY event: cached task == upstream's request of the pod object of that event, node Used too
		for _, e := range runHistory(h) {
			var o []int64
			for _, x := range [][]int64{encRes(e.up), encRes(e.rq), encRes(e.irq), encRes(e.used)} {
				o = append(o, x...)
			}
			law(107, o, "")
		}
		return
	}
	c := decode(in)
	p := c.pod
	cat := func(xs ...[]int64) (o []int64) {
		for _, x := range xs {
			o = append(o, x...)
		}
		return
	}
	outside := p.negative() || p.namesCollide() || p.untrackedPodLevel()
	inside := !outside && !p.offGrid()
	// the classification below decides which law a case gets: it must be the extracted decision of
	// the theorem's hypothesis pod_ok itself (an over-broad "outside" would silently skip the law)
	law(105, cat([]int64{vh.B(inside)}, in), "")
	if outside {
		return // outside the stated assumptions: correspondence only
	}
	r := compute(c)
	if p.offGrid() {
		// finer than milli-cpu / whole bytes: informative only
		law(102, cat(encRes(r.upRes), encRes(r.vc), encRes(r.rq), encRes(r.irq)), "")
		return
	}
	// what api.NewTaskInfo stores for this pod in its phase: Resreq == InitResreq == upstream + pods, BestEffort == empty
	law(101, cat(encRes(r.upRes), encRes(r.vc), encRes(r.rq), encRes(r.irq), []int64{vh.B(r.bestEffort)}), "")
	// the same in kube-scheduler's units, not going through volcano's NewResource
	law(103, cat([]int64{r.kubeMilliCPU, r.kubeMemory, int64(len(r.kubeScalars) / 2)}, r.kubeScalars, encRes(r.vc), encRes(r.rq)), "")
	// what the scheduler cache charges (SchedulerCache.NewTaskInfo): + the pod's CSI volumes per attach-limit name
	law(104, cat(encRes(r.upRes), encRes(r.crq), encRes(r.cirq), []int64{vh.B(r.cBestEffort), int64(len(c.vols))}, c.vols), "")
	// the pod being placed: InitResreq vs upstream's incoming-pod request (fit.go options, statuses off); the
	// extracted model applies it only to pods that carry no resize information (see C15_incoming_request_*);
	// "inside pod_ok" is this function's classification, itself checked against the extracted pod_ok by law 105
	law(106, cat(in, encRes(api.NewResource(r.upIncoming)), encRes(r.cirq)), "")
}

// ---------- generators ----------

const Mi = 1 << 20

type genCfg struct {
	status    bool // container statuses / resize conditions
	podLevel  int  // percent of pods with spec.resources
	podStatus bool // status.resources / status.allocatedResources (pod-level resize)
	claims    bool
	fine      bool // finer-than-grid amounts
	negative  bool
	collide   bool
	untracked bool // pod-level name NewResource ignores
	podsName  bool // "pods" as a requested resource
}

func genQty(r *vh.Rng, k int64, g genCfg) qty {
	if g.fine && r.Chance(1, 2) {
		switch k {
		case 1, 3:
			return qty{int64(r.Range(1, 4000)), int64(vh.Pick(r, []int{1, 3, 3, 6}))}
		default:
			return qty{int64(r.Range(1, 3000)), int64(vh.Pick(r, []int{4, 6, 6, 6, 9}))}
		}
	}
	var q qty
	switch k {
	case 2: // cpu
		q = vh.Pick(r, []qty{{0, 0}, {1, 3}, {100, 3}, {250, 3}, {500, 3}, {1, 0}, {2, 0}, {4, 0}, {1500, 3}, {int64(r.Range(1, 4000)), 3}, {int64(r.Range(1, 64)), 0}})
	case 3: // memory
		q = vh.Pick(r, []qty{{0, 0}, {1, 0}, {128 * Mi, 0}, {1024 * Mi, 0}, {int64(r.Range(1, 64)) * 64 * Mi, 0}, {int64(r.Range(1, 100000)), 0}, {64 * 1024 * Mi, 0}})
	case 4: // ephemeral-storage
		q = vh.Pick(r, []qty{{0, 0}, {1024 * Mi, 0}, {int64(r.Range(1, 1000)), 0}, {int64(r.Range(1, 64)) * Mi, 0}})
	case 7, 8, 12: // hugepages
		q = qty{int64(r.Range(0, 16)) * 2 * Mi, 0}
	case 1:
		q = qty{int64(r.Range(0, 3)), 0}
	default:
		q = vh.Pick(r, []qty{{0, 0}, {1, 0}, {2, 0}, {int64(r.Range(1, 8)), 0}, {int64(r.Range(1, 8000)), 3}})
	}
	if g.negative && r.Chance(1, 4) {
		q.v = -q.v
	}
	return q
}

func genRl(r *vh.Rng, g genCfg, pool []int64, pPresent int) rlT {
	out := rlT{}
	for _, k := range pool {
		if r.Intn(100) < pPresent {
			out = append(out, kv{k, genQty(r, k, g)})
		}
	}
	return out
}

// biased towards an existing list: the same names with equal / slightly
// different amounts, so that max() is not always decided the same way
func nearRl(r *vh.Rng, g genCfg, base rlT, pool []int64) rlT {
	out := rlT{}
	seen := map[int64]bool{}
	for _, x := range base {
		if r.Chance(1, 5) {
			continue
		}
		q := x.q
		switch r.Intn(4) {
		case 0:
			q = genQty(r, x.k, g)
		case 1:
			q.v += int64(r.Range(-1, 1)) * vh.Pick(r, []int64{1, 2, 100})
			if q.v < 0 && !g.negative {
				q.v = 0
			}
		}
		out = append(out, kv{x.k, q})
		seen[x.k] = true
	}
	for _, k := range pool {
		if !seen[k] && r.Chance(1, 6) {
			out = append(out, kv{k, genQty(r, k, g)})
		}
	}
	return out
}

func genPod(r *vh.Rng, g genCfg) podT {
	var p podT
	pool := []int64{2, 3}
	extra := []int64{4, 5, 6, 7, 8, 9, 10, 11, 13, 14, 15}
	for _, k := range extra {
		if r.Chance(1, 4) {
			pool = append(pool, k)
		}
	}
	if g.podsName && r.Chance(1, 2) {
		pool = append(pool, 1)
	}
	pres := vh.Pick(r, []int{30, 60, 60, 90, 100})
	nc := vh.Pick(r, []int{0, 1, 1, 2, 2, 3, 4})
	ni := vh.Pick(r, []int{0, 0, 1, 2, 3, 4, 5, 6})
	sidecarPct := vh.Pick(r, []int{0, 30, 50, 50, 80, 100})
	name := int64(1)
	for i := 0; i < nc; i++ {
		p.cs = append(p.cs, contT{name: name, sidecar: r.Chance(1, 10), req: genRl(r, g, pool, pres)})
		name++
	}
	for i := 0; i < ni; i++ {
		p.is = append(p.is, contT{name: name, sidecar: r.Intn(100) < sidecarPct, req: genRl(r, g, pool, pres)})
		name++
	}
	if r.Chance(1, 12) && len(p.is) >= 2 {
		// duplicate an init container name (invalid, but both sides key statuses by name)
		p.is[len(p.is)-1].name = p.is[0].name
	}
	if r.Chance(1, 3) {
		p.oh = genRl(r, g, pool, 50)
	}
	if r.Intn(100) < g.podLevel {
		p.hasPl = true
		plPool := []int64{2, 3, 7, 8}
		if r.Chance(1, 4) {
			plPool = append(plPool, 5, 4, 1) // names the pod-level rule must ignore
		}
		if g.untracked {
			plPool = append(plPool, 12)
		}
		p.pl = genRl(r, g, plPool, vh.Pick(r, []int{0, 40, 70, 100}))
		if g.untracked && r.Chance(2, 3) {
			p.pl = append(p.pl, kv{12, genQty(r, 12, g)})
			sort.Slice(p.pl, func(i, j int) bool { return p.pl[i].k < p.pl[j].k })
			p.pl = dedup(p.pl)
		}
	}
	if g.status {
		mk := func(c contT) statT {
			s := statT{name: c.name, hasRes: !r.Chance(1, 6)}
			if s.hasRes {
				s.res = nearRl(r, g, c.req, pool)
			}
			if r.Chance(2, 3) {
				s.alloc = nearRl(r, g, c.req, pool)
			}
			return s
		}
		for _, c := range p.cs {
			if r.Chance(4, 5) {
				p.cst = append(p.cst, mk(c))
			}
		}
		for _, c := range p.is {
			if r.Chance(4, 5) {
				p.ist = append(p.ist, mk(c))
			}
		}
		if r.Chance(1, 8) && len(p.cst) > 0 {
			p.cst = append(p.cst, mk(p.cs[0])) // a second status for the same name: the later one wins
		}
		if r.Chance(1, 8) {
			p.cst = append(p.cst, statT{name: 99, hasRes: true, res: genRl(r, g, pool, 50)}) // status of no container
		}
		switch r.Intn(6) {
		case 0:
			p.conds = [][2]bool{{true, true}}
		case 1:
			p.conds = [][2]bool{{false, false}, {true, true}}
		case 2:
			p.conds = [][2]bool{{true, false}}
		case 3:
			p.conds = [][2]bool{{false, true}, {true, false}, {true, true}}
		case 4:
			p.conds = [][2]bool{{false, false}}
		}
	}
	if g.collide {
		// statuses filed under the other list's names
		if len(p.cs) > 0 && r.Chance(2, 3) {
			c := p.cs[r.Intn(len(p.cs))]
			p.ist = append(p.ist, statT{name: c.name, hasRes: true, res: genRl(r, g, pool, 80), alloc: genRl(r, g, pool, 30)})
		}
		if len(p.is) > 0 {
			c := p.is[r.Intn(len(p.is))]
			p.cst = append(p.cst, statT{name: c.name, hasRes: true, res: genRl(r, g, pool, 80), alloc: genRl(r, g, pool, 30)})
		}
	}
	if g.podStatus {
		p.hasPst = !r.Chance(1, 6)
		if p.hasPst {
			p.pst = nearRl(r, g, p.pl, []int64{2, 3, 7})
		}
		if r.Chance(1, 2) {
			p.pal = nearRl(r, g, p.pl, []int64{2, 3, 7})
		}
		if len(p.conds) == 0 && r.Chance(1, 3) {
			p.conds = [][2]bool{{true, r.Chance(1, 2)}}
		}
	}
	if g.claims {
		n := r.Range(0, 3)
		for i := 0; i < n; i++ {
			p.claims = append(p.claims, genRl(r, g, []int64{2, 3, 4, 7}, 50))
		}
	}
	return p
}

func cloneRl(l rlT) rlT { return append(rlT{}, l...) }

func clonePod(p podT) podT {
	q := p
	q.cs, q.is = nil, nil
	for _, c := range p.cs {
		c.req = cloneRl(c.req)
		q.cs = append(q.cs, c)
	}
	for _, c := range p.is {
		c.req = cloneRl(c.req)
		q.is = append(q.is, c)
	}
	cp := func(l []statT) (o []statT) {
		for _, x := range l {
			x.res, x.alloc = cloneRl(x.res), cloneRl(x.alloc)
			o = append(o, x)
		}
		return
	}
	q.cst, q.ist = cp(p.cst), cp(p.ist)
	q.oh, q.pl, q.pst, q.pal = cloneRl(p.oh), cloneRl(p.pl), cloneRl(p.pst), cloneRl(p.pal)
	q.conds = append([][2]bool{}, p.conds...)
	q.claims = nil
	for _, c := range p.claims {
		q.claims = append(q.claims, cloneRl(c))
	}
	return q
}

func namesIn(p podT) []int64 {
	seen := map[int64]bool{2: true, 3: true}
	for _, l := range p.lists() {
		for _, x := range l {
			seen[x.k] = true
		}
	}
	out := []int64{}
	for k := range seen {
		out = append(out, k)
	}
	sort.Slice(out, func(i, j int) bool { return out[i] < out[j] })
	return out
}

// a new STATUS for the same spec: container / init-container statuses near the spec, resize conditions,
// pod-level status resources
func fillStatus(r *vh.Rng, g genCfg, p *podT) {
	pool := namesIn(*p)
	p.cst, p.ist, p.conds = nil, nil, nil
	mk := func(c contT) statT {
		s := statT{name: c.name, hasRes: !r.Chance(1, 6)}
		if s.hasRes {
			s.res = nearRl(r, g, c.req, pool)
		}
		if r.Chance(2, 3) {
			s.alloc = nearRl(r, g, c.req, pool)
		}
		return s
	}
	for _, c := range p.cs {
		if r.Chance(5, 6) {
			p.cst = append(p.cst, mk(c))
		}
	}
	for _, c := range p.is {
		if r.Chance(5, 6) {
			p.ist = append(p.ist, mk(c))
		}
	}
	switch r.Intn(5) {
	case 0:
		p.conds = [][2]bool{{true, true}}
	case 1:
		p.conds = [][2]bool{{true, false}}
	case 2:
		p.conds = [][2]bool{{false, false}, {true, true}}
	}
	if p.hasPl && g.podStatus {
		p.hasPst = !r.Chance(1, 4)
		p.pst, p.pal = nil, nil
		if p.hasPst {
			p.pst = nearRl(r, g, p.pl, []int64{2, 3, 7})
		}
		if r.Chance(1, 2) {
			p.pal = nearRl(r, g, p.pl, []int64{2, 3, 7})
		}
	}
}

// a resized SPEC: requests of some containers move (what an in-place resize patches)
func mutateSpec(r *vh.Rng, g genCfg, p *podT) {
	pool := namesIn(*p)
	for i := range p.cs {
		if r.Chance(2, 3) {
			p.cs[i].req = nearRl(r, g, p.cs[i].req, pool)
		}
	}
	for i := range p.is {
		if p.is[i].sidecar && r.Chance(1, 2) {
			p.is[i].req = nearRl(r, g, p.is[i].req, pool)
		}
	}
	if p.hasPl && r.Chance(1, 2) {
		p.pl = nearRl(r, g, p.pl, []int64{2, 3, 7})
	}
}

func dedup(l rlT) rlT {
	out := rlT{}
	for i, x := range l {
		if i > 0 && l[i-1].k == x.k {
			continue
		}
		out = append(out, x)
	}
	return out
}

func genGates(r *vh.Rng) (plr, ippl, dra bool) {
	plr = !r.Chance(1, 4)
	ippl = plr && !r.Chance(1, 3) // the gate depends on PodLevelResources
	dra = r.Chance(1, 4)
	return
}

func nonTrivial(p podT) bool {
	nz := func(l rlT) bool {
		for _, x := range l {
			if x.q.v != 0 {
				return true
			}
		}
		return false
	}
	running := false
	for _, c := range p.cs {
		running = running || nz(c.req)
	}
	inits := false
	for _, c := range p.is {
		inits = inits || nz(c.req)
		if c.sidecar {
			running = running || nz(c.req)
		}
	}
	return running && inits
}

func describe(c caseT) any {
	p := c.pod
	var shape strings.Builder
	for _, x := range p.is {
		if x.sidecar {
			shape.WriteByte('S')
		} else {
			shape.WriteByte('I')
		}
	}
	return map[string]any{
		"gates":      fmt.Sprintf("PodLevelResources=%t InPlacePodLevelResourcesVerticalScaling=%t DRANodeAllocatableResources=%t", c.plr, c.ippl, c.dra),
		"containers": len(p.cs), "inits": shape.String(), "statuses": len(p.cst) + len(p.ist),
		"overhead": len(p.oh) > 0, "podLevel": p.hasPl, "podStatusResources": p.hasPst, "claims": len(p.claims),
		"conditions": fmt.Sprint(p.conds),
		"phase":      phaseName(c.meta.phase), "nodeName": c.meta.node, "deleting": c.meta.deleting, "volumes": fmt.Sprint(c.vols),
	}
}

func phaseName(ph int64) string {
	if ph == 0 {
		return "nophase"
	}
	return string(phases[ph])
}

// lifecycle position: mostly Pending (unscheduled / bound) and Running, the
// terminal and unknown phases less often; a Running pod is normally bound but
// the odd combinations (Running without nodeName, Succeeded being deleted...) occur too
// most pods have no claim volumes; the others mix every way a volume resolves (or does not) to a CSI driver
func genVols(r *vh.Rng) []int64 {
	if r.Chance(3, 5) {
		return nil
	}
	n := r.Range(1, maxVolumes)
	out := []int64{}
	for i := 0; i < n; i++ {
		out = append(out, vh.Pick(r, []int64{0, -1, 30, 1, 1, 2, 11, 12, 21, 22, 41, 42, 61, 62, 70, 71}))
	}
	if r.Chance(1, 8) {
		out[r.Intn(len(out))] = vh.Pick(r, []int64{50, 50, 51}) // a lookup error: nothing is counted at all
	}
	return out
}

func genMeta(r *vh.Rng) metaT {
	m := metaT{phase: vh.Pick(r, []int64{1, 1, 1, 2, 2, 2, 2, 3, 4, 5, 0})}
	switch m.phase {
	case 0, 1:
		m.node = r.Chance(1, 2)
	default:
		m.node = !r.Chance(1, 8)
	}
	m.deleting = r.Chance(1, 5)
	return m
}

func gen(rng *vh.Rng, n int, emit func(id string, sel int, in []int64, kind string, nontrivial bool, desc any)) {
	one := func(id, kind string, c caseT) {
		emit(id, 1, c.tokens(), kind, nonTrivial(c.pod), describe(c))
	}
	// deterministic small pods first: every interleaving of up to 4 init
	// containers (sidecar or not) over two amounts, with one regular container
	k := 0
	amounts := []qty{{1, 0}, {3, 0}}
	for ni := 0; ni <= 4; ni++ {
		for mask := 0; mask < 1<<uint(ni); mask++ {
			for am := 0; am < 1<<uint(ni); am++ {
				var p podT
				p.cs = []contT{{name: 1, req: rlT{{2, qty{2, 0}}, {3, qty{64 * Mi, 0}}, {5, qty{1, 0}}}}}
				for i := 0; i < ni; i++ {
					a := amounts[(am>>uint(i))&1]
					p.is = append(p.is, contT{name: int64(2 + i), sidecar: mask>>uint(i)&1 == 1,
						req: rlT{{2, a}, {3, qty{a.v * 48 * Mi, 0}}, {5, qty{a.v - 1, 0}}}})
				}
				// every lifecycle position NewTaskInfo can see the pod in: all six phases; bound
				// unless "" / Pending-unscheduled; a deletion timestamp on every third pod
				for ph := int64(0); ph < int64(len(phases)); ph++ {
					m := metaT{phase: ph, node: ph >= 2 || (ph == 1 && k%2 == 0), deleting: (k+int(ph))%3 == 0}
					one(fmt.Sprintf("interleave-%d-%s", k, phaseName(ph)), "valid/interleavings", caseT{ippvs: true, plr: true, ippl: true, meta: m, vols: [][]int64{nil, nil, {1}, {1, 41, 0, 2, 21, 1}}[(k+int(ph))%4], pod: p})
				}
				k++
			}
		}
	}
	// the refutation witnesses of Lemmas.v, run on the real code (selector 2 asserts that they still separate)
	u := int64(1)
	wit := map[string]podT{
		// 2 x memory 500m: fractional bytes, admitted by the API server
		"fractional-memory": {cs: []contT{{name: 1, req: rlT{{3, qty{500, 3}}}}, {name: 2, req: rlT{{3, qty{500, 3}}}}}},
		// an init-container status filed under the regular container's name
		"status-name-collision": {cs: []contT{{name: 1, req: rlT{{2, qty{u, 0}}}}}, ist: []statT{{name: 1, hasRes: true, res: rlT{{2, qty{5, 0}}}}}},
		// pod-level hugepages size that is in IgnoredDevicesList
		"untracked-pod-level": {cs: []contT{{name: 1, req: rlT{{2, qty{u, 0}}}}}, hasPl: true, pl: rlT{{12, qty{2, 0}}}},
		// container status above the spec: InitResreq vs the request of the pod being placed
		"incoming-with-status": {cs: []contT{{name: 1, req: rlT{{2, qty{u, 0}}}}}, cst: []statT{{name: 1, hasRes: true, res: rlT{{2, qty{2, 0}}}}}},
	}
	for _, name := range []string{"fractional-memory", "status-name-collision", "untracked-pod-level", "incoming-with-status"} {
		c := caseT{ippvs: true, plr: true, ippl: true, meta: metaT{phase: 1}, pod: wit[name]}
		emit("witness-"+name, 2, c.tokens(), "witness/"+name, false, describe(c))
	}
	// event family: the demo of an admitted resize first (spec 6 cpu; infeasible with status/allocated 1 cpu,
	// then a status-only update: condition gone, allocated 6 cpu), then random histories
	{
		six, one := qty{6, 0}, qty{1, 0}
		spec := []contT{{name: 1, req: rlT{{2, six}, {3, qty{1024 * Mi, 0}}}}}
		e1 := podT{cs: spec, conds: [][2]bool{{true, true}}, cst: []statT{{name: 1, hasRes: true, res: rlT{{2, one}, {3, qty{1024 * Mi, 0}}}, alloc: rlT{{2, one}, {3, qty{1024 * Mi, 0}}}}}}
		e2 := podT{cs: spec, cst: []statT{{name: 1, hasRes: true, res: rlT{{2, one}, {3, qty{1024 * Mi, 0}}}, alloc: rlT{{2, six}, {3, qty{1024 * Mi, 0}}}}}}
		run2 := metaT{phase: 2, node: true}
		h := historyT{ippvs: true, plr: true, ippl: true, vs: []versionT{{meta: run2, pod: e1}, {meta: run2, pod: e2}, {meta: run2, pod: e1}}}
		emit("events-demo-resize-admitted", 3, h.tokens(), "events/demo", true, map[string]any{"events": "add(infeasible) update(status-only: admitted) update(status-only: infeasible again)"})
	}
	{
		r := rng.Fork()
		for i := 0; i < n/4+1; i++ {
			h := historyT{ippvs: true}
			h.plr, h.ippl, h.dra = genGates(r)
			g := genCfg{status: true, podLevel: 30, podStatus: r.Chance(1, 3), claims: r.Chance(1, 6)}
			cur := genPod(r, g)
			m := metaT{phase: vh.Pick(r, []int64{2, 2, 2, 1}), node: true}
			h.vs = append(h.vs, versionT{meta: m, pod: cur})
			steps := ""
			nEv := r.Range(1, 4)
			for e := 0; e < nEv; e++ {
				next := clonePod(cur)
				switch r.Intn(4) {
				case 0, 1: // status only: the in-place resize state lives in the status
					fillStatus(r, g, &next)
					steps += "S"
				case 2: // spec only
					mutateSpec(r, g, &next)
					steps += "P"
				default:
					mutateSpec(r, g, &next)
					fillStatus(r, g, &next)
					steps += "M"
				}
				if m.phase == 1 && r.Chance(1, 2) {
					m.phase = 2
				}
				h.vs = append(h.vs, versionT{meta: m, pod: next})
				cur = next
			}
			nt := false
			for _, v := range h.vs {
				nt = nt || nonTrivial(v.pod)
			}
			emit(fmt.Sprintf("events-%d", i), 3, h.tokens(), "events/add-update", nt, map[string]any{"events": "add " + steps, "gates": fmt.Sprintf("plr=%t ippl=%t dra=%t", h.plr, h.ippl, h.dra)})
		}
	}
	stream := func(name string, count int, g genCfg, fixGates func(c *caseT)) {
		r := rng.Fork()
		for i := 0; i < count; i++ {
			c := caseT{ippvs: true}
			c.plr, c.ippl, c.dra = genGates(r)
			c.pod = genPod(r, g)
			c.meta = genMeta(r)
			c.vols = genVols(r)
			if fixGates != nil {
				fixGates(&c)
			}
			one(fmt.Sprintf("%s-%d", strings.ReplaceAll(name, "/", "-"), i), name, c)
		}
	}
	stream("valid/spec-only", n, genCfg{podLevel: 25, podsName: true}, nil)
	stream("valid/resize-status", n, genCfg{status: true, podLevel: 25}, nil)
	stream("valid/pod-level", n/2+1, genCfg{status: true, podLevel: 100}, func(c *caseT) { c.plr = true })
	// the two divergences repaired by the C15 fix: commits (kept as regression streams)
	stream("valid/pod-level-resize-status", n/4+1, genCfg{podLevel: 100, podStatus: true, status: true}, func(c *caseT) { c.plr = true })
	stream("valid/dra-claims", n/8+1, genCfg{podLevel: 20, claims: true}, func(c *caseT) { c.dra = true })
	// outside the stated assumptions: both models are still tied to their code
	stream("informative/finer-than-grid", n/4+1, genCfg{status: true, podLevel: 25, fine: true}, nil)
	stream("malformed/negative", n/8+1, genCfg{status: true, podLevel: 25, negative: true}, nil)
	stream("malformed/status-name-collision", n/8+1, genCfg{status: true, collide: true}, nil)
	stream("malformed/untracked-pod-level-name", n/8+1, genCfg{podLevel: 100, untracked: true}, func(c *caseT) { c.plr = true })
}

func main() {
	vh.Harness{Run: run, Laws: laws, Gen: gen}.Main()
}
