// C13 harness: the real queue controller (pkg/controllers/queue) driven through
// histories of commands, PodGroup events, queue edits, lister synchronisations and
// single work-item steps; every step's API-server objects, lister objects, PodGroup
// index and work queue are dumped in the encoding of coq/theories/C13/Entry.v.
package main

import (
	"context"
	"errors"
	"fmt"
	"sort"
	"strconv"
	"strings"

	apierrors "k8s.io/apimachinery/pkg/api/errors"
	metav1 "k8s.io/apimachinery/pkg/apis/meta/v1"
	"k8s.io/apimachinery/pkg/runtime"
	kubefake "k8s.io/client-go/kubernetes/fake"
	k8stesting "k8s.io/client-go/testing"

	bus "volcano.sh/apis/pkg/apis/bus/v1alpha1"
	sch "volcano.sh/apis/pkg/apis/scheduling/v1beta1"
	vcfake "volcano.sh/apis/pkg/client/clientset/versioned/fake"
	"volcano.sh/volcano/pkg/controllers/apis"
	qc "volcano.sh/volcano/pkg/controllers/queue"

	"verif/harness/internal/vh"
)

const cbpKey = "volcano.sh/closed-by-parent"

var ctx = context.TODO()

func qname(id int64) string {
	if id == 1 {
		return "root"
	}
	return fmt.Sprintf("q%d", id)
}

func qid(name string) int64 {
	if name == "root" {
		return 1
	}
	n, err := strconv.Atoi(strings.TrimPrefix(name, "q"))
	if err != nil || !strings.HasPrefix(name, "q") {
		panic("unexpected queue name " + name)
	}
	return int64(n)
}

func parentName(id int64) string {
	if id == 0 {
		return ""
	}
	return qname(id)
}

func parentID(name string) int64 {
	if name == "" {
		return 0
	}
	return qid(name)
}

var stateStr = []sch.QueueState{"", sch.QueueStateOpen, sch.QueueStateClosed, sch.QueueStateClosing, sch.QueueStateUnknown, "Bogus"}

func stateCode(s sch.QueueState) int64 {
	for i, x := range stateStr {
		if x == s {
			return int64(i)
		}
	}
	panic("unexpected queue state " + string(s))
}

var actStr = []bus.Action{"", bus.OpenQueueAction, bus.CloseQueueAction, bus.SyncQueueAction, bus.AbortJobAction}

func actCode(a bus.Action) int64 {
	for i, x := range actStr {
		if x == a && i > 0 {
			return int64(i)
		}
	}
	panic("unexpected action " + string(a))
}

func evCode(e bus.Event) int64 {
	switch e {
	case "":
		return 0
	case bus.CommandIssuedEvent:
		return 1
	case bus.OutOfSyncEvent:
		return 2
	}
	panic("unexpected event " + string(e))
}

var evStr = []bus.Event{"", bus.CommandIssuedEvent, bus.OutOfSyncEvent}

func annMap(code int64) map[string]string {
	if code == 0 {
		return nil
	}
	m := map[string]string{}
	c := code - 1
	if c >= 3 {
		m["other"] = "x"
		c -= 3
	}
	switch c {
	case 1:
		m[cbpKey] = "false"
	case 2:
		m[cbpKey] = "true"
	}
	return m
}

func annCode(m map[string]string) int64 {
	if m == nil {
		return 0
	}
	c := int64(1)
	for k, v := range m {
		switch {
		case k == "other":
			c += 3
		case k == cbpKey && v == "false":
			c += 1
		case k == cbpKey && v == "true":
			c += 2
		default:
			panic("unexpected annotation " + k + "=" + v)
		}
	}
	return c
}

var phaseStr = []sch.PodGroupPhase{"", sch.PodGroupPending, sch.PodGroupRunning, sch.PodGroupUnknown, sch.PodGroupInqueue, sch.PodGroupCompleted}

func phaseCode(p sch.PodGroupPhase) int64 {
	for i, x := range phaseStr {
		if x == p {
			return int64(i)
		}
	}
	panic("unexpected phase")
}

func mkQueue(id, parent, state, ann int64) *sch.Queue {
	return &sch.Queue{
		ObjectMeta: metav1.ObjectMeta{Name: qname(id), Annotations: annMap(ann)},
		Spec:       sch.QueueSpec{Parent: parentName(parent)},
		Status:     sch.QueueStatus{State: stateStr[state]},
	}
}

func mkPG(pg, q, ph int64) *sch.PodGroup {
	return &sch.PodGroup{
		ObjectMeta: metav1.ObjectMeta{Namespace: "ns", Name: fmt.Sprintf("pg%d", pg)},
		Spec:       sch.PodGroupSpec{Queue: qname(q)},
		Status:     sch.PodGroupStatus{Phase: phaseStr[ph]},
	}
}

func pgID(key string) int64 {
	n, err := strconv.Atoi(strings.TrimPrefix(key, "ns/pg"))
	if err != nil {
		panic("unexpected PodGroup key " + key)
	}
	return int64(n)
}

type rd struct {
	t []int64
	i int
}

func (r *rd) n() int64 { v := r.t[r.i]; r.i++; return v }

// one controller per process (Initialize binds package-level function variables)
var ctrl *qc.VerifController

type world struct {
	vc  *vcfake.Clientset
	c   *qc.VerifController
	cmd int
	// injected API faults: every patch / ApplyStatus on this queue fails; the next n Command deletes fail
	failQueue string
	cmdFails  int
}

func newWorld(maxrq int) *world {
	vc := vcfake.NewSimpleClientset()
	kube := kubefake.NewSimpleClientset()
	if ctrl == nil {
		ctrl = qc.NewVerifController(vc, kube, maxrq)
	} else {
		ctrl.Reset(vc, kube, maxrq)
	}
	w := &world{vc: vc, c: ctrl}
	vc.PrependReactor("patch", "queues", func(a k8stesting.Action) (bool, runtime.Object, error) {
		if pa, ok := a.(k8stesting.PatchAction); ok && w.failQueue != "" && pa.GetName() == w.failQueue {
			return true, nil, errors.New("injected: the API server is unavailable")
		}
		return false, nil, nil
	})
	vc.PrependReactor("delete", "commands", func(a k8stesting.Action) (bool, runtime.Object, error) {
		if w.cmdFails > 0 {
			w.cmdFails--
			return true, nil, errors.New("injected: the API server is unavailable")
		}
		return false, nil, nil
	})
	return w
}

func (w *world) dumpQueues(l []*sch.Queue) []int64 {
	sort.Slice(l, func(i, j int) bool { return qid(l[i].Name) < qid(l[j].Name) })
	out := []int64{int64(len(l))}
	for _, q := range l {
		out = append(out, qid(q.Name), parentID(q.Spec.Parent), stateCode(q.Status.State), annCode(q.Annotations))
	}
	return out
}

func (w *world) dump() []int64 {
	var out []int64
	sl, err := w.vc.SchedulingV1beta1().Queues().List(ctx, metav1.ListOptions{})
	if err != nil {
		panic(err)
	}
	srv := []*sch.Queue{}
	for i := range sl.Items {
		srv = append(srv, &sl.Items[i])
	}
	out = append(out, w.dumpQueues(srv)...)
	lst := []*sch.Queue{}
	for _, o := range w.c.QueueIndexer().List() {
		lst = append(lst, o.(*sch.Queue))
	}
	out = append(out, w.dumpQueues(lst)...)
	pgs := []*sch.PodGroup{}
	for _, o := range w.c.PodGroupIndexer().List() {
		pgs = append(pgs, o.(*sch.PodGroup))
	}
	sort.Slice(pgs, func(i, j int) bool { return pgID("ns/"+pgs[i].Name) < pgID("ns/"+pgs[j].Name) })
	out = append(out, int64(len(pgs)))
	for _, p := range pgs {
		out = append(out, pgID("ns/"+p.Name), qid(p.Spec.Queue), phaseCode(p.Status.Phase))
	}
	type pr struct{ q, g int64 }
	prs := []pr{}
	for q, keys := range w.c.PodGroupIndex() {
		for _, k := range keys {
			prs = append(prs, pr{qid(q), pgID(k)})
		}
	}
	sort.Slice(prs, func(i, j int) bool { return prs[i].q < prs[j].q || (prs[i].q == prs[j].q && prs[i].g < prs[j].g) })
	out = append(out, int64(len(prs)))
	for _, p := range prs {
		out = append(out, p.q, p.g)
	}
	items := w.c.Q.Items()
	out = append(out, int64(len(items)))
	for _, r := range items {
		out = append(out, qid(r.QueueName), actCode(r.Action), evCode(r.Event), int64(w.c.Q.NumRequeues(r)))
	}
	return out
}

func (w *world) listerGet(id int64) *sch.Queue {
	o, ok, _ := w.c.QueueIndexer().GetByKey(qname(id))
	if !ok {
		return nil
	}
	return o.(*sch.Queue)
}

// step applies one event; returns the outcome code of Entry.v
func (w *world) step(code, a, b, d int64) int64 {
	qs := w.vc.SchedulingV1beta1().Queues()
	switch code {
	case 1: // a command for queue a with action b, through the real command path
		w.cmd++
		cmd := &bus.Command{
			ObjectMeta:   metav1.ObjectMeta{Namespace: "default", Name: fmt.Sprintf("cmd-%d", w.cmd)},
			TargetObject: &metav1.OwnerReference{APIVersion: sch.SchemeGroupVersion.String(), Kind: "Queue", Name: qname(a)},
			Action:       string(actStr[b]),
		}
		if !qc.IsQueueReference(cmd.TargetObject) {
			panic("command filter rejects a queue reference")
		}
		if _, err := w.vc.BusV1alpha1().Commands("default").Create(ctx, cmd, metav1.CreateOptions{}); err != nil {
			panic(err)
		}
		w.c.AddCommand(cmd)
		w.cmdFails = int(d) // the first d Delete calls fail and are retried (d within the retry budget)
		for w.c.ProcessNextCommand() {
		}
		if w.c.LastCmdErr != nil || w.cmdFails != 0 {
			panic("command was not processed")
		}
		if _, err := w.vc.BusV1alpha1().Commands("default").Get(ctx, cmd.Name, metav1.GetOptions{}); !apierrors.IsNotFound(err) {
			panic("command survived its execution")
		}
		if w.c.CQ.Len() != 0 {
			panic("command queue not empty after a successful command")
		}
	case 2:
		pg := mkPG(a, b, d)
		w.c.PodGroupIndexer().Add(pg)
		w.c.AddPodGroup(pg)
	case 3:
		o, ok, _ := w.c.PodGroupIndexer().GetByKey(fmt.Sprintf("ns/pg%d", a))
		if !ok {
			return 0
		}
		pg := mkPG(a, b, d)
		w.c.PodGroupIndexer().Update(pg)
		w.c.UpdatePodGroup(o.(*sch.PodGroup), pg)
	case 4:
		o, ok, _ := w.c.PodGroupIndexer().GetByKey(fmt.Sprintf("ns/pg%d", a))
		if !ok {
			return 0
		}
		w.c.PodGroupIndexer().Delete(o)
		w.c.DeletePodGroup(o.(*sch.PodGroup))
	case 13: // the informer's store drops the PodGroup; the delete handler has not run yet
		if o, ok, _ := w.c.PodGroupIndexer().GetByKey(fmt.Sprintf("ns/pg%d", a)); ok {
			w.c.PodGroupIndexer().Delete(o)
		}
	case 14: // ... now the delete handler runs (the object comes with the notification)
		w.c.DeletePodGroup(mkPG(a, b, 1))
	case 6:
		_, err := qs.Create(ctx, mkQueue(a, b, 0, 0), metav1.CreateOptions{})
		if err != nil && !apierrors.IsAlreadyExists(err) {
			panic(err)
		}
	case 7:
		q, err := qs.Get(ctx, qname(a), metav1.GetOptions{})
		if err != nil {
			return 0
		}
		q.Spec.Parent = parentName(b)
		if _, err := qs.Update(ctx, q, metav1.UpdateOptions{}); err != nil {
			panic(err)
		}
	case 8:
		qs.Delete(ctx, qname(a), metav1.DeleteOptions{})
	case 9: // the informer delivers queue a: indexer first, then the handler
		so, err := qs.Get(ctx, qname(a), metav1.GetOptions{})
		lo := w.listerGet(a)
		switch {
		case err == nil && lo == nil:
			w.c.QueueIndexer().Add(so)
			w.c.AddQueue(so)
		case err == nil:
			w.c.QueueIndexer().Update(so)
			w.c.UpdateQueue(lo, so)
		case lo != nil:
			w.c.QueueIndexer().Delete(lo)
			w.c.DeleteQueue(lo)
		}
	case 10:
		if lo := w.listerGet(a); lo != nil {
			w.c.AddQueue(lo)
		}
	case 11, 12:
		if code == 12 {
			w.failQueue = qname(b)
			defer func() { w.failQueue = "" }()
		}
		items := w.c.Q.Items()
		if int(a) >= len(items) {
			return 1
		}
		r := items[a]
		gone := w.listerGet(qid(r.QueueName)) == nil
		before := map[*apis.Request]bool{}
		for _, x := range items {
			before[x] = true
		}
		w.c.Q.MoveToFront(int(a))
		w.c.LastErr = nil
		if !w.c.ProcessNextWorkItem() {
			panic("work queue reported empty")
		}
		// canonical order of the batch this step enqueued: siblings by name (the lister
		// lists them in Go map order), the retry of r last
		after := w.c.Q.Items()
		var old, fresh, retry []*apis.Request
		for _, x := range after {
			switch {
			case x == r:
				retry = append(retry, x)
			case before[x]:
				old = append(old, x)
			default:
				fresh = append(fresh, x)
			}
		}
		sort.SliceStable(fresh, func(i, j int) bool { return qid(fresh[i].QueueName) < qid(fresh[j].QueueName) })
		w.c.Q.SetItems(append(append(old, fresh...), retry...))
		switch {
		case gone:
			if w.c.LastErr != nil {
				panic("request for a queue the lister does not have failed")
			}
			return 2
		case w.c.LastErr == nil:
			return 3
		default:
			return 4
		}
	default:
		panic("unknown event code")
	}
	return 0
}

func run(sel int, in []int64) []int64 {
	if sel < 1 || sel > 6 {
		panic("unknown selector")
	}
	r := &rd{t: in}
	w := newWorld(int(r.n()))
	qs := w.vc.SchedulingV1beta1().Queues()
	for n := r.n(); n > 0; n-- {
		q := mkQueue(r.n(), r.n(), r.n(), r.n())
		if _, err := qs.Create(ctx, q, metav1.CreateOptions{}); err != nil {
			panic(err)
		}
	}
	for n := r.n(); n > 0; n-- {
		w.c.QueueIndexer().Add(mkQueue(r.n(), r.n(), r.n(), r.n()))
	}
	for n := r.n(); n > 0; n-- {
		w.c.PodGroupIndexer().Add(mkPG(r.n(), r.n(), r.n()))
	}
	for n := r.n(); n > 0; n-- {
		q, pg := r.n(), r.n()
		w.c.AddPodGroup(mkPG(pg, q, 1)) // fills the index (also enqueues; cleared below)
	}
	w.c.Q.SetItems(nil)
	for n := r.n(); n > 0; n-- {
		req := &apis.Request{QueueName: qname(r.n()), Action: actStr[r.n()], Event: evStr[r.n()]}
		for k := r.n(); k > 0; k-- {
			w.c.Q.AddRateLimited(req)
		}
		w.c.Q.Add(req)
	}
	ne := r.n()
	var out []int64
	for k := int64(1); k <= ne; k++ {
		o := w.step(r.n(), r.n(), r.n(), r.n())
		out = append(out, -100-k, o)
		out = append(out, w.dump()...)
	}
	return out
}

// Signatures of the documented lag races (known-findings.json).  They are attached to
// the laws Y = not (race shape and full-strength law fails), which fail exactly on the
// race; the companion laws X = (full-strength law or race shape) carry no signature.
const (
	sigStuckChild = "C13-quiescent-marked-child-stuck"
	sigOpenChild  = "C13-quiescent-open-child-under-closed-parent"
	sigRaceA      = "C13-stale-lister-sync-overwrites-open"
	sigRaceB      = "C13-stale-lister-closed-with-podgroups"
	sigRaceC      = "C13-marked-child-not-reopened"
)

func laws(sel int, in, got []int64, law func(lsel int, lin []int64, sig string)) {
	lin := append(append([]int64{}, in...), got...)
	for l := 101; l <= 110; l++ {
		law(l, lin, "")
	}
	if sel == 5 { // lagging random streams: "a Sync never opens or closes" at full strength
		law(112, lin, "")       // every failure that is NOT a Sync computed from a stale lister object
		law(122, lin, sigRaceA) // a Sync computed from a stale lister object overwrote the server's state
	}
	if sel == 4 || sel == 6 { // quiescent end states: the full-strength laws about caught-up states
		law(141, lin, "") // a stuck marked child that is NOT of the known class
		law(142, lin, "") // an open child under a closed parent that is NOT of the known class
		law(143, lin, sigStuckChild)
		law(144, lin, sigOpenChild)
		law(145, lin, "") // end state: no queue left Closing without a PodGroup
		if sel == 4 {     // not for selector 6: retry budget 15, the catch-up is too short to exhaust it
			law(146, lin, "") // end state: the catch-up really drained everything (145's guard is not vacuous)
		}
	}
	if sel == 3 { // PodGroup events before the queue is listed: laws against the PodGroups that really exist
		law(131, lin, "")
		law(132, lin, "")
	}
	if sel == 2 { // stale-lister stream: the laws at full strength
		law(111, lin, "")
		law(112, lin, "")
		law(121, lin, sigRaceB)
		law(122, lin, sigRaceA)
		law(123, lin, sigRaceC)
	}
}

// genStale scripts the histories in which the lister is deliberately delivered late.
func genStale(r *vh.Rng, i int) (in []int64, desc map[string]any) {
	tmpl := i % 3
	maxrq := int64(vh.Pick(r, []int{-1, 3, 15}))
	type q struct{ id, parent, state, ann int64 }
	qs := []q{{1, 0, 1, 0}}
	var pgs, ix, evs []int64
	ne := 0
	add := func(c, a, b, d int64) { evs = append(evs, c, a, b, d); ne++ }
	extra := r.Chance(1, 2) // an unrelated queue
	ann := vh.Pick(r, []int64{0, 2, 4, 5})
	inTime := r.Chance(1, 5) // the informer happens to deliver in time: no race
	k := r.Range(1, 3)
	syncAction := int64(vh.Pick(r, []int{3, 4}))
	switch tmpl {
	case 0: // race A: Closing queue re-opened, lister late, last PodGroups deleted
		qs = append(qs, q{2, 1, 3, ann})
		for g := 1; g <= k; g++ {
			pgs = append(pgs, int64(g), 2, int64(r.Range(1, 5)))
			ix = append(ix, 2, int64(g))
		}
		add(1, 2, 1, 0) // vcctl queue operate -a open
		add(11, 0, 0, 0)
		if inTime {
			add(9, 2, 0, 0)
		}
		for g := 1; g <= k; g++ {
			add(4, int64(g), 0, 0)
		}
		for g := 1; g <= k; g++ {
			add(11, 0, 0, 0)
		}
	case 1: // race B: Closed queue whose lister object has no spec.parent, re-opened, PodGroups arrive
		qs = append(qs, q{2, 0, 2, ann})
		add(1, 2, 1, 0)
		add(11, 0, 0, 0)
		if inTime {
			add(9, 2, 0, 0)
		}
		for g := 1; g <= k; g++ {
			add(2, int64(g), 2, int64(r.Range(1, 5)))
		}
		if r.Chance(1, 3) {
			add(1, 2, syncAction, 0) // a command with an action the queue controller treats as Sync
			k++
		}
		for g := 1; g <= k; g++ {
			add(11, 0, 0, 0)
		}
	default: // race C: parent closed and re-opened before the lister shows the children's marker
		qs = append(qs, q{2, 1, 1, ann})
		nc := r.Range(1, 2)
		for c := 0; c < nc; c++ {
			qs = append(qs, q{int64(3 + c), 2, int64(vh.Pick(r, []int{1, 1, 0, 4})), vh.Pick(r, []int64{0, 2, 4})})
		}
		add(1, 2, 2, 0) // close the parent
		add(11, 0, 0, 0)
		add(9, 2, 0, 0) // only the parent is delivered
		if inTime {
			for c := 0; c < nc; c++ {
				add(9, int64(3+c), 0, 0)
			}
		}
		add(1, 2, 1, 0) // re-open the parent
		for c := 0; c < nc+1; c++ {
			add(11, 0, 0, 0)
			if inTime {
				for x := int64(2); x < int64(3+nc); x++ {
					add(9, x, 0, 0)
				}
			}
		}
	}
	if extra {
		qs = append(qs, q{9, 1, int64(vh.Pick(r, []int{1, 2})), 0})
	}
	// the lister catches up and the work queue drains (twice)
	for round := 0; round < 3; round++ {
		for _, x := range qs {
			add(9, x.id, 0, 0)
		}
		for d := 0; d < 4; d++ {
			add(11, 0, 0, 0)
		}
	}
	in = []int64{maxrq}
	for rep := 0; rep < 2; rep++ { // server and lister start equal
		in = append(in, int64(len(qs)))
		for _, x := range qs {
			in = append(in, x.id, x.parent, x.state, x.ann)
		}
	}
	in = append(in, int64(len(pgs)/3))
	in = append(in, pgs...)
	in = append(in, int64(len(ix)/2))
	in = append(in, ix...)
	in = append(in, 0, int64(ne))
	in = append(in, evs...)
	return in, map[string]any{"template": []string{"race-A", "race-B", "race-C"}[tmpl], "delivered_in_time": inTime, "events": ne}
}

// ---------- generator ----------

type gq struct{ id, parent, state, ann int64 }

var annPool = []int64{0, 0, 0, 2, 3, 4, 5, 6}

func genForest(r *vh.Rng) []gq {
	n := r.Range(1, 7)
	qs := []gq{{1, 0, int64(vh.Pick(r, []int{1, 1, 1, 1, 0, 4})), vh.Pick(r, annPool)}}
	depth := map[int64]int{1: 0}
	for i := 2; i <= n; i++ {
		id := int64(i)
		// parent among earlier queues with depth < 3
		var cands []int64
		for _, q := range qs {
			if depth[q.id] < 3 {
				cands = append(cands, q.id)
			}
		}
		p := vh.Pick(r, cands)
		if r.Chance(1, 3) {
			p = 1
		}
		depth[id] = depth[p] + 1
		if r.Chance(1, 25) {
			p = 0 // spec.parent not set yet
		} else if r.Chance(1, 40) {
			p = 9 // names a queue that does not exist
		}
		st := int64(vh.Pick(r, []int{1, 1, 1, 1, 2, 2, 3, 3, 0, 4, 4, 5}))
		if st == 5 && !r.Chance(1, 4) {
			st = 1
		}
		qs = append(qs, gq{id, p, st, vh.Pick(r, annPool)})
	}
	return qs
}

// genPGFirst: the PodGroup informer is ahead of the queue informer — PodGroup events for a
// queue (also a child queue) are handled, and usually their Sync requests processed, before
// the queue is in the lister; then the queue is delivered and closed / opened while
// PodGroups come and go.  No queue is deleted and no PodGroup changes its queue, so the
// controller's index must stay complete w.r.t. the PodGroup objects.
func genPGFirst(r *vh.Rng, i int) (in []int64, desc map[string]any) {
	type q struct{ id, parent, state, ann int64 }
	maxrq := int64(vh.Pick(r, []int{-1, 0, 3, 15}))
	srvQ := []q{{1, 0, 1, 0}}
	lstQ := []q{{1, 0, 1, 0}}
	var evs []int64
	ne := 0
	add := func(c, a, b, d int64) { evs = append(evs, c, a, b, d); ne++ }
	child := r.Chance(1, 2) // q is a child of p (2), else of root
	parent := int64(1)
	if child {
		pq := q{2, 1, int64(vh.Pick(r, []int{1, 1, 0})), 0}
		srvQ = append(srvQ, pq)
		lstQ = append(lstQ, pq)
		parent = 2
	}
	const Q = 3
	qparent := parent
	if r.Chance(1, 4) && !child {
		qparent = 0 // spec.parent still unset
	}
	created := r.Chance(1, 2) // created during the history, else already on the server
	if !created {
		srvQ = append(srvQ, q{Q, qparent, 0, vh.Pick(r, []int64{0, 0, 4})})
	}
	all := func() {
		for x := int64(1); x <= Q; x++ {
			add(9, x, 0, 0)
		}
	}
	// PodGroups of the parent, indexed normally
	var pgs, ix []int64
	if child && r.Chance(1, 2) {
		pgs = append(pgs, 9, 2, 2)
		ix = append(ix, 2, 9)
	}
	if created {
		add(6, Q, qparent, 0)
	}
	k := r.Range(1, 3)
	for g := 1; g <= k; g++ {
		add(2, int64(g), Q, int64(r.Range(1, 5)))
		if r.Chance(1, 4) {
			add(3, int64(g), Q, int64(r.Range(1, 5))) // phase update (same queue)
		}
	}
	early := r.Chance(3, 4) // the Sync requests run before the queue is listed
	nsync := r.Range(1, k+1)
	if early {
		for g := 0; g < nsync; g++ {
			add(11, 0, 0, 0)
		}
	}
	add(9, Q, 0, 0) // the queue informer catches up
	for g := 0; g < k+3; g++ {
		add(11, 0, 0, 0)
		all()
	}
	// commands while PodGroups come and go; the lister is kept up to date
	live := k
	next := int64(k + 1)
	for n := r.Range(3, 9); n > 0; n-- {
		switch r.Intn(8) {
		case 0, 1, 2:
			add(1, Q, 2, 0)
		case 3:
			add(1, Q, 1, 0)
		case 4:
			if child {
				add(1, 2, int64(r.Range(1, 2)), 0)
			} else {
				add(1, Q, int64(r.Range(1, 4)), 0)
			}
		case 5, 6:
			if live > 0 {
				add(4, int64(r.Range(1, int(next)-1)), 0, 0)
				live--
			}
		default:
			add(2, next, Q, int64(r.Range(1, 5)))
			next++
			live++
		}
		for g := r.Range(1, 4); g > 0; g-- {
			add(11, 0, 0, 0)
			all()
		}
	}
	in = []int64{maxrq, int64(len(srvQ))}
	for _, x := range srvQ {
		in = append(in, x.id, x.parent, x.state, x.ann)
	}
	in = append(in, int64(len(lstQ)))
	for _, x := range lstQ {
		in = append(in, x.id, x.parent, x.state, x.ann)
	}
	in = append(in, int64(len(pgs)/3))
	in = append(in, pgs...)
	in = append(in, int64(len(ix)/2))
	in = append(in, ix...)
	in = append(in, 0, int64(ne))
	in = append(in, evs...)
	return in, map[string]any{"child_queue": child, "sync_before_listed": early, "created_in_history": created, "podgroups": k, "events": ne}
}

// genQuiescent: histories from CONSISTENT forests (every queue Open, some leaves closed by
// hand) of open / close commands with arbitrary processing order and informer lag, ending
// with catch-up rounds (every queue delivered, work queue drained).  Laws 141 / 142 look at
// the caught-up states: no child left closed with closed-by-parent=true under an Open
// parent; no child open under a closed / closing parent.
func genQuiescent(r *vh.Rng, i int) (in []int64, desc map[string]any, sel int) {
	sel = 4
	catchProcs := 36 // processing steps of the catch-up, each preceded by the delivery of every queue
	ncmd := 0
	type q struct{ id, parent, state, ann int64 }
	var evs []int64
	ne := 0
	add := func(c, a, b, d int64) { evs = append(evs, c, a, b, d); ne++ }
	var qs []q
	var pgs, ix []int64
	shape := "random"
	C := func(x, a int64) { add(1, x, a, 0) }
	P := func(k int64) { add(11, k, 0, 0) }
	L := func(x int64) { add(9, x, 0, 0) }
	PF := func(k, c int64) { add(12, k, c, 0) }
	maxrq := int64(vh.Pick(r, []int{-1, 3, 15}))
	switch i % 8 {
	case 6, 7: // transient API faults, lister always fresh: a parent with several children is closed
		// (and re-opened) while the patch of one child / the parent's own status write fails once or twice
		shape = "api-faults/close-open-parent"
		maxrq = int64(vh.Pick(r, []int{-1, 15}))
		// The lister lists siblings in map order, so a failing patch in the middle of
		// closeHierarchicalQueue's loop would mark an order-dependent set of children: exactly ONE
		// child needs the patch (the others were closed by hand), or the fault is on q2 itself.
		nc := r.Range(1, 3)
		qs = []q{{1, 0, 1, 0}, {2, 1, 1, 0}, {3, 2, 1, vh.Pick(r, []int64{0, 4})}}
		for k := 1; k < nc; k++ {
			qs = append(qs, q{int64(3 + k), 2, 2, vh.Pick(r, []int64{0, 2})})
		}
		all := func() {
			for _, x := range qs {
				L(x.id)
			}
		}
		target := func() int64 { return int64(vh.Pick(r, []int{3, 3, 2})) }
		C(2, 2)
		for f := r.Range(1, 2); f > 0; f-- {
			PF(0, target()) // the close of q2 fails at this queue's API call
			all()
		}
		for k := 0; k < nc+3; k++ {
			P(0)
			all()
		}
		if r.Chance(1, 2) {
			C(2, 1)
			if r.Chance(1, 2) {
				PF(0, target())
				all()
			}
			for k := 0; k < 2*nc+4; k++ {
				if r.Chance(1, 5) {
					PF(0, target())
				} else {
					P(0)
				}
				all()
			}
		}
	case 4: // a Closing queue whose last PodGroup disappears: the store drops it, a sync of the queue runs
		// (it only forgets the key and stays Closing), THEN the delete handler runs and its sync closes the queue
		shape = "last-podgroup-gone-before-delete-handler"
		qs = []q{{1, 0, 1, 0}, {2, 1, 3, vh.Pick(r, []int64{0, 4})}}
		npg := r.Range(1, 2)
		for g := 1; g <= npg; g++ {
			pgs = append(pgs, int64(g), 2, int64(r.Range(1, 5)))
			ix = append(ix, 2, int64(g))
		}
		for g := 1; g <= npg; g++ {
			add(13, int64(g), 0, 0)
		}
		if r.Chance(1, 2) {
			add(10, 2, 0, 0) // a sync of q2 (informer add notification) ...
		} else {
			C(2, 3) // ... or a command with the Sync action
		}
		P(0)
		for g := 1; g <= npg; g++ {
			add(14, int64(g), 2, 0)
		}
	case 5: // the REPAIRED race C: parent closed and re-opened before the lister shows the child's marker;
		// since b628b4b the delivery of the marker re-syncs the child: no quiescent failure is expected
		shape = "race-C/repaired"
		qs = []q{{1, 0, 1, 0}, {2, 1, 1, 0}, {3, 2, 1, 0}}
		C(2, 2)
		P(0)
		L(2)
		C(2, 1)
		P(0)
		P(0)
		L(2)
	case 0: // parent closed and re-opened at once, FIFO, the child's lister entry late
		shape = "close-reopen-fifo"
		qs = []q{{1, 0, 1, 0}, {2, 1, 1, 0}, {3, 2, 1, 0}}
		C(2, 2)
		C(2, 1)
		P(0)
		L(3)
		L(2)
		P(0)
		L(2)
		P(0)
		P(0)
		P(0)
		P(0)
	case 1: // child opened while the lister still shows its just-closed parent Open
		shape = "open-child-under-just-closed-parent"
		qs = []q{{1, 0, 1, 0}, {2, 1, 1, 0}, {3, 2, 2, 2}}
		C(2, 2)
		P(0)
		C(3, 1)
		P(0)
	case 2: // parent closed while the lister still shows the just-opened child Closed
		shape = "close-parent-over-just-opened-child"
		qs = []q{{1, 0, 1, 0}, {2, 1, 1, 0}, {3, 2, 2, 2}}
		C(3, 1)
		P(0)
		C(2, 2)
		P(0)
	default:
		n := r.Range(2, 5)
		qs = []q{{1, 0, 1, 0}}
		depth := map[int64]int{1: 0}
		for k := 2; k <= n; k++ {
			p := qs[r.Intn(len(qs))].id
			if depth[p] >= 3 {
				p = 1
			}
			depth[int64(k)] = depth[p] + 1
			qs = append(qs, q{int64(k), p, 1, vh.Pick(r, []int64{0, 0, 4})})
		}
		// some leaves closed by hand
		for k := range qs {
			leaf := true
			for _, x := range qs {
				if x.parent == qs[k].id {
					leaf = false
				}
			}
			if leaf && qs[k].id != 1 && r.Chance(1, 4) {
				qs[k].state, qs[k].ann = 2, vh.Pick(r, []int64{0, 2})
			}
		}
		fresh := r.Chance(1, 2)
		if fresh {
			shape = "random/lister-always-fresh"
		} else {
			shape = "random/lagged"
		}
		// a request that can never succeed (an Open under a parent that stays closed) must be given up,
		// otherwise the work queue never drains and the end state is not caught up
		maxrq = int64(vh.Pick(r, []int{3, 15}))
		// PodGroups come and go (only with an up-to-date lister: with lag, a PodGroup's Sync computed from a
		// lister that still shows the queue Open writes nothing and the queue stays Closing — stale-lister class)
		nextPG := int64(1)
		var livePG []int64            // in the store and indexed
		var pend13, pend14 [][2]int64 // split deletions: the half that is still to come
		pgEvent := func() {
			if !fresh {
				return
			}
			x := qs[r.Range(1, len(qs)-1)].id
			switch k := r.Intn(8); {
			case k < 3 || len(livePG) == 0:
				add(2, nextPG, x, int64(r.Range(1, 5)))
				livePG = append(livePG, nextPG, x)
				nextPG++
			case k == 3:
				j := r.Intn(len(livePG)/2) * 2
				add(3, livePG[j], livePG[j+1], int64(r.Range(1, 5))) // phase update, same queue
			case k < 6:
				j := r.Intn(len(livePG)/2) * 2
				add(4, livePG[j], 0, 0) // store and handler together
				livePG = append(livePG[:j], livePG[j+2:]...)
			default:
				j := r.Intn(len(livePG)/2) * 2
				pg, q := livePG[j], livePG[j+1]
				livePG = append(livePG[:j], livePG[j+2:]...)
				if r.Chance(2, 3) {
					add(13, pg, 0, 0) // the store first, the handler later
					pend14 = append(pend14, [2]int64{pg, q})
				} else {
					add(14, pg, q, 0) // the handler first (the object is still in the store)
					pend13 = append(pend13, [2]int64{pg, q})
				}
			}
			if r.Chance(1, 2) && len(pend14) > 0 {
				add(14, pend14[0][0], pend14[0][1], 0)
				pend14 = pend14[1:]
			}
			if r.Chance(1, 2) && len(pend13) > 0 {
				add(13, pend13[0][0], 0, 0)
				pend13 = pend13[1:]
			}
		}
		sync := func() {
			if fresh {
				for _, x := range qs {
					L(x.id)
				}
			} else if r.Chance(1, 2) {
				L(qs[r.Intn(len(qs))].id)
			}
		}
		for k := r.Range(3, 10); k > 0; k-- {
			if r.Chance(1, 2) {
				pgEvent()
				sync()
			}
			x := qs[r.Range(1, len(qs)-1)].id
			C(x, int64(r.Range(1, 2)))
			ncmd++
			sync()
			for m := r.Range(0, 3); m > 0; m-- {
				var only []int64 // queues without siblings: a fault on them is order-independent
				for _, x := range qs {
					sib := 0
					for _, y := range qs {
						if y.parent == x.parent && y.id != 1 {
							sib++
						}
					}
					if x.id != 1 && sib == 1 {
						only = append(only, x.id)
					}
				}
				if maxrq != 3 && len(only) > 0 && r.Chance(1, 8) {
					PF(int64(vh.Pick(r, []int{0, 0, 1})), vh.Pick(r, only)) // transient API fault
				} else {
					P(int64(vh.Pick(r, []int{0, 0, 0, 1, 2})))
				}
				sync()
			}
		}
		// Law 146 ("the end state is caught up") needs the catch-up to be long enough to exhaust the retry
		// budget of EVERY request that can never succeed (e.g. several Open commands on a child of a closed
		// parent, each retried maxRequeueNum times, sharing the processing steps): with budget 3 the catch-up
		// gets (budget+2) x (an upper bound of the pending requests) steps; with budget 15 that would be
		// too long, so those histories go to selector 6 = selector 4 without law 146.
		if maxrq == 3 {
			catchProcs = 5 * (2*ncmd + len(qs) + 4)
		} else {
			sel = 6
		}
		for _, x := range pend14 { // every split deletion is completed before the catch-up
			add(14, x[0], x[1], 0)
		}
		for _, x := range pend13 {
			add(13, x[0], 0, 0)
		}
	}
	for d := 0; d < catchProcs; d++ { // catch up: every queue delivered after every processed request
		for _, x := range qs {
			L(x.id)
		}
		P(0)
	}
	for _, x := range qs {
		L(x.id)
	}
	in = []int64{maxrq}
	for rep := 0; rep < 2; rep++ {
		in = append(in, int64(len(qs)))
		for _, x := range qs {
			in = append(in, x.id, x.parent, x.state, x.ann)
		}
	}
	in = append(in, int64(len(pgs)/3))
	in = append(in, pgs...)
	in = append(in, int64(len(ix)/2))
	in = append(in, ix...)
	in = append(in, 0, int64(ne))
	in = append(in, evs...)
	return in, map[string]any{"shape": shape, "queues": len(qs), "events": ne}, sel
}

func gen(rng *vh.Rng, n int, emit func(id string, sel int, in []int64, kind string, nontrivial bool, desc any)) {
	for i := 0; i < n/5+12; i++ {
		in, desc, qsel := genQuiescent(rng.Fork(), i)
		emit(fmt.Sprintf("quiescent-%d", i), qsel, in, "quiescent-end-state", true, desc)
	}
	for i := 0; i < n/6+8; i++ {
		in, desc := genPGFirst(rng.Fork(), i)
		emit(fmt.Sprintf("pgfirst-%d", i), 3, in, "podgroups-before-queue-listed", true, desc)
	}
	for i := 0; i < n/10+6; i++ {
		in, desc := genStale(rng.Fork(), i)
		emit(fmt.Sprintf("stale-%d", i), 2, in, "stale-lister", true, desc)
	}
	for i := 0; i < n; i++ {
		r := rng.Fork()
		stream := []string{"synced", "hier", "lagged", "stale-init", "hier-lagged"}[i%5]
		qs := genForest(r)
		nq := int64(len(qs))
		maxrq := int64(vh.Pick(r, []int{-1, 0, 1, 2, 3, 15}))
		in := []int64{maxrq, nq}
		for _, q := range qs {
			in = append(in, q.id, q.parent, q.state, q.ann)
		}
		// lister view: equal to the server, or (stale-init) with older states / missing entries
		lst := []gq{}
		for _, q := range qs {
			l := q
			if stream == "stale-init" && r.Chance(1, 3) {
				switch r.Intn(4) {
				case 0:
					continue
				case 1:
					l.state = int64(vh.Pick(r, []int{0, 1, 2, 3, 4}))
				case 2:
					l.ann = vh.Pick(r, []int64{0, 2, 3})
					if q.ann == 0 {
						l.ann = 0 // a lister never shows annotations the server never had
					}
				default:
					l.state = int64(vh.Pick(r, []int{1, 2, 3}))
				}
			}
			lst = append(lst, l)
		}
		in = append(in, int64(len(lst)))
		for _, q := range lst {
			in = append(in, q.id, q.parent, q.state, q.ann)
		}
		// PodGroups and index (mostly consistent; sometimes a stale key or an unindexed PodGroup)
		npg := r.Range(0, 4)
		var pgs, ix []int64
		for g := 1; g <= npg; g++ {
			q := int64(r.Range(1, int(nq)))
			ph := int64(r.Range(1, 5))
			if !r.Chance(1, 8) {
				pgs = append(pgs, int64(g), q, ph)
			}
			if !r.Chance(1, 10) {
				ix = append(ix, q, int64(g))
			}
		}
		in = append(in, int64(len(pgs)/3))
		in = append(in, pgs...)
		in = append(in, int64(len(ix)/2))
		in = append(in, ix...)
		// initial work queue
		nw := 0
		if r.Chance(1, 3) {
			nw = r.Range(1, 3)
		}
		in = append(in, int64(nw))
		for k := 0; k < nw; k++ {
			in = append(in, int64(r.Range(1, int(nq))), int64(r.Range(1, 3)), int64(r.Intn(3)), int64(r.Intn(3)))
		}
		// history
		var evs []int64
		ne, nproc, ncmd := 0, 0, 0
		add := func(c, a, b, d int64) { evs = append(evs, c, a, b, d); ne++ }
		anyq := func() int64 {
			if r.Chance(1, 15) {
				return nq + 1
			}
			return int64(r.Range(1, int(nq)))
		}
		syncAll := func() {
			if stream == "synced" || stream == "hier" {
				for q := int64(1); q <= nq+1; q++ {
					add(9, q, 0, 0)
				}
			} else if r.Chance(1, 2) {
				add(9, anyq(), 0, 0)
			}
		}
		// API faults: only in histories without queue creation / re-parenting, and only on queues
		// that have no siblings (the lister lists siblings in map order: a patch failing in the
		// middle of closeHierarchicalQueue's loop would mark an order-dependent set of children)
		var faultQs []int64
		withFaults := i%3 == 0
		if withFaults {
			for _, x := range qs {
				sib := 0
				for _, y := range qs {
					if y.parent == x.parent {
						sib++
					}
				}
				if x.id != 1 && sib == 1 && x.parent >= 1 && x.parent <= nq {
					faultQs = append(faultQs, x.id)
				}
			}
		}
		target := r.Range(3, 30)
		if stream == "synced" {
			target = r.Range(8, 40)
		}
		// hier streams: commands aimed at a non-root parent and its children
		var fam []int64
		if stream == "hier" || stream == "hier-lagged" {
			for _, q := range qs {
				if q.parent > 1 && q.parent <= nq {
					fam = append(fam, q.parent, q.id)
				}
			}
			for _, q := range qs {
				if q.id != 1 && len(fam) == 0 {
					fam = append(fam, q.id)
				}
			}
		}
		for ne < target {
			if len(fam) > 0 && r.Chance(2, 3) {
				q := vh.Pick(r, fam)
				switch r.Intn(6) {
				case 0, 1:
					add(1, q, 1, 0)
					ncmd++
				case 2, 3:
					add(1, q, 2, 0)
					ncmd++
				case 4:
					add(2, int64(r.Range(1, 5)), q, int64(r.Range(1, 5)))
				default:
					add(4, int64(r.Range(1, 5)), 0, 0)
				}
				for k := r.Range(1, 4); k > 0; k-- {
					add(11, int64(vh.Pick(r, []int{0, 0, 0, 1})), 0, 0)
					nproc++
					syncAll()
				}
				continue
			}
			switch x := r.Intn(20); {
			case x < 6:
				a := int64(vh.Pick(r, []int{1, 1, 1, 2, 2, 2, 3, 4}))
				cf := int64(0) // failed Deletes of the Command before it goes through (within the budget)
				if r.Chance(1, 6) && (maxrq == -1 || maxrq >= 1) {
					cf = 1
				}
				add(1, anyq(), a, cf)
				ncmd++
				for k := r.Range(0, 4); k > 0; k-- {
					if len(faultQs) > 0 && r.Chance(1, 5) {
						add(12, int64(vh.Pick(r, []int{0, 0, 1})), vh.Pick(r, faultQs), 0) // API fault on one queue during this step
					} else {
						add(11, int64(vh.Pick(r, []int{0, 0, 0, 0, 1, 2})), 0, 0)
					}
					nproc++
					syncAll()
				}
			case x < 10:
				add(11, int64(vh.Pick(r, []int{0, 0, 0, 1, 2, 5})), 0, 0)
				nproc++
				syncAll()
			case x < 12:
				add(2, int64(r.Range(1, 5)), anyq(), int64(r.Range(1, 5)))
			case x < 13:
				add(3, int64(r.Range(1, 5)), anyq(), int64(r.Range(1, 5)))
			case x < 15:
				add(4, int64(r.Range(1, 5)), 0, 0)
			case x < 16 && !withFaults:
				// new queues only get names never used before (a re-created name would make
				// the lister show annotations the server object no longer has)
				add(6, nq+1, int64(r.Range(0, int(nq))), 0)
				syncAll()
			case x < 17 && !withFaults:
				p := int64(r.Range(0, int(nq)))
				q := int64(r.Range(2, int(nq)+1))
				if p != q {
					add(7, q, p, 0)
					syncAll()
				}
			case x < 18:
				if r.Chance(1, 3) {
					// a deletion is always delivered at once: a lister-only child makes
					// closeHierarchicalQueue fail half-way through a map-ordered loop
					dq := int64(r.Range(2, int(nq)+1))
					if dq <= nq {
						add(8, dq, 0, 0)
						add(9, dq, 0, 0)
					}
				} else {
					add(10, anyq(), 0, 0)
				}
			default:
				add(9, anyq(), 0, 0)
			}
		}
		in = append(in, int64(ne))
		in = append(in, evs...)
		hsel := 1
		if stream == "lagged" || stream == "stale-init" || stream == "hier-lagged" {
			hsel = 5
		}
		emit(fmt.Sprintf("hist-%d", i), hsel, in, stream, nq >= 2 && ncmd >= 1 && nproc >= 2,
			map[string]any{"queues": nq, "events": ne, "stream": stream})
	}
}

func main() {
	vh.Harness{Run: run, Laws: laws, Gen: gen}.Main()
}
