// Sub-group policies and mixed action lists (extension round of C01).
//
//   subready/...   selector 3: real JobInfos WITH sub-group policies -> ssn.JobReady / JobPipelined / JobStarving /
//                  JobValid and ssn.SubJobReady / SubJobPipelined per sub-job, only gang enabled (correspondence)
//   sub/...        LAW-ONLY: real allocate / backfill cycles over jobs with sub-group policies (allocate.go
//                  allocateForJob: dry run per hyperNode, SaveOperations / RecoverOperations); law 105
//   mixed/...      LAW-ONLY: real cycles with action lists drawn from {allocate, backfill, preempt, reclaim};
//                  law 105 on the binds the cache received
// For the law-only streams the correspondence case (selector 4) only checks that model and harness
// read the same spec (numbers of jobs / tasks / actions); the oracle skeleton does not follow these paths.
package main

import (
	"fmt"
	"sort"
	"strings"

	metav1 "k8s.io/apimachinery/pkg/apis/meta/v1"
	v1 "k8s.io/api/core/v1"
	"k8s.io/apimachinery/pkg/api/resource"
	"k8s.io/apimachinery/pkg/types"
	"k8s.io/apimachinery/pkg/util/sets"

	"volcano.sh/apis/pkg/apis/scheduling"
	"volcano.sh/volcano/pkg/scheduler/actions/allocate"
	"volcano.sh/volcano/pkg/scheduler/actions/backfill"
	"volcano.sh/volcano/pkg/scheduler/actions/preempt"
	"volcano.sh/volcano/pkg/scheduler/actions/reclaim"
	"volcano.sh/volcano/pkg/scheduler/api"
	"volcano.sh/volcano/pkg/scheduler/cache"
	"volcano.sh/volcano/pkg/scheduler/conf"
	"volcano.sh/volcano/pkg/scheduler/framework"
	"volcano.sh/volcano/pkg/scheduler/plugins"
	"volcano.sh/volcano/pkg/scheduler/plugins/conformance"
	"volcano.sh/volcano/pkg/scheduler/plugins/gang"
	"volcano.sh/volcano/pkg/scheduler/plugins/priority"
	"volcano.sh/volcano/pkg/scheduler/plugins/proportion"

	"verif/harness/internal/sched"
	"verif/harness/internal/vh"
)

// Pol is a SubGroupPolicySpec: Size / MinGroups < 0 mean nil.  Policy k (1-based) is named "p<k>" and
// matches pods carrying the label "sg<k>"; the label value is the sub-group.
type Pol struct{ Size, MinGroups int64 }

type MJob struct {
	ID, Queue, Min, Prio, Phase int64
	RoleMin                     [][2]int64
	Pols                        []Pol
}

type MTask struct {
	sched.TaskSpec
	Pol, Val int64
	// InitCPU: cpu requested by an init container (the pod's request is max(init, containers));
	// TermPending: the pod is in phase Pending, named a node, and has a deletion timestamp
	// (a bound-not-started member that is terminating: Releasing)
	InitCPU     int64
	TermPending bool
}

type MQueue struct {
	ID, Weight, Recl, CapCPU int64
}

type MixSpec struct {
	Nodes      []sched.NodeSpec
	Queues     []MQueue
	Jobs       []MJob
	Tasks      []MTask
	Proportion bool
	Actions    []int64 // 1 allocate, 2 backfill, 3 preempt, 4 reclaim
}

func (c MixSpec) Enc() []int64 {
	out := []int64{int64(len(c.Nodes))}
	for _, n := range c.Nodes {
		out = append(out, n.ID, n.CPU, n.Pods)
	}
	out = append(out, int64(len(c.Queues)))
	for _, q := range c.Queues {
		out = append(out, q.ID, q.Weight, q.Recl, q.CapCPU)
	}
	out = append(out, int64(len(c.Jobs)))
	for _, j := range c.Jobs {
		out = append(out, j.ID, j.Queue, j.Min, j.Prio, j.Phase, int64(len(j.RoleMin)))
		for _, rm := range j.RoleMin {
			out = append(out, rm[0], rm[1])
		}
		out = append(out, int64(len(j.Pols)))
		for _, p := range j.Pols {
			out = append(out, p.Size, p.MinGroups)
		}
	}
	out = append(out, int64(len(c.Tasks)))
	for _, t := range c.Tasks {
		out = append(out, t.ID, t.Job, t.Role, t.Prio, t.CPU, t.Status, t.Node, vh.B(t.Preemptable), t.Pol, t.Val, t.InitCPU, vh.B(t.TermPending))
	}
	out = append(out, vh.B(c.Proportion), int64(len(c.Actions)))
	out = append(out, c.Actions...)
	return out
}

func DecMixSpec(r *sched.Tok) MixSpec {
	c := MixSpec{}
	r.List(func() {
		c.Nodes = append(c.Nodes, sched.NodeSpec{ID: r.Next(), Has: true, CPU: r.Next(), Mem: 256 << 20, Pods: r.Next()})
	})
	r.List(func() { c.Queues = append(c.Queues, MQueue{ID: r.Next(), Weight: r.Next(), Recl: r.Next(), CapCPU: r.Next()}) })
	r.List(func() {
		j := MJob{ID: r.Next(), Queue: r.Next(), Min: r.Next(), Prio: r.Next(), Phase: r.Next()}
		r.List(func() { j.RoleMin = append(j.RoleMin, [2]int64{r.Next(), r.Next()}) })
		r.List(func() { j.Pols = append(j.Pols, Pol{Size: r.Next(), MinGroups: r.Next()}) })
		c.Jobs = append(c.Jobs, j)
	})
	r.List(func() {
		t := MTask{}
		t.ID, t.Job, t.Role, t.Prio, t.CPU, t.Status, t.Node = r.Next(), r.Next(), r.Next(), r.Next(), r.Next(), r.Next(), r.Next()
		t.Preemptable = r.Bool()
		t.Pol, t.Val = r.Next(), r.Next()
		t.InitCPU = r.Next()
		t.TermPending = r.Bool()
		c.Tasks = append(c.Tasks, t)
	})
	c.Proportion = r.Bool()
	c.Actions = r.Ints()
	return c
}

func polSpecs(pols []Pol) []scheduling.SubGroupPolicySpec {
	out := []scheduling.SubGroupPolicySpec{}
	for k, p := range pols {
		sp := scheduling.SubGroupPolicySpec{Name: fmt.Sprintf("p%d", k+1), MatchLabelKeys: []string{fmt.Sprintf("sg%d", k+1)}}
		if p.Size >= 0 {
			s := int32(p.Size)
			sp.SubGroupSize = &s
		}
		if p.MinGroups >= 0 {
			m := int32(p.MinGroups)
			sp.MinSubGroups = &m
		}
		out = append(out, sp)
	}
	return out
}

func mixPhase(p int64) scheduling.PodGroupPhase {
	switch p {
	case 1:
		return scheduling.PodGroupPending
	case 3:
		return scheduling.PodGroupRunning
	}
	return scheduling.PodGroupInqueue
}

// subNumber: the model's sub-job id of a SubJobInfo ("<job>/p<k>-<v>" -> k*1000+v+1, the default sub-job -> 1)
func subNumber(job *api.JobInfo, sj *api.SubJobInfo) int64 {
	if sj.UID == job.DefaultSubJobID() {
		return 1
	}
	s := string(sj.UID)
	s = s[strings.LastIndex(s, "/")+1:]
	var k, v int64
	if _, err := fmt.Sscanf(s, "p%d-%d", &k, &v); err != nil {
		panic("unexpected sub-job id " + string(sj.UID))
	}
	return k*1000 + v + 1
}

// ---------- selector 3: pure readiness with sub-group policies ----------

type sgTask struct {
	ID, Role, Status, Pol, Val int64
	BE                         bool
}

func encSubReady(min int64, roleMin [][2]int64, pols []Pol, ts []sgTask) []int64 {
	out := []int64{min, int64(len(roleMin))}
	for _, rm := range roleMin {
		out = append(out, rm[0], rm[1])
	}
	out = append(out, int64(len(pols)))
	for _, p := range pols {
		out = append(out, p.Size, p.MinGroups)
	}
	out = append(out, int64(len(ts)))
	for _, t := range ts {
		out = append(out, t.ID, t.Role, vh.B(t.BE), t.Status, t.Pol, t.Val)
	}
	return out
}

func genSubReady(rng *vh.Rng, n int, emit func(id string, sel int, in []int64, kind string, nontrivial bool, desc any)) {
	for i := 0; i < n; i++ {
		r := rng.Fork()
		np := r.Range(0, 2)
		if r.Chance(3, 4) && np == 0 {
			np = 1
		}
		pols := []Pol{}
		groups := []int{}
		for k := 0; k < np; k++ {
			g := r.Range(0, 4)
			p := Pol{Size: int64(r.Range(0, 3)), MinGroups: int64(r.Range(0, g+1))}
			if r.Chance(1, 6) {
				p.Size = -1
			}
			if r.Chance(1, 6) {
				p.MinGroups = -1
			}
			pols = append(pols, p)
			groups = append(groups, g)
		}
		ts := []sgTask{}
		id := int64(0)
		roles := r.Range(1, 2)
		add := func(pol, val int64) {
			id++
			t := sgTask{ID: id, Role: int64(r.Range(1, roles)), Status: int64(r.Range(1, 10)), Pol: pol, Val: val, BE: r.Chance(1, 4)}
			if r.Chance(1, 3) {
				t.Status = vh.Pick(r, []int64{sched.SAllocated, sched.SRunning, sched.SBinding, sched.SPipelined})
			}
			ts = append(ts, t)
		}
		for k := 0; k < np; k++ {
			size := pols[k].Size
			if size < 0 {
				size = 1
			}
			for g := 1; g <= groups[k]; g++ {
				// around the sub-group size: size-1, size, size+1 tasks
				cnt := int(size) + r.Range(-1, 1)
				if cnt < 1 {
					cnt = 1
				}
				for c := 0; c < cnt; c++ {
					add(int64(k+1), int64(g))
				}
			}
		}
		for c := r.Range(0, 3); c > 0; c-- {
			add(0, 0) // default sub-job
		}
		if r.Chance(1, 8) {
			add(int64(np+1), 1) // label of a policy the PodGroup does not have
		}
		roleMin := [][2]int64{}
		if r.Chance(1, 3) {
			for role := 1; role <= roles; role++ {
				roleMin = append(roleMin, [2]int64{int64(role), int64(r.Range(0, 3))})
			}
		}
		min := int64(r.Range(0, len(ts)+1))
		emit(fmt.Sprintf("subready-%d", i), 3, encSubReady(min, roleMin, pols, ts), fmt.Sprintf("subready/policies=%d", np),
			len(ts) >= 2 && np >= 1, map[string]any{"tasks": len(ts), "min": min, "policies": pols})
	}
}

var subReadyCache *cache.SchedulerCache

func runSubReady(in []int64) []int64 {
	r := &sched.Tok{T: in}
	min := r.Next()
	roleMin := [][2]int64{}
	r.List(func() { roleMin = append(roleMin, [2]int64{r.Next(), r.Next()}) })
	pols := []Pol{}
	r.List(func() { pols = append(pols, Pol{Size: r.Next(), MinGroups: r.Next()}) })
	ts := []sgTask{}
	r.List(func() {
		t := sgTask{ID: r.Next(), Role: r.Next()}
		t.BE = r.Bool()
		t.Status, t.Pol, t.Val = r.Next(), r.Next(), r.Next()
		ts = append(ts, t)
	})
	ji := api.NewJobInfo(sched.JobID(1))
	pg := &api.PodGroup{PodGroup: scheduling.PodGroup{
		ObjectMeta: metav1.ObjectMeta{Name: sched.JobName(1), Namespace: "ns", UID: types.UID(sched.JobName(1))},
		Spec: scheduling.PodGroupSpec{MinMember: int32(min), Queue: sched.QueueName(1), MinTaskMember: map[string]int32{},
			SubGroupPolicy: polSpecs(pols)},
		Status: scheduling.PodGroupStatus{Phase: scheduling.PodGroupInqueue},
	}}
	for _, rm := range roleMin {
		pg.Spec.MinTaskMember[sched.RoleName(rm[0])] = int32(rm[1])
	}
	ji.SetPodGroup(pg)
	for _, t := range ts {
		spec := sched.TaskSpec{ID: t.ID, Job: 1, Role: t.Role, Status: t.Status}
		if !t.BE {
			spec.CPU = 1000
		}
		want := t.Status
		switch want {
		case sched.SAllocated, sched.SPipelined, sched.SBinding:
			spec.Status = sched.SPending
		case sched.SBound, sched.SRunning, sched.SReleasing:
			spec.Node = 1
		}
		pod := spec.Pod()
		if t.Pol > 0 {
			pod.Labels[fmt.Sprintf("sg%d", t.Pol)] = fmt.Sprint(t.Val)
		}
		ti := api.NewTaskInfo(pod)
		ji.AddTaskInfo(ti)
		if want != spec.Status {
			st := map[int64]api.TaskStatus{sched.SAllocated: api.Allocated, sched.SPipelined: api.Pipelined, sched.SBinding: api.Binding}[want]
			ji.UpdateTaskStatus(ti, st)
		}
		if sched.StatusKey(ti.Status) != want {
			panic(fmt.Sprintf("task t%d: built status %v, wanted key %d", t.ID, ti.Status, want))
		}
	}
	if subReadyCache == nil {
		subReadyCache = cache.NewDefaultMockSchedulerCache("verif-subready")
	}
	q := sched.QueueSpec{ID: 1, Open: true, Weight: 1}
	qi := api.NewQueueInfo(q.Object())
	snap := emptySnap()
	snap.Jobs[ji.UID] = ji
	snap.Queues[qi.UID] = qi
	sc := &sched.ScriptedCache{SchedulerCache: subReadyCache, Snap: snap, RefuseBind: map[int64]bool{}, RefuseEvict: map[int64]bool{}}
	framework.RegisterPluginBuilder(gang.PluginName, gang.New)
	o := conf.PluginOption{Name: gang.PluginName}
	plugins.ApplyPluginConfDefaults(&o)
	ssn := framework.OpenSession(sc, []conf.Tier{{Plugins: []conf.PluginOption{o}}}, nil)
	valid := int64(0)
	if vr := ssn.JobValid(ji); vr != nil && !vr.Pass {
		switch vr.Reason {
		case "NotEnoughPodsOfTask":
			valid = 1
		case "NotEnoughTasks":
			valid = 2
		default:
			valid = 9
		}
	}
	out := []int64{vh.B(ssn.JobReady(ji)), vh.B(ssn.JobPipelined(ji)), vh.B(ssn.JobStarving(ji)), valid}
	type row struct {
		n  int64
		sj *api.SubJobInfo
	}
	rows := []row{}
	for _, sj := range ji.SubJobs {
		rows = append(rows, row{subNumber(ji, sj), sj})
	}
	sort.Slice(rows, func(a, b int) bool { return rows[a].n < rows[b].n })
	out = append(out, int64(len(rows)))
	for _, rw := range rows {
		out = append(out, rw.n, vh.B(ssn.SubJobReady(ji, rw.sj)), vh.B(ssn.SubJobPipelined(ji, rw.sj)))
	}
	return out
}

func emptySnap() *api.ClusterInfo {
	return &api.ClusterInfo{
		Jobs: map[api.JobID]*api.JobInfo{}, Nodes: map[string]*api.NodeInfo{},
		Queues: map[api.QueueID]*api.QueueInfo{}, NamespaceInfo: map[api.NamespaceName]*api.NamespaceInfo{},
		RevocableNodes: map[string]*api.NodeInfo{},
		HyperNodes:     api.HyperNodeInfoMap{}, HyperNodesSetByTier: map[int]sets.Set[string]{},
		RealNodesSet: map[string]sets.Set[string]{}, HyperNodeTierNameMap: api.HyperNodeTierNameMap{},
		CSINodesStatus: map[string]*api.CSINodeStatusInfo{},
	}
}

// ---------- law-only world: real actions over the scripted cache ----------

type MixWorld struct {
	Init map[int64]api.TaskStatus // status of every TaskInfo as built from its pod
	// PodStatus / PodEmpty: read from the pod object when it was created (the session later writes
	// Spec.NodeName of pods it places, also of placements it rolls back)
	PodStatus map[int64]int64
	PodEmpty  map[int64]bool
	Spec   MixSpec
	Ssn    *framework.Session
	Tasks  map[int64]*api.TaskInfo
	Binds  []int64
	Evicts []int64
}

var mixCache *cache.SchedulerCache

func NewMixWorld(spec MixSpec) *MixWorld {
	w := &MixWorld{Spec: spec, Tasks: map[int64]*api.TaskInfo{}, Init: map[int64]api.TaskStatus{}, PodStatus: map[int64]int64{}, PodEmpty: map[int64]bool{}}
	if mixCache == nil {
		mixCache = cache.NewDefaultMockSchedulerCache("verif-mix")
	}
	snap := emptySnap()
	for _, q := range spec.Queues {
		qo := sched.QueueSpec{ID: q.ID, Open: true, Weight: q.Weight, CapCPU: q.CapCPU}.Object()
		switch q.Recl {
		case 1:
			t := true
			qo.Spec.Reclaimable = &t
		case 2:
			f := false
			qo.Spec.Reclaimable = &f
		}
		qi := api.NewQueueInfo(qo)
		snap.Queues[qi.UID] = qi
	}
	for _, j := range spec.Jobs {
		ji := api.NewJobInfo(sched.JobID(j.ID))
		pg := &api.PodGroup{PodGroup: scheduling.PodGroup{
			ObjectMeta: metav1.ObjectMeta{Name: sched.JobName(j.ID), Namespace: "ns", UID: types.UID(sched.JobName(j.ID))},
			Spec: scheduling.PodGroupSpec{MinMember: int32(j.Min), Queue: sched.QueueName(j.Queue), MinTaskMember: map[string]int32{},
				SubGroupPolicy: polSpecs(j.Pols)},
			Status: scheduling.PodGroupStatus{Phase: mixPhase(j.Phase)},
		}}
		for _, rm := range j.RoleMin {
			pg.Spec.MinTaskMember[sched.RoleName(rm[0])] = int32(rm[1])
		}
		ji.SetPodGroup(pg)
		ji.Priority = int32(j.Prio)
		snap.Jobs[ji.UID] = ji
	}
	tasks := append([]MTask{}, spec.Tasks...)
	sort.Slice(tasks, func(a, b int) bool { return tasks[a].ID < tasks[b].ID })
	for _, t := range tasks {
		pod := t.TaskSpec.Pod()
		if t.InitCPU > 0 {
			pod.Spec.InitContainers = []v1.Container{{Name: "init", Resources: v1.ResourceRequirements{Requests: v1.ResourceList{
				v1.ResourceCPU: *resource.NewMilliQuantity(t.InitCPU, resource.DecimalSI)}}}}
		}
		if t.TermPending {
			now := metav1.Now()
			pod.Status.Phase = v1.PodPending
			pod.DeletionTimestamp = &now
		}
		if t.Pol > 0 {
			pod.Labels[fmt.Sprintf("sg%d", t.Pol)] = fmt.Sprint(t.Val)
		}
		if !t.Preemptable {
			pod.Annotations["volcano.sh/preemptable"] = "false"
		}
		ti := api.NewTaskInfo(pod)
		w.Tasks[t.ID] = ti
		w.Init[t.ID] = ti.Status
		w.PodStatus[t.ID] = podStatusKey(pod)
		w.PodEmpty[t.ID] = podHasNoRequest(pod)
		if ji, ok := snap.Jobs[ti.Job]; ok {
			ji.AddTaskInfo(ti)
		}
	}
	for _, n := range spec.Nodes {
		ni := api.NewNodeInfo(n.Object())
		for _, t := range tasks {
			if t.Node == n.ID && t.Status != sched.SSucceeded && t.Status != sched.SFailed {
				_ = ni.AddTask(w.Tasks[t.ID])
			}
		}
		snap.Nodes[ni.Name] = ni
		snap.NodeList = append(snap.NodeList, ni.Name)
	}
	sc := &sched.ScriptedCache{SchedulerCache: mixCache, Snap: snap, RefuseBind: map[int64]bool{}, RefuseEvict: map[int64]bool{},
		OnBind:  func(t, n int64) { w.Binds = append(w.Binds, t) },
		OnEvict: func(t int64) { w.Evicts = append(w.Evicts, t) }}
	framework.RegisterPluginBuilder(gang.PluginName, gang.New)
	framework.RegisterPluginBuilder(priority.PluginName, priority.New)
	framework.RegisterPluginBuilder(conformance.PluginName, conformance.New)
	framework.RegisterPluginBuilder(proportion.PluginName, proportion.New)
	opt := func(name string) conf.PluginOption {
		o := conf.PluginOption{Name: name}
		plugins.ApplyPluginConfDefaults(&o)
		return o
	}
	tiers := []conf.Tier{{Plugins: []conf.PluginOption{opt(priority.PluginName), opt(gang.PluginName), opt(conformance.PluginName)}}}
	if spec.Proportion {
		tiers = append(tiers, conf.Tier{Plugins: []conf.PluginOption{opt(proportion.PluginName)}})
	}
	w.Ssn = framework.OpenSession(sc, tiers, nil)
	return w
}

func (w *MixWorld) RunActions() {
	conf.EnabledActionMap = map[string]bool{}
	for _, a := range w.Spec.Actions {
		var act framework.Action
		switch a {
		case 1:
			act = allocate.New()
		case 2:
			act = backfill.New()
		case 3:
			act = preempt.New()
		case 4:
			act = reclaim.New()
		default:
			panic(fmt.Sprint("unknown action ", a))
		}
		conf.EnabledActionMap[act.Name()] = true
		act.Initialize()
		act.Execute(w.Ssn)
		act.UnInitialize()
	}
	for id, t := range w.Tasks {
		if j, ok := w.Ssn.Jobs[t.Job]; ok {
			if cur, ok := j.Tasks[t.UID]; ok {
				w.Tasks[id] = cur
			}
		}
	}
}

// EncLaw105: job specs with policies, the final status of every task, the binds.
func (w *MixWorld) EncLaw105() []int64 {
	out := []int64{int64(len(w.Spec.Jobs))}
	for _, j := range w.Spec.Jobs {
		out = append(out, j.ID, j.Min, int64(len(j.RoleMin)))
		for _, rm := range j.RoleMin {
			out = append(out, rm[0], rm[1])
		}
		out = append(out, int64(len(j.Pols)))
		for _, p := range j.Pols {
			out = append(out, p.Size, p.MinGroups)
		}
	}
	out = append(out, int64(len(w.Spec.Tasks)))
	for _, t := range w.Spec.Tasks {
		ti := w.Tasks[t.ID]
		// what the CLUSTER says of the task, not what the TaskInfo claims: an empty request is "no
		// request on any container, init containers included"; a task the session did not touch has
		// the status of its pod (the spec's)
		// Both values are read from the real POD OBJECT the TaskInfo was built from, at the moment it was
		// created (never from TaskInfo.BestEffort / TaskInfo.Status), and cross-checked against the spec.
		if t.Mem != 0 || t.GPU != 0 {
			panic("mix tasks carry cpu only: the empty-request flag of law 105 would be wrong")
		}
		be := w.PodEmpty[t.ID]
		if be != (t.CPU == 0 && t.InitCPU == 0) {
			panic(fmt.Sprintf("t%d: pod object and spec disagree on `no request on any container`", t.ID))
		}
		st := sched.StatusKey(ti.Status)
		if ti.Status == w.Init[t.ID] {
			st = w.PodStatus[t.ID]
			if st != t.Status {
				panic(fmt.Sprintf("t%d: pod object says status key %d, the spec %d", t.ID, st, t.Status))
			}
		}
		out = append(out, t.ID, t.Job, t.Role, vh.B(be), t.Pol, t.Val, st)
	}
	out = append(out, int64(len(w.Binds)))
	out = append(out, w.Binds...)
	return out
}

// EncLaw105With: like EncLaw105 with the bind list filtered.
func (w *MixWorld) EncLaw105With(keep func(task int64) bool) []int64 {
	all := w.Binds
	var b []int64
	for _, t := range all {
		if keep(t) {
			b = append(b, t)
		}
	}
	w.Binds = b
	out := w.EncLaw105()
	w.Binds = all
	return out
}

// podHasNoRequest: no container of the pod, init containers included, requests anything.
func podHasNoRequest(pod *v1.Pod) bool {
	for _, cs := range [][]v1.Container{pod.Spec.InitContainers, pod.Spec.Containers} {
		for _, c := range cs {
			for _, q := range c.Resources.Requests {
				if !q.IsZero() {
					return false
				}
			}
		}
	}
	return true
}

// podStatusKey: what the cluster says of a pod the session did not touch, in the property's terms:
// a pod being deleted is terminating whatever its phase; a pending pod that names a node is bound.
func podStatusKey(pod *v1.Pod) int64 {
	switch pod.Status.Phase {
	case v1.PodSucceeded:
		return sched.SSucceeded
	case v1.PodFailed:
		return sched.SFailed
	case v1.PodRunning, v1.PodPending:
		if pod.DeletionTimestamp != nil {
			return sched.SReleasing
		}
		if pod.Status.Phase == v1.PodRunning {
			return sched.SRunning
		}
		if pod.Spec.NodeName != "" {
			return sched.SBound
		}
		return sched.SPending
	}
	return sched.SUnknown
}

// preRunBinds runs a directed case once in the generator: did the law's antecedent (a bind) occur?
func preRunBinds(spec MixSpec) int {
	w := NewMixWorld(spec)
	w.RunActions()
	return len(w.Binds)
}

// f10Jobs: F10 mechanism per job on THIS execution: allocate more than once, and the job received a
// bind while it still holds a never-bound session-Allocated task with a non-empty request
func (w *MixWorld) f10Jobs() map[api.JobID]bool {
	out := map[api.JobID]bool{}
	k := 0
	for _, a := range w.Spec.Actions {
		if a == 1 {
			k++
		}
	}
	if k < 2 {
		return out
	}
	boundJob := map[api.JobID]bool{}
	for _, b := range w.Binds {
		boundJob[w.Tasks[b].Job] = true
	}
	for _, t := range w.Tasks {
		if boundJob[t.Job] && t.Status == api.Allocated && !t.BestEffort {
			out[t.Job] = true
		}
	}
	return out
}

var lastMix *MixWorld

func runMixed(in []int64) []int64 {
	spec := DecMixSpec(&sched.Tok{T: in})
	w := NewMixWorld(spec)
	w.RunActions()
	lastMix = w
	return []int64{int64(len(spec.Jobs)), int64(len(spec.Tasks)), int64(len(spec.Actions))}
}

func lawsMixed(law func(lsel int, lin []int64, sig string)) {
	w := lastMix
	fj := w.f10Jobs()
	if len(fj) == 0 {
		law(105, w.EncLaw105(), "")
		return
	}
	// without the binds of the F10 jobs (unsigned), and with those only (selector 115, signed)
	law(105, w.EncLaw105With(func(t int64) bool { return !fj[w.Tasks[t].Job] }), "")
	law(115, w.EncLaw105With(func(t int64) bool { return fj[w.Tasks[t].Job] }), SigF10)
}

// ---------- generators of the law-only streams ----------

// genMix draws a cluster.  subgroups: gang jobs with sub-group policies (allocateForJob path);
// evict: running low-priority jobs fill the nodes, starving higher-priority gangs wait (preempt /
// reclaim have work), two queues with proportion.
func genMix(r *vh.Rng, subgroups, evict bool) MixSpec {
	spec := MixSpec{}
	nn := r.Range(1, 3)
	free := map[int64]int64{}
	for i := 1; i <= nn; i++ {
		n := sched.NodeSpec{ID: int64(i), Has: true, CPU: int64(r.Range(2, 8)) * 1000, Mem: 256 << 20, Pods: 40}
		spec.Nodes = append(spec.Nodes, n)
		free[n.ID] = n.CPU
	}
	nq := 1
	if evict {
		nq = r.Range(1, 3)
	}
	for q := 1; q <= nq; q++ {
		spec.Queues = append(spec.Queues, MQueue{ID: int64(q), Weight: int64(r.Range(1, 3)), Recl: vh.Pick(r, []int64{0, 1, 1, 2})})
	}
	spec.Proportion = evict && (nq > 1 || r.Chance(1, 2))
	tid := int64(0)
	nj := r.Range(1, 4)
	if evict {
		nj = r.Range(3, 5)
	}
	for jn := 1; jn <= nj; jn++ {
		j := MJob{ID: int64(jn), Queue: int64(r.Range(1, nq)), Phase: vh.Pick(r, []int64{2, 2, 3}), Prio: int64(r.Range(0, 3))}
		victim := evict && (jn <= 2 || r.Chance(1, 3))
		if victim {
			j.Prio = 0
			j.Phase = 3
		}
		jt := []MTask{}
		addTask := func(pol, val int64) {
			tid++
			t := MTask{Pol: pol, Val: val}
			t.ID, t.Job, t.Role, t.Prio = tid, j.ID, int64(r.Range(1, 2)), int64(r.Range(0, 2))
			t.CPU = int64(r.Range(1, 4)) * 500
			if r.Chance(1, 10) {
				t.CPU = 0
			}
			t.Preemptable = !r.Chance(1, 5)
			t.Status = sched.SPending
			place := victim && r.Chance(4, 5) || r.Chance(1, 6)
			if place {
				nid := int64(r.Range(1, nn))
				if free[nid] >= t.CPU {
					free[nid] -= t.CPU
					t.Node = nid
					t.Status = vh.Pick(r, []int64{sched.SRunning, sched.SRunning, sched.SRunning, sched.SBound, sched.SReleasing})
				}
			} else if r.Chance(1, 15) {
				t.Status = vh.Pick(r, []int64{sched.SSucceeded, sched.SFailed})
				t.Node = int64(r.Range(1, nn))
			}
			jt = append(jt, t)
		}
		needed := int64(0)
		if subgroups && (jn == 1 || r.Chance(2, 3)) {
			np := r.Range(1, 2)
			for k := 1; k <= np; k++ {
				g := r.Range(1, 3)
				p := Pol{Size: int64(r.Range(1, 3)), MinGroups: int64(r.Range(0, g))}
				if r.Chance(1, 8) {
					p.MinGroups = int64(g + 1) // more sub-groups required than exist
				}
				if r.Chance(1, 10) {
					p.Size = -1
				}
				if r.Chance(1, 10) {
					p.MinGroups = -1
				}
				j.Pols = append(j.Pols, p)
				size := p.Size
				if size < 0 {
					size = 1
				}
				for v := 1; v <= g; v++ {
					cnt := int(size) + vh.Pick(r, []int{0, 0, 0, 1, -1})
					if cnt < 1 {
						cnt = 1
					}
					for c := 0; c < cnt; c++ {
						addTask(int64(k), int64(v))
					}
				}
				if p.MinGroups > 0 {
					needed += p.MinGroups * size
				}
			}
			for c := r.Range(0, 2); c > 0; c-- {
				addTask(0, 0)
			}
		} else {
			for c := r.Range(1, 5); c > 0; c-- {
				addTask(0, 0)
			}
		}
		switch r.Intn(4) {
		case 0:
			j.Min = needed
		case 1:
			j.Min = int64(len(jt))
		case 2:
			j.Min = int64(r.Range(0, len(jt)))
		default:
			j.Min = int64(r.Range(1, len(jt)))
		}
		if victim {
			j.Min = int64(r.Range(0, len(jt)-1))
		}
		if r.Chance(1, 4) {
			total := int64(0)
			for role := int64(1); role <= 2; role++ {
				m := int64(r.Range(0, 2))
				j.RoleMin = append(j.RoleMin, [2]int64{role, m})
				total += m
			}
			if r.Chance(2, 3) && total > j.Min {
				j.Min = total
			}
		}
		spec.Jobs = append(spec.Jobs, j)
		spec.Tasks = append(spec.Tasks, jt...)
	}
	if evict {
		// nearly full nodes: what the running pods do not hold is cut down to a small slack, so that
		// the starving gangs need evictions
		for i := range spec.Nodes {
			n := &spec.Nodes[i]
			used := n.CPU - free[n.ID]
			if used > 0 && r.Chance(4, 5) {
				n.CPU = used + int64(r.Range(0, 2))*500
			}
		}
		na := r.Range(1, 4)
		for a := 0; a < na; a++ {
			spec.Actions = append(spec.Actions, int64(r.Range(1, 4)))
		}
		// make sure preempt or reclaim is in the list
		has := false
		for _, a := range spec.Actions {
			has = has || a >= 3
		}
		if !has {
			spec.Actions = append(spec.Actions, int64(r.Range(3, 4)))
		}
	} else {
		spec.Actions = vh.Pick(r, [][]int64{{1}, {1}, {1, 2}, {2, 1}, {1, 1}, {1, 2, 1}})
	}
	return spec
}

// specPipelinedGroup: one policy (SubGroupSize `size`, MinSubGroups 2), two sub-groups of `size` pods.
// Group 1 and all but one pod of group 2 fit the idle cpu; the last pod of group 2 fits only
// FutureIdle behind a Releasing pod: group 2 is complete only with a Pipelined pod, so the job is
// pipelined but not ready: nothing may be bound.  minMember is reached by the allocated pods alone
// (extra pods without label), so it is the sub-group clause that decides.
func specPipelinedGroup(r *vh.Rng) MixSpec {
	size := int64(r.Range(1, 3))
	w := int64(500)
	extra := int64(r.Range(0, 2))
	nAlloc := 2*size - 1 + extra
	spec := MixSpec{}
	spec.Queues = []MQueue{{ID: 1, Weight: 1}}
	spec.Nodes = []sched.NodeSpec{{ID: 1, Has: true, CPU: nAlloc*w + 2000, Mem: 256 << 20, Pods: 40}}
	spec.Jobs = []MJob{{ID: 1, Queue: 1, Min: 1, Phase: 3},
		{ID: 2, Queue: 1, Min: int64(r.Range(1, int(nAlloc))), Phase: 2, Pols: []Pol{{Size: size, MinGroups: 2}}}}
	tid := int64(1)
	rel := MTask{}
	rel.ID, rel.Job, rel.Role, rel.CPU, rel.Status, rel.Node, rel.Preemptable = 1, 1, 1, 2000, sched.SReleasing, 1, true
	spec.Tasks = append(spec.Tasks, rel)
	add := func(pol, val, cpu, prio int64) {
		tid++
		t := MTask{Pol: pol, Val: val}
		t.ID, t.Job, t.Role, t.Prio, t.CPU, t.Status, t.Preemptable = tid, 2, 1, prio, cpu, sched.SPending, true
		spec.Tasks = append(spec.Tasks, t)
	}
	for c := int64(0); c < size; c++ {
		add(1, 1, w, 9)
	}
	for c := int64(0); c < size-1; c++ {
		add(1, 2, w, 9)
	}
	add(1, 2, 1500, 1) // fits only FutureIdle
	for c := int64(0); c < extra; c++ {
		add(0, 0, w, 9)
	}
	spec.Actions = vh.Pick(r, [][]int64{{1}, {1}, {1, 2}, {1, 3}, {4, 1}})
	return spec
}

// specPodShapes (round 9): gang members built from real pods with requests on init containers only,
// init > containers, and a terminating bound-not-started member.
//   variant 0: minMember 2; p1 asks 1 cpu; p2 asks nothing on its containers and `big` on an init
//              container; the node holds p1 only: p2 is NOT an empty-request pod, nothing may be bound
//   variant 1: same with containers 500m, init `big` (control for init > containers)
//   variant 2: minMember 2; a Pending pod already named a node and being deleted (Releasing, does not
//              count) + p1 fitting: nothing may be bound
func specPodShapes(r *vh.Rng, variant int) MixSpec {
	spec := MixSpec{}
	spec.Queues = []MQueue{{ID: 1, Weight: 1}}
	spec.Nodes = []sched.NodeSpec{{ID: 1, Has: true, CPU: 2000, Mem: 256 << 20, Pods: 40}}
	spec.Jobs = []MJob{{ID: 1, Queue: 1, Min: 2, Phase: 2}}
	p1 := MTask{}
	p1.ID, p1.Job, p1.Role, p1.Prio, p1.CPU, p1.Status, p1.Preemptable = 1, 1, 1, 5, 1000, sched.SPending, true
	p2 := MTask{}
	p2.ID, p2.Job, p2.Role, p2.Prio, p2.Status, p2.Preemptable = 2, 1, 1, 1, sched.SPending, true
	switch variant {
	case 0:
		p2.InitCPU = int64(r.Range(3, 6)) * 1000
	case 1:
		p2.CPU = 500
		p2.InitCPU = int64(r.Range(3, 6)) * 1000
	default:
		p2.CPU = 500
		p2.Status = sched.SReleasing
		p2.Node = 1
		p2.TermPending = true
	}
	spec.Tasks = []MTask{p1, p2}
	for k := r.Range(0, 1); k > 0; k-- { // an extra pending member that fits nowhere
		e := MTask{}
		e.ID, e.Job, e.Role, e.CPU, e.Status, e.Preemptable = 3, 1, 1, 9000, sched.SPending, true
		spec.Tasks = append(spec.Tasks, e)
	}
	spec.Actions = vh.Pick(r, [][]int64{{1}, {1, 2}, {2, 1}, {1, 1}})
	return spec
}

func genLawOnly(rng *vh.Rng, n int, emit func(id string, sel int, in []int64, kind string, nontrivial bool, desc any)) {
	for i := 0; i < n; i++ {
		r := rng.Fork()
		var spec MixSpec
		var kind string
		if i%10 == 4 {
			variant := (i / 10) % 3
			spec = specPodShapes(r, variant)
			nb := preRunBinds(spec)
			neg := ""
			if nb == 0 {
				neg = "/directed-negative" // nothing bound: law 105's antecedent is empty, a negative control
			}
			emit(fmt.Sprintf("lawonly-%d", i), 4, spec.Enc(), fmt.Sprintf("podshape/law-only/%s%s/actions=%v",
				[]string{"init-container-only-request", "init-above-containers", "terminating-bound-not-started"}[variant], neg, spec.Actions), nb > 0,
				map[string]any{"directed": "gang member built from a real pod (round 9)", "variant": variant, "actions": spec.Actions, "binds": nb})
			continue
		}
		if i%10 == 9 {
			spec = specPipelinedGroup(r)
			nb := preRunBinds(spec)
			neg := ""
			if nb == 0 {
				neg = "/directed-negative"
			}
			emit(fmt.Sprintf("lawonly-%d", i), 4, spec.Enc(), fmt.Sprintf("sub/law-only/directed-pipelined-group%s/actions=%v", neg, spec.Actions), nb > 0,
				map[string]any{"directed": "a sub-group complete only with a Pipelined pod", "tasks": len(spec.Tasks), "actions": spec.Actions, "binds": nb})
			continue
		}
		switch i % 3 {
		case 0:
			spec = genMix(r, true, false)
			kind = fmt.Sprintf("sub/law-only/actions=%v", spec.Actions)
		case 1:
			spec = genMix(r, false, true)
			kind = fmt.Sprintf("mixed/law-only/actions=%d", len(spec.Actions))
		default:
			spec = genMix(r, true, true)
			kind = fmt.Sprintf("mixed+sub/law-only/actions=%d", len(spec.Actions))
		}
		pend := 0
		for _, t := range spec.Tasks {
			if t.Status == sched.SPending {
				pend++
			}
		}
		emit(fmt.Sprintf("lawonly-%d", i), 4, spec.Enc(), kind, pend >= 2,
			map[string]any{"nodes": len(spec.Nodes), "jobs": len(spec.Jobs), "tasks": len(spec.Tasks), "pending": pend, "actions": spec.Actions})
	}
}
