// c01 harness: real scheduling cycles (allocate / backfill with the real gang, priority and
// proportion plugins) against the action skeleton model; law selector 101.
//
// Streams (see docs/notes/C01.md):
//   cycle/...        random clusters, one cycle (shared generator sched.GenCycle)
//   f10/...          directed: `allocate` twice around a kept (pipelined-only) statement (DESIGN 7 F10)
//   roles/...        directed: role minimums in force, the short role(s) fit only FutureIdle (Releasing pods)
//   next/...         consecutive cycles: the binds of a cycle are fed back as Bound/Running pods
//   ready/...        pure readiness: random JobInfos -> ssn.JobReady/JobPipelined/JobStarving/JobValid (selector 2)
package main

import (
	"fmt"

	v1 "k8s.io/api/core/v1"
	metav1 "k8s.io/apimachinery/pkg/apis/meta/v1"
	"k8s.io/apimachinery/pkg/types"
	"k8s.io/apimachinery/pkg/util/sets"

	"volcano.sh/apis/pkg/apis/scheduling"
	"volcano.sh/volcano/pkg/scheduler/api"
	"volcano.sh/volcano/pkg/scheduler/cache"
	"volcano.sh/volcano/pkg/scheduler/conf"
	"volcano.sh/volcano/pkg/scheduler/framework"
	"volcano.sh/volcano/pkg/scheduler/plugins"
	"volcano.sh/volcano/pkg/scheduler/plugins/gang"

	"verif/harness/internal/sched"
	"verif/harness/internal/vh"
)

// SigF10: allocate run twice in one cycle commits a second statement of a job whose first
// statement was kept uncommitted (pipelined only): fewer than minMember pods are bound.
const SigF10 = "C01-F10-second-allocate-commits-over-kept-statement"

func main() {
	base := sched.CycleHarness(101, false)
	h := vh.Harness{}
	h.Run2 = func(sel int, in []int64) ([]int64, []int64) {
		switch sel {
		case 2:
			return in, runReady(in)
		case 3:
			return in, runSubReady(in)
		case 4:
			return in, runMixed(in)
		case 5:
			return runRolesUpdate(base, in)
		}
		return base.Run2(sel, in)
	}
	h.Laws = func(sel int, in, got []int64, law func(lsel int, lin []int64, sig string)) {
		if sel == 4 {
			lawsMixed(law)
			return
		}
		if sel == 5 {
			in = stripUpdatePrefix(in)
		} else if sel != 1 {
			return
		}
		base.Laws(1, in, got, func(lsel int, lin []int64, _ string) {
			// F10 is attached per JOB and per mechanism: J = the jobs that received a bind while still
			// holding a never-bound session-Allocated task with a non-empty request, in a cycle with
			// allocate more than once - judged on THIS execution (statuses and binds read from `got`).
			// The law is evaluated twice: without J's binds (unsigned: every other violation is
			// reported) and with J's binds only (selector 111, signed).
			fj := f10Jobs(in, got)
			if len(fj) == 0 {
				law(lsel, lin, "")
			} else {
				rest, only := splitBinds(in, got, lin, fj)
				law(lsel, rest, "")
				law(111, only, SigF10)
			}
			// the guard of bind_only_when_gang_ok along the model's replay of this very execution
			// (claimed only for action lists with at most one allocate: Entry.law_guard)
			law(104, lin, "")
		})
	}
	h.Gen = func(rng *vh.Rng, n int, emit func(id string, sel int, in []int64, kind string, nontrivial bool, desc any)) {
		base.Gen(rng, n, emit)
		genF10(rng, max(2, n/30), emit)
		genRoles(rng, max(6, n/12), emit)
		genSubReady(rng, max(20, n), emit)
		genLawOnly(rng, max(9, n/2), emit)
		genNext(rng, max(2, n/6), emit)
		genReady(rng, max(20, n*3), emit)
	}
	h.Main()
}

// preRunCycleBinds runs a directed cycle case once in the generator: did a bind (the antecedent of
// law 101) occur?  Cases without one are negative controls: kind suffix /directed-negative, not counted
// as non-trivial.
func preRunCycleBinds(spec sched.CycleSpec) int {
	cw := sched.NewCycleWorld(spec)
	cw.RunActions()
	n := 0
	for _, e := range cw.Trace {
		if e.Kind == 2 {
			n++
		}
	}
	return n
}

func negTag(nb int) string {
	if nb == 0 {
		return "/directed-negative"
	}
	return ""
}

func countAllocate(acts []int64) int {
	k := 0
	for _, a := range acts {
		if a == 1 {
			k++
		}
	}
	return k
}

// parseGot reads the correspondence output of a cycle: the binds of every step and the final
// status of every task.
func parseGot(got []int64) (binds []int64, final map[int64]int64) {
	final = map[int64]int64{}
	i := 0
	for i < len(got) && got[i] == -101 {
		i += 2
		n := int(got[i])
		i += 1 + 4*n
		n = int(got[i])
		i++
		for k := 0; k < n; k++ {
			binds = append(binds, got[i])
			i += 2
		}
		n = int(got[i])
		i += 1 + n
	}
	if i >= len(got) || got[i] != -102 {
		panic("parseGot: no final section")
	}
	i++
	n := int(got[i])
	i++
	for k := 0; k < n; k++ {
		final[got[i]] = got[i+1]
		i += 3
	}
	return
}

// f10Jobs: the jobs showing the F10 mechanism in the judged execution.
func f10Jobs(in, got []int64) map[int64]bool {
	spec := sched.DecCycleSpec(&sched.Tok{T: in})
	out := map[int64]bool{}
	if countAllocate(spec.Actions) < 2 {
		return out
	}
	binds, final := parseGot(got)
	bound := map[int64]bool{}
	for _, b := range binds {
		bound[b] = true
	}
	hasBind := map[int64]bool{}
	for _, t := range spec.Tasks {
		if bound[t.ID] {
			hasBind[t.Job] = true
		}
	}
	for _, t := range spec.Tasks {
		be := t.CPU == 0 && t.Mem == 0 && t.GPU == 0
		if hasBind[t.Job] && final[t.ID] == sched.SAllocated && !be && !bound[t.ID] {
			out[t.Job] = true
		}
	}
	return out
}

// splitBinds rewrites the bind list at the end of a law input: without the binds of the jobs in fj,
// and with those binds only.
func splitBinds(in, got, lin []int64, fj map[int64]bool) (rest, only []int64) {
	spec := sched.DecCycleSpec(&sched.Tok{T: in})
	jobOf := map[int64]int64{}
	for _, t := range spec.Tasks {
		jobOf[t.ID] = t.Job
	}
	binds, _ := parseGot(got)
	n := len(binds)
	if len(lin) < n+1 || lin[len(lin)-n-1] != int64(n) {
		panic("splitBinds: the law input does not end with the bind list")
	}
	head := lin[:len(lin)-n-1]
	var a, b []int64
	for _, t := range lin[len(lin)-n:] {
		if fj[jobOf[t]] {
			b = append(b, t)
		} else {
			a = append(a, t)
		}
	}
	rest = append(append(append([]int64{}, head...), int64(len(a))), a...)
	only = append(append(append([]int64{}, head...), int64(len(b))), b...)
	return
}

// ---------- roles family with a PodGroup update before the cycle (selector 5) ----------

// input of selector 5: [k, (role, oldMin) * k] ++ cycle input.  The JobInfo of job 2 is first built with
// the OLD minTaskMember distribution (same minMember, same number of roles), then the PodGroup is
// updated (JobInfo.SetPodGroup) to the distribution of the spec; model and laws judge against the
// CURRENT PodGroup.
func splitUpdatePrefix(in []int64) (old [][2]int64, rest []int64) {
	k := int(in[0])
	for i := 0; i < k; i++ {
		old = append(old, [2]int64{in[1+2*i], in[2+2*i]})
	}
	return old, in[1+2*k:]
}
func stripUpdatePrefix(in []int64) []int64 { _, rest := splitUpdatePrefix(in); return rest }

func runRolesUpdate(base vh.Harness, in []int64) ([]int64, []int64) {
	old, rest := splitUpdatePrefix(in)
	r := &sched.Tok{T: rest}
	specNew := sched.DecCycleSpec(r)
	specOld := specNew
	specOld.Jobs = append([]sched.JobSpec{}, specNew.Jobs...)
	var newMin [][2]int64
	for i := range specOld.Jobs {
		if specOld.Jobs[i].ID == 2 {
			newMin = specOld.Jobs[i].RoleMin
			specOld.Jobs[i].RoleMin = old
		}
	}
	sched.PreOpenHook = func(cw *sched.CycleWorld, snap *api.ClusterInfo) {
		ji := snap.Jobs[sched.JobID(2)]
		pg := &api.PodGroup{PodGroup: *ji.PodGroup.PodGroup.DeepCopy()}
		pg.Spec.MinTaskMember = map[string]int32{}
		for _, rm := range newMin {
			pg.Spec.MinTaskMember[sched.RoleName(rm[0])] = int32(rm[1])
		}
		ji.SetPodGroup(pg)
	}
	defer func() { sched.PreOpenHook = nil }()
	mIn, got := base.Run2(1, specOld.Enc(sched.EpsUnits))
	// what follows the spec in the model input (queue limits, reconstructed choices) is kept; the spec
	// the model sees is the CURRENT one
	rr := &sched.Tok{T: mIn}
	_ = sched.DecCycleSpec(rr)
	out := append([]int64{}, in[:1+2*len(old)]...)
	out = append(out, specNew.Enc(sched.EpsUnits)...)
	out = append(out, mIn[rr.I:]...)
	return out, got
}

// ---------- F10 directed stream ----------

// specF10: node n1 with a Releasing pod (so that FutureIdle > Idle), gang J (job 2) with
// minMember 3 < sum of role minimums 4 (role minimums not in force):
//   t2 r1 fits Idle -> Allocated;  t3 r1 fits only FutureIdle -> Pipelined;  t5 r2 fits nowhere:
//   NeedContinueAllocating = (ReadyTaskNum 1 + pending of non-failed roles 1 >= 3) = false -> break,
//   t4 (r1, small) is never tried.  JobPipelined (1 + 1 + best-effort 1 >= 3): the statement is kept.
// Second allocate: t5's role has fit errors -> skipped; t4 -> Allocated; JobReady (2 + 1 >= 3) ->
// the second statement (t4 alone) is committed.
func specF10(scale int64, extraBE int64, small int64) sched.CycleSpec {
	spec := sched.CycleSpec{PGPhase: map[int64]int64{1: 3, 2: 2}}
	spec.Nodes = []sched.NodeSpec{{ID: 1, Has: true, CPU: 4000 * scale, Mem: 64 << 20, Pods: 16}}
	spec.Queues = []sched.QueueSpec{{ID: 1, Open: true, Weight: 1}}
	spec.Jobs = []sched.JobSpec{
		{ID: 1, Queue: 1, Min: 1},
		{ID: 2, Queue: 1, Min: 3 + extraBE, RoleMin: [][2]int64{{1, 2 + extraBE}, {2, 2}}},
	}
	spec.Tasks = []sched.TaskSpec{
		{ID: 1, Job: 1, Role: 1, Prio: 0, CPU: 2000 * scale, Status: sched.SReleasing, Node: 1},
		{ID: 2, Job: 2, Role: 1, Prio: 9, CPU: 1000 * scale, Status: sched.SPending},
		{ID: 3, Job: 2, Role: 1, Prio: 8, CPU: 2000 * scale, Status: sched.SPending},
		{ID: 4, Job: 2, Role: 1, Prio: 1, CPU: small, Status: sched.SPending},
		{ID: 5, Job: 2, Role: 2, Prio: 5, CPU: 9000 * scale, Status: sched.SPending},
		{ID: 6, Job: 2, Role: 2, Prio: 0, Status: sched.SPending}, // best effort
	}
	for k := int64(0); k < extraBE; k++ {
		spec.Tasks = append(spec.Tasks, sched.TaskSpec{ID: 7 + k, Job: 2, Role: 2, Prio: 0, Status: sched.SPending})
	}
	spec.Actions = []int64{1, 1}
	return spec
}

// specPipelinedOnly: a gang of `min` pods of which one fits only FutureIdle: JobPipelined but not
// JobReady, the statement must be kept and NOTHING bound (a scheduler that counts Pipelined tasks
// as ready, or commits on JobPipelined, binds min-1 pods here).
func specPipelinedOnly(scale int64, min int64) sched.CycleSpec {
	spec := sched.CycleSpec{PGPhase: map[int64]int64{1: 3, 2: 2}}
	spec.Nodes = []sched.NodeSpec{{ID: 1, Has: true, CPU: (min + 1) * 1000 * scale, Mem: 64 << 20, Pods: 16}}
	spec.Queues = []sched.QueueSpec{{ID: 1, Open: true, Weight: 1}}
	spec.Jobs = []sched.JobSpec{{ID: 1, Queue: 1, Min: 1}, {ID: 2, Queue: 1, Min: min}}
	spec.Tasks = []sched.TaskSpec{{ID: 1, Job: 1, Role: 1, CPU: 2000 * scale, Status: sched.SReleasing, Node: 1}}
	for k := int64(0); k < min-1; k++ {
		spec.Tasks = append(spec.Tasks, sched.TaskSpec{ID: 2 + k, Job: 2, Role: 1, Prio: 9, CPU: 1000 * scale, Status: sched.SPending})
	}
	spec.Tasks = append(spec.Tasks, sched.TaskSpec{ID: 1 + min, Job: 2, Role: 1, Prio: 1, CPU: 2000 * scale, Status: sched.SPending})
	return spec
}

func genF10(rng *vh.Rng, n int, emit func(id string, sel int, in []int64, kind string, nontrivial bool, desc any)) {
	for i := 0; i < n; i++ {
		r := rng.Fork()
		if i%3 == 2 {
			spec := specPipelinedOnly(int64(r.Range(1, 2)), int64(r.Range(2, 4)))
			spec.Actions = vh.Pick(r, [][]int64{{1}, {1, 2}, {2, 1}})
			nb := preRunCycleBinds(spec)
			emit(fmt.Sprintf("f10-%d", i), 1, spec.Enc(sched.EpsUnits), fmt.Sprintf("f10/pipelined-only%s/actions=%v", negTag(nb), spec.Actions), nb > 0,
				map[string]any{"directed": "pipelined-only gang must stay unbound", "actions": spec.Actions})
			continue
		}
		spec := specF10(int64(r.Range(1, 3)), int64(r.Range(0, 2)), int64(r.Range(1, 4))*250)
		if i%3 == 1 {
			// a second gang (job 3, minMember 2): one empty-request pod and one pod that fits nowhere: it
			// must stay unbound; a violation on THIS job must not be covered by the F10 signature of job 2
			spec.Jobs = append(spec.Jobs, sched.JobSpec{ID: 3, Queue: 1, Min: 2})
			spec.PGPhase[3] = 2
			spec.Tasks = append(spec.Tasks,
				sched.TaskSpec{ID: 20, Job: 3, Role: 1, Prio: 0, Status: sched.SPending},
				sched.TaskSpec{ID: 21, Job: 3, Role: 1, Prio: 0, CPU: 64000, Status: sched.SPending})
		}
		acts := vh.Pick(r, [][]int64{{1, 1}, {1, 1}, {1, 2, 1}, {1}, {1, 2}})
		if i < 2 {
			acts = [][]int64{{1, 1}, {1, 2, 1}}[i]
		}
		spec.Actions = acts
		kind := fmt.Sprintf("f10/actions=%v", acts)
		nb := preRunCycleBinds(spec)
		emit(fmt.Sprintf("f10-%d", i), 1, spec.Enc(sched.EpsUnits), kind+negTag(nb), nb > 0,
			map[string]any{"directed": "kept statement then second allocate", "actions": acts})
	}
}

// ---------- directed: a short role that is only pipelined ----------

// specRoles: minTaskMember in force (sum of role minimums <= minMember); the LONG role (role 1) has
// at least minMember replicas that fit the idle cpu, so the allocated pods alone reach minMember;
// the tasks of the SHORT role(s) (roles 2, 3) are larger than what stays idle and fit only
// FutureIdle thanks to Releasing pods: they are Pipelined.  JobReady must be false (CheckTaskReady:
// a pipelined pod does not occupy its role's slot), JobPipelined true: statement kept, NO bind.
// A scheduler that lets pipelined pods satisfy a role minimum binds the long role alone.
// variant: 0 plain, 1 a best-effort pod in the short role, 2 Succeeded + Failed pods in the short
// role, 3 two short roles, 4 control (no Releasing pod, enough idle cpu: everything is bound).
func specRoles(r *vh.Rng, variant int) sched.CycleSpec {
	scale := int64(r.Range(1, 2))
	w := 500 * scale  // cpu of a long-role pod
	sc := 1500 * scale // cpu of a short-role pod
	shortMin := int64(r.Range(1, 2))
	short2 := int64(0)
	if variant == 3 {
		short2 = 1
	}
	longMin := int64(r.Range(1, 2))
	min := longMin + shortMin + short2 + int64(r.Range(0, 1)) // sum of role minimums <= minMember
	nLong := min + int64(r.Range(0, 1))                       // more replicas than the role minimum, >= minMember
	spec := sched.CycleSpec{PGPhase: map[int64]int64{1: 3, 2: vh.Pick(r, []int64{2, 2, 3, 1})}}
	spec.Queues = []sched.QueueSpec{{ID: 1, Open: true, Weight: 1}}
	rm := [][2]int64{{1, longMin}, {2, shortMin}}
	if short2 > 0 {
		rm = append(rm, [2]int64{3, short2})
	}
	spec.Jobs = []sched.JobSpec{{ID: 1, Queue: 1, Min: 1}, {ID: 2, Queue: 1, Min: min, RoleMin: rm}}
	// short-role pods that must be placed in this cycle
	need := shortMin
	tid := int64(0)
	next := func() int64 { tid++; return tid }
	tasks := []sched.TaskSpec{}
	extra := []sched.TaskSpec{}
	switch variant {
	case 1: // one slot of the short role is taken by a best-effort pending pod
		need = shortMin // still needs shortMin more when shortMin counts only non-BE... keep one pipelined at least
		spec.Jobs[1].RoleMin[1][1] = shortMin + 1
		spec.Jobs[1].Min = min + 1
		extra = append(extra, sched.TaskSpec{Job: 2, Role: 2, Prio: 0, Status: sched.SPending})
	case 2: // a Succeeded pod holds one slot of the short role, a Failed one holds none
		spec.Jobs[1].RoleMin[1][1] = shortMin + 1
		spec.Jobs[1].Min = min + 1
		extra = append(extra, sched.TaskSpec{Job: 2, Role: 2, Prio: 0, CPU: sc, Status: sched.SSucceeded, Node: 1},
			sched.TaskSpec{Job: 2, Role: 2, Prio: 0, CPU: sc, Status: sched.SFailed, Node: 1})
	}
	nShort := need + short2
	releasing := nShort * sc
	twoNodes := r.Chance(1, 2)
	idle := nLong*w + int64(r.Range(0, 2))*250*scale // slack < sc
	if variant == 4 {
		idle = nLong*w + nShort*sc
		releasing = 0
	}
	if twoNodes && releasing > 0 {
		spec.Nodes = []sched.NodeSpec{{ID: 1, Has: true, CPU: idle, Mem: 64 << 20, Pods: 32},
			{ID: 2, Has: true, CPU: releasing, Mem: 64 << 20, Pods: 32}}
		tasks = append(tasks, sched.TaskSpec{ID: next(), Job: 1, Role: 1, CPU: releasing, Status: sched.SReleasing, Node: 2})
	} else {
		spec.Nodes = []sched.NodeSpec{{ID: 1, Has: true, CPU: idle + releasing, Mem: 64 << 20, Pods: 32}}
		if releasing > 0 {
			// one or two terminating pods
			if r.Chance(1, 2) && nShort >= 2 {
				tasks = append(tasks, sched.TaskSpec{ID: next(), Job: 1, Role: 1, CPU: sc, Status: sched.SReleasing, Node: 1},
					sched.TaskSpec{ID: next(), Job: 1, Role: 1, CPU: releasing - sc, Status: sched.SReleasing, Node: 1})
			} else {
				tasks = append(tasks, sched.TaskSpec{ID: next(), Job: 1, Role: 1, CPU: releasing, Status: sched.SReleasing, Node: 1})
			}
		} else {
			tasks = append(tasks, sched.TaskSpec{ID: next(), Job: 1, Role: 1, CPU: 0, Status: sched.SRunning, Node: 1})
		}
	}
	for k := int64(0); k < nLong; k++ {
		tasks = append(tasks, sched.TaskSpec{ID: next(), Job: 2, Role: 1, Prio: 9, CPU: w, Status: sched.SPending})
	}
	for k := int64(0); k < need; k++ {
		tasks = append(tasks, sched.TaskSpec{ID: next(), Job: 2, Role: 2, Prio: 2, CPU: sc, Status: sched.SPending})
	}
	for k := int64(0); k < short2; k++ {
		tasks = append(tasks, sched.TaskSpec{ID: next(), Job: 2, Role: 3, Prio: 1, CPU: sc, Status: sched.SPending})
	}
	for _, e := range extra {
		e.ID = next()
		tasks = append(tasks, e)
	}
	spec.Tasks = tasks
	spec.Actions = vh.Pick(r, [][]int64{{1}, {1}, {1, 2}, {2, 1}})
	return spec
}

func genRoles(rng *vh.Rng, n int, emit func(id string, sel int, in []int64, kind string, nontrivial bool, desc any)) {
	names := []string{"plain", "best-effort-in-short-role", "succeeded-failed-in-short-role", "two-short-roles", "control-all-fit"}
	for i := 0; i < n; i++ {
		r := rng.Fork()
		variant := i % 5
		spec := specRoles(r, variant)
		if i%2 == 1 {
			// PodGroup update before the cycle: the OLD distribution gives the short role(s) minimum 0 and
			// the long role the sum (same minMember, same number of roles)
			var old [][2]int64
			sum := int64(0)
			for _, rm := range spec.Jobs[1].RoleMin {
				sum += rm[1]
			}
			for k, rm := range spec.Jobs[1].RoleMin {
				if k == 0 {
					old = append(old, [2]int64{rm[0], sum})
				} else {
					old = append(old, [2]int64{rm[0], 0})
				}
			}
			in := []int64{int64(len(old))}
			for _, o := range old {
				in = append(in, o[0], o[1])
			}
			in = append(in, spec.Enc(sched.EpsUnits)...)
			nb := preRunCycleBinds(spec)
			emit(fmt.Sprintf("roles-%d", i), 5, in, fmt.Sprintf("roles/pg-update/%s%s/actions=%v", names[variant], negTag(nb), spec.Actions), nb > 0,
				map[string]any{"directed": "PodGroup update (minTaskMember redistributed) then short role only pipelined: " + names[variant],
					"min": spec.Jobs[1].Min, "roleMin": spec.Jobs[1].RoleMin, "oldRoleMin": old})
			continue
		}
		nb := preRunCycleBinds(spec)
		emit(fmt.Sprintf("roles-%d", i), 1, spec.Enc(sched.EpsUnits), fmt.Sprintf("roles/%s%s/actions=%v", names[variant], negTag(nb), spec.Actions), nb > 0,
			map[string]any{"directed": "short role only pipelined: " + names[variant], "min": spec.Jobs[1].Min, "roleMin": spec.Jobs[1].RoleMin,
				"tasks": len(spec.Tasks), "nodes": len(spec.Nodes)})
	}
}

// ---------- consecutive cycles ----------

// nextSpec feeds a cycle's binds back: a bound task is a Bound or Running pod on its node in
// the next snapshot; everything the session only held tentatively is Pending again.
func nextSpec(r *vh.Rng, spec sched.CycleSpec) (sched.CycleSpec, int) {
	cw := sched.NewCycleWorld(spec)
	cw.RunActions()
	node := map[int64]int64{}
	for _, e := range cw.Trace {
		if e.Kind == 2 {
			node[e.Task] = e.Node
		}
	}
	next := spec
	next.Tasks = nil
	for _, t := range spec.Tasks {
		if n, ok := node[t.ID]; ok {
			t.Status = vh.Pick(r, []int64{sched.SBound, sched.SRunning, sched.SRunning})
			t.Node = n
		} else if t.Status == sched.SReleasing && r.Chance(1, 2) {
			continue // the terminating pod is gone
		}
		next.Tasks = append(next.Tasks, t)
	}
	next.PGPhase = map[int64]int64{}
	for k, v := range spec.PGPhase {
		next.PGPhase[k] = v
	}
	return next, len(node)
}

func genNext(rng *vh.Rng, n int, emit func(id string, sel int, in []int64, kind string, nontrivial bool, desc any)) {
	for i := 0; i < n; i++ {
		r := rng.Fork()
		spec := sched.GenCycle(r, false)
		for c := 2; c <= 3; c++ {
			var fed int
			spec, fed = nextSpec(r, spec)
			spec.Actions = vh.Pick(r, [][]int64{{1}, {1, 2}, {2, 1}, {1}})
			emit(fmt.Sprintf("next-%d-c%d", i, c), 1, spec.Enc(sched.EpsUnits), fmt.Sprintf("next/cycle=%d", c), fed > 0,
				map[string]any{"cycle": c, "binds_fed_back": fed, "tasks": len(spec.Tasks)})
		}
	}
}

// ---------- pure readiness ----------

// input of selector 2: eps, job spec (id queue min roleMin[]), tasks (the cycle task encoding)
func encReady(j sched.JobSpec, ts []sched.TaskSpec) []int64 {
	out := []int64{sched.EpsUnits, j.ID, j.Queue, j.Min, int64(len(j.RoleMin))}
	for _, rm := range j.RoleMin {
		out = append(out, rm[0], rm[1])
	}
	out = append(out, int64(len(ts)))
	for _, t := range ts {
		out = append(out, t.ID, t.Job, t.Role, t.Prio, t.CPU, t.Mem, t.GPU, t.Status, t.Node, 0)
	}
	return out
}

func genReady(rng *vh.Rng, n int, emit func(id string, sel int, in []int64, kind string, nontrivial bool, desc any)) {
	for i := 0; i < n; i++ {
		r := rng.Fork()
		roles := r.Range(1, 3)
		nt := r.Range(0, 12)
		j := sched.JobSpec{ID: 1, Queue: 1}
		ts := []sched.TaskSpec{}
		per := map[int64]int64{}
		for k := 1; k <= nt; k++ {
			t := sched.TaskSpec{ID: int64(k), Job: 1, Role: int64(r.Range(1, roles)), Status: int64(r.Range(1, 10))}
			if r.Chance(1, 4) {
				t.Status = sched.SPending
			}
			if !r.Chance(1, 3) {
				t.CPU = int64(r.Range(1, 4)) * 250
			}
			if t.Status != sched.SPending && t.Status != sched.SFailed && t.Status != sched.SSucceeded && t.Status != sched.SUnknown {
				t.Node = 1
			}
			per[t.Role]++
			ts = append(ts, t)
		}
		total := int64(0)
		if r.Chance(2, 3) {
			for role := int64(1); role <= int64(roles); role++ {
				if r.Chance(2, 3) {
					m := int64(r.Range(0, int(per[role])+1))
					j.RoleMin = append(j.RoleMin, [2]int64{role, m})
					total += m
				}
			}
		}
		switch r.Intn(5) {
		case 0:
			j.Min = total
		case 1:
			j.Min = total + 1
		case 2:
			if total > 0 {
				j.Min = total - 1
			}
		case 3:
			j.Min = int64(nt)
		default:
			j.Min = int64(r.Range(0, nt+1))
		}
		shape := "below"
		if j.Min == total {
			shape = "equal"
		} else if j.Min > total {
			shape = "above"
		}
		emit(fmt.Sprintf("ready-%d", i), 2, encReady(j, ts), fmt.Sprintf("ready/roles=%d/min-vs-roletotal=%s", len(j.RoleMin), shape),
			nt >= 2, map[string]any{"tasks": nt, "min": j.Min, "roleMin": j.RoleMin})
	}
}

var readyCache *cache.SchedulerCache

// runReady builds the real JobInfo, opens a session with ONLY the gang plugin and asks the
// session's JobReady / JobPipelined / JobStarving / JobValid.
func runReady(in []int64) []int64 {
	r := &sched.Tok{T: in}
	_ = r.Next()
	j := sched.JobSpec{ID: r.Next(), Queue: r.Next(), Min: r.Next()}
	r.List(func() { j.RoleMin = append(j.RoleMin, [2]int64{r.Next(), r.Next()}) })
	ts := []sched.TaskSpec{}
	r.List(func() {
		ts = append(ts, sched.TaskSpec{ID: r.Next(), Job: r.Next(), Role: r.Next(), Prio: r.Next(), CPU: r.Next(), Mem: r.Next(),
			GPU: r.Next(), Status: r.Next(), Node: r.Next(), Preemptable: r.Bool()})
	})
	ji := api.NewJobInfo(sched.JobID(j.ID))
	pg := &api.PodGroup{PodGroup: scheduling.PodGroup{
		ObjectMeta: metav1.ObjectMeta{Name: sched.JobName(j.ID), Namespace: "ns", UID: types.UID(sched.JobName(j.ID))},
		Spec:       scheduling.PodGroupSpec{MinMember: int32(j.Min), Queue: sched.QueueName(j.Queue), MinTaskMember: map[string]int32{}},
		Status:     scheduling.PodGroupStatus{Phase: scheduling.PodGroupInqueue},
	}}
	for _, rm := range j.RoleMin {
		pg.Spec.MinTaskMember[sched.RoleName(rm[0])] = int32(rm[1])
	}
	ji.SetPodGroup(pg)
	for _, t := range ts {
		want := t.Status
		switch want {
		case sched.SAllocated, sched.SPipelined, sched.SBinding:
			// statuses no pod can have: a Pending pod, then UpdateTaskStatus as the session does
			t.Status = sched.SPending
			t.Node = 0
		}
		ti := api.NewTaskInfo(t.Pod())
		ji.AddTaskInfo(ti)
		if want != t.Status {
			st := map[int64]api.TaskStatus{sched.SAllocated: api.Allocated, sched.SPipelined: api.Pipelined, sched.SBinding: api.Binding}[want]
			ji.UpdateTaskStatus(ti, st)
		}
		if sched.StatusKey(ti.Status) != want {
			panic(fmt.Sprintf("task t%d: built status %v, wanted key %d", t.ID, ti.Status, want))
		}
	}
	if readyCache == nil {
		readyCache = cache.NewDefaultMockSchedulerCache("verif-ready")
	}
	q := sched.QueueSpec{ID: j.Queue, Open: true, Weight: 1}
	qi := api.NewQueueInfo(q.Object())
	snap := &api.ClusterInfo{
		Jobs: map[api.JobID]*api.JobInfo{ji.UID: ji}, Nodes: map[string]*api.NodeInfo{},
		Queues: map[api.QueueID]*api.QueueInfo{qi.UID: qi}, NamespaceInfo: map[api.NamespaceName]*api.NamespaceInfo{},
		RevocableNodes: map[string]*api.NodeInfo{},
		HyperNodes:     api.HyperNodeInfoMap{}, HyperNodesSetByTier: map[int]sets.Set[string]{},
		RealNodesSet: map[string]sets.Set[string]{}, HyperNodeTierNameMap: api.HyperNodeTierNameMap{},
		CSINodesStatus: map[string]*api.CSINodeStatusInfo{},
	}
	sc := &sched.ScriptedCache{SchedulerCache: readyCache, Snap: snap, RefuseBind: map[int64]bool{}, RefuseEvict: map[int64]bool{}}
	framework.RegisterPluginBuilder(gang.PluginName, gang.New)
	o := conf.PluginOption{Name: gang.PluginName}
	plugins.ApplyPluginConfDefaults(&o)
	ssn := framework.OpenSession(sc, []conf.Tier{{Plugins: []conf.PluginOption{o}}}, nil)
	valid := int64(0)
	if vr := ssn.JobValid(ji); vr != nil && !vr.Pass {
		switch vr.Reason {
		case "NotEnoughPodsOfTask":
			valid = 1
		case "NotEnoughTasks":
			valid = 2
		default:
			valid = 9
		}
	}
	_ = v1.PodPending
	return []int64{vh.B(ssn.JobReady(ji)), vh.B(ssn.JobPipelined(ji)), vh.B(ssn.JobStarving(ji)), valid}
}
