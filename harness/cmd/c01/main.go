// c01 harness: real scheduling cycles (allocate / backfill with the real gang, priority and
// proportion plugins) against the action skeleton model; law selector 101.
//
// Streams (see docs/notes/C01.md):
//   cycle/...        random clusters, one cycle (shared generator sched.GenCycle)
//   f10/...          directed: `allocate` twice around a kept (pipelined-only) statement (DESIGN 7 F10)
//   next/...         consecutive cycles: the binds of a cycle are fed back as Bound/Running pods
//   ready/...        pure readiness: random JobInfos -> ssn.JobReady/JobPipelined/JobStarving/JobValid (selector 2)
package main

import (
	"fmt"

	"verif/harness/internal/sched"
	"verif/harness/internal/vh"
)

// SigF10: allocate run twice in one cycle commits a second statement of a job whose first
// statement was kept uncommitted (pipelined only): fewer than minMember pods are bound.
const SigF10 = "C01-F10-second-allocate-commits-over-kept-statement"

func main() {
	base := sched.CycleHarness(101, false)
	h := vh.Harness{}
	h.Run2 = func(sel int, in []int64) ([]int64, []int64) {
		if sel == 2 {
			return in, runReady(in)
		}
		return base.Run2(sel, in)
	}
	h.Laws = func(sel int, in, got []int64, law func(lsel int, lin []int64, sig string)) {
		if sel != 1 {
			return
		}
		sig := ""
		if f10Pattern(in) {
			sig = SigF10
		}
		base.Laws(sel, in, got, func(lsel int, lin []int64, _ string) { law(lsel, lin, sig) })
	}
	h.Gen = func(rng *vh.Rng, n int, emit func(id string, sel int, in []int64, kind string, nontrivial bool, desc any)) {
		base.Gen(rng, n, emit)
		genF10(rng, max(2, n/30), emit)
		genNext(rng, max(2, n/6), emit)
		genReady(rng, max(20, n*3), emit)
	}
	h.Main()
}

func countAllocate(acts []int64) int {
	k := 0
	for _, a := range acts {
		if a == 1 {
			k++
		}
	}
	return k
}

// f10Pattern re-runs the cycle and reports whether it shows the F10 failure class: `allocate`
// occurs more than once in the action list and a job that received a bind still holds a
// session-Allocated task with a non-empty request that was never bound (left by a kept statement).
func f10Pattern(in []int64) bool {
	spec := sched.DecCycleSpec(&sched.Tok{T: in})
	if countAllocate(spec.Actions) < 2 {
		return false
	}
	cw := sched.NewCycleWorld(spec)
	cw.RunActions()
	boundJob := map[int64]bool{}
	for _, e := range cw.Trace {
		if e.Kind == 2 {
			boundJob[cw.TSpec[e.Task].Job] = true
		}
	}
	for id, t := range cw.Tasks {
		ts := cw.TSpec[id]
		if boundJob[ts.Job] && sched.StatusKey(t.Status) == sched.SAllocated && !t.BestEffort {
			return true
		}
	}
	return false
}

// ---------- F10 directed stream ----------

// specF10: node n1 with a Releasing pod (so that FutureIdle > Idle), gang J (job 2) with
// minMember 3 < sum of role minimums 4 (role minimums not in force):
//   t2 r1 fits Idle -> Allocated;  t3 r1 fits only FutureIdle -> Pipelined;  t5 r2 fits nowhere:
//   NeedContinueAllocating = (ReadyTaskNum 1 + pending of non-failed roles 1 >= 3) = false -> break,
//   t4 (r1, small) is never tried.  JobPipelined (1 + 1 + best-effort 1 >= 3): the statement is kept.
// Second allocate: t5's role has fit errors -> skipped; t4 -> Allocated; JobReady (2 + 1 >= 3) ->
// the second statement (t4 alone) is committed.
func specF10(scale int64, extraBE int64, small int64) sched.CycleSpec {
	spec := sched.CycleSpec{PGPhase: map[int64]int64{1: 3, 2: 2}}
	spec.Nodes = []sched.NodeSpec{{ID: 1, Has: true, CPU: 4000 * scale, Mem: 64 << 20, Pods: 16}}
	spec.Queues = []sched.QueueSpec{{ID: 1, Open: true, Weight: 1}}
	spec.Jobs = []sched.JobSpec{
		{ID: 1, Queue: 1, Min: 1},
		{ID: 2, Queue: 1, Min: 3 + extraBE, RoleMin: [][2]int64{{1, 2 + extraBE}, {2, 2}}},
	}
	spec.Tasks = []sched.TaskSpec{
		{ID: 1, Job: 1, Role: 1, Prio: 0, CPU: 2000 * scale, Status: sched.SReleasing, Node: 1},
		{ID: 2, Job: 2, Role: 1, Prio: 9, CPU: 1000 * scale, Status: sched.SPending},
		{ID: 3, Job: 2, Role: 1, Prio: 8, CPU: 2000 * scale, Status: sched.SPending},
		{ID: 4, Job: 2, Role: 1, Prio: 1, CPU: small, Status: sched.SPending},
		{ID: 5, Job: 2, Role: 2, Prio: 5, CPU: 9000 * scale, Status: sched.SPending},
		{ID: 6, Job: 2, Role: 2, Prio: 0, Status: sched.SPending}, // best effort
	}
	for k := int64(0); k < extraBE; k++ {
		spec.Tasks = append(spec.Tasks, sched.TaskSpec{ID: 7 + k, Job: 2, Role: 2, Prio: 0, Status: sched.SPending})
	}
	spec.Actions = []int64{1, 1}
	return spec
}

func genF10(rng *vh.Rng, n int, emit func(id string, sel int, in []int64, kind string, nontrivial bool, desc any)) {
	for i := 0; i < n; i++ {
		r := rng.Fork()
		spec := specF10(int64(r.Range(1, 3)), int64(r.Range(0, 2)), int64(r.Range(1, 4))*250)
		acts := vh.Pick(r, [][]int64{{1, 1}, {1, 1}, {1, 2, 1}, {1}, {1, 2}})
		if i < 2 {
			acts = [][]int64{{1, 1}, {1, 2, 1}}[i]
		}
		spec.Actions = acts
		kind := fmt.Sprintf("f10/actions=%v", acts)
		emit(fmt.Sprintf("f10-%d", i), 1, spec.Enc(sched.EpsUnits), kind, true,
			map[string]any{"directed": "kept statement then second allocate", "actions": acts})
	}
}

func genNext(rng *vh.Rng, n int, emit func(id string, sel int, in []int64, kind string, nontrivial bool, desc any)) {
}

func genReady(rng *vh.Rng, n int, emit func(id string, sel int, in []int64, kind string, nontrivial bool, desc any)) {
}

func runReady(in []int64) []int64 { return nil }
