// Publication stream (selector 6): ONE real ShardingController on a fake
// volcano clientset (hook VerifPublisher): per sync the node cache and the
// metrics cache are replaced, the real syncShards runs, the real worker drains
// the shard queue (syncHandler -> applyAssignment -> createShard / Update), and
// the NodeShard objects are read back.  Observed: Spec.NodesDesired of every
// scheduler after every sync.
package main

import (
	"fmt"
	"sort"
	"sync"
	"time"

	"verif/harness/internal/vh"
	"volcano.sh/volcano/pkg/controllers/sharding"
)

// known finding: assignmentNeedsUpdate's 10 % damping leaves a shard unpublished
// when fewer than max(1, len/10) of its nodes are new and the count is unchanged,
// so a node that moved to another scheduler stays in the old NodeShard as well
const sigHysteresis = "C17-publish-hysteresis-keeps-stale-node"

// second known finding: with the assignment cache empty or expired a worker item
// recalculates everything but (re)publishes ONLY the requested scheduler's shard;
// the other NodeShards keep the shards of an older calculation until their own keys
// (or the next global sync) are processed
const sigSingleShard = "C17-fallback-republishes-one-shard"

// what the laws are asked about after one sync / step.  A signature is attached
// to a case only when the mechanism of the finding is present IN THAT CASE:
//
//	both  = the published state with every shard whose staleness one of the two
//	        mechanisms explains replaced by its current calculation: judged UNSIGNED,
//	        so any other violation at the same step is still reported;
//	onlyH = the published state with only the unprocessed-key shards replaced
//	        (sig: hysteresis), emitted when both mechanisms occur;
//	pub   = the published state itself, signed by the mechanism that is present.
type stepJudge struct {
	pub, onlyH, both []int64
	staleH, staleU   []string // shards left stale by the damping threshold / by an unprocessed key
	complete         bool     // every configured scheduler has a NodeShard
	faultStale       bool     // some shard is stale because the harness injected write failures in this step
}

type pubOutcome struct {
	ok    bool
	pubs  [][]int64 // published NodeShards after every sync
	judge []stepJudge
	panic string
}

// judgeStep decides, shard by shard, which stale publications a known mechanism
// explains: the shard still shows exactly what it showed before the step, differs
// from the current calculation, and either the threshold rule says "no update"
// (hysteresis) or — threshold notwithstanding — no worker item applied the current
// calculation to it during the step (unprocessed: only possible in the op stream).
func judgeStep(prev, pub, calc map[string][]string, processed, faulted map[string]bool) stepJudge {
	j := stepJudge{pub: encResult(pub), complete: len(pub) == len(calc)}
	both, onlyH := map[string][]string{}, map[string][]string{}
	for s, l := range pub {
		both[s], onlyH[s] = l, l
		old, had := prev[s]
		c, configured := calc[s]
		if !had || !configured || !sameList(l, old) || sameList(l, c) {
			continue
		}
		if faulted[s] {
			// the harness made every write of this NodeShard fail during this step: the key
			// was dropped; not a finding, and nothing to judge about this shard now
			j.faultStale = true
			both[s], onlyH[s] = c, c
		} else if thresholdSaysNoUpdate(old, c) {
			j.staleH = append(j.staleH, s)
			both[s] = c
		} else if processed != nil && !processed[s] {
			j.staleU = append(j.staleU, s)
			both[s], onlyH[s] = c, c
		}
	}
	j.both, j.onlyH = encResult(both), encResult(onlyH)
	return j
}

// the step input with the nodes in the order the controller works on (listNodesFromCache: by name)
func listedTokens(in *input) []int64 {
	cp := *in
	cp.nodes = append([]nodeT{}, in.nodes...)
	sort.Slice(cp.nodes, func(a, b int) bool { return cp.nodes[a].name < cp.nodes[b].name })
	return cp.tokens()
}

func emitJudged(j stepJudge, in []int64, law func(lsel int, lin []int64, sig string)) {
	with := func(r []int64) []int64 { return append(append([]int64{}, in...), r...) }
	if j.complete {
		// every scheduler has a NodeShard: with the explained-stale shards replaced, the
		// published state must be a full assignment in score order with exact counts
		law(104, with(j.both), "")
		law(106, with(j.both), "")
	}
	switch {
	case j.faultStale:
		law(110, j.both, "")
		law(111, with(j.both), "")
	case len(j.staleH) == 0 && len(j.staleU) == 0:
		law(110, j.pub, "")
		law(111, with(j.pub), "")
	case len(j.staleU) == 0:
		law(110, j.both, "")
		law(111, with(j.both), "")
		law(110, j.pub, sigHysteresis)
		law(111, with(j.pub), sigHysteresis)
	default:
		law(110, j.both, "")
		law(111, with(j.both), "")
		if len(j.staleH) > 0 {
			law(110, j.onlyH, sigHysteresis)
			law(111, with(j.onlyH), sigHysteresis)
		}
		law(110, j.pub, sigSingleShard)
		law(111, with(j.pub), sigSingleShard)
	}
}

var pubMemo sync.Map

// the threshold rule, written down independently of the code under test: it only
// decides which law failures carry the known-finding signature
func thresholdSaysNoUpdate(published, calculated []string) bool {
	if len(published) != len(calculated) {
		return false
	}
	have := map[string]bool{}
	for _, n := range published {
		have[n] = true
	}
	fresh := 0
	for _, n := range calculated {
		if !have[n] {
			fresh++
		}
	}
	thr := len(calculated) / 10
	if thr < 1 {
		thr = 1
	}
	return fresh < thr
}

func sameList(a, b []string) bool {
	if len(a) != len(b) {
		return false
	}
	for i := range a {
		if a[i] != b[i] {
			return false
		}
	}
	return true
}

// fallback = true drives every sync after the first through the OTHER path to
// applyAssignment: the assignment cache is aged beyond maxAssignmentCacheRetention
// and a NodeShard event is enqueued per scheduler, so that syncHandler falls back
// to calculateAndApplyAssignment (selector 7; same model function as selector 6)
func computePub(toks []int64, fallback bool) (o pubOutcome) {
	defer func() {
		if r := recover(); r != nil {
			o.panic = fmt.Sprint(r)
		}
	}()
	h := decodeHist(toks)
	cfg, err := sharding.ParseShardingConfig(buildYAML(&input{specs: h.specs}, 0))
	if err != nil {
		return o
	}
	o.ok = true
	p := sharding.VerifNewPublisher(cfg)
	prev := map[string][]string{}
	for k := range h.steps {
		in := h.stepInput(k)
		nodes := buildNodes(in)
		p.SetNodes(nodes)
		p.SetMetrics(buildProvider(in, k%2).m)
		if fallback && k > 0 {
			p.AgeAssignmentCache(6 * time.Minute)
			for _, sp := range h.specs {
				p.EnqueueShard(schedName(sp.name))
			}
			p.Drain()
		} else {
			p.SyncShards()
		}
		pub := p.Published()
		// what a fresh manager calculates on the listed nodes: only used to decide the signature
		calc, _ := realRun(in, 1-k%2, listerNodes(nodes, false))
		if len(pub) != len(calc) {
			panic(fmt.Sprintf("sync %d: %d NodeShards published for %d calculated assignments", k, len(pub), len(calc)))
		}
		o.pubs = append(o.pubs, encResult(pub))
		o.judge = append(o.judge, judgeStep(prev, pub, calc, nil, nil))
		prev = pub
	}
	return o
}

func pubKey(toks []int64, fallback bool) string {
	if fallback {
		return "f:" + key(toks)
	}
	return key(toks)
}

func pubOutcomeOf(toks []int64, fallback bool) pubOutcome {
	if v, ok := pubMemo.Load(pubKey(toks, fallback)); ok {
		return v.(pubOutcome)
	}
	o := computePub(toks, fallback)
	pubMemo.Store(pubKey(toks, fallback), o)
	return o
}

func pubRun(toks []int64, fallback bool) []int64 {
	o := pubOutcomeOf(toks, fallback)
	if o.panic != "" {
		panic(o.panic)
	}
	out := tag(1)
	if !o.ok {
		return append(out, 0)
	}
	out = append(out, 1)
	out = append(out, tag(2)...)
	out = append(out, int64(len(o.pubs)))
	for _, r := range o.pubs {
		out = append(out, tag(3)...)
		out = append(out, r...)
	}
	return out
}

func pubLaws(toks []int64, fallback bool, law func(lsel int, lin []int64, sig string)) {
	o := pubOutcomeOf(toks, fallback)
	if !o.ok || o.panic != "" {
		return
	}
	h := decodeHist(toks)
	for k := range h.steps {
		emitJudged(o.judge[k], listedTokens(h.stepInput(k)), law)
	}
}

// ---------- generator ----------

// mostly: 2-3 allocation-rate schedulers over adjacent utilisation bands, a
// cluster whose utilisations are stable except for one to three nodes per sync
// that cross a band boundary (so shards of every size see single swaps);
// sometimes a fully random history
func genPubHistory(r *vh.Rng) *histT {
	if r.Chance(1, 4) {
		h := genHistory(r)
		for k := range h.steps { // a lister holds one node per name; keep the clusters below the batching sleeps
			if len(h.steps[k].nodes) > 50 {
				h.steps[k].nodes = h.steps[k].nodes[:50]
			}
		}
		return h
	}
	n := 3 + r.Intn(38)
	if r.Chance(1, 2) {
		n = 21 + r.Intn(30) // shards of 20 and more: the damping threshold is 2 or more
	}
	cuts := [][]int64{{0, 600, 700, 1000}, {0, 500, 500, 1000}, {0, 300, 400, 700, 800, 1000}, {100, 550, 600, 900}}
	c := vh.Pick(r, cuts)
	h := &histT{}
	pivots := []int64{}
	for i := 0; i+1 < len(c); i += 2 {
		sp := specT{name: int64(i/2 + 1), cpumax: 1000,
			pols: []polT{{name: 1, weight: 1, args: []argT{{1, c[i]}, {2, c[i+1]}}}}}
		if r.Chance(1, 4) {
			sp.pols = append(sp.pols, polT{name: 2, weight: int64(1 + r.Intn(2))})
		}
		if r.Chance(1, 4) {
			sp.pols = append(sp.pols, polT{name: 3, args: []argT{{4, int64(n/3 + r.Intn(n))}}})
		}
		h.specs = append(h.specs, sp)
		pivots = append(pivots, c[i], c[i+1])
	}
	if r.Chance(1, 2) {
		for i := len(h.specs) - 1; i > 0; i-- {
			j := r.Intn(i + 1)
			h.specs[i], h.specs[j] = h.specs[j], h.specs[i]
		}
	}
	band := func() int64 { // a utilisation well inside the first band, ties everywhere
		return c[0] + vh.Pick(r, []int64{100, 100, 100, 200})
	}
	var pool []hnode
	next := int64(1)
	for ; next <= int64(n); next++ {
		nd := hnode{name: next, hasMetrics: true, present: true, util: band()}
		if r.Chance(1, 6) {
			nd.drawUtil(r, pivots)
		}
		nd.warm = r.Chance(1, 5)
		pool = append(pool, nd)
	}
	steps := 2 + r.Intn(5)
	for k := 0; k < steps; k++ {
		var cand []hnode
		var st stepT
		giveUp := false
		for try := 0; ; try++ {
			cand = append([]hnode{}, pool...)
			if try > 0 { // the float guard refused the last draw: move some utilisations
				for i := range cand {
					if r.Chance(1, 3) {
						cand[i].drawUtil(r, pivots)
					}
				}
			}
			if k > 0 {
				for m := 1 + r.Intn(3); m > 0 && len(cand) > 0; m-- {
					i := r.Intn(len(cand))
					switch r.Intn(6) {
					case 0:
						cand = append(cand[:i], cand[i+1:]...) // node deleted
					case 1:
						cand = append(cand, hnode{name: next, hasMetrics: true, present: true, util: band()})
						next++
					default:
						cand[i].drawUtil(r, pivots) // crosses a band boundary, either way
					}
				}
			}
			st = stepOf(r, cand, true)
			if floatOrderExact(&input{nodes: st.nodes, metrics: st.metrics, specs: h.specs}) {
				break
			}
			if try > 40 {
				st, cand, giveUp = uniformStep(r, cand, pivots, h.specs)
				break
			}
		}
		if giveUp {
			break
		}
		pool = cand
		h.steps = append(h.steps, st)
	}
	if len(h.steps) == 0 {
		h.steps = append(h.steps, stepT{})
	}
	return h
}

// the minimal scenario of the known finding (Coq witness C17_published_disjoint_eligible_refuted)
func fixedPubHistories() []genCase {
	alloc := func(name, lo, hi int64) specT {
		return specT{name: name, cpumax: 1000, pols: []polT{{name: 1, weight: 1, args: []argT{{1, lo}, {2, hi}}}}}
	}
	h := &histT{specs: []specT{alloc(1, 0, 600), alloc(2, 700, 1000)}}
	for _, u := range [][2]int64{{300, 650}, {900, 300}, {900, 300}} {
		st := stepT{}
		for i := int64(1); i <= 22; i++ {
			util := int64(300)
			switch i {
			case 1:
				util = u[0]
			case 21:
				util = u[1]
			case 22:
				util = 900
			}
			st.nodes = append(st.nodes, nodeT{name: i})
			st.metrics = append(st.metrics, metricT{name: i, present: true, util: util})
		}
		h.steps = append(h.steps, st)
	}
	// the fallback path's own (repaired) defect: a = [0,1], b = [0,1] capped at 2, four nodes
	g := &histT{specs: []specT{alloc(1, 0, 1000), alloc(2, 0, 1000)}}
	g.specs[1].pols = append(g.specs[1].pols, polT{name: 3, args: []argT{{4, 2}}})
	for k := 0; k < 2; k++ {
		st := stepT{}
		for i := int64(1); i <= 4; i++ {
			st.nodes = append(st.nodes, nodeT{name: i})
			st.metrics = append(st.metrics, metricT{name: i, present: true, util: 100 * i})
		}
		g.steps = append(g.steps, st)
	}
	return []genCase{{id: "publish-hysteresis-22", kind: "publish", sel: 6, hist: h},
		{id: "publish-hysteresis-22-fallback", kind: "publish", sel: 7, hist: h},
		{id: "fallback-overlapping-ranges", kind: "publish", sel: 7, hist: g}}
}

func emitPub(c genCase, emit func(id string, sel int, in []int64, kind string, nontrivial bool, desc any)) {
	v, _ := pubMemo.Load(pubKey(c.toks, c.sel == 7))
	o := v.(pubOutcome)
	sizes := []int{}
	for _, st := range c.hist.steps {
		sizes = append(sizes, len(st.nodes))
	}
	stale := 0
	for _, j := range o.judge {
		stale += len(j.staleH)
	}
	emit(c.id, c.sel, c.toks, c.kind, o.ok && len(c.hist.steps) >= 2,
		map[string]any{"syncs": len(c.hist.steps), "nodes_per_sync": sizes, "schedulers": len(c.hist.specs), "shards_left_stale_by_threshold": stale})
}
