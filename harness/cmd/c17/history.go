// History stream (selector 5): ONE ShardingManager, a sequence of reconciles
// with changing nodes and metrics.  The model says a reconcile is a function of
// the current inputs only (C17_history_stateless); after every reconcile the
// laws are evaluated on the result against the CURRENT inputs and the result
// is compared with a fresh manager's on the same input (law 109).
package main

import (
	"fmt"
	"sync"

	corev1 "k8s.io/api/core/v1"

	"verif/harness/internal/vh"
	"volcano.sh/volcano/pkg/controllers/sharding"
)

type stepT struct {
	nodes   []nodeT
	metrics []metricT // rv = NodeMetrics.ResourceVersion of the entry (0 = "")
}
type histT struct {
	specs []specT
	steps []stepT
}

func (h *histT) tokens() []int64 {
	out := encSpecs(h.specs)
	out = append(out, int64(len(h.steps)))
	for _, st := range h.steps {
		out = append(out, int64(len(st.nodes)))
		for _, n := range st.nodes {
			out = append(out, n.name, vh.B(n.warm))
		}
		out = append(out, int64(len(st.metrics)))
		for _, m := range st.metrics {
			out = append(out, m.name, vh.B(m.present))
			if m.present {
				out = append(out, m.util)
			}
			out = append(out, m.rv)
		}
	}
	return out
}

func decodeHist(t []int64) *histT {
	r := &tokReader{t: t}
	h := &histT{specs: r.specs()}
	for i, n := 0, int(r.next()); i < n; i++ {
		st := stepT{}
		for j, k := 0, int(r.next()); j < k; j++ {
			nm := r.next()
			st.nodes = append(st.nodes, nodeT{nm, r.next() != 0})
		}
		for j, k := 0, int(r.next()); j < k; j++ {
			m := metricT{name: r.next()}
			m.present = r.next() != 0
			if m.present {
				m.util = r.next()
			}
			m.rv = r.next()
			st.metrics = append(st.metrics, m)
		}
		h.steps = append(h.steps, st)
	}
	if r.i != len(t) {
		panic("harness: trailing tokens in history")
	}
	return h
}

// the k-th step as a stand-alone input (the selector-1 encoding drops rv)
func (h *histT) stepInput(k int) *input {
	return &input{nodes: h.steps[k].nodes, metrics: h.steps[k].metrics, specs: h.specs}
}

type histOutcome struct {
	ok    bool      // configuration accepted
	steps [][]int64 // result of every reconcile on the one reused manager
	fresh [][]int64 // result of a fresh manager on the same step input
	panic string
}

var histMemo sync.Map

func collect(as map[string]*sharding.ShardAssignment) map[string][]string {
	res := map[string][]string{}
	for name, a := range as {
		if a == nil || a.SchedulerName != name {
			panic("assignment stored under a different scheduler name")
		}
		res[name] = append([]string{}, a.NodesDesired...)
	}
	return res
}

func computeHist(toks []int64) (o histOutcome) {
	defer func() {
		if r := recover(); r != nil {
			o.panic = fmt.Sprint(r)
		}
	}()
	h := decodeHist(toks)
	cfg, err := sharding.ParseShardingConfig(buildYAML(&input{specs: h.specs}, 0))
	if err != nil {
		return o
	}
	o.ok = true
	prov := &stubProvider{m: map[string]*sharding.NodeMetrics{}}
	mgr := sharding.NewShardingManager(sharding.VerifSchedulerConfigs(cfg), prov)
	for k := range h.steps {
		in := h.stepInput(k)
		// the provider's cache after the pod/node events of this step: new NodeMetrics
		// objects, resource versions as the history says (kept / changed / empty)
		prov.m = buildProvider(in, k%2).m
		nodes := buildNodes(in)
		before := make([]*corev1.Node, len(nodes))
		copy(before, nodes)
		as, err := mgr.CalculateShardAssignments(nodes, nil)
		if err != nil {
			panic("CalculateShardAssignments returned an error: " + err.Error())
		}
		for i := range nodes {
			if nodes[i] != before[i] {
				panic("CalculateShardAssignments reordered the caller's node slice")
			}
		}
		o.steps = append(o.steps, encResult(collect(as)))
		fr, ok := realRun(in, 1-k%2, nil)
		if !ok {
			panic("fresh manager rejected a configuration the reused manager was built from")
		}
		o.fresh = append(o.fresh, encResult(fr))
	}
	return o
}

func histOutcomeOf(toks []int64) histOutcome {
	if v, ok := histMemo.Load(key(toks)); ok {
		return v.(histOutcome)
	}
	o := computeHist(toks)
	histMemo.Store(key(toks), o)
	return o
}

func histRun(toks []int64) []int64 {
	o := histOutcomeOf(toks)
	if o.panic != "" {
		panic(o.panic)
	}
	out := tag(1)
	if !o.ok {
		return append(out, 0)
	}
	out = append(out, 1)
	out = append(out, tag(2)...)
	out = append(out, int64(len(o.steps)))
	for _, r := range o.steps {
		out = append(out, tag(3)...)
		out = append(out, r...)
	}
	return out
}

func histLaws(toks []int64, law func(lsel int, lin []int64, sig string)) {
	o := histOutcomeOf(toks)
	if !o.ok || o.panic != "" {
		return
	}
	h := decodeHist(toks)
	cat := func(a, b []int64) []int64 { return append(append([]int64{}, a...), b...) }
	for k := range h.steps {
		in := h.stepInput(k).tokens()
		res := o.steps[k]
		law(101, res, "")
		law(102, cat(in, res), "")
		law(103, cat(in, res), "") // eligible on the CURRENT metrics
		law(104, cat(in, res), "")
		law(106, cat(in, res), "")
		law(112, cat(in, res), "")
		law(113, cat(in, res), "")
		law(109, cat(res, o.fresh[k]), "") // same as a fresh manager on the same input
	}
}

// ---------- generator ----------

type hnode struct {
	name       int64
	warm       bool
	hasMetrics bool
	present    bool
	util       int64
	rvMode     int // 0 fixed non-empty, 1 changes every step, 2 empty
	rv         int64
}

func (n *hnode) drawUtil(r *vh.Rng, pivots []int64) {
	n.util = utilValue(r, vh.Pick(r, []int{0, 1, 2, 2, 2, 3}), pivots)
}

func newHnode(r *vh.Rng, name int64, pivots []int64) hnode {
	n := hnode{name: name, warm: r.Chance(1, 3), hasMetrics: !r.Chance(1, 25), present: !r.Chance(1, 40)}
	n.rvMode = vh.Pick(r, []int{0, 0, 0, 1, 2})
	switch n.rvMode {
	case 0:
		n.rv = 100 + name
	case 1:
		n.rv = 1000 * name
	}
	n.drawUtil(r, pivots)
	return n
}

func stepOf(r *vh.Rng, pool []hnode, shuffle bool) stepT {
	st := stepT{}
	for _, n := range pool {
		st.nodes = append(st.nodes, nodeT{n.name, n.warm})
		if n.hasMetrics {
			st.metrics = append(st.metrics, metricT{name: n.name, present: n.present, util: n.util, rv: n.rv})
		}
	}
	if shuffle {
		for i := len(st.nodes) - 1; i > 0; i-- {
			j := r.Intn(i + 1)
			st.nodes[i], st.nodes[j] = st.nodes[j], st.nodes[i]
		}
	}
	for i := len(st.metrics) - 1; i > 0; i-- {
		j := r.Intn(i + 1)
		st.metrics[i], st.metrics[j] = st.metrics[j], st.metrics[i]
	}
	return st
}

func genHistory(r *vh.Rng) *histT {
	n := 3 + r.Intn(40)
	if r.Chance(1, 5) {
		n = 45 + r.Intn(25) // around and beyond the batching threshold
	}
	h := &histT{}
	pivots := []int64{0, 1000}
	for i, ns := 0, 1+r.Intn(3); i < ns; i++ {
		h.specs = append(h.specs, genSpec(r, int64(i+1), n, false, &pivots))
	}
	var pool []hnode
	next := int64(1)
	for ; next <= int64(n); next++ {
		pool = append(pool, newHnode(r, next, pivots))
	}
	steps := 2 + r.Intn(4)
	for k := 0; k < steps; k++ {
		var cand []hnode
		var st stepT
		giveUp := false
		for try := 0; ; try++ {
			cand = append([]hnode{}, pool...)
			if try > 0 { // the float guard refused the last draw: move some utilisations
				for i := range cand {
					if r.Chance(1, 3) {
						cand[i].drawUtil(r, pivots)
					}
				}
			}
			if k > 0 {
				// pods come and go: utilisation moves (often across a filter bound, both
				// ways) while the Node object, hence a mode-0 resource version, stays
				kept := cand[:0]
				for _, c := range cand {
					if r.Chance(1, 14) {
						continue // node deleted
					}
					if r.Chance(1, 2) {
						c.drawUtil(r, pivots)
					}
					if r.Chance(1, 12) {
						c.warm = !c.warm // label changed
					}
					if r.Chance(1, 30) {
						c.hasMetrics = !c.hasMetrics
					}
					if c.rvMode == 1 {
						c.rv++
					}
					kept = append(kept, c)
				}
				cand = kept
				for a := r.Intn(3); a > 0; a-- {
					cand = append(cand, newHnode(r, next, pivots))
					next++
				}
			}
			st = stepOf(r, cand, r.Chance(1, 3))
			if floatOrderExact(&input{nodes: st.nodes, metrics: st.metrics, specs: h.specs}) {
				break
			}
			if try > 40 {
				// the search gave up: a step that is float-exact BY CONSTRUCTION (one common
				// utilisation: nodes of one warmup class get bit-identical sums, the classes
				// differ by a whole weight), or else the history ends here
				st, cand, giveUp = uniformStep(r, cand, pivots, h.specs)
				break
			}
		}
		if giveUp {
			break
		}
		pool = cand
		h.steps = append(h.steps, st)
	}
	if len(h.steps) == 0 {
		h.steps = append(h.steps, stepT{}) // no node at all: trivially exact
	}
	return h
}

// uniformStep gives every node the same utilisation; ok=false (giveUp) if even that is
// not accepted by the float guard (never observed; the caller then shortens the history)
var uniformFallbacks, shortenedHistories int // generator statistics, printed on stderr

func uniformStep(r *vh.Rng, cand []hnode, pivots []int64, specs []specT) (stepT, []hnode, bool) {
	uniformFallbacks++
	u := utilValue(r, 3, pivots)
	if u < 0 {
		u = 0
	}
	out := append([]hnode{}, cand...)
	for i := range out {
		out[i].util = u
		out[i].hasMetrics, out[i].present = true, true
	}
	st := stepOf(r, out, false)
	if floatOrderExact(&input{nodes: st.nodes, metrics: st.metrics, specs: specs}) {
		return st, out, false
	}
	shortenedHistories++
	return stepT{}, cand, true
}

// the seeded change C17-r4-2 in small: two allocation-rate schedulers [0,0.6] and
// [0.7,1.0], three nodes whose resource version never changes, n1 goes 0.20 -> 0.95 -> 0.20
func fixedHistories() []genCase {
	alloc := func(name, lo, hi int64) specT {
		return specT{name: name, cpumax: 1000, pols: []polT{{name: 1, weight: 1, args: []argT{{1, lo}, {2, hi}}}}}
	}
	h := &histT{specs: []specT{alloc(1, 0, 600), alloc(2, 700, 1000)}}
	for _, u1 := range []int64{200, 950, 200} {
		st := stepT{}
		for i, u := range []int64{u1, 300, 900} {
			st.nodes = append(st.nodes, nodeT{name: int64(i + 1)})
			st.metrics = append(st.metrics, metricT{name: int64(i + 1), present: true, util: u, rv: 100})
		}
		h.steps = append(h.steps, st)
	}
	return []genCase{{id: "history-stale-metrics", kind: "history", sel: 5, hist: h}}
}

func emitHistory(c genCase, emit func(id string, sel int, in []int64, kind string, nontrivial bool, desc any)) {
	v, _ := histMemo.Load(key(c.toks))
	o := v.(histOutcome)
	assigned := 0
	for _, r := range o.steps {
		p := 1
		for j := 0; j < int(r[0]); j++ {
			l := int(r[p+1])
			assigned += l
			p += 2 + l
		}
	}
	sizes := []int{}
	for _, st := range c.hist.steps {
		sizes = append(sizes, len(st.nodes))
	}
	emit(c.id, 5, c.toks, c.kind, o.ok && len(c.hist.steps) >= 2 && assigned >= 2,
		map[string]any{"reconciles": len(c.hist.steps), "nodes_per_step": sizes, "schedulers": len(c.hist.specs), "assigned": assigned})
}
