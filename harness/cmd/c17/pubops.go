// Op-level publication stream (selector 8): the real controller driven key by
// key — global syncs, single worker items in ANY order, assignment-cache
// clears (ConfigMap reload) and expiry, NodeShards deleted from the API server,
// NodeShards missing from the lister (never created / deleted / lagging) for
// any subset of the schedulers.  Observed: the NodeShards on the fake API
// server after every step.
package main

import (
	"fmt"
	"sync"
	"time"

	"verif/harness/internal/vh"
	"volcano.sh/volcano/pkg/controllers/sharding"
)

type opT struct {
	code   int64 // 1 sync, 2 key, 3 clear/age the assignment cache, 4 delete the NodeShard, 5 sync with failing NodeShard writes (hidden = the failing ones)
	s      int64 // scheduler (2, 4); 3: 0 = cleared as by a ConfigMap reload, 1 = aged beyond its retention
	hidden []int64
}

type opsHistT struct {
	histT
	ops [][]opT
}

func (h *opsHistT) tokens() []int64 {
	out := encSpecs(h.specs)
	out = append(out, int64(len(h.steps)))
	for k, st := range h.steps {
		out = append(out, int64(len(st.nodes)))
		for _, n := range st.nodes {
			out = append(out, n.name, vh.B(n.warm))
		}
		out = append(out, int64(len(st.metrics)))
		for _, m := range st.metrics {
			out = append(out, m.name, vh.B(m.present))
			if m.present {
				out = append(out, m.util)
			}
			out = append(out, m.rv)
		}
		out = append(out, int64(len(h.ops[k])))
		for _, o := range h.ops[k] {
			out = append(out, o.code, o.s, int64(len(o.hidden)))
			out = append(out, o.hidden...)
		}
	}
	return out
}

func decodeOpsHist(t []int64) *opsHistT {
	r := &tokReader{t: t}
	h := &opsHistT{}
	h.specs = r.specs()
	for i, n := 0, int(r.next()); i < n; i++ {
		st := stepT{}
		for j, k := 0, int(r.next()); j < k; j++ {
			nm := r.next()
			st.nodes = append(st.nodes, nodeT{nm, r.next() != 0})
		}
		for j, k := 0, int(r.next()); j < k; j++ {
			m := metricT{name: r.next()}
			m.present = r.next() != 0
			if m.present {
				m.util = r.next()
			}
			m.rv = r.next()
			st.metrics = append(st.metrics, m)
		}
		var ops []opT
		for j, k := 0, int(r.next()); j < k; j++ {
			o := opT{code: r.next(), s: r.next()}
			for a, b := 0, int(r.next()); a < b; a++ {
				o.hidden = append(o.hidden, r.next())
			}
			ops = append(ops, o)
		}
		h.steps = append(h.steps, st)
		h.ops = append(h.ops, ops)
	}
	if r.i != len(t) {
		panic("harness: trailing tokens in op history")
	}
	return h
}

var opsMemo sync.Map

func schedNames(ks []int64) []string {
	out := []string{}
	for _, k := range ks {
		out = append(out, schedName(k))
	}
	return out
}

func computeOps(toks []int64) (o pubOutcome) {
	defer func() {
		if r := recover(); r != nil {
			o.panic = fmt.Sprint(r)
		}
	}()
	h := decodeOpsHist(toks)
	cfg, err := sharding.ParseShardingConfig(buildYAML(&input{specs: h.specs}, 0))
	if err != nil {
		return o
	}
	o.ok = true
	p := sharding.VerifNewPublisher(cfg)
	prev := map[string][]string{}
	const (
		cacheEmpty = iota
		cacheFresh
		cacheStale
	)
	cacheState := cacheEmpty
	for k := range h.steps {
		in := h.stepInput(k)
		nodes := buildNodes(in)
		p.SetNodes(nodes)
		p.SetMetrics(buildProvider(in, k%2).m)
		// which schedulers had the CURRENT calculation applied by some worker item of this
		// step (bookkeeping for the signature only): a global sync does it for all; a key
		// does it when the cache is empty/expired (fallback) or was filled during this step
		processed := map[string]bool{}
		faulted := map[string]bool{}
		if cacheState == cacheFresh {
			cacheState = cacheStale // filled by a sync on the previous inputs
		}
		for _, op := range h.ops[k] {
			switch op.code {
			case 1:
				p.HideShards(schedNames(op.hidden))
				p.SyncShards()
				cacheState = cacheFresh
				for _, sp := range h.specs {
					processed[schedName(sp.name)] = true
				}
			case 2:
				p.HideShards(schedNames(op.hidden))
				p.ProcessKey(schedName(op.s))
				if cacheState != cacheStale {
					processed[schedName(op.s)] = true
				}
			case 3:
				if op.s == 0 {
					p.ClearAssignmentCache()
				} else {
					p.AgeAssignmentCache(6 * time.Minute)
				}
				cacheState = cacheEmpty
			case 4:
				p.DeleteShard(schedName(op.s))
			case 5:
				// a global sync while the API server refuses every write of the NodeShards in
				// op.hidden (beyond the worker's 1+3 attempts: the key is dropped) and refuses the
				// first (name mod 4) writes of the others (within the budget: the retry succeeds)
				p.HideShards(nil)
				for _, sp := range h.specs {
					p.FailShardWrites(schedName(sp.name), int(sp.name%4))
					processed[schedName(sp.name)] = true
				}
				for _, f := range op.hidden {
					p.FailShardWrites(schedName(f), 1000)
					faulted[schedName(f)] = true
				}
				p.SyncShards()
				p.DrainWithRetries()
				for _, sp := range h.specs {
					p.FailShardWrites(schedName(sp.name), 0)
				}
				cacheState = cacheFresh
			default:
				panic("harness: unknown op")
			}
		}
		p.HideShards(nil)
		pub := p.Published()
		calc, _ := realRun(in, 1-k%2, listerNodes(nodes, false))
		o.pubs = append(o.pubs, encResult(pub))
		o.judge = append(o.judge, judgeStep(prev, pub, calc, processed, faulted))
		prev = pub
	}
	return o
}

func opsOutcomeOf(toks []int64) pubOutcome {
	if v, ok := opsMemo.Load(key(toks)); ok {
		return v.(pubOutcome)
	}
	o := computeOps(toks)
	opsMemo.Store(key(toks), o)
	return o
}

func opsRun(toks []int64) []int64 {
	o := opsOutcomeOf(toks)
	if o.panic != "" {
		panic(o.panic)
	}
	out := tag(1)
	if !o.ok {
		return append(out, 0)
	}
	out = append(out, 1)
	out = append(out, tag(2)...)
	out = append(out, int64(len(o.pubs)))
	for _, r := range o.pubs {
		out = append(out, tag(3)...)
		out = append(out, r...)
	}
	return out
}

func opsLaws(toks []int64, law func(lsel int, lin []int64, sig string)) {
	o := opsOutcomeOf(toks)
	if !o.ok || o.panic != "" {
		return
	}
	h := decodeOpsHist(toks)
	for k := range h.steps {
		emitJudged(o.judge[k], listedTokens(h.stepInput(k)), law)
	}
}

// ---------- generator ----------

// Every step starts from a defined cache state for its (new) inputs — a global
// sync, or a cleared / expired cache — and processes the key of EVERY scheduler
// at least once afterwards, in a random order, so that at the end of the step the
// only legitimate reason for a stale NodeShard is the damping threshold.  In
// between: NodeShards are deleted, and any subset of the OTHER schedulers'
// NodeShards is missing from the lister while a key is processed (a scheduler's
// own NodeShard is hidden only while it does not exist: hiding an existing one
// turns its own update into a no-op, which is informer lag, not a defect).
func genOpsHistory(r *vh.Rng) *opsHistT {
	h := &opsHistT{histT: *genPubHistory(r)}
	names := []int64{}
	for _, s := range h.specs {
		names = append(names, s.name)
	}
	exists := map[int64]bool{}
	subset := func(pool []int64, num, den int) []int64 {
		out := []int64{}
		for _, n := range pool {
			if r.Chance(num, den) {
				out = append(out, n)
			}
		}
		return out
	}
	healNext := false
	for k := range h.steps {
		var ops []opT
		if healNext {
			// the API server has recovered; nothing else changed: the periodic sync must repair
			// every NodeShard whose key was dropped
			healNext = false
			h.steps[k] = h.steps[k-1]
			h.ops = append(h.ops, []opT{{code: 1}})
			for _, n := range names {
				exists[n] = true
			}
			continue
		}
		if k > 0 && k+1 < len(h.steps) && r.Chance(1, 5) {
			failed := subset(names, 1, 2)
			if len(failed) == 0 {
				failed = []int64{vh.Pick(r, names)}
			}
			isFailed := map[int64]bool{}
			for _, f := range failed {
				isFailed[f] = true
			}
			for _, n := range names {
				if !isFailed[n] {
					exists[n] = true
				}
			}
			h.ops = append(h.ops, []opT{{code: 5, hidden: failed}})
			healNext = true
			continue
		}
		absent := func() []int64 {
			out := []int64{}
			for _, n := range names {
				if !exists[n] {
					out = append(out, n)
				}
			}
			return out
		}
		if len(h.ops) > 0 && len(names) > 1 && r.Chance(1, 5) {
			// the second known finding's situation: the cache is gone and only SOME schedulers'
			// keys arrive (NodeShard events): those shards are republished from today's
			// calculation, the others keep what an older calculation gave them
			ops = append(ops, opT{code: 3, s: int64(r.Intn(2))})
			for _, s := range subset(names, 1, 2) {
				ops = append(ops, opT{code: 2, s: s})
				exists[s] = true
			}
			h.ops = append(h.ops, ops)
			continue
		}
		if r.Chance(2, 5) {
			ops = append(ops, opT{code: 1, hidden: subset(absent(), 1, 2)})
			for _, n := range names {
				exists[n] = true
			}
			if r.Chance(1, 3) {
				ops = append(ops, opT{code: 3, s: int64(r.Intn(2))})
			}
		} else {
			ops = append(ops, opT{code: 3, s: int64(r.Intn(2))})
		}
		order := append([]int64{}, names...)
		for i := len(order) - 1; i > 0; i-- {
			j := r.Intn(i + 1)
			order[i], order[j] = order[j], order[i]
		}
		if r.Chance(1, 4) {
			order = append(order, vh.Pick(r, names)) // a key processed twice
		}
		for _, s := range order {
			if r.Chance(1, 4) {
				d := vh.Pick(r, names)
				ops = append(ops, opT{code: 4, s: d})
				exists[d] = false
			}
			others := []int64{}
			for _, n := range names {
				if n != s || !exists[n] {
					others = append(others, n)
				}
			}
			ops = append(ops, opT{code: 2, s: s, hidden: subset(others, 1, 3)})
			exists[s] = true
		}
		h.ops = append(h.ops, ops)
	}
	return h
}

// seed C17-r5-1 in small: a and b both [0,1] capped at 2, four nodes, empty
// cache, b's key before a's while a has no NodeShard
func fixedOpsHistories() []genCase {
	alloc := func(name int64) specT {
		return specT{name: name, cpumax: 1000, pols: []polT{
			{name: 1, weight: 1, args: []argT{{1, 0}, {2, 1000}}}, {name: 3, args: []argT{{4, 2}}}}}
	}
	mk := func(ops [][]opT) *opsHistT {
		h := &opsHistT{ops: ops}
		h.specs = []specT{alloc(1), alloc(2)}
		for range ops {
			st := stepT{}
			for i := int64(1); i <= 4; i++ {
				st.nodes = append(st.nodes, nodeT{name: i})
				st.metrics = append(st.metrics, metricT{name: i, present: true, util: 100 * i})
			}
			h.steps = append(h.steps, st)
		}
		return h
	}
	// second known finding in small (second audit N1): sync, then the utilisations are
	// reversed, the cache has expired and only b's key arrives
	n1 := mk([][]opT{{{code: 1}}, {{code: 3, s: 1}, {code: 2, s: 2}}})
	for i := range n1.steps[1].metrics {
		n1.steps[1].metrics[i].util = 100 * int64(4-i)
	}
	// seed C17-r6-2's scenario: s1 = [0,0.6], s2 = [0.7,1.0]; n2 rises; every write of s1 fails in
	// that round; the API recovers; the next periodic sync (same metrics) must repair s1
	band := func(name, lo, hi int64) specT {
		return specT{name: name, cpumax: 1000, pols: []polT{{name: 1, weight: 1, args: []argT{{1, lo}, {2, hi}}}}}
	}
	lost := &opsHistT{ops: [][]opT{{{code: 1}}, {{code: 5, hidden: []int64{1}}}, {{code: 1}}, {{code: 1}}}}
	lost.specs = []specT{band(1, 0, 600), band(2, 700, 1000)}
	for k := 0; k < 4; k++ {
		u2 := int64(300)
		if k > 0 {
			u2 = 900
		}
		st := stepT{}
		for i, u := range []int64{200, u2, 800} {
			st.nodes = append(st.nodes, nodeT{name: int64(i + 1)})
			st.metrics = append(st.metrics, metricT{name: int64(i + 1), present: true, util: u})
		}
		lost.steps = append(lost.steps, st)
	}
	return []genCase{
		{id: "lost-update-repaired-by-next-sync", kind: "publish-ops", sel: 8, ops: lost},
		{id: "fallback-one-key-after-metrics-change", kind: "publish-ops", sel: 8, ops: n1},
		{id: "fallback-predecessor-shard-missing", kind: "publish-ops", sel: 8,
			ops: mk([][]opT{{{code: 3}, {code: 2, s: 2}, {code: 2, s: 1}}})},
		{id: "fallback-predecessor-shard-hidden", kind: "publish-ops", sel: 8,
			ops: mk([][]opT{{{code: 1}}, {{code: 3, s: 1}, {code: 4, s: 2}, {code: 2, s: 2, hidden: []int64{1}}, {code: 2, s: 1}}})},
	}
}

func emitOps(c genCase, emit func(id string, sel int, in []int64, kind string, nontrivial bool, desc any)) {
	v, _ := opsMemo.Load(key(c.toks))
	o := v.(pubOutcome)
	nops := 0
	for _, l := range c.ops.ops {
		nops += len(l)
	}
	staleH, staleU := 0, 0
	for _, j := range o.judge {
		staleH += len(j.staleH)
		staleU += len(j.staleU)
	}
	emit(c.id, 8, c.toks, c.kind, o.ok && nops >= 3,
		map[string]any{"steps": len(c.ops.steps), "ops": nops, "schedulers": len(c.ops.specs), "shards_left_stale_by_threshold": staleH, "shards_left_stale_by_unprocessed_key": staleU})
}
