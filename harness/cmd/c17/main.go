// C17 harness: node shards computed by the real ShardingManager, configured
// through the real path (YAML -> ParseShardingConfig -> applyPolicyDefaults ->
// schedulerConfigFromSpec -> NewShardingManager -> CalculateShardAssignments)
// with a stub metrics provider.
package main

import (
	"fmt"
	"os"
	"sort"
	"strconv"
	"strings"
	"sync"

	corev1 "k8s.io/api/core/v1"
	metav1 "k8s.io/apimachinery/pkg/apis/meta/v1"
	corelisters "k8s.io/client-go/listers/core/v1"
	"k8s.io/client-go/tools/cache"
	"sigs.k8s.io/yaml"

	"verif/harness/internal/vh"
	"volcano.sh/volcano/pkg/controllers/sharding"
	"volcano.sh/volcano/pkg/controllers/sharding/policy"
)

// ---------- input in model terms ----------

type nodeT struct {
	name int64
	warm bool
}
type metricT struct {
	name    int64
	present bool
	util    int64 // permille
	rv      int64 // history stream only: NodeMetrics.ResourceVersion ("" when 0); ignored by the model
}
type argT struct{ k, v int64 }
type polT struct {
	name, weight int64
	args         []argT
}
type specT struct {
	name, cpumin, cpumax int64
	prefer               bool
	minn, maxn           int64
	args                 []argT
	pols                 []polT
}
type input struct {
	nodes   []nodeT
	metrics []metricT
	specs   []specT
}

func encArgs(a []argT) []int64 {
	out := []int64{int64(len(a))}
	for _, x := range a {
		out = append(out, x.k, x.v)
	}
	return out
}

func (in *input) tokens() []int64 {
	out := []int64{int64(len(in.nodes))}
	for _, n := range in.nodes {
		out = append(out, n.name, vh.B(n.warm))
	}
	out = append(out, int64(len(in.metrics)))
	for _, m := range in.metrics {
		out = append(out, m.name, vh.B(m.present))
		if m.present {
			out = append(out, m.util)
		}
	}
	return append(out, encSpecs(in.specs)...)
}

func encSpecs(specs []specT) []int64 {
	out := []int64{int64(len(specs))}
	for _, s := range specs {
		out = append(out, s.name, s.cpumin, s.cpumax, vh.B(s.prefer), s.minn, s.maxn)
		out = append(out, encArgs(s.args)...)
		out = append(out, int64(len(s.pols)))
		for _, p := range s.pols {
			out = append(out, p.name, p.weight)
			out = append(out, encArgs(p.args)...)
		}
	}
	return out
}

type tokReader struct {
	t []int64
	i int
}

func (r *tokReader) next() int64 { v := r.t[r.i]; r.i++; return v }
func (r *tokReader) args() []argT {
	n := int(r.next())
	a := make([]argT, 0, n)
	for i := 0; i < n; i++ {
		k := r.next()
		a = append(a, argT{k, r.next()})
	}
	return a
}

func decode(t []int64) *input {
	r := &tokReader{t: t}
	in := &input{}
	for i, n := 0, int(r.next()); i < n; i++ {
		nm := r.next()
		in.nodes = append(in.nodes, nodeT{nm, r.next() != 0})
	}
	for i, n := 0, int(r.next()); i < n; i++ {
		m := metricT{name: r.next()}
		m.present = r.next() != 0
		if m.present {
			m.util = r.next()
		}
		in.metrics = append(in.metrics, m)
	}
	in.specs = r.specs()
	if r.i != len(t) {
		panic("harness: trailing tokens")
	}
	return in
}

func (r *tokReader) specs() (out []specT) {
	for i, n := 0, int(r.next()); i < n; i++ {
		s := specT{name: r.next(), cpumin: r.next(), cpumax: r.next()}
		s.prefer = r.next() != 0
		s.minn, s.maxn = r.next(), r.next()
		s.args = r.args()
		for j, k := 0, int(r.next()); j < k; j++ {
			p := polT{name: r.next(), weight: r.next()}
			p.args = r.args()
			s.pols = append(s.pols, p)
		}
		out = append(out, s)
	}
	return out
}

// ---------- model terms -> real objects ----------

func schedName(k int64) string {
	if k <= 0 {
		return ""
	}
	return "s" + strconv.FormatInt(k, 10)
}

// zero-padded, so that Go's byte-wise string order (the order listNodesFromCache
// sorts by) is the numeric order of the model's positive names
func nodeName(k int64) string { return fmt.Sprintf("n%07d", k) }

func policyName(k int64) string {
	switch k {
	case 0:
		return ""
	case 1:
		return "allocation-rate"
	case 2:
		return "warmup"
	case 3:
		return "node-limit"
	}
	return "unregistered-" + strconv.FormatInt(k, 10)
}

func argKey(k int64) string {
	switch k {
	case 1:
		return "minCPUUtil"
	case 2:
		return "maxCPUUtil"
	case 3:
		return "minNodes"
	case 4:
		return "maxNodes"
	}
	return "other" + strconv.FormatInt(k, 10)
}

func permille(p int64) float64 { return float64(p) / 1000 }

// the FIRST entry of a key wins (the model's lookup).  variant 0 inserts the
// keys back to front, variant 1 front to back: two insertion orders of the same map.
func argMap(a []argT, variant int) map[string]interface{} {
	if len(a) == 0 {
		return nil
	}
	m := map[string]interface{}{}
	put := func(x argT) {
		if x.k == 1 || x.k == 2 {
			m[argKey(x.k)] = permille(x.v)
		} else {
			m[argKey(x.k)] = int(x.v)
		}
	}
	if variant == 0 {
		for i := len(a) - 1; i >= 0; i-- {
			put(a[i])
		}
	} else {
		for _, x := range a {
			if _, dup := m[argKey(x.k)]; !dup {
				put(x)
			}
		}
	}
	return m
}

func buildYAML(in *input, variant int) []byte {
	cfg := sharding.ShardingConfig{}
	for _, s := range in.specs {
		spec := sharding.SchedulerConfigSpec{
			Name: schedName(s.name), Type: "volcano",
			Arguments:         argMap(s.args, variant),
			CPUUtilizationMin: permille(s.cpumin), CPUUtilizationMax: permille(s.cpumax),
			PreferWarmupNodes: s.prefer, MinNodes: int(s.minn), MaxNodes: int(s.maxn),
		}
		for _, p := range s.pols {
			spec.Policies = append(spec.Policies, sharding.PolicySpec{
				Name: policyName(p.name), Weight: int(p.weight), Arguments: argMap(p.args, variant)})
		}
		cfg.SchedulerConfigs = append(cfg.SchedulerConfigs, spec)
	}
	b, err := yaml.Marshal(cfg)
	if err != nil {
		panic("harness: yaml.Marshal: " + err.Error())
	}
	return b
}

type stubProvider struct {
	m map[string]*sharding.NodeMetrics
}

func (p *stubProvider) GetNodeMetrics(n string) *sharding.NodeMetrics { return p.m[n] }
func (p *stubProvider) GetAllNodeMetrics() map[string]*sharding.NodeMetrics {
	out := make(map[string]*sharding.NodeMetrics, len(p.m))
	for k, v := range p.m {
		out[k] = v
	}
	return out
}
func (p *stubProvider) UpdateNodeMetrics(n string, m *sharding.NodeMetrics) { p.m[n] = m }

func buildProvider(in *input, variant int) *stubProvider {
	p := &stubProvider{m: map[string]*sharding.NodeMetrics{}}
	put := func(m metricT) {
		if !m.present {
			p.m[nodeName(m.name)] = nil
			return
		}
		p.m[nodeName(m.name)] = &sharding.NodeMetrics{NodeName: nodeName(m.name), CPUUtilization: permille(m.util), ResourceVersion: rvString(m.rv)}
	}
	if variant == 0 {
		for i := len(in.metrics) - 1; i >= 0; i-- {
			put(in.metrics[i])
		}
	} else {
		for _, m := range in.metrics {
			if _, dup := p.m[nodeName(m.name)]; !dup {
				put(m)
			}
		}
	}
	return p
}

func buildNodes(in *input) []*corev1.Node {
	out := make([]*corev1.Node, 0, len(in.nodes))
	rvOf := map[int64]int64{}
	for i := len(in.metrics) - 1; i >= 0; i-- {
		rvOf[in.metrics[i].name] = in.metrics[i].rv
	}
	for _, n := range in.nodes {
		node := &corev1.Node{ObjectMeta: metav1.ObjectMeta{Name: nodeName(n.name), ResourceVersion: rvString(rvOf[n.name])}}
		switch {
		case n.warm:
			node.Labels = map[string]string{"node.volcano.sh/warmup": "true", "zone": "a"}
		case n.name%3 == 0:
			node.Labels = map[string]string{"node.volcano.sh/warmup": "false"}
		case n.name%3 == 1:
			node.Labels = map[string]string{"zone": "b"}
		}
		out = append(out, node)
	}
	return out
}

// one full run on a fresh manager; ok=false when ParseShardingConfig rejects the YAML
// variant selects the insertion order of every map handed to the code; nodes
// (optional) replaces the node slice by another listing of the same nodes.
func realRun(in *input, variant int, nodes []*corev1.Node) (res map[string][]string, ok bool) {
	cfg, err := sharding.ParseShardingConfig(buildYAML(in, variant))
	if err != nil {
		return nil, false
	}
	configs := sharding.VerifSchedulerConfigs(cfg)
	mgr := sharding.NewShardingManager(configs, buildProvider(in, variant))
	if nodes == nil {
		nodes = buildNodes(in)
	}
	before := make([]*corev1.Node, len(nodes))
	copy(before, nodes)
	as, err := mgr.CalculateShardAssignments(nodes, nil)
	if err != nil {
		panic("CalculateShardAssignments returned an error: " + err.Error())
	}
	for i := range nodes {
		if nodes[i] != before[i] {
			panic("CalculateShardAssignments reordered the caller's node slice")
		}
	}
	res = map[string][]string{}
	for name, a := range as {
		if a == nil || a.SchedulerName != name {
			panic("assignment stored under a different scheduler name")
		}
		res[name] = append([]string{}, a.NodesDesired...)
	}
	return res, true
}

func num(s string, prefix string) int64 {
	v, err := strconv.ParseInt(strings.TrimPrefix(s, prefix), 10, 64)
	if err != nil || !strings.HasPrefix(s, prefix) {
		panic("unexpected name in result: " + s)
	}
	return v
}

func encResult(res map[string][]string) []int64 {
	keys := []int64{}
	for k := range res {
		keys = append(keys, num(k, "s"))
	}
	sort.Slice(keys, func(i, j int) bool { return keys[i] < keys[j] })
	out := []int64{int64(len(keys))}
	for _, k := range keys {
		l := res[schedName(k)]
		out = append(out, k, int64(len(l)))
		for _, n := range l {
			out = append(out, num(n, "n"))
		}
	}
	return out
}

func tag(i int64) []int64 { return []int64{-100 - i} }

func encAssign(res map[string][]string, ok bool) []int64 {
	out := tag(1)
	if !ok {
		return append(out, 0)
	}
	out = append(out, 1)
	out = append(out, tag(2)...)
	return append(out, encResult(res)...)
}

// Run is a function of the tokens only; memo just avoids recomputation of
// cases the generator already ran on its worker pool.
var memo sync.Map

func key(in []int64) string {
	var b strings.Builder
	for _, x := range in {
		b.WriteString(strconv.FormatInt(x, 36))
		b.WriteByte(',')
	}
	return b.String()
}

type outcome struct {
	got   []int64 // run with map insertion order 0 on the node slice as given
	got2  []int64 // result of a fresh manager with map insertion order 1
	listA []int64 // assignments for the nodes as listNodesFromCache lists them, lister filled front to back
	listB []int64 // ... and back to front (both nil when node names repeat: not a lister state)
	panic string
}

// the node list as syncShards gets it: listNodesFromCache on a client-go
// lister over an indexer filled with exactly these nodes, front to back or back to front
func listerNodes(nodes []*corev1.Node, reverse bool) []*corev1.Node {
	idx := cache.NewIndexer(cache.MetaNamespaceKeyFunc, cache.Indexers{})
	for i := range nodes {
		n := nodes[i]
		if reverse {
			n = nodes[len(nodes)-1-i]
		}
		if err := idx.Add(n); err != nil {
			panic("harness: indexer.Add: " + err.Error())
		}
	}
	out, err := sharding.VerifListNodes(corelisters.NewNodeLister(idx))
	if err != nil || len(out) != len(nodes) {
		panic("harness: listNodesFromCache lost nodes")
	}
	return out
}

func compute(in []int64) (o outcome) {
	defer func() {
		if r := recover(); r != nil {
			o.panic = fmt.Sprint(r)
		}
	}()
	inp := decode(in)
	res, ok := realRun(inp, 0, nil)
	o.got = encAssign(res, ok)
	if !ok {
		return o
	}
	res2, ok2 := realRun(inp, 1, nil)
	if !ok2 {
		panic("second run: configuration rejected although the first run accepted it")
	}
	o.got2 = encResult(res2)
	seen := map[int64]bool{}
	for _, n := range inp.nodes {
		if seen[n.name] {
			return o
		}
		seen[n.name] = true
	}
	nodes := buildNodes(inp)
	ra, _ := realRun(inp, 0, listerNodes(nodes, false))
	rb, _ := realRun(inp, 1, listerNodes(nodes, true))
	o.listA, o.listB = encResult(ra), encResult(rb)
	return o
}

func outcomeOf(in []int64) outcome {
	if v, ok := memo.Load(key(in)); ok {
		return v.(outcome)
	}
	o := compute(in)
	memo.Store(key(in), o)
	return o
}

func run(sel int, in []int64) []int64 {
	if sel == 5 {
		return histRun(in)
	}
	if sel == 6 || sel == 7 {
		return pubRun(in, sel == 7)
	}
	if sel == 8 {
		return opsRun(in)
	}
	if sel < 1 || sel > 4 {
		panic(fmt.Sprintf("harness: unknown selector %d", sel))
	}
	o := outcomeOf(in)
	if o.panic != "" {
		panic(o.panic)
	}
	if sel == 4 { // syncShards' view: real lister -> listNodesFromCache -> CalculateShardAssignments
		if len(o.got) < 3 || o.got[1] != 1 {
			return o.got
		}
		if o.listA == nil {
			panic("harness: selector 4 needs pairwise distinct node names (a lister holds one node per name)")
		}
		return append(append(append(tag(1), 1), tag(2)...), o.listA...)
	}
	if sel == 3 {
		return o.got[:2] // near-tie input: only accept/reject is compared with the model
	}
	return o.got
}

// known-finding signatures (only meaningful while the batched path applies the
// selector chain per batch; "" once the code is repaired)
const sigNodeLimit = ""
const sigScoreOrder = ""

// the node lister returns the nodes in Go map order; before /repo f5a4653 nothing sorted them
// before CalculateShardAssignments and ties of the weighted score were broken by that order
// (was sig "C17-node-lister-order-breaks-ties"; "" since the repair)
const sigListerOrder = ""

func laws(sel int, in, got []int64, law func(lsel int, lin []int64, sig string)) {
	if sel == 4 {
		return // the selector-1/3 case over the same tokens carries the laws
	}
	if sel == 5 {
		histLaws(in, law)
		return
	}
	if sel == 6 || sel == 7 {
		pubLaws(in, sel == 7, law)
		return
	}
	if sel == 8 {
		opsLaws(in, law)
		return
	}
	o := outcomeOf(in)
	got = o.got
	if len(got) < 3 || got[1] != 1 {
		return // configuration rejected: no assignment to speak about
	}
	res := got[3:]
	cat := func(a, b []int64) []int64 { return append(append([]int64{}, a...), b...) }
	inp := decode(in)
	big := len(inp.nodes) > 50
	s1, s2 := "", ""
	if big {
		s1, s2 = sigNodeLimit, sigScoreOrder
	}
	law(101, res, "")
	law(102, cat(in, res), s1)
	law(103, cat(in, res), "")
	if sel == 3 {
		law(108, cat(in, res), s2) // order up to the float tolerance, same-class ties exact
	} else {
		law(104, cat(in, res), s2)
	}
	// identical inputs, identical assignments: a second run on a fresh manager whose
	// maps (metrics provider, policy arguments) were filled in the opposite order
	law(105, cat(res, o.got2), "")
	law(106, cat(in, res), s1)
	// bound and eligibility against the CONFIGURED policy entries (not the initialised chain)
	law(112, cat(in, res), "")
	law(113, cat(in, res), "")
	// the same cluster in two differently filled node listers: identical assignments (order included)
	if o.listA != nil {
		law(107, cat(o.listA, o.listB), sigListerOrder)
	}
}

// ---------- generator ----------

// float-order guard: the model compares exact rationals.  Exact weighted sums
// of two nodes either coincide or differ by at least 1e-6 (at most three
// allocation-rate scorers, denominators <= 100 each), float64 errors are
// below 1e-12: so a pair of float totals that differ by less than 1e-9 without
// being equal is an exact tie that float rounding broke; such inputs are not emitted.
func floatOrderExact(in *input) bool {
	cfg, err := sharding.ParseShardingConfig(buildYAML(in, 0))
	if err != nil {
		return true
	}
	nodes := buildNodes(in)
	prov := buildProvider(in, 0)
	pm := map[string]*policy.NodeMetrics{}
	for k, v := range prov.m {
		if v != nil {
			pm[k] = &policy.NodeMetrics{NodeName: v.NodeName, CPUUtilization: v.CPUUtilization}
		}
	}
	for _, c := range sharding.VerifSchedulerConfigs(cfg) {
		type sc struct {
			w float64
			s policy.Scorer
		}
		var scorers []sc
		for _, ref := range c.Policies {
			b, err := policy.GetPolicy(ref.Name)
			if err != nil {
				return true // initialisation stops here: no scorer from this scheduler on
			}
			inst := b()
			if inst.Initialize(policy.Arguments(ref.Arguments)) != nil {
				return true
			}
			if s, ok := inst.(policy.Scorer); ok {
				scorers = append(scorers, sc{float64(ref.Weight), s})
			}
		}
		if len(scorers) < 2 {
			continue // one scorer: the float order is the order of its own (monotone) scores
		}
		if len(scorers) > 4 {
			return false // the 1e-9 gap argument is only made for up to four scorers (exact gaps >= 1e-8)
		}
		ctx := &policy.PolicyContext{NodeMetrics: pm, AllNodes: nodes}
		tot := make([]float64, len(nodes))
		for _, x := range scorers {
			for i, n := range nodes {
				tot[i] += x.w * x.s.Score(ctx, n)
			}
		}
		sort.Float64s(tot)
		for i := 1; i < len(tot); i++ {
			if d := tot[i] - tot[i-1]; d != 0 && d < 1e-9 {
				return false
			}
		}
	}
	return true
}

func utilValue(r *vh.Rng, mode int, pivots []int64) int64 {
	var u int64
	switch mode {
	case 0: // anywhere
		u = int64(r.Intn(1001))
	case 1: // few distinct values: many ties
		u = int64(r.Intn(6)) * 150
	case 2: // around a filter bound, at the rounding boundary
		p := vh.Pick(r, pivots)
		u = p + vh.Pick(r, []int64{-14, -6, -4, -1, 0, 1, 4, 6, 14})
	default: // hundredths
		u = int64(r.Intn(101)) * 10
	}
	if r.Chance(1, 40) {
		u = 1000 + int64(r.Intn(400))
	}
	if r.Chance(1, 60) {
		u = -int64(r.Intn(20)) - 1
	}
	if u%10 == 5 || u%10 == -5 {
		u++ // never at a rounding half-point (see the model's header)
	}
	return u
}

func genArgsAlloc(r *vh.Rng, bad bool) ([]argT, []int64) {
	lo := int64(r.Intn(8)) * 100
	hi := lo + int64(r.Intn(int(1000-lo)/50+1))*50
	if r.Chance(1, 4) {
		lo, hi = int64(r.Intn(60))*10, int64(40+r.Intn(61))*10
		if lo > hi {
			lo, hi = hi, lo
		}
	}
	if r.Chance(1, 6) { // not on the hundredths grid: Initialize rounds
		lo += vh.Pick(r, []int64{-4, -3, 2, 4})
		hi += vh.Pick(r, []int64{-4, -2, 3, 4})
		if lo < 0 {
			lo = 0
		}
		if hi > 1000 {
			hi = 1000
		}
		if lo > hi {
			lo = hi
		}
	}
	if r.Chance(1, 12) {
		hi = lo // empty range: Score is constantly 1
	}
	a := []argT{{1, lo}, {2, hi}}
	if bad {
		switch r.Intn(4) {
		case 0:
			a = []argT{{1, hi + 10}, {2, hi}} // min > max (or max absent)
		case 1:
			a = []argT{{1, lo}} // max absent => 0
		case 2:
			a = []argT{{1, lo}, {2, 1001 + int64(r.Intn(50))}}
		default:
			a = []argT{{1, -1 - int64(r.Intn(5))}, {2, hi}}
		}
	}
	if r.Chance(1, 10) {
		a = append(a, argT{7, int64(r.Intn(9))}) // an unknown key is ignored
	}
	if r.Chance(1, 15) && len(a) > 0 {
		a = append(a, argT{a[0].k, int64(r.Intn(1000))}) // a repeated key: the first wins
	}
	return a, []int64{lo, hi}
}

func genLimit(r *vh.Rng, nNodes int, bad bool) []argT {
	mx := int64(1 + r.Intn(6))
	switch r.Intn(6) {
	case 0:
		mx = int64(nNodes/4 + r.Intn(5))
	case 1:
		mx = int64(r.Intn(nNodes + 3))
	case 2:
		mx = int64(20 + r.Intn(40))
	}
	mn := int64(0)
	if r.Chance(1, 3) && mx > 0 {
		mn = int64(r.Intn(int(mx) + 1))
	}
	if r.Chance(1, 12) {
		mx = -int64(r.Intn(3)) // no upper bound
	}
	a := []argT{{3, mn}, {4, mx}}
	if r.Chance(1, 8) {
		a = []argT{{4, mx}}
	}
	if bad {
		if r.Chance(1, 2) {
			a = []argT{{3, -1}, {4, mx}}
		} else {
			a = []argT{{3, mx + 2}, {4, mx + 1}}
			if mx+1 <= 0 {
				a = []argT{{3, -2}}
			}
		}
	}
	return a
}

func genSpec(r *vh.Rng, name int64, nNodes int, malformed bool, pivots *[]int64) specT {
	s := specT{name: name, cpumax: 1000}
	bad := func() bool { return malformed && r.Chance(1, 9) }
	if r.Chance(2, 5) {
		// legacy scalars only: applyPolicyDefaults synthesises the chain
		s.cpumin = int64(r.Intn(7)) * 100
		s.cpumax = s.cpumin + int64(r.Intn(int(1000-s.cpumin)/100+1))*100
		*pivots = append(*pivots, s.cpumin, s.cpumax)
		s.prefer = r.Chance(1, 2)
		if r.Chance(3, 4) {
			s.maxn = int64(1 + r.Intn(8))
			if r.Chance(1, 3) {
				s.maxn = int64(r.Intn(nNodes + 2))
			}
			if s.maxn > 0 && r.Chance(1, 3) {
				s.minn = int64(r.Intn(int(s.maxn) + 1))
			}
		}
		if r.Chance(1, 6) {
			a, pv := genArgsAlloc(r, bad())
			s.args = a
			*pivots = append(*pivots, pv...)
		}
		if malformed && r.Chance(1, 3) {
			// the LEGACY way to an invalid chain: no policies, a legacy `arguments` map that the
			// synthesized allocation-rate policy cannot be initialised with (next to valid scalars)
			switch r.Intn(5) {
			case 0:
				s.args = []argT{{1, 0}, {2, 60000}} // maxCPUUtil: 60, written as a percentage
			case 1:
				s.args = []argT{{1, 20000}, {2, 80000}} // both as percentages
			case 2:
				s.args = []argT{{1, 800}, {2, 200}} // min > max
			case 3:
				s.args = []argT{{1, -100}, {2, 600}} // negative
			default:
				s.args, _ = genArgsAlloc(r, true)
			}
			if r.Chance(1, 2) {
				s.args = append(s.args, argT{7, 1}) // plus a key nobody reads
			}
		}
		if bad() {
			switch r.Intn(4) {
			case 0:
				s.cpumin, s.cpumax = s.cpumax+1, s.cpumin
			case 1:
				s.cpumax = 1001
			case 2:
				s.minn = -1
			default:
				s.minn, s.maxn = 5, 3
			}
		}
		return s
	}
	k := 1 + r.Intn(4)
	allocs := 0
	for i := 0; i < k; i++ {
		p := polT{weight: int64(r.Intn(6))}
		if r.Chance(1, 3) {
			p.weight = vh.Pick(r, []int64{0, 1, 1, 2, 10})
		}
		switch c := r.Intn(10); {
		case c < 5 && allocs < 3:
			p.name = 1
			allocs++
			a, pv := genArgsAlloc(r, bad())
			p.args = a
			*pivots = append(*pivots, pv...)
		case c < 7:
			p.name = 2
		default:
			p.name = 3
			p.args = genLimit(r, nNodes, bad())
		}
		if bad() {
			switch r.Intn(4) {
			case 0:
				p.name = 0
			case 1:
				p.name = 9 // not registered
			case 2:
				p.weight = -1
			default:
				if p.name != 3 {
					p.args = append(p.args, argT{4, 3}) // maxNodes outside node-limit
				}
			}
		}
		s.pols = append(s.pols, p)
	}
	// deprecated scalars next to an explicit chain: only used when no node-limit entry exists
	if r.Chance(1, 3) {
		s.maxn = int64(1 + r.Intn(10))
	}
	if bad() {
		s.name = 0
	}
	return s
}

func genInput(r *vh.Rng, kind string) *input {
	in := &input{}
	var n int
	switch kind {
	case "small":
		n = r.Intn(51)
	case "threshold":
		n = vh.Pick(r, []int{45, 48, 49, 50, 50, 51, 51, 52, 55, 60})
	case "large":
		n = r.Range(61, 200)
		if r.Chance(1, 2) {
			n = vh.Pick(r, []int{99, 100, 101, 110, 120, 149, 150, 151})
		}
	default:
		n = r.Intn(120)
	}
	malformed := kind == "malformed"
	perm := make([]int64, n)
	for i := range perm {
		perm[i] = int64(i + 1)
	}
	for i := n - 1; i > 0; i-- { // names in a random order
		j := r.Intn(i + 1)
		perm[i], perm[j] = perm[j], perm[i]
	}
	ns := 1 + r.Intn(4)
	pivots := []int64{0, 1000}
	for i := 0; i < ns; i++ {
		in.specs = append(in.specs, genSpec(r, int64(i+1), n, malformed, &pivots))
	}
	if r.Chance(1, 2) { // scheduler names need not come in ascending order
		for i := ns - 1; i > 0; i-- {
			j := r.Intn(i + 1)
			in.specs[i].name, in.specs[j].name = in.specs[j].name, in.specs[i].name
		}
	}
	if malformed && ns > 1 && r.Chance(1, 6) {
		in.specs[ns-1].name = in.specs[0].name // duplicate scheduler name
	}
	if malformed && r.Chance(1, 25) {
		in.specs = nil
	}
	mode := r.Intn(4)
	warmDen := 2 + r.Intn(4)
	for i := 0; i < n; i++ {
		nd := nodeT{name: perm[i], warm: r.Chance(1, warmDen)}
		if malformed && i > 0 && r.Chance(1, 30) {
			nd.name = in.nodes[r.Intn(i)].name // duplicate node name
		}
		in.nodes = append(in.nodes, nd)
	}
	seen := map[int64]bool{}
	for _, nd := range in.nodes {
		if seen[nd.name] {
			continue
		}
		seen[nd.name] = true
		if r.Chance(1, 50) {
			continue // no metrics for this node
		}
		m := metricT{name: nd.name, present: true, util: utilValue(r, mode, pivots)}
		if r.Chance(1, 80) {
			m.present = false // a nil entry in the provider's map
		}
		in.metrics = append(in.metrics, m)
	}
	if r.Chance(1, 10) {
		in.metrics = append(in.metrics, metricT{name: int64(n + 5), present: true, util: 300}) // metrics of an unknown node
	}
	for i := len(in.metrics) - 1; i > 0; i-- { // the provider's map has no order
		j := r.Intn(i + 1)
		in.metrics[i], in.metrics[j] = in.metrics[j], in.metrics[i]
	}
	return in
}

type genCase struct {
	id, kind string
	sel      int
	in       *input
	hist     *histT    // selectors 5-7
	ops      *opsHistT // selector 8
	toks     []int64
}

// near-tie stream: allocation-rate (weight w1, range R hundredths) next to
// warmup (weight w2) with w2*R divisible by w1: a cold node at utilisation
// k+d and a warm node at k, d = w2*R/w1, have EXACTLY equal weighted scores,
// while float64 computes w1*((k+d-lo)/R) and w1*((k-lo)/R)+w2 separately.
func genNearTie(r *vh.Rng) *input {
	type combo struct{ w1, w2, rng int64 }
	var cs []combo
	for _, R := range []int64{20, 25, 30, 40, 50, 60, 70, 75, 90} {
		for w1 := int64(1); w1 <= 7; w1++ {
			for w2 := int64(1); w2 <= 4; w2++ {
				if (w2*R)%w1 == 0 && w2*R/w1 > 0 && w2*R/w1 <= R {
					cs = append(cs, combo{w1, w2, R})
				}
			}
		}
	}
	c := vh.Pick(r, cs)
	d := c.w2 * c.rng / c.w1
	lo := int64(r.Intn(int(100-c.rng) + 1))
	hi := lo + c.rng
	in := &input{}
	ns := 1 + r.Intn(2)
	for i := 0; i < ns; i++ {
		sp := specT{name: int64(i + 1), cpumax: 1000}
		sp.pols = []polT{
			{name: 1, weight: c.w1, args: []argT{{1, lo * 10}, {2, hi * 10}}},
			{name: 2, weight: c.w2},
		}
		if r.Chance(1, 3) {
			sp.pols[0], sp.pols[1] = sp.pols[1], sp.pols[0]
		}
		if r.Chance(3, 4) {
			sp.pols = append(sp.pols, polT{name: 3, args: []argT{{4, int64(1 + r.Intn(8))}}})
		}
		in.specs = append(in.specs, sp)
	}
	n := 4 + r.Intn(57)
	name := int64(0)
	add := func(k int64, warm bool) {
		name++
		in.nodes = append(in.nodes, nodeT{name: name, warm: warm})
		in.metrics = append(in.metrics, metricT{name: name, present: true, util: k*10 + vh.Pick(r, []int64{-4, -2, 0, 0, 1, 3})})
	}
	for len(in.nodes) < n {
		k := lo + int64(r.Intn(int(c.rng-d)+1))
		switch r.Intn(4) {
		case 0: // an exact cross tie
			add(k+d, false)
			add(k, true)
		case 1: // the same class twice: bit-identical scores, order must be kept
			w := r.Chance(1, 2)
			add(k, w)
			add(k, w)
		default:
			add(lo+int64(r.Intn(int(c.rng)+1)), r.Chance(1, 2))
		}
	}
	for i := len(in.nodes) - 1; i > 0; i-- {
		j := r.Intn(i + 1)
		in.nodes[i], in.nodes[j] = in.nodes[j], in.nodes[i]
	}
	for i := range in.metrics {
		if in.metrics[i].util < 0 {
			in.metrics[i].util = 0
		}
	}
	return in
}

func gen(rng *vh.Rng, n int, emit func(id string, sel int, in []int64, kind string, nontrivial bool, desc any)) {
	sel := 1
	if os.Getenv("C17_OLD_BATCHED") == "1" {
		sel = 2 // development aid: compare a pre-fix worktree with the model of the pre-fix batched path
	}
	kinds := []string{"small", "threshold", "large", "history", "malformed", "near-tie", "large", "publish", "publish-ops"}
	var cases []genCase
	rejected := 0
	// fixed cases first: the F6 witnesses
	for _, sz := range []int{50, 51, 120} {
		in := &input{specs: []specT{{name: 1, cpumax: 1000, pols: []polT{{name: 3, weight: 0, args: []argT{{3, 0}, {4, 1}}}}}}}
		for i := 1; i <= sz; i++ {
			in.nodes = append(in.nodes, nodeT{name: int64(i)})
		}
		cases = append(cases, genCase{id: fmt.Sprintf("f6-%d", sz), kind: "threshold", sel: sel, in: in})
	}
	{
		// 60 nodes with increasing utilisation, one allocation-rate scheduler capped at 3
		in := &input{specs: []specT{{name: 1, cpumax: 1000, maxn: 3}}}
		for i := 1; i <= 60; i++ {
			in.nodes = append(in.nodes, nodeT{name: int64(i)})
			in.metrics = append(in.metrics, metricT{name: int64(i), present: true, util: int64(i) * 10})
		}
		cases = append(cases, genCase{id: "f6-order", kind: "threshold", sel: sel, in: in})
	}
	{
		// accepted before fix 4209844 and run with an empty chain: cap 1 configured, 5 of 5 nodes assigned
		in := &input{specs: []specT{{name: 1, cpumax: 1000, pols: []polT{
			{name: 1, weight: 1, args: []argT{{1, 800}, {2, 200}}}, {name: 3, args: []argT{{4, 1}}}}}}}
		dup := &input{specs: []specT{{name: 1, cpumax: 1000, maxn: 1}, {name: 1, cpumax: 1000, prefer: true}}}
		for i := int64(1); i <= 5; i++ {
			in.nodes = append(in.nodes, nodeT{name: i})
			dup.nodes = append(dup.nodes, nodeT{name: i})
			dup.metrics = append(dup.metrics, metricT{name: i, present: true, util: 100 * i})
		}
		// the same through the LEGACY fields (seed C17-r7-1): no policies; `second` has maxNodes 5 and a
		// legacy arguments map with maxCPUUtil written as a percentage; 60 nodes
		leg := &input{specs: []specT{
			{name: 1, cpumax: 600, maxn: 10},
			{name: 2, cpumax: 1000, maxn: 5, args: []argT{{1, 0}, {2, 60000}}},
			{name: 3, cpumin: 700, cpumax: 1000, maxn: 4}}}
		for i := int64(1); i <= 60; i++ {
			leg.nodes = append(leg.nodes, nodeT{name: i})
			leg.metrics = append(leg.metrics, metricT{name: i, present: true, util: 10 * (i % 90)})
		}
		cases = append(cases, genCase{id: "uninitialisable-legacy-arguments", kind: "malformed", sel: sel, in: leg})
		cases = append(cases, genCase{id: "uninitialisable-chain", kind: "malformed", sel: sel, in: in},
			genCase{id: "duplicate-scheduler-name", kind: "malformed", sel: sel, in: dup})
	}
	{
		// the node-lister finding in small: 3 nodes, cap 1, (a) no scorer, (b) equal utilisation
		a := &input{specs: []specT{{name: 1, cpumax: 1000, pols: []polT{{name: 3, weight: 0, args: []argT{{4, 1}}}}}}}
		b := &input{specs: []specT{{name: 1, cpumax: 1000, maxn: 1}}}
		for i := int64(1); i <= 3; i++ {
			a.nodes = append(a.nodes, nodeT{name: i})
			b.nodes = append(b.nodes, nodeT{name: i})
			b.metrics = append(b.metrics, metricT{name: i, present: true, util: 500})
		}
		cases = append(cases, genCase{id: "lister-3-noscorer", kind: "small", sel: sel, in: a},
			genCase{id: "lister-3-equal-util", kind: "small", sel: sel, in: b})
	}
	for i := 0; i < n; i++ {
		r := rng.Fork()
		kind := kinds[i%len(kinds)]
		if kind == "history" {
			cases = append(cases, genCase{id: fmt.Sprintf("g%d", i), kind: kind, sel: 5, hist: genHistory(r)})
			continue
		}
		if kind == "publish-ops" {
			cases = append(cases, genCase{id: fmt.Sprintf("g%d", i), kind: kind, sel: 8, ops: genOpsHistory(r)})
			continue
		}
		if kind == "publish" {
			psel := 6
			if r.Chance(1, 3) {
				psel = 7 // the expired-assignment-cache path to applyAssignment
			}
			cases = append(cases, genCase{id: fmt.Sprintf("g%d", i), kind: kind, sel: psel, hist: genPubHistory(r)})
			continue
		}
		if kind == "near-tie" {
			cases = append(cases, genCase{id: fmt.Sprintf("g%d", i), kind: kind, sel: 3, in: genNearTie(r)})
			continue
		}
		var in *input
		for try := 0; ; try++ {
			in = genInput(r, kind)
			if floatOrderExact(in) {
				break
			}
			// float64 rounding breaks an exact tie here: the exact model cannot be compared
			// token by token, so the input goes to the tolerance-judged stream instead
			rejected++
			cases = append(cases, genCase{id: fmt.Sprintf("g%d-guard%d", i, try), kind: "near-tie/guard-rejected", sel: 3, in: in})
			if try > 40 {
				// the search gave up: one common utilisation is float-exact by construction;
				// should even that be refused, the case keeps its schedulers but loses its nodes
				cp := *in // the refused draw itself stays in the near-tie stream, untouched
				cp.metrics = append([]metricT{}, in.metrics...)
				for j := range cp.metrics {
					cp.metrics[j].util = 500
				}
				if !floatOrderExact(&cp) {
					cp.nodes, cp.metrics = nil, nil
				}
				in = &cp
				break
			}
		}
		cases = append(cases, genCase{id: fmt.Sprintf("g%d", i), kind: kind, sel: sel, in: in})
	}
	// run the real code on a small worker pool (each batched run sleeps), then emit in order
	cases = append(append(append(fixedHistories(), fixedPubHistories()...), fixedOpsHistories()...), cases...)
	for i := range cases {
		if cases[i].sel == 8 {
			cases[i].toks = cases[i].ops.tokens()
		} else if cases[i].sel >= 5 {
			cases[i].toks = cases[i].hist.tokens()
		} else {
			cases[i].toks = cases[i].in.tokens()
		}
	}
	var wg sync.WaitGroup
	work := make(chan int)
	for w := 0; w < 4; w++ {
		wg.Add(1)
		go func() {
			defer wg.Done()
			for i := range work {
				if cases[i].sel == 5 {
					histMemo.Store(key(cases[i].toks), computeHist(cases[i].toks))
				} else if cases[i].sel == 8 {
					opsMemo.Store(key(cases[i].toks), computeOps(cases[i].toks))
				} else if cases[i].sel >= 6 {
					pubMemo.Store(pubKey(cases[i].toks, cases[i].sel == 7), computePub(cases[i].toks, cases[i].sel == 7))
				} else {
					memo.Store(key(cases[i].toks), compute(cases[i].toks))
				}
			}
		}()
	}
	for i := range cases {
		work <- i
	}
	close(work)
	wg.Wait()
	for _, c := range cases {
		if c.sel == 5 {
			emitHistory(c, emit)
			continue
		}
		if c.sel == 8 {
			emitOps(c, emit)
			continue
		}
		if c.sel >= 6 {
			emitPub(c, emit)
			continue
		}
		o, _ := memo.Load(key(c.toks))
		got := o.(outcome).got
		assigned := 0
		if len(got) > 3 && got[1] == 1 {
			// count the node names in the encoded result
			t := got[3:]
			k := int(t[0])
			p := 1
			for j := 0; j < k; j++ {
				l := int(t[p+1])
				assigned += l
				p += 2 + l
			}
		}
		chains := []string{}
		for _, s := range c.in.specs {
			d := fmt.Sprintf("s%d:", s.name)
			if len(s.pols) == 0 {
				d += fmt.Sprintf("legacy[%d,%d]w=%v,max=%d", s.cpumin, s.cpumax, s.prefer, s.maxn)
			}
			for _, p := range s.pols {
				d += fmt.Sprintf("%s*%d%v ", policyName(p.name), p.weight, p.args)
			}
			chains = append(chains, d)
		}
		desc := map[string]any{"nodes": len(c.in.nodes), "schedulers": chains, "assigned": assigned}
		emit(c.id, c.sel, c.toks, c.kind, assigned >= 2, desc)
		if oc := o.(outcome); c.sel == 1 && oc.panic == "" && (oc.listA != nil || len(got) < 3 || got[1] != 1) {
			// the same input through the real lister and listNodesFromCache, against the model's sorted listing
			emit(c.id+"/lister", 4, c.toks, c.kind, assigned >= 2, desc)
		}
	}
	fmt.Fprintf(os.Stderr, "generator: %d history steps replaced by a uniform-utilisation step after the float-exact search gave up, %d histories shortened\n", uniformFallbacks, shortenedHistories)
	fmt.Fprintf(os.Stderr, "generator: %d inputs moved to the near-tie stream by the float-order guard (kind near-tie/guard-rejected)\n", rejected)
}

func main() {
	vh.Harness{Run: run, Laws: laws, Gen: gen}.Main()
}

func rvString(rv int64) string {
	if rv == 0 {
		return ""
	}
	return "rv" + strconv.FormatInt(rv, 10)
}
