// C07 harness: histories of Statement / Session operations on a real
// framework.Session (scripted cache, recorder plugin), full state dumped after
// every operation.
package main

import (
	"fmt"
	"sort"

	"verif/harness/internal/sched"
	"verif/harness/internal/vh"
	"volcano.sh/volcano/pkg/scheduler/api"
	"volcano.sh/volcano/pkg/scheduler/framework"
)

const epsUnits = 2

type opT struct {
	Code int64
	A    []int64   // positional arguments
	L    [][]int64 // list arguments (SetFaults)
	B    bool
}

func (o opT) enc() []int64 {
	out := []int64{o.Code}
	out = append(out, o.A...)
	if o.Code == 16 {
		for _, l := range o.L {
			out = append(out, int64(len(l)))
			out = append(out, l...)
		}
		out = append(out, vh.B(o.B))
	}
	return out
}

var arity = map[int64]int{1: 3, 2: 3, 3: 2, 4: 2, 5: 1, 6: 1, 7: 1, 8: 2, 9: 2, 10: 2, 11: 2, 12: 2, 13: 1, 14: 1, 15: 1}

func decCase(in []int64) (nodes []sched.NodeSpec, jobs []sched.JobSpec, tasks []sched.TaskSpec, ops []opT) {
	r := &sched.Tok{T: in}
	_ = r.Next() // eps
	r.List(func() {
		nodes = append(nodes, sched.NodeSpec{ID: r.Next(), Has: r.Bool(), CPU: r.Next(), Mem: r.Next(), Pods: r.Next(), GPU: r.Next()})
	})
	r.List(func() {
		j := sched.JobSpec{ID: r.Next(), Queue: r.Next(), Min: r.Next()}
		r.List(func() { j.RoleMin = append(j.RoleMin, [2]int64{r.Next(), r.Next()}) })
		jobs = append(jobs, j)
	})
	r.List(func() {
		tasks = append(tasks, sched.TaskSpec{ID: r.Next(), Job: r.Next(), Role: r.Next(), Prio: r.Next(), CPU: r.Next(), Mem: r.Next(),
			GPU: r.Next(), Status: r.Next(), Node: r.Next(), Preemptable: r.Bool()})
	})
	r.List(func() {
		o := opT{Code: r.Next()}
		if o.Code == 16 {
			o.L = [][]int64{r.Ints(), r.Ints(), r.Ints()}
			o.B = r.Bool()
		} else {
			for i := 0; i < arity[o.Code]; i++ {
				o.A = append(o.A, r.Next())
			}
		}
		ops = append(ops, o)
	})
	return
}

func encCase(nodes []sched.NodeSpec, jobs []sched.JobSpec, tasks []sched.TaskSpec, ops []opT) []int64 {
	out := []int64{epsUnits, int64(len(nodes))}
	for _, n := range nodes {
		out = append(out, n.ID, vh.B(n.Has), n.CPU, n.Mem, n.Pods, n.GPU)
	}
	out = append(out, int64(len(jobs)))
	for _, j := range jobs {
		out = append(out, j.ID, j.Queue, j.Min, int64(len(j.RoleMin)))
		for _, rm := range j.RoleMin {
			out = append(out, rm[0], rm[1])
		}
	}
	out = append(out, int64(len(tasks)))
	for _, t := range tasks {
		out = append(out, t.ID, t.Job, t.Role, t.Prio, t.CPU, t.Mem, t.GPU, t.Status, t.Node, vh.B(t.Preemptable))
	}
	out = append(out, int64(len(ops)))
	for _, o := range ops {
		out = append(out, o.enc()...)
	}
	return out
}

// exec runs one operation on the real session; returns the result code.
func exec(w *sched.World, o opT) int64 {
	errCode := func(err error) int64 {
		if err != nil {
			return 1
		}
		return 0
	}
	switch o.Code {
	case 1:
		return errCode(w.Stmts[o.A[0]].Allocate(w.Tasks[o.A[1]], w.NodesP[o.A[2]]))
	case 2:
		return errCode(w.Stmts[o.A[0]].Pipeline(w.Tasks[o.A[1]], sched.NodeName(o.A[2]), false))
	case 3:
		w.Stmts[o.A[0]].Evict(w.Tasks[o.A[1]], "verif")
		return 0
	case 4:
		t := w.Tasks[o.A[1]]
		n, ok := w.Ssn.Nodes[t.NodeName]
		if !ok {
			return 3
		}
		c, ok := n.Tasks[api.PodKey(t.Pod)]
		if !ok {
			return 3
		}
		w.Stmts[o.A[0]].Evict(c.Clone(), "verif")
		return 0
	case 5:
		return errCode(w.Stmts[1].UnPipeline(w.Tasks[o.A[0]]))
	case 6:
		w.Stmts[o.A[0]].Discard()
		return 0
	case 7:
		w.Stmts[o.A[0]].Commit()
		return 0
	case 8:
		if o.A[0] != o.A[1] {
			w.Stmts[o.A[0]].Merge(w.Stmts[o.A[1]])
		}
		return 0
	case 9:
		w.Saved[o.A[1]] = framework.SaveOperations(w.Stmts[o.A[0]])
		return 0
	case 10:
		sv, ok := w.Saved[o.A[1]]
		if !ok {
			sv = &framework.Statement{}
		}
		delete(w.Saved, o.A[1])
		return errCode(w.Stmts[o.A[0]].RecoverOperations(sv))
	case 11:
		return errCode(w.Ssn.Allocate(w.Tasks[o.A[0]], w.NodesP[o.A[1]]))
	case 12:
		return errCode(w.Ssn.Pipeline(w.Tasks[o.A[0]], sched.NodeName(o.A[1])))
	case 13:
		return errCode(w.Ssn.Evict(w.Tasks[o.A[0]], "verif"))
	case 14:
		delete(w.Ssn.Jobs, sched.JobID(o.A[0]))
		return 0
	case 15:
		delete(w.Ssn.Nodes, sched.NodeName(o.A[0]))
		return 0
	case 16:
		set := func(l []int64) map[int64]bool {
			m := map[int64]bool{}
			for _, x := range l {
				m[x] = true
			}
			return m
		}
		w.Rec.ErrFor = set(o.L[0])
		w.Cache.RefuseBind = set(o.L[1])
		w.Cache.RefuseEvict = set(o.L[2])
		w.Rec.JobReady = o.B
		return 0
	}
	panic("unknown op")
}

type stepObs struct {
	res     int64
	newLog  [][4]int64
	newBind [][2]int64
	newEv   []int64
}

func execObserved(w *sched.World, o opT) stepObs {
	l0, b0, e0 := len(w.Rec.Log), len(w.Cache.Binds), len(w.Cache.Evicts)
	res := exec(w, o)
	w.Refresh()
	ob := stepObs{res: res}
	ob.newLog = append(ob.newLog, w.Rec.Log[l0:]...)
	ob.newBind = append(ob.newBind, w.Cache.Binds[b0:]...)
	ob.newEv = append(ob.newEv, w.Cache.Evicts[e0:]...)
	sort.Slice(ob.newBind, func(i, j int) bool { return ob.newBind[i][0] < ob.newBind[j][0] })
	sort.Slice(ob.newEv, func(i, j int) bool { return ob.newEv[i] < ob.newEv[j] })
	return ob
}

func (ob stepObs) enc() []int64 {
	out := []int64{-101, ob.res, int64(len(ob.newLog))}
	for _, e := range ob.newLog {
		out = append(out, e[0], e[1], e[2], e[3])
	}
	out = append(out, int64(len(ob.newBind)))
	for _, b := range ob.newBind {
		out = append(out, b[0], b[1])
	}
	out = append(out, int64(len(ob.newEv)))
	out = append(out, ob.newEv...)
	return out
}

func run(sel int, in []int64) []int64 {
	nodes, jobs, tasks, ops := decCase(in)
	w := sched.NewWorld(nodes, jobs, tasks)
	out := []int64{-100}
	out = append(out, w.EncState()...)
	for i, o := range ops {
		ob := execObserved(w, o)
		if sel == 2 && i == len(ops)-1 {
			// the dispatch loop of Session.Allocate ranges over a Go map: which members were
			// dispatched before the refused one is order dependent; only the result code is compared
			// here, the step is judged by law 105
			out = append(out, -101, ob.res)
			break
		}
		out = append(out, ob.enc()...)
		out = append(out, w.EncState()...)
	}
	return out
}

// laws re-runs the history and evaluates, on the implementation's own dumps:
// the ledger invariant after every step, "a failed operation leaves no trace",
// "only commit / session ops reach binder and evictor", and for every
// discarded transaction that everything is back to its prior value.
func laws(sel int, in, got []int64, law func(lsel int, lin []int64, sig string)) {
	nodes, jobs, tasks, ops := decCase(in)
	w := sched.NewWorld(nodes, jobs, tasks)
	dumps := [][]int64{w.EncLawDump()}
	{
		// base case: the REAL initial session satisfies the executable invariant (law 101 with a
		// no-op step), and the model's own initial session of this case satisfies the hypotheses of
		// the history theorem (law 112)
		lin := []int64{0, 0, 0}
		lin = append(lin, dumps[0]...)
		lin = append(lin, dumps[0]...)
		lin = append(lin, 0, 0)
		law(101, lin, "")
		law(112, in, "")
	}
	// for each statement: index of the last step after which it was empty
	emptySince := map[int64]int{1: 0, 2: 0, 3: 0}
	prevStatus := map[int64]int64{} // status a victim had when its eviction was recorded (prevStatus of the operation)
	preOK := map[int64]bool{}       // the recorded placement met the call sites' precondition (Pending, on no node)
	anyDrop := false
	specAtPlacement := map[int64]int64{} // Pod.Spec.NodeName a task had before the Allocate that is still recorded for it
	lastAllocNode := map[int64]string{}  // node of that Allocate
	podSigned := 0
	for i, o := range ops {
		before := dumps[len(dumps)-1]
		var cops []int64 // law 103 input: the operations a Commit is about to decide
		allRefused := false
		specBefore := map[int64]int64{} // Pod.Spec.NodeName of the tasks this operation may write it for / must restore it for
		switch o.Code {
		case 1:
			specBefore[o.A[1]] = sched.NodeRef(w.Tasks[o.A[1]].Pod.Spec.NodeName)
		case 11:
			specBefore[o.A[0]] = sched.NodeRef(w.Tasks[o.A[0]].Pod.Spec.NodeName)
		case 6:
			for _, vo := range w.Stmts[o.A[0]].VerifOps() {
				if int64(vo.Kind) == 2 {
					id := sched.ParseID(string(vo.Task.UID))
					specBefore[id] = specAtPlacement[id]
				}
			}
		}
		var recorded []int64 // tasks recorded in a statement that is open when a Session.Allocate runs
		if o.Code == 11 {
			for sid := int64(1); sid <= 3; sid++ {
				for _, vo := range w.Stmts[sid].VerifOps() {
					recorded = append(recorded, sched.ParseID(string(vo.Task.UID)))
				}
			}
			sort.Slice(recorded, func(a, b int) bool { return recorded[a] < recorded[b] })
		}
		switch o.Code {
		case 1, 2:
			st, nd := taskAt(before, o.A[1])
			preOK[o.A[1]] = st == sched.SPending && nd == 0 && !onAnyNode(before, o.A[1])
		case 3:
			prevStatus[o.A[1]] = sched.StatusKey(w.Tasks[o.A[1]].Status)
		case 4:
			t := w.Tasks[o.A[1]]
			if n, ok := w.Ssn.Nodes[t.NodeName]; ok {
				if c, ok := n.Tasks[api.PodKey(t.Pod)]; ok {
					prevStatus[o.A[1]] = sched.StatusKey(c.Status)
				}
			}
		case 14, 15:
			anyDrop = true
		case 7:
			vops := w.Stmts[o.A[0]].VerifOps()
			cops = []int64{int64(len(vops))}
			allRefused = len(vops) > 0
			for _, vo := range vops {
				id := sched.ParseID(string(vo.Task.UID))
				refused := false
				switch int64(vo.Kind) {
				case 2:
					refused = w.Cache.RefuseBind[id]
				case 0:
					refused = w.Cache.RefuseEvict[id]
				}
				if !refused {
					allRefused = false
				}
				ps := prevStatus[id]
				if ps == 0 {
					ps = sched.SRunning
				}
				cops = append(cops, int64(vo.Kind), id, vh.B(refused), ps, vh.B(preOK[id]))
			}
		}
		ob := execObserved(w, o)
		after := w.EncLawDump()
		dumps = append(dumps, after)
		tid := int64(0)
		switch o.Code {
		case 1, 2:
			tid = o.A[1]
		case 11, 12, 13:
			tid = o.A[0]
		}
		if o.Code == 11 {
			// property text, full strength: nothing of an undecided transaction reaches the binder.
			// KNOWN FINDING: Session.Allocate dispatches every task of the job's Allocated index,
			// including tasks an open statement placed
			lin := []int64{int64(len(recorded))}
			lin = append(lin, recorded...)
			lin = append(lin, int64(len(ob.newBind)))
			for _, b := range ob.newBind {
				lin = append(lin, b[0], b[1])
			}
			law(106, lin, "C07-session-allocate-dispatches-open-statement-task")
		}
		if (o.Code == 1 || o.Code == 2 || o.Code == 11 || o.Code == 12) && ob.res == 1 {
			ptid := o.A[0]
			if o.Code <= 2 {
				ptid = o.A[1]
			}
			st, nd := taskAt(before, ptid)
			if !(st == sched.SPending && nd == 0 && !onAnyNode(before, ptid)) && st != 0 {
				// outside the call sites' precondition (task not Pending or already on a node) the
				// property text still says "a failed operation leaves no trace".  KNOWN FINDING: the
				// rollback resets the task to Pending / "" (and Statement's removes the copy the node
				// already held).  The sig is attached only when THAT is what happened to the task; that
				// nothing else moved (other tasks, other copies, job task sets, shares) is law 109,
				// unsigned, and the ledgers are pinned by ledger_okb of law 101.
				d := append(append([]int64{}, before...), after...)
				sig := ""
				if t := w.Tasks[ptid]; t.NodeName == "" {
					// rolled back to Pending / "" (the status reset is skipped when the session no
					// longer knows the job)
					if _, known := w.Ssn.Jobs[t.Job]; t.Status == api.Pending || !known {
						sig = "C07-failed-placement-outside-precondition-not-restored"
					}
				}
				law(107, d, sig)
				law(109, append([]int64{ptid}, d...), "")
			}
		}
		if isGang(ops) && i == len(ops)-1 && o.Code == 11 && ob.res == 1 {
			// a failed Session.Allocate leaves no trace of the task it was called with.  KNOWN
			// FINDING: when the refused dispatch is that of ANOTHER member, that member is undone and
			// the argument stays Allocated on its node.  The sig is attached only in that situation
			// (everything else about the step is law 105, unsigned).
			lin := []int64{o.A[0], o.A[1]}
			lin = append(lin, after...)
			sig := ""
			arg := w.Tasks[o.A[0]]
			if (arg.Status == api.Allocated || arg.Status == api.Binding) && sched.NodeRef(arg.NodeName) == o.A[1] {
				// (Binding: Go's map order reached the argument before the refused member)
				for id, on := range w.Cache.RefuseBind {
					stB, _ := taskAt(before, id)
					if on && id != o.A[0] && stB == sched.SAllocated && w.Tasks[id].Status == api.Pending {
						sig = "C07-session-allocate-error-keeps-argument-allocated"
					}
				}
			}
			law(108, lin, sig)
		}
		if o.Code == 13 {
			// Session.Evict, whatever it returns: invariant, handler ledger = sum over the job's tasks,
			// an error changed nothing in the session, a success left the task Releasing and reached
			// the evictor exactly once (law 113, unsigned)
			lin := []int64{o.A[0], ob.res}
			lin = append(lin, before...)
			lin = append(lin, after...)
			lin = append(lin, int64(len(ob.newEv)))
			lin = append(lin, ob.newEv...)
			law(113, lin, "")
			if ob.res == 1 {
				// ... and an Evict that returns an error did not reach the evictor.  KNOWN FINDING:
				// the job lookup comes after cache.Evict; the sig is attached only in that situation
				sig := ""
				if _, known := w.Ssn.Jobs[w.Tasks[o.A[0]].Job]; !known && !w.Cache.RefuseEvict[o.A[0]] && len(ob.newEv) == 1 && ob.newEv[0] == o.A[0] {
					sig = "C07-session-evict-error-after-evictor-call"
				}
				law(110, []int64{int64(len(ob.newEv)), 0}, sig)
			}
		}
		if o.Code == 13 {
			// evictor half of "nothing of an undecided transaction reaches the binder or evictor":
			// no task Session.Evict hands to the evictor is recorded in an open statement (the
			// generator never evicts such a task; C07_undecided_reaches_evictor_refuted is the model's witness)
			rec := []int64{}
			for sid := int64(1); sid <= 3; sid++ {
				for _, vo := range w.Stmts[sid].VerifOps() {
					rec = append(rec, sched.ParseID(string(vo.Task.UID)))
				}
			}
			// the statements were read AFTER the call: Session.Evict records nothing, so the lists are those before it
			lin := []int64{int64(len(rec))}
			lin = append(lin, rec...)
			lin = append(lin, int64(len(ob.newEv)))
			for _, e := range ob.newEv {
				lin = append(lin, e, 0)
			}
			law(106, lin, "")
		}
		// Pod.Spec.NodeName: Statement.Allocate / Session.Allocate write it before anything can fail
		// and no rollback (unallocate, undoAllocation, revertPlacement, Discard, refused bind) resets it.
		// KNOWN FINDING; the sig is attached only when the value left behind is the node of the
		// failed / discarded Allocate.
		if (o.Code == 1 || o.Code == 11) && ob.res == 1 {
			id, nodeArg := o.A[0], o.A[1]
			if o.Code == 1 {
				id, nodeArg = o.A[1], o.A[2]
			}
			now := sched.NodeRef(w.Tasks[id].Pod.Spec.NodeName)
			sig := ""
			if now == nodeArg && specBefore[id] != nodeArg {
				sig = "C07-pod-spec-nodename-not-rolled-back"
			}
			if sig == "" || (podSigned == 0 && len(ops)%8 == 0) {
				law(110, []int64{specBefore[id], now}, sig)
			}
			if sig != "" {
				podSigned++ // the known finding fails this law by design: one reproduction per history, in one history out of eight, is enough (check keeps a bounded number of known failures)
			}
		}
		if o.Code == 1 && ob.res == 0 {
			specAtPlacement[o.A[1]] = specBefore[o.A[1]]
		}
		if o.Code == 6 {
			for id, was := range specBefore {
				now := sched.NodeRef(w.Tasks[id].Pod.Spec.NodeName)
				sig := ""
				if now != was && now == sched.NodeRef(lastAllocNode[id]) {
					sig = "C07-pod-spec-nodename-not-rolled-back"
				}
				if sig == "" || (podSigned == 0 && len(ops)%8 == 0) {
					law(110, []int64{was, now}, sig)
				}
				if sig != "" {
					podSigned++
				}
			}
		}
		if o.Code == 1 && ob.res == 0 {
			lastAllocNode[o.A[1]] = sched.NodeName(o.A[2])
		}
		if isGang(ops) && i == len(ops)-1 && o.Code == 11 {
			// directed gang family: order-insensitive law of the dispatch loop
			rb := []int64{}
			for id, on := range w.Cache.RefuseBind {
				if on {
					rb = append(rb, id)
				}
			}
			sort.Slice(rb, func(a, b int) bool { return rb[a] < rb[b] })
			lin := []int64{o.A[0], o.A[1], ob.res, int64(len(rb))}
			lin = append(lin, rb...)
			lin = append(lin, before...)
			lin = append(lin, after...)
			lin = append(lin, int64(len(ob.newBind)))
			for _, b := range ob.newBind {
				lin = append(lin, b[0], b[1])
			}
			law(105, lin, "")
			if sel == 2 {
				continue
			}
		}
		lin := []int64{o.Code, ob.res, tid}
		lin = append(lin, before...)
		lin = append(lin, after...)
		lin = append(lin, int64(len(ob.newBind)), int64(len(ob.newEv)))
		// law at full strength: since fix c8b10ae a Session.Allocate whose dispatch is refused undoes
		// the placement, so no failure class of this law is a known finding any more
		law(101, lin, "")
		if o.Code == 7 {
			// theorem 6 on the dumps: refused binds / evictions are rolled back, accepted ones logged
			lin := append([]int64{}, cops...)
			lin = append(lin, before...)
			lin = append(lin, after...)
			lin = append(lin, int64(len(ob.newBind)))
			for _, b := range ob.newBind {
				lin = append(lin, b[0], b[1])
			}
			lin = append(lin, int64(len(ob.newEv)))
			lin = append(lin, ob.newEv...)
			law(103, lin, "")
		}
		if o.Code == 6 || (o.Code == 7 && allRefused && !anyDrop) {
			sid := o.A[0]
			b := emptySince[sid]
			pure := b < i // at least one operation
			for k := b; k < i; k++ {
				c := ops[k].Code
				if !((c >= 1 && c <= 4) && ops[k].A[0] == sid) {
					pure = false
					continue
				}
				// the theorem's (and the call sites') preconditions: Allocate/Pipeline on a Pending
				// task that is on no node, Evict on a Running or Bound task
				st, nd := taskAt(dumps[k], ops[k].A[1])
				if c <= 2 && !(st == sched.SPending && nd == 0 && !onAnyNode(dumps[k], ops[k].A[1])) {
					pure = false
				}
				if c >= 3 && !((st == sched.SRunning || st == sched.SBound) && nd != 0) {
					pure = false
				}
			}
			if pure {
				d := append(append([]int64{}, dumps[b]...), after...)
				if o.Code == 6 {
					law(102, d, "")
				} else {
					// a Commit all of whose operations the cache refused is a Discard
					law(104, d, "")
				}
			}
		}
		for sid := int64(1); sid <= 3; sid++ {
			if len(w.Stmts[sid].VerifOps()) == 0 {
				emptySince[sid] = i + 1
			}
		}
	}
}

// taskAt reads a task's status key and node out of a law dump (tasks come first: n, then 7 tokens each)
func taskAt(dump []int64, tid int64) (int64, int64) {
	n := int(dump[0])
	for i := 0; i < n; i++ {
		if dump[1+7*i] == tid {
			return dump[2+7*i], dump[3+7*i]
		}
	}
	return 0, 0
}

// onAnyNode: does some node of the law dump hold a copy of the task?
func onAnyNode(dump []int64, tid int64) bool {
	i := 1 + 7*int(dump[0])
	skipRes := func() { i += 4 + 2*int(dump[i+3]) }
	skipSet := func() { i += 1 + int(dump[i]) }
	skipIndex := func() {
		n := int(dump[i])
		i++
		for k := 0; k < n; k++ {
			i++
			skipSet()
		}
	}
	nj := int(dump[i])
	i++
	for j := 0; j < nj; j++ {
		i++
		skipSet()
		skipIndex()
		skipRes()
		skipRes()
		ns := int(dump[i])
		i++
		for k := 0; k < ns; k++ {
			i++
			skipSet()
			skipIndex()
		}
	}
	nn := int(dump[i])
	i++
	for n := 0; n < nn; n++ {
		i++
		for k := 0; k < 5; k++ {
			skipRes()
		}
		i++ // has flag
		nt := int(dump[i])
		i++
		for k := 0; k < nt; k++ {
			if dump[i] == tid {
				return true
			}
			i += 3
		}
	}
	return false
}

// ---------- generation (online: the generator looks at the real state to pick mostly-valid operations) ----------

func gen(rng *vh.Rng, n int, emit func(id string, sel int, in []int64, kind string, nontrivial bool, desc any)) {
	for i := 0; i < n; i++ {
		r := rng.Fork()
		nodes, jobs, tasks := genCluster(r)
		faulty := r.Chance(1, 3)
		ops, stats := genOps(r, nodes, jobs, tasks, faulty)
		kind := "history/plain"
		if faulty {
			kind = "history/with-faults"
		}
		desc := map[string]any{"nodes": len(nodes), "jobs": len(jobs), "tasks": len(tasks), "ops": len(ops), "op_kinds": stats}
		emit(fmt.Sprintf("hist-%d", i), 1, encCase(nodes, jobs, tasks, ops), kind, len(ops) >= 3, desc)
	}
	// directed family: gangs placed member by member through Session.Allocate, the cache refusing
	// a subset of the members when the last call completes the gang
	for i := 0; i < n/4+2; i++ {
		r := rng.Fork()
		nodes, jobs, tasks, ops, orderFree, desc := genGang(r)
		sel, kind := 2, "gang/refused"
		if orderFree {
			sel, kind = 1, "gang/order-free"
		}
		emit(fmt.Sprintf("gang-%d", i), sel, encCase(nodes, jobs, tasks, ops), kind, true, desc)
	}
	// directed family: Session.Evict on tasks whose node / job the session may not know
	for i := 0; i < n/6+2; i++ {
		r := rng.Fork()
		nodes, jobs, tasks, ops, desc := genEvict(r)
		emit(fmt.Sprintf("evict-%d", i), 1, encCase(nodes, jobs, tasks, ops), "evict/unknown-node-or-job", true, desc)
	}
}

// genEvict: Session.Evict (the shuffle action's path) on Running / Bound tasks whose node and / or
// job may be unknown to the session (a pod on a node left out of the snapshot), with and without
// the cache refusing the eviction
func genEvict(r *vh.Rng) ([]sched.NodeSpec, []sched.JobSpec, []sched.TaskSpec, []opT, map[string]any) {
	nn := r.Range(1, 3)
	nodes := []sched.NodeSpec{}
	for i := 1; i <= nn; i++ {
		nodes = append(nodes, sched.NodeSpec{ID: int64(i), Has: true, CPU: 16000, Mem: 64 << 20, Pods: 20, GPU: int64(r.Range(0, 2))})
	}
	nj := r.Range(1, 2)
	jobs := []sched.JobSpec{}
	for j := 1; j <= nj; j++ {
		jobs = append(jobs, sched.JobSpec{ID: int64(j), Queue: 1, Min: 1})
	}
	nt := r.Range(2, 5)
	tasks := []sched.TaskSpec{}
	for t := 1; t <= nt; t++ {
		tasks = append(tasks, sched.TaskSpec{ID: int64(t), Job: int64(r.Range(1, nj)), Role: 1, CPU: int64(r.Range(1, 6)) * 250, Mem: int64(r.Range(1, 4)) << 19,
			Status: vh.Pick(r, []int64{sched.SRunning, sched.SRunning, sched.SBound}), Node: int64(r.Range(1, nn))})
	}
	ops := []opT{}
	faults := []string{}
	if r.Chance(1, 2) {
		ops = append(ops, opT{Code: 15, A: []int64{int64(r.Range(1, nn))}})
		faults = append(faults, "drop-node")
	}
	if r.Chance(1, 3) {
		ops = append(ops, opT{Code: 14, A: []int64{int64(r.Range(1, nj))}})
		faults = append(faults, "drop-job")
	}
	if r.Chance(1, 3) {
		re := []int64{}
		for t := 1; t <= nt; t++ {
			if r.Chance(1, 3) {
				re = append(re, int64(t))
			}
		}
		ops = append(ops, opT{Code: 16, L: [][]int64{{}, {}, re}, B: true})
		faults = append(faults, "refuse-evict")
	}
	order := []int64{}
	for t := 1; t <= nt; t++ {
		order = append(order, int64(t))
	}
	for i := len(order) - 1; i > 0; i-- {
		j := r.Intn(i + 1)
		order[i], order[j] = order[j], order[i]
	}
	k := r.Range(1, 3)
	if k > nt {
		k = nt
	}
	for _, t := range order[:k] {
		ops = append(ops, opT{Code: 13, A: []int64{t}})
	}
	return nodes, jobs, tasks, ops, map[string]any{"tasks": nt, "nodes": nn, "faults": faults, "evictions": k}
}

// isGang recognises the directed family by its shape: it starts by switching JobReady off and ends
// with SetFaults(JobReady on) followed by a Session.Allocate
func isGang(ops []opT) bool {
	n := len(ops)
	return n >= 3 && ops[0].Code == 16 && !ops[0].B && len(ops[0].L[0])+len(ops[0].L[1])+len(ops[0].L[2]) == 0 &&
		ops[n-1].Code == 11 && ops[n-2].Code == 16 && ops[n-2].B
}

// genGang: job 1 is a gang of m = 2..4 Pending members (minAvailable = m; ssn.JobReady is scripted:
// off until the last member arrives).  Optional earlier Statement operations on the same job; the
// members are placed one by one with Session.Allocate on one or several nodes; then the refusal
// script (none / first / middle / the argument / several / all) is installed together with
// JobReady = true and the last member is allocated, which runs the dispatch loop over the gang.
func genGang(r *vh.Rng) ([]sched.NodeSpec, []sched.JobSpec, []sched.TaskSpec, []opT, bool, map[string]any) {
	nn := r.Range(1, 3)
	nodes := []sched.NodeSpec{}
	for i := 1; i <= nn; i++ {
		nodes = append(nodes, sched.NodeSpec{ID: int64(i), Has: true, CPU: 16000, Mem: 64 << 20, Pods: 20, GPU: int64(r.Range(0, 2))})
	}
	m := r.Range(2, 4)
	jobs := []sched.JobSpec{{ID: 1, Queue: 1, Min: int64(m)}, {ID: 2, Queue: int64(r.Range(1, 2)), Min: 1}}
	tasks := []sched.TaskSpec{}
	for t := 1; t <= m; t++ {
		ts := sched.TaskSpec{ID: int64(t), Job: 1, Role: int64(r.Range(1, 2)), Prio: int64(r.Range(0, 3)), Status: sched.SPending,
			CPU: int64(r.Range(1, 6)) * 250, Mem: int64(r.Range(1, 4)) << 19}
		if r.Chance(1, 6) {
			ts.CPU, ts.Mem = 0, 0 // best effort
		}
		tasks = append(tasks, ts)
	}
	// a running task of the gang's job (a victim for the prelude) and a bystander of another job
	runner := int64(m + 1)
	tasks = append(tasks, sched.TaskSpec{ID: runner, Job: 1, Role: 1, CPU: 500, Mem: 1 << 19, Status: sched.SRunning, Node: int64(r.Range(1, nn))})
	tasks = append(tasks, sched.TaskSpec{ID: runner + 1, Job: 2, Role: 1, CPU: 250, Mem: 1 << 19, Status: vh.Pick(r, []int64{sched.SPending, sched.SRunning, sched.SBound})})
	if tasks[len(tasks)-1].Status != sched.SPending {
		tasks[len(tasks)-1].Node = int64(r.Range(1, nn))
	}
	anyNode := func() int64 { return int64(r.Range(1, nn)) }
	ops := []opT{{Code: 16, L: [][]int64{{}, {}, {}}, B: false}}
	members := []int64{}
	for t := 1; t <= m; t++ {
		members = append(members, int64(t))
	}
	// shuffle the arrival order
	for i := len(members) - 1; i > 0; i-- {
		j := r.Intn(i + 1)
		members[i], members[j] = members[j], members[i]
	}
	prelude := []string{}
	committed := int64(0)
	openStmt := int64(0)
	for k := 0; k < 2; k++ {
		switch r.Intn(6) {
		case 0: // Statement.Allocate of a member, discarded
			x := vh.Pick(r, members)
			ops = append(ops, opT{Code: 1, A: []int64{1, x, anyNode()}}, opT{Code: 6, A: []int64{1}})
			prelude = append(prelude, "allocate+discard")
		case 1: // Statement.Pipeline of a member, discarded
			x := vh.Pick(r, members)
			ops = append(ops, opT{Code: 2, A: []int64{2, x, anyNode()}}, opT{Code: 6, A: []int64{2}})
			prelude = append(prelude, "pipeline+discard")
		case 2: // eviction of the job's running task, discarded
			ops = append(ops, opT{Code: 3, A: []int64{1, runner}}, opT{Code: 6, A: []int64{1}})
			prelude = append(prelude, "evict+discard")
		case 4: // one member is placed by a statement that stays OPEN while the gang completes
			if openStmt == 0 && committed == 0 && len(members) > 2 {
				openStmt = members[0]
				members = members[1:]
				ops = append(ops, opT{Code: 1, A: []int64{3, openStmt, anyNode()}})
				prelude = append(prelude, "allocate-left-open")
			}
		case 3: // one member goes through a committed statement (Binding before the gang completes)
			if committed == 0 && openStmt == 0 && len(members) > 2 {
				committed = members[0]
				members = members[1:]
				ops = append(ops, opT{Code: 1, A: []int64{3, committed, anyNode()}}, opT{Code: 7, A: []int64{3}})
				prelude = append(prelude, "allocate+commit")
			}
		}
	}
	oneNode := r.Chance(1, 3)
	n0 := anyNode()
	nodeFor := func() int64 {
		if oneNode {
			return n0
		}
		return anyNode()
	}
	last := members[len(members)-1]
	for _, t := range members[:len(members)-1] {
		ops = append(ops, opT{Code: 11, A: []int64{t, nodeFor()}})
	}
	// the refusal script
	rb := []int64{}
	pattern := vh.Pick(r, []string{"none", "first", "middle", "argument", "several", "all", "earlier-random"})
	switch pattern {
	case "first":
		rb = []int64{members[0]}
	case "middle":
		rb = []int64{members[(len(members)-1)/2]}
	case "argument":
		rb = []int64{last}
	case "several":
		for _, t := range members {
			if r.Chance(1, 2) {
				rb = append(rb, t)
			}
		}
	case "all":
		rb = append(rb, members...)
	case "earlier-random":
		rb = []int64{members[r.Intn(len(members)-1)]}
	}
	sort.Slice(rb, func(a, b int) bool { return rb[a] < rb[b] })
	ops = append(ops, opT{Code: 16, L: [][]int64{{}, rb, {}}, B: true})
	ops = append(ops, opT{Code: 11, A: []int64{last, nodeFor()}})
	desc := map[string]any{"members": len(members), "nodes": nn, "refused": rb, "pattern": pattern, "prelude": prelude, "argument": last}
	return nodes, jobs, tasks, ops, len(rb) == 0, desc
}

func genCluster(r *vh.Rng) ([]sched.NodeSpec, []sched.JobSpec, []sched.TaskSpec) {
	nn := r.Range(1, 3)
	nodes := []sched.NodeSpec{}
	for i := 1; i <= nn; i++ {
		ns := sched.NodeSpec{ID: int64(i), Has: true, CPU: int64(r.Range(1, 8)) * 1000, Mem: int64(r.Range(1, 16)) << 20, Pods: int64(r.Range(2, 10))}
		if r.Chance(1, 2) {
			ns.GPU = int64(r.Range(1, 4))
		}
		nodes = append(nodes, ns)
	}
	nj := r.Range(1, 3)
	jobs := []sched.JobSpec{}
	for j := 1; j <= nj; j++ {
		jobs = append(jobs, sched.JobSpec{ID: int64(j), Queue: int64(r.Range(1, 2)), Min: int64(r.Range(0, 3))})
	}
	nt := r.Range(2, 8)
	tasks := []sched.TaskSpec{}
	for t := 1; t <= nt; t++ {
		ts := sched.TaskSpec{ID: int64(t), Job: int64(r.Range(1, nj)), Role: int64(r.Range(1, 2)), Prio: int64(r.Range(0, 3)),
			Preemptable: r.Chance(1, 2)}
		switch r.Intn(8) {
		case 0: // best effort
		case 1:
			ts.CPU = int64(r.Range(1, 4)) * 500
		default:
			ts.CPU = int64(r.Range(1, 6)) * 250
			ts.Mem = int64(r.Range(1, 4)) << 19
			if r.Chance(1, 4) {
				ts.GPU = int64(r.Range(1, 2))
			}
		}
		switch r.Intn(10) {
		case 0, 1, 2, 3:
			ts.Status = sched.SPending
		case 4, 5:
			ts.Status, ts.Node = sched.SRunning, int64(r.Range(1, nn))
		case 6:
			ts.Status, ts.Node = sched.SBound, int64(r.Range(1, nn))
		case 7:
			ts.Status, ts.Node = sched.SReleasing, int64(r.Range(1, nn))
		case 8:
			ts.Status, ts.Node = vh.Pick(r, []int64{sched.SSucceeded, sched.SFailed}), int64(r.Range(1, nn))
		default:
			ts.Status = sched.SPending
		}
		tasks = append(tasks, ts)
	}
	return nodes, jobs, tasks
}

func genOps(r *vh.Rng, nodes []sched.NodeSpec, jobs []sched.JobSpec, tasks []sched.TaskSpec, faulty bool) ([]opT, map[string]int) {
	w := sched.NewWorld(nodes, jobs, tasks)
	stats := map[string]int{}
	names := map[int64]string{1: "allocate", 2: "pipeline", 3: "evict", 4: "evict-clone", 5: "unpipeline", 6: "discard", 7: "commit",
		8: "merge", 9: "save", 10: "recover", 11: "ssn-allocate", 12: "ssn-pipeline", 13: "ssn-evict", 14: "drop-job", 15: "drop-node", 16: "set-faults"}
	ops := []opT{}
	n := r.Range(1, 40)
	nNodes, nTasks := int64(len(nodes)), int64(len(tasks))
	anyNode := func() int64 { return int64(r.Range(1, int(nNodes))) }
	pickTask := func(pred func(t *api.TaskInfo) bool) (int64, bool) {
		c := []int64{}
		for id := int64(1); id <= nTasks; id++ {
			if pred(w.Tasks[id]) {
				c = append(c, id)
			}
		}
		if len(c) == 0 {
			return 0, false
		}
		return vh.Pick(r, c), true
	}
	// a task has at most one recorded operation across all live statements and saved slots, and
	// is not operated on outside that statement meanwhile: only then is "op.task" the object the
	// job holds (the model's heap entry); the actions never do otherwise
	busy := func(t *api.TaskInfo) bool {
		for _, st := range w.Stmts {
			for _, o := range st.VerifOps() {
				if o.Task.UID == t.UID {
					return true
				}
			}
		}
		for _, st := range w.Saved {
			for _, o := range st.VerifOps() {
				if o.Task.UID == t.UID {
					return true
				}
			}
		}
		return false
	}
	pending := func(t *api.TaskInfo) bool { return t.Status == api.Pending && t.NodeName == "" && !busy(t) }
	onNode := func(t *api.TaskInfo) bool {
		if t.NodeName == "" {
			return false
		}
		nd, ok := w.Ssn.Nodes[t.NodeName]
		if !ok {
			return false
		}
		_, ok = nd.Tasks[api.PodKey(t.Pod)]
		return ok
	}
	victim := func(t *api.TaskInfo) bool {
		return onNode(t) && (t.Status == api.Running || t.Status == api.Bound) && !busy(t)
	}
	dropped := map[int64]bool{}
	jobKnown := func(t *api.TaskInfo) bool { _, ok := w.Ssn.Jobs[t.Job]; return ok }
	txn := int64(0) // statement of the transaction in progress, 0 = none
	txnLeft := 0
	for len(ops) < n {
		var o opT
		ok := true
		choice := r.Intn(100)
		if txn != 0 {
			if txnLeft == 0 {
				o = opT{Code: 6, A: []int64{txn}}
				txn = 0
			} else {
				txnLeft--
				choice = r.Intn(34) // only place/evict on the transaction's statement
			}
		}
		sid := int64(r.Range(1, 3))
		if txn != 0 {
			sid = txn
		}
		if o.Code == 0 {
			switch {
			case choice < 14: // allocate
				t, found := pickTask(pending)
				if r.Chance(1, 12) {
					t, found = pickTask(func(t *api.TaskInfo) bool { return !busy(t) }) // precondition-free stream
				}
				ok = found
				o = opT{Code: 1, A: []int64{sid, t, anyNode()}}
			case choice < 22: // pipeline
				t, found := pickTask(pending)
				ok = found
				o = opT{Code: 2, A: []int64{sid, t, anyNode()}}
			case choice < 28: // evict (job's own object)
				t, found := pickTask(victim)
				ok = found
				o = opT{Code: 3, A: []int64{sid, t}}
			case choice < 34: // evict with a clone of the node's copy (what preempt/reclaim do)
				t, found := pickTask(func(t *api.TaskInfo) bool { return victim(t) && jobKnown(t) })
				ok = found
				o = opT{Code: 4, A: []int64{sid, t}}
			case choice < 37:
				t, found := pickTask(func(t *api.TaskInfo) bool { return t.Status == api.Pipelined && !busy(t) })
				ok = found
				o = opT{Code: 5, A: []int64{t}}
			case choice < 47:
				o = opT{Code: 6, A: []int64{sid}}
			case choice < 55:
				o = opT{Code: 7, A: []int64{sid}}
			case choice < 59:
				o = opT{Code: 8, A: []int64{sid, int64(r.Range(1, 3))}}
			case choice < 64: // save + discard + recover, as allocateForJob does
				slot := int64(r.Range(1, 2))
				if len(w.Stmts[sid].VerifOps()) == 0 || len(dropped) > 0 {
					ok = false
					break
				}
				// RecoverOperations dereferences ssn.Nodes[task.NodeName] without a check
				for _, so := range w.Stmts[sid].VerifOps() {
					if _, found := w.Ssn.Nodes[so.Task.NodeName]; !found {
						ok = false
					}
				}
				if !ok {
					break
				}
				for _, x := range []opT{{Code: 9, A: []int64{sid, slot}}, {Code: 6, A: []int64{sid}}} {
					exec(w, x)
					w.Refresh()
					ops = append(ops, x)
					stats[names[x.Code]]++
				}
				o = opT{Code: 10, A: []int64{sid, slot}}
			case choice < 70: // session allocate (backfill's path)
				t, found := pickTask(pending)
				ok = found
				if found {
					// the dispatch loop ranges over a map: keep it order-insensitive (a refusal is only
					// allowed when the new task will be the job's only Allocated one)
					others := 0
					for id := int64(1); id <= nTasks; id++ {
						if id != t && w.Tasks[id].Job == w.Tasks[t].Job && w.Tasks[id].Status == api.Allocated {
							others++
						}
					}
					for id := int64(1); id <= nTasks; id++ {
						if w.Tasks[id].Job == w.Tasks[t].Job && w.Cache.RefuseBind[id] && others > 0 {
							ok = false
						}
					}
				}
				o = opT{Code: 11, A: []int64{t, anyNode()}}
			case choice < 73:
				t, found := pickTask(pending)
				ok = found
				o = opT{Code: 12, A: []int64{t, anyNode()}}
			case choice < 77:
				t, found := pickTask(victim)
				ok = found
				o = opT{Code: 13, A: []int64{t}}
			case choice < 85: // start a transaction that will be discarded
				if len(w.Stmts[sid].VerifOps()) != 0 {
					ok = false
					break
				}
				txn, txnLeft = sid, r.Range(1, 5)
				continue
			default:
				if !faulty {
					ok = false
					break
				}
				switch r.Intn(4) {
				case 0:
					j := int64(r.Range(1, len(jobs)))
					if len(w.Saved) > 0 {
						ok = false
						break
					}
					dropped[j] = true
					o = opT{Code: 14, A: []int64{j}}
				case 1:
					if len(w.Saved) > 0 {
						ok = false
						break
					}
					dropped[-1] = true
					o = opT{Code: 15, A: []int64{anyNode()}}
				default:
					sub := func() []int64 {
						l := []int64{}
						for id := int64(1); id <= nTasks; id++ {
							if r.Chance(1, 5) {
								l = append(l, id)
							}
						}
						return l
					}
					o = opT{Code: 16, L: [][]int64{sub(), sub(), sub()}, B: r.Chance(3, 4)}
				}
			}
		}
		if !ok || o.Code == 0 {
			if r.Chance(1, 50) {
				break
			}
			continue
		}
		exec(w, o)
		w.Refresh()
		ops = append(ops, o)
		stats[names[o.Code]]++
	}
	if txn != 0 {
		o := opT{Code: 6, A: []int64{txn}}
		ops = append(ops, o)
		stats["discard"]++
	}
	return ops, stats
}

func main() {
	vh.Harness{Run: run, Laws: laws, Gen: gen}.Main()
}
