// Regression stream for the defect repaired by /repo bd1440f: with hierarchical queues the legacy
// reclaim action pipelined a task for a leaf queue although an ANCESTOR queue was at its
// capability (capacity's PreemptiveFn looks at the leaf only, reclaim never asked Allocatable).
// The stream runs the REAL reclaim action in a real session (gang + capacity with hierarchy) on a
// small family of clusters:
//
//	root > qp (capability cpu capP) > { qa: a running cpus, qb: b running cpus + one pending task of req cpus }
//	root > qc : c running preemptable cpus (deserved desC)
//	one node of a+b+c+idle cpus, every running task = 1 cpu
//
// in = [capP, a, b, req, c, desB, desC, sib]   (cpus; sib=1: qa's tasks may be reclaimed too)
//
//	optionally followed by [idle, kind, capB]: idle cpus on the node (with idle >= req the reclaimer
//	fits WITHOUT any eviction although legal victims of other queues are present: the branch in which
//	a mutant of the bd1440f fix skipped the Allocatable vote); kind 1 capacity flat, 2 capacity
//	hierarchical (default), 3 proportion; capB = capability of the leaf qb itself (0 = none).
//	In the flat kinds spec.parent is ignored by the plugin and the chain is the leaf alone.
// observed = [Preemptive(qb,[t]) before, Allocatable(qb,t) before, t pipelined after, #evictions sent,
//
//	n, (allocated, held, realCapability) in milli-cpu of qb and of each ancestor but root]
//
// allocated = the capacity plugin's ledger; held = recomputed here from the session's task statuses.
package main

import (
	"math"

	v1 "k8s.io/api/core/v1"
	"k8s.io/apimachinery/pkg/api/resource"
	metav1 "k8s.io/apimachinery/pkg/apis/meta/v1"
	"k8s.io/apimachinery/pkg/types"
	"k8s.io/apimachinery/pkg/util/sets"
	"k8s.io/client-go/tools/record"

	"volcano.sh/apis/pkg/apis/scheduling"
	"volcano.sh/volcano/pkg/scheduler/actions/reclaim"
	"volcano.sh/volcano/pkg/scheduler/api"
	"volcano.sh/volcano/pkg/scheduler/cache"
	"volcano.sh/volcano/pkg/scheduler/conf"
	"volcano.sh/volcano/pkg/scheduler/framework"
	"volcano.sh/volcano/pkg/scheduler/plugins"
	"volcano.sh/volcano/pkg/scheduler/plugins/capacity"
	"volcano.sh/volcano/pkg/scheduler/plugins/gang"
	"volcano.sh/volcano/pkg/scheduler/plugins/proportion"

	"verif/harness/internal/sched"
	"verif/harness/internal/vh"
)

var reclaimMock *cache.SchedulerCache

func rqueue(name, parent string, capCPU, desCPU int64, reclaimable bool) *api.QueueInfo {
	q := &scheduling.Queue{
		ObjectMeta: metav1.ObjectMeta{Name: name, UID: types.UID(name)},
		Spec:       scheduling.QueueSpec{Weight: 1, Parent: parent},
		Status:     scheduling.QueueStatus{State: scheduling.QueueStateOpen},
	}
	if capCPU > 0 {
		q.Spec.Capability = v1.ResourceList{v1.ResourceCPU: *resource.NewMilliQuantity(capCPU*1000, resource.DecimalSI)}
	}
	if desCPU > 0 {
		q.Spec.Deserved = v1.ResourceList{v1.ResourceCPU: *resource.NewMilliQuantity(desCPU*1000, resource.DecimalSI)}
	}
	if !reclaimable {
		no := false
		q.Spec.Reclaimable = &no
	}
	return api.NewQueueInfo(q)
}

func milli(x float64) int64 {
	if x >= math.MaxInt64/2 {
		return math.MaxInt64 / 2
	}
	return int64(x)
}

func runReclaimCase(in []int64) []int64 {
	capP, a, b, req, c, desB, desC, sib := in[0], in[1], in[2], in[3], in[4], in[5], in[6], in[7] != 0
	idle, kind, capB := int64(0), int64(kHier), int64(0)
	if len(in) >= 11 {
		idle, kind, capB = in[8], in[9], in[10]
	}
	snap := &api.ClusterInfo{
		Jobs: map[api.JobID]*api.JobInfo{}, Nodes: map[string]*api.NodeInfo{},
		Queues: map[api.QueueID]*api.QueueInfo{}, NamespaceInfo: map[api.NamespaceName]*api.NamespaceInfo{},
		RevocableNodes: map[string]*api.NodeInfo{},
		HyperNodes:     api.HyperNodeInfoMap{}, HyperNodesSetByTier: map[int]sets.Set[string]{},
		RealNodesSet: map[string]sets.Set[string]{}, HyperNodeTierNameMap: api.HyperNodeTierNameMap{},
		CSINodesStatus: map[string]*api.CSINodeStatusInfo{},
	}
	for _, q := range []*api.QueueInfo{
		rqueue("root", "", 0, 0, true),
		rqueue("qp", "root", capP, 0, true),
		rqueue("qa", "qp", 0, 0, sib),
		rqueue("qb", "qp", capB, desB, true),
		rqueue("qc", "root", 0, desC, true),
	} {
		snap.Queues[q.UID] = q
	}
	type js struct {
		id    int64
		queue string
		min   int32
	}
	for _, j := range []js{{1, "qa", 1}, {2, "qb", int32(b + 1)}, {3, "qc", 1}} {
		ji := api.NewJobInfo(sched.JobID(j.id))
		pg := &api.PodGroup{PodGroup: scheduling.PodGroup{
			ObjectMeta: metav1.ObjectMeta{Name: sched.JobName(j.id), Namespace: "ns", UID: types.UID(sched.JobName(j.id))},
			Spec:       scheduling.PodGroupSpec{MinMember: j.min, Queue: j.queue, MinTaskMember: map[string]int32{}},
			Status:     scheduling.PodGroupStatus{Phase: scheduling.PodGroupRunning},
		}}
		ji.SetPodGroup(pg)
		snap.Jobs[ji.UID] = ji
	}
	tasks := []sched.TaskSpec{}
	id := int64(0)
	add := func(job int64, n int64, cpu int64, st int64, pre bool) {
		for i := int64(0); i < n; i++ {
			id++
			t := sched.TaskSpec{ID: id, Job: job, Role: 1, CPU: cpu * 1000, Mem: 1 << 20, Status: st, Preemptable: pre}
			if st != sched.SPending {
				t.Node = 1
			}
			tasks = append(tasks, t)
		}
	}
	add(1, a, 1, sched.SRunning, true)
	add(2, b, 1, sched.SRunning, false)
	add(2, 1, req, sched.SPending, false)
	pendingID := id
	add(3, c, 1, sched.SRunning, true)
	tinfo := map[int64]*api.TaskInfo{}
	for _, t := range tasks {
		ti := api.NewTaskInfo(t.Pod())
		tinfo[t.ID] = ti
		snap.Jobs[ti.Job].AddTaskInfo(ti)
	}
	ni := api.NewNodeInfo(sched.NodeSpec{ID: 1, Has: true, CPU: (a + b + c + idle) * 1000, Mem: 64 << 30, Pods: 110}.Object())
	for _, t := range tasks {
		if t.Node == 1 {
			if err := ni.AddTask(tinfo[t.ID]); err != nil {
				panic(err)
			}
		}
	}
	snap.Nodes[ni.Name] = ni
	snap.NodeList = append(snap.NodeList, ni.Name)

	if reclaimMock == nil {
		reclaimMock = cache.NewDefaultMockSchedulerCache("verif")
		// the default FakeRecorder has a 100-event channel nobody reads (see votes.go)
		reclaimMock.Recorder = &record.FakeRecorder{}
	}
	cch := &sched.ScriptedCache{SchedulerCache: reclaimMock, Snap: snap, RefuseBind: map[int64]bool{}, RefuseEvict: map[int64]bool{}}
	// per-queue (allocated, realCapability) in milli-cpu, from whichever plugin is configured
	var snapf func() map[api.QueueID][2]float64
	framework.RegisterPluginBuilder(gang.PluginName, gang.New)
	framework.RegisterPluginBuilder(capacity.PluginName, func(ar framework.Arguments) framework.Plugin {
		p, f := capacity.VerifNew(ar)
		snapf = func() map[api.QueueID][2]float64 {
			m := map[api.QueueID][2]float64{}
			for id, r := range f().Queues {
				m[id] = [2]float64{r.Allocated.MilliCPU, r.RealCapability.MilliCPU}
			}
			return m
		}
		return p
	})
	framework.RegisterPluginBuilder(proportion.PluginName, func(ar framework.Arguments) framework.Plugin {
		p, f := proportion.VerifNew(ar)
		snapf = func() map[api.QueueID][2]float64 {
			m := map[api.QueueID][2]float64{}
			for id, r := range f().Queues {
				m[id] = [2]float64{r.Allocated.MilliCPU, r.RealCapability.MilliCPU}
			}
			return m
		}
		return p
	})
	opt := func(name string) conf.PluginOption {
		o := conf.PluginOption{Name: name}
		plugins.ApplyPluginConfDefaults(&o)
		return o
	}
	co := opt(capacity.PluginName)
	switch kind {
	case kHier:
		yes := true
		co.EnabledHierarchy = &yes
	case kProp:
		co = opt(proportion.PluginName)
	}
	tiers := []conf.Tier{{Plugins: []conf.PluginOption{opt(gang.PluginName), co}}}
	ssn := framework.OpenSession(cch, tiers, nil)
	defer framework.CloseSession(ssn)

	pt := ssn.Jobs[sched.JobID(2)].Tasks[api.TaskID(sched.TaskName(pendingID))]
	qb := ssn.Queues["qb"]
	out := []int64{vh.B(ssn.Preemptive(qb, []*api.TaskInfo{pt})), vh.B(ssn.Allocatable(qb, pt))}

	conf.EnabledActionMap = map[string]bool{"reclaim": true}
	act := reclaim.New()
	act.Initialize()
	act.Execute(ssn)
	act.UnInitialize()

	pt = ssn.Jobs[sched.JobID(2)].Tasks[api.TaskID(sched.TaskName(pendingID))]
	out = append(out, vh.B(pt.Status == api.Pipelined), int64(len(cch.Evicts)))
	s := snapf()
	chain := []api.QueueID{"qb", "qp"}
	if kind != kHier {
		chain = []api.QueueID{"qb"}
	}
	subtree := map[api.QueueID][]api.QueueID{"qb": {"qb"}, "qp": {"qp", "qa", "qb"}}
	out = append(out, int64(len(chain)))
	for _, q := range chain {
		r := s[q]
		held := 0.0
		for _, job := range ssn.Jobs {
			in := false
			for _, m := range subtree[q] {
				in = in || job.Queue == m
			}
			if !in {
				continue
			}
			for _, t := range job.Tasks {
				switch t.Status {
				case api.Allocated, api.Pipelined, api.Binding, api.Bound, api.Running:
					held += t.Resreq.MilliCPU
				}
			}
		}
		out = append(out, milli(r[0]), milli(held), milli(r[1]))
	}
	return out
}

// genReclaimCase draws one member of the family; about half of the draws have the parent full or
// nearly full while the leaf itself has room (the situation of the defect).
func genReclaimCase(r *vh.Rng) []int64 {
	capP := int64(r.Range(3, 12))
	a := int64(r.Range(0, int(capP)))
	b := int64(r.Range(0, int(capP-a)))
	if r.Chance(1, 2) { // parent exactly full
		a = capP - b
	}
	req := int64(r.Range(1, 3))
	c := int64(r.Range(int(req), 10))
	desB := int64(0)
	if r.Chance(3, 4) {
		desB = b + req + int64(r.Range(0, 2))
	}
	desC := int64(r.Range(0, int(c)))
	return []int64{capP, a, b, req, c, desB, desC, vh.B(r.Chance(1, 3))}
}

// genReclaimRoomCase: the directed family "room without eviction": the node has idle room for the
// reclaimer while reclaimable pods of qc sit on it, and the ancestor qp (hierarchical) or the leaf
// qb (its own capability) is at capability - {0, 1, req}; all three plugin modes.
func genReclaimRoomCase(r *vh.Rng) []int64 {
	kind := int64(r.Range(1, 3))
	req := int64(r.Range(1, 3))
	slack := vh.Pick(r, []int64{0, 1, req, req - 1})
	if slack < 0 {
		slack = 0
	}
	b := int64(r.Range(0, 4))
	a := int64(r.Range(0, 6))
	capP, capB := int64(0), int64(0)
	if kind == kHier {
		if r.Chance(3, 4) {
			capP = a + b + slack // the ancestor is the binding limit
			if capP == 0 {
				capP = 1
			}
		}
		if r.Chance(1, 4) {
			capB = b + vh.Pick(r, []int64{slack, req, req + 1})
		}
	} else {
		capB = b + slack
		if capB == 0 {
			capB = 1
		}
	}
	c := int64(r.Range(1, 8))
	idle := vh.Pick(r, []int64{req, req, req + 1, req - 1, 0})
	desB := b + req + int64(r.Range(0, 2))
	desC := int64(r.Range(0, int(c)))
	return []int64{capP, a, b, req, c, desB, desC, vh.B(r.Chance(1, 4)), idle, kind, capB}
}
