// Regression-style stream: the REAL preempt action with enableTopologyAwarePreemption on
// hierarchical capacity queues (the dry-run path SimulateAddTaskFn / SimulateRemoveTaskFn /
// SimulateAllocatableFn + topologyAwarePreempt, which no model covers).
//
//	root > dept (capability cpu capD) > { team-a (capability cpu capLeaf, Open or Closed):
//	                                         pg-low  k x 1cpu Running on n1, preemptable, low priority
//	                                         pg-high 1 x req cpu Pending, high priority (the preemptor)
//	                                       team-b: pg-other 1 x m cpu Running on n2 (n2 full) }
//	n1 has k+idle cpu.
//
// The interesting members: dept is tighter than the node (the ancestor needs MORE evictions than
// the node does, so the dry run reprieves victims and must keep the ancestors' simulated
// allocation in step), and team-a Closed.
//
// in  = [capD, k, idle, req, m, leafClosed, capLeaf, topologyAware]      (cpus)
// obs = [#pipelined, #releasing, leaf Open, n, (held, capability) of team-a and dept in milli-cpu]
// held is recomputed here from the POD SPECS of the tasks that are Allocated / Pipelined / Binding /
// Bound / Running after the action (evicted = Releasing tasks do not count); capability 0 = unset.
package main

import (
	v1 "k8s.io/api/core/v1"
	schedulingv1 "k8s.io/api/scheduling/v1"

	schedulingv1beta1 "volcano.sh/apis/pkg/apis/scheduling/v1beta1"
	"volcano.sh/volcano/cmd/scheduler/app/options"
	"volcano.sh/volcano/pkg/scheduler/actions/preempt"
	"volcano.sh/volcano/pkg/scheduler/api"
	"volcano.sh/volcano/pkg/scheduler/conf"
	"volcano.sh/volcano/pkg/scheduler/framework"
	"volcano.sh/volcano/pkg/scheduler/plugins/capacity"
	"volcano.sh/volcano/pkg/scheduler/plugins/conformance"
	"volcano.sh/volcano/pkg/scheduler/plugins/gang"
	"volcano.sh/volcano/pkg/scheduler/plugins/predicates"
	"volcano.sh/volcano/pkg/scheduler/plugins/priority"
	"volcano.sh/volcano/pkg/scheduler/uthelper"
	"volcano.sh/volcano/pkg/scheduler/util"

	"verif/harness/internal/sched"
	"verif/harness/internal/vh"
)

func cpuList(n int64) v1.ResourceList { return api.BuildResourceList(itoa(n), "1G") }

func itoa(n int64) string {
	if n == 0 {
		return "0"
	}
	s := ""
	for n > 0 {
		s = string(rune('0'+n%10)) + s
		n /= 10
	}
	return s
}

func podCPU(p *v1.Pod) int64 {
	var s int64
	for _, c := range p.Spec.Containers {
		if q, ok := c.Resources.Requests[v1.ResourceCPU]; ok {
			s += q.MilliValue()
		}
	}
	return s
}

func runPreemptCase(in []int64) []int64 {
	capD, k, idle, req, m, leafClosed, capLeaf, topo := in[0], in[1], in[2], in[3], in[4], in[5] != 0, in[6], in[7] != 0
	options.Default()
	yes := true
	plugins := map[string]framework.PluginBuilder{
		capacity.PluginName: capacity.New, conformance.PluginName: conformance.New, gang.PluginName: gang.New,
		priority.PluginName: priority.New, predicates.PluginName: predicates.New,
	}
	preemptable := map[string]string{schedulingv1beta1.PodPreemptable: "true"}
	pods := []*v1.Pod{}
	for i := int64(1); i <= k; i++ {
		pods = append(pods, util.BuildPod("c1", "low-"+itoa(i), "n1", v1.PodRunning, cpuList(1), "pg-low", preemptable, map[string]string{}))
	}
	if m > 0 {
		pods = append(pods, util.BuildPod("c1", "other-1", "n2", v1.PodRunning, cpuList(m), "pg-other", map[string]string{}, map[string]string{}))
	}
	pods = append(pods, util.BuildPod("c1", "high-1", "", v1.PodPending, cpuList(req), "pg-high", map[string]string{}, map[string]string{}))
	dept := util.MakeQueue("dept").Parent("root")
	if capD > 0 {
		dept = dept.Capability(api.BuildResourceList(itoa(capD), "100G"))
	}
	teamA := util.MakeQueue("team-a").Parent("dept")
	if capLeaf > 0 {
		teamA = teamA.Capability(api.BuildResourceList(itoa(capLeaf), "100G"))
	}
	if leafClosed {
		teamA = teamA.State(schedulingv1beta1.QueueStateClosed)
	}
	nodes := []*v1.Node{util.BuildNode("n1", api.BuildResourceList(itoa(k+idle), "20G", []api.ScalarResource{{Name: "pods", Value: "40"}}...), map[string]string{})}
	if m > 0 {
		nodes = append(nodes, util.BuildNode("n2", api.BuildResourceList(itoa(m), "20G", []api.ScalarResource{{Name: "pods", Value: "20"}}...), map[string]string{}))
	}
	test := uthelper.TestCommonStruct{
		Name:    "c03-preempt",
		Plugins: plugins,
		PodGroups: []*schedulingv1beta1.PodGroup{
			util.BuildPodGroupWithPrio("pg-low", "c1", "team-a", 1, nil, schedulingv1beta1.PodGroupRunning, "low-priority"),
			util.BuildPodGroupWithPrio("pg-high", "c1", "team-a", 1, nil, schedulingv1beta1.PodGroupInqueue, "high-priority"),
			util.BuildPodGroupWithPrio("pg-other", "c1", "team-b", 1, nil, schedulingv1beta1.PodGroupRunning, "high-priority"),
		},
		Pods:  pods,
		Nodes: nodes,
		Queues: []*schedulingv1beta1.Queue{
			util.MakeQueue("root").Obj(), dept.Obj(), teamA.Obj(), util.MakeQueue("team-b").Parent("dept").Obj(),
		},
		PriClass: []*schedulingv1.PriorityClass{util.BuildPriorityClass("high-priority", 100000), util.BuildPriorityClass("low-priority", 10)},
	}
	tiers := []conf.Tier{{Plugins: []conf.PluginOption{
		{Name: conformance.PluginName, EnabledPreemptable: &yes},
		{Name: gang.PluginName, EnabledPreemptable: &yes, EnabledJobPipelined: &yes, EnabledJobStarving: &yes},
		{Name: priority.PluginName, EnabledTaskOrder: &yes, EnabledJobOrder: &yes, EnabledPreemptable: &yes, EnabledJobPipelined: &yes, EnabledJobStarving: &yes},
		{Name: capacity.PluginName, EnabledPredicate: &yes, EnabledAllocatable: &yes, EnabledQueueOrder: &yes, EnabledHierarchy: &yes, EnabledJobEnqueued: &yes},
		{Name: predicates.PluginName, EnabledPreemptable: &yes, EnabledPredicate: &yes},
	}}}
	// uthelper.Close wipes the plugin-builder registry: keep the recorder of the cycle stream
	recB, recOK := framework.GetPluginBuilder(sched.RecorderName)
	action := preempt.New()
	ssn := test.RegisterSession(tiers, []conf.Configuration{{
		Name: action.Name(), Arguments: map[string]interface{}{preempt.EnableTopologyAwarePreemptionKey: topo},
	}})
	defer func() {
		test.Close()
		if recOK {
			framework.RegisterPluginBuilder(sched.RecorderName, recB)
		}
	}()
	test.Run([]framework.Action{action})

	var pipelined, releasing, heldA, heldD int64
	for _, job := range ssn.Jobs {
		for _, t := range job.Tasks {
			switch t.Status {
			case api.Allocated, api.Binding, api.Bound, api.Running, api.Pipelined:
				c := podCPU(t.Pod)
				if job.Queue == "team-a" {
					heldA += c
				}
				if job.Queue == "team-a" || job.Queue == "team-b" {
					heldD += c
				}
			case api.Releasing:
				releasing++
			}
			if t.Status == api.Pipelined {
				pipelined++
			}
		}
	}
	return []int64{pipelined, releasing, vh.B(!leafClosed), 2, heldA, capLeaf * 1000, heldD, capD * 1000}
}

func genPreemptCase(r *vh.Rng) []int64 {
	k := int64(r.Range(1, 6))
	idle := int64(r.Range(0, 2))
	req := int64(r.Range(1, 3))
	m := int64(r.Range(0, 3))
	capD := int64(0)
	switch r.Intn(4) {
	case 0: // dept exactly at its capability: the ancestor needs req evictions
		capD = k + m
	case 1:
		capD = k + m + int64(r.Range(0, 2))
	case 2:
		capD = int64(r.Range(1, 10))
	}
	capLeaf := int64(0)
	if r.Chance(1, 4) {
		capLeaf = int64(r.Range(1, 8))
	}
	return []int64{capD, k, idle, req, m, vh.B(r.Chance(1, 6)), capLeaf, vh.B(!r.Chance(1, 5))}
}
