// Regression stream for the second C03 defect (ancestors slice aliasing in capacity.go
// checkQueueAllocatableHierarchically / checkJobEnqueueableHierarchically): a vote for one leaf
// queue must not change the stored hierarchy nor the answer of a later vote for another queue.
//
//	root > q1 > ... > q(depth) > { c1 (leaf, pending 1-cpu task t1),
//	                              c2 (capability cpu capC2) > { g (pending task t2 of req cpus), g2 (held cpus running) } }
//
// in = [depth, capC2, held, req, viaEnqueue (, cousin)]   viaEnqueue=1: the disturbing vote is JobEnqueueable(job of c1)
//
//	cousin=1: c1 is not a leaf but has a child h holding the pending job (two cousins g and h at the
//	same depth: the shape in which updateAncestors' own append overwrote a parent, audit W3)
//
// observed = [Allocatable(g,t2) before, the disturbing vote, Allocatable(g,t2) after,
//
//	stored ancestors of every queue unchanged (1/0),
//	stored ancestors of every queue = its parent chain in the Queue objects (1/0)]
package main

import (
	"fmt"
	"reflect"

	v1 "k8s.io/api/core/v1"
	"k8s.io/apimachinery/pkg/api/resource"
	metav1 "k8s.io/apimachinery/pkg/apis/meta/v1"
	"k8s.io/apimachinery/pkg/types"
	"k8s.io/apimachinery/pkg/util/sets"
	"k8s.io/client-go/tools/record"

	"volcano.sh/apis/pkg/apis/scheduling"
	"volcano.sh/volcano/pkg/scheduler/api"
	"volcano.sh/volcano/pkg/scheduler/cache"
	"volcano.sh/volcano/pkg/scheduler/conf"
	"volcano.sh/volcano/pkg/scheduler/framework"
	"volcano.sh/volcano/pkg/scheduler/plugins"
	"volcano.sh/volcano/pkg/scheduler/plugins/capacity"

	"verif/harness/internal/sched"
	"verif/harness/internal/vh"
)

func runAliasCase(in []int64) []int64 {
	depth, capC2, held, req, viaEnq := in[0], in[1], in[2], in[3], in[4] != 0
	cousin := len(in) >= 6 && in[5] != 0
	snap := &api.ClusterInfo{
		Jobs: map[api.JobID]*api.JobInfo{}, Nodes: map[string]*api.NodeInfo{},
		Queues: map[api.QueueID]*api.QueueInfo{}, NamespaceInfo: map[api.NamespaceName]*api.NamespaceInfo{},
		RevocableNodes: map[string]*api.NodeInfo{},
		HyperNodes:     api.HyperNodeInfoMap{}, HyperNodesSetByTier: map[int]sets.Set[string]{},
		RealNodesSet: map[string]sets.Set[string]{}, HyperNodeTierNameMap: api.HyperNodeTierNameMap{},
		CSINodesStatus: map[string]*api.CSINodeStatusInfo{},
	}
	par := map[string]string{"root": ""}
	last := "root"
	for i := int64(1); i <= depth; i++ {
		n := fmt.Sprintf("q%d", i)
		par[n] = last
		last = n
	}
	par["c1"], par["c2"], par["g"], par["g2"] = last, last, "c2", "c2"
	leaf1 := "c1"
	if cousin {
		par["h"] = "c1"
		leaf1 = "h"
	}
	for n, p := range par {
		c := int64(0)
		if n == "c2" {
			c = capC2
		}
		snap.Queues[api.QueueID(n)] = rqueue(n, p, c, 0, true)
	}
	mkJob := func(id int64, queue string, phase scheduling.PodGroupPhase, t sched.TaskSpec, minRes bool) {
		ji := api.NewJobInfo(sched.JobID(id))
		pg := &api.PodGroup{PodGroup: scheduling.PodGroup{
			ObjectMeta: metav1.ObjectMeta{Name: sched.JobName(id), Namespace: "ns", UID: types.UID(sched.JobName(id))},
			Spec:       scheduling.PodGroupSpec{MinMember: 1, Queue: queue, MinTaskMember: map[string]int32{}},
			Status:     scheduling.PodGroupStatus{Phase: phase},
		}}
		if minRes {
			rl := v1.ResourceList{v1.ResourceCPU: *resource.NewMilliQuantity(t.CPU, resource.DecimalSI)}
			pg.Spec.MinResources = &rl
		}
		ji.SetPodGroup(pg)
		ji.AddTaskInfo(api.NewTaskInfo(t.Pod()))
		snap.Jobs[ji.UID] = ji
	}
	mkJob(1, leaf1, scheduling.PodGroupPending, sched.TaskSpec{ID: 1, Job: 1, Role: 1, CPU: 1000, Mem: 1 << 20, Status: sched.SPending}, true)
	mkJob(2, "g", scheduling.PodGroupInqueue, sched.TaskSpec{ID: 2, Job: 2, Role: 1, CPU: req * 1000, Mem: 1 << 20, Status: sched.SPending}, false)
	if held > 0 {
		mkJob(3, "g2", scheduling.PodGroupRunning, sched.TaskSpec{ID: 3, Job: 3, Role: 1, CPU: held * 1000, Mem: 1 << 20, Status: sched.SRunning, Node: 1}, false)
	}
	ni := api.NewNodeInfo(sched.NodeSpec{ID: 1, Has: true, CPU: 64000, Mem: 64 << 30, Pods: 110}.Object())
	snap.Nodes[ni.Name] = ni
	snap.NodeList = append(snap.NodeList, ni.Name)
	if reclaimMock == nil {
		reclaimMock = cache.NewDefaultMockSchedulerCache("verif")
		// the default FakeRecorder has a 100-event channel nobody reads (see votes.go)
		reclaimMock.Recorder = &record.FakeRecorder{}
	}
	cch := &sched.ScriptedCache{SchedulerCache: reclaimMock, Snap: snap, RefuseBind: map[int64]bool{}, RefuseEvict: map[int64]bool{}}
	var plug framework.Plugin
	framework.RegisterPluginBuilder(capacity.PluginName, func(ar framework.Arguments) framework.Plugin {
		p, _ := capacity.VerifNew(ar)
		plug = p
		return p
	})
	co := conf.PluginOption{Name: capacity.PluginName}
	plugins.ApplyPluginConfDefaults(&co)
	yes := true
	co.EnabledHierarchy = &yes
	ssn := framework.OpenSession(cch, []conf.Tier{{Plugins: []conf.PluginOption{co}}}, nil)
	defer framework.CloseSession(ssn)

	before := capacity.VerifHierarchy(plug)
	t1 := ssn.Jobs[sched.JobID(1)].Tasks[api.TaskID(sched.TaskName(1))]
	t2 := ssn.Jobs[sched.JobID(2)].Tasks[api.TaskID(sched.TaskName(2))]
	out := []int64{vh.B(ssn.Allocatable(ssn.Queues["g"], t2))}
	if viaEnq {
		out = append(out, vh.B(ssn.JobEnqueueable(ssn.Jobs[sched.JobID(1)])))
	} else {
		out = append(out, vh.B(ssn.Allocatable(ssn.Queues[api.QueueID(leaf1)], t1)))
	}
	out = append(out, vh.B(ssn.Allocatable(ssn.Queues["g"], t2)))
	after := capacity.VerifHierarchy(plug)
	out = append(out, vh.B(reflect.DeepEqual(before, after)))
	// the stored ancestor list of every queue against the parent chain of the Queue objects
	chainOK := true
	for name := range par {
		want := []api.QueueID{}
		for x := par[name]; x != ""; x = par[x] {
			want = append([]api.QueueID{api.QueueID(x)}, want...)
		}
		for _, h := range []map[api.QueueID]capacity.VerifHier{before, after} {
			got := h[api.QueueID(name)].Ancestors
			if len(got) != len(want) {
				chainOK = false
				continue
			}
			for i := range want {
				chainOK = chainOK && got[i] == want[i]
			}
		}
	}
	out = append(out, vh.B(chainOK))
	return out
}

func genAliasCase(r *vh.Rng) []int64 {
	capC2 := int64(r.Range(1, 6))
	held := int64(r.Range(0, int(capC2)))
	return []int64{int64(r.Range(0, 9)), capC2, held, int64(r.Range(1, 3)), vh.B(r.Chance(1, 2)), vh.B(r.Chance(1, 2))}
}
