// Queue votes of the capacity plugin (flat / hierarchical) and of the proportion plugin:
// a REAL session is opened with exactly one queue plugin, the per-queue records are read from the
// plugin (VerifNew snapshot + VerifHierarchy), and ssn.Allocatable / Overused / Preemptive /
// JobEnqueueable are compared with the Coq model (coq/theories/C03/CapacityModel.v, selectors 2, 3);
// the laws 110-114 are evaluated on the implementation's own answers.
//
// Feature gates stay at their defaults (SchedulingGatesQueueAdmission off: nothing is reserved;
// no DRA quota is configured on any queue).
package main

import (
	"fmt"
	"math"
	"sort"

	v1 "k8s.io/api/core/v1"
	"k8s.io/apimachinery/pkg/api/resource"
	metav1 "k8s.io/apimachinery/pkg/apis/meta/v1"
	"k8s.io/apimachinery/pkg/types"
	"k8s.io/apimachinery/pkg/util/sets"
	"k8s.io/client-go/tools/record"

	"volcano.sh/apis/pkg/apis/scheduling"
	schedulingv1beta1 "volcano.sh/apis/pkg/apis/scheduling/v1beta1"
	"volcano.sh/volcano/pkg/scheduler/api"
	"volcano.sh/volcano/pkg/scheduler/cache"
	"volcano.sh/volcano/pkg/scheduler/conf"
	"volcano.sh/volcano/pkg/scheduler/framework"
	"volcano.sh/volcano/pkg/scheduler/plugins"
	"volcano.sh/volcano/pkg/scheduler/plugins/capacity"
	"volcano.sh/volcano/pkg/scheduler/plugins/proportion"

	"verif/harness/internal/sched"
)

const (
	kFlat = 1
	kHier = 2
	kProp = 3
)

// RL is a v1.ResourceList over cpu (milli), memory (bytes), nvidia.com/gpu and pods (counts);
// Mask says which names are listed (bit 0 cpu, 1 memory, 2 gpu, 3 pods).
type RL struct{ Mask, CPU, Mem, GPU, Pods int64 }

func (r RL) enc() []int64 { return []int64{r.Mask, r.CPU, r.Mem, r.GPU, r.Pods} }
func decRL(t *sched.Tok) RL {
	return RL{Mask: t.Next(), CPU: t.Next(), Mem: t.Next(), GPU: t.Next(), Pods: t.Next()}
}
func (r RL) list() v1.ResourceList {
	rl := v1.ResourceList{}
	if r.Mask&1 != 0 {
		rl[v1.ResourceCPU] = *resource.NewMilliQuantity(r.CPU, resource.DecimalSI)
	}
	if r.Mask&2 != 0 {
		rl[v1.ResourceMemory] = *resource.NewQuantity(r.Mem, resource.BinarySI)
	}
	if r.Mask&4 != 0 {
		rl[sched.GPUName] = *resource.NewQuantity(r.GPU, resource.DecimalSI)
	}
	if r.Mask&8 != 0 {
		rl[v1.ResourcePods] = *resource.NewQuantity(r.Pods, resource.DecimalSI)
	}
	return rl
}

// model units of the list as a Resource (what api.NewResource gives), for the capability laws
func (r RL) encRes() []int64 {
	out := []int64{0, 0}
	if r.Mask&1 != 0 {
		out[0] = r.CPU * 16
	}
	if r.Mask&2 != 0 {
		out[1] = r.Mem * 16
	}
	kv := []int64{}
	n := int64(0)
	if r.Mask&8 != 0 {
		kv = append(kv, 1, r.Pods*16)
		n++
	}
	if r.Mask&4 != 0 {
		kv = append(kv, 4, r.GPU*1000*16)
		n++
	}
	if n == 0 {
		return append(out, 0, 0)
	}
	return append(append(out, 1, n), kv...)
}

type VQueue struct {
	ID, Parent, State, Weight int64 // Parent 0 = spec.parent empty; State 1 Open 2 Closed 3 Closing 4 ""
	Cap, Guar, Des            RL
}
type VJob struct {
	ID, Queue, MinMember, Phase int64
	HasMin                      bool
	Min                         RL
}
type VTask struct {
	ID, Job, CPU, Mem, GPU, Status int64
	Gated bool // the pod carries a (non-Volcano) scheduling gate; not part of the vote-case wire format
	Annot bool // the pod carries the queue-allocation-gate annotation (opted in, gate already removed)
}
type VReq struct{ CPU, Mem, GPU int64 }
type VQuery struct {
	Kind   int64 // 1 Allocatable 2 Overused 3 Preemptive 4 JobEnqueueable
	Target int64 // queue id (1-3) or job id (4)
	Reqs   []VReq
}
type VSpec struct {
	Kind    int64
	HasRoot bool // hierarchy: queue 1 is named "root"
	Nodes   []sched.NodeSpec
	Queues  []VQueue
	Jobs    []VJob
	Tasks   []VTask
	Enqueue []int64 // jobs passed to ssn.JobEnqueued between the two phases
	Q1, Q2  []VQuery
}

func encQueries(qs []VQuery) []int64 {
	out := []int64{int64(len(qs))}
	for _, q := range qs {
		out = append(out, q.Kind, q.Target, int64(len(q.Reqs)))
		for _, r := range q.Reqs {
			out = append(out, r.CPU, r.Mem, r.GPU)
		}
	}
	return out
}
func decQueries(t *sched.Tok) []VQuery {
	var qs []VQuery
	t.List(func() {
		q := VQuery{Kind: t.Next(), Target: t.Next()}
		t.List(func() { q.Reqs = append(q.Reqs, VReq{t.Next(), t.Next(), t.Next()}) })
		qs = append(qs, q)
	})
	return qs
}

func (s VSpec) Enc() []int64 {
	out := []int64{s.Kind, vb(s.HasRoot), int64(len(s.Nodes))}
	for _, n := range s.Nodes {
		out = append(out, n.ID, n.CPU, n.Mem, n.Pods, n.GPU)
	}
	out = append(out, int64(len(s.Queues)))
	for _, q := range s.Queues {
		out = append(out, q.ID, q.Parent, q.State, q.Weight)
		out = append(out, q.Cap.enc()...)
		out = append(out, q.Guar.enc()...)
		out = append(out, q.Des.enc()...)
	}
	out = append(out, int64(len(s.Jobs)))
	for _, j := range s.Jobs {
		out = append(out, j.ID, j.Queue, j.MinMember, j.Phase, vb(j.HasMin))
		out = append(out, j.Min.enc()...)
	}
	out = append(out, int64(len(s.Tasks)))
	for _, t := range s.Tasks {
		out = append(out, t.ID, t.Job, t.CPU, t.Mem, t.GPU, t.Status)
	}
	out = append(out, int64(len(s.Enqueue)))
	out = append(out, s.Enqueue...)
	out = append(out, encQueries(s.Q1)...)
	out = append(out, encQueries(s.Q2)...)
	return out
}

func decVSpec(t *sched.Tok) VSpec {
	s := VSpec{Kind: t.Next(), HasRoot: t.Bool()}
	t.List(func() {
		s.Nodes = append(s.Nodes, sched.NodeSpec{ID: t.Next(), Has: true, CPU: t.Next(), Mem: t.Next(), Pods: t.Next(), GPU: t.Next()})
	})
	t.List(func() {
		q := VQueue{ID: t.Next(), Parent: t.Next(), State: t.Next(), Weight: t.Next()}
		q.Cap, q.Guar, q.Des = decRL(t), decRL(t), decRL(t)
		s.Queues = append(s.Queues, q)
	})
	t.List(func() {
		j := VJob{ID: t.Next(), Queue: t.Next(), MinMember: t.Next(), Phase: t.Next(), HasMin: t.Bool()}
		j.Min = decRL(t)
		s.Jobs = append(s.Jobs, j)
	})
	t.List(func() {
		s.Tasks = append(s.Tasks, VTask{ID: t.Next(), Job: t.Next(), CPU: t.Next(), Mem: t.Next(), GPU: t.Next(), Status: t.Next()})
	})
	s.Enqueue = t.Ints()
	s.Q1 = decQueries(t)
	s.Q2 = decQueries(t)
	return s
}

func vb(b bool) int64 {
	if b {
		return 1
	}
	return 0
}

func (s VSpec) qname(id int64) string {
	if id == 1 && s.Kind == kHier && s.HasRoot {
		return "root"
	}
	return sched.QueueName(id)
}
func (s VSpec) qid(name string) int64 {
	if name == "root" {
		return 1
	}
	return sched.ParseID(name)
}

func qstate(k int64) scheduling.QueueState {
	switch k {
	case 1:
		return scheduling.QueueStateOpen
	case 2:
		return scheduling.QueueStateClosed
	case 3:
		return scheduling.QueueStateClosing
	}
	return ""
}

func pgPhase(p int64) scheduling.PodGroupPhase {
	switch p {
	case 1:
		return scheduling.PodGroupPending
	case 3:
		return scheduling.PodGroupRunning
	}
	return scheduling.PodGroupInqueue
}

// voteWorld is one opened session with a single queue plugin.
type voteWorld struct {
	spec  VSpec
	ssn   *framework.Session
	plug  framework.Plugin
	snapC func() capacity.VerifSnapshot
	snapP func() proportion.VerifSnapshot
}

var mockCache *cache.SchedulerCache

func openVotes(s VSpec) *voteWorld {
	if mockCache == nil {
		mockCache = cache.NewDefaultMockSchedulerCache("verif")
		// the default FakeRecorder has a 100-event channel nobody reads: a rejected enqueue vote
		// records a PodGroup event and would block; a recorder without channel drops them
		mockCache.Recorder = &record.FakeRecorder{}
	}
	w := &voteWorld{spec: s}
	snap := &api.ClusterInfo{
		Jobs: map[api.JobID]*api.JobInfo{}, Nodes: map[string]*api.NodeInfo{},
		Queues: map[api.QueueID]*api.QueueInfo{}, NamespaceInfo: map[api.NamespaceName]*api.NamespaceInfo{},
		RevocableNodes: map[string]*api.NodeInfo{},
		HyperNodes:     api.HyperNodeInfoMap{}, HyperNodesSetByTier: map[int]sets.Set[string]{},
		RealNodesSet: map[string]sets.Set[string]{}, HyperNodeTierNameMap: api.HyperNodeTierNameMap{},
		CSINodesStatus: map[string]*api.CSINodeStatusInfo{},
	}
	for _, q := range s.Queues {
		qq := &scheduling.Queue{
			ObjectMeta: metav1.ObjectMeta{Name: s.qname(q.ID), UID: types.UID(s.qname(q.ID))},
			Spec:       scheduling.QueueSpec{Weight: int32(q.Weight)},
			Status:     scheduling.QueueStatus{State: qstate(q.State)},
		}
		if q.Parent != 0 {
			qq.Spec.Parent = s.qname(q.Parent)
		}
		if q.Cap.Mask != 0 {
			qq.Spec.Capability = q.Cap.list()
		}
		if q.Guar.Mask != 0 {
			qq.Spec.Guarantee.Resource = q.Guar.list()
		}
		if q.Des.Mask != 0 {
			qq.Spec.Deserved = q.Des.list()
		}
		qi := api.NewQueueInfo(qq)
		snap.Queues[qi.UID] = qi
	}
	for _, j := range s.Jobs {
		ji := api.NewJobInfo(sched.JobID(j.ID))
		pg := &api.PodGroup{PodGroup: scheduling.PodGroup{
			ObjectMeta: metav1.ObjectMeta{Name: sched.JobName(j.ID), Namespace: "ns", UID: types.UID(sched.JobName(j.ID))},
			Spec:       scheduling.PodGroupSpec{MinMember: int32(j.MinMember), Queue: s.qname(j.Queue), MinTaskMember: map[string]int32{}},
			Status:     scheduling.PodGroupStatus{Phase: pgPhase(j.Phase)},
		}}
		if j.HasMin {
			rl := j.Min.list()
			pg.Spec.MinResources = &rl
		}
		ji.SetPodGroup(pg)
		snap.Jobs[ji.UID] = ji
	}
	tasks := append([]VTask{}, s.Tasks...)
	sort.Slice(tasks, func(i, j int) bool { return tasks[i].ID < tasks[j].ID })
	for _, t := range tasks {
		ts := sched.TaskSpec{ID: t.ID, Job: t.Job, Role: 1, CPU: t.CPU, Mem: t.Mem, GPU: t.GPU, Status: t.Status}
		if t.Status != sched.SPending {
			ts.Node = 99 // a node that is not in the cluster: queue plugins only read the job side
		}
		pod := ts.Pod()
		if t.Gated {
			pod.Spec.SchedulingGates = []v1.PodSchedulingGate{{Name: "example.com/hold"}}
		}
		if t.Annot {
			pod.Annotations[schedulingv1beta1.QueueAllocationGateKey] = "true"
		}
		ti := api.NewTaskInfo(pod)
		if t.Gated && !ti.SchGated {
			panic("scheduling gate not reflected in TaskInfo.SchGated (PodSchedulingReadiness off?)")
		}
		if ji, ok := snap.Jobs[ti.Job]; ok {
			ji.AddTaskInfo(ti)
		}
	}
	for _, n := range s.Nodes {
		ni := api.NewNodeInfo(n.Object())
		snap.Nodes[ni.Name] = ni
		snap.NodeList = append(snap.NodeList, ni.Name)
	}
	c := &sched.ScriptedCache{SchedulerCache: mockCache, Snap: snap, RefuseBind: map[int64]bool{}, RefuseEvict: map[int64]bool{}}
	name := capacity.PluginName
	if s.Kind == kProp {
		name = proportion.PluginName
	}
	framework.RegisterPluginBuilder(capacity.PluginName, func(a framework.Arguments) framework.Plugin {
		p, f := capacity.VerifNew(a)
		w.plug, w.snapC = p, f
		return p
	})
	framework.RegisterPluginBuilder(proportion.PluginName, func(a framework.Arguments) framework.Plugin {
		p, f := proportion.VerifNew(a)
		w.plug, w.snapP = p, f
		return p
	})
	o := conf.PluginOption{Name: name}
	plugins.ApplyPluginConfDefaults(&o)
	if s.Kind == kHier {
		yes := true
		o.EnabledHierarchy = &yes
	}
	w.ssn = framework.OpenSession(c, []conf.Tier{{Plugins: []conf.PluginOption{o}}}, nil)
	if w.ssn.HierarchyEnabled(name) != (s.Kind == kHier) {
		panic("hierarchy switch not as configured")
	}
	return w
}

const infUnits = int64(1) << 62

func unitsOf(x float64, floor bool, what string) (int64, bool) {
	y := x * sched.Grid
	if y >= float64(infUnits) {
		return infUnits, true
	}
	f := math.Floor(y)
	if f != y && !floor {
		panic(fmt.Sprintf("%s: value %v left the 1/16 grid", what, x))
	}
	return int64(f), f == y
}

// encR encodes a plugin Resource; integral reports whether no flooring happened.
func encR(r *api.Resource, floor bool, what string) (out []int64, integral bool) {
	integral = true
	if r == nil {
		panic(what + ": nil resource")
	}
	c, i1 := unitsOf(r.MilliCPU, floor, what)
	m, i2 := unitsOf(r.Memory, floor, what)
	integral = i1 && i2
	out = []int64{c, m}
	if r.ScalarResources == nil {
		return append(out, 0, 0), integral
	}
	keys := []int64{}
	for n := range r.ScalarResources {
		k, ok := sched.ScalarKey[string(n)]
		if !ok {
			panic(what + ": unknown scalar " + string(n))
		}
		keys = append(keys, k)
	}
	sort.Slice(keys, func(i, j int) bool { return keys[i] < keys[j] })
	out = append(out, 1, int64(len(keys)))
	for _, k := range keys {
		v, i := unitsOf(r.ScalarResources[sched.ScalarName[k]], floor, what)
		integral = integral && i
		out = append(out, k, v)
	}
	return out, integral
}

type qRecord struct {
	id       int64
	open     bool
	children int
	toks     []int64
	desInt   bool // deserved is on the grid (Overused uses a tolerance: only then exact)
}

// records reads the per-queue records of the plugin, sorted by queue id.
func (w *voteWorld) records() []qRecord {
	type raw struct {
		name                       string
		alloc, inq, ela, des, rcap *api.Resource
		anc                        []api.QueueID
		children                   int
	}
	raws := []raw{}
	if w.spec.Kind == kProp {
		for _, a := range w.snapP().Queues {
			raws = append(raws, raw{name: a.Name, alloc: a.Allocated, inq: a.Inqueue, ela: a.Elastic, des: a.Deserved, rcap: a.RealCapability})
		}
	} else {
		h := capacity.VerifHierarchy(w.plug)
		for id, a := range w.snapC().Queues {
			raws = append(raws, raw{name: a.Name, alloc: a.Allocated, inq: a.Inqueue, ela: a.Elastic, des: a.Deserved, rcap: a.RealCapability,
				anc: h[id].Ancestors, children: h[id].Children})
		}
	}
	out := []qRecord{}
	for _, r := range raws {
		id := w.spec.qid(r.name)
		qi := w.ssn.Queues[api.QueueID(r.name)]
		if qi == nil {
			panic("record of a queue that is not in the session: " + r.name)
		}
		rec := qRecord{id: id, open: qi.Queue.Status.State == scheduling.QueueStateOpen, children: r.children}
		t := []int64{id, vb(rec.open)}
		add := func(x *api.Resource, floor bool, what string) bool {
			e, integral := encR(x, floor, what)
			t = append(t, e...)
			return integral
		}
		add(r.alloc, false, "allocated")
		add(r.inq, false, "inqueue")
		add(r.ela, false, "elastic")
		rec.desInt = add(r.des, w.spec.Kind == kProp, "deserved")
		if r.rcap == nil {
			t = append(t, 0)
		} else {
			t = append(t, 1)
			add(r.rcap, false, "realCapability")
		}
		t = append(t, int64(len(r.anc)))
		for _, a := range r.anc {
			t = append(t, w.spec.qid(string(a)))
		}
		t = append(t, int64(r.children))
		rec.toks = t
		out = append(out, rec)
	}
	sort.Slice(out, func(i, j int) bool { return out[i].id < out[j].id })
	return out
}

func reqTask(n int, r VReq) *api.TaskInfo {
	ts := sched.TaskSpec{ID: int64(9000 + n), Job: 9000, Role: 1, CPU: r.CPU, Mem: r.Mem, GPU: r.GPU, Status: sched.SPending}
	return api.NewTaskInfo(ts.Pod())
}

// predictedReady: buildHierarchicalQueueAttrs (capacity.go:1212-1346) returns false when a queue's
// parent is not in the session (spec.parent empty means "root"), when a job sits in a queue that has
// children, or when there is no queue named root.  (The cycle test of updateAncestors cannot fire:
// it only recurses into queues that have no record yet, and every queue on the stack has one.)
func (s VSpec) predictedReady() bool {
	if s.Kind != kHier {
		return true
	}
	ids := map[int64]bool{}
	for _, q := range s.Queues {
		ids[q.ID] = true
	}
	if !s.HasRoot || !ids[1] {
		return false
	}
	hasChild := map[int64]bool{}
	for _, q := range s.Queues {
		if q.ID == 1 {
			continue
		}
		p := q.Parent
		if p == 0 {
			p = 1
		}
		if !ids[p] {
			return false
		}
		hasChild[p] = true
	}
	for _, j := range s.Jobs {
		if ids[j.Queue] && hasChild[j.Queue] {
			return false
		}
	}
	return true
}

// observedReady: readyToSchedule is a local of OnSessionOpen; it shows in the answer for an empty
// request on an Open leaf queue (every comparison passes, so the answer is readyToSchedule itself).
func (w *voteWorld) observedReady(recs []qRecord) (ready, seen bool) {
	if w.spec.Kind != kHier {
		return true, true
	}
	if !w.spec.predictedReady() {
		// records may be partial; Open is checked before readyToSchedule, nothing else is read
		for _, q := range w.spec.Queues {
			if q.State == 1 {
				if w.ssn.Allocatable(w.ssn.Queues[api.QueueID(w.spec.qname(q.ID))], reqTask(0, VReq{})) {
					return true, true
				}
				seen = true
			}
		}
		return false, seen
	}
	for _, r := range recs {
		if r.open && r.children == 0 {
			seen = true
			if w.ssn.Allocatable(w.ssn.Queues[api.QueueID(w.spec.qname(r.id))], reqTask(0, VReq{})) {
				return true, true
			}
		}
	}
	return false, seen
}

type phaseOut struct {
	recToks []int64 // list of records
	qToks   []int64 // list of queries (model encoding)
	obsToks []int64 // list of (query, answer)
	got     []int64
	nTrue   int
	nFalse  int
}

func encReq(t *api.TaskInfo) []int64 {
	e, _ := encR(t.Resreq, false, "task request")
	return e
}

// runPhase asks the session; queries the plugin cannot answer without a nil dereference (a queue it
// holds no record for) or that are not exactly representable (Overused with an off-grid deserved)
// are dropped.
func (w *voteWorld) runPhase(queries []VQuery, ready bool) phaseOut {
	recs := w.records()
	byID := map[int64]qRecord{}
	po := phaseOut{recToks: []int64{int64(len(recs))}, got: []int64{-101}}
	for _, r := range recs {
		byID[r.id] = r
		po.recToks = append(po.recToks, r.toks...)
	}
	nq := int64(0)
	qt := []int64{}
	ob := []int64{}
	for _, q := range queries {
		var tk []int64
		var ans bool
		switch q.Kind {
		case 1, 2, 3:
			qi := w.ssn.Queues[api.QueueID(w.spec.qname(q.Target))]
			if qi == nil {
				continue
			}
			rec, ok := byID[q.Target]
			if !ok && !(w.spec.Kind == kHier && !ready) {
				continue
			}
			switch q.Kind {
			case 1:
				t := reqTask(1, q.Reqs[0])
				ans = w.ssn.Allocatable(qi, t)
				tk = append([]int64{1, q.Target}, encReq(t)...)
			case 2:
				if w.spec.Kind == kProp && !rec.desInt {
					continue
				}
				ans = w.ssn.Overused(qi)
				tk = []int64{2, q.Target}
			case 3:
				ts := []*api.TaskInfo{}
				tk = []int64{3, q.Target, int64(len(q.Reqs))}
				for i, r := range q.Reqs {
					t := reqTask(i+1, r)
					ts = append(ts, t)
					tk = append(tk, encReq(t)...)
				}
				ans = w.ssn.Preemptive(qi, ts)
			}
		case 4:
			ji := w.ssn.Jobs[sched.JobID(q.Target)]
			if ji == nil {
				continue
			}
			qid := w.spec.qid(string(ji.Queue))
			if _, ok := byID[qid]; !ok && !(w.spec.Kind == kHier && !ready) {
				continue
			}
			ans = w.ssn.JobEnqueueable(ji)
			tk = []int64{4, qid}
			if ji.PodGroup.Spec.MinResources == nil {
				tk = append(tk, 0)
			} else {
				e, _ := encR(ji.GetMinResources(), false, "minResources")
				tk = append(append(tk, 1), e...)
			}
		default:
			panic("unknown query kind")
		}
		nq++
		qt = append(qt, tk...)
		ob = append(ob, tk...)
		ob = append(ob, vb(ans))
		po.got = append(po.got, -110-q.Kind, vb(ans))
		if ans {
			po.nTrue++
		} else {
			po.nFalse++
		}
	}
	po.qToks = append([]int64{nq}, qt...)
	po.obsToks = append([]int64{nq}, ob...)
	return po
}

type voteRun struct {
	spec   VSpec
	phases []phaseOut
	ready  bool
}

func runVotes(in []int64) (modelIn []int64, got []int64, vr voteRun) {
	t := &sched.Tok{T: in}
	l := int(t.Next())
	spec := decVSpec(t)
	if t.I != l+1 {
		panic(fmt.Sprintf("spec length %d, header says %d", t.I-1, l))
	}
	w := openVotes(spec)
	recs0 := w.records()
	ready, seen := w.observedReady(recs0)
	if seen && ready != spec.predictedReady() {
		panic(fmt.Sprintf("readyToSchedule observed %v, predicted %v", ready, spec.predictedReady()))
	}
	if !seen {
		ready = spec.predictedReady()
	}
	vr = voteRun{spec: spec, ready: ready}
	vr.phases = append(vr.phases, w.runPhase(spec.Q1, ready))
	for _, j := range spec.Enqueue {
		if ji := w.ssn.Jobs[sched.JobID(j)]; ji != nil {
			w.ssn.JobEnqueued(ji)
		}
	}
	vr.phases = append(vr.phases, w.runPhase(spec.Q2, ready))
	modelIn = append([]int64{}, in[:l+1]...)
	modelIn = append(modelIn, sched.EpsUnits, vb(spec.Kind == kHier), vb(ready), int64(len(vr.phases)))
	for _, p := range vr.phases {
		modelIn = append(modelIn, p.recToks...)
		modelIn = append(modelIn, 0) // reserved: feature gate off
		modelIn = append(modelIn, p.qToks...)
		got = append(got, p.got...)
	}
	return modelIn, got, vr
}

// law input: kind eps caps, then per phase: records reserved observations
func (vr voteRun) lawInput() []int64 {
	caps := []int64{}
	n := int64(0)
	for _, q := range vr.spec.Queues {
		if q.Cap.Mask != 0 {
			n++
			caps = append(caps, q.ID)
			caps = append(caps, q.Cap.encRes()...)
		}
	}
	li := []int64{vr.spec.Kind, sched.EpsUnits, n}
	li = append(li, caps...)
	li = append(li, int64(len(vr.phases)))
	for _, p := range vr.phases {
		li = append(li, p.recToks...)
		li = append(li, 0)
		li = append(li, p.obsToks...)
	}
	return li
}
