package main

import (
	"fmt"

	"verif/harness/internal/sched"
	"verif/harness/internal/vh"
)

const mib = int64(1) << 20

type amounts struct{ cpu, mem, gpu int64 }

func allocatedStatus(s int64) bool {
	return s == sched.SRunning || s == sched.SBound || s == sched.SAllocated || s == sched.SBinding
}

// genVotes draws one vote case.  stream: "valid" (what the queue admission webhook accepts:
// guarantee <= deserved <= capability where listed), "malformed" (hierarchy the plugin refuses).
func genVotes(r *vh.Rng, kind int64, malformed bool) VSpec {
	s := VSpec{Kind: kind, HasRoot: true}
	// ---- nodes ----
	nn := r.Range(1, 3)
	total := amounts{}
	clusterGPU := r.Chance(1, 2)
	for i := 1; i <= nn; i++ {
		n := sched.NodeSpec{ID: int64(i), Has: true, CPU: int64(r.Range(2, 12)) * 1000, Mem: int64(r.Range(4, 24)) * mib, Pods: int64(r.Range(4, 20))}
		if clusterGPU && r.Chance(2, 3) {
			n.GPU = int64(r.Range(1, 4))
		}
		total.cpu += n.CPU
		total.mem += n.Mem
		total.gpu += n.GPU
		s.Nodes = append(s.Nodes, n)
	}
	// ---- queues ----
	nq := r.Range(2, 4)
	if kind == kHier {
		nq = r.Range(3, 7)
	}
	parentOf := map[int64]int64{}
	for q := 1; q <= nq; q++ {
		vq := VQueue{ID: int64(q), State: 1, Weight: int64(r.Range(1, 4))}
		if !r.Chance(3, 4) {
			vq.State = int64(r.Range(2, 4))
		}
		root := kind == kHier && q == 1
		if root {
			vq.State = 1
		}
		if kind == kHier && q > 1 {
			// parent among the earlier queues: depth up to 3 below root; 0 = default (root)
			p := int64(r.Range(0, min(q-1, 4)))
			if p == 1 && r.Chance(1, 2) {
				p = 0
			}
			vq.Parent = p
			if p == 0 {
				p = 1
			}
			parentOf[vq.ID] = p
		}
		// capability
		capProb := 2
		if root {
			capProb = 6 // the root mostly has none (then the plugin makes it infinite)
		}
		if r.Chance(1, capProb) || (!root && r.Chance(1, 3)) {
			if r.Chance(2, 3) {
				vq.Cap.Mask |= 1
				vq.Cap.CPU = int64(r.Range(1, 24)) * 500
			}
			if r.Chance(1, 2) {
				vq.Cap.Mask |= 2
				vq.Cap.Mem = int64(r.Range(1, 24)) * mib
			}
			if r.Chance(1, 3) {
				vq.Cap.Mask |= 4
				vq.Cap.GPU = int64(r.Range(0, 4))
			}
		}
		if root && vq.Cap.Mask == 4 && vq.Cap.GPU == 0 {
			// Known quirk, kept out of the default streams (laws 113/114 fail on it at full strength):
			// a root capability that lists only zero quantities is IsEmpty() and is replaced by the
			// infinite resource (capacity.go:1339-1342), so "nvidia.com/gpu: 0" on root limits nothing.
			vq.Cap.GPU = int64(r.Range(1, 4))
		}
		// guarantee <= capability where listed
		if !root && r.Chance(1, 3) {
			if r.Chance(2, 3) {
				g := int64(r.Range(1, 8)) * 500
				if vq.Cap.Mask&1 != 0 && g > vq.Cap.CPU {
					g = vq.Cap.CPU
				}
				vq.Guar.Mask |= 1
				vq.Guar.CPU = g
			}
			if r.Chance(1, 2) {
				g := int64(r.Range(1, 8)) * mib
				if vq.Cap.Mask&2 != 0 && g > vq.Cap.Mem {
					g = vq.Cap.Mem
				}
				vq.Guar.Mask |= 2
				vq.Guar.Mem = g
			}
			if r.Chance(1, 4) {
				g := int64(r.Range(0, 2))
				if vq.Cap.Mask&4 != 0 && g > vq.Cap.GPU {
					g = vq.Cap.GPU
				}
				vq.Guar.Mask |= 4
				vq.Guar.GPU = g
			}
		}
		// deserved (read by the capacity plugin only): guarantee <= deserved <= capability
		if kind != kProp && !root && (vq.Guar.Mask != 0 || r.Chance(1, 2)) {
			pick := func(bit int64, g, c, step, hi int64) int64 {
				d := int64(r.Range(0, int(hi))) * step
				if vq.Guar.Mask&bit != 0 && d < g {
					d = g
				}
				if vq.Cap.Mask&bit != 0 && d > c {
					d = c
				}
				return d
			}
			if vq.Guar.Mask&1 != 0 || r.Chance(2, 3) {
				vq.Des.Mask |= 1
				vq.Des.CPU = pick(1, vq.Guar.CPU, vq.Cap.CPU, 500, 16)
			}
			if vq.Guar.Mask&2 != 0 || r.Chance(1, 2) {
				vq.Des.Mask |= 2
				vq.Des.Mem = pick(2, vq.Guar.Mem, vq.Cap.Mem, mib, 16)
			}
			if vq.Guar.Mask&4 != 0 || r.Chance(1, 4) {
				vq.Des.Mask |= 4
				vq.Des.GPU = pick(4, vq.Guar.GPU, vq.Cap.GPU, 1, 3)
			}
		}
		s.Queues = append(s.Queues, vq)
	}
	hasChild := map[int64]bool{}
	for _, p := range parentOf {
		hasChild[p] = true
	}
	leaves := []int64{}
	inner := []int64{}
	for _, q := range s.Queues {
		if kind == kHier && hasChild[q.ID] {
			inner = append(inner, q.ID)
		} else if !(kind == kHier && q.ID == 1) {
			leaves = append(leaves, q.ID)
		}
	}
	if len(leaves) == 0 {
		leaves = []int64{s.Queues[len(s.Queues)-1].ID}
	}
	// ---- malformed hierarchies ----
	jobInInner := false
	if malformed && kind == kHier {
		switch r.Intn(3) {
		case 0:
			s.HasRoot = false
		case 1:
			s.Queues[len(s.Queues)-1].Parent = 77 // no such queue
		default:
			jobInInner = len(inner) > 0
			if !jobInInner {
				s.HasRoot = false
			}
		}
	}
	// ---- jobs and tasks ----
	nj := r.Range(1, 6)
	alloc := map[int64]*amounts{} // per queue, subtree totals (for the boundary bias)
	inq := map[int64]*amounts{}   // rough inqueue estimate
	get := func(m map[int64]*amounts, q int64) *amounts {
		if m[q] == nil {
			m[q] = &amounts{}
		}
		return m[q]
	}
	chainOf := func(q int64) []int64 {
		c := []int64{q}
		for i := 0; i < 8; i++ {
			p, ok := parentOf[q]
			if !ok {
				break
			}
			c = append(c, p)
			q = p
		}
		return c
	}
	tid := int64(0)
	for j := 1; j <= nj; j++ {
		vj := VJob{ID: int64(j), Queue: vh.Pick(r, leaves), MinMember: int64(r.Range(1, 3)), Phase: vh.Pick(r, []int64{1, 1, 2, 2, 3})}
		if jobInInner && j == 1 {
			vj.Queue = vh.Pick(r, inner)
		}
		nt := r.Range(0, 4)
		ja := amounts{}
		for k := 0; k < nt; k++ {
			tid++
			t := VTask{ID: tid, Job: vj.ID, Status: sched.SPending}
			switch r.Intn(8) {
			case 0: // best effort
			case 1:
				t.CPU = int64(r.Range(1, 8)) * 250
			case 2:
				t.Mem = int64(r.Range(1, 6)) * mib
			default:
				t.CPU = int64(r.Range(1, 8)) * 250
				t.Mem = int64(r.Range(1, 6)) * mib
				if r.Chance(1, 4) {
					t.GPU = int64(r.Range(1, 2))
				}
			}
			if r.Chance(1, 2) {
				t.Status = vh.Pick(r, []int64{sched.SRunning, sched.SRunning, sched.SBound, sched.SReleasing, sched.SSucceeded})
			}
			if allocatedStatus(t.Status) {
				ja.cpu += t.CPU
				ja.mem += t.Mem
				ja.gpu += t.GPU
			}
			s.Tasks = append(s.Tasks, t)
		}
		for _, a := range chainOf(vj.Queue) {
			x := get(alloc, a)
			x.cpu += ja.cpu
			x.mem += ja.mem
			x.gpu += ja.gpu
		}
		if r.Chance(2, 3) {
			vj.HasMin = true
			if r.Chance(3, 4) {
				vj.Min.Mask |= 1
				vj.Min.CPU = int64(r.Range(1, 12)) * 250
			}
			if r.Chance(1, 2) {
				vj.Min.Mask |= 2
				vj.Min.Mem = int64(r.Range(1, 10)) * mib
			}
			if r.Chance(1, 4) {
				vj.Min.Mask |= 4
				vj.Min.GPU = int64(r.Range(1, 3))
			}
			if r.Chance(1, 5) {
				vj.Min.Mask |= 8
				vj.Min.Pods = int64(r.Range(1, 4))
			}
			if vj.Phase != 1 {
				for _, a := range chainOf(vj.Queue) {
					x := get(inq, a)
					x.cpu += max(vj.Min.CPU-ja.cpu, 0)
					x.mem += max(vj.Min.Mem-ja.mem, 0)
					x.gpu += max(vj.Min.GPU-ja.gpu, 0)
				}
			}
		}
		s.Jobs = append(s.Jobs, vj)
	}
	// ---- room left under the capabilities along the chain (boundary bias) ----
	qByID := map[int64]VQueue{}
	for _, q := range s.Queues {
		qByID[q.ID] = q
	}
	room := func(q int64, withInq bool) amounts {
		rm := amounts{total.cpu, total.mem, total.gpu}
		for _, a := range chainOf(q) {
			c := qByID[a].Cap
			used := *get(alloc, a)
			if withInq {
				i := get(inq, a)
				used.cpu += i.cpu
				used.mem += i.mem
				used.gpu += i.gpu
			}
			if c.Mask&1 != 0 {
				rm.cpu = min(rm.cpu, c.CPU-used.cpu)
			}
			if c.Mask&2 != 0 {
				rm.mem = min(rm.mem, c.Mem-used.mem)
			}
			if c.Mask&4 != 0 {
				rm.gpu = min(rm.gpu, c.GPU-used.gpu)
			}
		}
		if kind == kProp {
			// deserved is at most the request: stay small
			rm.cpu = min(rm.cpu, int64(r.Range(1, 8))*500)
		}
		return rm
	}
	near := func(x, step int64) int64 {
		x += int64(r.Range(-1, 1)) * step
		if x < 0 {
			x = 0
		}
		return x
	}
	drawReq := func(q int64) VReq {
		rm := room(q, false)
		v := VReq{}
		switch r.Intn(10) {
		case 0: // best effort
		case 1, 2:
			v.CPU = near(rm.cpu, 250)
		case 3:
			v.Mem = near(rm.mem, mib)
		case 4:
			v.CPU = int64(r.Range(1, 4)) * 250
			v.GPU = near(rm.gpu, 1)
		case 5, 6:
			v.CPU = near(rm.cpu, 250)
			v.Mem = int64(r.Range(1, 4)) * mib
		default:
			v.CPU = int64(r.Range(1, 8)) * 250
			v.Mem = int64(r.Range(1, 6)) * mib
			if r.Chance(1, 4) {
				v.GPU = int64(r.Range(1, 2))
			}
		}
		return v
	}
	// jobs near the admission boundary: rewrite minResources of some pending jobs
	for i := range s.Jobs {
		j := &s.Jobs[i]
		if j.HasMin && j.Phase == 1 && r.Chance(1, 2) {
			rm := room(j.Queue, true)
			if j.Min.Mask&1 != 0 {
				j.Min.CPU = max(near(rm.cpu, 250), 250)
			}
			if j.Min.Mask&2 != 0 && r.Chance(1, 2) {
				j.Min.Mem = max(near(rm.mem, mib), mib)
			}
			if j.Min.Mask&4 != 0 && r.Chance(1, 2) {
				j.Min.GPU = max(near(rm.gpu, 1), 1)
			}
		}
	}
	// ---- queries ----
	targets := []int64{}
	seenQ := map[int64]bool{}
	for _, j := range s.Jobs {
		if !seenQ[j.Queue] {
			seenQ[j.Queue] = true
			targets = append(targets, j.Queue)
		}
	}
	if kind == kHier {
		// every queue has a record: ask inner queues and the root too
		for _, q := range s.Queues {
			if !seenQ[q.ID] && r.Chance(1, 2) {
				targets = append(targets, q.ID)
			}
		}
	}
	for _, q := range targets {
		for k := r.Range(1, 3); k > 0; k-- {
			s.Q1 = append(s.Q1, VQuery{Kind: 1, Target: q, Reqs: []VReq{drawReq(q)}})
		}
		if r.Chance(1, 2) {
			s.Q1 = append(s.Q1, VQuery{Kind: 2, Target: q})
		}
		if r.Chance(2, 3) {
			pq := VQuery{Kind: 3, Target: q}
			n := r.Range(0, 3)
			rm := room(q, false)
			for k := 0; k < n; k++ {
				v := VReq{CPU: int64(r.Range(0, 4)) * 250, Mem: int64(r.Range(0, 3)) * mib}
				if k == 0 && r.Chance(1, 2) {
					v.CPU = near(rm.cpu/int64(n), 250)
				}
				if r.Chance(1, 6) {
					v.GPU = 1
				}
				pq.Reqs = append(pq.Reqs, v)
			}
			s.Q1 = append(s.Q1, pq)
			if len(pq.Reqs) == 1 {
				// the same request through Allocatable: in a hierarchy Preemptive looks at the queue
				// itself only, Allocatable walks the ancestors
				s.Q1 = append(s.Q1, VQuery{Kind: 1, Target: q, Reqs: pq.Reqs})
			}
		}
	}
	for _, j := range s.Jobs {
		if r.Chance(3, 4) {
			s.Q1 = append(s.Q1, VQuery{Kind: 4, Target: j.ID})
		}
	}
	// ---- second phase: some jobs are admitted (ssn.JobEnqueued), then asked again ----
	for _, j := range s.Jobs {
		if j.Phase == 1 && r.Chance(1, 2) || r.Chance(1, 8) {
			s.Enqueue = append(s.Enqueue, j.ID)
		}
	}
	if len(s.Enqueue) > 0 {
		for _, j := range s.Jobs {
			if r.Chance(2, 3) {
				s.Q2 = append(s.Q2, VQuery{Kind: 4, Target: j.ID})
			}
		}
		for _, q := range targets {
			if r.Chance(1, 2) {
				s.Q2 = append(s.Q2, VQuery{Kind: 1, Target: q, Reqs: []VReq{drawReq(q)}})
			}
		}
	}
	return s
}

func kindName(k int64) string {
	switch k {
	case kFlat:
		return "capacity-flat"
	case kHier:
		return "capacity-hierarchical"
	}
	return "proportion"
}

func voteCaseIn(s VSpec) []int64 {
	e := s.Enc()
	return append([]int64{int64(len(e))}, e...)
}

// genVoteStream emits m vote cases.  Non-trivial rule: at least 2 queues and, over both phases,
// at least one query answered true and one answered false.
func genVoteStream(rng *vh.Rng, m int, emit func(id string, sel int, in []int64, kind string, nontrivial bool, desc any)) {
	for i := 0; i < m; i++ {
		r := rng.Fork()
		kind := vh.Pick(r, []int64{kFlat, kHier, kHier, kProp})
		malformed := kind == kHier && r.Chance(1, 10)
		s := genVotes(r, kind, malformed)
		in := voteCaseIn(s)
		nt, nf := 0, 0
		func() {
			defer func() { _ = recover() }()
			_, _, vr := runVotes(in)
			for _, p := range vr.phases {
				nt += p.nTrue
				nf += p.nFalse
			}
		}()
		sel := 2
		if kind == kProp {
			sel = 3
		}
		stream := "votes/" + kindName(kind)
		if malformed {
			stream += "/malformed-hierarchy"
		}
		stream += "/gates=default"
		desc := map[string]any{"plugin": kindName(kind), "queues": len(s.Queues), "jobs": len(s.Jobs), "tasks": len(s.Tasks),
			"queries": len(s.Q1) + len(s.Q2), "enqueued": len(s.Enqueue), "true": nt, "false": nf}
		emit(fmt.Sprintf("votes-%d", i), sel, in, stream, len(s.Queues) >= 2 && nt > 0 && nf > 0, desc)
	}
}
