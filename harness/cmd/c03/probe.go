package main

import (
	"fmt"
	"os"

	"verif/harness/internal/vh"
)

// probe: development aid (C03_PROBE=preempt|enqueue ./bin/c03): run a stream outside vh and print.
func probe() bool {
	what := os.Getenv("C03_PROBE")
	if what == "" {
		return false
	}
	rng := vh.NewRng(1)
	switch what {
	case "preempt":
		fmt.Println("demo", runPreemptCase([]int64{6, 4, 1, 2, 2, 0, 0, 1}))
		fmt.Println("closed", runPreemptCase([]int64{0, 4, 0, 2, 0, 1, 0, 1}))
		fmt.Println("closed-legacy", runPreemptCase([]int64{0, 4, 0, 2, 0, 1, 0, 0}))
		placed, bad := 0, 0
		for i := 0; i < 200; i++ {
			in := genPreemptCase(rng.Fork())
			o := runPreemptCase(in)
			if o[0] > 0 {
				placed++
				v := o[2] == 0
				for k := 0; k < int(o[3]); k++ {
					if o[5+2*k] > 0 && o[4+2*k] > o[5+2*k] {
						v = true
					}
				}
				if v {
					bad++
					fmt.Println("VIOL", in, o)
				}
			}
		}
		fmt.Println("preempt: 200 cases placed", placed, "violations", bad)
	case "cousins":
		for i := 0; i < 8; i++ {
			fmt.Println("cousins depth 5:", runAliasCase([]int64{5, 2, 2, 1, 0, 1}), " depth 2:", runAliasCase([]int64{2, 2, 2, 1, 0, 1}))
		}
	case "room":
		fmt.Println("witness", runReclaimCase([]int64{2, 2, 0, 1, 2, 2, 1, 0, 1, kHier, 0}))
		stats := map[int64][4]int{}
		for i := 0; i < 600; i++ {
			in := genReclaimRoomCase(rng.Fork())
			o := runReclaimCase(in)
			st := stats[in[9]]
			st[0]++
			if o[0] == 1 && o[1] == 0 {
				st[1]++
			}
			if o[2] == 1 {
				st[2]++
				if o[3] == 0 {
					st[3]++
				}
				for k := 0; k < int(o[4]); k++ {
					if o[6+3*k] > o[7+3*k] || o[5+3*k] != o[6+3*k] {
						fmt.Println("VIOL", in, o)
					}
				}
			}
			stats[in[9]] = st
		}
		fmt.Println("room: per kind [cases, preemptive&&!allocatable, placed, placed without eviction]", stats)
	case "gatedstrict":
		fmt.Println(runEnqueueCase(enqueueGatedStrictWitness(kFlat)))
		fmt.Println(runEnqueueCase(enqueueGatedStrictWitness(kProp)))
	case "elastic":
		for k := int64(1); k <= 3; k += 2 {
			in := encEnqueue(k, []eqQueue{{ID: 1, Open: 1, Mask: 1, CPU: 4000}},
				[]eqJob{{ID: 1, Queue: 1, Phase: 3, MinMember: 1, NT: 4, TCPU: 1000, Running: 4}, {ID: 2, Queue: 1, Phase: 1, HasMin: 1, Mask: 1, CPU: 4000, MinMember: 1}})
			fmt.Println(kindName(k), runEnqueueCase(in))
		}
	case "enqueue":
		votesT, votesF, admitted, admittedMin := 0, 0, 0, 0
		for i := 0; i < 300; i++ {
			in := genEnqueueCase(rng.Fork())
			o := runEnqueueCase(in)
			_, qs, js := decEnqueue(in)
			base := 2 + 7*len(qs) + 1
			for k := range js {
				f := o[base+22*k : base+22*k+22]
				if f[14] == 1 {
					votesT++
				}
				if f[14] == 0 {
					votesF++
				}
				if f[2] == 1 && f[3] == 2 {
					admitted++
					if f[4] != 0 {
						admittedMin++
					}
				}
			}
		}
		fmt.Println("enqueue: 300 cases votes true", votesT, "false", votesF, "admitted", admitted, "with minResources", admittedMin)
	}
	return true
}
