package main

import (
	"fmt"
	"os"

	"verif/harness/internal/vh"
)

// probe: development aid (C03_PROBE=preempt|enqueue ./bin/c03): run a stream outside vh and print.
func probe() bool {
	what := os.Getenv("C03_PROBE")
	if what == "" {
		return false
	}
	rng := vh.NewRng(1)
	switch what {
	case "preempt":
		fmt.Println("demo", runPreemptCase([]int64{6, 4, 1, 2, 2, 0, 0, 1}))
		fmt.Println("closed", runPreemptCase([]int64{0, 4, 0, 2, 0, 1, 0, 1}))
		fmt.Println("closed-legacy", runPreemptCase([]int64{0, 4, 0, 2, 0, 1, 0, 0}))
		placed, bad := 0, 0
		for i := 0; i < 200; i++ {
			in := genPreemptCase(rng.Fork())
			o := runPreemptCase(in)
			if o[0] > 0 {
				placed++
				v := o[2] == 0
				for k := 0; k < int(o[3]); k++ {
					if o[5+2*k] > 0 && o[4+2*k] > o[5+2*k] {
						v = true
					}
				}
				if v {
					bad++
					fmt.Println("VIOL", in, o)
				}
			}
		}
		fmt.Println("preempt: 200 cases placed", placed, "violations", bad)
	}
	return true
}
