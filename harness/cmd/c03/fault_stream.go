// Stream 8: the real allocate action when a handler registered BEFORE the queue plugin fails its
// allocate callback (the recorder plugin of the cycle harness, scripted per task; in-tree this is
// predicates / extender reporting a device, volume or DRA reservation failure).  Statement.Allocate
// / Pipeline then roll the placement back through EVERY deallocate handler, so every allocate
// handler must have run before: otherwise the queue plugin's `allocated` ends one request too low
// and further pods of the same queue are admitted past the limit.
//
//	one node, two queues of equal weight (proportion: deserved = half the node each)
//	queue 1: job 1 = one high-priority task of `fail` cpus whose allocate callback fails,
//	                 then `more` pending tasks of 1 cpu;   queue 2: job 2 = `other` pending 1-cpu tasks
//
// in = the cycle spec tokens (sched.CycleSpec.Enc) ++ [id of the task whose allocate callback fails (0 = none),
//
//	id of the task whose bind the cache refuses at Commit (0 = none; a refused bind is rolled back
//	through the deallocate handlers exactly once)]
// The verdict is law 103 of the shared cycle entry (CycleLaws.law_queues), evaluated on the final
// session: for every queue, on every dimension a newly placed task requests, the requests of the
// pods that hold quota are within deserved and capability.
package main

import (
	"verif/harness/internal/sched"
	"verif/harness/internal/vh"
)

func runFaultCase(in []int64) (lawIn, guardIn []int64) {
	r := &sched.Tok{T: in}
	spec := sched.DecCycleSpec(r)
	failID := r.Next()
	refuseID := int64(0)
	if r.I < len(in) {
		refuseID = r.Next()
	}
	cw := sched.NewCycleWorld(spec)
	if failID != 0 {
		cw.Rec.ErrFor[failID] = true
	}
	if refuseID != 0 {
		// cache.AddBindTask refuses this task at Commit: Statement.Commit must undo the placement ONCE
		cw.Cache.RefuseBind[refuseID] = true
	}
	limits := cw.QueueLimits()
	cw.RunActions()
	lawIn = append(lawIn, spec.Enc(sched.EpsUnits)...)
	lawIn = append(lawIn, limits...)
	lawIn = append(lawIn, sched.EncCops(nil)...)
	guardIn = append([]int64{}, lawIn...) // spec ++ limits ++ no choices: what law 121 decodes
	lawIn = append(lawIn, cw.EncLawDump()...)
	binds := []int64{}
	for _, e := range cw.Trace {
		if e.Kind == 2 {
			binds = append(binds, e.Task)
		}
	}
	lawIn = append(lawIn, int64(len(binds)))
	return append(lawIn, binds...), guardIn
}

func faultSpec(nodeCPU, fail, more, other int64, failFirst bool, refuseBind bool) []int64 {
	spec := sched.CycleSpec{PGPhase: map[int64]int64{1: 2, 2: 2}, Proportion: true, Actions: []int64{1}}
	spec.Nodes = []sched.NodeSpec{{ID: 1, Has: true, CPU: nodeCPU * 1000, Mem: 64 << 20, Pods: 64}}
	spec.Queues = []sched.QueueSpec{{ID: 1, Open: true, Weight: 1}, {ID: 2, Open: true, Weight: 1}}
	spec.Jobs = []sched.JobSpec{{ID: 1, Queue: 1, Min: 1}, {ID: 2, Queue: 2, Min: 1}}
	prio := int64(2)
	if !failFirst {
		prio = 0
	}
	tid := int64(1)
	spec.Tasks = append(spec.Tasks, sched.TaskSpec{ID: tid, Job: 1, Role: 1, Prio: prio, CPU: fail * 1000, Mem: 1 << 19, Status: sched.SPending})
	for i := int64(0); i < more; i++ {
		tid++
		spec.Tasks = append(spec.Tasks, sched.TaskSpec{ID: tid, Job: 1, Role: 1, Prio: 1, CPU: 1000, Mem: 1 << 19, Status: sched.SPending})
	}
	for i := int64(0); i < other; i++ {
		tid++
		spec.Tasks = append(spec.Tasks, sched.TaskSpec{ID: tid, Job: 2, Role: 1, Prio: 1, CPU: 1000, Mem: 1 << 19, Status: sched.SPending})
	}
	if refuseBind {
		return append(spec.Enc(sched.EpsUnits), 0, 1)
	}
	return append(spec.Enc(sched.EpsUnits), 1, 0)
}

func genFaultCase(r *vh.Rng) []int64 {
	if r.Chance(1, 2) {
		// directed: queue 1 asks for more than its half; the failing task comes first
		node := int64(r.Range(4, 10))
		return faultSpec(node, int64(r.Range(1, 3)), node/2+int64(r.Range(1, 3)), node/2+int64(r.Range(0, 3)), !r.Chance(1, 5), r.Chance(1, 2))
	}
	// a random cycle of the shared generator with one pending task failing
	spec := sched.GenCycle(r, true)
	fail := int64(0)
	for _, t := range spec.Tasks {
		if t.Status == sched.SPending && (fail == 0 || r.Chance(1, 3)) {
			fail = t.ID
		}
	}
	if r.Chance(1, 2) {
		return append(spec.Enc(sched.EpsUnits), 0, fail)
	}
	return append(spec.Enc(sched.EpsUnits), fail, 0)
}
