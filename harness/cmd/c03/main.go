// c03 harness: real scheduling cycles (allocate / backfill with the real gang, priority and
// proportion plugins) against the action skeleton model; law selector 103.
package main

import "verif/harness/internal/sched"

func main() {
	sched.CycleHarness(103, true).Main()
}
