// c03 harness.
//
//	sel 1   real scheduling cycles (allocate / backfill with the real gang, priority and proportion
//	        plugins) against the action skeleton model; law selector 103 (shared cycle harness).
//	sel 2/3 queue votes of the capacity (flat, hierarchical) and proportion plugins against
//	        coq/theories/C03/CapacityModel.v; laws 110-114 (votes.go, gen.go).
package main

import (
	"verif/harness/internal/sched"
	"verif/harness/internal/vh"
)

func main() {
	cyc := sched.CycleHarness(103, true)
	var last voteRun
	h := vh.Harness{
		Run2: func(sel int, in []int64) ([]int64, []int64) {
			if sel == 1 {
				return cyc.Run2(sel, in)
			}
			modelIn, got, vr := runVotes(in)
			last = vr
			return modelIn, got
		},
		Laws: func(sel int, in, got []int64, law func(lsel int, lin []int64, sig string)) {
			if sel == 1 {
				cyc.Laws(sel, in, got, law)
				return
			}
			li := last.lawInput()
			for _, lsel := range []int{110, 111, 112, 113, 114} {
				law(lsel, li, "")
			}
		},
		Gen: func(rng *vh.Rng, n int, emit func(id string, sel int, in []int64, kind string, nontrivial bool, desc any)) {
			cyc.Gen(rng, n, emit)
			genVoteStream(rng.Fork(), 4*n, emit)
		},
	}
	h.Main()
}
