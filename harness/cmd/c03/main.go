// c03 harness.
//   sel 1   real scheduling cycles (allocate / backfill with the real gang, priority and proportion
//           plugins) against the action skeleton model; law selector 103 (shared cycle harness).
//   sel 2/3 queue votes of the capacity (flat, hierarchical) and proportion plugins against
//           coq/theories/C03/CapacityModel.v; laws 110-114 (votes.go, gen.go).
//   sel 4   regression stream: the real reclaim action on hierarchical queues; law 116
//           (reclaim_stream.go; defect repaired by /repo bd1440f).
//   sel 5   regression stream: a vote must not change the stored hierarchy nor later votes; law 117
//           (alias_stream.go; defect repaired by /repo 6f3139f).
//   sel 6   the real preempt action with topology-aware preemption on hierarchical capacity; law 118
//           (preempt_stream.go; defects repaired by /repo 0a59b28, 8b56849).
//   sel 8   the real allocate action with a handler ahead of the queue plugin failing its allocate
//           callback (fault_stream.go); verdict = law 103 of the shared cycle entry.
//   sel 7   JobEnqueueable votes and the real enqueue action, all three plugin modes; law 119
//           (enqueue_stream.go).
package main

import (
	"bytes"
	"fmt"
	"os"
	"sync/atomic"
	"syscall"

	"k8s.io/klog/v2"

	"verif/harness/internal/sched"
	"verif/harness/internal/vh"
)

// Assertions of the code under test (pkg/scheduler/util/assert) panic by default.  The preempt
// action evaluates nodes in worker goroutines, where a panic kills the whole harness and hides the
// law verdicts of every other case.  The harness therefore runs with PANIC_ON_ERROR=false (the
// assert package then logs the failure with a stack) and turns every logged assertion failure into
// a per-case panic in the main goroutine, which vh reports as a violation of that case.
var assertFailures atomic.Int64

type assertWatch struct{}

func (assertWatch) Write(p []byte) (int, error) {
	if bytes.Contains(p, []byte("util/assert.Assert")) {
		assertFailures.Add(1)
	}
	return len(p), nil
}

func reexecWithoutAssertPanics() {
	if os.Getenv("PANIC_ON_ERROR") == "false" {
		return
	}
	exe, err := os.Executable()
	if err != nil {
		return
	}
	_ = syscall.Exec(exe, os.Args, append(os.Environ(), "PANIC_ON_ERROR=false"))
}

func main() {
	reexecWithoutAssertPanics()
	klog.SetOutput(assertWatch{})
	if probe() {
		return
	}
	cyc := sched.CycleHarness(103, true)
	var last voteRun
	var lastObs, lastGuardIn []int64
	var lastAsserts int64
	h := vh.Harness{
		Run2: func(sel int, in []int64) (mi []int64, got []int64) {
			before := assertFailures.Load()
			defer func() {
				// sel 8 (handler fault): the ledger going negative IS the defect looked for; the capability
				// law on the final session is the judge there
				if n := assertFailures.Load() - before; n > 0 && sel != 8 {
					panic(fmt.Sprintf("%d assertion failure(s) (pkg/scheduler/util/assert) in the code under test", n))
				}
			}()
			switch sel {
			case 1:
				return cyc.Run2(sel, in)
			case 4:
				if len(in) != 8 && len(in) != 11 {
					panic("reclaim case: 8 or 11 tokens expected")
				}
				lastObs = runReclaimCase(in)
				// correspondence part: the model only validates the shape of the input
				return in, []int64{1}
			case 5:
				if len(in) != 5 && len(in) != 6 {
					panic("alias case: 5 or 6 tokens expected")
				}
				lastObs = runAliasCase(in)
				return in, []int64{1}
			case 6:
				if len(in) != 8 {
					panic("preempt case: 8 tokens expected")
				}
				lastObs = runPreemptCase(in)
				return in, []int64{1}
			case 7:
				lastObs = runEnqueueCase(in)
				return in, []int64{1}
			case 8:
				a0 := assertFailures.Load()
				lastObs, lastGuardIn = runFaultCase(in)
				lastAsserts = assertFailures.Load() - a0
				return in, []int64{1}
			}
			modelIn, got, vr := runVotes(in)
			last = vr
			return modelIn, got
		},
		Laws: func(sel int, in, got []int64, law func(lsel int, lin []int64, sig string)) {
			switch sel {
			case 1:
				cyc.Laws(sel, in, got, law)
				// the generated cluster is inside the main theorem (in = spec ++ limits ++ choices)
				law(121, in, "")
				return
			case 4:
				law(116, lastObs, "")
				return
			case 5:
				law(117, lastObs, "")
				return
			case 6:
				law(118, lastObs, "")
				return
			case 7:
				law(119, lastObs, "")
				return
			case 8:
				law(103, lastObs, "")
				law(121, lastGuardIn, "")
				law(122, []int64{lastAsserts}, "")
				return
			}
			li := last.lawInput()
			for _, lsel := range []int{110, 111, 112, 113, 114} {
				law(lsel, li, "")
			}
		},
		Gen: func(rng *vh.Rng, n int, emit func(id string, sel int, in []int64, kind string, nontrivial bool, desc any)) {
			cyc.Gen(rng, n, emit)
			genVoteStream(rng.Fork(), 4*n, emit)
			genRegressionStreams(rng.Fork(), n, emit)
		},
	}
	h.Main()
}

// genRegressionStreams: the two fixed witnesses first (the inputs that exposed the defects), then
// random members of the two families.  A reclaim case is non-trivial when the leaf's Preemptive
// vote is positive while Allocatable is negative (an ancestor is the binding limit); an alias case
// when the hierarchy is deep enough for Go's append to share a backing array (depth >= 5).
func genRegressionStreams(rng *vh.Rng, n int, emit func(id string, sel int, in []int64, kind string, nontrivial bool, desc any)) {
	emitReclaim := func(id string, in []int64) {
		obs := runReclaimCase(in)
		kind, desc := "reclaim-hierarchical/capacity+gang/gates=default",
			map[string]any{"capParent": in[0], "a": in[1], "b": in[2], "req": in[3], "c": in[4], "deservedB": in[5], "deservedC": in[6], "siblingVictims": in[7]}
		if len(in) == 11 {
			kind = "reclaim-room-without-eviction/" + kindName(in[9]) + "+gang/gates=default"
			desc["idle"], desc["capLeaf"] = in[8], in[10]
		}
		// non-trivial: the Preemptive vote admits the task while Allocatable refuses it (an ancestor,
		// or for the room family any limit, is binding)
		emit(id, 4, in, kind, obs[0] == 1 && obs[1] == 0, desc)
	}
	emitAlias := func(id string, in []int64) {
		emit(id, 5, in, "vote-isolation/capacity-hierarchical/gates=default", in[0] >= 5,
			map[string]any{"depth": in[0], "capC2": in[1], "held": in[2], "req": in[3], "viaEnqueue": in[4]})
	}
	emitReclaim("reclaim-witness", []int64{10, 6, 4, 2, 10, 8, 5, 0})
	emitReclaim("reclaim-room-witness", []int64{2, 2, 0, 1, 2, 2, 1, 0, 1, kHier, 0})
	emitAlias("alias-witness", []int64{5, 2, 2, 1, 0})
	emitAlias("alias-witness-enqueue", []int64{5, 2, 2, 1, 1})
	emitAlias("alias-witness-cousins", []int64{5, 2, 2, 1, 0, 1})
	// the real preempt action (topology-aware dry run) and the real enqueue action.  A preempt case
	// is non-trivial when an ancestor or leaf capability is set and there are victims to choose from;
	// an enqueue case when some PodGroup is already Inqueue with minResources and another one is Pending
	// with minResources.
	emitPreempt := func(id string, in []int64) {
		emit(id, 6, in, "preempt-topology-aware/capacity-hierarchical/gates=default", (in[0] > 0 || in[6] > 0) && in[1] >= 2,
			map[string]any{"capDept": in[0], "victims": in[1], "idle": in[2], "req": in[3], "sibling": in[4], "leafClosed": in[5], "capLeaf": in[6], "topologyAware": in[7]})
	}
	emitEnqueue := func(id string, in []int64) {
		kind, qs, js := decEnqueue(in)
		// pre-run: was a guard of law 119 exercised with a capability that can bind?  non-trivial :=
		// some positive JobEnqueueable vote for a PodGroup whose minResources ask a dimension a queue
		// capability lists, or some positive Allocatable vote for a pod requesting such a dimension
		obs := runEnqueueCase(in)
		capMask := int64(0)
		for _, q := range qs {
			capMask |= q.Mask & 7
		}
		base := 2 + 7*len(qs) + 1
		nontrivial := false
		av := [3]int{}
		vt := [3]int{}
		nopods := 0
		for k, j := range js {
			f := obs[base+22*k : base+22*k+22]
			vt[f[14]]++
			av[f[18]]++
			if f[14] == 1 && j.HasMin != 0 && j.Mask&capMask != 0 {
				nontrivial = true
			}
			cm := int64(0)
			for d := 0; d < 3; d++ {
				if f[19+d] > 0 {
					cm |= 1 << d
				}
			}
			if f[18] == 1 && cm&capMask != 0 {
				nontrivial = true
			}
			if j.Phase == 2 && j.NT == 0 {
				nopods++
			}
		}
		gates := "gates=default"
		if kind >= 10 {
			gates = "gates=SchedulingGatesQueueAdmission"
		}
		emit(id, 7, in, "enqueue-action/"+kindName(kind%10)+"/"+gates, nontrivial,
			map[string]any{"queues": len(qs), "jobs": len(js), "inqueueWithoutPods": nopods,
				"enqueueVotes[false,true,notAsked]": vt, "allocatableVotes[false,true,noCandidate]": av})
	}
	emitPreempt("preempt-witness-mutantB", []int64{6, 4, 1, 2, 2, 0, 0, 1})
	emitPreempt("preempt-witness-unfit", []int64{3, 2, 2, 3, 0, 0, 0, 1})
	emitPreempt("preempt-witness-closed", []int64{0, 4, 0, 2, 0, 1, 0, 1})
	for k := int64(1); k <= 3; k++ {
		emitEnqueue(fmt.Sprintf("enqueue-witness-%d", k), enqueueWitness(k))
		emitEnqueue(fmt.Sprintf("enqueue-gated-witness-%d", k), enqueueGatedWitness(k))
		emitEnqueue(fmt.Sprintf("enqueue-scalar-witness-%d", k), enqueueScalarWitness(k))
	}
	emitEnqueue("enqueue-gate-reserved-witness", enqueueGateReservedWitness())
	emitEnqueue("enqueue-gated-strict-reading-by-design", enqueueGatedStrictWitness(kFlat))
	emitEnqueue("enqueue-closed-children-witness", enqueueClosedChildrenWitness())
	// allocate with a failing allocate callback ahead of the queue plugin: non-trivial when queue 1
	// asks for more than it may have (directed half of the stream)
	emitFault := func(id string, in []int64) {
		emit(id, 8, in, "allocate-handler-fault/proportion/gates=default", true, map[string]any{"failingAllocateCallback": in[len(in)-2], "refusedBind": in[len(in)-1]})
	}
	emitFault("fault-witness", faultSpec(8, 2, 6, 6, true, false))
	emitFault("fault-witness-refused-bind", faultSpec(8, 2, 6, 6, true, true))
	for i := 0; i < n/2; i++ {
		emitFault(fmt.Sprintf("fault-%d", i), genFaultCase(rng.Fork()))
	}
	for i := 0; i < n; i++ {
		emitReclaim(fmt.Sprintf("reclaim-%d", i), genReclaimCase(rng.Fork()))
		emitReclaim(fmt.Sprintf("reclaim-room-%d", i), genReclaimRoomCase(rng.Fork()))
		emitAlias(fmt.Sprintf("alias-%d", i), genAliasCase(rng.Fork()))
		emitPreempt(fmt.Sprintf("preempt-%d", i), genPreemptCase(rng.Fork()))
		emitEnqueue(fmt.Sprintf("enqueue-%d", i), genEnqueueCase(rng.Fork()))
	}
}
