// c03 harness.
//   sel 1   real scheduling cycles (allocate / backfill with the real gang, priority and proportion
//           plugins) against the action skeleton model; law selector 103 (shared cycle harness).
//   sel 2/3 queue votes of the capacity (flat, hierarchical) and proportion plugins against
//           coq/theories/C03/CapacityModel.v; laws 110-114 (votes.go, gen.go).
//   sel 4   regression stream: the real reclaim action on hierarchical queues; law 116
//           (reclaim_stream.go; defect repaired by /repo bd1440f).
//   sel 5   regression stream: a vote must not change the stored hierarchy nor later votes; law 117
//           (alias_stream.go; defect repaired by /repo 6f3139f).
package main

import (
	"fmt"

	"verif/harness/internal/sched"
	"verif/harness/internal/vh"
)

func main() {
	if probe() {
		return
	}
	cyc := sched.CycleHarness(103, true)
	var last voteRun
	var lastObs []int64
	h := vh.Harness{
		Run2: func(sel int, in []int64) ([]int64, []int64) {
			switch sel {
			case 1:
				return cyc.Run2(sel, in)
			case 4:
				if len(in) != 8 {
					panic("reclaim case: 8 tokens expected")
				}
				lastObs = runReclaimCase(in)
				// correspondence part: the model only validates the shape of the input
				return in, []int64{1}
			case 5:
				if len(in) != 5 {
					panic("alias case: 5 tokens expected")
				}
				lastObs = runAliasCase(in)
				return in, []int64{1}
			}
			modelIn, got, vr := runVotes(in)
			last = vr
			return modelIn, got
		},
		Laws: func(sel int, in, got []int64, law func(lsel int, lin []int64, sig string)) {
			switch sel {
			case 1:
				cyc.Laws(sel, in, got, law)
				return
			case 4:
				law(116, lastObs, "")
				return
			case 5:
				law(117, lastObs, "")
				return
			}
			li := last.lawInput()
			for _, lsel := range []int{110, 111, 112, 113, 114} {
				law(lsel, li, "")
			}
		},
		Gen: func(rng *vh.Rng, n int, emit func(id string, sel int, in []int64, kind string, nontrivial bool, desc any)) {
			cyc.Gen(rng, n, emit)
			genVoteStream(rng.Fork(), 4*n, emit)
			genRegressionStreams(rng.Fork(), n, emit)
		},
	}
	h.Main()
}

// genRegressionStreams: the two fixed witnesses first (the inputs that exposed the defects), then
// random members of the two families.  A reclaim case is non-trivial when the leaf's Preemptive
// vote is positive while Allocatable is negative (an ancestor is the binding limit); an alias case
// when the hierarchy is deep enough for Go's append to share a backing array (depth >= 5).
func genRegressionStreams(rng *vh.Rng, n int, emit func(id string, sel int, in []int64, kind string, nontrivial bool, desc any)) {
	emitReclaim := func(id string, in []int64) {
		obs := runReclaimCase(in)
		emit(id, 4, in, "reclaim-hierarchical/capacity+gang/gates=default", obs[0] == 1 && obs[1] == 0,
			map[string]any{"capParent": in[0], "a": in[1], "b": in[2], "req": in[3], "c": in[4], "deservedB": in[5], "deservedC": in[6], "siblingVictims": in[7]})
	}
	emitAlias := func(id string, in []int64) {
		emit(id, 5, in, "vote-isolation/capacity-hierarchical/gates=default", in[0] >= 5,
			map[string]any{"depth": in[0], "capC2": in[1], "held": in[2], "req": in[3], "viaEnqueue": in[4]})
	}
	emitReclaim("reclaim-witness", []int64{10, 6, 4, 2, 10, 8, 5, 0})
	emitAlias("alias-witness", []int64{5, 2, 2, 1, 0})
	emitAlias("alias-witness-enqueue", []int64{5, 2, 2, 1, 1})
	for i := 0; i < n; i++ {
		emitReclaim(fmt.Sprintf("reclaim-%d", i), genReclaimCase(rng.Fork()))
		emitAlias(fmt.Sprintf("alias-%d", i), genAliasCase(rng.Fork()))
	}
}
