// Stream 7: the JobEnqueueable vote and the REAL enqueue action, with one queue plugin (capacity
// flat, capacity hierarchical, proportion), on clusters whose PodGroups are in every phase
// (Pending / Inqueue / Running) x with / without pods x minResources set / unset -- in particular
// PodGroups that are already Inqueue while none of their pods exists yet (the multi-cycle shape
// "admitted earlier, pods not yet in the cache").  The law (119, coq/theories/C03/EnqueueLaw.v)
// recomputes what every job counts for from the PodGroup objects and the pods, NOT from the
// plugin's own allocated / inqueue / elastic records.
//
// in  = kind, nq, (id parent open capMask capCPU capMem capGPU)*,
//
//	nj, (id queue phase hasMin minMask minCPU minMem minGPU minMember ntasks tCPU tMem tGPU running)*
//	running = how many of the job's ntasks pods are Running (the rest are Pending): PodGroups that are
//	already Inqueue with 0 .. minMember-1 pods allocated stand next to Pending ones
//
// units: milli-cpu, MiB, gpus.  Queue 1 is "root" when kind = 2.  All pods of a job are alike.
// law input = kind, queues as above, jobs as (id queue phaseBefore phaseAfter hasMin minMask min*3
//
//	minMember #allocated alloc*3 vote)
package main

import (
	"fmt"

	utilfeature "k8s.io/apiserver/pkg/util/feature"

	"volcano.sh/volcano/pkg/features"
	"volcano.sh/volcano/pkg/scheduler/actions/enqueue"
	"volcano.sh/volcano/pkg/scheduler/api"
	"volcano.sh/volcano/pkg/scheduler/conf"
	"volcano.sh/volcano/pkg/scheduler/framework"

	"verif/harness/internal/sched"
	"verif/harness/internal/vh"
)

type eqQueue struct{ ID, Parent, Open, Mask, CPU, Mem, GPU int64 }
type eqJob struct {
	ID, Queue, Phase, HasMin, Mask, CPU, Mem, GPU, MinMember, NT, TCPU, TMem, TGPU, Running, Gated int64
}


func decEnqueue(in []int64) (kind int64, qs []eqQueue, js []eqJob) {
	t := &sched.Tok{T: in}
	kind = t.Next()
	t.List(func() {
		qs = append(qs, eqQueue{t.Next(), t.Next(), t.Next(), t.Next(), t.Next(), t.Next(), t.Next()})
	})
	t.List(func() {
		js = append(js, eqJob{t.Next(), t.Next(), t.Next(), t.Next(), t.Next(), t.Next(), t.Next(), t.Next(), t.Next(), t.Next(), t.Next(), t.Next(), t.Next(), t.Next(), t.Next()})
	})
	if t.I != len(in) {
		panic("enqueue case: trailing tokens")
	}
	return
}

func phaseKey(p string) int64 {
	switch p {
	case "Pending":
		return 1
	case "Running":
		return 3
	}
	return 2
}

func runEnqueueCase(in []int64) []int64 {
	kindTok, qs, js := decEnqueue(in)
	// kind + 10: the gate-reserved family: feature gate SchedulingGatesQueueAdmission on, every pending
	// pod without a scheduling gate carries the queue-allocation-gate annotation (it opted in, its gate
	// was removed in an earlier cycle), so it sits in the capacity plugin's reserved cache at session open
	kind, gateFamily := kindTok%10, kindTok >= 10
	if gateFamily {
		if err := utilfeature.DefaultMutableFeatureGate.Set(fmt.Sprintf("%s=true", features.SchedulingGatesQueueAdmission)); err != nil {
			panic(err)
		}
		defer utilfeature.DefaultMutableFeatureGate.Set(fmt.Sprintf("%s=false", features.SchedulingGatesQueueAdmission))
	}
	s := VSpec{Kind: kind, HasRoot: kind == kHier,
		Nodes: []sched.NodeSpec{{ID: 1, Has: true, CPU: 64000, Mem: 64 << 30, Pods: 500, GPU: 16}}}
	for _, q := range qs {
		st := int64(1)
		if q.Open == 0 {
			st = 2
		}
		s.Queues = append(s.Queues, VQueue{ID: q.ID, Parent: q.Parent, State: st, Weight: 1,
			Cap: RL{Mask: q.Mask & 7, CPU: q.CPU, Mem: q.Mem * mib, GPU: q.GPU}})
	}
	tid := int64(0)
	for _, j := range js {
		s.Jobs = append(s.Jobs, VJob{ID: j.ID, Queue: j.Queue, MinMember: j.MinMember, Phase: j.Phase, HasMin: j.HasMin != 0,
			// mask bit 3: minResources also list `pods` (= minMember)
			Min: RL{Mask: j.Mask & 15, CPU: j.CPU, Mem: j.Mem * mib, GPU: j.GPU, Pods: j.MinMember}})
		for i := int64(0); i < j.NT; i++ {
			tid++
			st := int64(sched.SPending)
			if i < j.Running {
				st = sched.SRunning
			}
			// the LAST `gated` pending pods of the job carry a scheduling gate
			gated := st == sched.SPending && i >= j.NT-j.Gated
			s.Tasks = append(s.Tasks, VTask{ID: tid, Job: j.ID, CPU: j.TCPU, Mem: j.TMem * mib, GPU: j.TGPU, Status: st, Gated: gated,
				Annot: gateFamily && st == sched.SPending && !gated})
		}
	}
	w := openVotes(s)
	defer framework.CloseSession(w.ssn)
	// everything the law sums is READ BACK from the session's JobInfo / TaskInfo objects (what the
	// plugins themselves iterate), not computed from the case tokens
	type seen struct{ an, alloc, gated, cand [3]int64 }
	vec := func(r *api.Resource) [3]int64 {
		return [3]int64{int64(r.MilliCPU), int64(r.Memory) / mib, int64(r.ScalarResources[sched.GPUName]) / 1000}
	}
	obs := map[int64]*seen{}
	votes := map[int64]int64{}
	avotes := map[int64]int64{}
	for _, j := range js {
		// the placement vote for the job's first pending pod that is not gated
		avotes[j.ID] = 2
		ji := w.ssn.Jobs[sched.JobID(j.ID)]
		o := &seen{}
		obs[j.ID] = o
		var cand *api.TaskInfo
		for _, t := range ji.Tasks {
			v := vec(t.Resreq)
			if api.AllocatedStatus(t.Status) {
				o.an[0]++
				for d := range v {
					o.alloc[d] += v[d]
				}
			}
			if t.SchGated && !api.HasOnlyVolcanoSchedulingGate(t.Pod) {
				for d := range v {
					o.gated[d] += v[d]
				}
			}
			if t.Status == api.Pending && !t.SchGated && (cand == nil || t.UID < cand.UID) {
				cand = t
			}
		}
		if cand != nil {
			o.cand = vec(cand.Resreq)
			avotes[j.ID] = vh.B(w.ssn.Allocatable(w.ssn.Queues[ji.Queue], cand))
		}
		votes[j.ID] = 2
		if j.Phase == 1 && j.HasMin != 0 {
			votes[j.ID] = vh.B(w.ssn.JobEnqueueable(w.ssn.Jobs[sched.JobID(j.ID)]))
		}
	}
	conf.EnabledActionMap = map[string]bool{"enqueue": true}
	act := enqueue.New()
	act.Initialize()
	act.Execute(w.ssn)
	act.UnInitialize()

	out := []int64{kindTok, int64(len(qs))}
	for _, q := range qs {
		out = append(out, q.ID, q.Parent, q.Open, q.Mask, q.CPU, q.Mem, q.GPU)
	}
	out = append(out, int64(len(js)))
	for _, j := range js {
		after := phaseKey(string(w.ssn.Jobs[sched.JobID(j.ID)].PodGroup.Status.Phase))
		o := obs[j.ID]
		// the token arithmetic of the generator must describe the same pods (a drift between
		// openVotes / TaskSpec.Pod() and the case encoding would otherwise go unnoticed)
		k := min(j.Running, j.NT)
		g := max(min(j.Gated, j.NT-k), 0)
		if o.an[0] != k || o.alloc != [3]int64{k * j.TCPU, k * j.TMem, k * j.TGPU} || o.gated != [3]int64{g * j.TCPU, g * j.TMem, g * j.TGPU} {
			panic(fmt.Sprintf("enqueue case: job %d: session objects %+v disagree with the case tokens", j.ID, *o))
		}
		out = append(out, j.ID, j.Queue, j.Phase, after, j.HasMin, j.Mask, j.CPU, j.Mem, j.GPU, j.MinMember, o.an[0], o.alloc[0], o.alloc[1], o.alloc[2], votes[j.ID],
			o.gated[0], o.gated[1], o.gated[2], avotes[j.ID], o.cand[0], o.cand[1], o.cand[2])
	}
	return out
}

func encEnqueue(kind int64, qs []eqQueue, js []eqJob) []int64 {
	out := []int64{kind, int64(len(qs))}
	for _, q := range qs {
		out = append(out, q.ID, q.Parent, q.Open, q.Mask, q.CPU, q.Mem, q.GPU)
	}
	out = append(out, int64(len(js)))
	for _, j := range js {
		out = append(out, j.ID, j.Queue, j.Phase, j.HasMin, j.Mask, j.CPU, j.Mem, j.GPU, j.MinMember, j.NT, j.TCPU, j.TMem, j.TGPU, j.Running, j.Gated)
	}
	return out
}

func genEnqueueCase(r *vh.Rng) []int64 {
	kind := int64(r.Range(1, 3))
	var qs []eqQueue
	var leaves, inner []int64
	capOf := func(q *eqQueue, p int) {
		if r.Chance(p, 4) {
			q.Mask |= 1
			q.CPU = int64(r.Range(2, 8)) * 1000
		}
		if r.Chance(1, 3) {
			q.Mask |= 2
			q.Mem = int64(r.Range(2, 8)) * 1024
		}
		if r.Chance(1, 4) {
			q.Mask |= 4
			q.GPU = int64(r.Range(1, 4))
		}
	}
	if kind == kHier {
		qs = append(qs, eqQueue{ID: 1, Open: 1})
		next := int64(2)
		for m := 0; m < r.Range(1, 2); m++ {
			mid := eqQueue{ID: next, Parent: 1, Open: 1}
			capOf(&mid, 3)
			next++
			qs = append(qs, mid)
			// sometimes all / some children of an inner queue are Closed and a job is submitted to the
			// inner queue itself: a queue with ANY child is not a leaf, whatever the children's state
			closedKids := r.Intn(6) // 0: all closed, 1: the first one closed
			if closedKids == 0 || closedKids == 1 {
				inner = append(inner, mid.ID)
			}
			for l := 0; l < r.Range(1, 2); l++ {
				leaf := eqQueue{ID: next, Parent: mid.ID, Open: vh.B(!r.Chance(1, 8))}
				if closedKids == 0 || (closedKids == 1 && l == 0) {
					leaf.Open = 0
				}
				capOf(&leaf, 1)
				next++
				qs = append(qs, leaf)
				leaves = append(leaves, leaf.ID)
			}
		}
	} else {
		for i := 1; i <= r.Range(1, 3); i++ {
			q := eqQueue{ID: int64(i), Open: vh.B(!r.Chance(1, 8))}
			capOf(&q, 3)
			qs = append(qs, q)
			leaves = append(leaves, q.ID)
		}
	}
	var js []eqJob
	for i := 1; i <= r.Range(2, 7); i++ {
		j := eqJob{ID: int64(i), Queue: vh.Pick(r, leaves), Phase: vh.Pick(r, []int64{1, 1, 1, 2, 2, 3}), MinMember: int64(r.Range(1, 3))}
		if len(inner) > 0 && r.Chance(1, 3) {
			j.Queue, j.Phase = vh.Pick(r, inner), 1 // a Pending PodGroup submitted to a queue that has children
		}
		if r.Chance(3, 4) {
			j.HasMin = 1
			j.Mask = vh.Pick(r, []int64{1, 1, 3, 5, 7, 2})
			j.CPU = int64(r.Range(1, 4)) * 1000
			j.Mem = int64(r.Range(1, 4)) * 1024
			j.GPU = int64(r.Range(1, 2))
		}
		// with / without pods; a Pending PodGroup's pods are pending, an admitted one's may run
		if r.Chance(1, 2) {
			j.NT = int64(r.Range(1, 3))
			j.TCPU = int64(r.Range(1, 2)) * 1000
			j.TMem = int64(r.Range(1, 2)) * 512
			if r.Chance(1, 4) {
				j.TGPU = 1
			}
			if j.Phase != 1 && r.Chance(3, 4) {
				j.Running = int64(r.Range(0, int(j.NT))) // 0 .. all of them: also fewer than minMember
			}
			if r.Chance(1, 3) {
				j.Gated = int64(r.Range(1, int(j.NT))) // some or all of the pending pods are scheduling-gated
			}
		}
		js = append(js, j)
	}
	// an admitted PodGroup whose minResources list scalars (gpu, pods) that its allocated pods lack
	if r.Chance(1, 4) {
		q := vh.Pick(r, leaves)
		for i := range qs {
			if qs[i].ID == q {
				qs[i].Mask |= 4
				qs[i].GPU = int64(r.Range(1, 3))
			}
		}
		nt := int64(r.Range(1, 3))
		js = append(js, eqJob{ID: int64(len(js) + 1), Queue: q, Phase: vh.Pick(r, []int64{2, 3}), HasMin: 1, Mask: vh.Pick(r, []int64{13, 15, 5, 12}),
			CPU: nt * 1000, Mem: nt * 512, GPU: int64(r.Range(1, 3)), MinMember: nt, NT: nt + int64(r.Range(0, 1)), TCPU: 1000, TMem: 512, Running: nt})
		js = append(js, eqJob{ID: int64(len(js) + 1), Queue: q, Phase: 1, HasMin: 1, Mask: 5, CPU: 1000, GPU: int64(r.Range(1, 2)), MinMember: 1})
	}
	if r.Chance(1, 5) {
		kind += 10 // the gate-reserved family
	}
	return encEnqueue(kind, qs, js)
}

// the shape of seeded C03-r9-1: capability gpu 2; an admitted PodGroup with minResources {cpu 1, gpu 2,
// pods 1} whose only allocated pod is cpu-only; a Pending PodGroup asking gpu 1
func enqueueScalarWitness(kind int64) []int64 {
	return encEnqueue(kind, []eqQueue{{ID: 1, Open: 1, Mask: 5, CPU: 8000, GPU: 2}},
		[]eqJob{{ID: 1, Queue: 1, Phase: 2, HasMin: 1, Mask: 13, CPU: 1000, GPU: 2, MinMember: 1, NT: 1, TCPU: 1000, TMem: 1, Running: 1},
			{ID: 2, Queue: 1, Phase: 1, HasMin: 1, Mask: 5, CPU: 1000, GPU: 1, MinMember: 1}})
}

// the shape of seeded C03-r9-2: gate on; capability cpu 2 used by a running pod; a Pending 1-cpu pod
// that opted in and whose gate was removed earlier (gate-reserved cache): Allocatable must be false
func enqueueGateReservedWitness() []int64 {
	return encEnqueue(10+kFlat, []eqQueue{{ID: 1, Open: 1, Mask: 1, CPU: 2000}},
		[]eqJob{{ID: 1, Queue: 1, Phase: 3, MinMember: 1, NT: 1, TCPU: 2000, TMem: 1, Running: 1},
			{ID: 2, Queue: 1, Phase: 2, MinMember: 1, NT: 1, TCPU: 1000, TMem: 1}})
}

// the shape of seeded mutant C03-2: capability 4 cpu, a PodGroup already Inqueue with
// minResources 3 cpu and no pods, a Pending PodGroup asking for 2 cpu
// the shape of seeded C03-r8-1: capability 4 cpu, 3 cpu admitted, a Pending PodGroup with
// minResources 2 cpu whose two 1-cpu pods are both scheduling-gated (deducted request = 0)
func enqueueGatedWitness(kind int64) []int64 {
	pend := eqJob{ID: 2, Queue: 1, Phase: 1, HasMin: 1, Mask: 1, CPU: 2000, MinMember: 1, NT: 2, TCPU: 1000, TMem: 1, Gated: 2}
	return encEnqueue(kind, []eqQueue{{ID: 1, Open: 1, Mask: 1, CPU: 4000}},
		[]eqJob{{ID: 1, Queue: 1, Phase: 2, HasMin: 1, Mask: 1, CPU: 3000, MinMember: 1}, pend})
}

// the shape of seeded C03-r8-2: an inner queue whose children are all Closed, a PodGroup (and its
// pending pod) submitted to the inner queue
func enqueueClosedChildrenWitness() []int64 {
	return encEnqueue(kHier, []eqQueue{{ID: 1, Open: 1}, {ID: 2, Parent: 1, Open: 1, Mask: 1, CPU: 8000}, {ID: 3, Parent: 2, Open: 0}, {ID: 4, Parent: 2, Open: 0}},
		[]eqJob{{ID: 1, Queue: 2, Phase: 1, HasMin: 1, Mask: 1, CPU: 1000, MinMember: 1, NT: 1, TCPU: 1000, TMem: 1}})
}

// audit E10: what an admitted PodGroup reserves is reduced by its scheduling-gated pods
// (DeductSchGatedResources): capability 4 cpu, an admitted PodGroup with minResources 3 cpu whose three
// pods are all gated reserves nothing, a Pending PodGroup with minResources 2 cpu IS admitted although
// 3 + 2 > 4 -- by design of the code, against the strict reading of the property text
func enqueueGatedStrictWitness(kind int64) []int64 {
	return encEnqueue(kind, []eqQueue{{ID: 1, Open: 1, Mask: 1, CPU: 4000}},
		[]eqJob{{ID: 1, Queue: 1, Phase: 2, HasMin: 1, Mask: 1, CPU: 3000, MinMember: 1, NT: 3, TCPU: 1000, TMem: 1, Gated: 3},
			{ID: 2, Queue: 1, Phase: 1, HasMin: 1, Mask: 1, CPU: 2000, MinMember: 1}})
}

func enqueueWitness(kind int64) []int64 {
	if kind == kHier {
		return encEnqueue(kind, []eqQueue{{ID: 1, Open: 1}, {ID: 2, Parent: 1, Open: 1, Mask: 1, CPU: 4000}, {ID: 3, Parent: 2, Open: 1}},
			[]eqJob{{ID: 1, Queue: 3, Phase: 2, HasMin: 1, Mask: 1, CPU: 3000, MinMember: 1}, {ID: 2, Queue: 3, Phase: 1, HasMin: 1, Mask: 1, CPU: 2000, MinMember: 1}})
	}
	return encEnqueue(kind, []eqQueue{{ID: 1, Open: 1, Mask: 1, CPU: 4000}},
		[]eqJob{{ID: 1, Queue: 1, Phase: 2, HasMin: 1, Mask: 1, CPU: 3000, MinMember: 1}, {ID: 2, Queue: 1, Phase: 1, HasMin: 1, Mask: 1, CPU: 2000, MinMember: 1}})
}
