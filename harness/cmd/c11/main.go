// C11 harness: the tier dispatch of the scheduler session (victim selection,
// boolean gates, permit/reject votes, lexicographic orderings), util.PriorityQueue
// and BuildVictimsPriorityQueue, run on the REAL volcano code.
//
// Every case opens a real framework.Session through framework.OpenSession on a
// mock scheduler cache; the tiers name synthetic plugins (built through
// framework.RegisterPluginBuilder) whose OnSessionOpen registers scripted
// answers with the exported Add*Fn methods.  No hook in /repo is needed.
package main

import (
	"errors"
	"fmt"
	"reflect"
	"strconv"
	"strings"
	"time"
	"unsafe"

	v1 "k8s.io/api/core/v1"
	metav1 "k8s.io/apimachinery/pkg/apis/meta/v1"

	"verif/harness/internal/vh"
	"volcano.sh/apis/pkg/apis/scheduling"
	schedulingv1beta1 "volcano.sh/apis/pkg/apis/scheduling/v1beta1"
	"volcano.sh/volcano/pkg/scheduler/api"
	"volcano.sh/volcano/pkg/scheduler/cache"
	"volcano.sh/volcano/pkg/scheduler/conf"
	"volcano.sh/volcano/pkg/scheduler/framework"
	"volcano.sh/volcano/pkg/scheduler/plugins/drf"
	"volcano.sh/volcano/pkg/scheduler/plugins/gang"
	"volcano.sh/volcano/pkg/scheduler/plugins/priority"
	"volcano.sh/volcano/pkg/scheduler/plugins/sla"
	"volcano.sh/volcano/pkg/scheduler/uthelper"
	"volcano.sh/volcano/pkg/scheduler/util"
)

// emitMixedIndexLaw: also evaluate the task-order law at FULL strength (no
// guard on pod indexes).  It fails on the unchanged tree for task sets that mix
// pod names with and without a numeric index (helpers.CompareTask is cyclic
// there, see docs/notes/C11.md); the coordinator turns it on together with a
// known-findings entry for the signature below.
const emitMixedIndexLaw = true
const sigMixedIndex = "C11/TaskOrderFn/CompareTask-mixed-pod-index-cycle"

// ---------------------------------------------------------------- tokens

type rd struct {
	t []int64
	i int
}

func (r *rd) z() int64 {
	if r.i >= len(r.t) {
		panic("harness: ran out of tokens")
	}
	v := r.t[r.i]
	r.i++
	return v
}
func (r *rd) b() bool { return r.z() != 0 }
func (r *rd) optZ() *int64 {
	if r.z() == 0 {
		return nil
	}
	v := r.z()
	return &v
}
func (r *rd) done() {
	if r.i != len(r.t) {
		panic("harness: trailing tokens")
	}
}

type slot[A any] struct {
	en  int64 // 0 nil, 1 *false, 2 *true
	reg bool
	ans A
}
type layout[A any] [][]slot[A]

func decLayout[A any](r *rd, dA func(*rd) A) layout[A] {
	nt := int(r.z())
	L := make(layout[A], nt)
	for i := range L {
		np := int(r.z())
		L[i] = make([]slot[A], np)
		for j := range L[i] {
			L[i][j] = slot[A]{en: r.z(), reg: r.b()}
			L[i][j].ans = dA(r)
		}
	}
	return L
}

func encLayout[A any](L layout[A], eA func(A) []int64) []int64 {
	out := []int64{int64(len(L))}
	for _, t := range L {
		out = append(out, int64(len(t)))
		for _, s := range t {
			out = append(out, s.en, vh.B(s.reg))
			out = append(out, eA(s.ans)...)
		}
	}
	return out
}

type vote struct {
	flag  int64
	cands []int64
}

func dVote(r *rd) vote {
	v := vote{flag: r.z()}
	n := int(r.z())
	for k := 0; k < n; k++ {
		v.cands = append(v.cands, r.z())
	}
	return v
}
func eVote(v vote) []int64 { return append([]int64{v.flag, int64(len(v.cands))}, v.cands...) }
func dB(r *rd) bool        { return r.b() }
func eB(b bool) []int64    { return []int64{vh.B(b)} }
func dZ(r *rd) int64       { return r.z() }
func eZ(z int64) []int64   { return []int64{z} }
func dOptZ(r *rd) *int64   { return r.optZ() }
func eOptZ(p *int64) []int64 {
	if p == nil {
		return []int64{0}
	}
	return []int64{1, *p}
}

type vres struct {
	pass bool
	code int64
}

func dOptVres(r *rd) *vres {
	if r.z() == 0 {
		return nil
	}
	return &vres{pass: r.b(), code: r.z()}
}
func eOptVres(p *vres) []int64 {
	if p == nil {
		return []int64{0}
	}
	return []int64{1, vh.B(p.pass), p.code}
}

func tag(i int64) []int64 { return []int64{-100 - i} }
func cat(xs ...[]int64) (o []int64) {
	o = []int64{}
	for _, x := range xs {
		o = append(o, x...)
	}
	return
}
func eList(l []int64) []int64 { return append([]int64{int64(len(l))}, l...) }

// ---------------------------------------------------------------- sessions

var mockCache *cache.SchedulerCache

// the script of the case being run: what each synthetic plugin registers
var curOpen map[string][]func(*framework.Session)

type synPlugin struct{ name string }

func (s *synPlugin) Name() string { return s.name }
func (s *synPlugin) OnSessionOpen(ssn *framework.Session) {
	for _, f := range curOpen[s.name] {
		f(ssn)
	}
}
func (s *synPlugin) OnSessionClose(*framework.Session) {}

const maxTiers, maxPlugins = 6, 6

func pname(i, j int) string { return fmt.Sprintf("syn-%d-%d", i, j) }

func registerBuilders() {
	for i := 0; i < maxTiers; i++ {
		for j := 0; j < maxPlugins; j++ {
			n := pname(i, j)
			framework.RegisterPluginBuilder(n, func(framework.Arguments) framework.Plugin { return &synPlugin{n} })
		}
	}
	framework.RegisterPluginBuilder(priority.PluginName, priority.New)
	framework.RegisterPluginBuilder(gang.PluginName, gang.New)
	framework.RegisterPluginBuilder(drf.PluginName, drf.New)
	framework.RegisterPluginBuilder(sla.PluginName, sla.New)
}

type sess struct {
	shape []int
	tiers []conf.Tier
	open  map[string][]func(*framework.Session)
}

func shapeOf[A any](L layout[A]) []int {
	s := make([]int, len(L))
	for i := range L {
		s[i] = len(L[i])
	}
	return s
}

func newSess(shape []int) *sess {
	if len(shape) > maxTiers {
		panic("harness: too many tiers")
	}
	s := &sess{shape: shape, open: map[string][]func(*framework.Session){}}
	for i, n := range shape {
		if n > maxPlugins {
			panic("harness: too many plugins in a tier")
		}
		t := conf.Tier{}
		for j := 0; j < n; j++ {
			t.Plugins = append(t.Plugins, conf.PluginOption{Name: pname(i, j)})
		}
		s.tiers = append(s.tiers, t)
	}
	return s
}

func enPtr(en int64) *bool {
	switch en {
	case 0:
		return nil
	case 1:
		f := false
		return &f
	case 2:
		t := true
		return &t
	}
	panic("harness: bad enable flag")
}

// use installs one layout: the enable pointer of the extension point and, for
// registered slots, the scripted function
func use[A any](s *sess, L layout[A], setEn func(o *conf.PluginOption, p *bool), reg func(ssn *framework.Session, name string, ans A)) {
	sh := shapeOf(L)
	if fmt.Sprint(sh) != fmt.Sprint(s.shape) {
		panic("harness: layouts of one case must have the same shape")
	}
	for i := range L {
		for j := range L[i] {
			sl := L[i][j]
			if setEn != nil {
				setEn(&s.tiers[i].Plugins[j], enPtr(sl.en))
			}
			if sl.reg {
				name := pname(i, j)
				s.open[name] = append(s.open[name], func(ssn *framework.Session) { reg(ssn, name, sl.ans) })
			}
		}
	}
}

func (s *sess) start() *framework.Session {
	curOpen = s.open
	return framework.OpenSession(mockCache, s.tiers, nil)
}

// ---------------------------------------------------------------- objects

func uidStr(u int64) string {
	if u < 0 || u > 999999 {
		panic("harness: uid out of range")
	}
	return fmt.Sprintf("u%06d", u)
}
func uidOf(s string) int64 {
	v, err := strconv.ParseInt(strings.TrimPrefix(s, "u"), 10, 64)
	if err != nil {
		panic("harness: not a harness uid: " + s)
	}
	return v
}
func uidsOf(ts []*api.TaskInfo) []int64 {
	out := []int64{}
	for _, t := range ts {
		out = append(out, uidOf(string(t.UID)))
	}
	return out
}
func mtime(sec int64) metav1.Time { return metav1.Time{Time: time.Unix(1700000000+sec, 0)} }

// fresh TaskInfo objects for every call: identity must go by UID, not by pointer
func freshTasks(uids []int64, emptyAsNil bool) []*api.TaskInfo {
	if len(uids) == 0 {
		if emptyAsNil {
			return nil
		}
		return []*api.TaskInfo{}
	}
	out := make([]*api.TaskInfo, 0, len(uids))
	for _, u := range uids {
		out = append(out, &api.TaskInfo{UID: api.TaskID(uidStr(u))})
	}
	return out
}

func checkVictims(v []*api.TaskInfo) []int64 {
	if v != nil && len(v) == 0 {
		panic("victim dispatch returned a non-nil empty slice (callers test victims != nil)")
	}
	return uidsOf(v)
}

// ---------------------------------------------------------------- sel 1: victims

type in1 struct{ rec, pre, uni layout[vote] }

func dec1(in []int64) in1 {
	r := &rd{t: in}
	x := in1{decLayout(r, dVote), decLayout(r, dVote), decLayout(r, dVote)}
	r.done()
	return x
}

func run1(in []int64) []int64 {
	x := dec1(in)
	s := newSess(shapeOf(x.rec))
	use(s, x.rec, func(o *conf.PluginOption, p *bool) { o.EnabledReclaimable = p }, func(ssn *framework.Session, n string, a vote) {
		ssn.AddReclaimableFn(n, func(*api.TaskInfo, []*api.TaskInfo) ([]*api.TaskInfo, int) {
			return freshTasks(a.cands, a.flag%2 == 0), int(a.flag)
		})
	})
	use(s, x.pre, func(o *conf.PluginOption, p *bool) { o.EnabledPreemptable = p }, func(ssn *framework.Session, n string, a vote) {
		ssn.AddPreemptableFn(n, func(*api.TaskInfo, []*api.TaskInfo) ([]*api.TaskInfo, int) {
			return freshTasks(a.cands, a.flag%2 == 0), int(a.flag)
		})
	})
	use(s, x.uni, nil, func(ssn *framework.Session, n string, a vote) {
		ssn.AddUnifiedEvictableFn(n, func(*api.EvictionContext, []*api.TaskInfo) ([]*api.TaskInfo, int) {
			return freshTasks(a.cands, a.flag%2 == 0), int(a.flag)
		})
	})
	ssn := s.start()
	me := &api.TaskInfo{UID: "me"}
	return cat(
		tag(1), eList(checkVictims(ssn.Reclaimable(me, nil))),
		tag(2), eList(checkVictims(ssn.Preemptable(me, nil))),
		tag(3), eList(checkVictims(ssn.UnifiedEvictable(&api.EvictionContext{}, nil))))
}

// ---------------------------------------------------------------- sel 2: gates

type in2 struct {
	jr, al, pv, ov, st layout[bool]
	hp                 bool
	sr                 layout[bool]
	va                 layout[*vres]
	pr, pp             layout[*int64]
}

func dec2(in []int64) in2 {
	r := &rd{t: in}
	x := in2{}
	x.jr, x.al, x.pv, x.ov, x.st = decLayout(r, dB), decLayout(r, dB), decLayout(r, dB), decLayout(r, dB), decLayout(r, dB)
	x.hp = r.b()
	x.sr = decLayout(r, dB)
	x.va = decLayout(r, dOptVres)
	x.pr, x.pp = decLayout(r, dOptZ), decLayout(r, dOptZ)
	r.done()
	return x
}

func errOf(p *int64) error {
	if p == nil {
		return nil
	}
	return errors.New("e" + strconv.FormatInt(*p, 10))
}
func encErr(e error) []int64 {
	if e == nil {
		return []int64{0}
	}
	v, err := strconv.ParseInt(strings.TrimPrefix(e.Error(), "e"), 10, 64)
	if err != nil {
		panic("harness: foreign error " + e.Error())
	}
	return []int64{1, v}
}

func jobWithPolicy(hp bool) *api.JobInfo {
	j := &api.JobInfo{UID: "job", PodGroup: &api.PodGroup{}}
	if hp {
		j.PodGroup.Spec.SubGroupPolicy = []scheduling.SubGroupPolicySpec{{Name: "g"}}
	}
	return j
}

func run2(in []int64) []int64 {
	x := dec2(in)
	for i := range x.pr {
		for j := range x.pr[i] {
			if x.pr[i][j].en != x.pp[i][j].en {
				panic("harness: PredicateFn and PrePredicateFn share one enable flag")
			}
		}
	}
	s := newSess(shapeOf(x.jr))
	use(s, x.jr, func(o *conf.PluginOption, p *bool) { o.EnabledJobReady = p }, func(ssn *framework.Session, n string, a bool) {
		ssn.AddJobReadyFn(n, func(interface{}) bool { return a })
	})
	use(s, x.al, func(o *conf.PluginOption, p *bool) { o.EnabledAllocatable = p }, func(ssn *framework.Session, n string, a bool) {
		ssn.AddAllocatableFn(n, func(*api.QueueInfo, *api.TaskInfo) bool { return a })
	})
	use(s, x.pv, func(o *conf.PluginOption, p *bool) { o.EnablePreemptive = p }, func(ssn *framework.Session, n string, a bool) {
		ssn.AddPreemptiveFn(n, func(interface{}, []*api.TaskInfo) bool { return a })
	})
	use(s, x.ov, func(o *conf.PluginOption, p *bool) { o.EnabledOverused = p }, func(ssn *framework.Session, n string, a bool) {
		ssn.AddOverusedFn(n, func(interface{}) bool { return a })
	})
	use(s, x.st, func(o *conf.PluginOption, p *bool) { o.EnabledJobStarving = p }, func(ssn *framework.Session, n string, a bool) {
		ssn.AddJobStarvingFns(n, func(interface{}) bool { return a })
	})
	use(s, x.sr, func(o *conf.PluginOption, p *bool) { o.EnabledSubJobReady = p }, func(ssn *framework.Session, n string, a bool) {
		ssn.AddSubJobReadyFn(n, func(interface{}) bool { return a })
	})
	use(s, x.va, nil, func(ssn *framework.Session, n string, a *vres) {
		ssn.AddJobValidFn(n, func(interface{}) *api.ValidateResult {
			if a == nil {
				return nil
			}
			return &api.ValidateResult{Pass: a.pass, Reason: strconv.FormatInt(a.code, 10)}
		})
	})
	use(s, x.pr, func(o *conf.PluginOption, p *bool) { o.EnabledPredicate = p }, func(ssn *framework.Session, n string, a *int64) {
		ssn.AddPredicateFn(n, func(*api.TaskInfo, *api.NodeInfo) error { return errOf(a) })
	})
	use(s, x.pp, nil, func(ssn *framework.Session, n string, a *int64) {
		ssn.AddPrePredicateFn(n, func(*api.TaskInfo) error { return errOf(a) })
	})
	ssn := s.start()
	job := jobWithPolicy(x.hp)
	q := &api.QueueInfo{UID: "q"}
	t := &api.TaskInfo{UID: "t"}
	var valid []int64
	if vr := ssn.JobValid(job); vr == nil {
		valid = []int64{0}
	} else {
		if vr.Pass {
			panic("JobValid returned a passing result")
		}
		c, _ := strconv.ParseInt(vr.Reason, 10, 64)
		valid = []int64{1, c}
	}
	return cat(
		tag(1), eB(ssn.JobReady(job)),
		tag(2), eB(ssn.Allocatable(q, t)),
		tag(3), eB(ssn.Preemptive(q, nil)),
		tag(4), eB(ssn.Overused(q)),
		tag(5), eB(ssn.JobStarving(job)),
		tag(6), eB(ssn.SubJobReady(job, &api.SubJobInfo{UID: "sj"})),
		tag(7), valid,
		tag(8), encErr(ssn.PredicateFn(t, &api.NodeInfo{Name: "n"})),
		tag(9), encErr(ssn.PrePredicateFn(t)))
}

// ---------------------------------------------------------------- sel 3: votes

type in3 struct {
	jp, je layout[int64]
	hp     bool
	sp     layout[int64]
}

func dec3(in []int64) in3 {
	r := &rd{t: in}
	x := in3{}
	x.jp, x.je = decLayout(r, dZ), decLayout(r, dZ)
	x.hp = r.b()
	x.sp = decLayout(r, dZ)
	r.done()
	return x
}

func run3(in []int64) []int64 {
	x := dec3(in)
	s := newSess(shapeOf(x.jp))
	use(s, x.jp, func(o *conf.PluginOption, p *bool) { o.EnabledJobPipelined = p }, func(ssn *framework.Session, n string, a int64) {
		ssn.AddJobPipelinedFn(n, func(interface{}) int { return int(a) })
	})
	use(s, x.je, func(o *conf.PluginOption, p *bool) { o.EnabledJobEnqueued = p }, func(ssn *framework.Session, n string, a int64) {
		ssn.AddJobEnqueueableFn(n, func(interface{}) int { return int(a) })
	})
	use(s, x.sp, func(o *conf.PluginOption, p *bool) { o.EnabledSubJobPipelined = p }, func(ssn *framework.Session, n string, a int64) {
		ssn.AddSubJobPipelinedFn(n, func(interface{}) int { return int(a) })
	})
	ssn := s.start()
	job := jobWithPolicy(x.hp)
	return cat(
		tag(1), eB(ssn.JobPipelined(job)),
		tag(2), eB(ssn.JobEnqueueable(job)),
		tag(3), eB(ssn.SubJobPipelined(job, &api.SubJobInfo{UID: "sj"})))
}

// ---------------------------------------------------------------- sel 4: orderings, scripted tables

type item struct {
	ctime, uid int64
	pidx       *int64
}

func decItems(r *rd) []item {
	n := int(r.z())
	its := make([]item, n)
	for i := range its {
		its[i] = item{ctime: r.z(), uid: r.z(), pidx: r.optZ()}
		if its[i].pidx != nil && *its[i].pidx < 0 {
			panic("harness: pod index must be >= 0")
		}
	}
	return its
}

type table []int64

func decTable(n int) func(*rd) table {
	return func(r *rd) table {
		t := make(table, n*n)
		for k := range t {
			t[k] = r.z()
		}
		return t
	}
}
func eTable(t table) []int64 { return t }

// pod name whose last "-" field is the index (or is not a number / absent)
func podName(it item) string {
	if it.pidx != nil {
		return fmt.Sprintf("job-task-%d", *it.pidx)
	}
	if it.uid%2 == 0 {
		return "job-task-x7z"
	}
	return "standalone"
}

func mkJob(it item) *api.JobInfo {
	return &api.JobInfo{UID: api.JobID(uidStr(it.uid)), CreationTimestamp: mtime(it.ctime)}
}
func mkTask(it item) *api.TaskInfo {
	return &api.TaskInfo{UID: api.TaskID(uidStr(it.uid)),
		Pod: &v1.Pod{ObjectMeta: metav1.ObjectMeta{Name: podName(it), CreationTimestamp: mtime(it.ctime)}}}
}
func mkQueue(it item) *api.QueueInfo {
	return &api.QueueInfo{UID: api.QueueID(uidStr(it.uid)),
		Queue: &scheduling.Queue{ObjectMeta: metav1.ObjectMeta{CreationTimestamp: mtime(it.ctime)}}}
}

type in4 struct {
	its            []item
	jt, tt, qt, vt layout[table]
}

func dec4(in []int64) in4 {
	r := &rd{t: in}
	x := in4{its: decItems(r)}
	d := decTable(len(x.its))
	x.jt, x.tt, x.qt, x.vt = decLayout(r, d), decLayout(r, d), decLayout(r, d), decLayout(r, d)
	r.done()
	return x
}

// scripted comparator over objects identified by pointer
func tblCmp(idx map[interface{}]int, n int, t table) api.CompareFn {
	return func(l, r interface{}) int {
		li, ok1 := idx[l]
		ri, ok2 := idx[r]
		if !ok1 || !ok2 {
			panic("harness: comparator called with a foreign object")
		}
		return int(t[li*n+ri])
	}
}

func matB(n int, f func(i, j int) bool) []int64 {
	out := make([]int64, 0, n*n)
	for i := 0; i < n; i++ {
		for j := 0; j < n; j++ {
			out = append(out, vh.B(f(i, j)))
		}
	}
	return out
}
func matZ(n int, f func(i, j int) int) []int64 {
	out := make([]int64, 0, n*n)
	for i := 0; i < n; i++ {
		for j := 0; j < n; j++ {
			out = append(out, int64(f(i, j)))
		}
	}
	return out
}

type out4 struct{ job, jobc, task, taskc, queue, vq []int64 }

func exec4(x in4) out4 {
	n := len(x.its)
	jobs, tasks, queues := make([]*api.JobInfo, n), make([]*api.TaskInfo, n), make([]*api.QueueInfo, n)
	idx := map[interface{}]int{}
	for i, it := range x.its {
		jobs[i], tasks[i], queues[i] = mkJob(it), mkTask(it), mkQueue(it)
		idx[jobs[i]], idx[tasks[i]], idx[queues[i]] = i, i, i
	}
	s := newSess(shapeOf(x.jt))
	use(s, x.jt, func(o *conf.PluginOption, p *bool) { o.EnabledJobOrder = p }, func(ssn *framework.Session, nm string, a table) {
		ssn.AddJobOrderFn(nm, tblCmp(idx, n, a))
	})
	use(s, x.tt, func(o *conf.PluginOption, p *bool) { o.EnabledTaskOrder = p }, func(ssn *framework.Session, nm string, a table) {
		ssn.AddTaskOrderFn(nm, tblCmp(idx, n, a))
	})
	use(s, x.qt, func(o *conf.PluginOption, p *bool) { o.EnabledQueueOrder = p }, func(ssn *framework.Session, nm string, a table) {
		ssn.AddQueueOrderFn(nm, tblCmp(idx, n, a))
	})
	pq := &api.QueueInfo{UID: "preemptor-queue"}
	use(s, x.vt, nil, func(ssn *framework.Session, nm string, a table) {
		c := tblCmp(idx, n, a)
		ssn.AddVictimQueueOrderFn(nm, func(l, r, p interface{}) int {
			if p != interface{}(pq) {
				panic("victim comparator did not receive the preemptor queue")
			}
			return c(l, r)
		})
	})
	ssn := s.start()
	return out4{
		job:   matB(n, func(i, j int) bool { return ssn.JobOrderFn(jobs[i], jobs[j]) }),
		jobc:  matZ(n, func(i, j int) int { return ssn.JobOrderCompareFn(jobs[i], jobs[j]) }),
		task:  matB(n, func(i, j int) bool { return ssn.TaskOrderFn(tasks[i], tasks[j]) }),
		taskc: matZ(n, func(i, j int) int { return ssn.TaskCompareFns(tasks[i], tasks[j]) }),
		queue: matB(n, func(i, j int) bool { return ssn.QueueOrderFn(queues[i], queues[j]) }),
		vq:    matB(n, func(i, j int) bool { return ssn.VictimQueueOrderFn(queues[i], queues[j], pq) }),
	}
}

func run4(in []int64) []int64 {
	o := exec4(dec4(in))
	return cat(tag(1), o.job, tag(2), o.jobc, tag(3), o.task, tag(4), o.taskc, tag(5), o.queue, tag(6), o.vq)
}

func encItems(its []item) []int64 {
	out := []int64{int64(len(its))}
	for _, it := range its {
		out = append(out, it.ctime, it.uid)
		out = append(out, eOptZ(it.pidx)...)
	}
	return out
}

// ---------------------------------------------------------------- sel 5: the shipped plugins' comparators

type kitem struct {
	item
	prio     int64
	ready    bool
	share    int64
	deadline *int64
}

type in5 struct {
	role  int64
	ks    []kitem
	kinds layout[int64]
}

var kindName = map[int64]string{1: priority.PluginName, 2: gang.PluginName, 3: drf.PluginName, 4: sla.PluginName}

func decKItems(r *rd) []kitem {
	n := int(r.z())
	ks := make([]kitem, n)
	for i := range ks {
		ks[i].item = item{ctime: r.z(), uid: r.z(), pidx: r.optZ()}
		ks[i].prio, ks[i].ready, ks[i].share, ks[i].deadline = r.z(), r.b(), r.z(), r.optZ()
	}
	return ks
}

func dec5(in []int64) in5 {
	r := &rd{t: in}
	x := in5{role: r.z()}
	x.ks = decKItems(r)
	x.kinds = decLayout(r, dZ)
	r.done()
	return x
}

// real tiers for a layout of plugin kinds; setEn selects the enable flag of the role
func realTiers(kinds layout[int64], setEn func(o *conf.PluginOption, p *bool)) []conf.Tier {
	var tiers []conf.Tier
	for i, t := range kinds {
		tier := conf.Tier{}
		for j, sl := range t {
			name, ok := kindName[sl.ans]
			if !sl.reg || !ok {
				name = fmt.Sprintf("absent-%d-%d", i, j) // no builder: nothing is registered under this name
			}
			o := conf.PluginOption{Name: name}
			setEn(&o, enPtr(sl.en))
			tier.Plugins = append(tier.Plugins, o)
		}
		tiers = append(tiers, tier)
	}
	return tiers
}

func checkInt32(v int64) int32 {
	if v < -(1<<31) || v > (1<<31)-1 {
		panic("harness: priority outside int32")
	}
	return int32(v)
}

// matrix of the session order function on all ordered pairs, and the pop order
// (positions) of a util.PriorityQueue built on it after pushing the objects in
// the given order
func matAndPops(objs []interface{}, less api.LessFn) ([]int64, []int64) {
	n := len(objs)
	m := matB(n, func(a, b int) bool { return less(objs[a], objs[b]) })
	pos := map[interface{}]int64{}
	q := util.NewPriorityQueue(less)
	for i, o := range objs {
		pos[o] = int64(i)
		q.Push(o)
	}
	pops := []int64{}
	for !q.Empty() {
		pops = append(pops, pos[q.Pop()])
	}
	if len(pops) != n {
		panic("the priority queue lost or duplicated an element")
	}
	return m, pops
}

// exec5 realises every key vector as a real object, opens a session with the
// REAL plugins named by the layout and returns the order matrix and the pop
// order.  The keys the comparators read are read back from the real objects
// and must be the keys of the case.
//
//	role 0, jobs through ssn.JobOrderFn: podgroup + pods on a node in a real
//	  cache; priority -> PriorityClass value; share -> number of running 1-cpu
//	  pods (drf share = allocated cpu / node cpu, monotone in it; the node has
//	  exactly the cpu in use, so a single job with running pods has share 1);
//	  ready -> minMember = running (ready) or running+1; deadline -> sla-waiting-time
//	role 2, tasks through ssn.TaskOrderFn: api.NewTaskInfo of a pod with
//	  Spec.Priority, name with / without numeric index
//	role 3, sub-jobs through ssn.SubJobOrderFn: SubJobInfo{Priority, MatchIndex
//	  (in the ctime field), MinAvailable 0 (ready) / 1 (not ready)}
func exec5(x in5) ([]int64, []int64) {
	n := len(x.ks)
	objs := make([]interface{}, n)
	switch x.role {
	case 0:
		tc := &uthelper.TestCommonStruct{Name: "c11"}
		// the node has exactly the cpu in use (a single job with running pods has
		// share 1) - unless some share key is not a whole cpu: then the case is a
		// NEAR-TIE one and the node has 10^7 milli-cpu, so that jobs holding k, k+7,
		// k+14 milli-cpu have drf shares within 10^-6 of their neighbours (the node's pod
		// capacity is 10^12 so that the pod count never is the dominant share)
		total, whole := int64(0), true
		for _, k := range x.ks {
			if k.share < 0 {
				panic("harness: negative share key")
			}
			total += k.share
			whole = whole && k.share%1000 == 0
		}
		if total == 0 {
			total = 1000
		}
		if !whole {
			total = 10000000
		}
		tc.Nodes = []*v1.Node{util.BuildNode("n1", api.BuildResourceList(fmt.Sprintf("%dm", total), "1000Gi", []api.ScalarResource{{Name: "pods", Value: "1000000000000"}}...), nil)}
		tc.Queues = []*schedulingv1beta1.Queue{util.BuildQueue("q1", 1, nil)}
		seenPrio := map[int64]bool{}
		for _, k := range x.ks {
			// the job's running pods hold k.share milli-cpu in total: whole cpus as
			// 1-cpu pods, a remainder as one more pod
			podCPU := []int64{}
			for c := int64(0); c < k.share/1000; c++ {
				podCPU = append(podCPU, 1000)
			}
			if k.share%1000 != 0 {
				podCPU = append(podCPU, k.share%1000)
			}
			running := int64(len(podCPU))
			minAvail := running
			if !k.ready {
				minAvail = running + 1
			}
			pgName := "pg-" + uidStr(k.uid)
			pcName := fmt.Sprintf("pc-%d", k.prio)
			if !seenPrio[k.prio] {
				seenPrio[k.prio] = true
				tc.PriClass = append(tc.PriClass, util.BuildPriorityClass(pcName, checkInt32(k.prio)))
			}
			pg := util.BuildPodGroupWithPrio(pgName, "ns", "q1", int32(minAvail), nil, schedulingv1beta1.PodGroupInqueue, pcName)
			pg.CreationTimestamp = mtime(k.ctime)
			if k.deadline != nil {
				if *k.deadline <= k.ctime {
					panic("harness: deadline must lie after the creation time")
				}
				pg.Annotations = map[string]string{"sla-waiting-time": fmt.Sprintf("%ds", *k.deadline-k.ctime)}
			}
			tc.PodGroups = append(tc.PodGroups, pg)
			for p := int64(0); p < running; p++ {
				tc.Pods = append(tc.Pods, util.BuildPod("ns", fmt.Sprintf("%s-w-%d", pgName, p), "n1", v1.PodRunning,
					api.BuildResourceList(fmt.Sprintf("%dm", podCPU[p]), "0"), pgName, nil, nil))
			}
			// one pending pod so that every job has something left to schedule
			tc.Pods = append(tc.Pods, util.BuildPod("ns", fmt.Sprintf("%s-w-%d", pgName, running), "", v1.PodPending,
				api.BuildResourceList("1", "0"), pgName, nil, nil))
		}
		ssn := tc.RegisterSession(realTiers(x.kinds, func(o *conf.PluginOption, p *bool) { o.EnabledJobOrder = p }), nil)
		for i, k := range x.ks {
			j := ssn.Jobs[api.JobID("ns/pg-"+uidStr(k.uid))]
			if j == nil {
				panic("harness: job not in session")
			}
			objs[i] = j
			var dl *int64
			if j.WaitingTime != nil {
				d := j.CreationTimestamp.Unix() - mtime(0).Unix() + int64(*j.WaitingTime/time.Second)
				dl = &d
			}
			gotKeys := fmt.Sprint(j.CreationTimestamp.Unix()-mtime(0).Unix(), j.Priority, j.IsReady(), int64(j.Allocated.MilliCPU), eOptZ(dl))
			wantKeys := fmt.Sprint(k.ctime, k.prio, k.ready, k.share, eOptZ(k.deadline))
			if gotKeys != wantKeys {
				panic("harness: the real job does not carry the keys of the case: got " + gotKeys + " want " + wantKeys)
			}
		}
		m, pops := matAndPops(objs, ssn.JobOrderFn)
		framework.CloseSession(ssn)
		return m, pops
	case 2:
		ssn := framework.OpenSession(mockCache, realTiers(x.kinds, func(o *conf.PluginOption, p *bool) { o.EnabledTaskOrder = p }), nil)
		for i, k := range x.ks {
			name := "job-" + uidStr(k.uid) + "-x7z"
			if k.pidx != nil {
				if *k.pidx < 0 {
					panic("harness: pod index must be >= 0")
				}
				name = fmt.Sprintf("job-%s-%d", uidStr(k.uid), *k.pidx)
			}
			pr := checkInt32(k.prio)
			pod := util.BuildPodWithPriority("ns", name, "", v1.PodPending, api.BuildResourceList("1", "0"), "pg", nil, nil, &pr)
			pod.UID = "u-placeholder"
			pod.CreationTimestamp = mtime(k.ctime)
			ti := api.NewTaskInfo(pod)
			ti.UID = api.TaskID(uidStr(k.uid))
			if int64(ti.Priority) != k.prio || k.ready || k.share != 0 || k.deadline != nil {
				panic("harness: the real task does not carry the keys of the case")
			}
			objs[i] = ti
		}
		m, pops := matAndPops(objs, ssn.TaskOrderFn)
		framework.CloseSession(ssn)
		return m, pops
	case 3:
		ssn := framework.OpenSession(mockCache, realTiers(x.kinds, func(o *conf.PluginOption, p *bool) { o.EnabledSubJobOrder = p }), nil)
		for i, k := range x.ks {
			sj := &api.SubJobInfo{UID: api.SubJobID(uidStr(k.uid)), MatchIndex: int(k.ctime), Priority: checkInt32(k.prio)}
			if !k.ready {
				sj.MinAvailable = 1
			}
			if sj.IsReady() != k.ready || k.share != 0 || k.deadline != nil || k.pidx != nil {
				panic("harness: the real sub-job does not carry the keys of the case")
			}
			objs[i] = sj
		}
		m, pops := matAndPops(objs, ssn.SubJobOrderFn)
		framework.CloseSession(ssn)
		return m, pops
	}
	panic("harness: unknown role")
}

func encKItems(ks []kitem) []int64 {
	out := []int64{int64(len(ks))}
	for _, k := range ks {
		out = append(out, k.ctime, k.uid)
		out = append(out, eOptZ(k.pidx)...)
		out = append(out, k.prio, vh.B(k.ready), k.share)
		out = append(out, eOptZ(k.deadline)...)
	}
	return out
}

// ---------------------------------------------------------------- sel 7: util.PriorityQueue

func heapLess(mode int64) api.LessFn {
	return func(l, r interface{}) bool {
		a, b := l.(int64)/16, r.(int64)/16
		switch mode {
		case 0:
			return a < b
		case 1:
			return a <= b
		}
		return b < a
	}
}

// the less function of a util.PriorityQueue (unexported field)
func queueLess(q *util.PriorityQueue) api.LessFn {
	f := reflect.ValueOf(q).Elem().FieldByName("queue").FieldByName("lessFn")
	return reflect.NewAt(f.Type(), unsafe.Pointer(f.UnsafeAddr())).Elem().Interface().(api.LessFn)
}

// the backing slice is unexported; read it through reflection (no hook)
func heapItems(q *util.PriorityQueue) []int64 {
	items := reflect.ValueOf(q).Elem().FieldByName("queue").FieldByName("items")
	out := make([]int64, items.Len())
	for i := range out {
		out[i] = items.Index(i).Elem().Int()
	}
	return out
}

type hop struct {
	push bool
	x    int64
}
type hstep struct {
	before []int64
	op     hop
	ret    *int64
	after  []int64
}

func dec7(in []int64) (int64, []hop) {
	r := &rd{t: in}
	mode := r.z()
	n := int(r.z())
	ops := make([]hop, n)
	for i := range ops {
		if r.z() != 0 {
			ops[i] = hop{true, r.z()}
			if ops[i].x < 0 {
				panic("harness: heap elements are >= 0")
			}
		}
	}
	r.done()
	return mode, ops
}

func exec7(mode int64, ops []hop) []hstep {
	q := util.NewPriorityQueue(heapLess(mode))
	steps := []hstep{}
	for _, o := range ops {
		st := hstep{before: heapItems(q), op: o}
		if o.push {
			q.Push(o.x)
		} else {
			wasEmpty := q.Empty()
			v := q.Pop()
			if (v == nil) != wasEmpty {
				panic("Pop returned nil on a non-empty queue or a value on an empty one")
			}
			if v != nil {
				x := v.(int64)
				st.ret = &x
			}
		}
		st.after = heapItems(q)
		if q.Len() != len(st.after) {
			panic("Len disagrees with the backing slice")
		}
		steps = append(steps, st)
	}
	return steps
}

func run7(in []int64) []int64 {
	mode, ops := dec7(in)
	out := []int64{}
	for _, st := range exec7(mode, ops) {
		if st.op.push {
			out = append(out, 0)
		} else {
			out = append(out, eOptZ(st.ret)...)
		}
		out = append(out, eList(st.after)...)
	}
	return out
}

// ---------------------------------------------------------------- sel 8: BuildVictimsPriorityQueue

type vtask struct {
	item
	job int64
}
type vjob struct {
	ctime, uid, queue int64
}
type in8 struct {
	tasks          []vtask
	jobs           []vjob
	queues         []item
	pre            int64
	tt, jt, qt, vt layout[table]
}

func dec8r(r *rd) in8 {
	x := in8{}
	n := int(r.z())
	for i := 0; i < n; i++ {
		t := vtask{item: item{ctime: r.z(), uid: r.z(), pidx: r.optZ()}}
		t.job = r.z()
		x.tasks = append(x.tasks, t)
	}
	n = int(r.z())
	for i := 0; i < n; i++ {
		x.jobs = append(x.jobs, vjob{r.z(), r.z(), r.z()})
	}
	n = int(r.z())
	for i := 0; i < n; i++ {
		x.queues = append(x.queues, item{ctime: r.z(), uid: r.z()})
	}
	x.pre = r.z()
	x.tt = decLayout(r, decTable(len(x.tasks)))
	x.jt = decLayout(r, decTable(len(x.jobs)))
	x.qt = decLayout(r, decTable(len(x.queues)))
	x.vt = decLayout(r, decTable(len(x.queues)))
	return x
}

func jobKey(k int64) api.JobID     { return api.JobID(fmt.Sprintf("job-%03d", k)) }
func queueKey(k int64) api.QueueID { return api.QueueID(fmt.Sprintf("queue-%03d", k)) }

func run8(in []int64) []int64 {
	r := &rd{t: in}
	x := dec8r(r)
	r.done()
	idx := map[interface{}]int{}
	tasks := make([]*api.TaskInfo, len(x.tasks))
	for i, t := range x.tasks {
		tasks[i] = mkTask(t.item)
		tasks[i].Job = jobKey(t.job)
		idx[tasks[i]] = i
	}
	jobs := map[api.JobID]*api.JobInfo{}
	for i, j := range x.jobs {
		ji := mkJob(item{ctime: j.ctime, uid: j.uid})
		ji.Queue = queueKey(j.queue)
		jobs[jobKey(int64(i))] = ji
		idx[ji] = i
		if j.queue < 0 || int(j.queue) >= len(x.queues) {
			panic("harness: a victim job names a queue the session does not have (outside the model)")
		}
	}
	queues := map[api.QueueID]*api.QueueInfo{}
	for i, q := range x.queues {
		qi := mkQueue(q)
		queues[queueKey(int64(i))] = qi
		idx[qi] = i
	}
	s := newSess(shapeOf(x.tt))
	use(s, x.tt, func(o *conf.PluginOption, p *bool) { o.EnabledTaskOrder = p }, func(ssn *framework.Session, nm string, a table) {
		ssn.AddTaskOrderFn(nm, tblCmp(idx, len(x.tasks), a))
	})
	use(s, x.jt, func(o *conf.PluginOption, p *bool) { o.EnabledJobOrder = p }, func(ssn *framework.Session, nm string, a table) {
		ssn.AddJobOrderFn(nm, tblCmp(idx, len(x.jobs), a))
	})
	use(s, x.qt, func(o *conf.PluginOption, p *bool) { o.EnabledQueueOrder = p }, func(ssn *framework.Session, nm string, a table) {
		ssn.AddQueueOrderFn(nm, tblCmp(idx, len(x.queues), a))
	})
	use(s, x.vt, nil, func(ssn *framework.Session, nm string, a table) {
		c := tblCmp(idx, len(x.queues), a)
		ssn.AddVictimQueueOrderFn(nm, func(l, r, _ interface{}) int { return c(l, r) })
	})
	ssn := s.start()
	ssn.Jobs = jobs
	ssn.Queues = queues
	pq := ssn.BuildVictimsPriorityQueue(tasks, &api.TaskInfo{UID: "preemptor", Job: jobKey(x.pre)})
	out := []int64{}
	for !pq.Empty() {
		out = append(out, uidOf(string(pq.Pop().(*api.TaskInfo).UID)))
	}
	if len(out) != len(tasks) {
		panic("the victims queue lost or duplicated a task")
	}
	// the less function of the victims queue itself, on EVERY ordered pair
	// including the diagonal (less(t, t) is true in the real code: the same-job
	// branch answers !TaskOrderFn(t, t)); the closure sits in an unexported field
	// and is read through reflect + unsafe (read-only)
	less := queueLess(ssn.BuildVictimsPriorityQueue(nil, &api.TaskInfo{UID: "preemptor", Job: jobKey(x.pre)}))
	lm := matB(len(tasks), func(a, b int) bool { return less(tasks[a], tasks[b]) })
	return cat(tag(1), eList(out), tag(2), lm)
}

// ---------------------------------------------------------------- Run / Laws

func run(sel int, in []int64) []int64 {
	switch sel {
	case 1:
		return run1(in)
	case 2:
		return run2(in)
	case 3:
		return run3(in)
	case 4:
		return run4(in)
	case 5:
		m, pops := exec5(dec5(in))
		return cat(tag(1), m, tag(2), eList(pops))
	case 6:
		return run6(in)
	case 7:
		return run7(in)
	case 8:
		return run8(in)
	}
	panic("unknown selector")
}

func laws(sel int, in, got []int64, law func(lsel int, lin []int64, sig string)) {
	switch sel {
	case 1:
		x := dec1(in)
		r := &rd{t: got}
		rdList := func() []int64 {
			r.z() // tag
			n := int(r.z())
			l := make([]int64, n)
			for i := range l {
				l[i] = r.z()
			}
			return l
		}
		law(101, cat(encLayout(x.rec, eVote), []int64{0}, eList(rdList())), "")
		law(101, cat(encLayout(x.pre, eVote), []int64{0}, eList(rdList())), "")
		law(101, cat(encLayout(x.uni, eVote), []int64{1}, eList(rdList())), "")
	case 2:
		x := dec2(in)
		// got: tag b tag b tag b tag b tag b tag b tag opt tag opt tag opt
		g := func(k int) int64 { return got[2*k+1] }
		law(102, cat([]int64{0}, encLayout(x.jr, eB), []int64{g(0)}), "")
		law(102, cat([]int64{0}, encLayout(x.al, eB), []int64{g(1)}), "")
		law(102, cat([]int64{0}, encLayout(x.pv, eB), []int64{g(2)}), "")
		law(102, cat([]int64{1}, encLayout(x.ov, eB), []int64{g(3)}), "")
		law(102, cat([]int64{2}, encLayout(x.st, eB), []int64{g(4)}), "")
		if x.hp {
			law(102, cat([]int64{0}, encLayout(x.sr, eB), []int64{g(5)}), "")
		} else {
			law(102, cat([]int64{0}, encLayout(x.jr, eB), []int64{g(5)}), "")
		}
		r := &rd{t: got, i: 12}
		r.z()
		law(112, cat(encLayout(x.va, eOptVres), eOptZ(r.optZ())), "")
		r.z()
		law(113, cat(encLayout(x.pr, eOptZ), eOptZ(r.optZ())), "")
		r.z()
		law(113, cat(encLayout(x.pp, eOptZ), eOptZ(r.optZ())), "")
	case 3:
		x := dec3(in)
		law(103, cat(encLayout(x.jp, eZ), []int64{got[1]}), "")
		law(103, cat(encLayout(x.je, eZ), []int64{got[3]}), "")
		if x.hp {
			law(103, cat(encLayout(x.sp, eZ), []int64{got[5]}), "")
		} else {
			law(103, cat(encLayout(x.jp, eZ), []int64{got[5]}), "")
		}
	case 4:
		x := dec4(in)
		o := exec4(x)
		its := encItems(x.its)
		law(104, cat([]int64{0}, its, encLayout(x.jt, eTable), o.job), "")
		law(104, cat([]int64{2}, its, encLayout(x.tt, eTable), o.task), "")
		law(104, cat([]int64{0}, its, encLayout(x.qt, eTable), o.queue), "")
		law(106, cat(its, encLayout(x.vt, eTable), encLayout(x.qt, eTable), o.vq), "")
		if emitMixedIndexLaw {
			// 114 (asymmetry, totality) is never signed.  124 (negative transitivity)
			// carries the CompareTask signature only if EVERY violating triple of the
			// implementation's own TaskOrderFn matrix contains an indexed / un-indexed pair
			law(114, cat(its, encLayout(x.tt, eTable), o.task), "")
			n := len(x.its)
			mixed := map[[2]int]bool{}
			for i, a := range x.its {
				for j, b := range x.its {
					if (a.pidx == nil) != (b.pidx == nil) {
						mixed[[2]int{i, j}] = true
					}
				}
			}
			sig := ""
			if len(mixed) > 0 && explainedBy(negtransViolations(n, o.task), mixed) {
				sig = sigMixedIndex
			}
			law(124, cat(its, encLayout(x.tt, eTable), o.task), sig)
		}
	case 5:
		law(105, cat(in, got[1:]), "")
	case 6:
		laws6(in, got, law)
	case 7:
		mode, ops := dec7(in)
		for _, st := range exec7(mode, ops) {
			op := []int64{0}
			if st.op.push {
				op = []int64{1, st.op.x}
			}
			law(107, cat([]int64{mode}, eList(st.before), op, eOptZ(st.ret), eList(st.after)), "")
		}
	case 8:
		law(108, cat(in, got[1:]), "")
	}
}

// ---------------------------------------------------------------- generators

func genShape(r *vh.Rng) []int {
	nt := vh.Pick(r, []int{0, 1, 1, 1, 2, 2, 2, 3, 3, 4})
	sh := make([]int, nt)
	for i := range sh {
		sh[i] = vh.Pick(r, []int{0, 1, 1, 2, 2, 2, 3, 3, 3, 4})
	}
	return sh
}

func genLayout[A any](r *vh.Rng, sh []int, gA func(*vh.Rng) A) layout[A] {
	L := make(layout[A], len(sh))
	for i, n := range sh {
		L[i] = make([]slot[A], n)
		for j := range L[i] {
			L[i][j] = slot[A]{en: int64(vh.Pick(r, []int{0, 1, 2, 2, 2, 2, 2, 2})), reg: !r.Chance(1, 6), ans: gA(r)}
		}
	}
	return L
}

func activeCount[A any](L layout[A]) (n int, maxTier int) {
	for _, t := range L {
		k := 0
		for _, s := range t {
			if s.en == 2 && s.reg {
				k++
			}
		}
		n += k
		if k > maxTier {
			maxTier = k
		}
	}
	return
}

func genVote(universe int) func(*vh.Rng) vote {
	return func(r *vh.Rng) vote {
		v := vote{flag: int64(vh.Pick(r, []int{0, 1, 1, 1, 1, 1, 1, 1, -1, 2}))}
		switch r.Intn(10) {
		case 0: // empty answer
		case 1: // everything
			for u := 1; u <= universe; u++ {
				v.cands = append(v.cands, int64(u))
			}
		default:
			for u := 1; u <= universe; u++ {
				if r.Chance(3, 5) {
					v.cands = append(v.cands, int64(u))
				}
			}
			if r.Chance(1, 8) && len(v.cands) > 0 { // a duplicate
				v.cands = append(v.cands, v.cands[r.Intn(len(v.cands))])
			}
			if r.Chance(1, 3) { // order is the plugin's business
				for i := len(v.cands) - 1; i > 0; i-- {
					j := r.Intn(i + 1)
					v.cands[i], v.cands[j] = v.cands[j], v.cands[i]
				}
			}
		}
		return v
	}
}

func genBool(p int) func(*vh.Rng) bool { return func(r *vh.Rng) bool { return r.Chance(p, 10) } }
func genVoteZ(r *vh.Rng) int64         { return int64(vh.Pick(r, []int{0, 0, 0, 1, 1, -1, 2, -3})) }
func genOptErr(r *vh.Rng) *int64 {
	if r.Chance(7, 10) {
		return nil
	}
	v := int64(r.Range(1, 9))
	return &v
}
func genOptVres(r *vh.Rng) *vres {
	switch r.Intn(5) {
	case 0, 1:
		return nil
	case 2:
		return &vres{pass: true, code: int64(r.Range(1, 9))}
	}
	return &vres{pass: false, code: int64(r.Range(1, 9))}
}

func genItems(r *vh.Rng, n int, kind int) []item {
	its := make([]item, n)
	perm := []int64{}
	for i := 0; i < n; i++ {
		perm = append(perm, int64(i+1))
	}
	for i := n - 1; i > 0; i-- {
		j := r.Intn(i + 1)
		perm[i], perm[j] = perm[j], perm[i]
	}
	for i := range its {
		its[i] = item{ctime: int64(r.Range(0, 2)), uid: perm[i] * int64(vh.Pick(r, []int{1, 1, 7, 100}))}
		// kind 0: all indexed, 1: none, 2: mixed
		withIdx := kind == 0 || (kind == 2 && r.Chance(1, 2))
		if withIdx {
			v := int64(r.Range(0, 3))
			its[i].pidx = &v
		}
	}
	// uids stay distinct: perm is a permutation and the factor is per item; fix collisions
	seen := map[int64]bool{}
	for i := range its {
		for seen[its[i].uid] {
			its[i].uid += 1000
		}
		seen[its[i].uid] = true
	}
	return its
}

// key-induced (valid) comparator or an arbitrary table
func genTable(n int) func(*vh.Rng) table {
	return func(r *vh.Rng) table {
		t := make(table, n*n)
		switch r.Intn(10) {
		case 0, 1: // arbitrary
			for k := range t {
				t[k] = int64(r.Range(-2, 2))
			}
		case 2: // all equal
		default:
			keys := make([]int64, n)
			for i := range keys {
				keys[i] = int64(r.Range(0, 2))
			}
			diff := r.Chance(1, 3)
			for i := 0; i < n; i++ {
				for j := 0; j < n; j++ {
					d := keys[i] - keys[j]
					if !diff {
						if d < 0 {
							d = -1
						} else if d > 0 {
							d = 1
						}
					}
					t[i*n+j] = d
				}
			}
		}
		return t
	}
}

func gen(rng *vh.Rng, n int, emit func(id string, sel int, in []int64, kind string, nontrivial bool, desc any)) {
	// (a) victims: one tier, three voters, every combination of subsets of {1,2,3}
	// as candidate lists (512 cases, includes {1},{2},{3}); all enabled & registered
	sub := func(m int) []int64 {
		l := []int64{}
		for u := 0; u < 3; u++ {
			if m&(1<<u) != 0 {
				l = append(l, int64(u+1))
			}
		}
		return l
	}
	k := 0
	for a := 0; a < 8; a++ {
		for b := 0; b < 8; b++ {
			for c := 0; c < 8; c++ {
				L := layout[vote]{{{2, true, vote{1, sub(a)}}, {2, true, vote{1, sub(b)}}, {2, true, vote{1, sub(c)}}}}
				in := cat(encLayout(L, eVote), encLayout(L, eVote), encLayout(L, eVote))
				emit(fmt.Sprintf("victims-1x3-%d", k), 1, in, "victims/exhaustive-1tier-3voters", true, nil)
				k++
			}
		}
	}
	// (b) victims: random layouts
	r := rng.Fork()
	for i := 0; i < n; i++ {
		sh := genShape(r)
		uni := r.Range(2, 5)
		a, b, c := genLayout(r, sh, genVote(uni)), genLayout(r, sh, genVote(uni)), genLayout(r, sh, genVote(uni))
		_, m1 := activeCount(a)
		_, m2 := activeCount(b)
		emit(fmt.Sprintf("victims-%d", i), 1, cat(encLayout(a, eVote), encLayout(b, eVote), encLayout(c, eVote)),
			"victims/random", m1 >= 2 || m2 >= 2, nil)
	}
	// (c) gates
	r = rng.Fork()
	for i := 0; i < n/2+1; i++ {
		sh := genShape(r)
		p := vh.Pick(r, []int{5, 8, 9})
		jr, al, pv := genLayout(r, sh, genBool(p)), genLayout(r, sh, genBool(p)), genLayout(r, sh, genBool(p))
		ov, st := genLayout(r, sh, genBool(10-p)), genLayout(r, sh, genBool(p))
		sr := genLayout(r, sh, genBool(p))
		va := genLayout(r, sh, genOptVres)
		pr, pp := genLayout(r, sh, genOptErr), genLayout(r, sh, genOptErr)
		for a := range pp {
			for b := range pp[a] {
				pp[a][b].en = pr[a][b].en
			}
		}
		hp := r.Chance(1, 2)
		c1, _ := activeCount(jr)
		c2, _ := activeCount(st)
		in := cat(encLayout(jr, eB), encLayout(al, eB), encLayout(pv, eB), encLayout(ov, eB), encLayout(st, eB),
			eB(hp), encLayout(sr, eB), encLayout(va, eOptVres), encLayout(pr, eOptZ), encLayout(pp, eOptZ))
		emit(fmt.Sprintf("gates-%d", i), 2, in, "gates/random", c1 >= 2 && c2 >= 1, nil)
	}
	// (d) votes
	r = rng.Fork()
	for i := 0; i < n/2+1; i++ {
		sh := genShape(r)
		jp, je, sp := genLayout(r, sh, genVoteZ), genLayout(r, sh, genVoteZ), genLayout(r, sh, genVoteZ)
		c1, _ := activeCount(jp)
		in := cat(encLayout(jp, eZ), encLayout(je, eZ), eB(r.Chance(1, 2)), encLayout(sp, eZ))
		emit(fmt.Sprintf("votes-%d", i), 3, in, "votes/random", c1 >= 2, nil)
	}
	// (e) orderings with scripted tables
	r = rng.Fork()
	for i := 0; i < n/3+1; i++ {
		sh := genShape(r)
		ni := vh.Pick(r, []int{0, 1, 2, 3, 3, 3, 4, 4})
		kind := vh.Pick(r, []int{0, 0, 1, 2})
		its := genItems(r, ni, kind)
		g := genTable(ni)
		jt, tt, qt, vt := genLayout(r, sh, g), genLayout(r, sh, g), genLayout(r, sh, g), genLayout(r, sh, g)
		c1, _ := activeCount(jt)
		in := cat(encItems(its), encLayout(jt, eTable), encLayout(tt, eTable), encLayout(qt, eTable), encLayout(vt, eTable))
		emit(fmt.Sprintf("orders-%d", i), 4, in, []string{"orders/pod-index-all", "orders/pod-index-none", "orders/pod-index-mixed"}[kind],
			ni >= 3 && c1 >= 1, nil)
	}
	// (f) the shipped plugins' comparators on real jobs / tasks / sub-jobs, keys
	// biased to the boundaries: int32 extremes, pairs exactly and more than 2^31
	// apart, system-critical and negative priority classes, shares 0 / whole node
	// / equal, deadlines absent / equal, gang both ready / neither
	r = rng.Fork()
	// a role-0 case builds a scheduler cache of its own (informers stay alive): bounded
	nReal := n/12 + 2
	if nReal > 1500 {
		nReal = 1500
	}
	prioEdge := []int64{0, 0, 1, -1, 5, 10, 1<<31 - 1, -(1 << 31), 1<<31 - 2, -(1 << 31) + 1, 2000001000, 2000000000,
		1000000000, -1500000000, -2000000000, 147483648, 147483647, -147483648, 1 << 30, -(1 << 30)}
	genPrio := func(base []int64) int64 {
		switch r.Intn(8) {
		case 0:
			return int64(r.Range(-3, 12))
		case 1, 2:
			if len(base) > 0 { // exactly 2^31 - 1, 2^31 or 2^31 + 1 away from an earlier key, or equal to it
				v := base[r.Intn(len(base))] + int64(vh.Pick(r, []int{0, 1, -1}))*((1<<31)+int64(r.Range(-1, 1)))
				if v >= -(1<<31) && v <= (1<<31)-1 {
					return v
				}
			}
		}
		return vh.Pick(r, prioEdge)
	}
	genKs := func(role int64) []kitem {
		nj := vh.Pick(r, []int{2, 3, 3, 3, 4, 4, 5})
		ks := []kitem{}
		prios := []int64{}
		sameReady, readyAll := r.Chance(1, 4), r.Chance(1, 2)
		sameShare, shareAll := r.Chance(1, 4), int64(r.Range(0, 2))*1000
		pidxKind := vh.Pick(r, []int{0, 0, 1})
		for j := 0; j < nj; j++ {
			k := kitem{item: item{ctime: int64(r.Range(0, 2)), uid: int64(j + 1 + 10*r.Intn(3))}}
			k.prio = genPrio(prios)
			prios = append(prios, k.prio)
			if role != 2 {
				k.ready = r.Chance(1, 2)
				if sameReady {
					k.ready = readyAll
				}
			}
			if role == 0 {
				k.share = int64(vh.Pick(r, []int{0, 0, 1, 1, 2, 3})) * 1000
				if sameShare {
					k.share = shareAll
				}
				if r.Chance(1, 2) {
					d := k.ctime + int64(vh.Pick(r, []int{1, 2, 3, 60}))
					if r.Chance(1, 3) { // equal deadlines from different creation times
						d = 3
					}
					k.deadline = &d
				}
			}
			if role == 2 && pidxKind == 0 {
				v := int64(r.Range(0, 2))
				k.pidx = &v
			}
			ks = append(ks, k)
		}
		return ks
	}
	for i := 0; i < nReal; i++ {
		ks := genKs(0)
		kinds := genLayout(r, genShape(r), func(r *vh.Rng) int64 { return int64(vh.Pick(r, []int{1, 1, 1, 2, 3, 4})) })
		c1, _ := activeCount(kinds)
		in := cat([]int64{0}, encKItems(ks), encLayout(kinds, eZ))
		emit(fmt.Sprintf("realcmp-job-%d", i), 5, in, "orders/shipped-plugins-jobs", len(ks) >= 3 && c1 >= 1, nil)
	}
	// near ties of the drf share: jobs holding k, k+7, k+14, (k+21) milli-cpu of a
	// 10^7 milli-cpu node (shares 7*10^-7 apart), creation times / UIDs running the
	// opposite way, everything else equal - an "equal within a tolerance" comparator
	// is intransitive exactly here
	for i := 0; i < nReal/2+2; i++ {
		nj := vh.Pick(r, []int{3, 3, 4})
		k0 := int64(r.Range(1, 9))
		step := int64(vh.Pick(r, []int{7, 7, 7, 1, 9}))
		ks := []kitem{}
		allReady := r.Chance(1, 2)
		for j := 0; j < nj; j++ {
			k := kitem{item: item{ctime: int64(2 - j), uid: int64(40 - j)}, share: k0 + step*int64(j), ready: allReady}
			if k.ctime < 0 {
				k.ctime = 0
			}
			if r.Chance(1, 6) {
				k.ctime = int64(r.Range(0, 2))
			}
			ks = append(ks, k)
		}
		if r.Chance(1, 2) { // push order is part of the pop-order observable
			for a := len(ks) - 1; a > 0; a-- {
				b := r.Intn(a + 1)
				ks[a], ks[b] = ks[b], ks[a]
			}
		}
		var kinds layout[int64]
		if r.Chance(2, 3) {
			kinds = layout[int64]{{{2, true, 3}}} // drf alone
		} else {
			kinds = genLayout(r, genShape(r), func(r *vh.Rng) int64 { return int64(vh.Pick(r, []int{3, 3, 3, 1, 2, 4})) })
		}
		in := cat([]int64{0}, encKItems(ks), encLayout(kinds, eZ))
		emit(fmt.Sprintf("realcmp-neartie-%d", i), 5, in, "orders/shipped-plugins-jobs-drf-near-ties", true, nil)
	}
	for i := 0; i < n/6+2; i++ {
		role := int64(vh.Pick(r, []int{2, 3}))
		ks := genKs(role)
		kinds := genLayout(r, genShape(r), func(r *vh.Rng) int64 { return int64(vh.Pick(r, []int{1, 1, 1, 1, 2, 2, 3, 4})) })
		c1, _ := activeCount(kinds)
		in := cat([]int64{role}, encKItems(ks), encLayout(kinds, eZ))
		kind := "orders/shipped-plugins-tasks"
		if role == 3 {
			kind = "orders/shipped-plugins-subjobs"
		}
		emit(fmt.Sprintf("realcmp-r%d-%d", role, i), 5, in, kind, len(ks) >= 3 && c1 >= 1, nil)
	}
	// (f2) QueueOrderFn / VictimQueueOrderFn of the real proportion, capacity and drf plugins
	gen6(rng.Fork(), n/8+2, emit)
	// (g) priority queue histories
	r = rng.Fork()
	for i := 0; i < n/3+1; i++ {
		mode := int64(vh.Pick(r, []int{0, 0, 0, 2, 2, 1}))
		m := r.Range(0, 14)
		in := []int64{mode, int64(m)}
		pops := 0
		pPush := vh.Pick(r, []int{5, 6, 8})
		for j := 0; j < m; j++ {
			if r.Chance(pPush, 10) {
				in = append(in, 1, int64(r.Range(0, 4)*16+r.Intn(16)))
			} else {
				in = append(in, 0)
				pops++
			}
		}
		emit(fmt.Sprintf("heap-%d", i), 7, in, fmt.Sprintf("heap/history-less-mode-%d", mode), m >= 4 && pops >= 1, nil)
	}
	// (h) BuildVictimsPriorityQueue
	r = rng.Fork()
	for i := 0; i < n/4+1; i++ {
		nq := r.Range(1, 3)
		nj := r.Range(0, 4)
		nt := r.Range(0, 6)
		kind := vh.Pick(r, []int{0, 0, 1})
		tits := genItems(r, nt, kind)
		orphanBias := vh.Pick(r, []int{0, 1, 1, 2, 3, 4}) // 4: every victim is an orphan
		in := []int64{int64(nt)}
		for _, t := range tits {
			in = append(in, t.ctime, t.uid)
			in = append(in, eOptZ(t.pidx)...)
			// job: mostly present; an index >= nj names a job that is not in
			// ssn.Jobs (PodGroup deleted after the snapshot).  Up to three
			// DIFFERENT missing jobs, so that orphan/orphan pairs of one missing
			// job and of two missing jobs both occur
			switch {
			case orphanBias == 0:
				in = append(in, int64(r.Intn(nj+1)))
			case r.Chance(orphanBias, 4):
				in = append(in, int64(nj+r.Intn(3)))
			default:
				in = append(in, int64(r.Intn(nj+3)))
			}
		}
		in = append(in, int64(nj))
		jits := genItems(r, nj, 1)
		for _, j := range jits {
			in = append(in, j.ctime, j.uid, int64(r.Intn(nq)))
		}
		in = append(in, int64(nq))
		for _, q := range genItems(r, nq, 1) {
			in = append(in, q.ctime, q.uid)
		}
		in = append(in, int64(r.Intn(nj+2))) // preemptor job, sometimes missing
		sh := genShape(r)
		in = append(in, encLayout(genLayout(r, sh, genTable(nt)), eTable)...)
		in = append(in, encLayout(genLayout(r, sh, genTable(nj)), eTable)...)
		in = append(in, encLayout(genLayout(r, sh, genTable(nq)), eTable)...)
		in = append(in, encLayout(genLayout(r, sh, genTable(nq)), eTable)...)
		emit(fmt.Sprintf("victimsq-%d", i), 8, in, "victims-queue/random", nt >= 3 && nj >= 2, nil)
	}
}

func main() {
	mockCache = cache.NewDefaultMockSchedulerCache("c11")
	registerBuilders()
	vh.Harness{Run: run, Laws: laws, Gen: gen}.Main()
}
