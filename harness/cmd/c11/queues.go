// Selector 6: QueueOrderFn / VictimQueueOrderFn of the REAL proportion, capacity
// (flat and hierarchical) and drf (hdrf) plugins.
//
// A case carries (a) the keys the comparators read - priority, leaf flag,
// ancestor chain, per-node (share rank, flag) - which is all the model sees, and
// (b) the realisation: queues (tree, deserved / weight), running pods.  The
// generator builds the real world once, reads the keys from the plugin through
// the verif hooks (capacity.VerifNew / VerifHierarchy, proportion.VerifNew,
// drf.VerifNew) and writes them into the case; Run rebuilds the world from the
// realisation, checks that the plugin still reports exactly those keys and
// evaluates the session order functions on all ordered pairs.  How shares are
// computed is C12's business; that the ORDER follows the keys is checked here.
package main

import (
	"fmt"
	"sort"
	"strings"

	v1 "k8s.io/api/core/v1"
	"k8s.io/apimachinery/pkg/api/resource"
	metav1 "k8s.io/apimachinery/pkg/apis/meta/v1"
	"k8s.io/apimachinery/pkg/types"
	"k8s.io/apimachinery/pkg/util/sets"
	"k8s.io/client-go/tools/record"

	"verif/harness/internal/vh"
	"volcano.sh/apis/pkg/apis/scheduling"
	"volcano.sh/volcano/pkg/scheduler/api"
	"volcano.sh/volcano/pkg/scheduler/cache"
	"volcano.sh/volcano/pkg/scheduler/conf"
	"volcano.sh/volcano/pkg/scheduler/framework"
	"volcano.sh/volcano/pkg/scheduler/plugins/capacity"
	"volcano.sh/volcano/pkg/scheduler/plugins/drf"
	"volcano.sh/volcano/pkg/scheduler/plugins/proportion"
)

const (
	sigCapacityHier = "C11/capacity-hierarchical-QueueOrderFn-subtree-ties-not-weak-order"
	sigHdrfDepth    = "C11/drf-hdrf-compareQueues-unequal-depth-not-weak-order"
)

// a cache whose snapshot is the hand-built cluster of the case
type snapCache struct {
	*cache.SchedulerCache
	snap *api.ClusterInfo
}

func (c *snapCache) Snapshot() *api.ClusterInfo { return c.snap }
func (c *snapCache) OnSessionOpen()             {}
func (c *snapCache) OnSessionClose()            {}

var snapMock *cache.SchedulerCache

// realisation of one queue
type rq struct {
	ctime, uid, prio int64
	parent           int64 // index of the parent queue, -1 = child of the root (ignored by the flat plugins)
	par              int64 // capacity: deserved cpus (0 = none); proportion / hdrf: weight
	alloc            int64 // running 1-cpu pods (leaf queues only); +8 = no pending pod besides them (the job is fully allocated: hdrf 'saturated'); >= 100000 = ONE running pod of that many milli-cpu (near-tie family)
}

// keys of one compared queue, as the model reads them
type qkeys struct {
	ctime, uid, prio int64
	leaf             bool
	anc              []int64
	nodes            [][2]int64 // (share rank, flag)
}

type in6 struct {
	pk, en, pre int64
	keys        []qkeys
	pos         int64
	qs          []rq
}

func dec6(in []int64) in6 {
	r := &rd{t: in}
	x := in6{pk: r.z(), en: r.z(), pre: r.z()}
	n := int(r.z())
	for i := 0; i < n; i++ {
		k := qkeys{ctime: r.z(), uid: r.z(), prio: r.z(), leaf: r.b()}
		na := int(r.z())
		for j := 0; j < na; j++ {
			k.anc = append(k.anc, r.z())
		}
		nn := int(r.z())
		for j := 0; j < nn; j++ {
			k.nodes = append(k.nodes, [2]int64{r.z(), r.z()})
		}
		x.keys = append(x.keys, k)
	}
	nr := int(r.z())
	end := r.i + nr
	x.pos = r.z()
	nq := int(r.z())
	for i := 0; i < nq; i++ {
		x.qs = append(x.qs, rq{r.z(), r.z(), r.z(), r.z(), r.z(), r.z()})
	}
	if r.i != end {
		panic("harness: realisation length")
	}
	r.done()
	return x
}

func enc6(x in6) []int64 {
	out := []int64{x.pk, x.en, x.pre, int64(len(x.keys))}
	for _, k := range x.keys {
		out = append(out, k.ctime, k.uid, k.prio, vh.B(k.leaf), int64(len(k.anc)))
		out = append(out, k.anc...)
		out = append(out, int64(len(k.nodes)))
		for _, n := range k.nodes {
			out = append(out, n[0], n[1])
		}
	}
	real := []int64{x.pos, int64(len(x.qs))}
	for _, q := range x.qs {
		real = append(real, q.ctime, q.uid, q.prio, q.parent, q.par, q.alloc)
	}
	out = append(out, int64(len(real)))
	return append(out, real...)
}

func hasChild(qs []rq, i int) bool {
	for _, q := range qs {
		if q.parent == int64(i) {
			return true
		}
	}
	return false
}

// which queues are compared: all of them, except that for hdrf the inner
// nodes of the tree are only path segments, not queues
func compared(pk int64, qs []rq) []int {
	out := []int{}
	for i := range qs {
		if pk == 8 && hasChild(qs, i) {
			continue
		}
		out = append(out, i)
	}
	return out
}

// milli-cpu of the running pods of a queue, and whether a pending 1-cpu pod follows
func runPods(q rq) ([]int64, bool) {
	if q.alloc >= 100000 {
		return []int64{q.alloc}, true
	}
	pods := []int64{}
	for p := int64(0); p < q.alloc%8; p++ {
		pods = append(pods, 1000)
	}
	return pods, q.alloc < 8
}

func milliList(m int64) v1.ResourceList {
	return v1.ResourceList{v1.ResourceCPU: *resource.NewMilliQuantity(m, resource.DecimalSI)}
}

func qname(q rq) string { return uidStr(q.uid) } // QueueInfo.UID is the queue NAME: the tie-break compares it

type world6 struct {
	ssn    *framework.Session
	queues []*api.QueueInfo // by realisation index (nil for hdrf inner nodes)
	keys   func() []qkeys
}

func cpuList(cpus int64) v1.ResourceList {
	return v1.ResourceList{v1.ResourceCPU: *resource.NewMilliQuantity(cpus*1000, resource.DecimalSI)}
}

func build6(pk, en, pos int64, qs []rq) *world6 {
	hier := pk == 7
	isQueue := map[int]bool{}
	for _, i := range compared(pk, qs) {
		isQueue[i] = true
	}
	snap := &api.ClusterInfo{
		Jobs: map[api.JobID]*api.JobInfo{}, Nodes: map[string]*api.NodeInfo{},
		Queues: map[api.QueueID]*api.QueueInfo{}, NamespaceInfo: map[api.NamespaceName]*api.NamespaceInfo{},
		RevocableNodes: map[string]*api.NodeInfo{},
		HyperNodes:     api.HyperNodeInfoMap{}, HyperNodesSetByTier: map[int]sets.Set[string]{},
		RealNodesSet: map[string]sets.Set[string]{}, HyperNodeTierNameMap: api.HyperNodeTierNameMap{},
		CSINodesStatus: map[string]*api.CSINodeStatusInfo{},
	}
	// hdrf path of a tree node
	var hpath, hweights func(i int) (string, string)
	hpath = func(i int) (string, string) {
		w := qs[i].par
		if w < 1 {
			w = 1
		}
		ws := fmt.Sprintf("%d", w)
		if qs[i].parent < 0 {
			return "root/" + qname(qs[i]), "1/" + ws
		}
		p, pw := hpath(int(qs[i].parent))
		return p + "/" + qname(qs[i]), pw + "/" + ws
	}
	_ = hweights
	w := &world6{queues: make([]*api.QueueInfo, len(qs))}
	if hier {
		root := &scheduling.Queue{ObjectMeta: metav1.ObjectMeta{Name: "root", UID: "root"},
			Spec: scheduling.QueueSpec{Weight: 1}, Status: scheduling.QueueStatus{State: scheduling.QueueStateOpen}}
		snap.Queues["root"] = api.NewQueueInfo(root)
	}
	total := int64(4000)
	if pos >= 3 { // ample node: nobody contends, proportion's deserved is exactly the request
		total += 2000 * int64(len(qs))
		pos -= 3
	}
	for i, q := range qs {
		rp, _ := runPods(q)
		for _, m := range rp {
			total += m
		}
		if !isQueue[i] {
			continue
		}
		qo := &scheduling.Queue{
			ObjectMeta: metav1.ObjectMeta{Name: qname(q), UID: types.UID(qname(q)), CreationTimestamp: mtime(q.ctime), Annotations: map[string]string{}},
			Spec:       scheduling.QueueSpec{Weight: 1, Priority: checkInt32(q.prio)},
			Status:     scheduling.QueueStatus{State: scheduling.QueueStateOpen},
		}
		switch pk {
		case 5:
			if q.par >= 1 {
				qo.Spec.Weight = int32(q.par)
			}
		case 6, 7:
			if q.par > 0 {
				qo.Spec.Deserved = cpuList(q.par)
			}
			if hier {
				qo.Spec.Parent = "root"
				if q.parent >= 0 {
					qo.Spec.Parent = qname(qs[q.parent])
				}
			}
		case 8:
			h, hw := hpath(i)
			qo.Annotations["volcano.sh/hierarchy"] = h
			qo.Annotations["volcano.sh/hierarchy-weights"] = hw
		}
		qi := api.NewQueueInfo(qo)
		snap.Queues[qi.UID] = qi
		w.queues[i] = qi
	}
	node := &v1.Node{ObjectMeta: metav1.ObjectMeta{Name: "n1"},
		Status: v1.NodeStatus{Capacity: milliList(total), Allocatable: milliList(total)}}
	node.Status.Allocatable[v1.ResourcePods] = *resource.NewQuantity(1000, resource.DecimalSI)
	node.Status.Capacity[v1.ResourcePods] = *resource.NewQuantity(1000, resource.DecimalSI)
	ni := api.NewNodeInfo(node)
	for i, q := range qs {
		// jobs live in leaf queues only (the hierarchical capacity plugin refuses others)
		if !isQueue[i] || (hier && hasChild(qs, i)) {
			if q.alloc != 0 {
				panic("harness: pods in a non-leaf queue")
			}
			continue
		}
		jn := "j-" + qname(q)
		ji := api.NewJobInfo(api.JobID("ns/" + jn))
		ji.SetPodGroup(&api.PodGroup{PodGroup: scheduling.PodGroup{
			ObjectMeta: metav1.ObjectMeta{Name: jn, Namespace: "ns", UID: types.UID(jn)},
			Spec:       scheduling.PodGroupSpec{MinMember: 1, Queue: qname(q), MinTaskMember: map[string]int32{}},
			Status:     scheduling.PodGroupStatus{Phase: scheduling.PodGroupRunning},
		}})
		rp, pending := runPods(q)
		running, npods := int64(len(rp)), int64(len(rp))
		if pending {
			npods++
		}
		for p := int64(0); p < npods; p++ {
			pn := fmt.Sprintf("%s-w-%d", jn, p)
			req := cpuList(1)
			if p < running {
				req = milliList(rp[p])
			}
			pod := &v1.Pod{
				ObjectMeta: metav1.ObjectMeta{Name: pn, Namespace: "ns", UID: types.UID(pn),
					Annotations: map[string]string{"scheduling.k8s.io/group-name": jn}},
				Spec:   v1.PodSpec{Containers: []v1.Container{{Name: "c", Resources: v1.ResourceRequirements{Requests: req}}}},
				Status: v1.PodStatus{Phase: v1.PodPending},
			}
			if p < running { // the last pod (if any) stays pending
				pod.Spec.NodeName = "n1"
				pod.Status.Phase = v1.PodRunning
			}
			ti := api.NewTaskInfo(pod)
			ji.AddTaskInfo(ti)
			if p < running {
				if err := ni.AddTask(ti); err != nil {
					panic(err)
				}
			}
		}
		snap.Jobs[ji.UID] = ji
	}
	snap.Nodes["n1"] = ni
	snap.NodeList = []string{"n1"}

	if snapMock == nil {
		snapMock = cache.NewDefaultMockSchedulerCache("c11q")
		snapMock.Recorder = &record.FakeRecorder{}
	}
	var capSnap func() capacity.VerifSnapshot
	var capPlugin framework.Plugin
	var propSnap func() proportion.VerifSnapshot
	var drfSnap func() map[string]drf.VerifNode
	pluginName := map[int64]string{5: proportion.PluginName, 6: capacity.PluginName, 7: capacity.PluginName, 8: "drf-hook"}[pk]
	switch pk {
	case 5:
		framework.RegisterPluginBuilder(pluginName, func(a framework.Arguments) framework.Plugin {
			p, f := proportion.VerifNew(a)
			propSnap = f
			return p
		})
	case 6, 7:
		framework.RegisterPluginBuilder(pluginName, func(a framework.Arguments) framework.Plugin {
			p, f := capacity.VerifNew(a)
			capSnap, capPlugin = f, p
			return p
		})
	case 8:
		// the option must carry the plugin's own name ("drf"): HierarchyEnabled looks it up
		pluginName = drf.PluginName
		framework.RegisterPluginBuilder(pluginName, func(a framework.Arguments) framework.Plugin {
			p, f := drf.VerifNew(a)
			drfSnap = f
			return p
		})
	}
	yes := true
	o := conf.PluginOption{Name: pluginName, EnabledQueueOrder: enPtr(en), EnabledJobOrder: &yes}
	if pk == 7 || pk == 8 {
		o.EnabledHierarchy = &yes
	}
	var tiers []conf.Tier
	switch pos {
	case 0:
		tiers = []conf.Tier{{Plugins: []conf.PluginOption{o}}}
	case 1:
		tiers = []conf.Tier{{Plugins: []conf.PluginOption{{Name: "absent-a", EnabledQueueOrder: &yes}, o}}}
	default:
		tiers = []conf.Tier{{Plugins: []conf.PluginOption{{Name: "absent-a", EnabledQueueOrder: &yes}}}, {Plugins: []conf.PluginOption{o}}}
	}
	w.ssn = framework.OpenSession(&snapCache{SchedulerCache: snapMock, snap: snap}, tiers, nil)
	if pk == 8 {
		// restore the plain builder for the other streams
		framework.RegisterPluginBuilder(drf.PluginName, drf.New)
	}

	// ---- the keys, read from the plugin
	idOf := map[string]int64{"root": 0}
	for i, q := range qs {
		idOf[qname(q)] = int64(i + 1)
	}
	w.keys = func() []qkeys {
		type fl struct {
			v    float64
			flag bool
		}
		raw := [][]fl{}
		ks := []qkeys{}
		for _, i := range compared(pk, qs) {
			q := qs[i]
			k := qkeys{ctime: q.ctime, uid: q.uid, prio: q.prio, leaf: true}
			nodes := []fl{}
			switch pk {
			case 5:
				rec, ok := propSnap().Queues[api.QueueID(qname(q))]
				if !ok {
					panic("harness: proportion holds no record for a queue with a job")
				}
				nodes = append(nodes, fl{rec.Share, true})
			case 6:
				rec, ok := capSnap().Queues[api.QueueID(qname(q))]
				if !ok {
					panic("harness: capacity holds no record for the queue")
				}
				nodes = append(nodes, fl{rec.Share, !rec.Deserved.IsEmpty()})
			case 7:
				s := capSnap()
				h, ok := capacity.VerifHierarchy(capPlugin)[api.QueueID(qname(q))]
				if !ok {
					panic("harness: capacity refused the hierarchy")
				}
				k.leaf = h.Children == 0
				for _, a := range h.Ancestors {
					k.anc = append(k.anc, idOf[string(a)])
					rec := s.Queues[a]
					nodes = append(nodes, fl{rec.Share, !rec.Deserved.IsEmpty()})
				}
				rec := s.Queues[api.QueueID(qname(q))]
				nodes = append(nodes, fl{rec.Share, !rec.Deserved.IsEmpty()})
			case 8:
				tree := drfSnap()
				path, _ := hpath(i)
				segs := strings.Split(path, "/")
				for d := 1; d <= len(segs); d++ {
					n, ok := tree[strings.Join(segs[:d], "/")]
					if !ok {
						panic("harness: hdrf tree has no node " + strings.Join(segs[:d], "/"))
					}
					nodes = append(nodes, fl{n.Share / n.Weight, n.Saturated})
				}
			}
			raw = append(raw, nodes)
			ks = append(ks, k)
		}
		// shares -> dense ranks (the comparators only test == and <)
		vals := []float64{}
		for _, ns := range raw {
			for _, n := range ns {
				if n.v != n.v {
					panic("harness: NaN share")
				}
				vals = append(vals, n.v)
			}
		}
		sort.Float64s(vals)
		rank := func(v float64) int64 {
			r := int64(0)
			for i, x := range vals {
				if i > 0 && x != vals[i-1] {
					r++
				}
				if x == v {
					return r
				}
			}
			panic("unreachable")
		}
		for i, ns := range raw {
			for _, n := range ns {
				ks[i].nodes = append(ks[i].nodes, [2]int64{rank(n.v), vh.B(n.flag)})
			}
		}
		return ks
	}
	return w
}

type out6 struct{ m, vm, pops []int64 }

func exec6(x in6) out6 {
	// proportion (and hdrf's scaled sums) add float64 values in map order: under contention the shares
	// can move by an ulp from one session to the next.  Rebuild until the plugin reports
	// the keys of the case (the generator only emits cases whose keys were stable).
	var w *world6
	for try := 0; ; try++ {
		w = build6(x.pk, x.en, x.pos, x.qs)
		if fmt.Sprint(w.keys()) == fmt.Sprint(x.keys) {
			break
		}
		framework.CloseSession(w.ssn)
		if (x.pk != 5 && x.pk != 8) || try >= 60 {
			panic(fmt.Sprintf("harness: the plugin does not report the keys of the case: got %v want %v", w.keys(), x.keys))
		}
	}
	defer framework.CloseSession(w.ssn)
	cmpd := compared(x.pk, x.qs)
	objs := make([]interface{}, len(cmpd))
	for k, i := range cmpd {
		objs[k] = w.queues[i]
	}
	m, pops := matAndPops(objs, w.ssn.QueueOrderFn)
	pq := objs[x.pre]
	vm := matB(len(objs), func(a, b int) bool { return w.ssn.VictimQueueOrderFn(objs[a], objs[b], pq) })
	if x.pk == 7 {
		checkVictimsQueue(w, x, objs, vm)
	}
	return out6{m, vm, pops}
}

func run6(in []int64) []int64 {
	o := exec6(dec6(in))
	return cat(tag(1), o.m, tag(2), o.vm, tag(3), eList(o.pops))
}

// ---- the MECHANISMS of the two known findings, evaluated on the keys of the case.
// A failing law-117 case carries a signature only if it exhibits the mechanism;
// any other failure of the same law on the same plugin is reported unsigned.

func capQueueLevel(a, b []int64) int {
	level := 0
	for i := 0; i < len(a) && i < len(b); i++ {
		if a[i] != b[i] {
			return level
		}
		level = i
	}
	return level
}

func capRep(k qkeys, level int) [2]int64 {
	if level+1 < len(k.anc) {
		return k.nodes[level+1]
	}
	return k.nodes[len(k.nodes)-1]
}

// hierarchical capacity: the pairs of LEAF queues of equal priority in DIFFERENT
// subtrees (different ancestor chains) whose records just below the common ancestor tie
func capSubtreeTies(x in6) map[[2]int]bool {
	out := map[[2]int]bool{}
	if x.pk != 7 || x.en != 2 {
		return out
	}
	for i, a := range x.keys {
		for j, b := range x.keys {
			if i == j || !a.leaf || !b.leaf || a.prio != b.prio || fmt.Sprint(a.anc) == fmt.Sprint(b.anc) {
				continue
			}
			lv := capQueueLevel(a.anc, b.anc)
			if capRep(a, lv) == capRep(b, lv) {
				out[[2]int{i, j}] = true
			}
		}
	}
	return out
}

// hdrf: the pairs of queues of DIFFERENT hierarchy depth whose paths tie down to the shorter depth
func hdrfDepthTies(x in6) map[[2]int]bool {
	out := map[[2]int]bool{}
	if x.pk != 8 || x.en != 2 {
		return out
	}
	for i, a := range x.keys {
		for j, b := range x.keys {
			if i == j || len(a.nodes) == len(b.nodes) {
				continue
			}
			tie := true
			for d := 0; d < len(a.nodes) && d < len(b.nodes); d++ {
				tie = tie && a.nodes[d] == b.nodes[d]
			}
			if tie {
				out[[2]int{i, j}] = true
			}
		}
	}
	return out
}

// the triples on which a matrix violates negative transitivity:
// lt(a,d) and neither lt(a,b) nor lt(b,d)
func negtransViolations(n int, m []int64) [][3]int {
	out := [][3]int{}
	for a := 0; a < n; a++ {
		for b := 0; b < n; b++ {
			for d := 0; d < n; d++ {
				if m[a*n+d] != 0 && m[a*n+b] == 0 && m[b*n+d] == 0 {
					out = append(out, [3]int{a, b, d})
				}
			}
		}
	}
	return out
}

// the triples of different elements on which a matrix violates transitivity
func transViolations(n int, m []int64) [][3]int {
	out := [][3]int{}
	for a := 0; a < n; a++ {
		for b := 0; b < n; b++ {
			for d := 0; d < n; d++ {
				if a != b && b != d && a != d && m[a*n+b] != 0 && m[b*n+d] != 0 && m[a*n+d] == 0 {
					out = append(out, [3]int{a, b, d})
				}
			}
		}
	}
	return out
}

// every violating triple contains a pair that exhibits the mechanism
func explainedBy(viol [][3]int, ties map[[2]int]bool) bool {
	for _, t := range viol {
		ok := false
		for _, p := range [][2]int{{t[0], t[1]}, {t[1], t[2]}, {t[0], t[2]}} {
			ok = ok || ties[p] || ties[[2]int{p[1], p[0]}]
		}
		if !ok {
			return false
		}
	}
	return true
}

// Law 117 (asymmetry, totality, pop order where the answers are a strict weak
// order, victim antisymmetry) is NEVER signed.  Law 118 (negative transitivity of
// the queue order, transitivity of the victim order) carries the signature of a
// finding only if EVERY violating triple of the implementation's own matrices
// contains a pair of queues exhibiting that finding's mechanism.
func laws6(in, got []int64, law func(lsel int, lin []int64, sig string)) {
	x := dec6(in)
	law(116, cat(in, got), "")
	law(117, cat(in, got), "")
	n := len(x.keys)
	m, vm := got[1:1+n*n], got[2+n*n:2+2*n*n]
	viol := append(negtransViolations(n, m), transViolations(n, vm)...)
	sig := ""
	if ct := capSubtreeTies(x); len(ct) > 0 && explainedBy(viol, ct) {
		sig = sigCapacityHier
	} else if ht := hdrfDepthTies(x); len(ht) > 0 && explainedBy(viol, ht) {
		sig = sigHdrfDepth
	}
	law(118, cat(in, got), sig)
}

// the victims queue over the REAL hierarchical capacity plugin: one running task
// per leaf queue as victims, a task of the preemptor queue's job as preemptor.
// Victims of different queues must be ordered by VictimQueueOrderFn of their
// queues, i.e. the less closure must repeat the matrix vm on them - so whatever
// law 117 finds about vm (cyclic under subtree ties) is a fact about the real
// victims queue as well.
func checkVictimsQueue(w *world6, x in6, objs []interface{}, vm []int64) {
	n := len(objs)
	jobOf := func(q *api.QueueInfo) *api.JobInfo {
		for _, j := range w.ssn.Jobs {
			if j.Queue == q.UID {
				return j
			}
		}
		return nil
	}
	pj := jobOf(objs[x.pre].(*api.QueueInfo))
	if pj == nil {
		return
	}
	victims := make([]*api.TaskInfo, n)
	for k, o := range objs {
		j := jobOf(o.(*api.QueueInfo))
		if j == nil {
			continue
		}
		for _, t := range j.TaskStatusIndex[api.Running] {
			if victims[k] == nil || t.Name < victims[k].Name {
				victims[k] = t
			}
		}
	}
	less := queueLess(w.ssn.BuildVictimsPriorityQueue(nil, &api.TaskInfo{UID: "preemptor", Job: pj.UID}))
	for a := 0; a < n; a++ {
		for b := 0; b < n; b++ {
			if a == b || victims[a] == nil || victims[b] == nil {
				continue
			}
			if less(victims[a], victims[b]) != (vm[a*n+b] != 0) {
				panic("BuildVictimsPriorityQueue orders two victims of different queues differently from VictimQueueOrderFn of their queues")
			}
		}
	}
}

// ---------------------------------------------------------------- generator

// the family around the two refutation witnesses (QueueLemmas.v): two subtrees
// whose roots tie while the leaves inside one of them differ
func genTieFamily(r *vh.Rng, pk int64, exact bool) []rq {
	ct := func() int64 { return int64(r.Range(0, 2)) }
	if pk == 7 {
		// root -> A, B; x, y under A; z (and sometimes w) under B
		ax, ay, az := int64(r.Range(0, 2)), int64(r.Range(0, 3)), int64(r.Range(0, 3))
		if exact {
			ax, ay, az = 0, 2, 1
		}
		desA, desB := 2*(ax+ay), 2*az // both subtrees at share 1/2 (or both at 0)
		if desA == 0 {
			desA = 2
		}
		if desB == 0 {
			desB = 2
		}
		if !exact && r.Chance(1, 4) {
			desB += 1 // a near tie instead
		}
		qs := []rq{
			{ctime: ct(), uid: 1, parent: -1, par: desA}, {ctime: ct(), uid: 2, parent: -1, par: desB},
			{ctime: 2, uid: 3, parent: 0, par: 2, alloc: ax}, {ctime: 0, uid: 4, parent: 0, par: 2, alloc: ay},
			{ctime: 1, uid: 5, parent: 1, par: 2, alloc: az}}
		if !exact {
			qs[2].ctime, qs[3].ctime, qs[4].ctime = ct(), ct(), ct()
			if r.Chance(1, 3) {
				qs[2].par = 0 // a best-effort leaf: share 1 by definition, ties broken by has-deserved
			}
		}
		if exact || r.Chance(1, 2) {
			// a third subtree C with a leaf w: with the preemptor in w the capacity
			// victim comparator ties on x, y, z and the reversed (cyclic) queue order decides
			qs = append(qs, rq{ctime: ct(), uid: 6, parent: -1, par: 2}, rq{ctime: ct(), uid: 7, parent: 5, par: 2, alloc: 1})
		}
		return qs
	}
	// hdrf: eng{dev, prod}, sci - the layout of the plugin's own unit test
	qs := []rq{
		{ctime: 0, uid: 1, parent: -1, par: 1}, {ctime: 2, uid: 2, parent: 0, par: 1, alloc: 0}, {ctime: 0, uid: 3, parent: 0, par: 1, alloc: 2},
		{ctime: 1, uid: 4, parent: -1, par: 1, alloc: 2}}
	if !exact {
		qs[1].alloc, qs[2].alloc, qs[3].alloc = int64(r.Range(0, 2)), int64(r.Range(0, 3)), int64(r.Range(0, 3))
		qs[1].ctime, qs[2].ctime, qs[3].ctime = ct(), ct(), ct()
		if r.Chance(1, 3) {
			qs[0].par = 2
		}
		for j := 1; j <= 3; j++ {
			if qs[j].alloc > 0 && r.Chance(1, 4) {
				qs[j].alloc += 8
			}
		}
	}
	return qs
}

func gen6(r *vh.Rng, n int, emit func(id string, sel int, in []int64, kind string, nontrivial bool, desc any)) {
	// near ties of the queue share: 3-4 sibling queues of one priority, deserved 10^7
	// milli-cpu (capacity) resp. ample node (proportion), holding 5*10^6 + 7j milli-cpu
	// (capacity shares 7*10^-7 apart), creation times running the opposite way.  No
	// subtree and no depth difference is involved: an "equal within a tolerance"
	// share comparison is intransitive exactly here, and no known finding covers it
	for i := 0; i < n/6+3; i++ {
		pk := int64(5 + i%3)
		nq := vh.Pick(r, []int{3, 3, 4})
		step := int64(vh.Pick(r, []int{7, 7, 7, 1, 9}))
		qs := []rq{}
		for j := 0; j < nq; j++ {
			q := rq{ctime: int64(2 - j), uid: int64(30 - j), parent: -1, par: 10000, alloc: 5000000 + step*int64(j)}
			if q.ctime < 0 {
				q.ctime = 0
			}
			if pk == 5 {
				q.par = 1
			}
			qs = append(qs, q)
		}
		if r.Chance(1, 2) {
			for a := len(qs) - 1; a > 0; a-- {
				b := r.Intn(a + 1)
				qs[a], qs[b] = qs[b], qs[a]
			}
		}
		x := in6{pk: pk, en: 2, pre: int64(r.Intn(nq)), pos: int64(r.Intn(3)), qs: qs}
		if pk == 5 {
			x.pos += 3
		}
		w := build6(x.pk, x.en, x.pos, x.qs)
		x.keys = w.keys()
		framework.CloseSession(w.ssn)
		kind := map[int64]string{5: "queues/proportion-near-ties", 6: "queues/capacity-flat-near-ties", 7: "queues/capacity-hierarchical-near-ties"}[pk]
		emit(fmt.Sprintf("realq-neartie-%d", i), 6, enc6(x), kind, true, nil)
	}
	for i := 0; i < n/4+2; i++ {
		pk := int64(7 + i%2)
		qs := genTieFamily(r, pk, i < 2)
		cmpd := compared(pk, qs)
		x := in6{pk: pk, en: 2, pre: int64(r.Intn(len(cmpd))), pos: int64(r.Intn(3)), qs: qs}
		if pk == 7 && len(qs) == 7 && r.Chance(2, 3) {
			x.pre = 6 // the leaf w of the third subtree
		}
		w := build6(x.pk, x.en, x.pos, x.qs)
		x.keys = w.keys()
		framework.CloseSession(w.ssn)
		kind := map[int64]string{7: "queues/capacity-hierarchical-subtree-ties", 8: "queues/drf-hdrf-unequal-depth"}[pk]
		emit(fmt.Sprintf("realq-tie-%d", i), 6, enc6(x), kind, true, nil)
	}
	// small values and the int32 boundary set: pairs further apart than 2^31-1 exist in most draws
	prioPool := []int64{0, 0, 1, -1, 5, 1<<31 - 1, 1<<31 - 2, -(1 << 31), -(1 << 31) + 1, 2000000000, -2000000000, 2000000000, -2000000000}
	for i := 0; i < n; i++ {
		pk := int64(vh.Pick(r, []int{5, 6, 7, 7, 7, 8, 8}))
		nq := r.Range(2, 6)
		qs := make([]rq, nq)
		samePrio := r.Chance(1, 2)
		for j := range qs {
			q := rq{ctime: int64(r.Range(0, 2)), uid: int64(j + 1 + 10*r.Intn(3)), parent: -1}
			if !samePrio {
				q.prio = vh.Pick(r, prioPool)
			}
			if (pk == 7 || pk == 8) && j > 0 && r.Chance(2, 3) {
				q.parent = int64(r.Intn(j))
			}
			switch pk {
			case 5, 8:
				q.par = int64(vh.Pick(r, []int{1, 1, 1, 2, 3, 4}))
			default:
				q.par = int64(vh.Pick(r, []int{0, 0, 1, 2, 3, 4, 4, 6, 8}))
			}
			qs[j] = q
		}
		// running pods in the leaves; small numbers over small deserved: exact ties
		// (1/2 = 2/4, 1/3 = 2/6), near ties (3/8 vs 2/5 ...), zeros
		for j := range qs {
			if (pk == 7 || pk == 8) && hasChild(qs, j) {
				continue
			}
			qs[j].alloc = int64(vh.Pick(r, []int{0, 0, 1, 1, 2, 2, 3, 4}))
			if pk == 8 && qs[j].alloc > 0 && r.Chance(1, 3) {
				qs[j].alloc += 8 // fully allocated job: a saturated hdrf node
			}
		}
		if pk == 7 {
			// an inner queue's deserved covers its children's (what the webhook asks for)
			for j := nq - 1; j >= 0; j-- {
				sum := int64(0)
				for c := range qs {
					if qs[c].parent == int64(j) {
						sum += qs[c].par
					}
				}
				if hasChild(qs, j) && qs[j].par < sum && r.Chance(3, 4) {
					qs[j].par = sum + int64(r.Intn(2))
				}
			}
		}
		cmpd := compared(pk, qs)
		if len(cmpd) < 2 {
			continue
		}
		x := in6{pk: pk, en: int64(vh.Pick(r, []int{2, 2, 2, 2, 2, 1, 0})), pre: int64(r.Intn(len(cmpd))), pos: int64(r.Intn(3)), qs: qs}
		if pk == 5 && r.Chance(1, 2) {
			x.pos += 3
		}
		w := build6(x.pk, x.en, x.pos, x.qs)
		x.keys = w.keys()
		framework.CloseSession(w.ssn)
		stable := true
		if pk == 5 || pk == 8 {
			for t := 0; t < 6 && stable; t++ {
				w2 := build6(x.pk, x.en, x.pos, x.qs)
				stable = fmt.Sprint(w2.keys()) == fmt.Sprint(x.keys)
				framework.CloseSession(w2.ssn)
			}
		}
		if !stable {
			continue
		}
		kind := map[int64]string{5: "queues/proportion", 6: "queues/capacity-flat", 7: "queues/capacity-hierarchical", 8: "queues/drf-hdrf"}[pk]
		emit(fmt.Sprintf("realq-%d", i), 6, enc6(x), kind, len(cmpd) >= 3 && x.en == 2, nil)
	}
}
