// C20 harness.  sel 1: the real CLI entry points (vcctl job suspend / resume, queue
// operate open / close, util.CreateQueueCommand) against an HTTP test server that
// records every request.  sel 2: the real command workers of the job and queue
// controllers, G goroutines x R deliveries of one Command against the fake clientset
// with a fault-injecting reactor on Delete; the linearisation of the Delete calls is
// the order in which the (locked) fake client ran the reactor.
package main

import (
	"context"
	"encoding/json"
	"errors"
	"fmt"
	"io"
	"net/http"
	"net/http/httptest"
	"os"
	"strconv"
	"strings"
	"sync"
	"time"

	"github.com/spf13/cobra"
	apierrors "k8s.io/apimachinery/pkg/api/errors"
	metav1 "k8s.io/apimachinery/pkg/apis/meta/v1"
	"k8s.io/apimachinery/pkg/runtime"
	"k8s.io/apimachinery/pkg/types"
	kubefake "k8s.io/client-go/kubernetes/fake"
	"k8s.io/client-go/rest"
	k8stesting "k8s.io/client-go/testing"

	batch "volcano.sh/apis/pkg/apis/batch/v1alpha1"
	bus "volcano.sh/apis/pkg/apis/bus/v1alpha1"
	sch "volcano.sh/apis/pkg/apis/scheduling/v1beta1"
	"volcano.sh/apis/pkg/client/clientset/versioned"
	vcfake "volcano.sh/apis/pkg/client/clientset/versioned/fake"
	clijob "volcano.sh/volcano/pkg/cli/job"
	cliqueue "volcano.sh/volcano/pkg/cli/queue"
	cliutil "volcano.sh/volcano/pkg/cli/util"
	"volcano.sh/volcano/pkg/controllers/apis"
	jc "volcano.sh/volcano/pkg/controllers/job"
	qc "volcano.sh/volcano/pkg/controllers/queue"

	"verif/harness/internal/vh"
)

var ctx = context.TODO()

var actions = []bus.Action{"", bus.AbortJobAction, bus.ResumeJobAction, bus.OpenQueueAction, bus.CloseQueueAction}

func actionCode(a string) int64 {
	for i, x := range actions {
		if i > 0 && string(x) == a {
			return int64(i)
		}
	}
	panic("unexpected action " + a)
}

func nsName(id int64) string {
	if id == 0 {
		return "default"
	}
	return fmt.Sprintf("ns%d", id)
}

func idOf(prefix, s string) int64 {
	if prefix == "ns" && s == "default" {
		return 0
	}
	if !strings.HasPrefix(s, prefix) {
		panic("unexpected name " + s)
	}
	n, err := strconv.Atoi(strings.TrimPrefix(s, prefix))
	if err != nil {
		panic("unexpected name " + s)
	}
	return int64(n)
}

func refTokens(r *metav1.OwnerReference) []int64 {
	kind := int64(0)
	switch {
	case r.Kind == "Job" && r.APIVersion == batch.SchemeGroupVersion.String():
		kind = 1
	case r.Kind == "Queue" && r.APIVersion == sch.SchemeGroupVersion.String():
		kind = 2
	}
	return []int64{kind, idOf("n", r.Name), idOf("u", string(r.UID)), vh.B(r.Controller != nil && *r.Controller)}
}

// ---------- sel 1: CLI ----------

func runCLI(in []int64) []int64 {
	verb, ns, name, uid := in[0], in[1], in[2], in[3]
	var mu sync.Mutex
	var created []*bus.Command
	var createNS []string
	unexpected := ""
	srv := httptest.NewServer(http.HandlerFunc(func(w http.ResponseWriter, r *http.Request) {
		mu.Lock()
		defer mu.Unlock()
		w.Header().Set("Content-Type", "application/json")
		jobPath := fmt.Sprintf("/apis/batch.volcano.sh/v1alpha1/namespaces/%s/jobs/n%d", nsName(ns), name)
		queuePath := fmt.Sprintf("/apis/scheduling.volcano.sh/v1beta1/queues/n%d", name)
		switch {
		case r.Method == "GET" && r.URL.Path == jobPath && verb <= 2:
			json.NewEncoder(w).Encode(&batch.Job{
				TypeMeta:   metav1.TypeMeta{APIVersion: batch.SchemeGroupVersion.String(), Kind: "Job"},
				ObjectMeta: metav1.ObjectMeta{Namespace: nsName(ns), Name: fmt.Sprintf("n%d", name), UID: types.UID(fmt.Sprintf("u%d", uid))}})
		case r.Method == "GET" && r.URL.Path == queuePath && verb > 2:
			json.NewEncoder(w).Encode(&sch.Queue{
				TypeMeta:   metav1.TypeMeta{APIVersion: sch.SchemeGroupVersion.String(), Kind: "Queue"},
				ObjectMeta: metav1.ObjectMeta{Name: fmt.Sprintf("n%d", name), UID: types.UID(fmt.Sprintf("u%d", uid))}})
		case r.Method == "POST" && strings.HasPrefix(r.URL.Path, "/apis/bus.volcano.sh/v1alpha1/namespaces/") && strings.HasSuffix(r.URL.Path, "/commands"):
			body, _ := io.ReadAll(r.Body)
			cmd := &bus.Command{}
			if err := json.Unmarshal(body, cmd); err != nil {
				unexpected = "undecodable command: " + err.Error()
			}
			created = append(created, cmd)
			createNS = append(createNS, strings.Split(r.URL.Path, "/")[5])
			w.WriteHeader(http.StatusCreated)
			w.Write(body)
		case r.Method == "GET" && strings.HasPrefix(r.URL.Path, "/apis/bus.volcano.sh/v1alpha1/") && strings.HasSuffix(r.URL.Path, "/commands"):
			// the unchanged CLI never lists Commands; a changed one gets an honest answer (none pending)
			json.NewEncoder(w).Encode(&bus.CommandList{TypeMeta: metav1.TypeMeta{APIVersion: bus.SchemeGroupVersion.String(), Kind: "CommandList"}})
		default:
			unexpected = r.Method + " " + r.URL.Path
			w.WriteHeader(http.StatusNotFound)
			json.NewEncoder(w).Encode(&metav1.Status{Status: "Failure", Code: 404, Reason: metav1.StatusReasonNotFound})
		}
	}))
	defer srv.Close()
	err := invokeVerb(verb, srv.URL, ns, name)
	if err != nil {
		panic("CLI call failed: " + err.Error())
	}
	if unexpected != "" {
		panic("unexpected request to the API server: " + unexpected)
	}
	out := []int64{int64(len(created))}
	for i, c := range created {
		if c.TargetObject == nil {
			panic("command without TargetObject")
		}
		if c.Namespace != "" && c.Namespace != createNS[i] {
			panic("command namespace differs from the namespace it is created in")
		}
		if c.Name != "" {
			panic("command with a fixed name")
		}
		// GenerateName = "<target name>-<lower(action)>-"
		pre := strings.TrimSuffix(c.GenerateName, "-")
		k := strings.LastIndex(pre, "-")
		if k < 0 || !strings.HasSuffix(c.GenerateName, "-") {
			panic("unexpected GenerateName " + c.GenerateName)
		}
		pa := int64(0)
		for j, a := range actions {
			if j > 0 && strings.ToLower(string(a)) == pre[k+1:] {
				pa = int64(j)
			}
		}
		out = append(out, idOf("ns", createNS[i]), idOf("n", pre[:k]), pa)
		out = append(out, refTokens(c.TargetObject)...)
		out = append(out, int64(len(c.OwnerReferences)))
		for j := range c.OwnerReferences {
			out = append(out, refTokens(&c.OwnerReferences[j])...)
		}
		out = append(out, actionCode(c.Action))
	}
	return out
}

// invokeVerb runs one real CLI entry point against the API server at url.
func invokeVerb(verb int64, url string, ns, name int64) error {
	os.Unsetenv("KUBECONFIG")
	set := func(c *cobra.Command, k, v string) {
		if e := c.Flags().Set(k, v); e != nil {
			panic(e)
		}
	}
	switch verb {
	case 1:
		c := &cobra.Command{}
		clijob.InitSuspendFlags(c)
		set(c, "master", url)
		set(c, "namespace", nsName(ns))
		set(c, "name", fmt.Sprintf("n%d", name))
		return clijob.SuspendJob(ctx)
	case 2:
		c := &cobra.Command{}
		clijob.InitResumeFlags(c)
		set(c, "master", url)
		set(c, "namespace", nsName(ns))
		set(c, "name", fmt.Sprintf("n%d", name))
		return clijob.ResumeJob(ctx)
	case 3, 4:
		c := &cobra.Command{}
		cliqueue.InitOperateFlags(c)
		set(c, "master", url)
		set(c, "name", fmt.Sprintf("n%d", name))
		set(c, "action", map[int64]string{3: cliqueue.ActionOpen, 4: cliqueue.ActionClose}[verb])
		return cliqueue.OperateQueue(ctx)
	case 5, 6:
		cs := versioned.NewForConfigOrDie(&rest.Config{Host: url})
		return cliutil.CreateQueueCommand(cs, nsName(ns), fmt.Sprintf("n%d", name), actions[verb-2])
	}
	panic("unknown verb")
}

// encCommand: the tokens of Entry.v eCmd for a Command the API server received in namespace ns.
func encCommand(c *bus.Command, ns string) []int64 {
	if c.TargetObject == nil {
		panic("command without TargetObject")
	}
	if c.Namespace != "" && c.Namespace != ns {
		panic("command namespace differs from the namespace it is created in")
	}
	pre := strings.TrimSuffix(c.GenerateName, "-")
	k := strings.LastIndex(pre, "-")
	if k < 0 || !strings.HasSuffix(c.GenerateName, "-") {
		panic("unexpected GenerateName " + c.GenerateName)
	}
	pa := int64(0)
	for j, a := range actions {
		if j > 0 && strings.ToLower(string(a)) == pre[k+1:] {
			pa = int64(j)
		}
	}
	out := []int64{idOf("ns", ns), idOf("n", pre[:k]), pa}
	out = append(out, refTokens(c.TargetObject)...)
	out = append(out, int64(len(c.OwnerReferences)))
	for j := range c.OwnerReferences {
		out = append(out, refTokens(&c.OwnerReferences[j])...)
	}
	return append(out, actionCode(c.Action))
}

// ---------- sel 3: CLI invocations against a scripted API server, then the controllers ----------

type stored struct {
	ns  string
	cmd *bus.Command
}

func statusJSON(w http.ResponseWriter, code int, reason metav1.StatusReason, msg string) {
	w.WriteHeader(code)
	json.NewEncoder(w).Encode(&metav1.Status{
		TypeMeta: metav1.TypeMeta{Kind: "Status", APIVersion: "v1"},
		Status:   metav1.StatusFailure, Code: int32(code), Reason: reason, Message: msg,
		Details: &metav1.StatusDetails{Group: "bus.volcano.sh", Kind: "commands"}})
}

func runE2E(in []int64) []int64 {
	R := int(in[0])
	ninv := int(in[1])
	pos := 2
	var mu sync.Mutex
	var persisted []stored
	counter := 0
	// the invocation in progress
	var verb, ns, name, uid, gout int64
	var script []int64
	gets, posts := 0, 0
	var fresh []stored
	unexpected := ""
	srv := httptest.NewServer(http.HandlerFunc(func(w http.ResponseWriter, r *http.Request) {
		mu.Lock()
		defer mu.Unlock()
		w.Header().Set("Content-Type", "application/json")
		jobPath := fmt.Sprintf("/apis/batch.volcano.sh/v1alpha1/namespaces/%s/jobs/n%d", nsName(ns), name)
		queuePath := fmt.Sprintf("/apis/scheduling.volcano.sh/v1beta1/queues/n%d", name)
		isTarget := (r.URL.Path == jobPath && verb <= 2) || (r.URL.Path == queuePath && verb > 2)
		switch {
		case r.Method == "GET" && isTarget:
			gets++
			switch gout {
			case 1:
				statusJSON(w, 404, metav1.StatusReasonNotFound, "not found")
			case 2:
				statusJSON(w, 500, metav1.StatusReasonInternalError, "injected")
			default:
				if verb <= 2 {
					json.NewEncoder(w).Encode(&batch.Job{
						TypeMeta:   metav1.TypeMeta{APIVersion: batch.SchemeGroupVersion.String(), Kind: "Job"},
						ObjectMeta: metav1.ObjectMeta{Namespace: nsName(ns), Name: fmt.Sprintf("n%d", name), UID: types.UID(fmt.Sprintf("u%d", uid))}})
				} else {
					json.NewEncoder(w).Encode(&sch.Queue{
						TypeMeta:   metav1.TypeMeta{APIVersion: sch.SchemeGroupVersion.String(), Kind: "Queue"},
						ObjectMeta: metav1.ObjectMeta{Name: fmt.Sprintf("n%d", name), UID: types.UID(fmt.Sprintf("u%d", uid))}})
				}
			}
		case r.Method == "GET" && strings.HasPrefix(r.URL.Path, "/apis/bus.volcano.sh/v1alpha1/") && strings.HasSuffix(r.URL.Path, "/commands"):
			// the unchanged CLI never lists; a changed one sees the pending Commands
			parts := strings.Split(r.URL.Path, "/")
			l := &bus.CommandList{TypeMeta: metav1.TypeMeta{APIVersion: bus.SchemeGroupVersion.String(), Kind: "CommandList"}}
			for _, p := range persisted {
				if len(parts) < 7 || parts[5] == p.ns {
					l.Items = append(l.Items, *p.cmd)
				}
			}
			json.NewEncoder(w).Encode(l)
		case r.Method == "POST" && strings.HasPrefix(r.URL.Path, "/apis/bus.volcano.sh/v1alpha1/namespaces/") && strings.HasSuffix(r.URL.Path, "/commands"):
			o := int64(0)
			if posts < len(script) {
				o = script[posts]
			}
			posts++
			body, _ := io.ReadAll(r.Body)
			cmd := &bus.Command{}
			if err := json.Unmarshal(body, cmd); err != nil {
				unexpected = "undecodable command: " + err.Error()
			}
			if cmd.Name != "" {
				unexpected = "command with a fixed name"
			}
			cns := strings.Split(r.URL.Path, "/")[5]
			if o == 0 || o == 1 { // persisted
				counter++
				cmd.Namespace = cns
				cmd.Name = fmt.Sprintf("%s%05d", cmd.GenerateName, counter)
				cmd.TypeMeta = metav1.TypeMeta{APIVersion: bus.SchemeGroupVersion.String(), Kind: "Command"}
				persisted = append(persisted, stored{cns, cmd})
				fresh = append(fresh, stored{cns, cmd})
			}
			switch o {
			case 0:
				w.WriteHeader(http.StatusCreated)
				json.NewEncoder(w).Encode(cmd)
			case 1, 2:
				statusJSON(w, 504, metav1.StatusReasonTimeout, "request did not complete within requested timeout")
			case 3:
				statusJSON(w, 500, metav1.StatusReasonServerTimeout, "the server was unable to return a response in the time allotted")
			case 4:
				statusJSON(w, 500, metav1.StatusReasonInternalError, "injected")
			case 5:
				statusJSON(w, 409, metav1.StatusReasonAlreadyExists, "already exists")
			default:
				statusJSON(w, 409, metav1.StatusReasonConflict, "conflict")
			}
		default:
			unexpected = r.Method + " " + r.URL.Path
			statusJSON(w, 404, metav1.StatusReasonNotFound, "unexpected request")
		}
	}))
	defer srv.Close()
	var out []int64
	for k := 1; k <= ninv; k++ {
		mu.Lock()
		verb, ns, name, uid, gout = in[pos], in[pos+1], in[pos+2], in[pos+3], in[pos+4]
		L := int(in[pos+5])
		script = in[pos+6 : pos+6+L]
		pos += 6 + L
		gets, posts, fresh = 0, 0, nil
		mu.Unlock()
		err := invokeVerb(verb, srv.URL, ns, name)
		mu.Lock()
		if unexpected != "" {
			panic("unexpected request to the API server: " + unexpected)
		}
		out = append(out, int64(-100-k), vh.B(err == nil), int64(gets), int64(posts), int64(len(fresh)))
		for _, f := range fresh {
			out = append(out, encCommand(f.cmd, f.ns)...)
		}
		mu.Unlock()
	}
	// the controllers consume what the CLI left behind: R deliveries of each Command, in order
	vc := vcfake.NewSimpleClientset()
	for _, p := range persisted {
		if _, err := vc.BusV1alpha1().Commands(p.ns).Create(ctx, p.cmd.DeepCopy(), metav1.CreateOptions{}); err != nil {
			panic(err)
		}
	}
	getJobCtl(vc)
	getQueueCtl(vc, -1)
	var reqs []int64
	nreq := 0
	for _, p := range persisted {
		switch {
		case p.cmd.TargetObject != nil && p.cmd.TargetObject.Kind == "Job" && p.cmd.TargetObject.APIVersion == batch.SchemeGroupVersion.String():
			for i := 0; i < R; i++ {
				jobCtl.VerifCmdDeliver(p.cmd.DeepCopy())
			}
			for jobCtl.VerifCmdProcessNext() {
			}
			for _, r := range jobCtl.VerifCmdRequests() {
				if r.Event != bus.CommandIssuedEvent {
					panic("request without CommandIssued event")
				}
				reqs = append(reqs, 1, idOf("ns", r.Namespace), idOf("n", r.JobName), actionCode(string(r.Action)))
				nreq++
			}
		case qc.IsQueueReference(p.cmd.TargetObject):
			for i := 0; i < R; i++ {
				queueCtl.AddCommand(p.cmd.DeepCopy())
			}
			for queueCtl.ProcessNextCommand() {
			}
			for _, r := range queueCtl.Q.Items() {
				if r.Event != bus.CommandIssuedEvent {
					panic("request without CommandIssued event")
				}
				reqs = append(reqs, 2, -1, idOf("n", r.QueueName), actionCode(string(r.Action)))
				nreq++
			}
			queueCtl.Q.SetItems(nil)
		default:
			panic("a Command no controller's informer filter accepts")
		}
	}
	left, _ := vc.BusV1alpha1().Commands("").List(ctx, metav1.ListOptions{})
	if len(left.Items) != 0 {
		panic("commands retained after execution")
	}
	out = append(out, -99, int64(nreq))
	return append(out, reqs...)
}

// ---------- sel 2: controllers ----------

var (
	jobCtl   *jc.VerifCmdController
	queueCtl *qc.VerifController
	// infVC is the client both controllers are constructed on: their own informer
	// factories (with the filtered Command handlers registered by Initialize) watch it.
	// The other streams swap in a per-case client with Reset and never start the informers.
	infVC      *vcfake.Clientset
	infStarted bool
	infCase    int
)

func getJobCtl(vc *vcfake.Clientset) *jc.VerifCmdController {
	if infVC == nil {
		infVC = vcfake.NewSimpleClientset()
	}
	if jobCtl == nil {
		jobCtl = jc.VerifCmdNewController(infVC, kubefake.NewSimpleClientset(), 3)
	}
	jobCtl.VerifCmdReset(vc)
	return jobCtl
}

func getQueueCtl(vc *vcfake.Clientset, mx int) *qc.VerifController {
	if infVC == nil {
		infVC = vcfake.NewSimpleClientset()
	}
	if queueCtl == nil {
		queueCtl = qc.NewVerifController(infVC, kubefake.NewSimpleClientset(), mx)
	}
	queueCtl.Reset(vc, kubefake.NewSimpleClientset(), mx)
	return queueCtl
}

var apiVersions = []string{"", batch.SchemeGroupVersion.String(), sch.SchemeGroupVersion.String(),
	"scheduling.incubator.k8s.io/v1alpha1", "scheduling.volcano.sh/v1alpha1", "batch.volcano.sh/v1beta1"}
var kinds = []string{"", "Job", "Queue", "PodGroup"}

// ---------- sel 4: Commands with foreign / malformed targets through the real informers ----------

func runFilter(in []int64) []int64 {
	n := int(in[0])
	getJobCtl(nil)
	getQueueCtl(nil, -1)
	if !infStarted {
		stop := make(chan struct{}) // lives as long as the process
		queueCtl.StartInformers(stop)
		jobCtl.VerifCmdStartInformers(stop)
		infStarted = true
		// warm-up: WaitForCacheSync returns after the initial LIST; objects created before the
		// reflector's WATCH is established would only arrive with a later relist (out of order).
		// Create probe Commands until one pair comes through the watch promptly.
		jobCtl.VerifCmdReset(infVC)
		queueCtl.Reset(infVC, kubefake.NewSimpleClientset(), -1)
		for k := 0; ; k++ {
			if k > 200 {
				panic("the informers never delivered a probe command")
			}
			pj, pq := fmt.Sprintf("warm-j%d", k), fmt.Sprintf("warm-q%d", k)
			infVC.BusV1alpha1().Commands("ns1").Create(ctx, &bus.Command{ObjectMeta: metav1.ObjectMeta{Namespace: "ns1", Name: pj},
				TargetObject: &metav1.OwnerReference{APIVersion: apiVersions[1], Kind: "Job", Name: "n0"}}, metav1.CreateOptions{})
			infVC.BusV1alpha1().Commands("ns1").Create(ctx, &bus.Command{ObjectMeta: metav1.ObjectMeta{Namespace: "ns1", Name: pq},
				TargetObject: &metav1.OwnerReference{APIVersion: apiVersions[2], Kind: "Queue", Name: "n0"}}, metav1.CreateOptions{})
			seen := false
			for t := 0; t < 100 && !seen; t++ {
				time.Sleep(500 * time.Microsecond)
				okQ, okJ := false, false
				for _, c := range queueCtl.CQ.Items() {
					okQ = okQ || c.Name == pq
				}
				for _, nm := range jobCtl.VerifCmdPendingNames() {
					okJ = okJ || nm == "ns1/"+pj
				}
				seen = okQ && okJ
			}
			infVC.BusV1alpha1().Commands("ns1").Delete(ctx, pj, metav1.DeleteOptions{})
			infVC.BusV1alpha1().Commands("ns1").Delete(ctx, pq, metav1.DeleteOptions{})
			if seen {
				break
			}
		}
		// a queue hierarchy for the queue controller's lister: n1 under root, n2 under n1, n3 under n2,
		// n4 without spec.parent — a command on a child queue must produce a request for that queue only
		for _, q := range [][2]string{{"root", ""}, {"n1", "root"}, {"n2", "n1"}, {"n3", "n2"}, {"n4", ""}} {
			infVC.SchedulingV1beta1().Queues().Create(ctx, &sch.Queue{ObjectMeta: metav1.ObjectMeta{Name: q[0]},
				Spec: sch.QueueSpec{Parent: q[1]}, Status: sch.QueueStatus{State: sch.QueueStateOpen}}, metav1.CreateOptions{})
		}
		for t := 0; t < 2000 && len(queueCtl.QueueIndexer().List()) < 5; t++ {
			time.Sleep(500 * time.Microsecond)
		}
		if len(queueCtl.QueueIndexer().List()) < 5 {
			panic("the queue informer did not deliver the queue hierarchy")
		}
		time.Sleep(20 * time.Millisecond) // let a late relist of the probes drain before the first case
	}
	jobCtl.VerifCmdReset(infVC)
	queueCtl.Reset(infVC, kubefake.NewSimpleClientset(), -1)
	infCase++
	pre := fmt.Sprintf("c%d-", infCase)
	infVC.ClearActions()
	type made struct{ ns, name string }
	var cmds []made
	mk := func(name string, tk, tv, ns, tn, act, owner int64) {
		c := &bus.Command{ObjectMeta: metav1.ObjectMeta{Namespace: fmt.Sprintf("ns%d", ns), Name: name}, Action: string(actions[act])}
		if tk != 0 {
			c.TargetObject = &metav1.OwnerReference{APIVersion: apiVersions[tv], Kind: kinds[tk], Name: fmt.Sprintf("n%d", tn)}
		}
		// the controller OWNER of the Command need not be its target (a Command written by hand)
		// owner token = kind code (0 none, 1 Job, 2 Queue, 3 foreign group) + 4 * name (0 = the target's
		// name, k = the OTHER object n<k> of that kind: e.g. a Command that targets job n1 but is
		// controller-owned by job n3)
		ctl := true
		on := fmt.Sprintf("n%d", tn)
		if owner/4 != 0 {
			on = fmt.Sprintf("n%d", owner/4)
		}
		switch owner % 4 {
		case 1:
			c.OwnerReferences = []metav1.OwnerReference{{APIVersion: apiVersions[1], Kind: "Job", Name: on, UID: "o1", Controller: &ctl}}
		case 2:
			c.OwnerReferences = []metav1.OwnerReference{{APIVersion: apiVersions[2], Kind: "Queue", Name: on, UID: "o2", Controller: &ctl}}
		case 3:
			c.OwnerReferences = []metav1.OwnerReference{{APIVersion: apiVersions[3], Kind: "Queue", Name: on, UID: "o3", Controller: &ctl}}
		}
		if _, err := infVC.BusV1alpha1().Commands(c.Namespace).Create(ctx, c, metav1.CreateOptions{}); err != nil {
			panic(err)
		}
		cmds = append(cmds, made{c.Namespace, name})
	}
	for i := 0; i < n; i++ {
		f := in[1+6*i : 7+6*i]
		mk(fmt.Sprintf("%si%d", pre, i), f[0], f[1], f[2], f[3], f[4], f[5])
	}
	// sentinels: informer notifications are ordered, so once they sit in the command
	// queues every earlier Command has passed (or not passed) the filters
	mk(pre+"sj", 1, 1, 1, 0, 1, 1)
	mk(pre+"sq", 2, 2, 1, 0, 3, 2)
	deadline := time.Now().Add(20 * time.Second)
	for {
		okQ, okJ := false, false
		for _, c := range queueCtl.CQ.Items() {
			if c.Name == pre+"sq" {
				okQ = true
			}
		}
		for _, nm := range jobCtl.VerifCmdPendingNames() {
			if nm == "ns1/"+pre+"sj" {
				okJ = true
			}
		}
		if okQ && okJ {
			break
		}
		if time.Now().After(deadline) {
			panic("the informers did not deliver the sentinel commands")
		}
		time.Sleep(200 * time.Microsecond)
	}
	// the job controller shards its requests over several worker queues: read them back
	// after every processed Command to keep the order of execution
	// a worker that crashes on a Command it should never have admitted (e.g. nil TargetObject) has
	// already deleted it: keep draining so that the Delete shows up in law 104 instead of a bare panic
	crashes := 0
	safely := func(f func() bool) (more bool) {
		defer func() {
			if r := recover(); r != nil {
				crashes++
				if crashes > 2*n+4 { // a worker that panics before taking the item off the queue would spin
					panic(fmt.Sprintf("command worker keeps panicking: %v", r))
				}
				more = true
			}
		}()
		return f()
	}
	var jreqs []apis.Request
	for safely(jobCtl.VerifCmdProcessNext) {
		jreqs = append(jreqs, jobCtl.VerifCmdRequests()...)
	}
	for safely(queueCtl.ProcessNextCommand) {
	}
	// Delete calls per Command
	dels := map[string]int{}
	for _, a := range infVC.Actions() {
		if da, ok := a.(k8stesting.DeleteAction); ok && a.GetResource().Resource == "commands" {
			dels[da.GetNamespace()+"/"+da.GetName()]++
		}
	}
	out := []int64{int64(n)}
	for i := 0; i < n; i++ {
		_, err := infVC.BusV1alpha1().Commands(cmds[i].ns).Get(ctx, cmds[i].name, metav1.GetOptions{})
		out = append(out, int64(dels[cmds[i].ns+"/"+cmds[i].name]), vh.B(err == nil))
	}
	if dels["ns1/"+pre+"sj"] != 1 || dels["ns1/"+pre+"sq"] != 1 {
		panic("a sentinel command was not deleted exactly once")
	}
	enc := func(reqs []apis.Request, job bool) []int64 {
		// the last request is the sentinel's
		if len(reqs) == 0 || (job && reqs[len(reqs)-1].JobName != "n0") || (!job && reqs[len(reqs)-1].QueueName != "n0") {
			panic(fmt.Sprintf("the sentinel command was not executed last: job=%v requests=%+v deletes=%v", job, reqs, dels))
		}
		reqs = reqs[:len(reqs)-1]
		o := []int64{int64(len(reqs))}
		for _, r := range reqs {
			if r.Event != bus.CommandIssuedEvent {
				panic("request without CommandIssued event")
			}
			if job {
				o = append(o, idOf("ns", r.Namespace), idOf("n", r.JobName), actionCode(string(r.Action)))
			} else {
				if r.Namespace != "" || r.JobName != "" {
					panic("queue request carries job fields")
				}
				o = append(o, 0, idOf("n", r.QueueName), actionCode(string(r.Action)))
			}
		}
		return o
	}
	out = append(out, -101)
	out = append(out, enc(jreqs, true)...)
	out = append(out, -102)
	var qreqs []apis.Request
	for _, r := range queueCtl.Q.Items() {
		qreqs = append(qreqs, *r)
	}
	out = append(out, enc(qreqs, false)...)
	// leave the shared client clean
	for _, c := range cmds {
		infVC.BusV1alpha1().Commands(c.ns).Delete(ctx, c.name, metav1.DeleteOptions{})
	}
	return out
}

var cmdGVR = bus.SchemeGroupVersion.WithResource("commands")

// lastSeen: per Delete call of the last controller run, the number of requests already enqueued
var lastSeen []int64

func runCtl(in []int64) []int64 {
	ctrl, present, G, R, ns, name, action := in[0], in[1] != 0, int(in[2]), int(in[3]), in[4], in[5], in[6]
	mx, n2 := int(in[7]), int(in[8])
	sched := in[10 : 10+in[9]]
	if ctrl == 2 && mx >= 0 && G != 1 {
		panic("a finite retry budget is only deterministic with one worker")
	}
	vc := vcfake.NewSimpleClientset()
	cmdNS := fmt.Sprintf("ns%d", ns)
	cmd := &bus.Command{
		ObjectMeta: metav1.ObjectMeta{Namespace: cmdNS, Name: "cmd-x", UID: "uid-x"},
		Action:     string(actions[action]),
	}
	if ctrl == 1 {
		cmd.TargetObject = &metav1.OwnerReference{APIVersion: batch.SchemeGroupVersion.String(), Kind: "Job", Name: fmt.Sprintf("n%d", name)}
	} else {
		cmd.TargetObject = &metav1.OwnerReference{APIVersion: sch.SchemeGroupVersion.String(), Kind: "Queue", Name: fmt.Sprintf("n%d", name)}
	}
	// the incarnation the Command was issued for (what the CLI writes into the reference)
	cmd.TargetObject.UID = types.UID(fmt.Sprintf("uid-of-n%d", name))
	if present {
		if _, err := vc.BusV1alpha1().Commands(cmdNS).Create(ctx, cmd.DeepCopy(), metav1.CreateOptions{}); err != nil {
			panic(err)
		}
	}
	var process func() bool
	var pending func() int
	var deliver func(*bus.Command)
	// requests enqueued so far (read inside the Delete reactor: "triggered so far")
	var reqs []apis.Request
	var triggered func() int
	if ctrl == 1 {
		getJobCtl(vc)
		process, pending, deliver = jobCtl.VerifCmdProcessNext, jobCtl.VerifCmdPending, jobCtl.VerifCmdDeliver
		var rmu sync.Mutex
		triggered = func() int {
			rmu.Lock()
			defer rmu.Unlock()
			reqs = append(reqs, jobCtl.VerifCmdRequests()...)
			return len(reqs)
		}
	} else {
		getQueueCtl(vc, mx)
		process, pending = queueCtl.ProcessNextCommand, queueCtl.CQ.Len
		deliver = func(c *bus.Command) {
			if !qc.IsQueueReference(c.TargetObject) {
				panic("queue command filtered out")
			}
			queueCtl.AddCommand(c)
		}
		triggered = func() int { return queueCtl.Q.Len() }
	}
	// the reactor runs under the fake client's lock: its call order is the linearisation
	var outs []int64
	calls := 0
	vc.PrependReactor("delete", "commands", func(a k8stesting.Action) (bool, runtime.Object, error) {
		da := a.(k8stesting.DeleteAction)
		f := int64(0)
		if calls < len(sched) {
			f = sched[calls]
		}
		calls++
		seen := int64(triggered())
		switch f {
		case 1:
			outs = append(outs, 3, seen)
			return true, nil, errors.New("injected: the server is unavailable")
		case 2:
			vc.Tracker().Delete(cmdGVR, da.GetNamespace(), da.GetName())
			outs = append(outs, 4, seen)
			return true, nil, errors.New("injected: timeout after the delete was applied")
		}
		err := vc.Tracker().Delete(cmdGVR, da.GetNamespace(), da.GetName())
		switch {
		case err == nil:
			outs = append(outs, 1, seen)
		case apierrors.IsNotFound(err):
			outs = append(outs, 2, seen)
		default:
			panic("unexpected tracker error: " + err.Error())
		}
		return true, nil, err
	})
	// a batch of deliveries (distinct object copies), drained by G workers
	batch := func(n int) {
		for i := 0; i < n; i++ {
			deliver(cmd.DeepCopy())
		}
		var wg sync.WaitGroup
		for g := 0; g < G; g++ {
			wg.Add(1)
			go func() {
				defer wg.Done()
				for process() {
				}
			}()
		}
		wg.Wait()
		for pending() > 0 { // re-deliveries that arrived after a worker saw an empty queue
			process()
		}
	}
	batch(G * R)
	batch(n2) // informer relist / controller restart: the Command (if still there) is delivered again
	out := []int64{int64(len(outs) / 2)}
	// what each Delete call saw enqueued depends on the interleaving when workers race: it
	// goes to the law (lastSeen) but is not compared with the sequential model
	lastSeen = nil
	for k := 0; k+1 < len(outs); k += 2 {
		lastSeen = append(lastSeen, outs[k+1])
		if G > 1 {
			outs[k+1] = 0
		}
	}
	out = append(out, outs...)
	out = append(out, -101)
	if ctrl == 1 {
		triggered()
	} else {
		for _, r := range queueCtl.Q.Items() {
			reqs = append(reqs, *r)
		}
	}
	out = append(out, int64(len(reqs)))
	for _, r := range reqs {
		if r.Event != bus.CommandIssuedEvent {
			panic("request without CommandIssued event")
		}
		if ctrl == 1 {
			out = append(out, idOf("ns", r.Namespace), idOf("n", r.JobName), actionCode(string(r.Action)))
		} else {
			if r.Namespace != "" || r.JobName != "" {
				panic("queue request carries job fields")
			}
			out = append(out, 0, idOf("n", r.QueueName), actionCode(string(r.Action)))
		}
	}
	_, err := vc.BusV1alpha1().Commands(cmdNS).Get(ctx, "cmd-x", metav1.GetOptions{})
	out = append(out, vh.B(err == nil))
	retried := len(outs)/2 - G*R - n2
	if ctrl == 1 && jobCtl.VerifCmdRetried() != retried {
		panic(fmt.Sprintf("job controller: %d AddRateLimited calls for %d extra Delete calls", jobCtl.VerifCmdRetried(), retried))
	}
	out = append(out, int64(retried))
	// does the request identify the incarnation (TargetObject.UID) the Command was issued for?
	carried, wrong := 0, 0
	for _, r := range reqs {
		switch r.JobUid {
		case "":
		case cmd.TargetObject.UID:
			carried++
		default:
			wrong++
		}
	}
	out = append(out, int64(carried), int64(wrong))
	return out
}

func run(sel int, in []int64) []int64 {
	switch sel {
	case 1:
		return runCLI(in)
	case 2:
		return runCtl(in)
	case 3:
		return runE2E(in)
	case 4:
		return runFilter(in)
	}
	panic("unknown selector")
}

func laws(sel int, in, got []int64, law func(lsel int, lin []int64, sig string)) {
	if sel == 2 { // put the observed "enqueued so far" back into the Delete log
		got = append([]int64{}, got...)
		for k := range lastSeen {
			got[2+2*k] = lastSeen[k]
		}
	}
	lin := append(append([]int64{}, in...), got...)
	law(100+sel, lin, "")
	if sel == 2 {
		law(105, lin, "")                           // no request names another incarnation; not "some carry the UID, some do not"
		law(106, lin, "C20-target-uid-not-checked") // fails exactly when requests exist and NONE carries the UID (the finding)
	}
}

func gen(rng *vh.Rng, n int, emit func(id string, sel int, in []int64, kind string, nontrivial bool, desc any)) {
	for i := 0; i < n/4+6; i++ {
		verb := int64(i%6 + 1)
		in := []int64{verb, int64(rng.Range(0, 4)), int64(rng.Range(1, 50)), int64(rng.Range(1, 1000))}
		emit(fmt.Sprintf("cli-%d", i), 1, in, fmt.Sprintf("cli/verb%d", verb), true, nil)
	}
	for i := 0; i < n; i++ {
		r := rng.Fork()
		ctrl := int64(i%2 + 1)
		G, R := r.Range(1, 6), r.Range(1, 4)
		present := int64(1)
		if r.Chance(1, 6) {
			present = 0
		}
		action := int64(r.Range(1, 2))
		if ctrl == 2 {
			action = int64(r.Range(3, 4))
		}
		// retry budget: unlimited for racing workers; small budgets (one worker, FIFO) with
		// runs of at least maxRequeueNum+1 failed Deletes, then a relist with the Delete healed
		mx := -1
		n2 := 0
		if r.Chance(1, 3) {
			n2 = r.Range(1, 2)
		}
		var sched []int64
		exhaust := ctrl == 2 && i%4 >= 2 // only the queue controller has a retry budget
		if exhaust {
			mx = r.Range(0, 3)
			G = 1
			R = r.Range(1, 2)
			n2 = r.Range(1, 2)
			run := (mx+1)*R + r.Range(0, 2)
			if r.Chance(1, 5) {
				run = r.Range(0, mx+1) // not enough failures to exhaust the budget
			}
			for k := 0; k < run; k++ {
				sched = append(sched, int64(vh.Pick(r, []int{1, 1, 1, 2})))
			}
			if r.Chance(1, 3) {
				sched = append(sched, 0, 1)
			}
		} else {
			L := 0
			switch r.Intn(4) {
			case 1:
				L = r.Range(1, 3)
			case 2:
				L = r.Range(1, G*R+2)
			}
			for k := 0; k < L; k++ {
				sched = append(sched, int64(vh.Pick(r, []int{0, 1, 1, 2})))
			}
		}
		nf := 0
		for _, f := range sched {
			if f != 0 {
				nf++
			}
		}
		in := []int64{ctrl, present, int64(G), int64(R), int64(r.Range(1, 4)), int64(r.Range(1, 50)), action, int64(mx), int64(n2), int64(len(sched))}
		in = append(in, sched...)
		kind := "job-controller"
		if ctrl == 2 {
			kind = "queue-controller"
		}
		switch {
		case exhaust:
			kind += "/budget-exhausted+relist"
		case nf > 0:
			kind += "/faults"
		}
		emit(fmt.Sprintf("ctl-%d", i), 2, in, kind, (G*R+n2 >= 2 && present == 1) || exhaust,
			map[string]any{"workers": G, "deliveries_each": R, "faults": nf, "maxRequeueNum": mx, "redeliveries": n2})
	}
}

func genE2E(rng *vh.Rng, n int, emit func(id string, sel int, in []int64, kind string, nontrivial bool, desc any)) {
	pair := map[int64]int64{1: 2, 2: 1, 3: 4, 4: 3, 5: 6, 6: 5}
	for i := 0; i < n; i++ {
		r := rng.Fork()
		ninv := r.Range(1, 3)
		in := []int64{int64(r.Range(1, 3)), int64(ninv)}
		faults := 0
		var pv, pns, pname, puid int64
		for k := 0; k < ninv; k++ {
			verb := int64(r.Range(1, 6))
			if i < 12 && k == 0 {
				verb = int64(i%6 + 1)
			}
			ns, name, uid := int64(r.Range(0, 3)), int64(r.Range(1, 6)), int64(r.Range(1, 1000))
			if k > 0 && r.Chance(2, 3) {
				// the same target again while the earlier Command is still pending, usually with the other action
				verb, ns, name, uid = pair[pv], pns, pname, puid
				if r.Chance(1, 4) {
					verb = pv
				}
			}
			pv, pns, pname, puid = verb, ns, name, uid
			gout := int64(0)
			if r.Chance(1, 8) {
				gout = int64(r.Range(1, 2))
			}
			L := 0
			if r.Chance(1, 2) {
				L = r.Range(1, 3)
			}
			in = append(in, verb, ns, name, uid, gout, int64(L))
			for j := 0; j < L; j++ {
				o := int64(vh.Pick(r, []int{0, 1, 1, 1, 2, 3, 4, 5, 6}))
				if i < 12 && k == 0 && j == 0 {
					o = 1 // every verb sees "persisted, then 504 Timeout" at least once
				}
				if o != 0 {
					faults++
				}
				in = append(in, o)
			}
			if gout != 0 {
				faults++
			}
		}
		kind := "e2e/clean"
		if faults > 0 {
			kind = "e2e/faults"
		}
		emit(fmt.Sprintf("e2e-%d", i), 3, in, kind, ninv >= 2 || faults > 0, map[string]any{"invocations": ninv, "faults": faults})
	}
}

func genFilter(rng *vh.Rng, n int, emit func(id string, sel int, in []int64, kind string, nontrivial bool, desc any)) {
	for i := 0; i < n; i++ {
		r := rng.Fork()
		k := r.Range(1, 5)
		in := []int64{int64(k)}
		foreign := 0
		for j := 0; j < k; j++ {
			var tk, tv int64
			switch x := (i + j) % 10; {
			case x < 3: // exactly what vcctl writes
				tk = int64(r.Range(1, 2))
				tv = tk
			case x == 3: // right Kind, another API group
				tk = int64(r.Range(1, 2))
				tv = 3
			case x == 4: // right Kind, another version of the right group
				tk = int64(r.Range(1, 2))
				tv = 6 - tk // Job: batch.volcano.sh/v1beta1 (5), Queue: scheduling.volcano.sh/v1alpha1 (4)
			case x == 5: // right group/version, another Kind
				tv = int64(r.Range(1, 2))
				tk = 3
			case x == 6: // empty apiVersion
				tk = int64(r.Range(1, 2))
				tv = 0
			case x == 7: // no TargetObject
				tk, tv = 0, 0
			case x == 8: // Kind of one controller, group/version of the other
				tk = int64(r.Range(1, 2))
				tv = 3 - tk
			default:
				tk, tv = int64(r.Range(0, 3)), int64(r.Range(0, 5))
			}
			if !(tk == tv && (tk == 1 || tk == 2)) {
				foreign++
			}
			// the controller owner: what vcctl writes (= the target), or something else — a Queue owning a
			// Command that targets a Job, a Job owning one that targets a Queue, a foreign owner, none
			owner := int64(0)
			if tk == tv && (tk == 1 || tk == 2) {
				owner = tk
			}
			if r.Chance(1, 2) {
				owner = int64(r.Range(0, 3))
			}
			if owner != 0 && r.Chance(1, 2) {
				owner += 4 * int64(r.Range(1, 4)) // the owner is ANOTHER object of that kind (possibly the same name again)
			}
			// target names from a small pool: a foreign Command often names an object an exact one names too
			in = append(in, tk, tv, int64(r.Range(1, 3)), int64(r.Range(1, 4)), int64(r.Range(1, 4)), owner)
		}
		emit(fmt.Sprintf("filter-%d", i), 4, in, "informer-filter", foreign > 0, map[string]any{"commands": k, "foreign": foreign})
	}
}

func main() {
	vh.Harness{Run: run, Laws: laws, Gen: func(rng *vh.Rng, n int, emit func(id string, sel int, in []int64, kind string, nontrivial bool, desc any)) {
		gen(rng, n, emit)
		genE2E(rng.Fork(), n/2+12, emit)
		genFilter(rng.Fork(), n/3+20, emit)
	}}.Main()
}
