// C20 harness.  sel 1: the real CLI entry points (vcctl job suspend / resume, queue
// operate open / close, util.CreateQueueCommand) against an HTTP test server that
// records every request.  sel 2: the real command workers of the job and queue
// controllers, G goroutines x R deliveries of one Command against the fake clientset
// with a fault-injecting reactor on Delete; the linearisation of the Delete calls is
// the order in which the (locked) fake client ran the reactor.
package main

import (
	"context"
	"encoding/json"
	"errors"
	"fmt"
	"io"
	"net/http"
	"net/http/httptest"
	"os"
	"strconv"
	"strings"
	"sync"

	"github.com/spf13/cobra"
	apierrors "k8s.io/apimachinery/pkg/api/errors"
	metav1 "k8s.io/apimachinery/pkg/apis/meta/v1"
	"k8s.io/apimachinery/pkg/runtime"
	"k8s.io/apimachinery/pkg/types"
	kubefake "k8s.io/client-go/kubernetes/fake"
	"k8s.io/client-go/rest"
	k8stesting "k8s.io/client-go/testing"

	batch "volcano.sh/apis/pkg/apis/batch/v1alpha1"
	bus "volcano.sh/apis/pkg/apis/bus/v1alpha1"
	sch "volcano.sh/apis/pkg/apis/scheduling/v1beta1"
	"volcano.sh/apis/pkg/client/clientset/versioned"
	vcfake "volcano.sh/apis/pkg/client/clientset/versioned/fake"
	clijob "volcano.sh/volcano/pkg/cli/job"
	cliqueue "volcano.sh/volcano/pkg/cli/queue"
	cliutil "volcano.sh/volcano/pkg/cli/util"
	"volcano.sh/volcano/pkg/controllers/apis"
	jc "volcano.sh/volcano/pkg/controllers/job"
	qc "volcano.sh/volcano/pkg/controllers/queue"

	"verif/harness/internal/vh"
)

var ctx = context.TODO()

var actions = []bus.Action{"", bus.AbortJobAction, bus.ResumeJobAction, bus.OpenQueueAction, bus.CloseQueueAction}

func actionCode(a string) int64 {
	for i, x := range actions {
		if i > 0 && string(x) == a {
			return int64(i)
		}
	}
	panic("unexpected action " + a)
}

func nsName(id int64) string {
	if id == 0 {
		return "default"
	}
	return fmt.Sprintf("ns%d", id)
}

func idOf(prefix, s string) int64 {
	if prefix == "ns" && s == "default" {
		return 0
	}
	if !strings.HasPrefix(s, prefix) {
		panic("unexpected name " + s)
	}
	n, err := strconv.Atoi(strings.TrimPrefix(s, prefix))
	if err != nil {
		panic("unexpected name " + s)
	}
	return int64(n)
}

func refTokens(r *metav1.OwnerReference) []int64 {
	kind := int64(0)
	switch {
	case r.Kind == "Job" && r.APIVersion == batch.SchemeGroupVersion.String():
		kind = 1
	case r.Kind == "Queue" && r.APIVersion == sch.SchemeGroupVersion.String():
		kind = 2
	}
	return []int64{kind, idOf("n", r.Name), idOf("u", string(r.UID)), vh.B(r.Controller != nil && *r.Controller)}
}

// ---------- sel 1: CLI ----------

func runCLI(in []int64) []int64 {
	verb, ns, name, uid := in[0], in[1], in[2], in[3]
	var mu sync.Mutex
	var created []*bus.Command
	var createNS []string
	unexpected := ""
	srv := httptest.NewServer(http.HandlerFunc(func(w http.ResponseWriter, r *http.Request) {
		mu.Lock()
		defer mu.Unlock()
		w.Header().Set("Content-Type", "application/json")
		jobPath := fmt.Sprintf("/apis/batch.volcano.sh/v1alpha1/namespaces/%s/jobs/n%d", nsName(ns), name)
		queuePath := fmt.Sprintf("/apis/scheduling.volcano.sh/v1beta1/queues/n%d", name)
		switch {
		case r.Method == "GET" && r.URL.Path == jobPath && verb <= 2:
			json.NewEncoder(w).Encode(&batch.Job{
				TypeMeta:   metav1.TypeMeta{APIVersion: batch.SchemeGroupVersion.String(), Kind: "Job"},
				ObjectMeta: metav1.ObjectMeta{Namespace: nsName(ns), Name: fmt.Sprintf("n%d", name), UID: types.UID(fmt.Sprintf("u%d", uid))}})
		case r.Method == "GET" && r.URL.Path == queuePath && verb > 2:
			json.NewEncoder(w).Encode(&sch.Queue{
				TypeMeta:   metav1.TypeMeta{APIVersion: sch.SchemeGroupVersion.String(), Kind: "Queue"},
				ObjectMeta: metav1.ObjectMeta{Name: fmt.Sprintf("n%d", name), UID: types.UID(fmt.Sprintf("u%d", uid))}})
		case r.Method == "POST" && strings.HasPrefix(r.URL.Path, "/apis/bus.volcano.sh/v1alpha1/namespaces/") && strings.HasSuffix(r.URL.Path, "/commands"):
			body, _ := io.ReadAll(r.Body)
			cmd := &bus.Command{}
			if err := json.Unmarshal(body, cmd); err != nil {
				unexpected = "undecodable command: " + err.Error()
			}
			created = append(created, cmd)
			createNS = append(createNS, strings.Split(r.URL.Path, "/")[5])
			w.WriteHeader(http.StatusCreated)
			w.Write(body)
		default:
			unexpected = r.Method + " " + r.URL.Path
			w.WriteHeader(http.StatusNotFound)
			json.NewEncoder(w).Encode(&metav1.Status{Status: "Failure", Code: 404, Reason: metav1.StatusReasonNotFound})
		}
	}))
	defer srv.Close()
	os.Unsetenv("KUBECONFIG")
	var err error
	set := func(c *cobra.Command, k, v string) {
		if e := c.Flags().Set(k, v); e != nil {
			panic(e)
		}
	}
	switch verb {
	case 1:
		c := &cobra.Command{}
		clijob.InitSuspendFlags(c)
		set(c, "master", srv.URL)
		set(c, "namespace", nsName(ns))
		set(c, "name", fmt.Sprintf("n%d", name))
		err = clijob.SuspendJob(ctx)
	case 2:
		c := &cobra.Command{}
		clijob.InitResumeFlags(c)
		set(c, "master", srv.URL)
		set(c, "namespace", nsName(ns))
		set(c, "name", fmt.Sprintf("n%d", name))
		err = clijob.ResumeJob(ctx)
	case 3, 4:
		c := &cobra.Command{}
		cliqueue.InitOperateFlags(c)
		set(c, "master", srv.URL)
		set(c, "name", fmt.Sprintf("n%d", name))
		set(c, "action", map[int64]string{3: cliqueue.ActionOpen, 4: cliqueue.ActionClose}[verb])
		err = cliqueue.OperateQueue(ctx)
	case 5, 6:
		cs := versioned.NewForConfigOrDie(&rest.Config{Host: srv.URL})
		err = cliutil.CreateQueueCommand(cs, nsName(ns), fmt.Sprintf("n%d", name), actions[verb-2])
	default:
		panic("unknown verb")
	}
	if err != nil {
		panic("CLI call failed: " + err.Error())
	}
	if unexpected != "" {
		panic("unexpected request to the API server: " + unexpected)
	}
	out := []int64{int64(len(created))}
	for i, c := range created {
		if c.TargetObject == nil {
			panic("command without TargetObject")
		}
		if c.Namespace != "" && c.Namespace != createNS[i] {
			panic("command namespace differs from the namespace it is created in")
		}
		if c.Name != "" {
			panic("command with a fixed name")
		}
		// GenerateName = "<target name>-<lower(action)>-"
		pre := strings.TrimSuffix(c.GenerateName, "-")
		k := strings.LastIndex(pre, "-")
		if k < 0 || !strings.HasSuffix(c.GenerateName, "-") {
			panic("unexpected GenerateName " + c.GenerateName)
		}
		pa := int64(0)
		for j, a := range actions {
			if j > 0 && strings.ToLower(string(a)) == pre[k+1:] {
				pa = int64(j)
			}
		}
		out = append(out, idOf("ns", createNS[i]), idOf("n", pre[:k]), pa)
		out = append(out, refTokens(c.TargetObject)...)
		out = append(out, int64(len(c.OwnerReferences)))
		for j := range c.OwnerReferences {
			out = append(out, refTokens(&c.OwnerReferences[j])...)
		}
		out = append(out, actionCode(c.Action))
	}
	return out
}

// ---------- sel 2: controllers ----------

var (
	jobCtl   *jc.VerifCmdController
	queueCtl *qc.VerifController
)

var cmdGVR = bus.SchemeGroupVersion.WithResource("commands")

func runCtl(in []int64) []int64 {
	ctrl, present, G, R, ns, name, action := in[0], in[1] != 0, int(in[2]), int(in[3]), in[4], in[5], in[6]
	sched := in[8 : 8+in[7]]
	vc := vcfake.NewSimpleClientset()
	cmdNS := fmt.Sprintf("ns%d", ns)
	cmd := &bus.Command{
		ObjectMeta: metav1.ObjectMeta{Namespace: cmdNS, Name: "cmd-x"},
		Action:     string(actions[action]),
	}
	if ctrl == 1 {
		cmd.TargetObject = &metav1.OwnerReference{APIVersion: batch.SchemeGroupVersion.String(), Kind: "Job", Name: fmt.Sprintf("n%d", name)}
	} else {
		cmd.TargetObject = &metav1.OwnerReference{APIVersion: sch.SchemeGroupVersion.String(), Kind: "Queue", Name: fmt.Sprintf("n%d", name)}
	}
	if present {
		if _, err := vc.BusV1alpha1().Commands(cmdNS).Create(ctx, cmd.DeepCopy(), metav1.CreateOptions{}); err != nil {
			panic(err)
		}
	}
	// the reactor runs under the fake client's lock: its call order is the linearisation
	var outs []int64
	calls := 0
	vc.PrependReactor("delete", "commands", func(a k8stesting.Action) (bool, runtime.Object, error) {
		da := a.(k8stesting.DeleteAction)
		f := int64(0)
		if calls < len(sched) {
			f = sched[calls]
		}
		calls++
		switch f {
		case 1:
			outs = append(outs, 3)
			return true, nil, errors.New("injected: the server is unavailable")
		case 2:
			vc.Tracker().Delete(cmdGVR, da.GetNamespace(), da.GetName())
			outs = append(outs, 4)
			return true, nil, errors.New("injected: timeout after the delete was applied")
		}
		err := vc.Tracker().Delete(cmdGVR, da.GetNamespace(), da.GetName())
		switch {
		case err == nil:
			outs = append(outs, 1)
		case apierrors.IsNotFound(err):
			outs = append(outs, 2)
		default:
			panic("unexpected tracker error: " + err.Error())
		}
		return true, nil, err
	})
	var process func() bool
	var pending func() int
	if ctrl == 1 {
		if jobCtl == nil {
			jobCtl = jc.VerifCmdNewController(vc, kubefake.NewSimpleClientset(), 3)
		} else {
			jobCtl.VerifCmdReset(vc)
		}
		for i := 0; i < G*R; i++ {
			jobCtl.VerifCmdDeliver(cmd.DeepCopy())
		}
		process, pending = jobCtl.VerifCmdProcessNext, jobCtl.VerifCmdPending
	} else {
		if queueCtl == nil {
			queueCtl = qc.NewVerifController(vc, kubefake.NewSimpleClientset(), -1)
		} else {
			queueCtl.Reset(vc, kubefake.NewSimpleClientset(), -1)
		}
		for i := 0; i < G*R; i++ {
			c := cmd.DeepCopy()
			if !qc.IsQueueReference(c.TargetObject) {
				panic("queue command filtered out")
			}
			queueCtl.AddCommand(c)
		}
		process, pending = queueCtl.ProcessNextCommand, queueCtl.CQ.Len
	}
	var wg sync.WaitGroup
	for g := 0; g < G; g++ {
		wg.Add(1)
		go func() {
			defer wg.Done()
			for process() {
			}
		}()
	}
	wg.Wait()
	for pending() > 0 { // re-deliveries that arrived after a worker saw an empty queue
		process()
	}
	out := []int64{int64(len(outs))}
	out = append(out, outs...)
	out = append(out, -101)
	var reqs []apis.Request
	if ctrl == 1 {
		reqs = jobCtl.VerifCmdRequests()
	} else {
		for _, r := range queueCtl.Q.Items() {
			reqs = append(reqs, *r)
		}
	}
	out = append(out, int64(len(reqs)))
	for _, r := range reqs {
		if r.Event != bus.CommandIssuedEvent {
			panic("request without CommandIssued event")
		}
		if ctrl == 1 {
			out = append(out, idOf("ns", r.Namespace), idOf("n", r.JobName), actionCode(string(r.Action)))
		} else {
			if r.Namespace != "" || r.JobName != "" {
				panic("queue request carries job fields")
			}
			out = append(out, 0, idOf("n", r.QueueName), actionCode(string(r.Action)))
		}
	}
	_, err := vc.BusV1alpha1().Commands(cmdNS).Get(ctx, "cmd-x", metav1.GetOptions{})
	out = append(out, vh.B(err == nil))
	retried := len(outs) - G*R
	if ctrl == 1 && jobCtl.VerifCmdRetried() != retried {
		panic(fmt.Sprintf("job controller: %d AddRateLimited calls for %d extra Delete calls", jobCtl.VerifCmdRetried(), retried))
	}
	out = append(out, int64(retried))
	return out
}

func run(sel int, in []int64) []int64 {
	switch sel {
	case 1:
		return runCLI(in)
	case 2:
		return runCtl(in)
	}
	panic("unknown selector")
}

func laws(sel int, in, got []int64, law func(lsel int, lin []int64, sig string)) {
	lin := append(append([]int64{}, in...), got...)
	law(100+sel, lin, "")
}

func gen(rng *vh.Rng, n int, emit func(id string, sel int, in []int64, kind string, nontrivial bool, desc any)) {
	for i := 0; i < n/4+6; i++ {
		verb := int64(i%6 + 1)
		in := []int64{verb, int64(rng.Range(0, 4)), int64(rng.Range(1, 50)), int64(rng.Range(1, 1000))}
		emit(fmt.Sprintf("cli-%d", i), 1, in, fmt.Sprintf("cli/verb%d", verb), true, nil)
	}
	for i := 0; i < n; i++ {
		r := rng.Fork()
		ctrl := int64(i%2 + 1)
		G, R := r.Range(1, 6), r.Range(1, 4)
		present := int64(1)
		if r.Chance(1, 6) {
			present = 0
		}
		action := int64(r.Range(1, 2))
		if ctrl == 2 {
			action = int64(r.Range(3, 4))
		}
		L := 0
		switch r.Intn(4) {
		case 1:
			L = r.Range(1, 3)
		case 2:
			L = r.Range(1, G*R+2)
		}
		in := []int64{ctrl, present, int64(G), int64(R), int64(r.Range(1, 4)), int64(r.Range(1, 50)), action, int64(L)}
		nf := 0
		for k := 0; k < L; k++ {
			f := int64(vh.Pick(r, []int{0, 1, 1, 2}))
			if f != 0 {
				nf++
			}
			in = append(in, f)
		}
		kind := "job-controller"
		if ctrl == 2 {
			kind = "queue-controller"
		}
		if nf > 0 {
			kind += "/faults"
		}
		emit(fmt.Sprintf("ctl-%d", i), 2, in, kind, G*R >= 2 && present == 1,
			map[string]any{"workers": G, "deliveries_each": R, "faults": nf})
	}
}

func main() {
	vh.Harness{Run: run, Laws: laws, Gen: gen}.Main()
}
