// Where TaskInfo.DRAResreq comes from: the scheduler cache's buildTaskDRAInfo / addDRAResource
// (pkg/scheduler/cache/cache.go) on real ResourceClaim objects in a real ResourceClaim cache fed by an
// informer on a fake clientset (selector 9).  Needs the hook pkg/scheduler/cache/export_verif_dra.go.
package main

import (
	"context"
	"fmt"
	"math"
	"sort"
	"sync"
	"time"

	v1 "k8s.io/api/core/v1"
	resourcev1 "k8s.io/api/resource/v1"
	"k8s.io/apimachinery/pkg/api/resource"
	metav1 "k8s.io/apimachinery/pkg/apis/meta/v1"
	"k8s.io/client-go/informers"
	"k8s.io/client-go/kubernetes/fake"

	"verif/harness/internal/vh"
	"volcano.sh/volcano/pkg/scheduler/api"
	schedcache "volcano.sh/volcano/pkg/scheduler/cache"
)

var (
	claimOnce   sync.Once
	claimClient *fake.Clientset
	claimCache  *schedcache.SchedulerCache
	claimSerial int
)

func claimSetup() {
	claimOnce.Do(func() {
		claimClient = fake.NewSimpleClientset()
		factory := informers.NewSharedInformerFactory(claimClient, 0)
		inf := factory.Resource().V1().ResourceClaims().Informer()
		claimCache = schedcache.VerifNewDRAClaimCache(inf)
		ctx := context.Background()
		factory.Start(ctx.Done())
		factory.WaitForCacheSync(ctx.Done())
	})
}

type rawReq struct {
	kind, class, count int64
	caps               []capSpec
}

// tokens: nClaims, (claimId, nReq, (kind, class, count, nCaps, (dim, milli)*)*)*, nRefs, claimId*
func parseClaims(in []int64) (map[int64][]rawReq, []int64, []int64) {
	r := &tokReader{t: in}
	claims := map[int64][]rawReq{}
	order := []int64{}
	n := int(r.next())
	for i := 0; i < n; i++ {
		id := r.next()
		m := int(r.next())
		reqs := []rawReq{}
		for k := 0; k < m; k++ {
			q := rawReq{kind: r.next(), class: r.next(), count: r.next()}
			nc := int(r.next())
			for c := 0; c < nc; c++ {
				q.caps = append(q.caps, capSpec{r.next(), r.next()})
			}
			reqs = append(reqs, q)
		}
		if _, dup := claims[id]; !dup {
			claims[id] = reqs
			order = append(order, id)
		}
	}
	n = int(r.next())
	refs := []int64{}
	for i := 0; i < n; i++ {
		refs = append(refs, r.next())
	}
	return claims, order, refs
}

func runBuildTaskDRA(in []int64) []int64 {
	claimSetup()
	claims, order, refs := parseClaims(in)
	claimSerial++
	ns := fmt.Sprintf("ns%d", claimSerial)
	claimName := func(id int64) string { return fmt.Sprintf("claim-%04d", id) }
	for _, id := range order {
		rc := &resourcev1.ResourceClaim{ObjectMeta: metav1.ObjectMeta{Name: claimName(id), Namespace: ns}}
		for i, q := range claims[id] {
			dr := resourcev1.DeviceRequest{Name: fmt.Sprintf("req-%d", i)}
			switch q.kind {
			case 0, 2, 4:
				ex := &resourcev1.ExactDeviceRequest{DeviceClassName: className(q.class), AllocationMode: resourcev1.DeviceAllocationModeExactCount, Count: q.count}
				if q.kind == 2 {
					ex.AllocationMode = resourcev1.DeviceAllocationModeAll
				}
				if q.kind == 4 {
					ex.DeviceClassName = ""
				}
				if len(q.caps) > 0 {
					ex.Capacity = &resourcev1.CapacityRequirements{Requests: map[resourcev1.QualifiedName]resource.Quantity{}}
					for _, c := range q.caps {
						ex.Capacity.Requests[resourcev1.QualifiedName(dimName(c.dim))] = *resource.NewMilliQuantity(c.milli, resource.DecimalSI)
					}
				}
				dr.Exactly = ex
			case 1:
				dr.FirstAvailable = []resourcev1.DeviceSubRequest{{Name: "sub", DeviceClassName: className(q.class), Count: q.count}}
			default: // 3: neither Exactly nor FirstAvailable
			}
			rc.Spec.Devices.Requests = append(rc.Spec.Devices.Requests, dr)
		}
		if _, err := claimClient.ResourceV1().ResourceClaims(ns).Create(context.Background(), rc, metav1.CreateOptions{}); err != nil {
			panic("harness: cannot create ResourceClaim: " + err.Error())
		}
	}
	deadline := time.Now().Add(5 * time.Second)
	for _, id := range order {
		for !claimCache.VerifHasResourceClaim(ns + "/" + claimName(id)) {
			if time.Now().After(deadline) {
				panic("harness: ResourceClaim cache did not sync")
			}
			time.Sleep(200 * time.Microsecond)
		}
	}
	pod := &v1.Pod{ObjectMeta: metav1.ObjectMeta{Name: "pod", Namespace: ns}}
	for i, id := range refs {
		name := claimName(id)
		pod.Spec.ResourceClaims = append(pod.Spec.ResourceClaims, v1.PodResourceClaim{Name: fmt.Sprintf("c%d", i), ResourceClaimName: &name})
	}
	var (
		res    map[string]*api.DRAResource
		per    map[string]map[string]*api.DRAResource
		keys   []string
		err    error
		crashed any
	)
	func() {
		defer func() { crashed = recover() }()
		res, per, keys, err = claimCache.VerifBuildTaskDRAInfo(pod)
	}()
	// clean up so that the informer store does not grow without bound
	for _, id := range order {
		_ = claimClient.ResourceV1().ResourceClaims(ns).Delete(context.Background(), claimName(id), metav1.DeleteOptions{})
	}
	if crashed != nil {
		if fmt.Sprint(crashed) != "assignment to entry in nil map" {
			panic(crashed)
		}
		return []int64{-1}
	}
	if err != nil {
		return []int64{-2}
	}
	if res == nil && per == nil && keys == nil {
		return []int64{0}
	}
	if res == nil || per == nil {
		panic("buildTaskDRAInfo returned a half-nil result")
	}
	sorted := append([]string{}, keys...)
	sort.Strings(sorted)
	if fmt.Sprint(sorted) != fmt.Sprint(keys) || len(keys) != len(per) {
		panic("claim keys are not the sorted keys of the per-claim map")
	}
	out := append([]int64{1}, encDRAMap(res)[1:]...)
	out = append(out, tag(1)...)
	out = append(out, int64(len(keys)))
	for _, k := range keys {
		if _, ok := per[k]; !ok {
			panic("claim key without per-claim entry")
		}
		out = append(out, idOf(k, ns+"/claim-"))
		out = append(out, encDRAMap(per[k])[1:]...)
	}
	return out
}

func lawsBuildTaskDRA(in, got []int64, law func(lsel int, lin []int64, sig string)) {
	if len(got) == 1 && got[0] < 0 {
		return // panic / error paths: correspondence only
	}
	law(109, append(append([]int64{}, in...), got...), "")
}

// ---- generator ----

func genClaims(r *vh.Rng) []int64 {
	nClaims := r.Range(1, 4)
	out := []int64{int64(nClaims)}
	hasCaps := map[int64]bool{} // per class: did its FIRST countable request (in pod order) carry capacities
	seen := map[int64]bool{}
	ids := []int64{}
	risky := r.Chance(1, 25) // allow the nil-map crash shape
	for i := 0; i < nClaims; i++ {
		id := int64(i + 1)
		ids = append(ids, id)
		nReq := r.Range(0, 4)
		out = append(out, id, int64(nReq))
		seenC, hasCapsC := map[int64]bool{}, map[int64]bool{}
		for k := 0; k < nReq; k++ {
			kind := int64(0)
			if r.Chance(1, 6) {
				kind = int64(r.Range(1, 4))
			}
			class := int64(r.Range(1, 3))
			var count int64
			switch r.Intn(6) {
			case 0:
				count = 0 // defaulted to 1
			case 1, 2:
				count = int64(r.Range(1, 8))
			default:
				count = genCount(r)
			}
			if r.Chance(1, 25) {
				// the apiserver rejects count < 0; the cache does not re-check: model and code must still agree
				// (the law's non-negativity clause is only asked when every count is >= 0)
				count = -int64(r.Range(1, 9))
			}
			caps := []capSpec{}
			if kind == 0 {
				okG := !seen[class] || hasCaps[class]
				okC := !seenC[class] || hasCapsC[class]
				if ((okG && okC) || risky) && count <= 1<<20 && r.Chance(1, 2) {
					caps = genCaps(r)
				}
				if !seen[class] {
					seen[class], hasCaps[class] = true, len(caps) > 0
				}
				if !seenC[class] {
					seenC[class], hasCapsC[class] = true, len(caps) > 0
				}
			}
			out = append(out, kind, class, count, int64(len(caps)))
			for _, c := range caps {
				out = append(out, c.dim, c.milli)
			}
		}
	}
	// the pod references the claims in id order (so that "first request of a class" above is right),
	// sometimes one twice, rarely one that does not exist
	refs := append([]int64{}, ids...)
	if r.Chance(1, 4) {
		refs = append(refs, vh.Pick(r, ids))
	}
	if r.Chance(1, 30) {
		refs = append(refs, 99)
	}
	out = append(out, int64(len(refs)))
	return append(out, refs...)
}

func directedClaims() [][]int64 {
	big := int64(1) << 62
	return [][]int64{
		// two requests of 2^62 devices of one class in one claim: the total must saturate, not wrap to -2^63
		{1, 1, 2, 0, 1, big, 0, 0, 1, big, 0, 1, 1},
		// the same over two claims of one pod
		{2, 1, 1, 0, 1, big, 0, 2, 1, 0, 1, big, 0, 2, 1, 2},
		// MaxInt64 + 1 (defaulted count)
		{1, 1, 2, 0, 1, math.MaxInt64, 0, 0, 1, 0, 0, 1, 1},
		// three requests summing to MaxInt64 exactly, and to MaxInt64 + 1
		{1, 1, 3, 0, 1, big, 0, 0, 1, big - 1, 0, 0, 1, 0, 0, 1, 1},
		{1, 1, 3, 0, 1, big, 0, 0, 1, big, 0, 0, 1, 1, 0, 1, 1},
		// capacities scale with the count
		{1, 1, 2, 0, 1, 3, 1, 1, 2500, 0, 1, 2, 1, 1, 1000, 1, 1},
		// first request of a class without capacity, second with: the real code writes into a nil map
		{1, 1, 2, 0, 1, 1, 0, 0, 1, 1, 1, 1, 1000, 1, 1},
		// a claim the cache does not know
		{1, 1, 1, 0, 1, 1, 0, 1, 7},
	}
}
