// DRA quota accounting on the real code: JobInfo.GetMinDRAResources on real JobInfo / TaskInfo
// objects (selector 5) and DRAResource.Add / Sub / Clone (selector 6).
package main

import (
	"fmt"
	"math"
	"sort"

	"k8s.io/apimachinery/pkg/api/resource"

	"verif/harness/internal/vh"
	"volcano.sh/volcano/pkg/scheduler/api"
)

// ---- names ----

func roleName(id int64) string {
	if id == 1 {
		return "" // a task without a role label
	}
	return fmt.Sprintf("role-%d", id)
}
func className(id int64) string { return fmt.Sprintf("class-%03d.example.com", id) }
func dimName(id int64) string   { return fmt.Sprintf("dim-%03d", id) }

func idOf(name, prefix string) int64 {
	var id int64
	if _, err := fmt.Sscanf(name, prefix+"%d", &id); err != nil {
		panic("unknown name in a result: " + name)
	}
	return id
}

// milliOf: the value of a Quantity in milli-units; the harness asserts that it is one
func milliOf(q resource.Quantity) int64 {
	mv := q.MilliValue()
	if q.Cmp(*resource.NewMilliQuantity(mv, resource.DecimalSI)) != 0 {
		panic(fmt.Sprintf("quantity %s is not an integral number of milli-units in the int64 range", q.String()))
	}
	return mv
}

// ---- job spec <-> tokens ----

type capSpec struct{ dim, milli int64 }
type reqSpec struct {
	class, count int64
	caps         []capSpec
}
type taskSpec struct {
	ns, name, uid, role int64
	req                 []reqSpec // nil = DRAResreq nil
	hasReq              bool
}
type jobSpec struct {
	min   int64
	tma   [][2]int64
	tasks []taskSpec
}

func parseReq(r *tokReader) []reqSpec {
	n := int(r.next())
	out := make([]reqSpec, 0, n)
	for i := 0; i < n; i++ {
		q := reqSpec{class: r.next(), count: r.next()}
		m := int(r.next())
		for k := 0; k < m; k++ {
			q.caps = append(q.caps, capSpec{r.next(), r.next()})
		}
		out = append(out, q)
	}
	return out
}

func parseJob(r *tokReader) jobSpec {
	j := jobSpec{min: r.next()}
	n := int(r.next())
	for i := 0; i < n; i++ {
		j.tma = append(j.tma, [2]int64{r.next(), r.next()})
	}
	n = int(r.next())
	for i := 0; i < n; i++ {
		t := taskSpec{ns: r.next(), name: r.next(), uid: r.next(), role: r.next()}
		if r.next() != 0 {
			t.hasReq = true
			t.req = parseReq(r)
		}
		j.tasks = append(j.tasks, t)
	}
	return j
}

func reqTokens(req []reqSpec) []int64 {
	out := []int64{int64(len(req))}
	for _, q := range req {
		out = append(out, q.class, q.count, int64(len(q.caps)))
		for _, c := range q.caps {
			out = append(out, c.dim, c.milli)
		}
	}
	return out
}

func (j jobSpec) tokens() []int64 {
	out := []int64{j.min, int64(len(j.tma))}
	for _, e := range j.tma {
		out = append(out, e[0], e[1])
	}
	out = append(out, int64(len(j.tasks)))
	for _, t := range j.tasks {
		out = append(out, t.ns, t.name, t.uid, t.role)
		if t.hasReq {
			out = append(out, 1)
			out = append(out, reqTokens(t.req)...)
		} else {
			out = append(out, 0)
		}
	}
	return out
}

func buildDRA(q reqSpec) *api.DRAResource {
	d := &api.DRAResource{Count: q.count}
	if len(q.caps) > 0 {
		d.Capacity = map[string]resource.Quantity{}
		for _, c := range q.caps {
			q := *resource.NewMilliQuantity(c.milli, resource.DecimalSI)
			if decBacked(c) {
				q.AsDec() // same value, held behind an *inf.Dec (as a parsed "1.5Gi"): a struct copy shares it
			}
			d.Capacity[dimName(c.dim)] = q
		}
	}
	return d
}

// decBacked: which capacities are built in big-decimal form — decided by the tokens (about two in three), so
// that every DRA selector sees both representations without a change of the wire format or of the model
func decBacked(c capSpec) bool { return (c.milli+c.dim)%3 != 0 }

func buildReq(req []reqSpec) map[string]*api.DRAResource {
	m := map[string]*api.DRAResource{}
	for _, q := range req {
		if _, dup := m[className(q.class)]; dup {
			continue // list_to_map keeps the first binding
		}
		m[className(q.class)] = buildDRA(q)
	}
	return m
}

// buildJob: a real JobInfo with real TaskInfos, added through AddTaskInfo
func buildJob(j jobSpec) *api.JobInfo {
	job := api.NewJobInfo(api.JobID("verif/c16-job"))
	if j.min > math.MaxInt32 || j.min < math.MinInt32 {
		panic("generator: MinAvailable outside int32")
	}
	job.MinAvailable = int32(j.min)
	for _, e := range j.tma {
		if e[1] > math.MaxInt32 || e[1] < math.MinInt32 {
			panic("generator: TaskMinAvailable outside int32")
		}
		if _, dup := job.TaskMinAvailable[roleName(e[0])]; !dup {
			job.TaskMinAvailable[roleName(e[0])] = int32(e[1])
		}
	}
	for _, t := range j.tasks {
		ti := &api.TaskInfo{
			UID:        api.TaskID(fmt.Sprintf("uid-%08d", t.uid)),
			Job:        job.UID,
			Name:       fmt.Sprintf("task-%08d", t.name),
			Namespace:  fmt.Sprintf("ns-%08d", t.ns),
			TaskRole:   roleName(t.role),
			Resreq:     api.EmptyResource(),
			InitResreq: api.EmptyResource(),
		}
		ti.Status = api.Pending
		if t.hasReq {
			ti.DRAResreq = buildReq(t.req)
		}
		if _, dup := job.Tasks[ti.UID]; dup {
			panic("generator: duplicate task uid")
		}
		job.AddTaskInfo(ti)
	}
	return job
}

func encDRA(d *api.DRAResource) []int64 {
	out := []int64{d.Count}
	type kv struct{ k, v int64 }
	caps := []kv{}
	for dim, q := range d.Capacity {
		caps = append(caps, kv{idOf(dim, "dim-"), milliOf(q)})
	}
	sort.Slice(caps, func(a, b int) bool { return caps[a].k < caps[b].k })
	out = append(out, int64(len(caps)))
	for _, c := range caps {
		out = append(out, c.k, c.v)
	}
	return out
}

func encDRAMap(m map[string]*api.DRAResource) []int64 {
	if m == nil {
		return []int64{0}
	}
	ids := []int64{}
	by := map[int64]*api.DRAResource{}
	for c, d := range m {
		id := idOf(c, "class-")
		ids = append(ids, id)
		by[id] = d
	}
	sort.Slice(ids, func(a, b int) bool { return ids[a] < ids[b] })
	out := []int64{1, int64(len(ids))}
	for _, id := range ids {
		if by[id] == nil {
			panic("nil DRAResource in the result")
		}
		out = append(out, id)
		out = append(out, encDRA(by[id])...)
	}
	return out
}

func snapshotTasks(job *api.JobInfo) string {
	keys := []string{}
	for uid := range job.Tasks {
		keys = append(keys, string(uid))
	}
	sort.Strings(keys)
	s := ""
	for _, k := range keys {
		s += k + fmt.Sprint(encDRAMap(job.Tasks[api.TaskID(k)].DRAResreq))
	}
	return s
}

func snapshotTokens(job *api.JobInfo) []int64 {
	keys := []string{}
	for uid := range job.Tasks {
		keys = append(keys, string(uid))
	}
	sort.Strings(keys)
	out := []int64{}
	for _, k := range keys {
		out = append(out, encDRAMap(job.Tasks[api.TaskID(k)].DRAResreq)...)
	}
	return out
}

func runMinDRA(j jobSpec) []int64 {
	return encDRAMap(buildJob(j).GetMinDRAResources())
}

func lenPrefixed(xs []int64) []int64 { return append([]int64{int64(len(xs))}, xs...) }

// lawsUnchangedMinDRA: the tasks' requests observed after GetMinDRAResources equal those observed before (the
// method multiplies and adds capacities: it must work on copies), and a second call gives the same answer
func lawsUnchangedMinDRA(j jobSpec, law func(lsel int, lin []int64, sig string)) {
	job := buildJob(j)
	before := snapshotTokens(job)
	r1 := encDRAMap(job.GetMinDRAResources())
	after := snapshotTokens(job)
	law(108, append(lenPrefixed(before), lenPrefixed(after)...), "")
	r2 := encDRAMap(job.GetMinDRAResources())
	r3 := encDRAMap(job.GetMinDRAResources())
	law(108, append(lenPrefixed(r1), lenPrefixed(r2)...), "")
	law(108, append(lenPrefixed(r2), lenPrefixed(r3)...), "")
}

func runDRAOps(in []int64) []int64 {
	r := &tokReader{t: in}
	dq := reqSpec{count: r.next()}
	n := int(r.next())
	for i := 0; i < n; i++ {
		dq.caps = append(dq.caps, capSpec{r.next(), r.next()})
	}
	d := buildDRA(dq)
	var o *api.DRAResource
	if r.next() != 0 {
		oq := reqSpec{count: r.next()}
		n = int(r.next())
		for i := 0; i < n; i++ {
			oq.caps = append(oq.caps, capSpec{r.next(), r.next()})
		}
		o = buildDRA(oq)
	}
	a := d.Clone()
	a.Add(o)
	s := d.Clone()
	s.Sub(o)
	out := append(tag(1), encDRA(a)...)
	out = append(out, tag(2)...)
	return append(out, encDRA(s)...)
}

// lawsUnchangedDRAOps: receiver's source and ARGUMENT observed after clone.Add(o) applied twice (the first Add
// adopts the argument's quantities for dimensions the receiver lacks, the second adds into them) and clone.Sub(o)
// equal what was observed before
func lawsUnchangedDRAOps(in []int64, law func(lsel int, lin []int64, sig string)) {
	r := &tokReader{t: in}
	dq := reqSpec{count: r.next()}
	n := int(r.next())
	for i := 0; i < n; i++ {
		dq.caps = append(dq.caps, capSpec{r.next(), r.next()})
	}
	d := buildDRA(dq)
	if r.next() == 0 {
		return
	}
	oq := reqSpec{count: r.next()}
	n = int(r.next())
	for i := 0; i < n; i++ {
		oq.caps = append(oq.caps, capSpec{r.next(), r.next()})
	}
	o := buildDRA(oq)
	before := append(encDRA(d), encDRA(o)...)
	a := d.Clone()
	a.Add(o)
	a.Add(o)
	e := &api.DRAResource{} // a receiver without any capacity adopts every quantity of the argument
	e.Add(o)
	e.Add(o)
	s := d.Clone()
	s.Sub(o)
	after := append(encDRA(d), encDRA(o)...)
	law(108, append(lenPrefixed(before), lenPrefixed(after)...), "")
}

// bumped: the same job with larger counts, larger positive multiplicities and a larger MinAvailable
func bumped(j jobSpec, seed uint64) jobSpec {
	rng := vh.NewRng(seed)
	delta := func() int64 {
		switch rng.Intn(4) {
		case 0:
			return 0
		case 1:
			return 1
		case 2:
			return int64(rng.Range(1, 1000))
		default:
			return int64(rng.U64() >> uint(1+rng.Intn(63)))
		}
	}
	out := jobSpec{min: j.min}
	if j.min < math.MaxInt32 && rng.Chance(1, 2) {
		out.min++
	}
	for _, e := range j.tma {
		n := e[1]
		if n > 0 {
			d := delta()
			if d > int64(math.MaxInt32)-n {
				n = math.MaxInt32
			} else {
				n += d
			}
		}
		out.tma = append(out.tma, [2]int64{e[0], n})
	}
	// per role one delta per class so that same-role tasks keep identical requests
	type rc struct{ role, class int64 }
	deltas := map[rc]int64{}
	for _, t := range j.tasks {
		nt := t
		if t.hasReq {
			nt.req = nil
			for _, q := range t.req {
				key := rc{t.role, q.class}
				if len(j.tma) == 0 {
					key = rc{-t.uid, q.class}
				}
				d, ok := deltas[key]
				if !ok {
					d = delta()
					deltas[key] = d
				}
				nq := q
				if q.count >= 0 {
					if d > math.MaxInt64-q.count {
						nq.count = math.MaxInt64
					} else {
						nq.count = q.count + d
					}
				}
				nt.req = append(nt.req, nq)
			}
		}
		out.tasks = append(out.tasks, nt)
	}
	return out
}

func hashTokens(in []int64) uint64 {
	h := uint64(1469598103934665603)
	for _, v := range in {
		h ^= uint64(v)
		h *= 1099511628211
	}
	return h
}

func lawsMinDRA(in, got []int64, law func(lsel int, lin []int64, sig string)) {
	law(105, append(append([]int64{}, in...), got...), "")
	j := parseJob(&tokReader{t: in})
	lawsUnchangedMinDRA(j, law)
	j2 := bumped(j, hashTokens(in))
	got2 := runMinDRA(j2)
	lin := append(append([]int64{}, in...), j2.tokens()...)
	lin = append(lin, got...)
	lin = append(lin, got2...)
	law(106, lin, "")
}

// ---- generators ----

var countEdges = []int64{0, 1, 2, 3, 7, math.MaxInt64, math.MaxInt64 - 1, math.MaxInt64 - 7, math.MaxInt64 / 2, math.MaxInt64/2 + 1,
	math.MaxInt64 / 3, math.MaxInt64/3 + 1, 1 << 62, (1 << 62) + 1, (1 << 62) - 1, 1 << 61, 1 << 31, (1 << 31) - 1, (1 << 31) + 1, 1 << 32, (1 << 32) + 1,
	3037000499, 3037000500, 4294967296 * 3, 6148914691236517205}

func genCount(r *vh.Rng) int64 {
	switch r.Intn(7) {
	case 0, 1:
		return vh.Pick(r, countEdges)
	case 2:
		v := vh.Pick(r, countEdges)
		d := int64(r.Range(-3, 3))
		if (d > 0 && v > math.MaxInt64-d) || v+d < 0 {
			return v
		}
		return v + d
	case 3, 4:
		return int64(r.Range(0, 16))
	default:
		return int64(r.U64() >> uint(1+r.Intn(63)))
	}
}

func genTimes(r *vh.Rng) int64 {
	switch r.Intn(8) {
	case 0:
		return 1
	case 1:
		return int64(r.Range(2, 5))
	case 2:
		return math.MaxInt32
	case 3:
		return int64(vh.Pick(r, []int{1 << 16, 1 << 30, (1 << 31) - 2, 65535, 46341, 46340}))
	case 4:
		return int64(vh.Pick(r, []int{0, -1, math.MinInt32})) // role not required: skipped
	default:
		return int64(r.Range(1, 64))
	}
}

func genCaps(r *vh.Rng) []capSpec {
	n := vh.Pick(r, []int{0, 0, 1, 1, 2})
	dims := []int64{1, 2, 3}
	out := []capSpec{}
	for i := 0; i < n; i++ {
		var m int64
		switch r.Intn(5) {
		case 0:
			m = int64(r.Range(0, 3))
		case 1:
			m = int64(r.Range(1, 64)) * 1000
		case 2:
			m = int64(r.Range(1, 1<<28))
		case 3:
			m = 2500
		default:
			m = int64(r.Range(1, 16)) << 20
		}
		out = append(out, capSpec{dims[i], m})
	}
	return out
}

func genReq(r *vh.Rng, classes []int64, count func() int64) []reqSpec {
	out := []reqSpec{}
	for _, c := range classes {
		if r.Chance(2, 3) {
			out = append(out, reqSpec{class: c, count: count(), caps: genCaps(r)})
		}
	}
	return out
}

// nearSum: k counts whose products with the given multiplicities each fit comfortably but whose SUM
// lands within a few units of MaxInt64 (below, at, above)
func nearSum(r *vh.Rng, times []int64) []int64 {
	k := int64(len(times))
	out := make([]int64, len(times))
	target := int64(math.MaxInt64)
	if r.Chance(1, 3) {
		target = math.MaxInt64/2 + int64(r.Range(-2, 2))
	}
	var sum int64 // exact while below target
	for i, t := range times {
		share := target / k / t
		out[i] = share
		sum += share * t
	}
	// spread the remainder (and a small excess / deficit) over the entries with multiplicity 1
	rest := target - sum + int64(r.Range(-2, 3))
	for i, t := range times {
		if t == 1 && rest > 0 && out[i] <= math.MaxInt64-rest {
			out[i] += rest
			break
		}
	}
	return out
}

func genJob(r *vh.Rng) (jobSpec, string) {
	classes := []int64{}
	for _, c := range []int64{1, 2, 3, 4, 5} {
		if r.Chance(1, 2) {
			classes = append(classes, c)
		}
	}
	if len(classes) == 0 {
		classes = []int64{vh.Pick(r, []int64{1, 2, 3})}
	}
	nTasks := r.Range(0, 8)
	if r.Chance(1, 20) {
		nTasks = 0
	}
	uids := r.Fork()
	perm := make([]int64, nTasks)
	for i := range perm {
		perm[i] = int64(i + 1)
	}
	for i := len(perm) - 1; i > 0; i-- {
		k := uids.Intn(i + 1)
		perm[i], perm[k] = perm[k], perm[i]
	}
	j := jobSpec{}
	if r.Chance(3, 5) {
		// per-role path: all tasks of one role carry the same request (or none)
		nRoles := r.Range(1, 6)
		roles := []int64{}
		reqs := map[int64][]reqSpec{}
		mode := r.Intn(3)
		for i := 0; i < nRoles; i++ {
			role := int64(i + 1)
			roles = append(roles, role)
			if r.Chance(5, 6) {
				j.tma = append(j.tma, [2]int64{role, genTimes(r)})
			}
		}
		if len(j.tma) == 0 {
			j.tma = append(j.tma, [2]int64{1, genTimes(r)})
		}
		for _, role := range roles {
			reqs[role] = genReq(r, classes, func() int64 { return genCount(r) })
		}
		if mode == 0 {
			// sums that overflow only in the accumulation: fix the multiplicities, split MaxInt64
			times := []int64{}
			for i := range j.tma {
				if j.tma[i][1] <= 0 {
					j.tma[i][1] = int64(r.Range(1, 3))
				}
				if r.Chance(1, 2) {
					j.tma[i][1] = 1
				}
				times = append(times, j.tma[i][1])
			}
			for _, c := range classes {
				cs := nearSum(r, times)
				for i, e := range j.tma {
					role := e[0]
					found := false
					for k := range reqs[role] {
						if reqs[role][k].class == c {
							reqs[role][k].count = cs[i]
							found = true
						}
					}
					if !found {
						reqs[role] = append(reqs[role], reqSpec{class: c, count: cs[i]})
					}
				}
			}
		}
		for i := 0; i < nTasks; i++ {
			role := vh.Pick(r, roles)
			if r.Chance(1, 8) {
				role = int64(nRoles + 1 + r.Intn(2)) // a role TaskMinAvailable does not know
				if _, ok := reqs[role]; !ok {
					reqs[role] = genReq(r, classes, func() int64 { return genCount(r) })
				}
			}
			t := taskSpec{ns: int64(r.Intn(2)), name: int64(r.Intn(4)), uid: perm[i], role: role}
			if r.Chance(4, 5) {
				t.hasReq = true
				t.req = reqs[role]
			}
			j.tasks = append(j.tasks, t)
		}
		j.min = int64(r.Range(-1, 4))
		return j, "min_dra/roles"
	}
	// fallback path: no TaskMinAvailable; the first MinAvailable tasks (by ns, name, uid) with a request
	j.min = int64(vh.Pick(r, []int{0, -1, 1, 2, 3, 4, 6, 8, 100, math.MaxInt32}))
	mode := r.Intn(3)
	for i := 0; i < nTasks; i++ {
		t := taskSpec{ns: int64(r.Intn(2)), name: int64(r.Intn(3)), uid: perm[i], role: int64(r.Range(1, 3))}
		if r.Chance(5, 6) {
			t.hasReq = true
			t.req = genReq(r, classes, func() int64 {
				c := genCount(r)
				if mode == 2 && r.Chance(1, 6) {
					return -c - 1 // the fallback order is fixed by the sort, so mixed signs are deterministic
				}
				return c
			})
		}
		j.tasks = append(j.tasks, t)
	}
	if mode == 0 && nTasks >= 2 {
		times := make([]int64, nTasks)
		for i := range times {
			times[i] = 1
		}
		for _, c := range classes {
			cs := nearSum(r, times)
			for i := range j.tasks {
				if !j.tasks[i].hasReq {
					continue
				}
				found := false
				for k := range j.tasks[i].req {
					if j.tasks[i].req[k].class == c {
						j.tasks[i].req[k].count = cs[i]
						found = true
					}
				}
				if !found {
					j.tasks[i].req = append(j.tasks[i].req, reqSpec{class: c, count: cs[i]})
				}
			}
		}
	}
	return j, "min_dra/fallback"
}

func contributing(j jobSpec) int {
	n := 0
	for _, t := range j.tasks {
		if t.hasReq && len(t.req) > 0 {
			n++
		}
	}
	return n
}

func directedJobs() []jobSpec {
	gpu := int64(1)
	return []jobSpec{
		// two roles whose products each nearly saturate: the per-class total must saturate too
		{tma: [][2]int64{{2, 2}, {3, 3}}, tasks: []taskSpec{
			{name: 1, uid: 1, role: 2, hasReq: true, req: []reqSpec{{class: gpu, count: math.MaxInt64/2 + 1}}},
			{name: 2, uid: 2, role: 3, hasReq: true, req: []reqSpec{{class: gpu, count: math.MaxInt64 / 3}}}}},
		// fallback path, two tasks, products cannot overflow, only the sum
		{min: 2, tasks: []taskSpec{
			{name: 1, uid: 1, role: 1, hasReq: true, req: []reqSpec{{class: gpu, count: math.MaxInt64 - 7}}},
			{name: 2, uid: 2, role: 1, hasReq: true, req: []reqSpec{{class: gpu, count: math.MaxInt64 - 7}}}}},
		// sum exactly MaxInt64, one below, one above
		{min: 3, tasks: []taskSpec{
			{name: 1, uid: 1, role: 1, hasReq: true, req: []reqSpec{{class: gpu, count: 1 << 62}}},
			{name: 2, uid: 2, role: 1, hasReq: true, req: []reqSpec{{class: gpu, count: (1 << 62) - 1}}}}},
		{min: 3, tasks: []taskSpec{
			{name: 1, uid: 1, role: 1, hasReq: true, req: []reqSpec{{class: gpu, count: 1 << 62}}},
			{name: 2, uid: 2, role: 1, hasReq: true, req: []reqSpec{{class: gpu, count: 1 << 62}}}}},
		{min: 3, tasks: []taskSpec{
			{name: 1, uid: 1, role: 1, hasReq: true, req: []reqSpec{{class: gpu, count: 1 << 62}}},
			{name: 2, uid: 2, role: 1, hasReq: true, req: []reqSpec{{class: gpu, count: (1 << 62) - 2}}},
			{name: 3, uid: 3, role: 1, hasReq: true, req: []reqSpec{{class: gpu, count: 1, caps: []capSpec{{1, 2500}}}}}}},
		// product overflow (2^32 * 2^31) in one role, small in the other; capacities summed
		{tma: [][2]int64{{2, 1 << 31 - 1}, {3, 1}}, tasks: []taskSpec{
			{name: 1, uid: 1, role: 2, hasReq: true, req: []reqSpec{{class: gpu, count: (1 << 32) + 3, caps: []capSpec{{1, 1000}, {2, 1 << 28}}}}},
			{name: 2, uid: 2, role: 3, hasReq: true, req: []reqSpec{{class: gpu, count: 5, caps: []capSpec{{1, 500}}}, {class: 2, count: 0}}}}},
		// six contributions of MaxInt64/6 (+ remainder)
		{min: 6, tasks: func() []taskSpec {
			ts := []taskSpec{}
			for i := int64(1); i <= 6; i++ {
				c := int64(math.MaxInt64 / 6)
				if i == 6 {
					c += math.MaxInt64%6 + 1
				}
				ts = append(ts, taskSpec{ns: i % 2, name: 7 - i, uid: i, role: 1, hasReq: true, req: []reqSpec{{class: gpu, count: c}}})
			}
			return ts
		}()},
	}
}

func genDRAOps(r *vh.Rng) []int64 {
	side := func(count int64) []int64 {
		caps := genCaps(r)
		out := []int64{count, int64(len(caps))}
		for _, c := range caps {
			out = append(out, c.dim, c.milli)
		}
		return out
	}
	a, b := genI64(r), genI64(r)
	if r.Chance(2, 3) {
		a, b = genCount(r), genCount(r)
	}
	in := side(a)
	if r.Chance(1, 10) {
		return append(in, 0)
	}
	in = append(in, 1)
	return append(in, side(b)...)
}

// ---- clones share no storage: clone, mutate the clone, observe the source (selector 15, law 118) ----

type capB struct {
	dim, milli int64
	dec        bool // the Quantity is backed by an *inf.Dec (a struct copy shares it)
}

func parseDRAB(r *tokReader) (int64, []capB) {
	count := r.next()
	n := int(r.next())
	caps := []capB{}
	for i := 0; i < n; i++ {
		caps = append(caps, capB{r.next(), r.next(), r.next() != 0})
	}
	return count, caps
}

func buildDRAB(count int64, caps []capB) *api.DRAResource {
	d := &api.DRAResource{Count: count}
	if len(caps) > 0 {
		d.Capacity = map[string]resource.Quantity{}
		for _, c := range caps {
			if _, dup := d.Capacity[dimName(c.dim)]; dup {
				continue
			}
			q := *resource.NewMilliQuantity(c.milli, resource.DecimalSI)
			if c.dec {
				q.AsDec() // switches q to its big-decimal representation, as parsing "1.5Gi" does
			}
			d.Capacity[dimName(c.dim)] = q
		}
	}
	return d
}

// cloneMutate returns the source as observed before, after clone.Add(o), after clone.Sub(o), after adding o to
// the request of a TaskInfo.Clone() snapshot, and the two mutated clones
func cloneMutate(in []int64) (before, a1, a2, a3, added, subbed []int64) {
	r := &tokReader{t: in}
	dc, dcaps := parseDRAB(r)
	oc, ocaps := parseDRAB(r)
	d := buildDRAB(dc, dcaps)
	o := buildDRAB(oc, ocaps)
	before = encDRA(d)
	c1 := d.Clone()
	c1.Add(o)
	a1 = encDRA(d)
	c2 := d.Clone()
	c2.Sub(o)
	a2 = encDRA(d)
	ti := &api.TaskInfo{UID: "t", Name: "t", Namespace: "ns", Resreq: api.EmptyResource(), InitResreq: api.EmptyResource(),
		NumaInfo: &api.TopologyInfo{}, DRAResreq: map[string]*api.DRAResource{"class": d}}
	snap := ti.Clone()
	snap.DRAResreq["class"].Add(o)
	a3 = encDRA(d)
	return before, a1, a2, a3, encDRA(c1), encDRA(c2)
}

func runCloneMutate(in []int64) []int64 {
	_, a1, a2, a3, added, subbed := cloneMutate(in)
	out := append(tag(1), a1...)
	out = append(append(out, tag(2)...), a2...)
	out = append(append(out, tag(3)...), a3...)
	out = append(append(out, tag(4)...), added...)
	return append(append(out, tag(5)...), subbed...)
}

func lawsCloneMutate(in []int64, law func(lsel int, lin []int64, sig string)) {
	before, a1, a2, a3, _, _ := cloneMutate(in)
	r := &tokReader{t: in}
	parseDRAB(r)
	lin := append([]int64{}, in[:r.i]...) // the source d as given
	lin = append(append(append(append(lin, before...), a1...), a2...), a3...)
	law(118, lin, "")
	// the ARGUMENT after the adopting Add (twice) and Sub = the argument before
	r = &tokReader{t: in}
	dc, dcaps := parseDRAB(r)
	oc, ocaps := parseDRAB(r)
	d, o := buildDRAB(dc, dcaps), buildDRAB(oc, ocaps)
	ob := encDRA(o)
	c := d.Clone()
	c.Add(o)
	c.Add(o)
	e := &api.DRAResource{}
	e.Add(o)
	e.Add(o)
	c.Sub(o)
	law(108, append(lenPrefixed(ob), lenPrefixed(encDRA(o))...), "")
}

func genCloneMutate(r *vh.Rng) []int64 {
	side := func(forceDims []int64) ([]int64, []int64) {
		dims := []int64{}
		for _, k := range []int64{1, 2, 3} {
			if r.Chance(1, 2) {
				dims = append(dims, k)
			}
		}
		for _, k := range forceDims { // share dimensions with the other side so that Add / Sub touch them
			has := false
			for _, x := range dims {
				has = has || x == k
			}
			if !has && r.Chance(3, 4) {
				dims = append(dims, k)
			}
		}
		sort.Slice(dims, func(a, b int) bool { return dims[a] < dims[b] })
		out := []int64{genCount(r), int64(len(dims))}
		for _, k := range dims {
			var m int64
			switch r.Intn(4) {
			case 0:
				m = 1610612736000 // 1.5Gi
			case 1:
				m = int64(r.Range(1, 64)) << 30 * 1000
			case 2:
				m = int64(r.Range(1, 5000))
			default:
				m = int64(r.Range(1, 1<<28))
			}
			out = append(out, k, m, int64(r.Intn(2)))
		}
		return out, dims
	}
	d, dims := side(nil)
	o, _ := side(dims)
	return append(d, o...)
}

func directedCloneMutate() [][]int64 {
	return [][]int64{
		// 1.5Gi held as a big decimal, 1Gi added into the clone (the shape of a parsed "1.5Gi" request)
		{2, 1, 1, 1610612736000, 1, 1, 1, 1, 1073741824000, 0},
		{2, 1, 1, 1610612736000, 0, 1, 1, 1, 1073741824000, 0},
		{2, 1, 1, 1610612736000, 1, 1, 1, 1, 1073741824000, 1},
		{5, 2, 1, 2500, 1, 2, 68719476736000, 1, 3, 2, 1, 500, 1, 2, 1000, 0},
		{1, 1, 2, 1000, 1, 0, 0},
	}
}
