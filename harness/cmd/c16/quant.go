// Conversions between Kubernetes quantities and scheduler Resources on the real code:
// api.NewResource (selector 7) and util.ConvertRes2ResList (selector 8), and both round trips.
package main

import (
	"fmt"
	"math"
	"math/big"
	"sort"

	v1 "k8s.io/api/core/v1"
	"k8s.io/apimachinery/pkg/api/resource"

	"verif/harness/internal/vh"
	"volcano.sh/volcano/pkg/scheduler/api"
	"volcano.sh/volcano/pkg/scheduler/util"
)

// resource names of a v1.ResourceList: model key -> name.  The class of every key (which branch of
// the switch in NewResource it takes) is fixed in coq/theories/C16/QuantModel.v name_class; if a
// name here behaved differently, the correspondence on selector 7 would disagree.
var rlName = map[int64]v1.ResourceName{
	1:  v1.ResourcePods,             // CPods
	2:  v1.ResourceCPU,              // CCpu
	3:  v1.ResourceMemory,           // CMem
	4:  "nvidia.com/gpu",            // CScalar (extended)
	5:  "example.com/foo",           // CScalar (extended)
	6:  "hugepages-2Mi",             // CScalar (hugepages-)
	7:  v1.ResourceEphemeralStorage, // CEph
	8:  "example.com/bar",           // CScalar
	9:  "count/pods",                // CCountQuota
	10: "storage",                   // CDropped (native, not a scalar resource name)
	11: "kubernetes.io/batch-cpu",   // CScalar (prefixed native)
	12: "attachable-volumes-aws-ebs", // CScalar (attachable volume)
	13: "requests.example.com/foo",  // CDropped (requests. prefix is not an extended name)
	14: "count/jobs.batch",          // CCountQuota
	15: "example.com/ignored",       // CIgnoredDev (listed in IgnoredDevicesList below)
	16: "hugepages-1Gi",             // CScalar
}
var rlKey = map[v1.ResourceName]int64{}

func init() {
	for k, n := range rlName {
		rlKey[n] = k
		if k != 2 && k != 3 {
			scalarName[k] = n
			scalarKey[string(n)] = k
		}
	}
	api.IgnoredDevicesList.Set([]string{"example.com/ignored"})
}

// a quantity travels as (whole units, remaining milli-units): whole-unit quantities up to 2^63 units fit
func decRl(r *tokReader) v1.ResourceList {
	n := int(r.next())
	rl := v1.ResourceList{}
	for i := 0; i < n; i++ {
		k, u, f := r.next(), r.next(), r.next()
		name, ok := rlName[k]
		if !ok {
			panic("generator: unknown resource name key")
		}
		if _, dup := rl[name]; dup {
			continue
		}
		switch {
		case f == 0 && (k%2 == 0 || u > math.MaxInt64/1000 || u < math.MinInt64/1000):
			rl[name] = *resource.NewQuantity(u, resource.BinarySI)
		case u > math.MaxInt64/1000 || (u == math.MaxInt64/1000 && f > math.MaxInt64%1000) ||
			u < math.MinInt64/1000 || (u == math.MinInt64/1000 && f < math.MinInt64%1000):
			panic("generator: fractional quantity outside the int64 milli range")
		default:
			rl[name] = *resource.NewMilliQuantity(u*1000+f, resource.DecimalSI)
		}
	}
	return rl
}

// quantityParts: q = units + frac/1000 exactly (both of q's sign); the harness asserts that it is
func quantityParts(q resource.Quantity) (int64, int64) {
	d := q.AsDec()
	milli := new(big.Int).Set(d.UnscaledBig())
	sc := int(d.Scale()) // value = unscaled * 10^-scale
	if sc <= 3 {
		milli.Mul(milli, new(big.Int).Exp(big.NewInt(10), big.NewInt(int64(3-sc)), nil))
	} else {
		div := new(big.Int).Exp(big.NewInt(10), big.NewInt(int64(sc-3)), nil)
		rem := new(big.Int)
		milli.QuoRem(milli, div, rem)
		if rem.Sign() != 0 {
			panic(fmt.Sprintf("quantity %s is not an integral number of milli-units", q.String()))
		}
	}
	frac := new(big.Int)
	units := new(big.Int)
	units.QuoRem(milli, big.NewInt(1000), frac) // truncated division: remainder has the sign of milli
	if !units.IsInt64() {
		panic(fmt.Sprintf("quantity %s does not fit int64 units", q.String()))
	}
	return units.Int64(), frac.Int64()
}

func encRl(rl v1.ResourceList) []int64 {
	keys := []int64{}
	for n := range rl {
		k, ok := rlKey[n]
		if !ok {
			panic("unknown resource name in a ResourceList: " + string(n))
		}
		keys = append(keys, k)
	}
	sort.Slice(keys, func(a, b int) bool { return keys[a] < keys[b] })
	out := []int64{int64(len(keys))}
	for _, k := range keys {
		u, f := quantityParts(rl[rlName[k]])
		out = append(out, k, u, f)
	}
	return out
}

func encResMT(r *api.Resource) []int64 {
	out := append(tag(1), encRes(r)...)
	out = append(out, tag(2)...)
	return append(out, int64(r.MaxTaskNum))
}

func runNewResource(in []int64) []int64 {
	grid = 1.0
	rl := decRl(&tokReader{t: in})
	before := fmt.Sprint(encRl(rl))
	r := api.NewResource(rl)
	if fmt.Sprint(encRl(rl)) != before {
		panic("NewResource modified its ResourceList")
	}
	return encResMT(r)
}

func runConvert(in []int64) []int64 {
	grid = 1.0
	r := decRes(&tokReader{t: in})
	before := fmt.Sprint(r.MilliCPU, r.Memory, r.ScalarResources)
	rl := util.ConvertRes2ResList(r)
	if fmt.Sprint(r.MilliCPU, r.Memory, r.ScalarResources) != before {
		panic("ConvertRes2ResList modified its Resource")
	}
	return encRl(rl)
}

func cat(xs ...[]int64) (o []int64) {
	for _, x := range xs {
		o = append(o, x...)
	}
	return
}

// both round trips, starting from a ResourceList ...
func lawsNewResource(in []int64, law func(lsel int, lin []int64, sig string)) {
	grid = 1.0
	rl := decRl(&tokReader{t: in})
	r := api.NewResource(rl)
	rl2 := util.ConvertRes2ResList(r)
	law(121, cat(encRl(rl), encRes(r), []int64{int64(r.MaxTaskNum)}, encRl(rl2)), "")
	r2 := api.NewResource(rl2)
	law(120, cat(encRes(r), encRl(rl2), encRes(r2), []int64{int64(r2.MaxTaskNum)}), "")
}

// ... and from a Resource
func lawsConvert(in []int64, law func(lsel int, lin []int64, sig string)) {
	grid = 1.0
	r := decRes(&tokReader{t: in})
	rl := util.ConvertRes2ResList(r)
	r2 := api.NewResource(rl)
	law(120, cat(encRes(r), encRl(rl), encRes(r2), []int64{int64(r2.MaxTaskNum)}), "")
	rl2 := util.ConvertRes2ResList(r2)
	law(121, cat(encRl(rl), encRes(r2), []int64{int64(r2.MaxTaskNum)}, encRl(rl2)), "")
}

// ---- generators ----

func genMilli(r *vh.Rng) int64 {
	switch r.Intn(10) {
	case 0:
		return 0
	case 1:
		return vh.Pick(r, []int64{1, 999, 1000, 1001, 1500, 2500, 100, 250})
	case 2:
		return int64(r.Range(1, 64)) * 1000
	case 3:
		return int64(r.Range(1, 1<<20))
	case 4:
		return int64(r.Range(1, 4096)) * 1000 << 20 // Mi-scale whole units
	case 5:
		// large, below the float-exact bound 2^53
		return (int64(1) << 53) - int64(r.Range(0, 5000))
	case 6:
		return int64(r.U64() >> uint(11+r.Intn(50)))
	case 7:
		return -int64(r.Range(1, 5000)) // negative quantities are legal (idle after over-commit)
	default:
		return int64(r.Range(1, 9999))
	}
}

var allNames = []int64{1, 2, 3, 4, 5, 6, 7, 8, 9, 10, 11, 12, 13, 14, 15, 16}
var keptScalars = []int64{1, 4, 5, 6, 7, 8, 11, 12, 16}
var lostScalars = []int64{9, 10, 13, 14, 15}

// float64-exact integers above 2^53: m * 2^k with m < 2^53 and the product below 2^63, the boundary values
// 2^53, 2^53+2, 2^62, 2^63-1024; with exact=false also the non-representable 2^53+1, 2^53+3, 2^62+1 (a
// Quantity can hold them; NewResource rounds them to float64)
func genLarge(r *vh.Rng, exact bool) int64 {
	switch r.Intn(6) {
	case 0:
		return vh.Pick(r, []int64{1 << 53, (1 << 53) + 2, (1 << 53) - 1, (1 << 53) - 2, (1 << 53) + 4, 1 << 62, (1 << 63) - 1024, (1 << 63) - 2048, 1 << 60, 3 << 60, 1 << 54})
	case 1:
		if !exact {
			return vh.Pick(r, []int64{(1 << 53) + 1, (1 << 53) + 3, (1 << 62) + 1, (1 << 54) + 2, (1 << 54) + 6, (1 << 63) - 513, (1 << 63) - 1023, (1 << 63) - 1025})
		}
		fallthrough
	default:
		k := uint(r.Range(1, 10))
		m := int64(r.U64()>>11) | 1<<52 // 53 significant bits
		if r.Chance(1, 3) {
			m = int64(r.U64() >> uint(12+r.Intn(40)))
			k = uint(r.Range(1, 62))
			for m >= 1<<(63-k) {
				m >>= 1
			}
		}
		return m << k
	}
}

// (units, frac) of a milli amount
func parts(m int64) (int64, int64) { return m / 1000, m % 1000 }

func genRl(r *vh.Rng) []int64 {
	p := vh.Pick(r, []int{1, 2, 3})
	out := []int64{0}
	n := int64(0)
	large := r.Chance(1, 3)
	for _, k := range allNames {
		if r.Chance(p, 4) {
			var u, f int64
			switch {
			case large && r.Chance(1, 2) && (k == 1 || k == 3):
				u, f = genLarge(r, r.Chance(2, 3)), 0 // whole units (memory bytes, pods) up to 2^63
			case large && r.Chance(1, 2):
				u, f = parts(genLarge(r, r.Chance(2, 3))) // milli amounts up to 2^63
			default:
				u, f = parts(genMilli(r))
			}
			out = append(out, k, u, f)
			n++
		}
	}
	out[0] = n
	return out
}

// a Resource on the unit grid: cpu in milli, memory in bytes, scalars in milli (pods: whole pods)
func genResUnit(r *vh.Rng) []int64 {
	large := r.Chance(1, 3)
	sentinel := r.Chance(1, 25)
	amount := func() int64 {
		if sentinel && r.Chance(1, 2) {
			return sentinelTok // math.MaxFloat64, as in InfiniteResource()
		}
		if large && r.Chance(1, 2) {
			return genLarge(r, true)
		}
		v := genMilli(r)
		if v >= 1<<53 {
			v = 1<<53 - 1
		}
		return v
	}
	out := []int64{amount(), amount()}
	switch r.Intn(8) {
	case 0:
		return append(out, 0, 0) // nil map
	case 1:
		return append(out, 1, 0) // empty non-nil map: comes back as nil
	}
	keys := []int64{}
	for _, k := range keptScalars {
		if r.Chance(1, 3) {
			keys = append(keys, k)
		}
	}
	if r.Chance(1, 6) {
		keys = append(keys, vh.Pick(r, lostScalars)) // names NewResource does not keep
	}
	sort.Slice(keys, func(a, b int) bool { return keys[a] < keys[b] })
	out = append(out, 1, int64(len(keys)))
	for _, k := range keys {
		out = append(out, k, amount())
	}
	return out
}

func directedQuant(emit func(id string, sel int, in []int64, kind string, nontrivial bool, desc any)) {
	// every kept name with a fractional-unit amount, alone and together
	for i, k := range []int64{2, 3, 1, 7, 4, 6, 11, 12, 16} {
		for j, m := range []int64{2500, 999, 1, 1000, 1001} {
			emit(fmt.Sprintf("quant-new-directed-%d-%d", i, j), 7, []int64{1, k, m / 1000, m % 1000}, "new_resource/directed", true, nil)
		}
	}
	for i, k := range keptScalars {
		for j, v := range []int64{2500, 999, 1, 1000, 4194304000} {
			emit(fmt.Sprintf("quant-conv-directed-%d-%d", i, j), 8, []int64{1500, 4096, 1, 1, k, v}, "convert/directed", true, nil)
		}
	}
	// above 2^53: 1 Ei of memory, ~9.2 TB of ephemeral-storage in milli-bytes, 2^53+2 pods, 2^63-1024 milli-cpu
	emit("quant-conv-directed-large", 8, []int64{(1 << 63) - 1024, 1 << 60, 1, 3, 1, (1 << 53) + 2, 4, 3 << 60, 7, (1 << 53) + 1024}, "convert/directed", true, nil)
	for i, v := range []int64{1 << 53, (1 << 53) + 2, 1 << 62, (1 << 63) - 1024} {
		emit(fmt.Sprintf("quant-conv-directed-big-%d", i), 8, []int64{v, v, 1, 2, 1, v, 7, v}, "convert/directed", true, nil)
		emit(fmt.Sprintf("quant-new-directed-big-%d", i), 7, []int64{4, 1, v, 0, 2, v / 1000, v % 1000, 3, v, 0, 7, v / 1000, v % 1000}, "new_resource/directed", true, nil)
	}
	// the MaxFloat64 sentinel through ConvertRes2ResList (int64(f) is implementation-defined; amd64: MinInt64)
	emit("quant-conv-directed-sentinel", 8, []int64{sentinelTok, sentinelTok, 0, 0}, "convert/directed", true, nil)
	emit("quant-conv-directed-demo", 8, []int64{1500, 4096, 1, 3, 4, 2500, 6, 4194304000, 7, 2500}, "convert/directed", true, nil)
}
