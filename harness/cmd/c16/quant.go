// Conversions between Kubernetes quantities and scheduler Resources on the real code:
// api.NewResource (selector 7) and util.ConvertRes2ResList (selector 8), and both round trips.
package main

import (
	"fmt"
	"sort"

	v1 "k8s.io/api/core/v1"
	"k8s.io/apimachinery/pkg/api/resource"

	"verif/harness/internal/vh"
	"volcano.sh/volcano/pkg/scheduler/api"
	"volcano.sh/volcano/pkg/scheduler/util"
)

// resource names of a v1.ResourceList: model key -> name.  The class of every key (which branch of
// the switch in NewResource it takes) is fixed in coq/theories/C16/QuantModel.v name_class; if a
// name here behaved differently, the correspondence on selector 7 would disagree.
var rlName = map[int64]v1.ResourceName{
	1:  v1.ResourcePods,             // CPods
	2:  v1.ResourceCPU,              // CCpu
	3:  v1.ResourceMemory,           // CMem
	4:  "nvidia.com/gpu",            // CScalar (extended)
	5:  "example.com/foo",           // CScalar (extended)
	6:  "hugepages-2Mi",             // CScalar (hugepages-)
	7:  v1.ResourceEphemeralStorage, // CEph
	8:  "example.com/bar",           // CScalar
	9:  "count/pods",                // CCountQuota
	10: "storage",                   // CDropped (native, not a scalar resource name)
	11: "kubernetes.io/batch-cpu",   // CScalar (prefixed native)
	12: "attachable-volumes-aws-ebs", // CScalar (attachable volume)
	13: "requests.example.com/foo",  // CDropped (requests. prefix is not an extended name)
	14: "count/jobs.batch",          // CCountQuota
	15: "example.com/ignored",       // CIgnoredDev (listed in IgnoredDevicesList below)
	16: "hugepages-1Gi",             // CScalar
}
var rlKey = map[v1.ResourceName]int64{}

func init() {
	for k, n := range rlName {
		rlKey[n] = k
		if k != 2 && k != 3 {
			scalarName[k] = n
			scalarKey[string(n)] = k
		}
	}
	api.IgnoredDevicesList.Set([]string{"example.com/ignored"})
}

func decRl(r *tokReader) v1.ResourceList {
	n := int(r.next())
	rl := v1.ResourceList{}
	for i := 0; i < n; i++ {
		k, m := r.next(), r.next()
		name, ok := rlName[k]
		if !ok {
			panic("generator: unknown resource name key")
		}
		if _, dup := rl[name]; dup {
			continue
		}
		if m%1000 == 0 && k%2 == 0 {
			rl[name] = *resource.NewQuantity(m/1000, resource.BinarySI)
		} else {
			rl[name] = *resource.NewMilliQuantity(m, resource.DecimalSI)
		}
	}
	return rl
}

func encRl(rl v1.ResourceList) []int64 {
	keys := []int64{}
	for n := range rl {
		k, ok := rlKey[n]
		if !ok {
			panic("unknown resource name in a ResourceList: " + string(n))
		}
		keys = append(keys, k)
	}
	sort.Slice(keys, func(a, b int) bool { return keys[a] < keys[b] })
	out := []int64{int64(len(keys))}
	for _, k := range keys {
		out = append(out, k, milliOf(rl[rlName[k]]))
	}
	return out
}

func encResMT(r *api.Resource) []int64 {
	out := append(tag(1), encRes(r)...)
	out = append(out, tag(2)...)
	return append(out, int64(r.MaxTaskNum))
}

func runNewResource(in []int64) []int64 {
	grid = 1.0
	rl := decRl(&tokReader{t: in})
	before := fmt.Sprint(encRl(rl))
	r := api.NewResource(rl)
	if fmt.Sprint(encRl(rl)) != before {
		panic("NewResource modified its ResourceList")
	}
	return encResMT(r)
}

func runConvert(in []int64) []int64 {
	grid = 1.0
	r := decRes(&tokReader{t: in})
	before := fmt.Sprint(encRes(r))
	rl := util.ConvertRes2ResList(r)
	if fmt.Sprint(encRes(r)) != before {
		panic("ConvertRes2ResList modified its Resource")
	}
	return encRl(rl)
}

func cat(xs ...[]int64) (o []int64) {
	for _, x := range xs {
		o = append(o, x...)
	}
	return
}

// both round trips, starting from a ResourceList ...
func lawsNewResource(in []int64, law func(lsel int, lin []int64, sig string)) {
	grid = 1.0
	rl := decRl(&tokReader{t: in})
	r := api.NewResource(rl)
	rl2 := util.ConvertRes2ResList(r)
	law(121, cat(encRl(rl), encRes(r), []int64{int64(r.MaxTaskNum)}, encRl(rl2)), "")
	r2 := api.NewResource(rl2)
	law(120, cat(encRes(r), encRl(rl2), encRes(r2), []int64{int64(r2.MaxTaskNum)}), "")
}

// ... and from a Resource
func lawsConvert(in []int64, law func(lsel int, lin []int64, sig string)) {
	grid = 1.0
	r := decRes(&tokReader{t: in})
	rl := util.ConvertRes2ResList(r)
	r2 := api.NewResource(rl)
	law(120, cat(encRes(r), encRl(rl), encRes(r2), []int64{int64(r2.MaxTaskNum)}), "")
	rl2 := util.ConvertRes2ResList(r2)
	law(121, cat(encRl(rl), encRes(r2), []int64{int64(r2.MaxTaskNum)}, encRl(rl2)), "")
}

// ---- generators ----

func genMilli(r *vh.Rng) int64 {
	switch r.Intn(10) {
	case 0:
		return 0
	case 1:
		return vh.Pick(r, []int64{1, 999, 1000, 1001, 1500, 2500, 100, 250})
	case 2:
		return int64(r.Range(1, 64)) * 1000
	case 3:
		return int64(r.Range(1, 1<<20))
	case 4:
		return int64(r.Range(1, 4096)) * 1000 << 20 // Mi-scale whole units
	case 5:
		// large, below the float-exact bound 2^53
		return (int64(1) << 53) - int64(r.Range(0, 5000))
	case 6:
		return int64(r.U64() >> uint(11+r.Intn(50)))
	case 7:
		return -int64(r.Range(1, 5000)) // negative quantities are legal (idle after over-commit)
	default:
		return int64(r.Range(1, 9999))
	}
}

var allNames = []int64{1, 2, 3, 4, 5, 6, 7, 8, 9, 10, 11, 12, 13, 14, 15, 16}
var keptScalars = []int64{1, 4, 5, 6, 7, 8, 11, 12, 16}
var lostScalars = []int64{9, 10, 13, 14, 15}

func genRl(r *vh.Rng) []int64 {
	p := vh.Pick(r, []int{1, 2, 3})
	out := []int64{0}
	n := int64(0)
	for _, k := range allNames {
		if r.Chance(p, 4) {
			out = append(out, k, genMilli(r))
			n++
		}
	}
	out[0] = n
	return out
}

// a Resource on the unit grid: cpu in milli, memory in bytes, scalars in milli (pods: whole pods)
func genResUnit(r *vh.Rng) []int64 {
	amount := func() int64 {
		v := genMilli(r)
		if v >= 1<<53 {
			v = 1<<53 - 1
		}
		return v
	}
	out := []int64{amount(), amount()}
	switch r.Intn(8) {
	case 0:
		return append(out, 0, 0) // nil map
	case 1:
		return append(out, 1, 0) // empty non-nil map: comes back as nil
	}
	keys := []int64{}
	for _, k := range keptScalars {
		if r.Chance(1, 3) {
			keys = append(keys, k)
		}
	}
	if r.Chance(1, 6) {
		keys = append(keys, vh.Pick(r, lostScalars)) // names NewResource does not keep
	}
	sort.Slice(keys, func(a, b int) bool { return keys[a] < keys[b] })
	out = append(out, 1, int64(len(keys)))
	for _, k := range keys {
		out = append(out, k, amount())
	}
	return out
}

func directedQuant(emit func(id string, sel int, in []int64, kind string, nontrivial bool, desc any)) {
	// every kept name with a fractional-unit amount, alone and together
	for i, k := range []int64{2, 3, 1, 7, 4, 6, 11, 12, 16} {
		for j, m := range []int64{2500, 999, 1, 1000, 1001} {
			emit(fmt.Sprintf("quant-new-directed-%d-%d", i, j), 7, []int64{1, k, m}, "new_resource/directed", true, nil)
		}
	}
	for i, k := range keptScalars {
		for j, v := range []int64{2500, 999, 1, 1000, 4194304000} {
			emit(fmt.Sprintf("quant-conv-directed-%d-%d", i, j), 8, []int64{1500, 4096, 1, 1, k, v}, "convert/directed", true, nil)
		}
	}
	emit("quant-conv-directed-demo", 8, []int64{1500, 4096, 1, 3, 4, 2500, 6, 4194304000, 7, 2500}, "convert/directed", true, nil)
}
