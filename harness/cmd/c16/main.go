// C16 harness: SaturatingAdd/SaturatingMul, the DRA accounting (dra.go), quantity conversions (quant.go) and every method
// of scheduler/api.Resource, run on the real code.
package main

import (
	"fmt"
	"math"
	"sort"

	v1 "k8s.io/api/core/v1"
	"k8s.io/apimachinery/pkg/api/resource"

	"verif/harness/internal/vh"
	"volcano.sh/volcano/pkg/scheduler/api"
)

// scalar names: model key -> Kubernetes resource name.  Key 1 must be "pods"
// (the ignored scalar), keys 2 and 3 are reserved for cpu / memory in name lists.
var scalarName = map[int64]v1.ResourceName{
	1: "pods", 4: "nvidia.com/gpu", 5: "example.com/foo", 6: "hugepages-2Mi", 7: "ephemeral-storage", 8: "example.com/bar",
}
var scalarKey = map[string]int64{}

func init() {
	for k, n := range scalarName {
		scalarKey[string(n)] = k
	}
}

// grid: one model unit = 1/16 of a Go unit; minResource (0.1) lies strictly
// between 1/16 and 2/16, so on this grid "x < minResource" is "x16 < 2".
var grid = 16.0 // set per selector: 16 for the 1/16 grid, 1 for the unit grid of the large-magnitude streams

const epsUnits = 2
const sentinelTok = -7777777 // stands for math.MaxFloat64

type tokReader struct {
	t []int64
	i int
}

func (r *tokReader) next() int64 { v := r.t[r.i]; r.i++; return v }

func tokVal(t int64) float64 {
	if t == sentinelTok {
		return math.MaxFloat64
	}
	f := float64(t)
	if f >= 1<<63 || int64(f) != t {
		panic("generator: amount is not a float64 value")
	}
	return f / grid
}

func decRes(r *tokReader) *api.Resource {
	res := &api.Resource{MilliCPU: tokVal(r.next()), Memory: tokVal(r.next())}
	nonNil := r.next() != 0
	n := int(r.next())
	if nonNil {
		res.ScalarResources = map[v1.ResourceName]float64{}
	}
	for i := 0; i < n; i++ {
		k := r.next()
		v := r.next()
		res.ScalarResources[scalarName[k]] = tokVal(v)
	}
	return res
}

func toUnits(x float64) int64 {
	if x == math.MaxFloat64 {
		return sentinelTok
	}
	y := x * grid
	if y != math.Trunc(y) || y >= 1<<63 || y < -(1<<63) {
		panic(fmt.Sprintf("value %v left the grid", x))
	}
	return int64(y)
}

func encRes(r *api.Resource) []int64 {
	out := []int64{toUnits(r.MilliCPU), toUnits(r.Memory)}
	if r.ScalarResources == nil {
		return append(out, 0, 0)
	}
	keys := []int64{}
	for n := range r.ScalarResources {
		keys = append(keys, scalarKey[string(n)])
	}
	sort.Slice(keys, func(i, j int) bool { return keys[i] < keys[j] })
	out = append(out, 1, int64(len(keys)))
	for _, k := range keys {
		out = append(out, k, toUnits(r.ScalarResources[scalarName[k]]))
	}
	return out
}

// name lists come back as strings; cpu and memory are reported as two flags
func encNames(names []string) []int64 {
	var c, m int64
	keys := []int64{}
	for _, n := range names {
		switch n {
		case "cpu":
			c = 1
		case "memory":
			m = 1
		default:
			keys = append(keys, scalarKey[n])
		}
	}
	sort.Slice(keys, func(i, j int) bool { return keys[i] < keys[j] })
	out := []int64{c, m, int64(len(keys))}
	return append(out, keys...)
}

func encNameList(l api.ResourceNameList) []int64 {
	s := []string{}
	for _, n := range l {
		s = append(s, string(n))
	}
	return encNames(s)
}

func tag(i int64) []int64 { return []int64{-100 - i} }

func resAll(r, rr, req *api.Resource) (out []int64) {
	app := func(xs ...[]int64) {
		for _, x := range xs {
			out = append(out, x...)
		}
	}
	b := func(v bool) []int64 { return []int64{vh.B(v)} }
	app(tag(1), encRes(r.Clone().Add(rr)))
	app(tag(2), encRes(r.Clone().SubWithoutAssert(rr)))
	{
		c := r.Clone()
		c.SetMaxResource(rr)
		app(tag(3), encRes(c))
	}
	app(tag(4), encRes(r.Clone().MinDimensionResource(rr, api.Zero)))
	app(tag(5), encRes(r.Clone().MinDimensionResource(rr, api.Infinity)))
	app(tag(6), b(r.Less(rr, api.Zero)), b(r.Less(rr, api.Infinity)))
	app(tag(7), b(r.LessEqual(rr, api.Zero)), b(r.LessEqual(rr, api.Infinity)))
	{
		_, n0 := r.LessEqualWithResourcesName(rr, api.Zero)
		_, n1 := r.LessEqualWithResourcesName(rr, api.Infinity)
		app(tag(8), encNames(n0), encNames(n1))
	}
	app(tag(9), b(r.LessPartly(rr, api.Zero)), b(r.LessPartly(rr, api.Infinity)))
	app(tag(10), b(r.LessEqualPartly(rr, api.Zero)), b(r.LessEqualPartly(rr, api.Infinity)))
	app(tag(11), b(r.Equal(rr, api.Zero)))
	{
		ok, n := r.LessEqualWithDimensionAndResourcesName(rr, req)
		if ok != (len(n) == 0) {
			panic("LessEqualWithDimensionAndResourcesName: flag and list disagree")
		}
		app(tag(12), encNames(n))
	}
	{
		ok, n := r.LessEqualPartlyWithDimension(rr, req)
		if ok != (len(n) > 0) {
			panic("LessEqualPartlyWithDimension: flag and list disagree")
		}
		app(tag(13), encNames(n))
	}
	{
		ok, n := r.GreaterPartlyWithDimension(rr, req)
		if ok != (len(n) > 0) {
			panic("GreaterPartlyWithDimension: flag and list disagree")
		}
		app(tag(14), encNames(n))
	}
	{
		_, n := r.GreaterPartlyWithRelevantDimensions(rr, req)
		app(tag(15), encNames(n))
	}
	{
		_, n := r.LessEqualPartlyWithDimensionZeroFiltered(rr, req)
		app(tag(16), encNames(n))
	}
	{
		inc, dec := r.Diff(rr, api.Zero)
		app(tag(17), encRes(inc), encRes(dec))
	}
	app(tag(18), b(r.IsEmpty()), encNameList(r.ResourceNames()))
	app(tag(19), encRes(r.Clone().Multi(3)))
	{
		g0, _ := r.GreaterPartly(rr, api.Zero)
		g1, _ := r.GreaterPartly(rr, api.Infinity)
		app(tag(20), b(g0), b(g1))
	}
	{
		// Resource.Sub asserts rr.LessEqual(r, Zero) and panics (PANIC_ON_ERROR defaults to true) otherwise
		var res *api.Resource
		func() {
			defer func() {
				if p := recover(); p != nil {
					res = nil
				}
			}()
			res = r.Clone().Sub(rr)
		}()
		if res == nil {
			app(tag(22), []int64{0})
		} else {
			app(tag(22), []int64{1}, encRes(res))
		}
	}
	app(tag(23), b(rr.Less(r, api.Zero)), b(rr.Less(r, api.Infinity)))
	return out
}

// aliasing: no method may change its argument, and a clone shares no storage
func checkAliasing(r, rr, req *api.Resource) {
	r0, rr0, req0 := encRes(r), encRes(rr), encRes(req)
	c := r.Clone()
	c.Add(rr)
	c.Multi(2)
	if c.ScalarResources != nil {
		c.ScalarResources["example.com/zzz"] = 1
	}
	_ = resAll(r, rr, req)
	if fmt.Sprint(encRes(r)) != fmt.Sprint(r0) || fmt.Sprint(encRes(rr)) != fmt.Sprint(rr0) || fmt.Sprint(encRes(req)) != fmt.Sprint(req0) {
		panic("an operand was modified through a clone or by a read-only method")
	}
}

func resCmp(r, rr, req *api.Resource) (out []int64) {
	app := func(xs ...[]int64) {
		for _, x := range xs {
			out = append(out, x...)
		}
	}
	b := func(v bool) []int64 { return []int64{vh.B(v)} }
	app(tag(6), b(r.Less(rr, api.Zero)), b(r.Less(rr, api.Infinity)))
	app(tag(7), b(r.LessEqual(rr, api.Zero)), b(r.LessEqual(rr, api.Infinity)))
	_, n0 := r.LessEqualWithResourcesName(rr, api.Zero)
	_, n1 := r.LessEqualWithResourcesName(rr, api.Infinity)
	app(tag(8), encNames(n0), encNames(n1))
	app(tag(9), b(r.LessPartly(rr, api.Zero)), b(r.LessPartly(rr, api.Infinity)))
	app(tag(10), b(r.LessEqualPartly(rr, api.Zero)), b(r.LessEqualPartly(rr, api.Infinity)))
	app(tag(11), b(r.Equal(rr, api.Zero)))
	_, n := r.LessEqualWithDimensionAndResourcesName(rr, req)
	app(tag(12), encNames(n))
	_, n = r.LessEqualPartlyWithDimension(rr, req)
	app(tag(13), encNames(n))
	_, n = r.GreaterPartlyWithDimension(rr, req)
	app(tag(14), encNames(n))
	g0, _ := r.GreaterPartly(rr, api.Zero)
	g1, _ := r.GreaterPartly(rr, api.Infinity)
	app(tag(20), b(g0), b(g1))
	app(tag(21), b(r.LessEqual(r, api.Zero)), b(r.LessEqual(r, api.Infinity)), b(r.Equal(r, api.Zero)))
	return out
}

var convNames = []v1.ResourceName{v1.ResourceCPU, v1.ResourceMemory, "nvidia.com/gpu", v1.ResourcePods}

func quantityOfMilli(m int64) resource.Quantity {
	if m%1000 == 0 {
		return *resource.NewQuantity(m/1000, resource.DecimalSI)
	}
	return *resource.NewMilliQuantity(m, resource.DecimalSI)
}

// q2f2q: ResQuantity2Float64 then ResFloat642Quantity on the quantity of m milli-units
func q2f2q(n v1.ResourceName, m int64) (float64, int64) {
	f := api.ResQuantity2Float64(n, quantityOfMilli(m))
	return f, milliOf(api.ResFloat642Quantity(n, f))
}

// floatParts: f = mant * 2^e exactly (mant an integer below 2^53 in magnitude)
func floatParts(f float64) (int64, int64) {
	if f == 0 {
		return 0, 0
	}
	if math.IsInf(f, 0) || math.IsNaN(f) {
		panic("conversion produced a non-finite float")
	}
	frac, e := math.Frexp(f)
	return int64(frac * (1 << 53)), int64(e - 53)
}

// encFloat: an integer-valued float64, the MaxFloat64 sentinel, an infinity or NaN on the wire
func encFloat(f float64) []int64 {
	switch {
	case math.IsNaN(f):
		return []int64{4, 0}
	case math.IsInf(f, 1):
		return []int64{2, 0}
	case math.IsInf(f, -1):
		return []int64{3, 0}
	case f == math.MaxFloat64:
		return []int64{1, 0}
	case f != math.Trunc(f) || f >= 1<<63 || f < -(1<<63):
		panic(fmt.Sprintf("float %v is not an int64-sized integer", f))
	}
	return []int64{0, int64(f)}
}

func run(sel int, in []int64) []int64 {
	grid = 16.0
	if sel == 11 || sel == 12 {
		grid = 1.0
	}
	switch sel {
	case 1:
		return []int64{api.SaturatingAdd(in[0], in[1])}
	case 2:
		return []int64{api.SaturatingMul(in[0], in[1])}
	case 3:
		n := int(in[0])
		var acc int64
		for i := 0; i < n; i++ {
			acc = api.SaturatingAdd(acc, api.SaturatingMul(in[1+2*i], in[2+2*i]))
		}
		return []int64{acc}
	case 4:
		// in = grid g, amount x (the float is x/g), which resource
		n := convNames[int(in[2])%len(convNames)]
		g := float64(in[0])
		q := api.ResFloat642Quantity(n, float64(in[1])/g)
		back := api.ResQuantity2Float64(n, q) * g
		if back != math.Trunc(back) || back >= 1<<63 || back < -(1<<63) {
			return []int64{milliOf(q), 0, 0}
		}
		return []int64{milliOf(q), 1, int64(back)}
	case 15:
		return runCloneMutate(in)
	case 14:
		// float64 arithmetic of the real Resource fields on integer-valued operands (x, y):
		// s = x + y through Add, s - y through SubWithoutAssert, s.LessEqual(s, Zero)
		grid = 1.0
		x, y := tokVal(in[0]), tokVal(in[1])
		s := (&api.Resource{MilliCPU: x, Memory: x}).Add(&api.Resource{MilliCPU: y, Memory: y})
		d := s.Clone().SubWithoutAssert(&api.Resource{MilliCPU: y, Memory: y})
		if s.MilliCPU != s.Memory && !(math.IsNaN(s.MilliCPU) && math.IsNaN(s.Memory)) {
			panic("cpu and memory arithmetic differ")
		}
		out := append(tag(1), encFloat(s.MilliCPU)...)
		out = append(out, tag(2)...)
		out = append(out, encFloat(d.MilliCPU)...)
		out = append(out, tag(3)...)
		return append(out, vh.B(s.LessEqual(s, api.Zero)))
	case 13:
		// in = quantity in milli-units, which resource
		n := convNames[int(in[1])%len(convNames)]
		f, back := q2f2q(n, in[0])
		if f != math.Trunc(f) || f >= 1<<63 || f < -(1<<63) {
			return []int64{0, 0, back}
		}
		return []int64{1, int64(f), back}
	case 5:
		return runMinDRA(parseJob(&tokReader{t: in}))
	case 6:
		return runDRAOps(in)
	case 7:
		return runNewResource(in)
	case 8:
		return runConvert(in)
	case 9:
		return runBuildTaskDRA(in)
	case 10, 11:
		tr := &tokReader{t: in, i: 1}
		r := decRes(tr)
		rr := decRes(tr)
		req := decRes(tr)
		checkAliasing(r, rr, req)
		return resAll(r, rr, req)
	case 12:
		tr := &tokReader{t: in, i: 1}
		r := decRes(tr)
		rr := decRes(tr)
		req := decRes(tr)
		return resCmp(r, rr, req)
	}
	panic("unknown selector")
}

// ---------- generators ----------

var edge64 = []int64{0, 1, -1, 2, -2, 3, math.MaxInt64, math.MinInt64, math.MaxInt64 - 1, math.MinInt64 + 1,
	1 << 31, -(1 << 31), 1 << 32, (1 << 32) - 1, 3037000499, 3037000500, -3037000500, 1 << 62, -(1 << 62), (1 << 62) + 1,
	math.MaxInt64 / 2, math.MaxInt64/2 + 1, math.MinInt64 / 2, math.MinInt64/2 - 1, math.MaxInt64 / 3, 6148914691236517205, 4294967296 * 3}

func genI64(r *vh.Rng) int64 {
	switch r.Intn(6) {
	case 0, 1:
		return vh.Pick(r, edge64)
	case 2:
		return vh.Pick(r, edge64) + int64(r.Range(-3, 3))
	case 3:
		return int64(r.Range(-1000, 1000))
	case 4:
		return int64(r.U64() >> uint(r.Intn(64)))
	default:
		return -int64(r.U64() >> uint(r.Intn(64)))
	}
}

func genAmount(r *vh.Rng) int64 {
	switch r.Intn(11) {
	case 0:
		return 0
	case 1:
		return 1 // sub-epsilon (1/16)
	case 2:
		return int64(r.Range(1, 3)) // around the epsilon boundary
	case 3:
		return int64(r.Range(1, 64)) * 16
	case 4:
		return int64(r.Range(1, 8)) * 16000
	case 5:
		return int64(r.Range(1, 4096)) * 16 * 1 << 20
	case 6:
		// negative amounts occur in Idle after SubWithoutAssert; exactly -1.0
		// (-16 units) is excluded: Diff reads it as the Infinity marker
		v := -int64(r.Range(0, 40))
		if v == -16 {
			v = -17
		}
		return v
	case 7:
		// the largest scale at which every operation exercised (incl. Multi(3) and sums of three) is still exact
		return (int64(r.Range(1, 3)) << 48) + int64(r.Range(-3, 3))
	default:
		return int64(r.Range(0, 200))
	}
}

var keyPool = []int64{1, 4, 5, 6, 8}

// genRes builds a vector; base (if non-nil) biases values to be equal / close
// to another vector so that comparisons are not almost always decided by cpu
func genRes(r *vh.Rng, base []int64) []int64 {
	near := func(i int) int64 {
		if base != nil && i < len(base) && r.Chance(2, 3) {
			v := base[i] + int64(vh.Pick(r, []int{0, 0, 0, 1, -1, 2, -2, 16, -16, 3, -3}))
			if v == -16 {
				v = -18
			}
			return v
		}
		return genAmount(r)
	}
	out := []int64{near(0), near(1)}
	switch r.Intn(6) {
	case 0:
		return append(out, 0, 0) // nil map
	case 1:
		return append(out, 1, 0) // empty non-nil map
	}
	keys := []int64{}
	for _, k := range keyPool {
		if r.Chance(1, 2) {
			keys = append(keys, k)
		}
	}
	out = append(out, 1, int64(len(keys)))
	for _, k := range keys {
		v := genAmount(r)
		if base != nil && r.Chance(1, 2) {
			// reuse the other vector's amount for this key when it has one
			n := int(base[3])
			for j := 0; j < n; j++ {
				if base[4+2*j] == k {
					v = base[5+2*j] + int64(vh.Pick(r, []int{0, 0, 1, -1, 2, -2, 16}))
					if v == -16 {
						v = -18
					}
				}
			}
		}
		out = append(out, k, v)
	}
	return out
}

func laws(sel int, in, got []int64, law func(lsel int, lin []int64, sig string)) {
	switch sel {
	case 1:
		law(101, []int64{in[0], in[1], got[0]}, "")
	case 2:
		law(102, []int64{in[0], in[1], got[0]}, "")
	case 3:
		law(103, append(append([]int64{}, in...), got[0]), "")
	case 4:
		{
			n := convNames[int(in[2])%len(convNames)]
			mant, e := floatParts(api.ResQuantity2Float64(n, api.ResFloat642Quantity(n, float64(in[1])/float64(in[0]))))
			law(104, []int64{in[0], in[1], in[2] % int64(len(convNames)), got[0], mant, e}, "")
		}
	case 13:
		n := convNames[int(in[1])%len(convNames)]
		f, back := q2f2q(n, in[0])
		mant, e := floatParts(f)
		law(115, []int64{in[0], in[1] % int64(len(convNames)), mant, e, back}, "")
	case 5:
		lawsMinDRA(in, got, law)
	case 6:
		// got = tag, Add result (count, n, n pairs), tag, Sub result: drop the two tags by position (a count
		// may itself equal a tag value)
		l1 := 2 + 2*int(got[2])
		g := append([]int64{}, got[1:1+l1]...)
		g = append(g, got[2+l1:]...)
		law(107, append(append([]int64{}, in...), g...), "")
		lawsUnchangedDRAOps(in, law)
	case 15:
		lawsCloneMutate(in, law)
	case 7:
		lawsNewResource(in, law)
	case 8:
		lawsConvert(in, law)
	case 9:
		lawsBuildTaskDRA(in, got, law)
	case 10, 11:
		grid = 16.0
		if sel == 11 {
			grid = 1.0
		}
		tr := &tokReader{t: in, i: 1}
		r, rr := decRes(tr), decRes(tr)
		A := r.Clone().Add(rr)
		S := A.Clone().SubWithoutAssert(rr)
		B := rr.Clone().Add(r)
		law(110, cat(encRes(r), encRes(rr), encRes(A), encRes(S), encRes(B)), "")
		{
			S2 := r.Clone().SubWithoutAssert(rr)
			B2 := S2.Clone().Add(rr)
			law(119, cat(encRes(r), encRes(rr), encRes(S2), encRes(B2)), "")
		}
		lenZ, _ := r.LessEqualWithResourcesName(rr, api.Zero)
		lenI, _ := r.LessEqualWithResourcesName(rr, api.Infinity)
		gpZ, _ := r.GreaterPartly(rr, api.Zero)
		gpI, _ := r.GreaterPartly(rr, api.Infinity)
		law(111, cat([]int64{in[0]}, encRes(r), encRes(rr), []int64{
			vh.B(r.LessEqual(r, api.Zero)), vh.B(r.LessEqual(r, api.Infinity)),
			vh.B(r.Less(rr, api.Zero)), vh.B(r.Less(rr, api.Infinity)),
			vh.B(r.LessEqual(rr, api.Zero)), vh.B(r.LessEqual(rr, api.Infinity)),
			vh.B(lenZ), vh.B(lenI), vh.B(gpZ), vh.B(gpI),
			vh.B(rr.LessPartly(r, api.Zero))}), "")
		inc, dec := r.Diff(rr, api.Zero)
		law(112, cat(encRes(r), encRes(rr), encRes(inc), encRes(dec)), "")
		mx := r.Clone()
		mx.SetMaxResource(rr)
		mn := r.Clone().MinDimensionResource(rr, api.Zero)
		law(113, cat(encRes(r), encRes(rr), encRes(mx), encRes(mn)), "")
		law(117, cat(encRes(r), encRes(rr), encRes(r.Clone().MinDimensionResource(rr, api.Infinity))), "")
		{
			panicked := false
			func() {
				defer func() {
					if p := recover(); p != nil {
						panicked = true
					}
				}()
				r.Clone().Sub(rr)
			}()
			law(116, []int64{vh.B(panicked), vh.B(rr.LessEqual(r, api.Zero))}, "")
		}
		for _, d := range []api.DimensionDefaultValue{api.Zero, api.Infinity} {
			law(114, []int64{vh.B(r.Less(rr, d)), vh.B(r.LessEqual(rr, d)), vh.B(r.LessPartly(rr, d)),
				vh.B(r.LessEqualPartly(rr, d)), vh.B(rr.Less(r, d))}, "")
		}
	}
}

func gen(rng *vh.Rng, n int, emit func(id string, sel int, in []int64, kind string, nontrivial bool, desc any)) {
	// saturating integers: all edge pairs first (deterministic), then random
	k := 0
	for _, x := range edge64 {
		for _, y := range edge64 {
			emit(fmt.Sprintf("sat-add-edge-%d", k), 1, []int64{x, y}, "sat_add/edge", true, nil)
			emit(fmt.Sprintf("sat-mul-edge-%d", k), 2, []int64{x, y}, "sat_mul/edge", true, nil)
			k++
		}
	}
	for i := 0; i < n; i++ {
		x, y := genI64(rng), genI64(rng)
		emit(fmt.Sprintf("sat-add-rand-%d", i), 1, []int64{x, y}, "sat_add/rand", x != 0 && y != 0, nil)
		emit(fmt.Sprintf("sat-mul-rand-%d", i), 2, []int64{x, y}, "sat_mul/rand", x != 0 && y != 0, nil)
	}
	for i := 0; i < n/4+1; i++ {
		m := rng.Range(0, 6)
		in := []int64{int64(m)}
		for j := 0; j < m; j++ {
			c, t := genI64(rng), int64(rng.Range(0, 1<<31-1))
			if rng.Chance(3, 4) && c < 0 {
				c = -(c + 1)
			}
			in = append(in, c, t)
		}
		emit(fmt.Sprintf("dra-%d", i), 3, in, "sat_add_mul_chain", m >= 2, nil)
	}
	// GetMinDRAResources on real JobInfo objects: directed boundary jobs, then random ones
	for i, j := range directedJobs() {
		emit(fmt.Sprintf("min-dra-directed-%d", i), 5, j.tokens(), "min_dra/directed", true, nil)
	}
	{
		r := rng.Fork()
		for i := 0; i < n+1; i++ {
			j, kind := genJob(r)
			emit(fmt.Sprintf("min-dra-%d", i), 5, j.tokens(), kind, contributing(j) >= 2, nil)
		}
		for i := 0; i < n/2+1; i++ {
			emit(fmt.Sprintf("dra-ops-%d", i), 6, genDRAOps(r), "dra_resource/add_sub_clone", true, nil)
		}
	}
	// clones share no storage: clone a DRAResource (directly and through TaskInfo.Clone), mutate the clone with
	// Add / Sub, observe the source; capacities int64-backed and big-decimal-backed
	for i, in := range directedCloneMutate() {
		emit(fmt.Sprintf("clone-mutate-directed-%d", i), 15, in, "dra_clone_then_mutate/directed", true, nil)
	}
	{
		r := rng.Fork()
		for i := 0; i < n/4+1; i++ {
			in := genCloneMutate(r)
			emit(fmt.Sprintf("clone-mutate-%d", i), 15, in, "dra_clone_then_mutate", in[1] > 0, nil)
		}
	}
	// the scheduler cache building TaskInfo.DRAResreq from ResourceClaims
	for i, in := range directedClaims() {
		emit(fmt.Sprintf("task-dra-directed-%d", i), 9, in, "build_task_dra/directed", true, nil)
	}
	{
		r := rng.Fork()
		for i := 0; i < n/2+1; i++ {
			emit(fmt.Sprintf("task-dra-%d", i), 9, genClaims(r), "build_task_dra", true, nil)
		}
	}
	// quantities <-> Resource: NewResource, ConvertRes2ResList and both round trips
	directedQuant(emit)
	{
		r := rng.Fork()
		for i := 0; i < n+1; i++ {
			in := genRl(r)
			emit(fmt.Sprintf("new-resource-%d", i), 7, in, "new_resource", in[0] >= 2, nil)
		}
		for i := 0; i < n+1; i++ {
			in := genResUnit(r)
			emit(fmt.Sprintf("convert-%d", i), 8, in, "convert_res2reslist", in[3] >= 1, nil)
		}
	}
	// float -> Quantity -> float: integral and fractional amounts (grid 16), all four unit rules
	for i := 0; i < n/2+1; i++ {
		x := int64(rng.U64() >> uint(11+rng.Intn(53)))
		if rng.Chance(1, 6) {
			x = vh.Pick(rng, []int64{0, 1, 999, 1000, 1 << 20, (1 << 53) - 1, 1 << 53, 1 << 40})
		}
		g := int64(1)
		if rng.Chance(1, 3) {
			g = 16
			x = x >> 6 // x/16 stays below 2^49
			if rng.Chance(1, 2) {
				x = int64(rng.Range(0, 4000)) // around whole units: 16*k + fraction
			}
		}
		if rng.Chance(1, 8) {
			x = -x
		}
		idx := int64(rng.Intn(4))
		if rng.Chance(1, 5) {
			// float64-exact amounts above 2^53 (cpu only: whole-unit quantities times 1000 leave the int64 tokens)
			g, x, idx = 1, genLarge(rng, true), 0
		}
		emit(fmt.Sprintf("quantity-%d", i), 4, []int64{g, x, idx}, "float_quantity_float", x != 0, nil)
	}
	// float64 effects on the real fields vs the float mini-model: the three refutation witnesses, then pairs of
	// float64-exact integers up to 2^61 and the sentinel
	for i, p := range [][2]int64{{1, 1 << 53}, {5, sentinelTok}, {sentinelTok, sentinelTok}, {1 << 53, 1}, {(1 << 53) - 1, 1}, {-1, 1 << 53}, {3, 1 << 54}, {sentinelTok, 5}} {
		emit(fmt.Sprintf("float-witness-%d", i), 14, []int64{p[0], p[1]}, "float_add_sub/directed", true, nil)
	}
	for i := 0; i < n/4+1; i++ {
		pick := func() int64 {
			switch rng.Intn(6) {
			case 0:
				return sentinelTok
			case 1:
				return int64(rng.Range(-9, 9))
			case 2:
				return (int64(1) << 53) + 2*int64(rng.Range(-4, 4))
			default:
				v := genLarge(rng, true) >> 2
				if float64(v) >= 1<<63 || int64(float64(v)) != v {
					v = 1 << 60
				}
				if rng.Chance(1, 4) {
					v = -v
				}
				return v
			}
		}
		emit(fmt.Sprintf("float-%d", i), 14, []int64{pick(), pick()}, "float_add_sub", true, nil)
	}
	// Quantity -> float -> Quantity: EVERY cpu milli value 0..10000, then boundary families for all names
	for m := int64(0); m <= 10000; m++ {
		emit(fmt.Sprintf("q2f-cpu-%d", m), 13, []int64{m, 0}, "quantity_float_quantity/cpu-sweep", m > 0, nil)
	}
	for i := 0; i < n+1; i++ {
		var m int64
		switch rng.Intn(7) {
		case 0:
			m = int64(rng.Range(10001, 1<<22))
		case 1:
			m = int64(rng.Range(1, 1<<20))*1000 + int64(vh.Pick(rng, []int{0, 1, 7, 15, 95, 190, 500, 999}))
		case 2:
			m = (int64(1) << uint(rng.Range(10, 52))) + int64(rng.Range(-3, 3))
		case 3:
			m = (int64(1) << 53) - int64(rng.Range(0, 4096))
		case 4:
			m = int64(rng.U64() >> uint(11+rng.Intn(50)))
		case 5:
			m = -int64(rng.Range(1, 20000))
		default:
			m = int64(rng.Range(0, 64)) * 1000
		}
		if rng.Chance(1, 4) {
			// above 2^53: float64-exact and non-representable milli values up to 2^63 (law 115 asks the exact
			// round trip only for the former, the float64 rounding for the latter)
			m = genLarge(rng, rng.Chance(1, 2))
		}
		idx := int64(rng.Intn(4))
		if idx != 0 && m > 1<<62 {
			m >>= 2 // Value() rounds up to whole units: keep 1000 * units inside the int64 tokens
		}
		emit(fmt.Sprintf("q2f-%d", i), 13, []int64{m, idx}, "quantity_float_quantity", m != 0, nil)
	}
	// large magnitudes on the unit grid: multiples of 2^12 up to 2^60 (all of res_all stays exact)
	bigAmt := func() int64 {
		switch rng.Intn(6) {
		case 0:
			return 0
		case 1:
			return int64(rng.Range(1, 9)) << 50
		case 2:
			return int64(rng.Range(1, 3)) << 53
		case 3:
			return (int64(1) << 60) - (int64(rng.Range(0, 3)) << 12)
		case 4:
			return (int64(rng.Range(1, 1<<20)) << 30)
		default:
			return int64(rng.Range(0, 7)) << 12
		}
	}
	bigRes := func(base []int64, sentinel bool) []int64 {
		pick := func(i int) int64 {
			if sentinel && rng.Chance(1, 3) {
				return sentinelTok
			}
			if base != nil && rng.Chance(1, 2) {
				return base[i]
			}
			return bigAmt()
		}
		out := []int64{pick(0), pick(1)}
		switch rng.Intn(4) {
		case 0:
			return append(out, 0, 0)
		}
		keys := []int64{}
		for _, k := range []int64{1, 4, 7} {
			if rng.Chance(1, 2) {
				keys = append(keys, k)
			}
		}
		out = append(out, 1, int64(len(keys)))
		for _, k := range keys {
			v := bigAmt()
			if base != nil && rng.Chance(1, 2) {
				for j := 0; j < int(base[3]); j++ {
					if base[4+2*j] == k {
						v = base[5+2*j]
					}
				}
			}
			if sentinel && rng.Chance(1, 4) {
				v = sentinelTok
			}
			out = append(out, k, v)
		}
		return out
	}
	for i := 0; i < n/2+1; i++ {
		r := bigRes(nil, false)
		rr := bigRes(r, false)
		req := bigRes(r, false)
		in := append(append(append([]int64{1}, r...), rr...), req...)
		emit(fmt.Sprintf("res-big-%d", i), 11, in, "resource/all-methods/2^50..2^60", true, nil)
	}
	// the infinite sentinel (math.MaxFloat64) and 2^53-scale values: comparisons only
	for i := 0; i < n/2+1; i++ {
		r := bigRes(nil, true)
		rr := bigRes(r, true)
		req := bigRes(rr, true)
		in := append(append(append([]int64{1}, r...), rr...), req...)
		emit(fmt.Sprintf("res-inf-%d", i), 12, in, "resource/comparisons/sentinel", true, nil)
	}
	// r above rr in cpu and memory, scalars one-sided and / or every shared scalar above: the shape on which
	// the partial comparisons and their Infinity convention decide
	for i := 0; i < n/2+1; i++ {
		rr := genRes(rng, nil)
		up := func(v int64) int64 {
			w := v + int64(vh.Pick(rng, []int{2, 3, 16, 17, 160}))
			if w == -16 { // -1.0 is Diff's Infinity marker (assumption 2)
				w = -15
			}
			return w
		}
		r := []int64{up(rr[0]), up(rr[1]), 1, 0}
		cnt := int64(0)
		for j := 0; j < int(rr[3]); j++ {
			if rng.Chance(3, 4) {
				r = append(r, rr[4+2*j], up(rr[5+2*j]))
				cnt++
			}
		}
		for _, k := range keyPool {
			has := false
			for j := 0; j < int(rr[3]); j++ {
				if rr[4+2*j] == k {
					has = true
				}
			}
			if !has && rng.Chance(1, 2) {
				r = append(r, k, genAmount(rng))
				cnt++
			}
		}
		// keys ascending
		type kv struct{ k, v int64 }
		kvs := []kv{}
		for j := int64(0); j < cnt; j++ {
			kvs = append(kvs, kv{r[4+2*j], r[5+2*j]})
		}
		sort.Slice(kvs, func(a, b int) bool { return kvs[a].k < kvs[b].k })
		r = r[:4]
		r[3] = cnt
		for _, e := range kvs {
			r = append(r, e.k, e.v)
		}
		in := []int64{epsUnits}
		in = append(in, r...)
		in = append(in, rr...)
		in = append(in, genRes(rng, rr)...)
		emit(fmt.Sprintf("res-above-%d", i), 10, in, "resource/all-methods/r-above-rr", true, nil)
	}
	// resource vectors
	for i := 0; i < 3*n; i++ {
		r := genRes(rng, nil)
		rr := genRes(rng, r)
		var req []int64
		switch rng.Intn(3) {
		case 0:
			req = genRes(rng, r)
		case 1:
			req = genRes(rng, nil)
		default:
			req = genRes(rng, rr)
		}
		in := []int64{epsUnits}
		in = append(in, r...)
		in = append(in, rr...)
		in = append(in, req...)
		emit(fmt.Sprintf("res-%d", i), 10, in, "resource/all-methods", r[3] > 0 || rr[3] > 0, nil)
	}
}

func main() {
	vh.Harness{Run: run, Laws: laws, Gen: gen}.Main()
}
