package main

import (
	"encoding/json"
	"fmt"
	"os"

	"verif/harness/internal/sched"
)

func main() {
	b, _ := os.ReadFile(os.Args[1])
	var c struct{ In []int64 `json:"in"` }
	json.Unmarshal(b, &c)
	r := &sched.Tok{T: c.In}
	spec := sched.DecCycleSpec(r)
	cw := sched.NewCycleWorld(spec)
	fmt.Println(cw.QueueLimits())
	cw.RunActions()
	for _, e := range cw.Trace {
		fmt.Println(e)
	}
	fmt.Println(cw.Reconstruct())
}
