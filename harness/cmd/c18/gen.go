package main

import (
	"fmt"
	"os"
	"time"

	"github.com/robfig/cron/v3"

	"verif/harness/internal/vh"
)

// 2025-03-07 00:00:00 UTC, a Friday
const t0 = int64(1741305600) * sec

const maxPts = 600

var schedCache = map[[2]int]cron.Schedule{}

func schedOf(sid, tz int) cron.Schedule {
	k := [2]int{sid, tz}
	if s, ok := schedCache[k]; ok {
		return s
	}
	// NOT the controller's parser: the schedule as the spec means it (specSchedule); a zone
	// that does not load has no schedule at all, the generator then places its instants with
	// the zone-less one
	s, ok := specSchedule(sid, tz)
	if !ok {
		s, _ = specSchedule(sid, 0)
	}
	schedCache[k] = s
	return s
}

func nextOf(s cron.Schedule, t int64) (int64, bool) {
	n := s.Next(tm(t))
	if n.IsZero() {
		return 0, false
	}
	return n.UnixNano(), true
}

// points enumerates the schedule from just after lo until `extra` points lie
// beyond hi
func points(s cron.Schedule, lo, hi int64, extra int) ([]int64, bool) {
	out := []int64{}
	beyond := 0
	for p, ok := nextOf(s, lo); ok; p, ok = nextOf(s, p) {
		out = append(out, p)
		if p > hi {
			beyond++
			if beyond >= extra {
				break
			}
		}
		if len(out) > maxPts {
			return nil, false
		}
	}
	return out, true
}

func gapOf(s cron.Schedule, at int64) int64 {
	p0, ok := nextOf(s, at)
	if !ok {
		return 3600 * sec
	}
	p1, ok := nextOf(s, p0)
	if !ok {
		return 3600 * sec
	}
	return p1 - p0
}

func minI(xs ...int64) int64 {
	m := xs[0]
	for _, x := range xs {
		if x < m {
			m = x
		}
	}
	return m
}
func maxI(xs ...int64) int64 {
	m := xs[0]
	for _, x := range xs {
		if x > m {
			m = x
		}
	}
	return m
}

// bruteTable enumerates a five-field / descriptor schedule WITHOUT cron's Next: every minute of
// [lo, hi] is tested against the parsed field bit sets on the wall clock of the schedule's zone
// (robfig semantics: day-of-month and day-of-week are and-ed when one of them is '*', else or-ed).
// ok = false when the zone changes its offset inside the window (Next has its own DST rules).
func bruteTable(ss *cron.SpecSchedule, lo, hi int64) ([]int64, bool) {
	const star = uint64(1) << 63
	loc := ss.Location
	if loc == time.Local {
		loc = time.Local
	}
	out := []int64{}
	first := true
	var off0 int
	for m := (lo/(60*sec) + 1) * 60 * sec; m <= hi; m += 60 * sec {
		t := time.Unix(0, m).In(loc)
		_, off := t.Zone()
		if first {
			off0, first = off, false
		} else if off != off0 {
			return nil, false
		}
		if ss.Second&1 == 0 || ss.Minute&(1<<uint(t.Minute())) == 0 || ss.Hour&(1<<uint(t.Hour())) == 0 ||
			ss.Month&(1<<uint(t.Month())) == 0 {
			continue
		}
		dom := ss.Dom&(1<<uint(t.Day())) > 0
		dow := ss.Dow&(1<<uint(t.Weekday())) > 0
		day := dom || dow
		if ss.Dom&star > 0 || ss.Dow&star > 0 {
			day = dom && dow
		}
		if day {
			out = append(out, m)
		}
	}
	return out, true
}

var bruteChecked int

func schedTokens(sid, tz int, lo, hi int64) ([]int64, bool) {
	if p, ok := everyPeriod[sid]; ok {
		return []int64{int64(sid), int64(tz), 1, p}, true
	}
	sch := schedOf(sid, tz)
	pts, ok := points(sch, lo, hi, 3)
	if !ok {
		return nil, false
	}
	if ss, isSpec := sch.(*cron.SpecSchedule); isSpec && hi-lo <= 3*86400*sec && (lo/sec)%4 != 0 {
		// the Next-chain against an enumeration that does not call Next
		if bt, ok := bruteTable(ss, lo, hi); ok {
			k := 0
			for _, p := range pts {
				if p > hi {
					break
				}
				if k >= len(bt) || bt[k] != p {
					panic(fmt.Sprintf("schedule table of %q (zone id %d): Next-chain and minute-by-minute enumeration differ at %d", schedPool[sid], tz, p))
				}
				k++
			}
			if k != len(bt) {
				panic(fmt.Sprintf("schedule table of %q (zone id %d): the Next-chain misses %d", schedPool[sid], tz, bt[k]))
			}
			bruteChecked++
		}
	}
	if ss, isSpec := sch.(*cron.SpecSchedule); isSpec && schedKind(sid) == kDescriptor {
		// the oracle itself, read on the wall clock of the zone the spec names
		loc := ss.Location
		for _, p := range pts {
			if !wallClockOK(sid, loc, p) {
				panic(fmt.Sprintf("schedule table of %q: %d is not on the wall clock of %v", schedPool[sid], p, loc))
			}
		}
	}
	return cat([]int64{int64(sid), int64(tz), 0}, encList(pts)), true
}

func optTok(p *int64) []int64 { return eOpt(p) }

// ---------- schedule choice ----------

type choiceCase struct {
	sid, tz  int
	created  int64
	last     *int64
	deadline *int64
	now      int64
	incl     bool
}

func (c choiceCase) tokens() ([]int64, bool) {
	lo := minI(c.created, c.now)
	hi := maxI(c.created, c.now)
	if c.last != nil {
		lo, hi = minI(lo, *c.last), maxI(hi, *c.last)
	}
	if c.deadline != nil {
		lo = minI(lo, c.now-*c.deadline*sec)
	}
	st, ok := schedTokens(c.sid, c.tz, lo-1, hi)
	if !ok {
		return nil, false
	}
	return cat(st, []int64{c.created}, optTok(c.last), optTok(c.deadline), []int64{c.now, vh.B(c.incl)}), true
}

func (c choiceCase) desc() any {
	d := map[string]any{"schedule": schedPool[c.sid], "tz": tzPool[c.tz], "created": tm(c.created).UTC().Format(time.RFC3339Nano),
		"now": tm(c.now).UTC().Format(time.RFC3339Nano), "includeDeadline": c.incl}
	if c.last != nil {
		d["lastSchedule"] = tm(*c.last).UTC().Format(time.RFC3339Nano)
	}
	if c.deadline != nil {
		d["startingDeadlineSeconds"] = *c.deadline
	}
	return d
}

var choiceSids = []int{0, 0, 1, 1, 2, 3, 4, 4, 5, 6, 6, 7, 8, 9, 9, 10, 11, 11, 12, 12, 13, 13, 14, 15, 16, 17, 17, 18,
	19, 19, 20, 21, 22, 23, 23, 24, 25, 26, 27, 28}

func genChoice(r *vh.Rng) choiceCase {
	for {
		c := choiceCase{sid: vh.Pick(r, choiceSids), incl: r.Chance(2, 3)}
		if r.Chance(1, 2) {
			c.tz = r.Intn(tzInvalid) // every zone that loads (a zone that does not has no schedule: selectors 12, 20)
		}
		s := schedOf(c.sid, c.tz)
		c.created = t0 + int64(r.Intn(30*86400))*sec
		gap := gapOf(s, c.created)
		snap := func(t int64, allowMinus bool) int64 {
			q, ok := nextOf(s, t)
			if !ok {
				return t
			}
			switch r.Intn(5) {
			case 0:
				return q
			case 1:
				if allowMinus {
					return q - 1
				}
				return q
			case 2:
				return q + 1
			case 3:
				return q + sec
			}
			return q - sec
		}
		if r.Chance(1, 3) {
			c.created = snap(c.created, true)
		}
		k := int64(vh.Pick(r, []int{0, 0, 1, 1, 1, 2, 2, 3, 5, 8, 20, 101, 150}))
		// stay before 2070: time.Time <-> int64 nanoseconds ends in 2262, and "0 0 29 2 *"
		// has no point within robfig's five-year horizon after 2096 (Next answers the zero
		// time there, on which the catch-up loop of mostRecentScheduleTime never ends)
		if maxSpan := int64(40*365*86400) * sec; k > maxSpan/gap {
			k = maxSpan / gap
		}
		c.now = c.created + k*gap + int64(r.Intn(int(gap/sec)+1))*sec
		if r.Chance(1, 10) {
			c.now = c.created - int64(r.Intn(100))*sec // the clock is behind the creation stamp
		}
		if r.Chance(1, 2) {
			// sub-second boundaries; -1ns only where float64 seconds stay exact (< 2^22 s elapsed)
			c.now = snap(c.now, c.now-c.created < (1<<21)*sec)
		}
		switch r.Intn(8) {
		case 0, 1:
			// some earlier point
			if q, ok := nextOf(s, c.created+int64(r.Intn(int(k)+1))*gap); ok && q <= c.now {
				c.last = &q
			}
		case 2:
			// the most recent point: already processed
			pts, ok := points(s, c.now-3*gap, c.now, 1)
			if ok {
				for i := len(pts) - 1; i >= 0; i-- {
					if pts[i] <= c.now {
						v := pts[i]
						c.last = &v
						break
					}
				}
			}
		case 3:
			v := c.created + int64(r.Intn(int((c.now-c.created)/sec+2)))*sec
			c.last = &v
		case 4:
			if r.Chance(1, 3) {
				v := c.now + gap // recorded in the future
				c.last = &v
			}
		}
		switch r.Intn(8) {
		case 0:
			c.deadline = ptrI(int64(r.Range(1, 120)))
		case 1:
			c.deadline = ptrI(gap / sec)
		case 2:
			c.deadline = ptrI(10 * gap / sec)
		case 3:
			c.deadline = ptrI(0)
		case 4:
			c.deadline = ptrI(gap/sec/2 + 1)
		}
		if _, ok := c.tokens(); ok {
			return c
		}
	}
}

func ptrI(v int64) *int64 { return &v }

func (c choiceCase) nontrivial() bool {
	e := c.created
	if c.last != nil {
		e = *c.last
	}
	if c.incl && c.deadline != nil && c.now-*c.deadline*sec > e {
		e = c.now - *c.deadline*sec
	}
	q, ok := nextOf(schedOf(c.sid, c.tz), e)
	return ok && q <= c.now
}

// ---------- garbage collector ----------

func genGjob(r *vh.Rng, uid int64) gjob {
	g := gjob{uid: uid, phase: int64(vh.Pick(r, []int{0, 1, 1, 1, 2, 2, 3}))}
	switch r.Intn(8) {
	case 0:
	case 1:
		g.ttl = ptrI(0)
	case 2:
		g.ttl = ptrI(1<<31 - 1)
	case 3:
		g.ttl = ptrI(-int64(r.Range(1, 100)))
	default:
		g.ttl = ptrI(int64(vh.Pick(r, []int{1, 10, 60, 3600, 86400, 100})))
	}
	g.deleting = r.Chance(1, 8)
	if !r.Chance(1, 10) {
		g.finish = ptrI(t0 + int64(r.Intn(86400*30))*sec + int64(vh.Pick(r, []int{0, 0, 1, 999999999, 500000000})))
	}
	// creation: unset (as in the package's own tests), long before / shortly before / after the finish time
	ref := t0 + 15*86400*sec
	if g.finish != nil {
		ref = *g.finish
	}
	switch r.Intn(6) {
	case 0:
	case 1:
		g.created = ptrI(ref + int64(r.Range(1, 5000))*sec)
	case 2:
		g.created = ptrI(ref)
	case 3:
		g.created = ptrI(ref - int64(r.Range(1, 100))*sec)
	default:
		g.created = ptrI(ref - int64(r.Range(1, 400))*86400*sec)
	}
	return g
}

// offsets relative to the moment the case runs; the expiry of an eligible job
// stays >= 5 s away from it
func genGjobRel(r *vh.Rng, uid int64, expired bool) gjob {
	g := gjob{uid: uid, phase: int64(vh.Pick(r, []int{1, 1, 2, 3}))}
	ttl := int64(vh.Pick(r, []int{0, 1, 10, 60, 3600}))
	g.ttl = &ttl
	d := int64(r.Range(5, 4000))*sec + int64(r.Intn(1000))
	var exp int64
	if expired {
		exp = -d
	} else {
		exp = d
	}
	g.finish = ptrI(exp - ttl*sec)
	// creation (relative too): mostly so old that creation + TTL has long passed
	switch r.Intn(5) {
	case 0:
	case 1:
		g.created = ptrI(*g.finish - int64(r.Range(1, 50))*sec)
	case 2:
		g.created = ptrI(*g.finish + int64(r.Range(1, 50))*sec) // finish recorded before creation
	default:
		g.created = ptrI(-int64(r.Range(2, 400)) * 86400 * sec)
	}
	return g
}

var sweepTTL = []*int64{nil, ptrI(0), ptrI(10), ptrI(86400)}

// ---------- histories ----------

var histSids = []int{0, 0, 1, 1, 2, 9, 13, 15, 18, 6, 4, 17, 11, 11, 12, 23, 24, 26, 27, 28}

type histGen struct {
	r       *vh.Rng
	s       cron.Schedule
	sid, tz int
	gap     int64
}

func (h *histGen) nameAt(t int64) int64 { return (t / sec) / 60 }

func (h *histGen) pointBefore(t, created int64) int64 {
	span := (t - created) / h.gap
	q, ok := nextOf(h.s, created+int64(h.r.Intn(int(span)+1))*h.gap)
	if ok && q <= t {
		return q
	}
	return t
}

func genHistory(r *vh.Rng) ([]int64, any, bool) {
	for {
		h := &histGen{r: r, sid: vh.Pick(r, histSids)}
		if r.Chance(2, 5) {
			h.tz = r.Intn(len(tzPool)) // incl. the zone that does not load
		}
		h.s = schedOf(h.sid, h.tz)
		created := t0 + int64(r.Intn(3*86400))*sec
		h.gap = gapOf(h.s, created)
		if h.gap > 6*3600*sec {
			h.gap = 6 * 3600 * sec
		}
		t := created + int64(r.Intn(int(2*h.gap/sec)+1))*sec
		lenient := r.Chance(1, 2)
		// spec
		spec := []int64{created, vh.B(r.Chance(1, 8)), int64(r.Intn(3))}
		switch r.Intn(10) {
		case 0, 1:
			spec = append(spec, 1, h.gap/sec/2+1)
		case 2, 3:
			spec = append(spec, 1, 100*h.gap/sec)
		case 4:
			spec = append(spec, 1, 1)
		default:
			spec = append(spec, 0)
		}
		for i := 0; i < 2; i++ {
			if r.Chance(2, 5) {
				spec = append(spec, 0)
			} else {
				spec = append(spec, 1, int64(r.Intn(4)))
			}
		}
		spec = append(spec, vh.B(tzLoads(h.tz)))
		// initial jobs
		jobs := []mjob{}
		used := map[int64]bool{}
		var prevCreated *int64
		nj := r.Intn(6)
		for i := 0; i < nj; i++ {
			var name int64
			switch r.Intn(10) {
			case 0, 1, 2, 3, 4:
				name = h.nameAt(h.pointBefore(t, created))
			case 5, 6:
				q, _ := nextOf(h.s, t)
				if r.Chance(1, 2) {
					q, _ = nextOf(h.s, q)
				}
				name = h.nameAt(q)
			default:
				name = h.nameAt(t) + int64(r.Range(-100, 100))
			}
			if used[name] {
				continue
			}
			used[name] = true
			j := mjob{name: name, uid: int64(len(jobs) + 1), owner: int64(vh.Pick(r, []int{1, 1, 1, 1, 1, 0, 2})), phase: int64(r.Intn(4))}
			switch {
			case r.Chance(1, 10):
			case prevCreated != nil && r.Chance(1, 4):
				j.created = ptrI(*prevCreated)
			default:
				j.created = ptrI(created + int64(r.Intn(int((t-created)/sec)+1))*sec)
			}
			prevCreated = j.created
			if j.phase != 0 && !r.Chance(1, 5) {
				j.finish = ptrI(created + int64(r.Intn(int((t-created)/sec)+1))*sec)
			}
			jobs = append(jobs, j)
		}
		// sort by name as the model keeps them
		for i := range jobs {
			for k := i + 1; k < len(jobs); k++ {
				if jobs[k].name < jobs[i].name {
					jobs[i], jobs[k] = jobs[k], jobs[i]
				}
			}
		}
		// status
		status := []int64{}
		var last *int64
		if r.Chance(2, 5) {
			q := h.pointBefore(t, created)
			if q <= t {
				last = &q
			}
		}
		status = append(status, optTok(last)...)
		refs := []int64{}
		nref := 0
		for _, j := range jobs {
			if j.owner == 1 && r.Chance(1, 2) || j.owner != 1 && r.Chance(1, 6) {
				refs = append(refs, j.name, j.uid)
				nref++
			} else if r.Chance(1, 8) {
				refs = append(refs, j.name, 80+j.uid) // same name, another UID
				nref++
			}
			if r.Chance(1, 6) {
				refs = append(refs, h.nameAt(t)+int64(r.Range(200, 300)), 90+int64(nref)) // no such job
				nref++
			}
		}
		status = append(status, int64(nref))
		status = append(status, refs...)
		switch r.Intn(10) {
		case 0:
			status = append(status, 1, 0)
		case 1, 2, 3:
			status = append(status, 1, 1, created+int64(r.Intn(int((t-created)/sec)+1))*sec)
		default:
			status = append(status, 0)
		}
		jt := []int64{int64(len(jobs))}
		for _, j := range jobs {
			jt = append(jt, j.enc()...)
		}
		nextUID := int64(len(jobs) + 1)
		if nextUID < 100 {
			nextUID = 100
		}
		// ops
		ops := []int64{}
		nops := r.Range(3, 12)
		hi := t
		nrec := 0
		stale := false
		for k := 0; k < nops; k++ {
			switch x := r.Intn(100); {
			case x < 55:
				switch y := r.Intn(20); {
				case y < 2:
				case y < 8:
					t += int64(r.Intn(int(h.gap/sec)+1)) * sec
				case y < 16:
					t += h.gap + int64(r.Intn(int(2*h.gap/sec)+1))*sec
				case y < 19:
					t += int64(r.Range(5, 30)) * h.gap
				default:
					t -= int64(r.Intn(int(h.gap/sec)+1)) * sec
				}
				if r.Chance(3, 10) {
					if q, ok := nextOf(h.s, t); ok {
						t = q + int64(vh.Pick(r, []int{0, 0, -1, 1}))
					}
				}
				hi = maxI(hi, t)
				switch z := r.Intn(12); {
				case z == 0:
					// the status write of this reconcile is lost (UpdateStatus fails, sync swallows it)
					ops = append(ops, 9, t, vh.B(r.Chance(1, 15)))
					stale = true
				case z == 1:
					// the informer still shows the initial status; a real API server answers the
					// write of such a copy 409 Conflict, which sync swallows: the write-back is lost
					ops = append(ops, 6)
					ops = append(ops, status...)
					ops = append(ops, 0, t, vh.B(r.Chance(1, 15)))
					stale = true
				case z == 2:
					// the JOB lister lags: it shows the initial jobs (the jobs started since are
					// missing, finished or deleted ones still show as they were) or nothing yet;
					// the status is the current one or, sometimes, the initial one (then not written)
					ops = append(ops, 10)
					ok := int64(1)
					if r.Chance(1, 4) {
						ops = append(ops, 1)
						ops = append(ops, status...)
						ok = 0
					} else {
						ops = append(ops, 0)
					}
					if r.Chance(1, 3) {
						ops = append(ops, 0)
					} else {
						ops = append(ops, jt...)
					}
					ops = append(ops, ok, t, vh.B(r.Chance(1, 15)))
					stale = true
				default:
					ops = append(ops, 0, t, vh.B(r.Chance(1, 15)))
				}
				nrec++
			case x < 70:
				name := h.nameAt(h.pointBefore(t, created))
				if len(jobs) > 0 && r.Chance(1, 3) {
					name = vh.Pick(r, jobs).name
				}
				ops = append(ops, 1, name, int64(r.Range(1, 3)))
				if r.Chance(1, 10) {
					ops = append(ops, 0)
				} else {
					ops = append(ops, 1, t)
				}
			case x < 78:
				name := h.nameAt(h.pointBefore(t, created))
				if len(jobs) > 0 && r.Chance(1, 3) {
					name = vh.Pick(r, jobs).name
				}
				ops = append(ops, 2, name)
			case x < 86:
				q, _ := nextOf(h.s, t)
				name := h.nameAt(q)
				if r.Chance(1, 3) {
					name = h.nameAt(t) + int64(r.Range(-50, 50))
				}
				j := mjob{name: name, owner: int64(vh.Pick(r, []int{1, 1, 0, 2})), phase: int64(vh.Pick(r, []int{0, 0, 1, 2, 3})), created: ptrI(t)}
				if j.phase != 0 {
					j.finish = ptrI(t)
				}
				ops = append(ops, 3)
				ops = append(ops, j.enc()...)
			case x < 92:
				ops = append(ops, 4, vh.B(r.Chance(1, 2)))
			case x < 95:
				ops = append(ops, 7)
				switch r.Intn(3) {
				case 0:
					ops = append(ops, 0)
				case 1:
					ops = append(ops, 1, h.gap/sec/2+1)
				default:
					ops = append(ops, 1, 100*h.gap/sec)
				}
			case x < 97:
				ops = append(ops, 8)
				for i := 0; i < 2; i++ {
					if r.Chance(1, 3) {
						ops = append(ops, 0)
					} else {
						ops = append(ops, 1, int64(r.Intn(4)))
					}
				}
			default:
				ops = append(ops, 5, int64(r.Intn(3)))
			}
		}
		lo := created
		if last != nil {
			lo = minI(lo, *last)
		}
		st, ok := schedTokens(h.sid, h.tz, lo-1, hi)
		if !ok {
			continue
		}
		in := cat(st, []int64{vh.B(lenient)}, spec, status, jt, []int64{nextUID}, []int64{int64(nops)}, ops)
		desc := map[string]any{"schedule": schedPool[h.sid], "tz": tzPool[h.tz], "ops": nops, "reconciles": nrec, "jobs": len(jobs), "staleOrLostWrite": stale}
		return in, desc, nrec >= 2 && spec[1] == 0
	}
}

// ---------- the generator ----------

func gen(rng *vh.Rng, n int, emit func(id string, sel int, in []int64, kind string, nontrivial bool, desc any)) {
	// --- deterministic cases ---
	// exact TTL boundaries through timeLeft
	fin := t0 + 12345*sec
	for i, ttl := range []int64{0, 1, 100, 1<<31 - 1} {
		for k, d := range []int64{-1, 0, 1, -sec, sec} {
			g := gjob{uid: int64(1 + i), phase: int64(1 + i%3), ttl: ptrI(ttl), finish: ptrI(fin)}
			emit(fmt.Sprintf("gc-boundary-%d-%d", i, k), 1, cat(g.enc(), []int64{fin + ttl*sec + d}), "gc/timeLeft-boundary", true, nil)
		}
		// finished in the future (clock skew)
		g := gjob{uid: int64(1 + i), phase: 1, ttl: ptrI(ttl), finish: ptrI(fin)}
		emit(fmt.Sprintf("gc-skew-%d", i), 1, cat(g.enc(), []int64{fin - 30*sec}), "gc/timeLeft-boundary", true, nil)
	}
	// every phase x TTL x recorded finish time (unset / in the future / equal to now / before creation /
	// past) x creation (unset / so old that creation + TTL has passed / recent): the finish time is the
	// recorded one or nothing, never the creation time (seed C18-r4-2)
	since := t0 + 200*86400*sec
	k := 0
	for ph := int64(0); ph <= 3; ph++ {
		for _, ttl := range sweepTTL {
			for fv := 0; fv < 5; fv++ {
				for cv := 0; cv < 3; cv++ {
					g := gjob{uid: int64(1 + k%7), phase: ph, ttl: ttl}
					switch cv {
					case 1:
						g.created = ptrI(since - 100*86400*sec)
					case 2:
						g.created = ptrI(since - 5*sec)
					}
					switch fv {
					case 1:
						g.finish = ptrI(since + 50*sec)
					case 2:
						g.finish = ptrI(since)
					case 3:
						g.finish = ptrI(since - 150*86400*sec) // before the creation stamp
					case 4:
						g.finish = ptrI(since - 3600*sec)
					}
					emit(fmt.Sprintf("gc-sweep-timeleft-%d", k), 1, cat(g.enc(), []int64{since}), "gc/finish-time-sweep",
						ph != 0 && ttl != nil, nil)
					emit(fmt.Sprintf("gc-sweep-enqueue-%d", k), 4, g.enc(), "gc/finish-time-sweep", ph != 0 && ttl != nil, nil)
					k++
				}
			}
			// the same through the real processJob and the real clock (offsets relative to the run;
			// an expiry of an eligible job stays >= 5 s away from it), creation 30 days ago
			for fv := 0; fv < 5; fv++ {
				g := gjob{uid: int64(1 + k%7), phase: ph, ttl: ttl, created: ptrI(-30 * 86400 * sec)}
				switch fv {
				case 1:
					g.finish = ptrI(60 * sec)
				case 2:
					if ttl != nil && *ttl < 10 {
						continue
					}
					g.finish = ptrI(0)
				case 3:
					g.finish = ptrI(-40 * 86400 * sec)
				case 4:
					g.finish = ptrI(-2 * 86400 * sec)
				}
				emit(fmt.Sprintf("gc-sweep-process-%d-%d", k, fv), 3, cat(encOptGjob(&g), encOptGjob(&g)), "gc/finish-time-sweep",
					ph != 0 && ttl != nil, nil)
			}
		}
	}
	// DESIGN F8: a weekday schedule over a weekend
	f8 := choiceCase{sid: 4, tz: 1, created: t0 + 6*3600*sec, now: t0 + (2*86400+12*3600)*sec, incl: true}
	if in, ok := f8.tokens(); ok {
		emit("cron-f8-weekend", 10, in, "cron/choice-known", true, f8.desc())
	}
	for k, d := range []int64{-1, 0, 1} {
		// around the first and the second schedule point after creation
		for j, base := range []int64{t0 + 3600*sec, t0 + 2*3600*sec} {
			c := choiceCase{sid: 2, tz: 1, created: t0 + 1800*sec, now: base + d, incl: true}
			in, _ := c.tokens()
			emit(fmt.Sprintf("cron-boundary-%d-%d", j, k), 10, in, "cron/choice-known", true, c.desc())
		}
	}
	never := choiceCase{sid: 8, created: t0, now: t0 + 86400*sec, incl: true}
	if in, ok := never.tokens(); ok {
		emit("cron-never", 10, in, "cron/choice-known", false, never.desc())
	}

	// the zone of the schedule: every schedule string x every spec.timeZone
	for sid := range schedPool {
		for tz := range tzPool {
			emit(fmt.Sprintf("cron-zone-%d-%d", sid, tz), 12, zoneCaseTokens(sid, tz), "cron/zone", tz > 0,
				map[string]any{"schedule": schedPool[sid], "tz": tzPool[tz]})
		}
	}
	// a wall-clock descriptor in a zone: around its first point after creation (DESIGN 13 / seed C18-r3-2)
	for k, d := range []int64{-1, 0, 1} {
		for j, c := range []choiceCase{
			{sid: 12, tz: 4, created: t0 + 4*86400*sec + 1800*sec, incl: true}, // @daily, America/New_York
			{sid: 11, tz: 3, created: t0 + 1800*sec, incl: true},               // @hourly, Asia/Kolkata (+05:30)
			{sid: 19, tz: 2, created: t0 + 1800*sec, incl: true},               // @weekly, Asia/Shanghai
		} {
			q, _ := nextOf(schedOf(c.sid, c.tz), c.created)
			c.now = q + d
			in, _ := c.tokens()
			emit(fmt.Sprintf("cron-descriptor-zone-%d-%d", j, k), 10, in, "cron/choice-known", true, c.desc())
		}
	}

	// adoption by name (seed C18-r4-1): a running job of this CronJob already carries the name of
	// the first schedule point; Forbid; reconcile at T1 (AlreadyExists -> adopted), then at T2
	{
		t1, t2 := t0+3600*sec, t0+7200*sec
		st, _ := schedTokens(2, 1, t0, t2+10*sec)
		job := mjob{name: t1 / sec / 60, uid: 1, owner: 1, phase: 0, created: ptrI(t0 + 1800*sec)}
		for i, lenient := range []int64{1, 0} {
			in := cat(st, []int64{lenient}, []int64{t0 + 1800*sec, 0, 1, 0, 0, 0, 1}, []int64{0, 0, 0},
				[]int64{1}, job.enc(), []int64{100}, []int64{2}, []int64{0, t1 + 5*sec, 0}, []int64{0, t2 + 5*sec, 0})
			emit(fmt.Sprintf("cron-adoption-%d", i), 20, in, "cron/history-known", true,
				map[string]any{"schedule": schedPool[2], "what": "AlreadyExists on a running job of this CronJob under Forbid", "jobClientIgnoresNamespace": lenient == 1})
		}
		// a lost status write: T1 is started, the write is lost, the job completes, the history limit 0
		// removes it, the next reconcile starts T1 again (known finding C18/lost-status-write)
		in := cat(st, []int64{0}, []int64{t0 + 1800*sec, 0, 0, 0, 1, 0, 1, 0, 1}, []int64{0, 0, 0},
			[]int64{0}, []int64{100}, []int64{3}, []int64{9, t1 + 5*sec, 0}, []int64{1, t1 / sec / 60, 1, 1, t1 + 10*sec},
			[]int64{0, t1 + 20*sec, 0})
		emit("cron-lost-status-write", 20, in, "cron/history-known", true,
			map[string]any{"schedule": schedPool[2], "what": "UpdateStatus fails after the Create (sync swallows the error), the run completes and is removed by successfulJobsHistoryLimit=0, the same schedule time is started again"})
	}

	// Forbid next to a live run (second audit N1 / N3), all with every Create succeeding:
	{
		t1, t2 := t0+3600*sec, t0+7200*sec
		st, _ := schedTokens(2, 1, t0, t2+10*sec)
		spec := []int64{t0 + 1800*sec, 0, 1, 0, 0, 0, 1} // Forbid, no limits
		none := []int64{0, 0, 0}                          // empty status
		mk := func(id, what string, nops int64, ops ...[]int64) {
			in := cat(st, []int64{0}, spec, none, []int64{0}, []int64{100}, []int64{nops}, cat(ops...))
			emit(id, 20, in, "cron/history-known", true, map[string]any{"schedule": schedPool[2], "what": what})
		}
		// (a) the run of T1 is started and recorded; a reconcile whose job lister does not show it yet
		// drops the reference and writes the status; at T2 a second run starts next to the first
		mk("cron-forbid-lister-lag", "job lister lags behind the Create: the reference of the running job is dropped as stale, Forbid no longer blocks", 3,
			[]int64{0, t1 + 5*sec, 0}, []int64{10, 0, 0, 1, t1 + 6*sec, 0}, []int64{0, t2 + 5*sec, 0})
		// (b) the same inside one reconcile: at T2 the lister still does not show the run of T1
		mk("cron-forbid-lister-lag-direct", "job lister does not show the running job at the next schedule point", 2,
			[]int64{0, t1 + 5*sec, 0}, []int64{10, 0, 0, 1, t2 + 5*sec, 0})
		// (c) lost status write: the run of T1 is never recorded, at T2 a second run starts
		mk("cron-forbid-lost-write", "status write of the first start is lost, Forbid has nothing to look at", 2,
			[]int64{9, t1 + 5*sec, 0}, []int64{0, t2 + 5*sec, 0})
	}

	// the decision of processTTL next to the boundary on the REAL clock: expiry 150 ms after the run
	// (must be re-queued, not deleted) and 150 ms before it (must be deleted); the window law
	// tolerates the clock.  The model's two clock readings are "at the run", so the correspondence
	// entry is told the sign only (expiry rounded away from the run to +-5 s would change nothing)
	for i, ttl := range []int64{0, 1, 60} {
		for k, off := range []int64{150 * 1000000, -150 * 1000000} {
			g := gjob{uid: int64(1 + i), phase: int64(1 + i%3), ttl: ptrI(ttl), finish: ptrI(off - ttl*sec), created: ptrI(-86400 * sec)}
			emit(fmt.Sprintf("gc-process-near-%d-%d", i, k), 3, cat(encOptGjob(&g), encOptGjob(&g)), "gc/processJob-near-boundary", true, nil)
		}
	}

	// --- random streams ---
	gr := rng.Fork()
	for i := 0; i < n; i++ {
		g := genGjob(gr, int64(gr.Range(1, 50)))
		var since int64
		base := fin
		if g.finish != nil {
			base = *g.finish
		}
		ttl := int64(0)
		if g.ttl != nil {
			ttl = *g.ttl
		}
		switch gr.Intn(6) {
		case 0:
			since = base + ttl*sec
		case 1:
			since = base + ttl*sec - 1
		case 2:
			since = base + ttl*sec + 1
		case 3:
			since = base - int64(gr.Intn(1000))*sec
		default:
			since = base + int64(gr.Intn(200000))*sec + int64(gr.Intn(1000000000))
		}
		emit(fmt.Sprintf("gc-timeleft-%d", i), 1, cat(g.enc(), []int64{since}), "gc/timeLeft",
			g.ttl != nil && g.phase != 0 && g.finish != nil, nil)
		if i%4 == 0 {
			emit(fmt.Sprintf("gc-enqueue-%d", i), 4, g.enc(), "gc/event-handlers", g.ttl != nil && g.phase != 0, nil)
		}
	}
	pr := rng.Fork()
	for i := 0; i < n/3+4; i++ {
		var lj, fr *gjob
		uid := int64(pr.Range(1, 9))
		switch pr.Intn(12) {
		case 0: // nothing in the lister
			g := genGjobRel(pr, uid, true)
			fr = &g
		case 1: // gone from the API server
			g := genGjobRel(pr, uid, true)
			lj = &g
		case 2: // TTL extended meanwhile
			a, b := genGjobRel(pr, uid, true), genGjobRel(pr, uid, false)
			lj, fr = &a, &b
		case 3: // recreated under the same name: another UID
			a, b := genGjobRel(pr, uid, true), genGjobRel(pr, uid+10, pr.Chance(1, 2))
			lj, fr = &a, &b
		case 4: // being deleted
			a, b := genGjobRel(pr, uid, true), genGjobRel(pr, uid, true)
			b.deleting = true
			lj, fr = &a, &b
		case 5: // not yet due
			a := genGjobRel(pr, uid, false)
			b := a
			lj, fr = &a, &b
		case 6: // fresh copy is running again / has no TTL any more
			a, b := genGjobRel(pr, uid, true), genGjobRel(pr, uid, true)
			if pr.Chance(1, 2) {
				b.phase = 0
			} else {
				b.ttl = nil
			}
			lj, fr = &a, &b
		case 7: // no finish time recorded
			a := genGjobRel(pr, uid, true)
			a.finish = nil
			b := a
			if pr.Chance(1, 2) {
				b = genGjobRel(pr, uid, true)
				a = b
				b.finish = nil
			}
			lj, fr = &a, &b
		case 8: // finished in the future (clock skew), TTL far from over
			a := genGjobRel(pr, uid, false)
			a.finish = ptrI(int64(pr.Range(5, 100)) * sec)
			b := a
			lj, fr = &a, &b
		default: // due: deleted
			a := genGjobRel(pr, uid, true)
			b := a
			if pr.Chance(1, 3) {
				b = genGjobRel(pr, uid, true)
			}
			lj, fr = &a, &b
		}
		emit(fmt.Sprintf("gc-process-%d", i), 3, cat(encOptGjob(lj), encOptGjob(fr)), "gc/processJob", lj != nil && fr != nil, nil)
	}
	cr := rng.Fork()
	for i := 0; i < 2*n; i++ {
		c := genChoice(cr)
		in, _ := c.tokens()
		kind := "cron/choice"
		if _, ok := everyPeriod[c.sid]; ok {
			kind = "cron/choice-every"
		}
		emit(fmt.Sprintf("cron-choice-%d", i), 10, in, kind, c.nontrivial(), c.desc())
	}
	hr := rng.Fork()
	for i := 0; i < n; i++ {
		in, desc, nt := genHistory(hr)
		emit(fmt.Sprintf("cron-history-%d", i), 20, in, "cron/history", nt, desc)
	}
	// --- malformed inputs: model and harness must both refuse them ---
	mr := rng.Fork()
	for i := 0; i < 6; i++ {
		g := genGjob(mr, 3)
		in := cat(g.enc(), []int64{t0})
		switch i % 3 {
		case 0:
			in[1] = 7 // no such phase
		case 1:
			in = in[:len(in)-1] // truncated
		default:
			in = append(in, 5) // trailing token
		}
		emit(fmt.Sprintf("malformed-gc-%d", i), 1, in, "malformed", false, nil)
	}
	for i := 0; i < 4; i++ {
		c := genChoice(mr)
		in, _ := c.tokens()
		if i%2 == 0 {
			in = in[:len(in)-2]
		} else {
			in = append(in, 1, 2)
		}
		emit(fmt.Sprintf("malformed-cron-%d", i), 10, in, "malformed", false, nil)
	}
	fmt.Fprintf(os.Stderr, "schedule tables re-enumerated minute by minute without Next: %d\n", bruteChecked)
}
