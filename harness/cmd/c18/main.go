// C18 harness: the TTL garbage collector (timeLeft / processJob against a fake
// clientset and a recording work queue) and the cron controller (schedule
// choice against robfig/cron schedules, syncCronJob over histories of
// reconciles with an injected clock and a stateful fake job client), run on the
// real volcano code.  Time travels as Unix nanoseconds.
package main

import (
	"errors"
	"fmt"
	"sort"
	"strconv"
	"strings"
	"time"
	_ "time/tzdata"

	"github.com/robfig/cron/v3"
	corev1 "k8s.io/api/core/v1"
	apierrors "k8s.io/apimachinery/pkg/api/errors"
	metav1 "k8s.io/apimachinery/pkg/apis/meta/v1"
	"k8s.io/apimachinery/pkg/runtime/schema"
	"k8s.io/apimachinery/pkg/types"
	k8stesting "k8s.io/client-go/testing"
	"k8s.io/utils/ptr"

	batchv1 "volcano.sh/apis/pkg/apis/batch/v1alpha1"
	vcclientset "volcano.sh/apis/pkg/client/clientset/versioned"
	vcfake "volcano.sh/apis/pkg/client/clientset/versioned/fake"

	"verif/harness/internal/vh"
	cjc "volcano.sh/volcano/pkg/controllers/cronjob"
	gcc "volcano.sh/volcano/pkg/controllers/garbagecollector"
)

const (
	sec      = int64(1000000000)
	ns       = "ns"
	cjName   = "cj"
	cjUID    = "cj-uid"
	zeroTok  = -(int64(1) << 62)
	badToken = -999999
)

var badInput = []int64{badToken}

// ---------- token reader (mirrors Base/Codec.v) ----------

type rd struct {
	t   []int64
	i   int
	bad bool
}

func (r *rd) z() int64 {
	if r.bad || r.i >= len(r.t) {
		r.bad = true
		return 0
	}
	v := r.t[r.i]
	r.i++
	return v
}
func (r *rd) b() bool { return r.z() != 0 }
func (r *rd) n() int {
	v := r.z()
	if v < 0 || v > 1<<20 {
		r.bad = true
		return 0
	}
	return int(v)
}
func (r *rd) optZ() *int64 {
	if r.z() == 0 {
		return nil
	}
	v := r.z()
	return &v
}
func (r *rd) enum(max int64) int64 {
	v := r.z()
	if v < 0 || v > max {
		r.bad = true
		return 0
	}
	return v
}
func (r *rd) done() bool { return !r.bad && r.i == len(r.t) }

func tag(i int64) []int64 { return []int64{-100 - i} }
func eOpt(p *int64) []int64 {
	if p == nil {
		return []int64{0}
	}
	return []int64{1, *p}
}
func cat(xs ...[]int64) (o []int64) {
	o = []int64{}
	for _, x := range xs {
		o = append(o, x...)
	}
	return
}

// the controller's zone: time.Now() and the timestamps decoded from the API carry
// time.Local, and a schedule without a zone is evaluated in the zone of the time it
// is asked about.  It is fixed here (to an offset no pool zone has, not a whole
// hour) so that no result depends on the zone of the machine.
func init() { time.Local = time.FixedZone("harness-local", 5*3600+45*60) }

func tm(nsec int64) time.Time { return time.Unix(0, nsec) }
func mt(p *int64) metav1.Time {
	if p == nil {
		return metav1.Time{}
	}
	return metav1.Time{Time: tm(*p)}
}
func tok(t time.Time) int64 {
	if t.IsZero() {
		return zeroTok
	}
	return t.UnixNano()
}

// ---------- garbage collector ----------

type gjob struct {
	uid      int64
	phase    int64
	ttl      *int64
	deleting bool
	finish   *int64
	created  *int64 // metadata.creationTimestamp (the GC must not fall back to it)
}

func (r *rd) gjob() gjob {
	return gjob{uid: r.z(), phase: r.enum(3), ttl: r.optZ(), deleting: r.b(), finish: r.optZ(), created: r.optZ()}
}
func (r *rd) optGjob() *gjob {
	if r.z() == 0 {
		return nil
	}
	g := r.gjob()
	return &g
}
func (g gjob) enc() []int64 {
	return cat([]int64{g.uid, g.phase}, eOpt(g.ttl), []int64{vh.B(g.deleting)}, eOpt(g.finish), eOpt(g.created))
}
func encOptGjob(g *gjob) []int64 {
	if g == nil {
		return []int64{0}
	}
	return cat([]int64{1}, g.enc())
}

var unfinishedPhases = []batchv1.JobPhase{batchv1.Running, batchv1.Pending, batchv1.Aborting, batchv1.Aborted,
	batchv1.Restarting, batchv1.Completing, batchv1.Terminating, ""}

func goPhase(p, salt int64) batchv1.JobPhase {
	switch p {
	case 1:
		return batchv1.Completed
	case 2:
		return batchv1.Failed
	case 3:
		return batchv1.Terminated
	}
	if salt < 0 {
		salt = -salt
	}
	return unfinishedPhases[salt%int64(len(unfinishedPhases))]
}

// base is added to the finish time (0 for absolute times)
func (g gjob) build(base int64) *batchv1.Job {
	j := &batchv1.Job{ObjectMeta: metav1.ObjectMeta{Namespace: ns, Name: "j", UID: types.UID(fmt.Sprintf("u%d", g.uid))}}
	j.Status.State.Phase = goPhase(g.phase, g.uid)
	if g.ttl != nil {
		if *g.ttl > 1<<31-1 || *g.ttl < -(1<<31) {
			panic("ttl out of int32")
		}
		j.Spec.TTLSecondsAfterFinished = ptr.To(int32(*g.ttl))
	}
	if g.deleting {
		d := metav1.Now()
		j.DeletionTimestamp = &d
	}
	if g.finish != nil {
		t := tm(*g.finish + base)
		if g.uid%3 == 0 {
			t = t.In(time.FixedZone("x", 8*3600))
		}
		j.Status.State.LastTransitionTime = metav1.Time{Time: t}
	}
	if g.created != nil {
		j.CreationTimestamp = metav1.Time{Time: tm(*g.created + base)}
	}
	return j
}

func parseUID(u types.UID) int64 {
	s := string(u)
	if !strings.HasPrefix(s, "u") {
		return -1
	}
	v, err := strconv.ParseInt(s[1:], 10, 64)
	if err != nil {
		return -1
	}
	return v
}

// what the last processJob run did, for the law case
var lastGC struct {
	lo, hi int64
	del    *int64
	rqs    []int64
	err    bool
}

// nearExpiry: an eligible copy whose expiry lies within a second of the run
func nearExpiry(g *gjob) bool {
	if g == nil || g.ttl == nil || g.finish == nil || g.phase == 0 {
		return false
	}
	e := *g.finish + *g.ttl*sec
	return e > -sec && e < sec
}

func runGCProcess(lj, fresh *gjob) []int64 {
	out := runGCProcessOnce(lj, fresh)
	// the cases next to the boundary are only meaningful when the call began within 50 ms of the
	// reference instant; a preempted run is repeated (the model reads the clock "at the run")
	for try := 0; try < 8 && (nearExpiry(lj) || nearExpiry(fresh)) && lastGC.hi > int64(50*time.Millisecond); try++ {
		out = runGCProcessOnce(lj, fresh)
	}
	return out
}

func runGCProcessOnce(lj, fresh *gjob) []int64 {
	// everything that takes time first: the offsets of the case count from [base]
	client := vcfake.NewSimpleClientset()
	v := gcc.NewVerifController(client)
	base := time.Now()
	if fresh != nil {
		if err := client.Tracker().Add(fresh.build(base.UnixNano())); err != nil {
			panic(err)
		}
	}
	if lj != nil {
		if err := v.AddToLister(lj.build(base.UnixNano())); err != nil {
			panic(err)
		}
	}
	client.ClearActions()
	// the window of the call on the WALL clock, which is what the code subtracts (the job's times carry
	// no monotonic reading); time.Since would use the monotonic one, and the two readings of a
	// time.Now() can be tens of microseconds apart under load.  1 ms of slack against clock steps.
	const slack = int64(time.Millisecond)
	lo := time.Now().UnixNano() - base.UnixNano() - slack
	err := v.ProcessJob(ns + "/j")
	hi := time.Now().UnixNano() - base.UnixNano() + slack
	var del *int64
	ndel := 0
	for _, a := range client.Actions() {
		if a.GetVerb() != "delete" {
			continue
		}
		ndel++
		da := a.(k8stesting.DeleteActionImpl)
		if da.GetName() != "j" || da.GetNamespace() != ns {
			panic("delete of another object")
		}
		u := int64(-1)
		if pc := da.DeleteOptions.Preconditions; pc != nil && pc.UID != nil {
			u = parseUID(*pc.UID)
		}
		if pp := da.DeleteOptions.PropagationPolicy; pp == nil || *pp != metav1.DeletePropagationForeground {
			panic("delete without foreground propagation")
		}
		del = &u
	}
	if ndel > 1 {
		panic("more than one delete")
	}
	rqs := []int64{}
	for _, e := range v.Enqueued {
		if !e.Delayed || e.Key != ns+"/j" {
			panic("unexpected immediate enqueue")
		}
		rqs = append(rqs, e.After.Nanoseconds())
	}
	lastGC.lo, lastGC.hi, lastGC.del, lastGC.rqs, lastGC.err = lo, hi, del, rqs, err != nil
	return cat(tag(1), []int64{vh.B(err != nil)}, tag(2), []int64{int64(len(rqs))}, tag(3), eOpt(del))
}

// ---------- cron: schedules ----------

var schedPool = []string{
	"* * * * *",           // 0
	"*/5 * * * *",         // 1
	"0 * * * *",           // 2
	"0 */6 * * *",         // 3
	"30 6-16/4 * * 1-5",   // 4 irregular (DESIGN F8)
	"0 9 * * 1",           // 5
	"15,45 8-17 * * *",    // 6
	"0 0 1 * *",           // 7
	"59 23 31 2 *",        // 8 never
	"@every 90s",          // 9
	"@every 1h30m",        // 10
	"@hourly",             // 11
	"@daily",              // 12
	"*/7 * * * *",         // 13
	"0 3 * * 0,6",         // 14
	"@every 7s",           // 15
	"0 0 29 2 *",          // 16
	"*/20 9-17 * * 1-5",   // 17
	"@every 1m",           // 18
	"@weekly",             // 19
	"@monthly",            // 20
	"@yearly",             // 21
	"@annually",           // 22
	"@midnight",           // 23
	"TZ=Asia/Tokyo 0 * * * *",          // 24 embedded zone (upstream validation rejects, this controller warns)
	"CRON_TZ=Europe/London 30 9 * * *", // 25
	"TZ=America/New_York @daily",       // 26
	"CRON_TZ=Asia/Kolkata @hourly",     // 27
	"TZ=Asia/Tokyo @every 2m",          // 28
}
var everyPeriod = map[int]int64{9: 90 * sec, 10: 5400 * sec, 15: 7 * sec, 18: 60 * sec, 28: 120 * sec}

// zone ids; 0 = spec.timeZone nil
var tzPool = []string{"", "UTC", "Asia/Shanghai", "Asia/Kolkata", "America/New_York", "Europe/Berlin",
	"Asia/Tokyo", "Europe/London", "<empty>", "Mars/Olympus"}

const tzEmptyString, tzInvalid = 8, 9

func tzName(id int) string {
	if id == tzEmptyString {
		return "" // a pointer to the empty string: time.LoadLocation("") is UTC
	}
	return tzPool[id]
}
func tzLoads(id int) bool { return id != tzInvalid }

// what the model sees of a schedule string: its grammar and the zone it embeds
const (
	kFive = iota
	kEvery
	kDescriptor
)

func schedKind(sid int) int64 {
	s := schedBody(sid)
	switch {
	case strings.HasPrefix(s, "@every"):
		return kEvery
	case strings.HasPrefix(s, "@"):
		return kDescriptor
	}
	return kFive
}

// the schedule without an embedded TZ=/CRON_TZ= prefix, and the zone id of the prefix (-1: none)
func splitEmbedded(sid int) (string, int) {
	s := schedPool[sid]
	if !strings.HasPrefix(s, "TZ=") && !strings.HasPrefix(s, "CRON_TZ=") {
		return s, -1
	}
	sp := strings.Index(s, " ")
	zone := s[strings.Index(s, "=")+1 : sp]
	for i, z := range tzPool {
		if i > 0 && z == zone {
			return strings.TrimSpace(s[sp:]), i
		}
	}
	panic("embedded zone not in the pool")
}
func schedBody(sid int) string { b, _ := splitEmbedded(sid); return b }

// specSchedule evaluates the schedule as the CronJob SPEC says, without going through
// formatSchedule or the parser's TZ= handling: the plain expression is parsed and its
// Location is set to the zone the string embeds, else to spec.timeZone, else left local.
func specSchedule(sid, tz int) (cron.Schedule, bool) {
	body, emb := splitEmbedded(sid)
	sch, err := cron.ParseStandard(body)
	if err != nil {
		panic("schedule pool entry does not parse: " + err.Error())
	}
	zone := -1
	switch {
	case emb >= 0:
		zone = emb
	case tz > 0:
		if !tzLoads(tz) {
			return nil, false
		}
		zone = tz
	}
	if ss, ok := sch.(*cron.SpecSchedule); ok && zone >= 0 {
		loc, err := time.LoadLocation(tzName(zone))
		if err != nil {
			panic("pool zone does not load: " + err.Error())
		}
		ss.Location = loc
	}
	return sch, true
}

// wallClockOK: a point of a descriptor schedule, read on the wall clock of its zone
func wallClockOK(sid int, loc *time.Location, p int64) bool {
	t := time.Unix(0, p).In(loc)
	if t.Nanosecond() != 0 || t.Second() != 0 || t.Minute() != 0 {
		return false
	}
	switch schedBody(sid) {
	case "@hourly":
		return true
	case "@daily", "@midnight":
		return t.Hour() == 0
	case "@weekly":
		return t.Hour() == 0 && t.Weekday() == time.Sunday
	case "@monthly":
		return t.Hour() == 0 && t.Day() == 1
	case "@yearly", "@annually":
		return t.Hour() == 0 && t.Day() == 1 && t.Month() == time.January
	}
	panic("not a descriptor")
}

type recSched struct {
	s  cron.Schedule
	qs [][2]time.Time
}

func (r *recSched) Next(t time.Time) time.Time {
	n := r.s.Next(t)
	r.qs = append(r.qs, [2]time.Time{t, n})
	return n
}

func baseCJ(sid, tz int) *batchv1.CronJob {
	cj := &batchv1.CronJob{
		TypeMeta:   metav1.TypeMeta{Kind: "CronJob", APIVersion: "batch.volcano.sh/v1alpha1"},
		ObjectMeta: metav1.ObjectMeta{Namespace: ns, Name: cjName, UID: cjUID},
	}
	cj.Spec.Schedule = schedPool[sid]
	if tz > 0 {
		cj.Spec.TimeZone = ptr.To(tzName(tz))
	}
	return cj
}

var parseCtl *cjc.VerifController

// the controller's own parser (validateTZandSchedule -> formatSchedule -> cron.ParseStandard)
func parseSchedule(cj *batchv1.CronJob) cron.Schedule {
	if parseCtl == nil {
		parseCtl = cjc.NewVerifController(nil, nil, time.Now)
	}
	s, err := parseCtl.ValidateTZandSchedule(cj)
	if err != nil {
		panic("schedule pool entry does not parse: " + err.Error())
	}
	return s
}

type schedTok struct {
	sid, tz int
	kind    int64
	tbl     []int64
	period  int64
}

func (r *rd) sched() schedTok {
	s := schedTok{sid: int(r.z()), tz: int(r.z())}
	if s.sid < 0 || s.sid >= len(schedPool) || s.tz < 0 || s.tz >= len(tzPool) {
		r.bad = true
		return s
	}
	s.kind = r.z()
	switch s.kind {
	case 0:
		n := r.n()
		for i := 0; i < n; i++ {
			s.tbl = append(s.tbl, r.z())
		}
		for i := 1; i < len(s.tbl); i++ {
			if s.tbl[i-1] >= s.tbl[i] {
				r.bad = true
			}
		}
	case 1:
		s.period = r.z()
		if s.period < sec {
			r.bad = true
		}
	default:
		r.bad = true
	}
	return s
}

// ---------- cron: schedule choice (selector 10) ----------

var lastChoice struct {
	qs     [][2]time.Time
	chosen *int64
}

func runChoice(in []int64) []int64 {
	r := &rd{t: in}
	st := r.sched()
	created := r.z()
	last := r.optZ()
	deadline := r.optZ()
	now := r.z()
	incl := r.b()
	if !r.done() {
		return badInput
	}
	cj := baseCJ(st.sid, st.tz)
	cj.CreationTimestamp = metav1.Time{Time: tm(created)}
	if last != nil {
		cj.Status.LastScheduleTime = &metav1.Time{Time: tm(*last)}
	}
	cj.Spec.StartingDeadlineSeconds = deadline
	rs := &recSched{s: parseSchedule(cj)}
	e, t, missed, err := cjc.VerifMostRecentScheduleTime(cj, tm(now), rs, incl)
	out := cat(tag(1), []int64{tok(e)}, tag(2))
	if err != nil {
		if !strings.Contains(err.Error(), "less than 1 second") {
			panic("unexpected error: " + err.Error())
		}
		if t != nil || missed != 0 {
			panic("error with a result")
		}
		out = append(out, 0)
	} else {
		out = append(out, 1)
		if t == nil {
			out = append(out, 0)
		} else {
			out = append(out, 1, tok(*t))
		}
		out = append(out, int64(missed))
	}
	lastChoice.qs = rs.qs // the queries of the includeStartingDeadlineSeconds=incl run
	rec := &cjc.VerifRecorder{}
	rs2 := &recSched{s: rs.s}
	nt, err := cjc.VerifNextScheduleTime(cj, tm(now), rs2, rec)
	lastChoice.chosen = nil
	out = append(out, tag(3)...)
	if err != nil {
		if nt != nil {
			panic("nextScheduleTime: error with a result")
		}
		out = append(out, 0)
	} else if nt == nil {
		out = append(out, 1, 0)
	} else {
		v := tok(*nt)
		lastChoice.chosen = &v
		out = append(out, 1, 1, v)
	}
	if st.kind == 0 {
		lastChoice.qs = append(lastChoice.qs, rs2.qs...)
	}
	rs3 := &recSched{s: rs.s}
	d := cjc.VerifNextScheduleTimeDuration(cj, tm(now), rs3)
	if st.kind == 0 {
		lastChoice.qs = append(lastChoice.qs, rs3.qs...)
	}
	out = append(out, tag(4)...)
	out = append(out, 1, d.Nanoseconds())
	// the inputs must not have been modified
	if !cj.CreationTimestamp.Time.Equal(tm(created)) || (last != nil && !cj.Status.LastScheduleTime.Time.Equal(tm(*last))) {
		panic("the CronJob was modified by a read-only helper")
	}
	return out
}

// the table a law sees: the points themselves, or for "@every" the chain
// anchored at the earliest time
func lawTable(st schedTok, created int64, last, deadline *int64, now int64) []int64 {
	if st.kind == 0 {
		return st.tbl
	}
	e := created
	if last != nil {
		e = *last
	}
	if deadline != nil {
		if sd := now - *deadline*sec; sd > e {
			e = sd
		}
	}
	fl := e - ((e%sec)+sec)%sec
	out := []int64{}
	for p := fl + st.period; len(out) < 3 || out[len(out)-3] <= now; p += st.period {
		out = append(out, p)
		if len(out) > 5000 {
			panic("chain too long")
		}
	}
	return out
}

func encList(l []int64) []int64 { return append([]int64{int64(len(l))}, l...) }

// ---------- cron: histories (selector 20) ----------

type mjob struct {
	name, uid, owner, phase int64
	created, finish         *int64
}

func (r *rd) job() mjob {
	return mjob{name: r.z(), uid: r.z(), owner: r.enum(2), phase: r.enum(3), created: r.optZ(), finish: r.optZ()}
}
func (j mjob) enc() []int64 {
	return cat([]int64{j.name, j.uid, j.owner, j.phase}, eOpt(j.created), eOpt(j.finish))
}

func jobName(n int64) string { return fmt.Sprintf("%s-%d", cjName, n) }
func parseName(s string) int64 {
	v, err := strconv.ParseInt(strings.TrimPrefix(s, cjName+"-"), 10, 64)
	if err != nil {
		panic("unexpected job name " + s)
	}
	return v
}

func (j mjob) build(cj *batchv1.CronJob) *batchv1.Job {
	o := &batchv1.Job{
		TypeMeta:   metav1.TypeMeta{Kind: "Job", APIVersion: "batch.volcano.sh/v1alpha1"},
		ObjectMeta: metav1.ObjectMeta{Namespace: ns, Name: jobName(j.name), UID: types.UID(fmt.Sprintf("u%d", j.uid))},
	}
	switch j.owner {
	case 1:
		o.OwnerReferences = []metav1.OwnerReference{*metav1.NewControllerRef(cj, batchv1.SchemeGroupVersion.WithKind("CronJob"))}
	case 2:
		other := cj.DeepCopy()
		other.Name, other.UID = "other", "other-uid"
		o.OwnerReferences = []metav1.OwnerReference{*metav1.NewControllerRef(other, batchv1.SchemeGroupVersion.WithKind("CronJob"))}
	}
	o.Status.State.Phase = goPhase(j.phase, j.uid)
	o.CreationTimestamp = mt(j.created)
	o.Status.State.LastTransitionTime = mt(j.finish)
	return o
}

func unbuild(o *batchv1.Job) mjob {
	j := mjob{name: parseName(o.Name), uid: parseUID(o.UID)}
	if c := metav1.GetControllerOf(o); c != nil {
		if c.Kind == "CronJob" && c.Name == cjName && c.UID == cjUID {
			j.owner = 1
		} else {
			j.owner = 2
		}
	}
	switch o.Status.State.Phase {
	case batchv1.Completed:
		j.phase = 1
	case batchv1.Failed:
		j.phase = 2
	case batchv1.Terminated:
		j.phase = 3
	}
	if !o.CreationTimestamp.IsZero() {
		j.created = ptr.To(o.CreationTimestamp.UnixNano())
	}
	if !o.Status.State.LastTransitionTime.IsZero() {
		j.finish = ptr.To(o.Status.State.LastTransitionTime.UnixNano())
	}
	return j
}

// server is the stateful fake behind the controller's jobClient / cronjobClient
type server struct {
	jobs       map[string]*batchv1.Job
	nextUID    int64
	now        int64
	lenient    bool
	failCreate bool
	cj         *batchv1.CronJob // the persisted CronJob
	creates    [][2]int64       // (name, annotated schedule time)
	deletes    []int64
	viaGet     []int64 // per delete: 1 if the controller had just fetched that job
	lastGet    string
	emptyNsGet bool
	conflicts  [][2]int64 // Create calls answered AlreadyExists: (name, annotated schedule time)
	jobsBefore map[string]*batchv1.Job // the server's jobs when the current reconcile began
}

var errInjected = errors.New("injected create failure")
var gr = schema.GroupResource{Group: "batch.volcano.sh", Resource: "jobs"}

func (s *server) GetJobClient(_ vcclientset.Interface, namespace, name string) (*batchv1.Job, error) {
	s.lastGet = name
	if namespace == "" && !s.lenient {
		// gentype sends a cluster-scoped GET for an empty namespace; the API server has no such
		// route for a namespaced resource and answers 404
		s.emptyNsGet = true
		return nil, apierrors.NewNotFound(gr, name)
	}
	if namespace != "" && namespace != ns {
		return nil, apierrors.NewNotFound(gr, name)
	}
	j, ok := s.jobs[name]
	if !ok {
		return nil, apierrors.NewNotFound(gr, name)
	}
	return j.DeepCopy(), nil
}

func (s *server) DeleteJobClient(_ vcclientset.Interface, namespace, name string) error {
	s.deletes = append(s.deletes, parseName(name))
	s.viaGet = append(s.viaGet, vh.B(s.lastGet == name))
	s.lastGet = ""
	if _, ok := s.jobs[name]; !ok || namespace != ns {
		return apierrors.NewNotFound(gr, name)
	}
	delete(s.jobs, name)
	return nil
}

func (s *server) CreateJobClient(_ vcclientset.Interface, namespace string, job *batchv1.Job) (*batchv1.Job, error) {
	if namespace != ns {
		panic("create in another namespace")
	}
	if s.failCreate {
		return nil, errInjected
	}
	if _, ok := s.jobs[job.Name]; ok {
		at, err := time.Parse(time.RFC3339, job.Annotations[batchv1.CronJobScheduledTimestampAnnotation])
		if err != nil {
			panic("job to create carries no scheduled-timestamp annotation")
		}
		s.conflicts = append(s.conflicts, [2]int64{parseName(job.Name), at.UnixNano()})
		return nil, apierrors.NewAlreadyExists(gr, job.Name)
	}
	o := job.DeepCopy()
	o.Namespace = namespace
	o.UID = types.UID(fmt.Sprintf("u%d", s.nextUID))
	s.nextUID++
	o.TypeMeta = metav1.TypeMeta{Kind: "Job", APIVersion: "batch.volcano.sh/v1alpha1"}
	o.CreationTimestamp = metav1.Time{Time: tm(s.now)}
	s.jobs[o.Name] = o
	at, err := time.Parse(time.RFC3339, o.Annotations[batchv1.CronJobScheduledTimestampAnnotation])
	if err != nil {
		panic("created job carries no scheduled-timestamp annotation")
	}
	s.creates = append(s.creates, [2]int64{parseName(o.Name), at.UnixNano()})
	return o.DeepCopy(), nil
}

func (s *server) GetCronJobClient(_ vcclientset.Interface, namespace, name string) (*batchv1.CronJob, error) {
	return s.cj.DeepCopy(), nil
}
func (s *server) UpdateStatus(_ vcclientset.Interface, c *batchv1.CronJob) (*batchv1.CronJob, error) {
	return c, nil
}

func (s *server) sorted() []mjob {
	out := []mjob{}
	for _, o := range s.jobs {
		out = append(out, unbuild(o))
	}
	sort.Slice(out, func(i, j int) bool { return out[i].name < out[j].name })
	return out
}

type mref struct{ name, uid int64 }

func encStatus(st *batchv1.CronJobStatus) []int64 {
	out := []int64{}
	if st.LastScheduleTime == nil {
		out = append(out, 0)
	} else {
		out = append(out, 1, tok(st.LastScheduleTime.Time))
	}
	out = append(out, int64(len(st.Active)))
	for _, a := range st.Active {
		if a.Namespace != ns {
			panic("active reference into another namespace")
		}
		out = append(out, parseName(a.Name), parseUID(a.UID))
	}
	switch {
	case st.LastSuccessfulTime == nil:
		out = append(out, 0)
	case st.LastSuccessfulTime.IsZero():
		out = append(out, 1, 0)
	default:
		out = append(out, 1, 1, st.LastSuccessfulTime.UnixNano())
	}
	return out
}

func errClass(err error) int64 {
	switch {
	case err == nil:
		return 0
	case strings.Contains(err.Error(), "less than 1 second"):
		return 1
	case strings.Contains(err.Error(), "failed to fetch conflicting job"):
		return 4
	case strings.Contains(err.Error(), "unknown time zone"):
		return 5
	case errors.Is(err, errInjected):
		return 3
	case apierrors.IsNotFound(err):
		return 2
	}
	return 99
}

// one observed reconcile, for the law cases
type obs struct {
	spec                 []int64
	last                 *int64
	active               []mref
	jobs                 []mjob
	now                  int64
	creates              [][2]int64
	deletes, viaGet      []int64
	activeAfter          []mref
	created              int64
	deadline             *int64
	conflicts            [][2]int64
	lenient              bool
	err                  int64
	lastAfter            *int64
	upd                  bool
	known                []int64 // UIDs of jobs this controller started / adopted / was handed
	lagged               bool    // the job lister was an older snapshot
	deleteSig            string  // mechanism that explains a history-limit Delete hitting a job that is not a finished run
	forbidSig            string  // mechanism that explains a live run next to a start under Forbid ("" = none)
	lost                 bool    // the status write of this reconcile did not reach the server
	staleIn              bool    // it started from an explicitly older status
}

var lastHist struct {
	st      schedTok
	obs     []obs
	created []int64
	stale   bool // the history contains a reconcile on an older status or with a lost status write
}

func refsOf(st *batchv1.CronJobStatus) []mref {
	out := []mref{}
	for _, a := range st.Active {
		out = append(out, mref{parseName(a.Name), parseUID(a.UID)})
	}
	return out
}

func encSpec(cj *batchv1.CronJob) []int64 {
	out := []int64{cj.CreationTimestamp.UnixNano(), vh.B(cj.Spec.Suspend != nil && *cj.Spec.Suspend)}
	switch cj.Spec.ConcurrencyPolicy {
	case batchv1.ForbidConcurrent:
		out = append(out, 1)
	case batchv1.ReplaceConcurrent:
		out = append(out, 2)
	default:
		out = append(out, 0)
	}
	out = append(out, eOpt(cj.Spec.StartingDeadlineSeconds)...)
	for _, l := range []*int32{cj.Spec.SuccessfulJobsHistoryLimit, cj.Spec.FailedJobsHistoryLimit} {
		if l == nil {
			out = append(out, 0)
		} else {
			out = append(out, 1, int64(*l))
		}
	}
	tzok := true
	if cj.Spec.TimeZone != nil {
		_, err := time.LoadLocation(*cj.Spec.TimeZone)
		tzok = err == nil
	}
	return append(out, vh.B(tzok))
}

var policies = []batchv1.ConcurrencyPolicy{batchv1.AllowConcurrent, batchv1.ForbidConcurrent, batchv1.ReplaceConcurrent}

func runHistory(in []int64) []int64 {
	r := &rd{t: in}
	st := r.sched()
	lenient := r.b()
	// spec
	created := r.z()
	suspend := r.b()
	pol := r.enum(2)
	deadline := r.optZ()
	succ := r.optZ()
	fail := r.optZ()
	tzok := r.b()
	// status
	st0 := r.status()
	nj := r.n()
	jobs := []mjob{}
	for i := 0; i < nj; i++ {
		jobs = append(jobs, r.job())
	}
	nextUID := r.z()
	nops := r.n()
	if r.bad {
		return badInput
	}
	if tzok != tzLoads(st.tz) {
		panic("zone id and zone-loads flag of the case disagree")
	}
	cj := baseCJ(st.sid, st.tz)
	cj.CreationTimestamp = metav1.Time{Time: tm(created)}
	cj.Spec.Suspend = ptr.To(suspend)
	cj.Spec.ConcurrencyPolicy = policies[pol]
	cj.Spec.StartingDeadlineSeconds = deadline
	lim := func(p *int64) *int32 {
		if p == nil {
			return nil
		}
		if *p < 0 || *p > 1<<30 {
			panic("history limit outside the validated range")
		}
		return ptr.To(int32(*p))
	}
	cj.Spec.SuccessfulJobsHistoryLimit = lim(succ)
	cj.Spec.FailedJobsHistoryLimit = lim(fail)
	cj.Status = st0
	srv := &server{jobs: map[string]*batchv1.Job{}, nextUID: nextUID, lenient: lenient, cj: cj}
	for _, j := range jobs {
		srv.jobs[jobName(j.name)] = j.build(cj)
	}
	ctl := cjc.NewVerifController(srv, srv, func() time.Time { return tm(srv.now) })
	outs := [][]int64{}
	lastHist.st, lastHist.obs, lastHist.created, lastHist.stale = st, nil, nil, false
	// one reconcile: on the persisted status (stIn == nil) or on a given older one; the
	// write-back follows sync(): only without error, when asked for - and when it is not lost
	// what the controller knows to be its runs: handed in the initial status.active, started or adopted
	known := map[int64]bool{}
	noteKnown := func(st *batchv1.CronJobStatus) {
		for _, a := range st.Active {
			if o, ok := srv.jobs[a.Name]; ok && o.UID == a.UID {
				known[parseUID(a.UID)] = true
			}
		}
	}
	noteKnown(&cj.Status)
	lostRef, lagDropped := map[int64]bool{}, map[int64]bool{}
	isLive := func(o *batchv1.Job) bool { j := unbuild(o); return j.owner == 1 && j.phase == 0 }
	hasRef := func(st *batchv1.CronJobStatus, uid types.UID) bool {
		for _, a := range st.Active {
			if a.UID == uid {
				return true
			}
		}
		return false
	}
	reconcile := func(now int64, fc bool, stIn *batchv1.CronJobStatus, lister []mjob, lagged bool, persistOK bool) {
		srv.now, srv.failCreate = now, fc
		srv.creates, srv.deletes, srv.viaGet, srv.lastGet, srv.emptyNsGet, srv.conflicts = nil, nil, nil, "", false, nil
		// the job lister: the API server's jobs, or - lagging - the snapshot handed in
		items := []interface{}{}
		inLister := map[string]types.UID{}
		if lagged {
			for _, j := range lister {
				o := j.build(cj)
				items = append(items, o)
				inLister[o.Name] = o.UID
			}
		} else {
			for _, o := range srv.jobs {
				items = append(items, o.DeepCopy())
				inLister[o.Name] = o.UID
			}
		}
		if err := ctl.JobIndexer().Replace(items, ""); err != nil {
			panic(err)
		}
		work := srv.cj.DeepCopy()
		if stIn != nil {
			work.Status = *stIn.DeepCopy()
		}
		mine, err := ctl.GetJobsByCronJob(work)
		if err != nil {
			panic(err)
		}
		sort.Slice(mine, func(i, j int) bool { return parseName(mine[i].Name) < parseName(mine[j].Name) })
		o := obs{spec: encSpec(srv.cj), active: refsOf(&work.Status), jobs: srv.sorted(), now: now,
			created: created, deadline: srv.cj.Spec.StartingDeadlineSeconds, lenient: lenient,
			staleIn: stIn != nil, lagged: lagged}
		for u := range known {
			o.known = append(o.known, u)
		}
		sort.Slice(o.known, func(i, j int) bool { return o.known[i] < o.known[j] })
		inputStatus := work.Status.DeepCopy()
		liveBefore := map[string]*batchv1.Job{}
		srv.jobsBefore = map[string]*batchv1.Job{}
		for n, j := range srv.jobs {
			srv.jobsBefore[n] = j.DeepCopy()
			if isLive(j) {
				liveBefore[n] = j.DeepCopy()
			}
		}
		if work.Status.LastScheduleTime != nil {
			o.last = ptr.To(work.Status.LastScheduleTime.UnixNano())
		}
		rq, upd, serr := ctl.SyncCronJob(work, mine)
		ec := errClass(serr)
		if ec == 2 && srv.emptyNsGet {
			ec = 4 // the conflicting job could not be fetched
		}
		if ec == 99 {
			panic("unclassified error: " + serr.Error())
		}
		if serr != nil && rq != nil {
			panic("error together with a requeue")
		}
		persisted := serr == nil && upd && persistOK
		if persisted {
			srv.cj.Status = *work.Status.DeepCopy()
		}
		o.lost = serr == nil && upd && !persistOK
		// why a live run of this controller may be missing from the status: its reference was never
		// written (lost write), or a reconcile whose lister did not show it dropped it as stale
		for n, j := range srv.jobsBefore {
			uid := parseUID(j.UID)
			if unbuild(j).phase != 0 {
				continue
			}
			if hasRef(inputStatus, j.UID) && !hasRef(&work.Status, j.UID) && lagged && inLister[n] != j.UID {
				if _, still := srv.jobs[n]; still {
					lagDropped[uid] = true
				}
			}
		}
		for _, a := range work.Status.Active {
			if j, ok := srv.jobs[a.Name]; ok && j.UID == a.UID && !hasRef(inputStatus, a.UID) && !persisted {
				lostRef[parseUID(a.UID)] = true
			}
		}
		// the mechanism behind a start under Forbid next to a live known run (law 122)
		if srv.cj.Spec.ConcurrencyPolicy == batchv1.ForbidConcurrent && len(srv.creates) > 0 {
			deleted := map[int64]bool{}
			for _, d := range srv.deletes {
				deleted[d] = true
			}
			nLive, nLag, nLost := 0, 0, 0
			for n, j := range srv.jobsBefore {
				uid := parseUID(j.UID)
				mj := unbuild(j)
				referenced := false
				for _, a := range inputStatus.Active {
					if a.Name == n && a.UID == j.UID {
						referenced = true
					}
				}
				// what law 122 counts: an unfinished run this controller knows as its own, or any
				// unfinished job the status it started from references
				if mj.phase != 0 || deleted[parseName(n)] || !((mj.owner == 1 && known[uid]) || referenced) {
					continue
				}
				nLive++
				switch {
				case lagDropped[uid] || (lagged && inLister[n] != j.UID && hasRef(inputStatus, j.UID)):
					nLag++
				case lostRef[uid] || (stIn != nil && !hasRef(inputStatus, j.UID) && hasRef(&srv.cj.Status, j.UID)):
					nLost++
				}
			}
			switch {
			case nLive > 0 && nLag == nLive:
				o.forbidSig = "C18/forbid-job-lister-lag"
			case nLive > 0 && nLag+nLost == nLive:
				o.forbidSig = "C18/lost-status-write"
			}
		}
		// a history-limit Delete (by NAME, no UID precondition) that hit something else than a finished
		// run of this CronJob: explained by lister lag only when the lister showed ANOTHER job under
		// that name (deleted and re-created since) or showed this one in a finished phase
		{
			nBad, nLag := 0, 0
			for i, d := range srv.deletes {
				if srv.viaGet[i] != 0 {
					continue
				}
				var before *mjob
				for k := range o.jobs {
					if o.jobs[k].name == d {
						before = &o.jobs[k]
					}
				}
				if before == nil || (before.owner == 1 && before.phase != 0) {
					continue
				}
				nBad++
				if lagged {
					for _, lj := range lister {
						if lj.name == d && (lj.uid != before.uid || lj.phase != 0) {
							nLag++
							break
						}
					}
				}
			}
			if nBad > 0 && nBad == nLag {
				o.deleteSig = "C18/forbid-job-lister-lag"
			}
		}
		noteKnown(&work.Status)
		var rqp *int64
		if rq != nil {
			rqp = ptr.To(rq.Nanoseconds())
		}
		cr := []int64{int64(len(srv.creates))}
		for _, c := range srv.creates {
			cr = append(cr, c[0], c[1])
			lastHist.created = append(lastHist.created, c[1])
		}
		outs = append(outs, cat(tag(0), tag(1), eOpt(rqp), tag(2), []int64{vh.B(upd)}, tag(3), []int64{ec},
			tag(4), cr, tag(5), encList(srv.deletes), tag(6), encStatus(&work.Status)))
		o.creates, o.deletes, o.viaGet, o.activeAfter = srv.creates, srv.deletes, srv.viaGet, refsOf(&work.Status)
		o.conflicts, o.err, o.upd = srv.conflicts, ec, upd
		if work.Status.LastScheduleTime != nil {
			o.lastAfter = ptr.To(work.Status.LastScheduleTime.UnixNano())
		}
		lastHist.obs = append(lastHist.obs, o)
	}
	for k := 0; k < nops; k++ {
		switch r.z() {
		case 0:
			now := r.z()
			fc := r.b()
			if r.bad {
				return badInput
			}
			reconcile(now, fc, nil, nil, false, true)
		case 6:
			stIn := r.status()
			ok := r.b()
			now := r.z()
			fc := r.b()
			if r.bad {
				return badInput
			}
			lastHist.stale = true
			reconcile(now, fc, &stIn, nil, false, ok)
		case 9:
			now := r.z()
			fc := r.b()
			if r.bad {
				return badInput
			}
			lastHist.stale = true
			reconcile(now, fc, nil, nil, false, false)
		case 10:
			var stIn *batchv1.CronJobStatus
			if r.z() != 0 {
				st := r.status()
				stIn = &st
			}
			nl := r.n()
			lister := []mjob{}
			for i := 0; i < nl; i++ {
				lister = append(lister, r.job())
			}
			ok := r.b()
			now := r.z()
			fc := r.b()
			if r.bad {
				return badInput
			}
			lastHist.stale = true
			reconcile(now, fc, stIn, lister, true, ok)
		case 7:
			d := r.optZ()
			if d != nil && *d < 0 {
				panic("negative starting deadline")
			}
			srv.cj.Spec.StartingDeadlineSeconds = d
		case 8:
			srv.cj.Spec.SuccessfulJobsHistoryLimit = lim(r.optZ())
			srv.cj.Spec.FailedJobsHistoryLimit = lim(r.optZ())
		case 1:
			name, ph, at := r.z(), r.enum(3), r.optZ()
			if o, ok := srv.jobs[jobName(name)]; ok {
				o.Status.State.Phase = goPhase(ph, parseUID(o.UID))
				o.Status.State.LastTransitionTime = mt(at)
			}
		case 2:
			delete(srv.jobs, jobName(r.z()))
		case 3:
			j := r.job()
			j.uid = srv.nextUID
			if _, ok := srv.jobs[jobName(j.name)]; !ok {
				srv.jobs[jobName(j.name)] = j.build(cj)
				srv.nextUID++
			}
		case 4:
			srv.cj.Spec.Suspend = ptr.To(r.b())
		case 5:
			srv.cj.Spec.ConcurrencyPolicy = policies[r.enum(2)]
		default:
			r.bad = true
		}
		if r.bad {
			return badInput
		}
	}
	if !r.done() {
		return badInput
	}
	out := []int64{int64(len(outs))}
	for _, o := range outs {
		out = append(out, o...)
	}
	out = append(out, tag(7)...)
	out = append(out, encStatus(&srv.cj.Status)...)
	out = append(out, tag(8)...)
	js := srv.sorted()
	out = append(out, int64(len(js)))
	for _, j := range js {
		out = append(out, j.enc()...)
	}
	out = append(out, tag(9)...)
	out = append(out, srv.nextUID)
	return out
}

// status tokens (mirrors dStatus of Entry.v)
func (r *rd) status() (st batchv1.CronJobStatus) {
	if last := r.optZ(); last != nil {
		st.LastScheduleTime = &metav1.Time{Time: tm(*last)}
	}
	na := r.n()
	for i := 0; i < na; i++ {
		st.Active = append(st.Active, refFor(mref{r.z(), r.z()}))
	}
	if r.z() != 0 {
		t := mt(r.optZ())
		st.LastSuccessfulTime = &t
	}
	return
}

func refFor(a mref) (o corev1.ObjectReference) {
	o.Kind, o.APIVersion = "Job", "batch.volcano.sh/v1alpha1"
	o.Namespace, o.Name, o.UID = ns, jobName(a.name), types.UID(fmt.Sprintf("u%d", a.uid))
	return
}

// ---------- cron: the zone of the schedule (selector 12) ----------

func zoneCaseTokens(sid, tz int) []int64 {
	out := []int64{int64(sid), int64(tz)}
	switch {
	case tz == 0:
		out = append(out, 0)
	case tzLoads(tz):
		out = append(out, 1, int64(tz))
	default:
		out = append(out, 2)
	}
	out = append(out, schedKind(sid))
	if _, emb := splitEmbedded(sid); emb >= 0 {
		out = append(out, 1, int64(emb))
	} else {
		out = append(out, 0)
	}
	return out
}

func sameZone(a *time.Location, id int) bool {
	b, err := time.LoadLocation(tzName(id))
	return err == nil && a.String() == b.String()
}

func runZone(in []int64) []int64 {
	if len(in) < 2 || in[0] < 0 || int(in[0]) >= len(schedPool) || in[1] < 0 || int(in[1]) >= len(tzPool) {
		return badInput
	}
	sid, tz := int(in[0]), int(in[1])
	if want := zoneCaseTokens(sid, tz); fmt.Sprint(want) != fmt.Sprint(in) {
		return badInput
	}
	cj := baseCJ(sid, tz)
	rec := &cjc.VerifRecorder{}
	f := cjc.VerifFormatSchedule(cj, rec)
	if f != cjc.VerifFormatSchedule(cj, nil) {
		panic("formatSchedule depends on the recorder")
	}
	_, emb := splitEmbedded(sid)
	if (len(rec.Reasons) > 0) != (emb >= 0) {
		panic("UnsupportedSchedule warning and embedded zone disagree")
	}
	out := tag(1)
	switch {
	case f == schedPool[sid]:
		out = append(out, 0)
	case tz > 0 && f == "TZ="+tzName(tz)+" "+schedPool[sid]:
		out = append(out, 1, int64(tz))
	default:
		panic("formatSchedule produced an unexpected string: " + f)
	}
	if parseCtl == nil {
		parseCtl = cjc.NewVerifController(nil, nil, time.Now)
	}
	sch, err := parseCtl.ValidateTZandSchedule(cj)
	out = append(out, tag(2)...)
	out = append(out, vh.B(err == nil))
	out = append(out, tag(3)...)
	ss, isSpec := sch.(*cron.SpecSchedule)
	switch {
	case err != nil || !isSpec:
		out = append(out, 0)
	case ss.Location == time.Local:
		out = append(out, 1, 0)
	case emb >= 0 && sameZone(ss.Location, emb):
		out = append(out, 1, 1, int64(emb))
	case tz > 0 && sameZone(ss.Location, tz):
		out = append(out, 1, 1, int64(tz))
	default:
		out = append(out, 1, 1, -1)
	}
	return out
}

// ---------- run / laws ----------

func run(sel int, in []int64) []int64 {
	switch sel {
	case 1:
		r := &rd{t: in}
		g := r.gjob()
		since := r.z()
		if !r.done() {
			return badInput
		}
		s := tm(since)
		if g.uid%2 == 0 {
			s = s.In(time.FixedZone("y", -5*3600))
		}
		j := g.build(0)
		d, err := gcc.VerifTimeLeft(j, &s)
		if (d == nil) == (err == nil) {
			panic("timeLeft: result and error disagree")
		}
		if d == nil {
			return []int64{0}
		}
		return []int64{1, d.Nanoseconds()}
	case 3:
		r := &rd{t: in}
		lj := r.optGjob()
		fr := r.optGjob()
		if !r.done() {
			return badInput
		}
		return runGCProcess(lj, fr)
	case 4:
		r := &rd{t: in}
		g := r.gjob()
		if !r.done() {
			return badInput
		}
		v := gcc.NewVerifController(vcfake.NewSimpleClientset())
		j := g.build(0)
		v.AddJob(j)
		a := len(v.Enqueued)
		v.UpdateJob(j, j)
		if len(v.Enqueued) != 2*a || a > 1 {
			panic("addJob and updateJob disagree")
		}
		for _, e := range v.Enqueued {
			if e.Delayed {
				panic("event handler used AddAfter")
			}
		}
		return []int64{int64(a), vh.B(gcc.VerifNeedsCleanup(j))}
	case 10:
		return runChoice(in)
	case 12:
		return runZone(in)
	case 20:
		return runHistory(in)
	}
	panic("unknown selector")
}

func laws(sel int, in, got []int64, law func(lsel int, lin []int64, sig string)) {
	if len(got) == 1 && got[0] == badToken {
		return
	}
	switch sel {
	case 1:
		law(101, cat(in, got), "")
	case 3:
		law(103, cat(in, []int64{lastGC.lo, lastGC.hi}, eOpt(lastGC.del), encList(lastGC.rqs), []int64{vh.B(lastGC.err)}), "")
	case 10:
		r := &rd{t: in}
		st := r.sched()
		created, last, deadline, now := r.z(), r.optZ(), r.optZ(), r.z()
		tbl := lawTable(st, created, last, deadline, now)
		law(110, cat([]int64{int64(st.sid), int64(st.tz)}, encList(tbl), []int64{created}, eOpt(last), eOpt(deadline),
			[]int64{now}, eOpt(lastChoice.chosen)), "")
		if st.kind == 0 {
			qs := []int64{int64(len(lastChoice.qs))}
			for _, q := range lastChoice.qs {
				qs = append(qs, tok(q[0]), tok(q[1]))
			}
			law(111, cat([]int64{int64(st.sid), int64(st.tz)}, encList(tbl), qs), "")
		}
	case 12:
		law(112, cat(in, stripTags(got)), "")
	case 20:
		for _, o := range lastHist.obs {
			tbl := lawTable(lastHist.st, o.created, o.last, o.deadline, o.now)
			l := cat([]int64{int64(lastHist.st.sid), int64(lastHist.st.tz)}, encList(tbl), o.spec, eOpt(o.last))
			l = append(l, int64(len(o.active)))
			for _, a := range o.active {
				l = append(l, a.name, a.uid)
			}
			l = append(l, int64(len(o.jobs)))
			for _, j := range o.jobs {
				l = append(l, j.enc()...)
			}
			l = append(l, o.now, int64(len(o.creates)))
			for _, c := range o.creates {
				l = append(l, c[0], c[1])
			}
			l = append(l, int64(len(o.deletes)))
			for i, d := range o.deletes {
				l = append(l, d, o.viaGet[i])
			}
			l = append(l, int64(len(o.activeAfter)))
			for _, a := range o.activeAfter {
				l = append(l, a.name, a.uid)
			}
			l = append(l, int64(len(o.conflicts)))
			for _, c := range o.conflicts {
				l = append(l, c[0], c[1])
			}
			l = append(l, vh.B(o.lenient), o.err)
			l = append(l, eOpt(o.lastAfter)...)
			l = append(l, vh.B(o.upd))
			l = append(l, vh.B(o.lagged))
			l = append(l, encList(o.known)...)
			law(121, l, "")
			// history limits delete only finished runs, on the API server's jobs
			law(123, l, o.deleteSig)
			// Forbid in the live-run form, on the API server's jobs; a failure is signed only when
			// every live run next to the start is explained by the mechanism of a known finding
			law(122, l, o.forbidSig)
		}
		// "each scheduled time starts at most one job" over the whole history, at full strength.  A
		// failure is signed as the known finding only when EVERY offending pair (an earlier start
		// t_i, a later start t_j <= t_i) shows its mechanism: the reconcile of t_j ran on a status
		// that did not record t_i, because the write-back of t_i's reconcile was lost or because it
		// read an explicitly older status
		sig := ""
		type start struct {
			t           int64
			last        *int64
			lost, stale bool
		}
		starts := []start{}
		for _, o := range lastHist.obs {
			for _, c := range o.creates {
				starts = append(starts, start{c[1], o.last, o.lost, o.staleIn})
			}
		}
		bad, explained := 0, 0
		for j := range starts {
			for i := 0; i < j; i++ {
				if starts[j].t <= starts[i].t {
					bad++
					unrecorded := starts[j].last == nil || *starts[j].last < starts[i].t
					if unrecorded && (starts[i].lost || starts[j].stale) {
						explained++
					}
				}
			}
		}
		if bad > 0 && bad == explained {
			sig = "C18/lost-status-write"
		}
		law(120, encList(lastHist.created), sig)
	}
}

// the observables of a tagged output without the tags
func stripTags(got []int64) []int64 {
	out := []int64{}
	for _, x := range got {
		if x <= -100 && x > -100000 {
			continue
		}
		out = append(out, x)
	}
	return out
}

func main() {
	vh.Harness{Run: run, Laws: laws, Gen: gen}.Main()
}
