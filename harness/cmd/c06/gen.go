package main

import (
	"fmt"

	"verif/harness/internal/jobctl"
	"verif/harness/internal/vh"
)

func i64p(v int64) *int64 { return &v }

func genSpec(r *vh.Rng, deps bool) jobctl.Spec {
	var s jobctl.Spec
	nt := r.Range(1, 4)
	total, tmin := int64(0), int64(0)
	// task names are independent of the position in spec.tasks: a random selection of 1..9 in random order
	// ("t7" before "t2": not alphabetical)
	names := []int64{1, 2, 3, 4, 5, 6, 7, 8, 9}
	for i := len(names) - 1; i > 0; i-- {
		k := r.Intn(i + 1)
		names[i], names[k] = names[k], names[i]
	}
	for i := 0; i < nt; i++ {
		t := jobctl.Task{Name: names[i], Replicas: int64(r.Range(0, 5)), Cpu: int64(vh.Pick(r, []int{0, 100, 250, 1000})),
			Mem: int64(vh.Pick(r, []int{0, 64, 128})), Prio: int64(vh.Pick(r, []int{0, 0, 1, 2, 2, 3, 4}))}
		if r.Chance(2, 3) {
			t.Min = i64p(int64(r.Range(0, int(t.Replicas))))
			tmin += *t.Min
		} else {
			tmin += t.Replicas
		}
		if deps && i > 0 && r.Chance(1, 2) {
			t.HasDeps = true
			t.DepAny = r.Chance(1, 2)
			for k := 1; k <= i; k++ {
				if r.Chance(1, 2) {
					t.Deps = append(t.Deps, names[k-1])
				}
			}
		}
		total += t.Replicas
		s.Tasks = append(s.Tasks, t)
	}
	switch r.Intn(5) {
	case 0:
		s.Min = total
	case 1:
		s.Min = tmin
	case 2:
		s.Min = int64(r.Range(0, int(total)))
	case 3:
		s.Min = int64(r.Range(0, int(tmin)))
	default:
		s.Min = int64(r.Range(int(tmin), int(total)))
	}
	s.MaxRetry = 3
	return s
}

func rescale(r *vh.Rng, s jobctl.Spec) jobctl.Spec {
	out := s
	out.Tasks = append([]jobctl.Task{}, s.Tasks...)
	total := int64(0)
	for i := range out.Tasks {
		if r.Chance(2, 3) {
			out.Tasks[i].Replicas = int64(r.Range(0, 5))
			if out.Tasks[i].Min != nil {
				out.Tasks[i].Min = i64p(int64(r.Range(0, int(out.Tasks[i].Replicas))))
			}
		}
		total += out.Tasks[i].Replicas
	}
	out.Min = int64(r.Range(0, int(total)))
	return out
}

func genPodRef(r *vh.Rng, s jobctl.Spec) (int64, int64) {
	t := vh.Pick(r, s.Tasks)
	return t.Name, int64(r.Range(0, int(t.Replicas)+1))
}

// ---------- the resync worker (syncTask) after a failed pod delete ----------
// A running job with all its replicas; one pod must be deleted by the sync (out-of-sync, or a surplus
// index); its DELETE is refused, so syncJob queues it for resync.  Then the resync worker's syncTask runs:
// plainly; with the pod going away and its delete event delivered between the worker's GET and its
// cache.UpdatePod; or after the pod has gone (GET NotFound).  Afterwards the views catch up and the job is
// reconciled until nothing changes: exactly one pod per replica index.
func genResync(r *vh.Rng) jobctl.History {
	var s jobctl.Spec
	nt := r.Range(1, 2)
	for i := 0; i < nt; i++ {
		t := jobctl.Task{Name: int64(vh.Pick(r, []int{3, 7})) - int64(i), Replicas: int64(r.Range(1, 3)), Cpu: 100}
		s.Tasks = append(s.Tasks, t)
		s.Min += t.Replicas
	}
	s.MaxRetry = DirectedTag
	h := jobctl.History{Spec: s, Status: jobctl.Status{Phase: 4, Min: s.Min, TscNil: true}, Pg: i64p(3)}
	for _, t := range s.Tasks {
		for i := int64(0); i < t.Replicas; i++ {
			h.Pods = append(h.Pods, jobctl.Pod{Task: t.Name, Idx: i, Phase: 1})
			h.Status.C[1]++
		}
	}
	vt := vh.Pick(r, s.Tasks)
	var victim jobctl.Pod
	if r.Chance(2, 3) {
		// an out-of-sync replica: must be deleted and, once gone, re-created
		k := r.Intn(len(h.Pods))
		h.Pods[k].Oos = true
		victim = h.Pods[k]
	} else {
		victim = jobctl.Pod{Task: vt.Name, Idx: vt.Replicas, Phase: 1} // a surplus index
		h.Pods = append(h.Pods, victim)
		h.Status.C[1]++
	}
	first := syncReq()
	first.Req.Faults = []jobctl.Fault{{Kind: int64(vh.Pick(r, []int{2, 21, 22, 25})), A: victim.Task, B: victim.Idx}}
	h.Ops = append(h.Ops, first)
	switch r.Intn(4) {
	case 0, 1:
		h.Ops = append(h.Ops, jobctl.Op{Code: 15, T: victim.Task, I: victim.Idx, Ph: 1}) // raced by the pod's disappearance
	case 2:
		h.Ops = append(h.Ops, jobctl.Op{Code: 15, T: victim.Task, I: victim.Idx, Ph: 0})
	default:
		h.Ops = append(h.Ops, jobctl.Op{Code: 4, T: victim.Task, I: victim.Idx}, jobctl.Op{Code: 15, T: victim.Task, I: victim.Idx, Ph: 0})
	}
	for k := 0; k < 3; k++ {
		h.Ops = append(h.Ops, jobctl.Op{Code: 7}, jobctl.Op{Code: 8}, jobctl.Op{Code: 6}, syncReq())
		if k == 0 && r.Chance(1, 2) {
			h.Ops = append(h.Ops, jobctl.Op{Code: 4, T: victim.Task, I: victim.Idx}) // the deleted pod finally goes away
		}
	}
	h.Ops = append(h.Ops, jobctl.Op{Code: 7}, jobctl.Op{Code: 8})
	return h
}

// ---------- a job-level kill bumps the job version; the old pods' delete events come AFTER the bump ----------
// A Running job with all its replicas (pods of job version v); a RestartJob command (or AbortJob, later
// ResumeJob) kills them and bumps the version; the pods' updates are delivered, the pods go away and only
// THEN their delete events reach the controller (through the real deletePod handler, carrying the old
// job-version annotation); then the job is reconciled until it is Running again with an admitted PodGroup:
// exactly one pod per replica index.
func genVersionBump(r *vh.Rng) jobctl.History {
	var s jobctl.Spec
	nt := r.Range(1, 2)
	for i := 0; i < nt; i++ {
		t := jobctl.Task{Name: int64(vh.Pick(r, []int{4, 8})) - int64(i), Replicas: int64(r.Range(1, 2)), Cpu: 100}
		s.Tasks = append(s.Tasks, t)
		s.Min += t.Replicas
	}
	s.MaxRetry = DirectedTag
	h := jobctl.History{Spec: s, Status: jobctl.Status{Phase: 4, Version: int64(r.Intn(2)), Min: s.Min, TscNil: true}, Pg: i64p(3)}
	for _, t := range s.Tasks {
		for i := int64(0); i < t.Replicas; i++ {
			h.Pods = append(h.Pods, jobctl.Pod{Task: t.Name, Idx: i, Phase: 1})
			h.Status.C[1]++
		}
	}
	cmd := func(a int64) jobctl.Op {
		return jobctl.Op{Code: 1, Req: jobctl.Req{Event: 9, Action: i64p(a), UidMatch: 1, Version: h.Status.Version + 5}}
	}
	deliver := []jobctl.Op{{Code: 7}, {Code: 8}, {Code: 6}}
	abort := r.Chance(1, 3)
	if abort {
		h.Ops = append(h.Ops, cmd(1)) // AbortJob
	} else {
		h.Ops = append(h.Ops, cmd(2)) // RestartJob
	}
	if r.Chance(2, 3) {
		h.Ops = append(h.Ops, deliver...) // the pods' deletion timestamps are seen first
	}
	for _, p := range h.Pods {
		h.Ops = append(h.Ops, jobctl.Op{Code: 4, T: p.Task, I: p.Idx}) // the pods go away
	}
	h.Ops = append(h.Ops, deliver...) // ... and their delete events arrive after the version bump
	h.Ops = append(h.Ops, syncReq())
	h.Ops = append(h.Ops, deliver...)
	if abort {
		h.Ops = append(h.Ops, cmd(8)) // ResumeJob
		h.Ops = append(h.Ops, deliver...)
		h.Ops = append(h.Ops, syncReq())
		h.Ops = append(h.Ops, deliver...)
	}
	// the Pending job gets its PodGroup back; the scheduler admits it; the pods are created
	h.Ops = append(h.Ops, syncReq())
	h.Ops = append(h.Ops, deliver...)
	h.Ops = append(h.Ops, jobctl.Op{Code: 5, Ph: 3}, jobctl.Op{Code: 8})
	for k := 0; k < 2; k++ {
		h.Ops = append(h.Ops, syncReq())
		h.Ops = append(h.Ops, deliver...)
	}
	return h
}

func totalReplicas(s jobctl.Spec) int64 {
	n := int64(0)
	for _, t := range s.Tasks {
		n += t.Replicas
	}
	return n
}

func genHistory(r *vh.Rng, stream string) jobctl.History {
	s := genSpec(r, stream == "deps")
	h := jobctl.History{Spec: s, Status: jobctl.Status{Phase: int64(vh.Pick(r, []int{1, 1, 4, 0})), Min: s.Min, TscNil: true}}
	if stream != "pgpending" || r.Chance(1, 2) {
		h.Pg = i64p(int64(vh.Pick(r, []int{2, 3, 3, 3, 4})))
	}
	if stream == "pgpending" && h.Pg == nil && r.Chance(1, 2) {
		h.Pg = i64p(int64(vh.Pick(r, []int{0, 1})))
	}
	// pre-existing pods: missing, surplus, terminating, out-of-sync
	if r.Chance(3, 4) {
		for _, t := range s.Tasks {
			for i := int64(0); i < t.Replicas+int64(r.Intn(3)); i++ {
				if r.Chance(1, 3) {
					continue
				}
				h.Pods = append(h.Pods, jobctl.Pod{Task: t.Name, Idx: i, Phase: int64(vh.Pick(r, []int{0, 0, 1, 1, 1, 4, 2, 3})),
					Del: r.Chance(1, 7), Oos: r.Chance(1, 8)})
			}
		}
	}
	if stream == "noqueue" && r.Chance(2, 3) {
		h.NoQueue = true
	}
	n := r.Range(2, 14)
	cur := s
	for len(h.Ops) < n {
		x := r.Intn(100)
		switch {
		case x < 45:
			o := syncReq()
			if (stream == "crash" || stream == "deps") && r.Chance(1, 2) {
				for k := r.Range(1, 3); k > 0; k-- {
					t, i := genPodRef(r, cur)
					o.Req.Faults = append(o.Req.Faults, jobctl.Fault{Kind: int64(vh.Pick(r, []int{1, 1, 2, 4})), A: t, B: i})
					if o.Req.Faults[len(o.Req.Faults)-1].Kind == 4 {
						o.Req.Faults[len(o.Req.Faults)-1] = jobctl.Fault{Kind: 4, A: int64(r.Intn(2))}
					}
				}
			}
			if stream == "pgfault" && r.Chance(2, 3) {
				o.Req.Faults = append(o.Req.Faults, jobctl.Fault{Kind: int64(vh.Pick(r, []int{5, 6, 6, 6})), A: int64(r.Range(1, 2))})
			}
			h.Ops = append(h.Ops, o, jobctl.Op{Code: 7}, jobctl.Op{Code: 8})
		case x < 60:
			cur = rescale(r, cur)
			h.Ops = append(h.Ops, jobctl.Op{Code: 9, Spec: cur})
			if stream != "stale" || r.Chance(1, 2) {
				h.Ops = append(h.Ops, jobctl.Op{Code: 6})
				if r.Chance(1, 4) {
					h.Ops = append(h.Ops, jobctl.Op{Code: 13}) // an older job version arrives late
				}
			}
		case x < 78:
			t, i := genPodRef(r, cur)
			h.Ops = append(h.Ops, jobctl.Op{Code: 2, T: t, I: i, Ph: int64(vh.Pick(r, []int{0, 1, 1, 1, 4, 2, 3}))})
			if stream != "stale" {
				h.Ops = append(h.Ops, jobctl.Op{Code: 7})
			}
		case x < 84:
			t, i := genPodRef(r, cur)
			h.Ops = append(h.Ops, jobctl.Op{Code: 4, T: t, I: i})
			if stream != "stale" {
				h.Ops = append(h.Ops, jobctl.Op{Code: 7})
			}
		case x < 90:
			h.Ops = append(h.Ops, jobctl.Op{Code: 5, Ph: int64(vh.Pick(r, []int{1, 2, 3, 3}))}, jobctl.Op{Code: 8})
		case x < 93:
			h.Ops = append(h.Ops, jobctl.Op{Code: 7})
		case x < 96:
			h.Ops = append(h.Ops, jobctl.Op{Code: 8})
		default:
			switch stream {
			case "restart":
				// controller restart; the informers deliver pods, job and PodGroup in any order,
				// possibly with a request in between
				h.Ops = append(h.Ops, jobctl.Op{Code: 10})
				order := vh.Pick(r, [][]int64{{7, 6, 8}, {7, 6, 8}, {6, 7, 8}, {7, 8, 6}, {8, 7, 6}, {6, 8, 7}, {8, 6, 7}})
				for k, c := range order {
					h.Ops = append(h.Ops, jobctl.Op{Code: c})
					if k < 2 && r.Chance(1, 4) {
						h.Ops = append(h.Ops, syncReq())
					}
				}
				h.Ops = append(h.Ops, syncReq(), jobctl.Op{Code: 7}, jobctl.Op{Code: 8})
			case "recreate":
				cur = rescale(r, cur)
				h.Ops = append(h.Ops, jobctl.Op{Code: 11, Spec: cur})
				if r.Chance(1, 3) {
					h.Ops = append(h.Ops, jobctl.Op{Code: 10}, jobctl.Op{Code: 7})
				}
				h.Ops = append(h.Ops, jobctl.Op{Code: 6}, jobctl.Op{Code: 8}, syncReq(), jobctl.Op{Code: 8},
					jobctl.Op{Code: 5, Ph: 3}, jobctl.Op{Code: 8}, syncReq(), jobctl.Op{Code: 7})
			case "deleting":
				h.Ops = append(h.Ops, jobctl.Op{Code: 12})
				if r.Chance(2, 3) {
					h.Ops = append(h.Ops, jobctl.Op{Code: 6})
				}
			default:
				h.Ops = append(h.Ops, jobctl.Op{Code: 8})
			}
		}
	}
	return h
}

func gen(rng *vh.Rng, n int, emit func(id string, sel int, in []int64, kind string, nontrivial bool, desc any)) {
	streams := []string{"scale", "crash", "deps", "pgpending", "stale", "restart", "recreate", "pgfault", "restart", "deleting", "noqueue", "pgfault"}
	for i := 0; i < n; i++ {
		r := rng.Fork()
		stream := streams[i%len(streams)]
		h := genHistory(r, stream)
		w := &jobctl.W{}
		w.History(h)
		if stream == "pgfault" {
			// the world model does not carry the PodGroup spec: these histories are judged by the laws only
			emit(fmt.Sprintf("hist-%s-%d", stream, i), 5, w.T, "history/"+stream, true,
				map[string]any{"tasks": len(h.Spec.Tasks), "ops": len(h.Ops)})
			continue
		}
		total := int64(0)
		for _, t := range h.Spec.Tasks {
			total += t.Replicas
		}
		emit(fmt.Sprintf("hist-%s-%d", stream, i), 1, w.T, "history/"+stream, total >= 2,
			map[string]any{"tasks": len(h.Spec.Tasks), "replicas": total, "initial_pods": len(h.Pods), "ops": len(h.Ops)})
	}
	for i := 0; i < 3*n; i++ {
		r := rng.Fork()
		s := genSpec(r, false)
		if r.Chance(1, 3) { // pairwise equal priorities: any order of the ties is admissible
			for k := range s.Tasks {
				s.Tasks[k].Prio = int64(vh.Pick(r, []int{1, 1, 2}))
			}
		}
		w := &jobctl.W{}
		w.Spec(s)
		emit(fmt.Sprintf("minres-%d", i), 3, w.T, "calcPGMinResources", len(s.Tasks) >= 2, nil)
	}
	for i := 0; i < 2*n; i++ {
		r := rng.Fork()
		s0 := genSpec(r, false)
		s1 := rescale(r, s0)
		if r.Chance(1, 4) {
			s1 = s0 // no change: no write is attempted
		}
		if r.Chance(1, 4) && len(s1.Tasks) > 0 { // only the requests / priorities change
			k := r.Intn(len(s1.Tasks))
			s1.Tasks = append([]jobctl.Task{}, s1.Tasks...)
			s1.Tasks[k].Cpu = int64(vh.Pick(r, []int{0, 100, 250, 1000}))
			s1.Tasks[k].Prio = int64(r.Intn(5))
		}
		mode := int64(vh.Pick(r, []int{0, 1, 1, 1, 1, 2, 2, 3}))
		fail := int64(vh.Pick(r, []int{0, 0, 1, 2}))
		p0 := int64(r.Intn(4))
		p1 := p0
		if r.Chance(1, 3) {
			p1 = int64(r.Intn(4))
		}
		w := &jobctl.W{}
		w.Z(p0)
		w.Spec(s0)
		w.Z(mode)
		w.Z(p1)
		w.Spec(s1)
		w.Z(fail)
		kind := []string{"create", "update/fresh-lister", "update/empty-lister", "update/orphan-lister"}[mode]
		if fail != 0 {
			kind += "/refused"
		}
		emit(fmt.Sprintf("podgroup-%d", i), 4, w.T, "createOrUpdatePodGroup/"+kind, mode != 0, nil)
	}
	// createJobPod: several replicas of one task built in one pass
	for i := 0; i < n; i++ {
		r := rng.Fork()
		sp := genSpec(r, false)
		k := r.Intn(len(sp.Tasks))
		w := &jobctl.W{}
		w.Spec(sp)
		w.Z(int64(r.Intn(4)), int64(r.Intn(3)), int64(k))
		m := r.Range(1, 4)
		w.Z(int64(m))
		base := r.Intn(3)
		for x := 0; x < m; x++ {
			w.Z(int64(base + x*r.Range(1, 2)))
		}
		t := sp.Tasks[k]
		emit(fmt.Sprintf("createpod-%d", i), 6, w.T, "createJobPod", m >= 2 && (t.Cpu > 0 || t.Mem > 0), nil)
	}
	// the resync worker after a failed pod delete
	for i := 0; i < n/4+1; i++ {
		r := rng.Fork()
		h := genResync(r)
		w := &jobctl.W{}
		w.History(h)
		emit(fmt.Sprintf("hist-resync-%d", i), 1, w.T, "history/resync", totalReplicas(h.Spec) >= 2, // the rule's predicate; law 221 requires law 201's guard at the last sync
			
			map[string]any{"tasks": len(h.Spec.Tasks), "initial_pods": len(h.Pods), "ops": len(h.Ops)})
	}
	// old pods' delete events delivered after the kill bumped the job version
	for i := 0; i < n/4+1; i++ {
		r := rng.Fork()
		h := genVersionBump(r)
		w := &jobctl.W{}
		w.History(h)
		emit(fmt.Sprintf("hist-versionbump-%d", i), 1, w.T, "history/versionbump", totalReplicas(h.Spec) >= 2, // the rule's predicate; law 221 requires law 201's guard at the last sync
			
			map[string]any{"tasks": len(h.Spec.Tasks), "initial_pods": len(h.Pods), "ops": len(h.Ops)})
	}
}
