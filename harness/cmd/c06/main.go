// C06 harness: what syncJob makes of the pod set (histories with scale up/down,
// pre-existing pods, task dependencies, partial failures) and the PodGroup the
// controller derives from the job spec, on the REAL volcano job controller.
package main

import (
	"fmt"
	"strconv"
	"strings"

	v1 "k8s.io/api/core/v1"
	metav1 "k8s.io/apimachinery/pkg/apis/meta/v1"

	"verif/harness/internal/jobctl"
	"verif/harness/internal/vh"
	batch "volcano.sh/apis/pkg/apis/batch/v1alpha1"
	scheduling "volcano.sh/apis/pkg/apis/scheduling/v1beta1"
	"volcano.sh/volcano/pkg/controllers/job"
	schedapi "volcano.sh/volcano/pkg/scheduler/api"
)

var (
	lastIn   []int64
	lastHist jobctl.History
	lastObs  []jobctl.Obs
)

func encObs(obs []jobctl.Obs) []int64 {
	w := &jobctl.W{}
	for k, o := range obs {
		w.Obs(k, o)
	}
	return w.T
}

func pgOpt(w *jobctl.W, fields []int64) {
	if fields == nil {
		w.Z(0)
	} else {
		w.Z(1)
		w.Z(fields...)
	}
}

// selector 4 observations (for the laws)
var lastPG struct {
	in            []int64
	before, after []int64
	err           bool
	listerFresh   bool
	finalSpec     []int64
	finalPrio     int64
}

func run(sel int, in []int64) []int64 {
	e := jobctl.Get()
	switch sel {
	case 1, 5:
		h := (&jobctl.R{T: in}).History()
		ns, obs := e.Run(h)
		defer e.Cleanup(ns)
		lastIn, lastHist, lastObs = in, h, obs
		if sel == 5 {
			return []int64{1}
		}
		return encObs(obs)
	case 6:
		// createJobPod for all missing replicas of one task, built in one pass from one copy of the
		// task template and read only afterwards -- exactly what syncJob does (462-502)
		r := &jobctl.R{T: in}
		sp := r.Spec()
		ver, retry, k := r.Z(), r.Z(), int(r.Z())
		n := int(r.Z())
		j := jobctl.NewJob("nsc")
		j.Spec = jobctl.GoSpec(sp)
		j.Status.Version, j.Status.RetryCount = int32(ver), int32(retry)
		ts := j.Spec.Tasks[k]
		ts.Template.Name = ts.Name
		tc := ts.Template.DeepCopy()
		var pods []*v1.Pod
		for x := 0; x < n; x++ {
			pods = append(pods, job.VerifCreateJobPod(j, tc, int(r.Z()), false, nil, &ts))
		}
		w := &jobctl.W{}
		w.Z(int64(len(pods)))
		for _, p := range pods {
			w.Z(taskNum(p.Annotations[batch.TaskSpecKey]), atoi(p.Annotations[batch.TaskIndex]),
				taskNum(p.Labels[batch.TaskSpecKey]), atoi(p.Labels[batch.TaskIndex]),
				atoi(p.Annotations[batch.JobVersion]), atoi(p.Annotations[batch.JobRetryCountKey]),
				userNum(p.Labels[jobctl.UserLabel]), userNum(p.Annotations[jobctl.UserAnnotation]))
		}
		return w.T
	case 3:
		r := &jobctl.R{T: in}
		sp := r.Spec()
		j := jobctl.NewJob("nsr")
		j.Spec = jobctl.GoSpec(sp)
		return jobctl.ResOf(e.Ctl.VerifCalcPGMinResources(j))
	case 4:
		r := &jobctl.R{T: in}
		p0 := r.Z()
		i0 := r.I
		s0 := r.Spec()
		i1 := r.I
		mode := r.Z()
		p1 := r.Z()
		i2 := r.I
		s1 := r.Spec()
		i3 := r.I
		fail := r.Z()
		ns := e.Setup(jobctl.History{Spec: s0, Status: jobctl.Status{TscNil: true}})
		defer e.Cleanup(ns)
		j := e.APIJob(ns).DeepCopy()
		j.Spec.PriorityClassName = jobctl.PCName(p0)
		if err := e.Ctl.VerifCreateOrUpdatePodGroup(j); err != nil {
			panic(err)
		}
		lastPG.in, lastPG.listerFresh, lastPG.err = in, true, false
		lastPG.finalSpec, lastPG.finalPrio = in[i0:i1], p0
		lastPG.before = jobctl.EncPG(e.APIPodGroup(ns))
		failed := false
		if mode != 0 {
			switch mode {
			case 1:
				e.SyncPodGroup(ns)
			case 2: // the lister has not seen the PodGroup yet
				lastPG.listerFresh = false
			default: // the lister still shows a PodGroup that is gone from the API server
				e.SyncPodGroup(ns)
				if err := e.VC.Tracker().Delete(jobctl.PGGVR, ns, jobctl.PGName()); err != nil {
					panic(err)
				}
				lastPG.listerFresh = false
				lastPG.before = nil
			}
			e.BeginStep()
			e.FailPgCreate, e.FailPgUpdate = int(fail), int(fail)
			j.Spec = jobctl.GoSpec(s1)
			j.Spec.PriorityClassName = jobctl.PCName(p1)
			failed = e.Ctl.VerifCreateOrUpdatePodGroup(j) != nil
			lastPG.finalSpec, lastPG.finalPrio = in[i2:i3], p1
		}
		lastPG.err = failed
		w := &jobctl.W{}
		w.B(failed)
		lastPG.after = nil
		if pg := e.APIPodGroup(ns); pg != nil {
			if !jobctl.PGMetaOK(pg) {
				panic("PodGroup queue / owner reference / sub-group policy does not mirror the job")
			}
			lastPG.after = jobctl.EncPG(pg)
		}
		pgOpt(w, lastPG.after)
		return w.T
	}
	panic("unknown selector")
}

// ---------- laws ----------

func sameTokens(a, b []int64) bool {
	if len(a) != len(b) {
		return false
	}
	for i := range a {
		if a[i] != b[i] {
			return false
		}
	}
	return true
}

func atoi(s string) int64 {
	v, err := strconv.ParseInt(s, 10, 64)
	if err != nil {
		return -999
	}
	return v
}

func taskNum(s string) int64 {
	if !strings.HasPrefix(s, "t") {
		return -999
	}
	return atoi(s[1:])
}

func userNum(s string) int64 {
	if len(s) < 2 {
		return 0
	}
	return atoi(s[1:])
}

// expected (task, index, version, retry, template cpu / mem) and everything createJobPod derives
func markerCase(ns string, p *v1.Pod, ver, retry int64, uid string, cpu, mem int64) []int64 {
	pgName := jobctl.JobName + "-" + uid
	t, i := jobctl.PodID(p.Name)
	owner := false
	if c := metav1.GetControllerOf(p); c != nil && string(c.UID) == uid && c.Kind == "Job" && c.Name == jobctl.JobName &&
		c.APIVersion == batch.SchemeGroupVersion.String() {
		owner = true
	}
	ti := schedapi.NewTaskInfo(p)
	one := len(p.Spec.Containers) == 1 && p.Spec.Containers[0].Name == "c" && len(p.Spec.Volumes) == 0 && p.Spec.SchedulerName == "volcano"
	return []int64{t, i, ver, retry, cpu, mem,
		taskNum(p.Annotations[batch.TaskSpecKey]), atoi(p.Annotations[batch.TaskIndex]), atoi(p.Annotations[batch.JobVersion]),
		atoi(p.Annotations[batch.JobRetryCountKey]), taskNum(p.Labels[batch.TaskSpecKey]), atoi(p.Labels[batch.TaskIndex]),
		vh.B(owner), vh.B(p.Annotations[scheduling.KubeGroupNameAnnotationKey] == pgName),
		vh.B(p.Annotations[batch.JobNameKey] == jobctl.JobName && p.Labels[batch.JobNameKey] == jobctl.JobName && p.Labels[batch.JobNamespaceKey] == ns),
		vh.B(p.Annotations[batch.QueueNameKey] == jobctl.QueueName && p.Labels[batch.QueueNameKey] == jobctl.QueueName),
		vh.B(string(ti.Job) == ns+"/"+pgName && ti.TaskRole == jobctl.TaskName(t)),
		userNum(p.Labels[jobctl.UserLabel]), userNum(p.Annotations[jobctl.UserAnnotation]),
		vh.B(p.Annotations[batch.PodTemplateKey] == jobctl.JobName+"-"+jobctl.TaskName(t) && p.Name == jobctl.PodName(t, i) && one)}
}

func specEq(a, b jobctl.Spec) bool {
	wa, wb := &jobctl.W{}, &jobctl.W{}
	wa.Spec(a)
	wb.Spec(b)
	return sameTokens(wa.T, wb.T)
}

func stableSyncPhase(o jobctl.Obs) bool { return o.Cache.Phase == 1 || o.Cache.Phase == 4 }

// DirectedTag: spec.maxRetry of the directed families resync / versionbump (no history of theirs restarts often
// enough for the value to matter); laws() requires law 201's guard at their last sync request.
const DirectedTag = 7

func syncReq() jobctl.Op { return jobctl.Op{Code: 1, Req: jobctl.Req{Event: 8, UidMatch: 1}} }

func laws(sel int, in, got []int64, law func(lsel int, lin []int64, sig string)) {
	e := jobctl.Get()
	switch sel {
	case 1, 5:
		if !sameTokens(lastIn, in) {
			panic("laws called without the matching run")
		}
		h, obs := lastHist, lastObs
		lastReq := -1
		for k, o := range h.Ops {
			if o.Code == 1 {
				lastReq = k
			}
		}
		cacheSpec, apiSpec := h.Spec, h.Spec
		for k, o := range h.Ops {
			prev, cur := obs[k], obs[k+1]
			switch o.Code {
			case 6:
				cacheSpec = apiSpec
			case 9:
				apiSpec = o.Spec
			case 10:
				// restart: the cache is empty until the job is delivered again
			case 11:
				apiSpec = o.Spec
			case 1:
				{
					// PodGroup laws (rich observation: PodGroup spec on the API server)
					w := &jobctl.W{}
					w.Spec(cacheSpec)
					w.Req(o.Req)
					w.B(cur.FreshBefore)
					w.B(cur.JobFreshBefore && specEq(cacheSpec, apiSpec))
					w.B(cur.PgFreshBefore)
					w.B(cur.PgMetaOK)
					w.Obs(0, prev)
					w.Obs(1, cur)
					pgOpt(w, cur.PgFields)
					law(208, w.T, "")
					w = &jobctl.W{}
					w.B(cur.PgWriteFailed)
					w.Obs(0, prev)
					w.Obs(1, cur)
					pgOpt(w, prev.PgFields)
					pgOpt(w, cur.PgFields)
					law(209, w.T, "")
				}
				if cur.FreshBefore && !cur.Err && specEq(cacheSpec, apiSpec) {
					w := &jobctl.W{}
					w.Spec(cacheSpec)
					w.Req(o.Req)
					w.B(cur.FreshBefore)
					w.B(cur.PgViewBefore)
					w.Obs(0, prev)
					w.Obs(1, cur)
					law(201, w.T, "")
				}
				// the directed families (tagged by maxRetry = DirectedTag) are built so that at their LAST sync
				// request the views are fresh, the sync succeeds and the job is on the sync path: there law 201's
				// guard is REQUIRED (law 221), so that a guard that never holds cannot pass unnoticed
				if h.Spec.MaxRetry == DirectedTag && k == lastReq {
					w := &jobctl.W{}
					w.Spec(cacheSpec)
					w.Req(o.Req)
					w.B(cur.FreshBefore && specEq(cacheSpec, apiSpec))
					w.B(cur.PgViewBefore)
					w.Obs(0, prev)
					w.Obs(1, cur)
					law(221, w.T, "")
				}
				if cur.Wrote {
					cacheSpec = apiSpec // the UpdateStatus response refreshes the cached job
				}
				for _, p := range cur.Created {
					var cpu, mem int64
					pt, _ := jobctl.PodID(p.Name)
					for _, ts := range h.Spec.Tasks {
						if ts.Name == pt {
							cpu, mem = ts.Cpu, ts.Mem
						}
					}
					law(204, markerCase(p.Namespace, p, prev.Cache.Version, prev.Cache.Retry, cur.JobUID, cpu, mem), "")
				}
			}
		}
		if sel == 5 {
			return
		}
		// idempotence: resync, sync, resync, sync on the final state
		h2 := h
		h2.Ops = append(append([]jobctl.Op{}, h.Ops...), jobctl.Op{Code: 6}, jobctl.Op{Code: 7}, jobctl.Op{Code: 8}, syncReq(),
			jobctl.Op{Code: 6}, jobctl.Op{Code: 7}, jobctl.Op{Code: 8}, syncReq())
		ns2, obs2 := e.Run(h2)
		e.Cleanup(ns2)
		n := len(obs2)
		b, a1, a2 := obs2[n-6], obs2[n-2], obs2[n-1]
		if stableSyncPhase(b) && b.Cache.Phase == a1.Cache.Phase && a1.Cache.Phase == a2.Cache.Phase && !obs2[n-5].Err {
			w := &jobctl.W{}
			w.Obs(0, a1)
			w.Obs(1, a2)
			law(202, w.T, "")
			law(207, w.T, "")
		}
		// crash / restart: the last faulty request is followed by a restart (full resync) and a retry;
		// the twin history runs the same request without faults
		last := -1
		for k, o := range h.Ops {
			if o.Code == 1 && len(o.Req.Faults) > 0 {
				last = k
			}
		}
		if last >= 0 {
			tail := []jobctl.Op{{Code: 6}, {Code: 7}, {Code: 8}, syncReq()}
			hc := h
			hc.Ops = append(append([]jobctl.Op{}, h.Ops[:last+1]...), tail...)
			ht := h
			ht.Ops = append(append([]jobctl.Op{}, h.Ops[:last+1]...), tail...)
			clean := ht.Ops[last]
			clean.Req.Faults = nil
			ht.Ops[last] = clean
			nsc, oc := e.Run(hc)
			e.Cleanup(nsc)
			nst, ot := e.Run(ht)
			e.Cleanup(nst)
			fc, ft := oc[len(oc)-1], ot[len(ot)-1]
			if stableSyncPhase(oc[last]) && stableSyncPhase(fc) && stableSyncPhase(ft) && stableSyncPhase(ot[last+1]) && !fc.Err {
				w := &jobctl.W{}
				w.Pods(fc.Pods)
				w.Pods(ft.Pods)
				law(203, w.T, "")
			}
		}
	case 6:
		law(211, append(append([]int64{}, in...), got...), "")
	case 3:
		law(206, append(append([]int64{}, in...), got...), "")
		law(212, append(append([]int64{}, in...), got...), "") // ties in spec order (fewer than 12 tasks)
	case 4:
		if !sameTokens(lastPG.in, in) {
			panic("laws called without the matching run")
		}
		w := &jobctl.W{}
		w.Z(lastPG.finalSpec...)
		w.Z(lastPG.finalPrio)
		w.B(lastPG.listerFresh)
		w.B(lastPG.err)
		pgOpt(w, lastPG.before)
		pgOpt(w, lastPG.after)
		law(210, w.T, "")
	}
}

func main() {
	vh.Harness{Run: run, Laws: laws, Gen: gen}.Main()
}

var _ = fmt.Sprint
