package main

import (
	"fmt"

	"verif/harness/internal/vh"
)

// ---------- generators: every choice comes from the one seeded rng ----------

var smallAmounts = []int64{0, 0, 100, 250, 250, 500, 500, 1000, 1000, 2000, 4000}
var prioPool = []int64{0, 1000, -1, 1999999999, 2000000000, 2000001000, 2147483647}

func genPod(r *vh.Rng, id int64, distinct bool) podTok {
	p := podTok{id: id}
	switch x := r.Intn(20); {
	case x < 10:
		p.qos = 4 // BE
	case x < 13:
		p.qos = 0
	case x < 15:
		p.qos = 3
	case x < 16:
		p.qos = 1
	case x < 17:
		p.qos = 2
	default:
		p.qos = int64(r.Range(5, 9)) // unknown texts, incl. "be" and "-1"
	}
	if r.Chance(1, 4) {
		p.src = int64(r.Range(1, 3))
	}
	if r.Chance(2, 5) {
		p.hasPrio = true
		p.prio = vh.Pick(r, prioPool)
	}
	p.kqos = int64(r.Intn(3))
	if distinct {
		p.cpu = id*100 + int64(r.Intn(50))
		p.mem = (1000-id)*1000 + int64(r.Intn(500))
	} else if r.Chance(3, 4) {
		p.cpu = vh.Pick(r, smallAmounts)
		p.mem = vh.Pick(r, smallAmounts) << 20
	} else {
		p.cpu = int64(r.Range(0, 64000))
		p.mem = int64(r.U64() >> uint(r.Range(24, 40)))
	}
	if r.Chance(1, 3) {
		p.xcpu = p.cpu
		p.xmem = p.mem
		if r.Chance(1, 4) {
			p.xmem = 0
		}
		if r.Chance(1, 6) {
			p.xcpu = 0
		}
	}
	p.stuck = r.Chance(1, 7)
	return p
}

func isBE(p podTok) bool { return p.qos == 4 }
func isCritical(p podTok) bool {
	return p.src == 1 || p.src == 2 || (p.hasPrio && p.prio >= 2000000000)
}

// at most 12 offline pods unless all requests are distinct (see Model.v sort_desc)
func genPods(r *vh.Rng) ([]podTok, string) {
	if r.Chance(1, 12) {
		n := r.Range(13, 22)
		ps := []podTok{}
		ids := perm(r, n)
		for i := 0; i < n; i++ {
			ps = append(ps, genPod(r, ids[i]+1, true))
		}
		return ps, "large-distinct"
	}
	n := r.Range(0, 14)
	if r.Chance(1, 10) {
		n = r.Range(0, 2)
	}
	ps := []podTok{}
	be := 0
	for i := 0; i < n; i++ {
		p := genPod(r, int64(i+1), false)
		if isBE(p) {
			be++
			if be > 12 {
				p.qos = 3
			}
		}
		ps = append(ps, p)
	}
	return ps, "small"
}

func perm(r *vh.Rng, n int) []int64 {
	out := make([]int64, n)
	for i := range out {
		out[i] = int64(i)
	}
	for i := n - 1; i > 0; i-- {
		j := r.Intn(i + 1)
		out[i], out[j] = out[j], out[i]
	}
	return out
}

func genFlags(r *vh.Rng) []int64 {
	n := r.Range(0, 10)
	if r.Chance(1, 5) {
		n = 0
	}
	out := []int64{int64(n)}
	pFail := r.Range(1, 4)
	for i := 0; i < n; i++ {
		out = append(out, vh.B(r.Chance(pFail, 5)))
	}
	return out
}

func genTypes(r *vh.Rng) []int64 {
	switch r.Intn(8) {
	case 0:
		return []int64{}
	case 1:
		return []int64{1, 2}
	case 2:
		return []int64{1}
	case 3:
		return []int64{2}
	case 4:
		return []int64{0}
	}
	n := r.Range(1, 4)
	out := []int64{}
	for i := 0; i < n; i++ {
		out = append(out, int64(r.Intn(10))+10*int64(vh.Pick(r, []int{0, 0, 0, 1, 2, 3, 4})))
	}
	return out
}

var ratioPool = []int64{0, 1, 30, 50, 60, 60, 60, 75, 99, 100, 100}
var bigPool = []int64{1 << 53, 1<<53 - 1, 1<<53 + 1, 1 << 56, 1 << 62, 1<<63 - 1, 92233720368547758, 92233720368547759, 1 << 60, -1, -1000, -(1 << 62)}

func genUsage(r *vh.Rng, alloc int64) int64 {
	switch r.Intn(8) {
	case 0:
		return 0
	case 1:
		return alloc
	case 2:
		return alloc + int64(r.Range(1, 2000))
	case 3:
		if alloc > 0 {
			return alloc - 1
		}
		return 0
	case 4:
		return alloc / 2
	default:
		if alloc <= 0 {
			return int64(r.Range(0, 100))
		}
		return int64(r.U64() % uint64(alloc+alloc/8+1))
	}
}

func genCalc(r *vh.Rng, stream string) (in []int64, nontrivial bool, desc any) {
	ratio := vh.Pick(r, ratioPool)
	if r.Chance(1, 3) {
		ratio = int64(r.Range(0, 100))
	}
	if stream == "out-of-range" && r.Chance(1, 2) {
		ratio = vh.Pick(r, []int64{-10, 101, 150, 1000, -1})
	}
	ps, _ := genPods(r)
	pops := genPops(r, ps)
	in = append([]int64{ratio}, encPops(pops)...)
	nops := r.Range(1, 30)
	if r.Chance(1, 8) {
		nops = r.Range(0, 3)
	}
	acpu := int64(vh.Pick(r, []int{0, 1000, 3000, 8000, 64000, 128000}))
	amem := int64(vh.Pick(r, []int64{0, 10000, 1 << 30, 1 << 34, 1 << 40}))
	if r.Chance(1, 6) {
		acpu, amem = 1<<53, 1<<53
	}
	label := int64(1)
	policy := int64(vh.Pick(r, []int{0, 1, 1, 2, 2, 2, 3, 4}))
	ops := []int64{}
	refreshed := r.Chance(1, 5)
	if !refreshed || r.Chance(1, 2) {
		// most histories start by switching both types on
		ops = append(ops, 3, 3)
		ops = append(ops, encList(vh.Pick(r, [][]int64{{1, 2}, {1, 2}, {1, 2}, {12, 21}, {1}, {2}}))...)
	} else {
		nops++
	}
	samples, reports := 0, 0
	for i := 0; i < nops; i++ {
		switch x := r.Intn(20); {
		case x < 11:
			if r.Chance(1, 6) {
				acpu = int64(r.Range(0, 128)) * 1000
				amem = int64(r.U64() >> uint(r.Range(20, 40)))
			}
			if r.Chance(1, 10) {
				policy = int64(r.Intn(5))
			}
			lb := label
			if r.Chance(1, 12) {
				lb = int64(r.Intn(6))
			}
			ac, am := acpu, amem
			uc, um := genUsage(r, ac), genUsage(r, am)
			if stream == "out-of-range" && r.Chance(1, 3) {
				switch r.Intn(4) {
				case 0:
					ac = vh.Pick(r, bigPool)
				case 1:
					am = vh.Pick(r, bigPool)
				case 2:
					uc = vh.Pick(r, bigPool)
				default:
					um = vh.Pick(r, bigPool)
				}
			}
			nodeErr, podsErr := r.Chance(1, 25), r.Chance(1, 25)
			ops = append(ops, 1, vh.B(nodeErr), lb, ac, am, vh.B(podsErr), policy, uc, um, genPsel(r, len(pops)))
			if !nodeErr && !podsErr && (lb == 1 || lb == 4) {
				samples++
			}
		case x < 17:
			lb := label
			if r.Chance(1, 12) {
				lb = int64(r.Intn(6))
			}
			nodeErr := r.Chance(1, 25)
			ops = append(ops, 2, vh.B(nodeErr), lb)
			if r.Chance(1, 3) {
				ops = append(ops, 1)
				ops = append(ops, encList(genTypes(r))...)
			} else {
				ops = append(ops, 0)
			}
			// the allocatable the node has at this report: usually that of the last samples,
			// sometimes shrunk or grown since (the averaged history then exceeds ratio% of it)
			rc, rm := acpu, amem
			switch r.Intn(8) {
			case 0:
				rc, rm = acpu/2, amem/2
			case 1:
				rc, rm = acpu*int64(r.Range(50, 99))/100, amem/100*int64(r.Range(50, 99))
			case 2:
				rc, rm = acpu+1000, amem+amem/4
			case 3:
				rc, rm = 0, 0
			}
			if stream == "out-of-range" && r.Chance(1, 4) {
				rc, rm = vh.Pick(r, bigPool), vh.Pick(r, bigPool)
			}
			ops = append(ops, rc, rm)
			if !nodeErr && (lb == 1 || lb == 4) && samples > 0 {
				reports++
			}
		default:
			ops = append(ops, 3, int64(vh.Pick(r, []int{0, 1, 2, 3, 3, 3, 3, 7})))
			ops = append(ops, encList(genTypes(r))...)
		}
	}
	// count ops
	cnt := int64(0)
	for i := 0; i < len(ops); {
		switch ops[i] {
		case 1:
			i += 10
		case 2:
			if ops[i+3] == 0 {
				i += 6
			} else {
				i += 7 + int(ops[i+4])
			}
		case 3:
			i += 3 + int(ops[i+2])
		}
		cnt++
	}
	in = append(in, cnt)
	in = append(in, ops...)
	return in, samples >= 2 && reports >= 1, map[string]any{"ratio": ratio, "pods": len(ps), "ops": cnt, "samples": samples, "reports": reports}
}

func genEvents(r *vh.Rng) []int64 {
	n := r.Range(1, 8)
	out := []int64{int64(n)}
	for i := 0; i < n; i++ {
		res := int64(vh.Pick(r, []int{1, 1, 1, 1, 2, 2, 2, 2, 3, 0, 4, 5, 9}))
		out = append(out, res, vh.B(r.Chance(1, 20)), vh.B(r.Chance(1, 20)), vh.B(r.Chance(1, 8)))
	}
	return out
}

func eligibleCount(ps []podTok) int {
	n := 0
	for _, p := range ps {
		if isBE(p) && !isCritical(p) {
			n++
		}
	}
	return n
}

func truncate(r *vh.Rng, in []int64) []int64 {
	switch r.Intn(4) {
	case 0:
		if len(in) > 1 {
			return in[:r.Range(0, len(in)-1)]
		}
		return []int64{}
	case 1:
		return append(append([]int64{}, in...), int64(r.Intn(5)))
	case 2:
		out := append([]int64{}, in...)
		if len(out) > 0 {
			out[0] = -3
		}
		if len(out) > 1 {
			out[1] = -3
		}
		return out
	default:
		return []int64{}
	}
}

func gen(rng *vh.Rng, n int, emit func(id string, sel int, in []int64, kind string, nontrivial bool, desc any)) {
	rc, rp, rl, ro, rm := rng.Fork(), rng.Fork(), rng.Fork(), rng.Fork(), rng.Fork()
	for i := 0; i < n; i++ {
		in, nt, desc := genCalc(rc, "in-range")
		emit(fmt.Sprintf("calc-%d", i), 1, in, "calculator/history", nt, desc)
	}
	for i := 0; i < n/4+1; i++ {
		in, nt, desc := genCalc(ro, "out-of-range")
		emit(fmt.Sprintf("calc-oor-%d", i), 1, in, "calculator/out-of-range", nt, desc)
	}
	for i := 0; i < n; i++ {
		ps, kind := genPods(rp)
		in := cat(encPods(ps), genFlags(rp), genEvents(rp))
		emit(fmt.Sprintf("pressure-%d", i), 2, in, "pressure/"+kind, eligibleCount(ps) >= 1,
			map[string]any{"pods": len(ps), "eligible": eligibleCount(ps)})
	}
	for i := 0; i < n/2+1; i++ {
		ps, kind := genPods(rl)
		errAt := int64(-1)
		if rl.Chance(1, 8) {
			errAt = int64(rl.Range(0, 4))
		}
		in := cat(encPods(ps), genFlags(rl), []int64{errAt})
		emit(fmt.Sprintf("cleanup-%d", i), 3, in, "cleanup/"+kind, eligibleCount(ps) >= 1,
			map[string]any{"pods": len(ps), "eligible": eligibleCount(ps), "node_err_at": errAt})
	}
	genPipelineStreams(rng.Fork(), n, emit)
	genRealCtor(rng.Fork(), n, emit)
	for i := 0; i < n/10+3; i++ {
		var in []int64
		sel := 1 + rm.Intn(3)
		switch sel {
		case 1:
			in, _, _ = genCalc(rm, "in-range")
		case 2:
			ps, _ := genPods(rm)
			in = cat(encPods(ps), genFlags(rm), genEvents(rm))
		default:
			ps, _ := genPods(rm)
			in = cat(encPods(ps), genFlags(rm), []int64{-1})
		}
		emit(fmt.Sprintf("malformed-%d", i), sel, truncate(rm, in), "malformed", false, nil)
	}
}

// pod populations of one history: the generated one and up to two variants
// (guaranteed pods coming and going between sampling steps)
func genPops(r *vh.Rng, ps []podTok) [][]podTok {
	pops := [][]podTok{ps}
	n := r.Intn(3)
	for k := 0; k < n; k++ {
		v := []podTok{}
		for _, p := range ps {
			if r.Chance(2, 3) {
				q := p
				if r.Chance(1, 4) {
					q.kqos = int64(r.Intn(3))
				}
				v = append(v, q)
			}
		}
		if r.Chance(1, 2) {
			g := genPod(r, int64(100+k), false)
			g.kqos, g.qos = 2, 0
			v = append(v, g)
		}
		pops = append(pops, v)
	}
	return pops
}

func genPsel(r *vh.Rng, n int) int64 {
	if r.Chance(1, 30) {
		return int64(vh.Pick(r, []int{-1, n, n + 3}))
	}
	return int64(r.Intn(n))
}
