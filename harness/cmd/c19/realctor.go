package main

// Selector 5: the calculator history of selector 1, but the calculator is built
// the way the agent builds it: noderesources.NewCalculator(config, metric
// collector manager, event queue factory) with the registered "extend" policy,
// config.GetNode / config.GetActivePods reading a fake clientset, and the real
// resourceusage getter on top of a metric collector plugin.  Nothing of the
// ratio wiring (config -> policy, config -> calculator cap) is given by the
// harness except config.GenericConfiguration.OverSubscriptionRatio.

import (
	"fmt"
	"time"

	"github.com/prometheus/prometheus/prompb"
	v1 "k8s.io/api/core/v1"
	metav1 "k8s.io/apimachinery/pkg/apis/meta/v1"
	"k8s.io/apimachinery/pkg/runtime"
	fakeclientset "k8s.io/client-go/kubernetes/fake"
	k8stesting "k8s.io/client-go/testing"

	"verif/harness/internal/vh"
	"volcano.sh/volcano/pkg/agent/config/api"
	"volcano.sh/volcano/pkg/agent/events/framework"
	"volcano.sh/volcano/pkg/agent/events/probes/noderesources"
	"volcano.sh/volcano/pkg/agent/oversubscription/policy/extend"
	"volcano.sh/volcano/pkg/agent/utils/cgroup"
	"volcano.sh/volcano/pkg/config"
	"volcano.sh/volcano/pkg/metriccollect"
	mcframework "volcano.sh/volcano/pkg/metriccollect/framework"
	"volcano.sh/volcano/pkg/metriccollect/local"
)

// fakeLocal replaces the cgroup-reading "LocalCollector" plugin: it is registered
// after the real one under the same name, so the manager's plugin table ends up
// with this one.  Usage comes from the case, the flags it is asked with are recorded.
type fakeLocal struct{}

var fakeUsage struct {
	cpu, mem int64
	cpuCalls int
	lastFlag bool
}

func init() {
	mcframework.RegisterMetricCollectFunc(func(*config.Configuration, cgroup.CgroupManager) mcframework.MetricCollect {
		return fakeLocal{}
	})
}

func (fakeLocal) MetricCollectorName() string { return local.CollectorName }
func (fakeLocal) Run() error                  { return nil }
func (fakeLocal) CollectMetrics(metricInfo interface{}, start time.Time, window metav1.Duration) ([]*prompb.TimeSeries, error) {
	mi, ok := metricInfo.(*local.LocalMetricInfo)
	if !ok {
		panic("usage getter asked the local collector with a foreign metric info")
	}
	val := fakeUsage.mem
	if mi.ResourceType == "cpu" {
		if !mi.IncludeBestEffortPods {
			panic("CalOverSubscriptionResources must ask for usage including best-effort pods")
		}
		fakeUsage.cpuCalls++
		fakeUsage.lastFlag = mi.IncludeGuaranteedPods
		val = fakeUsage.cpu
	} else if mi.ResourceType != "memory" {
		panic("unknown resource type " + mi.ResourceType)
	}
	if int64(float64(val)) != val {
		panic("usage not representable as a float64 sample")
	}
	return []*prompb.TimeSeries{{Samples: []prompb.Sample{{Value: float64(val)}}}}, nil
}

func runCalcRealCtor(in []int64) []int64 {
	r := &rd{t: in}
	ratio := r.z()
	ptoks := r.pops()
	nops := r.n()
	if r.bad {
		return badInput
	}
	type op struct {
		kind                                        int64
		nodeErr, podsErr                            bool
		label, acpu, amem, policy, ucpu, umem, psel int64
		hasAnnot                                    bool
		list                                        []int64
		rkind                                       int64
	}
	ops := []op{}
	for i := 0; i < nops; i++ {
		o := op{kind: r.z()}
		switch o.kind {
		case 1:
			o.nodeErr, o.label, o.acpu, o.amem = r.b(), r.z(), r.z(), r.z()
			o.podsErr, o.policy, o.ucpu, o.umem = r.b(), r.z(), r.z(), r.z()
			o.psel = r.z()
		case 2:
			o.nodeErr, o.label = r.b(), r.z()
			o.hasAnnot, o.list = r.optZlist()
			o.acpu, o.amem = r.z(), r.z()
		case 3:
			o.rkind, o.list = r.z(), r.zlist()
		default:
			r.bad = true
		}
		if r.bad {
			return badInput
		}
		ops = append(ops, o)
	}
	if !r.done() {
		return badInput
	}
	if int64(int(ratio)) != ratio {
		panic("ratio does not fit int")
	}
	pops := [][]*v1.Pod{}
	for _, ps := range ptoks {
		built := []*v1.Pod{}
		for _, p := range ps {
			built = append(built, p.build())
		}
		pops = append(pops, built)
	}
	client := fakeclientset.NewSimpleClientset(mkNode(0, 0, 0, nil))
	nodeErr, podsErr := false, false
	client.PrependReactor("get", "nodes", func(a k8stesting.Action) (bool, runtime.Object, error) {
		if nodeErr {
			return true, nil, errNode
		}
		return false, nil, nil
	})
	client.PrependReactor("list", "pods", func(a k8stesting.Action) (bool, runtime.Object, error) {
		if podsErr {
			return true, nil, errPods
		}
		return false, nil, nil
	})
	cfg := &config.Configuration{GenericConfiguration: &config.VolcanoAgentConfiguration{
		KubeClient: client, KubeNodeName: nodeName,
		NodeHasSynced: func() bool { return false }, PodsHasSynced: func() bool { return false },
		OverSubscriptionPolicy: string(extend.ExtendResource), OverSubscriptionRatio: int(ratio),
	}}
	mgr, err := metriccollect.NewMetricCollectorManager(cfg, nil)
	if err != nil {
		panic(err)
	}
	factory := &framework.EventQueueFactory{Queues: map[string]*framework.EventQueue{}}
	// the agent's own constructor
	calc := noderesources.WrapProbeForVerif(noderesources.NewCalculator(cfg, mgr, factory))
	eq := factory.EventQueue(string(framework.NodeResourcesEventName)).GetQueue()
	defer eq.ShutDown()

	setNode := func(n *v1.Node) {
		if err := client.Tracker().Update(nodesGVR, n, ""); err != nil {
			panic(err)
		}
	}
	podsGVR := v1.SchemeGroupVersion.WithResource("pods")
	current := []*v1.Pod{}
	setPods := func(ps []*v1.Pod) {
		for _, p := range current {
			if err := client.Tracker().Delete(podsGVR, p.Namespace, p.Name); err != nil {
				panic(err)
			}
		}
		current = nil
		seen := map[string]bool{}
		for _, p := range ps {
			if seen[p.Name] {
				panic("duplicate pod name in a population (the API server cannot hold it)")
			}
			seen[p.Name] = true
			if err := client.Tracker().Add(p.DeepCopy()); err != nil {
				panic(err)
			}
			current = append(current, p)
		}
	}

	out := []int64{}
	for _, o := range ops {
		nodeErr, podsErr = false, false
		switch o.kind {
		case 1:
			setPolicy(o.policy)
			setPods(popAt(pops, o.psel))
			setNode(mkNode(o.label, o.acpu, o.amem, nil))
			nodeErr, podsErr = o.nodeErr, o.podsErr
			fakeUsage.cpu, fakeUsage.mem = o.ucpu, o.umem
			before := fakeUsage.cpuCalls
			calc.Sample()
			flag := int64(-1)
			if fakeUsage.cpuCalls == before+1 {
				flag = vh.B(fakeUsage.lastFlag)
			} else if fakeUsage.cpuCalls != before {
				panic("cpu usage read more than once for one sample")
			}
			out = append(out, tag(1)...)
			out = append(out, flag)
			out = append(out, encQueue(calc.Queue())...)
		case 2:
			var annot *string
			if o.hasAnnot {
				s := typesText(o.list)
				annot = &s
			}
			setNode(mkNode(o.label, o.acpu, o.amem, annot))
			nodeErr = o.nodeErr
			calc.PreProcess()
			out = append(out, tag(2)...)
			switch eq.Len() {
			case 0:
				out = append(out, 0)
			case 1:
				item, _ := eq.Get()
				eq.Done(item)
				eq.Forget(item)
				ev, ok := item.(framework.NodeResourceEvent)
				if !ok {
					panic("probe emitted something that is not a NodeResourceEvent")
				}
				out = append(out, 1, ev.MillCPU, ev.MemoryBytes)
			default:
				panic("one preProcess emitted more than one event")
			}
		case 3:
			var c *api.ColocationConfig
			txt := typesText(o.list)
			switch o.rkind {
			case 0:
			case 1:
				c = &api.ColocationConfig{}
			case 2:
				c = &api.ColocationConfig{OverSubscriptionConfig: &api.OverSubscription{}}
			default:
				c = &api.ColocationConfig{OverSubscriptionConfig: &api.OverSubscription{OverSubscriptionTypes: &txt}}
			}
			out = append(out, tag(3)...)
			out = append(out, vh.B(calc.RefreshCfg(c) != nil))
		}
	}
	out = append(out, tag(4)...)
	out = append(out, encQueue(calc.Queue())...)
	return out
}

// histories for selector 5: the in-range calculator generator, restricted to
// amounts a float64 metric sample carries exactly and to populations with
// unique pod names
func genRealCtor(rng *vh.Rng, n int, emit func(id string, sel int, in []int64, kind string, nontrivial bool, desc any)) {
	r := rng.Fork()
	for i := 0; i < n/6+2; i++ {
		var in []int64
		var nt bool
		var desc any
		for {
			in, nt, desc = genCalc(r, "in-range")
			ok := true
			for _, t := range in {
				if t > 1<<52 || t < -(1<<52) {
					ok = false
				}
			}
			if ok {
				break
			}
		}
		emit(fmt.Sprintf("realctor-%d", i), 5, in, "calculator/real-constructor", nt, desc)
	}
}
