package main

import (
	"fmt"

	"verif/harness/internal/vh"
)

// ---------- selector 4: pipeline histories ----------

func genNode(r *vh.Rng, ratio int64) nodeTok {
	n := nodeTok{label: 1}
	if r.Chance(1, 6) {
		n.label = int64(vh.Pick(r, []int{0, 2, 3, 4}))
	}
	n.acpu = int64(vh.Pick(r, []int{1000, 3000, 8000, 64000, 128000}))
	n.amem = vh.Pick(r, []int64{10000, 1 << 30, 1 << 34, 1 << 40})
	if r.Chance(1, 8) {
		n.hasAnnot, n.annot = true, genTypes(r)
	}
	if r.Chance(1, 5) {
		// a previous incarnation of the agent left amounts on the node
		n.hasXC, n.hasXM = true, true
		n.xc = n.acpu * ratio / 100 * int64(r.Range(0, 4)) / 4
		n.xm = n.amem / 100 * ratio * int64(r.Range(0, 4)) / 4
	}
	return n
}

func switchOn() [][]int64 {
	return [][]int64{cat([]int64{3, 3}, encList([]int64{1, 2})), {4, 1, 1, 0}}
}

func genPipeline(r *vh.Rng) (in []int64, nontrivial bool, desc any) {
	ratio0 := vh.Pick(r, []int64{30, 50, 60, 60, 60, 75, 100, 100})
	ratio := ratio0
	ps, _ := genPods(r)
	if len(ps) > 6 {
		ps = ps[:6]
	}
	pops := genPops(r, ps)
	nt := genNode(r, ratio)
	acpu, amem := nt.acpu, nt.amem
	ops := [][]int64{}
	if r.Chance(5, 6) {
		ops = append(ops, cat([]int64{3, 3}, encList(vh.Pick(r, [][]int64{{1, 2}, {1, 2}, {1, 2}, {12, 21}, {1}, {2}}))))
	}
	if r.Chance(7, 8) {
		ops = append(ops, []int64{4, 1, 1, 0})
	}
	// usage follows a slowly moving level so that consecutive reports are often within 10%
	lvlC, lvlM := int64(r.Range(0, 100)), int64(r.Range(0, 100))
	nops := r.Range(4, 45)
	samples, reports := 0, 0
	policy := int64(vh.Pick(r, []int{0, 1, 2, 2}))
	for i := 0; i < nops; i++ {
		switch x := r.Intn(100); {
		case x < 40:
			step := func(l int64) int64 {
				switch r.Intn(6) {
				case 0:
					return int64(r.Range(0, 110))
				case 1, 2:
					return l
				}
				l += int64(r.Range(-4, 4))
				if l < 0 {
					l = 0
				}
				return l
			}
			lvlC, lvlM = step(lvlC), step(lvlM)
			ops = append(ops, []int64{1, vh.B(r.Chance(1, 30)), vh.B(r.Chance(1, 30)), policy, acpu * lvlC / 100, amem / 100 * lvlM, genPsel(r, len(pops))})
			samples++
		case x < 78:
			fail := int64(0)
			if r.Chance(1, 10) {
				fail = int64(r.Range(1, 4))
			}
			ops = append(ops, []int64{2, fail})
			if samples > 0 {
				reports++
			}
		case x < 82:
			ops = append(ops, cat([]int64{3, int64(vh.Pick(r, []int{0, 3, 3, 3, 3}))}, encList(genTypes(r))))
		case x < 88:
			fail := int64(0)
			if r.Chance(1, 8) {
				fail = int64(r.Range(1, 2))
			}
			ops = append(ops, []int64{4, vh.B(r.Chance(2, 3)), vh.B(r.Chance(2, 3)), fail})
		case x < 90:
			ops = append(ops, []int64{5, int64(vh.Pick(r, []int{0, 1, 1, 2, 3, 4}))})
		case x < 94:
			// allocatable changes, often slightly downwards (the stale-amount scenario)
			switch r.Intn(3) {
			case 0:
				acpu, amem = acpu*int64(r.Range(90, 99))/100, amem/100*int64(r.Range(90, 99))
			case 1:
				acpu, amem = acpu*int64(r.Range(101, 130))/100, amem/100*int64(r.Range(101, 130))
			default:
				acpu, amem = int64(r.Range(0, 128))*1000, int64(r.U64()>>uint(r.Range(24, 40)))
			}
			ops = append(ops, []int64{6, acpu, amem})
		case x < 97:
			if r.Chance(1, 2) {
				ops = append(ops, cat([]int64{7, 1}, encList(genTypes(r))))
			} else {
				ops = append(ops, []int64{7, 0})
			}
		default:
			// restart, typically with a slightly lower ratio, then switched on again
			nr := ratio - int64(r.Range(0, 8))
			if nr < 0 || r.Chance(1, 4) {
				nr = vh.Pick(r, []int64{0, 30, 60, 100})
			}
			ratio = nr
			ops = append(ops, []int64{8, nr})
			if r.Chance(4, 5) {
				ops = append(ops, switchOn()...)
			}
			samples = 0
		}
	}
	in = cat([]int64{ratio0}, encPops(pops), nt.enc(), []int64{int64(len(ops))})
	for _, o := range ops {
		in = append(in, o...)
	}
	return in, reports >= 2, map[string]any{"ratio": ratio0, "steps": len(ops), "reports": reports}
}

// the reporter's threshold around its boundary: every round restarts the agent
// with ratio 100, takes ONE sample and reports, so the event equals
// allocatable - usage exactly; consecutive events differ from the amount on the
// node by 10% -1 / exactly / +1, by tiny steps, or drop to zero; large amounts
// (up to 2^52) exercise the float64 comparison
func genThreshold(r *vh.Rng) (in []int64, nontrivial bool, desc any) {
	base := vh.Pick(r, []int64{1000, 10, 7, 99990, 1 << 20, 1<<40 + 3, 1 << 50, 1<<52 - 10, 123456789012345})
	if r.Chance(1, 3) {
		base = int64(r.U64()>>uint(r.Range(12, 60))) + 1
	}
	alloc := int64(1) << 53
	nt := nodeTok{label: 1, acpu: alloc, amem: alloc}
	ops := [][]int64{}
	cur := base
	curM := base/3 + 1
	rounds := r.Range(2, 9)
	restart := true
	for i := 0; i < rounds; i++ {
		if restart {
			ops = append(ops, []int64{8, 100})
			ops = append(ops, switchOn()...)
		}
		next := func(c int64) int64 {
			var v int64
			switch r.Intn(9) {
			case 0:
				v = c + c/10
			case 1:
				v = c + c/10 + 1
			case 2:
				v = c - c/10
			case 3:
				v = c - c/10 - 1
			case 4:
				v = c + c/10 - 1
			case 5:
				v = c
			case 6:
				v = 0
			case 7:
				v = c + int64(r.Range(-3, 3))
			default:
				v = int64(r.U64() >> uint(r.Range(12, 62)))
			}
			if v < 0 {
				v = 0
			}
			if v > 1<<52 {
				v = 1 << 52
			}
			return v
		}
		e, eM := next(cur), next(curM)
		ops = append(ops, []int64{1, 0, 0, 1, alloc - e, alloc - eM, 0})
		ops = append(ops, []int64{2, 0})
		// the next amount on the node is unknown to the generator when the write was skipped;
		// aim the next event at the event just sent (equal when written, close otherwise)
		cur, curM = e, eM
		if cur == 0 {
			cur = base
		}
		if curM == 0 {
			curM = base/3 + 1
		}
		restart = true
	}
	in = cat([]int64{100, 0}, nt.enc(), []int64{int64(len(ops))})
	for _, o := range ops {
		in = append(in, o...)
	}
	return in, true, map[string]any{"base": base, "rounds": rounds}
}

func genPipelineStreams(rng *vh.Rng, n int, emit func(id string, sel int, in []int64, kind string, nontrivial bool, desc any)) {
	rp, rt, rm := rng.Fork(), rng.Fork(), rng.Fork()
	for i := 0; i < n/100+3; i++ {
		in, _, _ := genPipeline(rm)
		emit(fmt.Sprintf("malformed-pipeline-%d", i), 4, truncate(rm, in), "malformed", false, nil)
	}
	for i := 0; i < n/2+1; i++ {
		in, nt, desc := genPipeline(rp)
		emit(fmt.Sprintf("pipeline-%d", i), 4, in, "pipeline/history", nt, desc)
	}
	for i := 0; i < n/6+1; i++ {
		in, nt, desc := genThreshold(rt)
		emit(fmt.Sprintf("threshold-%d", i), 4, in, "pipeline/threshold-boundary", nt, desc)
	}
}
