package main

// Selector 4: the whole agent pipeline against one Node object held by a fake
// clientset: the real calculator (probe), the real reporter handler
// (oversubscription.NewReporter with the registered extend policy), reporter
// and calculator reconfiguration, agent restarts and administrator edits of
// the node.  After every step the reported fields of the Node are read back.

import (
	"errors"
	"fmt"

	v1 "k8s.io/api/core/v1"
	"k8s.io/apimachinery/pkg/api/resource"
	metav1 "k8s.io/apimachinery/pkg/apis/meta/v1"
	"k8s.io/apimachinery/pkg/runtime"
	fakeclientset "k8s.io/client-go/kubernetes/fake"
	k8stesting "k8s.io/client-go/testing"
	"k8s.io/client-go/tools/record"

	"verif/harness/internal/vh"
	"volcano.sh/volcano/pkg/agent/apis"
	"volcano.sh/volcano/pkg/agent/config/api"
	"volcano.sh/volcano/pkg/agent/events/framework"
	"volcano.sh/volcano/pkg/agent/events/handlers/oversubscription"
	"volcano.sh/volcano/pkg/agent/events/probes/noderesources"
	"volcano.sh/volcano/pkg/agent/oversubscription/policy/extend"
	"volcano.sh/volcano/pkg/agent/oversubscription/queue"
	"volcano.sh/volcano/pkg/config"
)

var nodesGVR = v1.SchemeGroupVersion.WithResource("nodes")

type nodeTok struct {
	label, acpu, amem int64
	hasAnnot          bool
	annot             []int64
	hasXC, hasXM      bool
	xc, xm            int64
}

func (r *rd) node() nodeTok {
	n := nodeTok{label: r.z(), acpu: r.z(), amem: r.z()}
	n.hasAnnot, n.annot = r.optZlist()
	if r.z() != 0 {
		n.hasXC, n.xc = true, r.z()
	}
	if r.z() != 0 {
		n.hasXM, n.xm = true, r.z()
	}
	return n
}

func (n nodeTok) enc() []int64 {
	out := []int64{n.label, n.acpu, n.amem}
	if n.hasAnnot {
		out = append(out, 1)
		out = append(out, encList(n.annot)...)
	} else {
		out = append(out, 0)
	}
	out = append(out, encOpt(n.hasXC, n.xc)...)
	return append(out, encOpt(n.hasXM, n.xm)...)
}

func encOpt(has bool, v int64) []int64 {
	if has {
		return []int64{1, v}
	}
	return []int64{0}
}

type pipe struct {
	client   *fakeclientset.Clientset
	getIdx   int
	failGet  int
	failUpd  bool
	pops     [][]*v1.Pod
	pods     []*v1.Pod
	podsErr  bool
	ug       *usageGetter
	cfg      *config.Configuration
	q        *queue.SqQueue
	calc     *noderesources.VerifCalculator
	eq       interface{ ShutDown() }
	factory  *framework.EventQueueFactory
	reporter framework.Handle
}

func (p *pipe) nodeObj() *v1.Node {
	o, err := p.client.Tracker().Get(nodesGVR, "", nodeName)
	if err != nil {
		panic(err)
	}
	return o.(*v1.Node).DeepCopy()
}

func (p *pipe) setNode(n *v1.Node) {
	if err := p.client.Tracker().Update(nodesGVR, n, ""); err != nil {
		panic(err)
	}
}

func labelToken(n *v1.Node) int64 {
	v, ok := n.Labels[apis.OverSubscriptionNodeLabelKey]
	if !ok {
		return 0
	}
	switch v {
	case "true":
		return 1
	case "false":
		return 2
	case "yes":
		return 3
	case "1":
		return 4
	}
	return 5
}

// the reported fields: what Status.Allocatable carries (Status.Capacity when
// only that has it); consistent = both lists agree
func extField(n *v1.Node, name v1.ResourceName) (tok []int64, consistent bool) {
	a, okA := n.Status.Allocatable[name]
	c, okC := n.Status.Capacity[name]
	if !okA && !okC {
		return []int64{0}, true
	}
	q := a
	if !okA {
		q = c
	}
	if q.MilliValue() != q.Value()*1000 {
		panic("reported amount is not an integer")
	}
	return []int64{1, q.Value()}, okA && okC && a.Cmp(c) == 0
}

func (p *pipe) start(ratio int64) {
	if p.eq != nil {
		p.eq.ShutDown()
	}
	p.cfg = &config.Configuration{GenericConfiguration: &config.VolcanoAgentConfiguration{
		KubeClient: p.client, KubeNodeName: nodeName, Recorder: record.NewFakeRecorder(16),
		NodeHasSynced: func() bool { return false }, PodsHasSynced: func() bool { return false },
		OverSubscriptionPolicy: string(extend.ExtendResource), OverSubscriptionRatio: int(ratio),
		SupportedFeatures: []string{"*"},
	}}
	p.q = queue.NewSqQueue()
	getPods := func() ([]*v1.Pod, error) {
		if p.podsErr {
			return nil, errPods
		}
		return append([]*v1.Pod{}, p.pods...), nil
	}
	pol := extend.NewExtendResourceForVerif(p.cfg, getPods, p.cfg.GetNode, nil, p.q, p.ug, int(ratio))
	p.factory = &framework.EventQueueFactory{Queues: map[string]*framework.EventQueue{}}
	p.calc = noderesources.NewCalculatorForVerif(pol, p.factory, p.q, p.cfg.GetNode, int(ratio))
	p.eq = p.factory.EventQueue(string(framework.NodeResourcesEventName)).GetQueue()
	// the real constructor: registered extend policy, config getters, real evictor
	p.reporter = oversubscription.NewReporter(p.cfg, nil, nil)
}

func runPipeline(in []int64) []int64 {
	r := &rd{t: in}
	ratio := r.z()
	ptoks := r.pops()
	nt := r.node()
	nops := r.n()
	type op struct {
		kind       int64
		b1, b2     bool
		z1, z2, z3 int64
		z4         int64
		has        bool
		list       []int64
	}
	ops := []op{}
	for i := 0; i < nops && !r.bad; i++ {
		o := op{kind: r.z()}
		switch o.kind {
		case 1:
			o.b1, o.b2, o.z1, o.z2, o.z3 = r.b(), r.b(), r.z(), r.z(), r.z()
			o.z4 = r.z()
		case 2:
			o.z1 = r.z()
		case 3:
			o.z1, o.list = r.z(), r.zlist()
		case 4:
			o.b1, o.b2, o.z1 = r.b(), r.b(), r.z()
		case 5:
			o.z1 = r.z()
		case 6:
			o.z1, o.z2 = r.z(), r.z()
		case 7:
			o.has, o.list = r.optZlist()
		case 8:
			o.z1 = r.z()
		default:
			r.bad = true
		}
		ops = append(ops, o)
	}
	if !r.done() {
		return badInput
	}
	var annot *string
	if nt.hasAnnot {
		s := typesText(nt.annot)
		annot = &s
	}
	node := mkNode(nt.label, nt.acpu, nt.amem, annot)
	setExt := func(n *v1.Node, name v1.ResourceName, v int64, f resource.Format) {
		if n.Status.Capacity == nil {
			n.Status.Capacity = v1.ResourceList{}
		}
		n.Status.Allocatable[name] = *resource.NewQuantity(v, f)
		n.Status.Capacity[name] = *resource.NewQuantity(v, f)
	}
	if nt.hasXC {
		setExt(node, apis.GetExtendResourceCPU(), nt.xc, resource.DecimalSI)
	}
	if nt.hasXM {
		setExt(node, apis.GetExtendResourceMemory(), nt.xm, resource.BinarySI)
	}
	p := &pipe{ug: &usageGetter{}}
	for _, ps := range ptoks {
		built := []*v1.Pod{}
		for _, t := range ps {
			built = append(built, t.build())
		}
		p.pops = append(p.pops, built)
	}
	p.client = fakeclientset.NewSimpleClientset(node)
	p.client.Fake.Resources = []*metav1.APIResourceList{{GroupVersion: "v1",
		APIResources: []metav1.APIResource{{Name: "pods/eviction", Kind: "Eviction", Version: "v1"}}}}
	p.client.PrependReactor("get", "nodes", func(a k8stesting.Action) (bool, runtime.Object, error) {
		p.getIdx++
		if p.failGet != 0 && p.getIdx == p.failGet {
			return true, nil, errNode
		}
		return false, nil, nil
	})
	p.client.PrependReactor("update", "nodes", func(a k8stesting.Action) (bool, runtime.Object, error) {
		if a.GetSubresource() != "status" {
			panic("the agent updated the node through something else than the status sub-resource")
		}
		if p.failUpd {
			return true, nil, errors.New("injected UpdateStatus failure")
		}
		return false, nil, nil
	})
	p.start(ratio)
	defer func() { p.eq.ShutDown() }()

	out := []int64{}
	for _, o := range ops {
		p.getIdx, p.failGet, p.failUpd, p.podsErr = 0, 0, false, false
		evTok := []int64{0}
		handled := false
		errCode := int64(0)
		switch o.kind {
		case 1:
			if o.b1 {
				p.failGet = 1
			}
			p.podsErr = o.b2
			p.pods = popAt(p.pops, o.z4)
			setPolicy(o.z1)
			p.ug.cpu, p.ug.mem = o.z2, o.z3
			p.calc.Sample()
		case 2:
			switch o.z1 {
			case 1, 2, 3:
				p.failGet = int(o.z1)
			case 4:
				p.failUpd = true
			}
			p.calc.PreProcess()
			eq := p.factory.EventQueue(string(framework.NodeResourcesEventName)).GetQueue()
			switch eq.Len() {
			case 0:
			case 1:
				item, _ := eq.Get()
				eq.Done(item)
				eq.Forget(item)
				ev, ok := item.(framework.NodeResourceEvent)
				if !ok {
					panic("probe emitted something that is not a NodeResourceEvent")
				}
				evTok = []int64{1, ev.MillCPU, ev.MemoryBytes}
				// events/framework/events.go processNextWorkItem: only active handlers get the event
				if p.reporter.IsActive() {
					handled = true
					if err := p.reporter.Handle(item); err != nil {
						if !errors.Is(err, errNode) {
							panic("unexpected error from reporter.Handle: " + err.Error())
						}
						errCode = 1
					}
				}
			default:
				panic("one preProcess emitted more than one event")
			}
		case 3:
			var c *api.ColocationConfig
			txt := typesText(o.list)
			switch o.z1 {
			case 0:
			case 1:
				c = &api.ColocationConfig{}
			case 2:
				c = &api.ColocationConfig{OverSubscriptionConfig: &api.OverSubscription{}}
			default:
				c = &api.ColocationConfig{OverSubscriptionConfig: &api.OverSubscription{OverSubscriptionTypes: &txt}}
			}
			if p.calc.RefreshCfg(c) != nil {
				errCode = 1
			}
		case 4:
			en, nen, colo, types := o.b1, o.b2, false, ""
			switch o.z1 {
			case 1:
				p.failGet = 1
			case 2:
				p.failUpd = true
			}
			c := &api.ColocationConfig{
				NodeLabelConfig:        &api.NodeLabelConfig{NodeColocationEnable: &colo, NodeOverSubscriptionEnable: &nen},
				OverSubscriptionConfig: &api.OverSubscription{Enable: &en, OverSubscriptionTypes: &types},
			}
			if p.reporter.RefreshCfg(c) != nil {
				errCode = 1
			}
		case 5:
			n := p.nodeObj()
			if txt, ok := labelText(o.z1); ok {
				if n.Labels == nil {
					n.Labels = map[string]string{}
				}
				n.Labels[apis.OverSubscriptionNodeLabelKey] = txt
			} else {
				delete(n.Labels, apis.OverSubscriptionNodeLabelKey)
			}
			p.setNode(n)
		case 6:
			n := p.nodeObj()
			n.Status.Allocatable[v1.ResourceCPU] = *resource.NewMilliQuantity(o.z1, resource.DecimalSI)
			n.Status.Allocatable[v1.ResourceMemory] = *resource.NewQuantity(o.z2, resource.BinarySI)
			p.setNode(n)
		case 7:
			n := p.nodeObj()
			if o.has {
				if n.Annotations == nil {
					n.Annotations = map[string]string{}
				}
				n.Annotations[apis.OverSubscriptionTypesKey] = typesText(o.list)
			} else {
				delete(n.Annotations, apis.OverSubscriptionTypesKey)
			}
			p.setNode(n)
		case 8:
			if int64(int(o.z1)) != o.z1 {
				panic("ratio does not fit int")
			}
			p.start(o.z1)
		}
		n := p.nodeObj()
		out = append(out, tag(31)...)
		out = append(out, evTok...)
		out = append(out, vh.B(handled), errCode, labelToken(n))
		xc, k1 := extField(n, apis.GetExtendResourceCPU())
		xm, k2 := extField(n, apis.GetExtendResourceMemory())
		out = append(out, xc...)
		out = append(out, xm...)
		out = append(out, vh.B(k1 && k2))
		out = append(out, encQueue(p.q.GetAll())...)
	}
	return append(out, tag(32)...)
}

// ---------- laws on the node object after every step ----------

const sigStale = "C19-update-threshold-keeps-stale-larger-amount"

func labelOn(l int64) bool { return l == 1 || l == 4 }

func optVal(o []int64) int64 {
	if o[0] == 0 {
		return 0
	}
	return o[1]
}

func lawsPipeline(in, got []int64, law func(lsel int, lin []int64, sig string)) {
	r := &rd{t: in}
	g := &rd{t: got}
	ratio := r.z()
	r.pops()
	nt := r.node()
	nops := r.n()
	rmax, amaxc, amaxm := ratio, nt.acpu, nt.amem
	sinceC, sinceM := nt.acpu, nt.amem // largest allocatable since the agent (re)started
	acpu, amem := nt.acpu, nt.amem
	hasAnnot, annot := nt.hasAnnot, nt.annot
	cfgTypes := []int64{}
	times := int64(0)
	enabled := true
	bl := nt.label
	bc, bm := encOpt(nt.hasXC, nt.xc), encOpt(nt.hasXM, nt.xm)
	max := func(a, b int64) int64 {
		if a > b {
			return a
		}
		return b
	}
	readOpt := func(x *rd) []int64 {
		if x.z() == 0 {
			return []int64{0}
		}
		return []int64{1, x.z()}
	}
	annotTok := func() []int64 {
		if hasAnnot {
			return append([]int64{1}, encList(annot)...)
		}
		return []int64{0}
	}
	for i := 0; i < nops; i++ {
		kind := r.z()
		if g.z() != -131 {
			panic("harness: output layout")
		}
		var ev []int64
		if g.z() != 0 {
			ev = []int64{g.z(), g.z()}
		}
		handled := g.b()
		errCode := g.z()
		al := g.z()
		ac, am := readOpt(g), readOpt(g)
		cons := g.z()
		nq := g.n()
		q := []int64{int64(nq)}
		for j := 0; j < 2*nq; j++ {
			q = append(q, g.z())
		}
		untouched := func(expLabel int64) {
			law(123, cat([]int64{expLabel}, bc, bm, []int64{al}, ac, am), "")
		}
		switch kind {
		case 1:
			r.b()
			r.b()
			r.z()
			r.z()
			r.z()
			r.z()
			untouched(bl)
		case 2:
			fail := r.z()
			if ev != nil {
				// every emitted event against the node's CURRENT allocatable and ratio
				law(104, cat([]int64{ratio, acpu, amem}, ev), "")
				// and as a report of the queue it was computed from (non-negative, <= largest sample,
				// exact weighted floor or cap, zero for switched-off types)
				law(102, cat(q, encList(cfgTypes), annotTok(), []int64{ratio, acpu, amem, 1}, ev), "")
			}
			switch {
			case !handled || fail == 2 || !labelOn(bl):
				untouched(bl)
			case fail != 0:
				times++
				untouched(bl)
			default:
				times++
				forced := times%6 == 0
				law(121, cat([]int64{vh.B(forced)}, bc, bm, ac, am, ev), "")
				law(122, cat(encList(cfgTypes), annotTok(), ac, am), "")
				// the known finding's mechanism: the write was skipped (not a forced re-sync) because
				// the event is within the threshold; a strict-law failure after a real write is no known finding
				sig := ""
				if !forced && fmt.Sprint(ac) == fmt.Sprint(bc) && fmt.Sprint(am) == fmt.Sprint(bm) &&
					(fmt.Sprint(ev) != fmt.Sprint([]int64{optVal(bc), optVal(bm)})) {
					sig = sigStale
				}
				law(125, cat([]int64{ratio, sinceC, sinceM}, q, ac, am), sig)
				// against the CURRENT allocatable: at most 10/9 of ratio%
				law(126, cat([]int64{ratio, acpu, amem}, ac, am), "")
				if bl != al {
					panic("a report changed the over-subscription label")
				}
			}
		case 3:
			k := r.z()
			l := r.zlist()
			if errCode == 0 {
				if k >= 0 && k <= 2 {
					panic("RefreshCfg accepted a nil configuration")
				}
				cfgTypes = l
			}
			untouched(bl)
		case 4:
			en, nen := r.b(), r.b()
			r.z()
			cleanup := !en || (enabled && !nen)
			if !en {
				enabled = false
			}
			switch {
			case errCode != 0:
				untouched(bl)
			case cleanup:
				law(124, cat([]int64{al}, ac, am), "")
			default:
				enabled = true
				untouched(1)
			}
		case 5:
			untouched(r.z())
		case 6:
			acpu, amem = r.z(), r.z()
			amaxc, amaxm = max(amaxc, acpu), max(amaxm, amem)
			sinceC, sinceM = max(sinceC, acpu), max(sinceM, amem)
			untouched(bl)
		case 7:
			hasAnnot, annot = r.optZlist()
			untouched(bl)
		case 8:
			ratio = r.z()
			rmax = max(rmax, ratio)
			cfgTypes = []int64{}
			times = 0
			enabled = true
			sinceC, sinceM = acpu, amem
			untouched(bl)
		}
		law(120, cat([]int64{rmax, amaxc, amaxm, cons}, ac, am), "")
		bl, bc, bm = al, ac, am
	}
}
