// C19 harness: the node agent's over-subscription calculator (sampling, queue,
// weighted report, per-type masking) and the eviction of offline pods (pressure
// handler and Cleanup), run on the real volcano code with fake getters, a fake
// clientset as the eviction client and a fake event recorder.
package main

import (
	"errors"
	"fmt"
	"os"
	"path"
	"strings"

	v1 "k8s.io/api/core/v1"
	"k8s.io/apimachinery/pkg/api/resource"
	metav1 "k8s.io/apimachinery/pkg/apis/meta/v1"
	"k8s.io/apimachinery/pkg/runtime"
	"k8s.io/apimachinery/pkg/types"
	fakeclientset "k8s.io/client-go/kubernetes/fake"
	k8stesting "k8s.io/client-go/testing"
	"k8s.io/client-go/tools/record"

	"verif/harness/internal/vh"
	"volcano.sh/volcano/pkg/agent/apis"
	"volcano.sh/volcano/pkg/agent/config/api"
	"volcano.sh/volcano/pkg/agent/events/framework"
	evh "volcano.sh/volcano/pkg/agent/events/handlers/eviction"
	"volcano.sh/volcano/pkg/agent/events/probes/noderesources"
	"volcano.sh/volcano/pkg/agent/oversubscription/policy"
	"volcano.sh/volcano/pkg/agent/oversubscription/policy/extend"
	"volcano.sh/volcano/pkg/agent/oversubscription/queue"
	"volcano.sh/volcano/pkg/agent/utils/eviction"
	"volcano.sh/volcano/pkg/config"
	"volcano.sh/volcano/pkg/resourceusage"
)

const nodeName = "node-1"

var badInput = []int64{-999999}

// ---------- token reader (mirrors Base/Codec.v decoders) ----------

type rd struct {
	t   []int64
	i   int
	bad bool
}

func (r *rd) z() int64 {
	if r.bad || r.i >= len(r.t) {
		r.bad = true
		return 0
	}
	v := r.t[r.i]
	r.i++
	return v
}
func (r *rd) b() bool { return r.z() != 0 }
func (r *rd) n() int {
	v := r.z()
	if v < 0 || v > 1<<20 {
		r.bad = true
		return 0
	}
	return int(v)
}
func (r *rd) zlist() []int64 {
	n := r.n()
	out := []int64{}
	for i := 0; i < n && !r.bad; i++ {
		out = append(out, r.z())
	}
	return out
}
func (r *rd) optZlist() (bool, []int64) {
	if r.z() == 0 {
		return false, nil
	}
	return true, r.zlist()
}
func (r *rd) done() bool { return !r.bad && r.i == len(r.t) }

// ---------- pods ----------

type podTok struct {
	id, qos, src         int64
	hasPrio              bool
	prio                 int64
	kqos                 int64
	cpu, mem, xcpu, xmem int64
	stuck                bool
}

func (r *rd) pod() podTok {
	p := podTok{id: r.z(), qos: r.z(), src: r.z()}
	if r.z() != 0 {
		p.hasPrio = true
		p.prio = r.z()
	}
	p.kqos = r.z()
	p.cpu, p.mem, p.xcpu, p.xmem = r.z(), r.z(), r.z(), r.z()
	p.stuck = r.b()
	return p
}
func (r *rd) pods() []podTok {
	n := r.n()
	out := []podTok{}
	for i := 0; i < n && !r.bad; i++ {
		out = append(out, r.pod())
	}
	return out
}

// pod populations of a history: a sampling step names the active one
func (r *rd) pops() [][]podTok {
	n := r.n()
	out := [][]podTok{}
	for i := 0; i < n && !r.bad; i++ {
		out = append(out, r.pods())
	}
	return out
}

func encPops(pops [][]podTok) []int64 {
	out := []int64{int64(len(pops))}
	for _, ps := range pops {
		out = append(out, encPods(ps)...)
	}
	return out
}

// pods_at of Model.v: Z.to_nat of a negative index is 0, a missing population is empty
func popAt[T any](pops [][]T, sel int64) []T {
	if sel < 0 {
		sel = 0
	}
	if sel >= int64(len(pops)) {
		return nil
	}
	return pops[sel]
}

func (p podTok) enc() []int64 {
	out := []int64{p.id, p.qos, p.src}
	if p.hasPrio {
		out = append(out, 1, p.prio)
	} else {
		out = append(out, 0)
	}
	return append(out, p.kqos, p.cpu, p.mem, p.xcpu, p.xmem, vh.B(p.stuck))
}

func encPods(ps []podTok) []int64 {
	out := []int64{int64(len(ps))}
	for _, p := range ps {
		out = append(out, p.enc()...)
	}
	return out
}

func podName(id int64) string { return fmt.Sprintf("pod-%d", id) }

var qosText = map[int64]string{1: "LC", 2: "HLS", 3: "LS", 4: "BE", 5: "be", 6: "OFFLINE", 7: "BestEffort", 8: "-1"}

func (p podTok) build() *v1.Pod {
	ann := map[string]string{}
	if p.qos != 0 {
		txt, ok := qosText[p.qos]
		if !ok {
			txt = fmt.Sprintf("Q%d", p.qos)
		}
		ann[apis.PodQosLevelKey] = txt
	}
	switch p.src {
	case 1:
		ann["kubernetes.io/config.source"] = "file"
	case 2:
		ann["kubernetes.io/config.mirror"] = "mirror-hash"
	case 3:
		ann["kubernetes.io/config.source"] = "api"
	}
	req := v1.ResourceList{
		v1.ResourceCPU:    *resource.NewMilliQuantity(p.cpu, resource.DecimalSI),
		v1.ResourceMemory: *resource.NewQuantity(p.mem, resource.BinarySI),
	}
	if p.xcpu != 0 || p.id%2 == 0 {
		req[apis.GetExtendResourceCPU()] = *resource.NewQuantity(p.xcpu, resource.DecimalSI)
	}
	if p.xmem != 0 || p.id%3 == 0 {
		req[apis.GetExtendResourceMemory()] = *resource.NewQuantity(p.xmem, resource.BinarySI)
	}
	pod := &v1.Pod{
		ObjectMeta: metav1.ObjectMeta{Name: podName(p.id), Namespace: "default", UID: types.UID("uid-" + podName(p.id))},
		Spec:       v1.PodSpec{NodeName: nodeName, Containers: []v1.Container{{Name: "c", Resources: v1.ResourceRequirements{Requests: req}}}},
	}
	if len(ann) > 0 {
		pod.Annotations = ann
	}
	if p.hasPrio {
		pr := int32(p.prio)
		if int64(pr) != p.prio {
			panic("priority token outside int32")
		}
		pod.Spec.Priority = &pr
	}
	switch p.kqos {
	case 0:
		pod.Status.QOSClass = v1.PodQOSBestEffort
	case 2:
		pod.Status.QOSClass = v1.PodQOSGuaranteed
	default:
		pod.Status.QOSClass = v1.PodQOSBurstable
	}
	return pod
}

// ---------- node, labels, type lists ----------

func labelText(l int64) (string, bool) {
	switch l {
	case 0:
		return "", false
	case 1:
		return "true", true
	case 2:
		return "false", true
	case 3:
		return "yes", true
	case 4:
		return "1", true
	}
	return "maybe", true
}

var typeName = []string{"", "cpu", "memory", "nvidia.com/gpu", "ephemeral-storage", "CPU", "mem", "cpu2", "memory.", "pods"}

func typesText(l []int64) string {
	parts := []string{}
	for _, t := range l {
		name := typeName[((t%10)+10)%10]
		switch t / 10 {
		case 0:
		case 1:
			name = " " + name
		case 2:
			name = name + " "
		case 3:
			name = " " + name + " "
		default:
			name = "\t" + name
		}
		parts = append(parts, name)
	}
	return strings.Join(parts, ",")
}

func mkNode(label, acpu, amem int64, annot *string) *v1.Node {
	n := &v1.Node{ObjectMeta: metav1.ObjectMeta{Name: nodeName},
		Status: v1.NodeStatus{Allocatable: v1.ResourceList{
			v1.ResourceCPU:    *resource.NewMilliQuantity(acpu, resource.DecimalSI),
			v1.ResourceMemory: *resource.NewQuantity(amem, resource.BinarySI),
		}}}
	if txt, ok := labelText(label); ok {
		n.Labels = map[string]string{apis.OverSubscriptionNodeLabelKey: txt}
	}
	if annot != nil {
		n.Annotations = map[string]string{apis.OverSubscriptionTypesKey: *annot}
	}
	return n
}

// ---------- cpu manager policy (utils.GetCPUManagerPolicy reads a file) ----------

var kubeletDir string
var lastPolicy int64 = -1

func setPolicy(p int64) {
	if kubeletDir == "" {
		d, err := os.MkdirTemp("", "c19-kubelet")
		if err != nil {
			panic(err)
		}
		kubeletDir = d
		os.Setenv("KUBELET_ROOT_DIR", d)
	}
	if p == lastPolicy {
		return
	}
	lastPolicy = p
	f := path.Join(kubeletDir, "cpu_manager_state")
	var body string
	switch p {
	case 0:
		os.Remove(f)
		return
	case 1:
		body = `{"policyName":"none","defaultCpuSet":"0-1","checksum":1636926438}`
	case 2:
		body = `{"policyName":"static","defaultCpuSet":"0-1","checksum":1636926438}`
	case 3:
		body = `{"policyName":`
	default:
		body = fmt.Sprintf(`{"policyName":"policy%d","defaultCpuSet":"0-1","checksum":1}`, p)
	}
	if err := os.WriteFile(f, []byte(body), 0600); err != nil {
		panic(err)
	}
}

// ---------- usage getter ----------

type usageGetter struct {
	cpu, mem int64
	calls    int
	lastFlag bool
}

func (u *usageGetter) UsagesByValue(includeGuaranteed, includeBestEffort bool) resourceusage.Resource {
	if !includeBestEffort {
		panic("CalOverSubscriptionResources must ask for usage including best-effort pods")
	}
	u.calls++
	u.lastFlag = includeGuaranteed
	return resourceusage.Resource{v1.ResourceCPU: u.cpu, v1.ResourceMemory: u.mem}
}
func (u *usageGetter) UsagesByPercentage(node *v1.Node) resourceusage.Resource {
	panic("UsagesByPercentage is not used by the calculator")
}

var errNode = errors.New("injected getNode error")
var errPods = errors.New("injected getPods error")

func tag(i int64) []int64 { return []int64{-100 - i} }

func encQueue(q []apis.Resource) []int64 {
	out := []int64{int64(len(q))}
	for _, r := range q {
		if len(r) != 2 {
			panic("a sample does not have exactly the cpu and memory entries")
		}
		out = append(out, r[v1.ResourceCPU], r[v1.ResourceMemory])
	}
	return out
}

// ---------- selector 1: calculator history ----------

func runCalc(in []int64) []int64 {
	r := &rd{t: in}
	ratio := r.z()
	ptoks := r.pops()
	nops := r.n()
	if r.bad {
		return badInput
	}
	type op struct {
		kind                                  int64
		nodeErr, podsErr                      bool
		label, acpu, amem, policy, ucpu, umem int64
		psel                                  int64
		hasAnnot                              bool
		list                                  []int64
		rkind                                 int64
	}
	ops := []op{}
	for i := 0; i < nops; i++ {
		o := op{kind: r.z()}
		switch o.kind {
		case 1:
			o.nodeErr, o.label, o.acpu, o.amem = r.b(), r.z(), r.z(), r.z()
			o.podsErr, o.policy, o.ucpu, o.umem = r.b(), r.z(), r.z(), r.z()
			o.psel = r.z()
		case 2:
			o.nodeErr, o.label = r.b(), r.z()
			o.hasAnnot, o.list = r.optZlist()
			o.acpu, o.amem = r.z(), r.z()
		case 3:
			o.rkind, o.list = r.z(), r.zlist()
		default:
			r.bad = true
		}
		if r.bad {
			return badInput
		}
		ops = append(ops, o)
	}
	if !r.done() {
		return badInput
	}
	if int64(int(ratio)) != ratio {
		panic("ratio does not fit int")
	}
	pops := [][]*v1.Pod{}
	for _, ps := range ptoks {
		built := []*v1.Pod{}
		for _, p := range ps {
			built = append(built, p.build())
		}
		pops = append(pops, built)
	}
	var pods []*v1.Pod
	var curNode *v1.Node
	var nodeErr, podsErr bool
	getNode := func() (*v1.Node, error) {
		if nodeErr {
			return nil, errNode
		}
		return curNode, nil
	}
	getPods := func() ([]*v1.Pod, error) {
		if podsErr {
			return nil, errPods
		}
		return append([]*v1.Pod{}, pods...), nil
	}
	ug := &usageGetter{}
	cfg := &config.Configuration{GenericConfiguration: &config.VolcanoAgentConfiguration{KubeNodeName: nodeName, OverSubscriptionRatio: int(ratio)}}
	q := queue.NewSqQueue()
	pol := extend.NewExtendResourceForVerif(cfg, getPods, getNode, nil, q, ug, int(ratio))
	factory := &framework.EventQueueFactory{Queues: map[string]*framework.EventQueue{}}
	calc := noderesources.NewCalculatorForVerif(pol, factory, q, getNode, int(ratio))
	eq := factory.EventQueue(string(framework.NodeResourcesEventName)).GetQueue()
	defer eq.ShutDown()

	out := []int64{}
	for _, o := range ops {
		switch o.kind {
		case 1:
			setPolicy(o.policy)
			pods = popAt(pops, o.psel)
			curNode = mkNode(o.label, o.acpu, o.amem, nil)
			nodeErr, podsErr = o.nodeErr, o.podsErr
			ug.cpu, ug.mem = o.ucpu, o.umem
			before := ug.calls
			snapshot := curNode.DeepCopy()
			calc.Sample()
			if !equalNode(snapshot, curNode) {
				panic("CalOverSubscriptionResources modified the node object of the lister")
			}
			flag := int64(-1)
			if ug.calls == before+1 {
				flag = vh.B(ug.lastFlag)
			} else if ug.calls != before {
				panic("usage read more than once for one sample")
			}
			out = append(out, tag(1)...)
			out = append(out, flag)
			out = append(out, encQueue(q.GetAll())...)
		case 2:
			var annot *string
			if o.hasAnnot {
				s := typesText(o.list)
				annot = &s
			}
			curNode = mkNode(o.label, o.acpu, o.amem, annot)
			nodeErr = o.nodeErr
			calc.PreProcess()
			out = append(out, tag(2)...)
			switch eq.Len() {
			case 0:
				out = append(out, 0)
			case 1:
				item, _ := eq.Get()
				eq.Done(item)
				eq.Forget(item)
				ev, ok := item.(framework.NodeResourceEvent)
				if !ok {
					panic("probe emitted something that is not a NodeResourceEvent")
				}
				out = append(out, 1, ev.MillCPU, ev.MemoryBytes)
			default:
				panic("one preProcess emitted more than one event")
			}
		case 3:
			var c *api.ColocationConfig
			txt := typesText(o.list)
			switch o.rkind {
			case 0:
			case 1:
				c = &api.ColocationConfig{}
			case 2:
				c = &api.ColocationConfig{OverSubscriptionConfig: &api.OverSubscription{}}
			default:
				c = &api.ColocationConfig{OverSubscriptionConfig: &api.OverSubscription{OverSubscriptionTypes: &txt}}
			}
			err := calc.RefreshCfg(c)
			out = append(out, tag(3)...)
			out = append(out, vh.B(err != nil))
		}
	}
	out = append(out, tag(4)...)
	out = append(out, encQueue(q.GetAll())...)
	return out
}

func equalNode(a, b *v1.Node) bool {
	return fmt.Sprint(a.Labels) == fmt.Sprint(b.Labels) && fmt.Sprint(a.Annotations) == fmt.Sprint(b.Annotations) &&
		a.Status.Allocatable.Cpu().Cmp(*b.Status.Allocatable.Cpu()) == 0 &&
		a.Status.Allocatable.Memory().Cmp(*b.Status.Allocatable.Memory()) == 0
}

// ---------- eviction world shared by selectors 2 and 3 ----------

type world struct {
	toks      map[string]podTok
	active    []*v1.Pod
	flags     []bool
	calls     []int64 // id, ok pairs since last reset
	successes int
	client    *fakeclientset.Clientset
	cfg       *config.Configuration
	rec       *record.FakeRecorder
	evictor   eviction.Eviction
	podsErr   bool
	nodeGets  int
	nodeErrAt int64
	segs      [][]int64 // client calls (id, ok pairs) per pod listing
}

func newWorld(ptoks []podTok, flags []bool) *world {
	w := &world{toks: map[string]podTok{}, flags: flags, nodeErrAt: -1}
	for _, p := range ptoks {
		w.toks[podName(p.id)] = p
		w.active = append(w.active, p.build())
	}
	node := mkNode(1, 64000, 1<<36, nil)
	w.client = fakeclientset.NewSimpleClientset(node)
	w.client.Fake.Resources = []*metav1.APIResourceList{{GroupVersion: "v1",
		APIResources: []metav1.APIResource{{Name: "pods/eviction", Kind: "Eviction", Version: "v1"}}}}
	w.client.PrependReactor("create", "pods", func(a k8stesting.Action) (bool, runtime.Object, error) {
		if a.GetSubresource() != "eviction" {
			return false, nil, nil
		}
		obj := a.(k8stesting.CreateAction).GetObject()
		acc, err := metaAccessor(obj)
		if err != nil {
			panic(err)
		}
		name := acc
		tok, ok := w.toks[name]
		if !ok {
			panic("eviction of an unknown pod " + name)
		}
		idx := -1
		for i, p := range w.active {
			if p.Name == name {
				idx = i
			}
		}
		if idx < 0 {
			panic("eviction of a pod that is no longer active: " + name)
		}
		if a.GetNamespace() != "default" {
			panic("eviction in the wrong namespace")
		}
		fail := false
		if len(w.flags) > 0 {
			fail = w.flags[0]
			w.flags = w.flags[1:]
		}
		if tok.stuck || fail {
			w.calls = append(w.calls, tok.id, 0)
			w.seg(tok.id, 0)
			return true, nil, errors.New("injected eviction failure")
		}
		w.calls = append(w.calls, tok.id, 1)
		w.seg(tok.id, 1)
		w.successes++
		// every pod with that name leaves the active set (pod names are unique in valid inputs)
		keep := w.active[:0:0]
		for _, p := range w.active {
			if p.Name != name {
				keep = append(keep, p)
			}
		}
		w.active = keep
		return true, nil, nil
	})
	w.client.PrependReactor("get", "nodes", func(a k8stesting.Action) (bool, runtime.Object, error) {
		k := w.nodeGets
		w.nodeGets++
		if w.nodeErrAt >= 0 && int64(k) == w.nodeErrAt {
			return true, nil, errNode
		}
		return false, nil, nil
	})
	w.rec = record.NewFakeRecorder(len(ptoks) + 64)
	w.cfg = &config.Configuration{GenericConfiguration: &config.VolcanoAgentConfiguration{
		KubeClient: w.client, KubeNodeName: nodeName, Recorder: w.rec,
		NodeHasSynced: func() bool { return false }, PodsHasSynced: func() bool { return false },
	}}
	w.evictor = eviction.NewEviction(w.client, nodeName)
	return w
}

func metaAccessor(obj runtime.Object) (string, error) {
	type named interface{ GetName() string }
	n, ok := obj.(named)
	if !ok {
		return "", errors.New("eviction object without a name")
	}
	return n.GetName(), nil
}

func (w *world) getPods() ([]*v1.Pod, error) {
	if w.podsErr {
		return nil, errPods
	}
	// every pod listing opens a new pass (GetLatestPodsAndResList is called once per resource pass)
	w.segs = append(w.segs, []int64{})
	return append([]*v1.Pod{}, w.active...), nil
}

func (w *world) activeIDs() []int64 {
	out := []int64{int64(len(w.active))}
	for _, p := range w.active {
		out = append(out, w.toks[p.Name].id)
	}
	return out
}

func (w *world) seg(id, ok int64) {
	if len(w.segs) == 0 {
		panic("eviction before any pod listing")
	}
	w.segs[len(w.segs)-1] = append(w.segs[len(w.segs)-1], id, ok)
}

// the client calls of Cleanup, per round the cpu pass and the memory pass
func (w *world) takePasses() []int64 {
	if len(w.segs)%2 != 0 {
		panic("Cleanup listed the pods an odd number of times")
	}
	out := []int64{int64(len(w.segs) / 2)}
	for _, sg := range w.segs {
		out = append(out, int64(len(sg)/2))
		out = append(out, sg...)
	}
	w.segs, w.calls = nil, nil
	return out
}

func (w *world) takeCalls() []int64 {
	out := append([]int64{int64(len(w.calls) / 2)}, w.calls...)
	w.calls = nil
	return out
}

// countingPolicy wraps the real extend policy: DisableSchedule is counted and can be made to fail
type countingPolicy struct {
	policy.Interface
	n    int
	fail bool
}

func (c *countingPolicy) DisableSchedule() error {
	c.n++
	if c.fail {
		return errors.New("injected DisableSchedule failure")
	}
	return c.Interface.DisableSchedule()
}

func readFlags(r *rd) []bool {
	n := r.n()
	out := []bool{}
	for i := 0; i < n && !r.bad; i++ {
		out = append(out, r.b())
	}
	return out
}

var resText = map[int64]v1.ResourceName{1: v1.ResourceCPU, 2: v1.ResourceMemory, 3: v1.ResourceEphemeralStorage, 4: "kubernetes.io/batch-cpu", 5: "CPU"}

// ---------- selector 2: pressure events ----------

func runPressure(in []int64) []int64 {
	r := &rd{t: in}
	ptoks := r.pods()
	flags := readFlags(r)
	nev := r.n()
	type ev struct {
		res                      int64
		nodeErr, podsErr, disErr bool
	}
	evs := []ev{}
	for i := 0; i < nev && !r.bad; i++ {
		evs = append(evs, ev{r.z(), r.b(), r.b(), r.b()})
	}
	if !r.done() {
		return badInput
	}
	w := newWorld(ptoks, flags)
	nodeErr := false
	node := mkNode(1, 64000, 1<<36, nil)
	getNode := func() (*v1.Node, error) {
		if nodeErr {
			return nil, errNode
		}
		return node, nil
	}
	pol := &countingPolicy{Interface: extend.NewExtendResourceForVerif(w.cfg, w.getPods, getNode, w.evictor, queue.NewSqQueue(), &usageGetter{}, 60)}
	h := evh.NewManagerForVerif(w.cfg, w.evictor, pol, getNode, w.getPods)
	out := []int64{}
	for _, e := range evs {
		nodeErr, w.podsErr, pol.fail, pol.n = e.nodeErr, e.podsErr, e.disErr, 0
		var event interface{}
		if e.res == 0 {
			event = framework.NodeResourceEvent{MillCPU: 1, MemoryBytes: 1}
		} else {
			name, ok := resText[e.res]
			if !ok {
				name = v1.ResourceName(fmt.Sprintf("res-%d", e.res))
			}
			event = framework.NodeMonitorEvent{Resource: name}
		}
		err := h.Handle(event)
		code := int64(0)
		switch {
		case err == nil:
		case errors.Is(err, errNode):
			code = 1
		case errors.Is(err, errPods):
			code = 2
		default:
			panic("unexpected error from Handle: " + err.Error())
		}
		out = append(out, tag(11)...)
		out = append(out, code, int64(pol.n))
		out = append(out, w.takeCalls()...)
		out = append(out, w.activeIDs()...)
	}
	if len(w.rec.Events) != w.successes {
		panic(fmt.Sprintf("%d successful evictions but %d events recorded", w.successes, len(w.rec.Events)))
	}
	out = append(out, tag(12)...)
	out = append(out, int64(len(w.flags)), int64(w.successes))
	return out
}

// ---------- selector 3: Cleanup ----------

func runCleanup(in []int64) []int64 {
	r := &rd{t: in}
	ptoks := r.pods()
	flags := readFlags(r)
	nodeErrAt := r.z()
	if !r.done() {
		return badInput
	}
	w := newWorld(ptoks, flags)
	w.nodeErrAt = nodeErrAt
	getNode := func() (*v1.Node, error) { panic("Cleanup reads the node through the configuration, not the getter") }
	pol := extend.NewExtendResourceForVerif(w.cfg, w.getPods, getNode, w.evictor, queue.NewSqQueue(), &usageGetter{}, 60)
	w.nodeGets = 0
	err := pol.Cleanup()
	code := int64(0)
	switch {
	case err == nil:
	case errors.Is(err, errNode):
		code = 1
	default:
		panic("unexpected error from Cleanup: " + err.Error())
	}
	if len(w.rec.Events) != w.successes {
		panic(fmt.Sprintf("%d successful evictions but %d events recorded", w.successes, len(w.rec.Events)))
	}
	// the label must have been reset unless the very first node read failed
	if code == 0 || nodeErrAt != 0 {
		n, gerr := w.client.Tracker().Get(v1.SchemeGroupVersion.WithResource("nodes"), "", nodeName)
		if gerr != nil {
			panic(gerr)
		}
		if n.(*v1.Node).Labels[apis.OverSubscriptionNodeLabelKey] != "false" {
			panic("Cleanup did not reset the over-subscription label")
		}
	}
	out := tag(21)
	out = append(out, code, int64(w.nodeGets-1))
	out = append(out, w.takePasses()...)
	out = append(out, w.activeIDs()...)
	out = append(out, int64(len(w.flags)))
	return out
}

func run(sel int, in []int64) []int64 {
	switch sel {
	case 1:
		return runCalc(in)
	case 2:
		return runPressure(in)
	case 3:
		return runCleanup(in)
	case 4:
		return runPipeline(in)
	case 5:
		return runCalcRealCtor(in)
	}
	panic("unknown selector")
}

// ---------- laws: built from the input and from what the implementation returned ----------

func cat(xs ...[]int64) (o []int64) {
	o = []int64{}
	for _, x := range xs {
		o = append(o, x...)
	}
	return
}

func encList(l []int64) []int64 { return append([]int64{int64(len(l))}, l...) }

func laws(sel int, in, got []int64, law func(lsel int, lin []int64, sig string)) {
	if len(got) == 1 && got[0] == badInput[0] {
		return
	}
	if sel == 4 {
		lawsPipeline(in, got, law)
		return
	}
	g := &rd{t: got}
	expectTag := func(i int64) {
		if g.z() != -100-i {
			panic("harness: output layout")
		}
	}
	switch sel {
	case 1, 5:
		r := &rd{t: in}
		ratio := r.z()
		pops := r.pops()
		allPods := []podTok{}
		for _, ps := range pops {
			allPods = append(allPods, ps...)
		}
		nops := r.n()
		cfgTypes := []int64{}
		samples := []int64{}
		nsamples := 0
		events := []int64{}
		nevents := 0
		var queueNow []int64 = []int64{0}
		for i := 0; i < nops; i++ {
			switch r.z() {
			case 1:
				r.b()
				r.z()
				acpu, amem := r.z(), r.z()
				r.b()
				pol, ucpu, umem := r.z(), r.z(), r.z()
				psel := r.z()
				expectTag(1)
				flag := g.z()
				n := g.n()
				q := []int64{}
				for j := 0; j < 2*n; j++ {
					q = append(q, g.z())
				}
				queueNow = append([]int64{int64(n)}, q...)
				samples = append(samples, acpu, amem, ucpu, umem)
				nsamples++
				if flag != -1 {
					law(101, cat([]int64{ratio, pol}, encPods(popAt(pops, psel)), []int64{acpu, amem, ucpu, umem, q[2*n-2], q[2*n-1]}), "")
				}
			case 2:
				r.b()
				r.z()
				hasAnnot, annot := r.optZlist()
				acpu, amem := r.z(), r.z()
				expectTag(2)
				lin := cat(queueNow, encList(cfgTypes))
				if hasAnnot {
					lin = append(lin, 1)
					lin = append(lin, encList(annot)...)
				} else {
					lin = append(lin, 0)
				}
				if g.z() != 0 {
					c, m := g.z(), g.z()
					events = append(events, acpu, amem, c, m)
					nevents++
					law(102, append(lin, ratio, acpu, amem, 1, c, m), "")
					// against the allocatable the node has at this very report
					law(104, []int64{ratio, acpu, amem, c, m}, "")
				}
			case 3:
				kind := r.z()
				l := r.zlist()
				expectTag(3)
				if g.z() == 0 {
					if kind <= 2 && kind >= 0 {
						panic("RefreshCfg accepted a nil configuration")
					}
					cfgTypes = l
				}
			}
		}
		law(103, cat([]int64{ratio}, encPods(allPods), []int64{int64(nsamples)}, samples, []int64{int64(nevents)}, events), "")
	case 2:
		r := &rd{t: in}
		ptoks := r.pods()
		readFlags(r)
		nev := r.n()
		cur := ptoks
		for i := 0; i < nev; i++ {
			res := r.z()
			r.b()
			r.b()
			r.b()
			expectTag(11)
			code := g.z()
			g.z()
			ncalls := g.n()
			calls := []int64{int64(ncalls)}
			for j := 0; j < 2*ncalls; j++ {
				calls = append(calls, g.z())
			}
			after := g.zlist()
			if code == 0 && (res == 1 || res == 2) {
				law(110, cat([]int64{res}, encPods(cur), calls, encList(after)), "")
			} else {
				// nothing may be evicted by a failed / foreign event
				law(112, cat(encPods(cur), calls, encList(after)), "")
			}
			next := []podTok{}
			for _, id := range after {
				for _, p := range cur {
					if p.id == id {
						next = append(next, p)
						break
					}
				}
			}
			cur = next
		}
	case 3:
		r := &rd{t: in}
		ptoks := r.pods()
		expectTag(21)
		g.z()
		g.z()
		nrounds := g.n()
		passes := []int64{int64(nrounds)}
		for k := 0; k < 2*nrounds; k++ {
			ncalls := g.n()
			passes = append(passes, int64(ncalls))
			for j := 0; j < 2*ncalls; j++ {
				passes = append(passes, g.z())
			}
		}
		after := g.zlist()
		law(111, cat(encPods(ptoks), passes, encList(after)), "")
	}
}

func main() {
	defer func() {
		if kubeletDir != "" {
			os.RemoveAll(kubeletDir)
		}
	}()
	vh.Harness{Run: run, Laws: laws, Gen: gen}.Main()
}
