(* C13 audit witnesses (W1, W2-D, W2-E) on the REPAIRED model (C13/Model.v [step]/[run]).
   Run:  coqtop -R /verif/coq/theories V -w -notation-overridden < /tmp/audit-B-parts/C13-witness.v
   Read-only: loads compiled .vo files, defines nothing under /verif. *)
From stdpp Require Import gmap.
From Coq Require Import ZArith List.
From V Require Import C13.Model C13.Laws C13.Lemmas.
Import ListNotations.
Open Scope Z_scope.

Definition qm (l : list (positive * qobj)) : qmap := list_to_map l.

(* ---------- W1: stuck child after the repair b628b4b, strictly FIFO (only EProc 0) ----------
   forest: 1 = root Open, 2 (parent 1) Open, 3 (parent 2) Open; no annotations; srv = lst;
   no PodGroups; empty index; empty work queue; maxRequeueNum 3 *)
Definition w1_base : qmap :=
  qm [(1%positive, mkQ None SOpen None);
      (2%positive, mkQ (Some 1%positive) SOpen None);
      (3%positive, mkQ (Some 2%positive) SOpen None)].
Definition w1_init : st := mkSt w1_base w1_base ∅ [] [] 3.
Definition w1_hist : list ev :=
  [ECmd 2%positive AClose; ECmd 2%positive AOpen;   (* both commands queued up front *)
   EProc 0;                                         (* Close 2: marks 3, pushes Close 3, 2 -> Closed *)
   ELSync 3%positive; ELSync 2%positive;            (* lister: 3 = (Open, marker true) [+Sync 3], 2 = Closed *)
   EProc 0;                                         (* Open 2: pushes Open 3, 2 -> Open, marker false *)
   ELSync 2%positive;                               (* lister: 2 = Open [+Sync 2] *)
   EProc 0;                                         (* Close 3: 3 -> Closed on the server; lister of 3 NOT delivered *)
   EProc 0;                                         (* Sync 3: lister shows 3 Open -> no-op *)
   EProc 0;                                         (* Open 3: lister shows 3 Open -> (SOpen,AOpen) = sync, no-op *)
   EProc 0;                                         (* Sync 2: no-op *)
   ELSync 3%positive; ELSync 2%positive; ELSync 1%positive]. (* catch up: no parent/marker change on 3 -> no re-sync *)
Definition w1_end : st := run w1_init w1_hist.
(* expected: (true, [], false, Some SOpen, Some SClosed, Some true) *)
Eval vm_compute in
  (caught_up w1_end, wq w1_end, law_no_stuck_child w1_end,
   sst (srv w1_end) 2%positive, sst (srv w1_end) 3%positive, scbp (srv w1_end) 3%positive).
(* as a checked statement *)
Goal caught_up w1_end = true /\ wq w1_end = [] /\ law_no_stuck_child w1_end = false /\
     sst (srv w1_end) 2%positive = Some SOpen /\ sst (srv w1_end) 3%positive = Some SClosed /\
     scbp (srv w1_end) 3%positive = Some true.
Proof. vm_compute. repeat split. Qed.

(* W1, variant without any informer lag (lister fresh at every processing step), non-FIFO:
   the propagated Close 3 is processed AFTER the propagated Open 3 *)
Definition w1b_hist : list ev :=
  [ECmd 2%positive AClose; EProc 0; ELSync 3%positive; ELSync 2%positive;
   ECmd 2%positive AOpen; EProc 2; ELSync 2%positive;
   EProc 2; EProc 1; EProc 0; ELSync 3%positive; ELSync 2%positive; ELSync 1%positive;
   EProc 0; ELSync 3%positive; ELSync 2%positive; ELSync 1%positive].
Definition w1b_end : st := run w1_init w1b_hist.
(* expected: (true, [], false, Some SOpen, Some SClosed, Some true) *)
Eval vm_compute in
  (caught_up w1b_end, wq w1b_end, law_no_stuck_child w1b_end,
   sst (srv w1b_end) 2%positive, sst (srv w1b_end) 3%positive, scbp (srv w1b_end) 3%positive).

(* ---------- W2: Open child under a Closed parent at quiescence ----------
   forest: 1 = root Open, 2 (parent 1) Open, 3 (parent 2) Closed by hand with
   closed-by-parent = "false" (annotations {cbp:"false"}); srv = lst *)
Definition w2_base : qmap :=
  qm [(1%positive, mkQ None SOpen None);
      (2%positive, mkQ (Some 1%positive) SOpen None);
      (3%positive, mkQ (Some 2%positive) SClosed (Some (false, Some false)))].
Definition w2_init : st := mkSt w2_base w2_base ∅ [] [] 3.

(* D (clause 7): parent 2 closed on the server, lister still shows it Open; Open 3 succeeds *)
Definition w2D_hist : list ev :=
  [ECmd 2%positive AClose; EProc 0;      (* 2 -> Closed on the server; child 3 skipped (already Closed) *)
   ECmd 3%positive AOpen; EProc 0;       (* openHierarchicalQueue reads the lister: parent 2 Open -> 3 opened *)
   ELSync 3%positive; ELSync 2%positive; ELSync 1%positive].
Definition w2D_end : st := run w2_init w2D_hist.
(* the Open-3 step itself: outcome OOk although the SERVER's parent is Closed *)
Definition w2D_mid : st := run w2_init [ECmd 2%positive AClose; EProc 0; ECmd 3%positive AOpen].
(* expected: (Some SClosed, OOk) *)
Eval vm_compute in (sst (srv w2D_mid) 2%positive, (proc w2D_mid 0).2).
(* expected: (true, [], Some SClosed, Some SOpen, Some false, true) *)
Eval vm_compute in
  (caught_up w2D_end, wq w2D_end, sst (srv w2D_end) 2%positive, sst (srv w2D_end) 3%positive,
   scbp (srv w2D_end) 3%positive, law_no_stuck_child w2D_end).

(* E (clause 4): child 3 opened on the server, lister still shows it Closed; closing parent 2 skips it *)
Definition w2E_hist : list ev :=
  [ECmd 3%positive AOpen; EProc 0;       (* 3 -> Open on the server, lister of 3 not delivered *)
   ECmd 2%positive AClose; EProc 0;      (* closeHierarchicalQueue: lister shows 3 Closed -> skipped; 2 -> Closed *)
   ELSync 3%positive; ELSync 2%positive; ELSync 1%positive].
Definition w2E_end : st := run w2_init w2E_hist.
(* expected: (true, [], Some SClosed, Some SOpen, Some false, true) *)
Eval vm_compute in
  (caught_up w2E_end, wq w2E_end, sst (srv w2E_end) 2%positive, sst (srv w2E_end) 3%positive,
   scbp (srv w2E_end) 3%positive, law_no_stuck_child w2E_end).

Goal (caught_up w2D_end = true /\ wq w2D_end = [] /\
      sst (srv w2D_end) 2%positive = Some SClosed /\ sst (srv w2D_end) 3%positive = Some SOpen) /\
     (caught_up w2E_end = true /\ wq w2E_end = [] /\
      sst (srv w2E_end) 2%positive = Some SClosed /\ sst (srv w2E_end) 3%positive = Some SOpen).
Proof. vm_compute. repeat split. Qed.
