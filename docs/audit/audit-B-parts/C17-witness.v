(* C17 audit, W1 witness.  Run:  coqtop -R /verif/coq/theories V < /tmp/audit-B-parts/C17-witness.v
   An accepted configuration (valid_config = true, i.e. ParseShardingConfig accepts it) whose
   allocation-rate entry is rejected by Initialize (min 0.8 > max 0.2): the scheduler's initialised
   chain is empty, its configured node-limit{maxNodes:1} never exists, it receives all 5 nodes,
   and C17_shard_bounded / law_bounded / law_eligible have nothing to say. *)
From Coq Require Import ZArith List Bool QArith.
From V Require Import C17.Model C17.Laws C17.Lemmas C17.LawLemmas.
Import ListNotations. Open Scope Z_scope.

Definition bad : sspec :=
  {| ss_name := 1; ss_cpumin := 0; ss_cpumax := 1000; ss_prefer := false;
     ss_minn := 0; ss_maxn := 0; ss_args := [];
     ss_policies := [ {| ps_name := P_ALLOC; ps_weight := 1; ps_args := [(1, 800); (2, 200)] |};
                      {| ps_name := P_LIMIT; ps_weight := 0; ps_args := [(4, 1)] |} ] |}.

(* five nodes named 1..5, no metrics at all *)
Definition five : list node := plain_nodes 5.

(* 1. the configuration is accepted; the node-limit entry alone WOULD initialise to a cap of 1;
      the allocation-rate entry does not initialise; the chain the manager holds is empty *)
Eval vm_compute in valid_config [bad].
Eval vm_compute in map init_policy (map to_ref (apply_defaults bad)).
Eval vm_compute in chain_of [bad] 1.

(* 2. the assignment: all five nodes, configured cap 1 *)
Eval vm_compute in assignments five [] [bad].

(* 3. the laws accept it (they range over the caps / filters of chain_of = []) *)
Eval vm_compute in
  match assignments five [] [bad] with
  | Some r => (law_disjoint r, law_bounded [bad] r, law_eligible five [] [bad] r,
               law_order five [] [bad] r, law_count five [] [bad] r)
  | None => (false, false, false, false, false)
  end.

(* 4. as a closed statement: accepted, cap 1 configured in the YAML chain, 5 nodes assigned,
      and the hypothesis of C17_shard_bounded is unsatisfiable for this scheduler *)
Lemma c17_w1_witness : valid_config [bad] = true /\
     In {| ps_name := P_LIMIT; ps_weight := 0; ps_args := [(4, 1)] |} (ss_policies bad) /\
     assignments five [] [bad] = Some [(1, [1; 2; 3; 4; 5]%positive)] /\
     (forall mn mx, ~ In (RLimit mn mx) (chain_of [bad] 1)).
Proof.
  split; [vm_compute; reflexivity|].
  split; [right; left; reflexivity|].
  split; [vm_compute; reflexivity|].
  intros mn mx H. vm_compute in H. exact H.
Qed.
Print Assumptions c17_w1_witness.

(* 5. a LATER scheduler with a perfectly good chain loses it too (initializePolicies returns at
      the first error): s2 = legacy [0,1] maxNodes 1 placed after the failing s1 *)
Definition good2 : sspec :=
  {| ss_name := 2; ss_cpumin := 0; ss_cpumax := 1000; ss_prefer := false;
     ss_minn := 0; ss_maxn := 1; ss_args := []; ss_policies := [] |}.
Eval vm_compute in (chain_of [bad; good2] 1, chain_of [bad; good2] 2, chain_of [good2] 2).
Eval vm_compute in assignments five [] [bad; good2].
(* and with the good one first: it keeps its chain, the failing one takes every remaining node *)
Definition m5 : metrics := map (fun i => (Pos.of_nat i, Some 500)) (seq 1 5).
Eval vm_compute in assignments five m5 [good2; bad].
