From Coq Require Import ZArith List. Import ListNotations. Open Scope Z_scope.
From V Require Import C19.Model.
Eval vm_compute in snd (crun 100 [] cinit [ORefresh 3 [1;2]; OSample false 1 1000 1000 false 1 0 0; OSample false 1 500 500 false 1 0 0; OReport false 1 None]).
